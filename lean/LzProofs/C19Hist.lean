/-
  LzProofs.C19Hist — property C19, the maximality clauses, at HISTORY level.

  C19: "Every match emitted by the hash and bucket parsers is maximal to the right (the bytes
  following the match and its source differ, or the block/buffer or MaxMatchLen ends) and, for the
  backward-extending variants BHP and BDHP, also to the left down to the start of the pending
  literals (the byte before the match and before its source differ, or no literal is pending, or the
  source would leave the buffer).  Among the candidates of one probe the parser keeps the longest
  and on a tie the nearest one.  [run clause: Runs*.lean]"

  Histories: `runOps (s0, Ghost.init) ops` of LzProofs/ParseHist.lean (`POp`: Write, ReadFrom,
  Parse(&blk, flags), Parse(nil), Shrink, Reset; any arguments), `newParser k raw = some s0`,
  `stateAfter s0 ops` = the parser state reached.

  "next Parse from any reachable state" (covers every block of every history):
    C19_right_maximal_reachable      k ≠ OSAP (HP, BHP, DHP, BDHP, BUP and GSAP), all flags
    C19_left_maximal_reachable       k = BHP ∨ k = BDHP            (`reachable_backward`)
    C19_longest_nearest_reachable    k ∈ {HP, BHP, DHP, BDHP, BUP}  (`Parser.LongestNearest`)
    C19_longest_nearest_bup_reachable   the BUP case spelled out per sequence
  lifted from the per-call theorems `C19_right_maximal`, `C19_left_maximal` (ParseProps) and the new
  per-call theorem `C19_longest_nearest`; the hypotheses `StateOK`, `Greedy`, `backward = true` are
  discharged by `reachable_stateOK`, `reachable_singleFresh`, `reachable_doubleFresh`,
  `reachable_doubleOK`, `reachable_bucketOK` (`reachable_kind_dict`).  No hypothesis is left.

  log level (every `.block` event of the ghost log of every history):
    log_block_origin                 each logged block was returned by a `Parse` of the history
    C19_maximal_reachable_log        right and left clause relative to the STREAM `fed`
                                     (`EventMax` / `SeqMaxStream`, an `EventOK`-style predicate;
                                     `Inv` of ParseHist fixes its event predicate to `EventOK`, so
                                     this is a separate induction over the history)
    C19_right_maximal_reachable_log, C19_left_maximal_reachable_log   the two clauses separately
    C19_longest_nearest_reachable_log   via `log_block_origin` (the candidates live in the search
                                     structure of the state the call started from)

  The third clause.  What "the candidates of one probe" are is read off the code
  (hp.go/bhp.go, dhp.go/bdhp.go, bup.go; model: `hpProbe`, `dhpProbe`, `bupProbe`/`bupScan`):
    * HP / BHP look at ONE table entry per probe (`HashT.cand`);
    * DHP / BDHP look at ONE entry per probe: in the first loop the entry of the long table if its
      stored value matches, otherwise the entry of the short table; in the second loop the entry of
      the short table (`Hash2.cand`).  The lengths of the two entries are never compared;
    * BUP scans all slots of one bucket and keeps the longest candidate, on a tie the one with the
      smaller offset (`bupScan_best`, `BupBest`) — the only parser with a real choice.
  `Parser.LongestNearest` states, for one call: the sequences of the block are exactly the matches
  reported by the probes of the greedy loop (`Chained`: each probe runs on the search structure the
  loop has built so far), and every probe reports its single candidate iff it verifies
  (`oneCandResult`), resp. the longest-then-nearest candidate of its bucket, and nothing only if no
  candidate verifies.  This holds for ARBITRARY table contents; reachability is only needed for
  "no panic", kind ↔ search structure, and `1 ≤ minMatch`.
  If instead BOTH table entries of DHP / BDHP were counted as candidates the clause would be FALSE
  at history level: `bdhp_long_table_first` is a kernel-checked BDHP history (stale long-table entry,
  the known BDHP re-indexing behaviour; no hash collision involved) where the emitted match has 4
  bytes and the short table's entry offers 8.  For DHP the long table is re-indexed everywhere the
  short one is, so such a violation needs a false positive of the long table (equal low 32 bits and
  equal slot for different keys, InputLen2 ≥ 6); no witness is given here.

  Non-vacuity (section Examples, kernel-checked by `decide` through `parseF`):
  `bhp_backward_example` (a BHP history in which a backward extension by two bytes happens and stops
  at differing bytes; HP on the same history emits the shorter match), `bhp_log_example`,
  `bup_tie_nearest_example`, `bup_longest_example`, `bdhp_long_table_first`.
-/
import LzProofs.ProbeW
import LzProofs.ParseProps
namespace LZ
open Parser

/-! ## 1. reachable states: kind and search structure belong together -/

/-- the parser state after the history `ops` on the parser `NewParser` returned -/
abbrev stateAfter (s0 : Parser) (ops : List POp) : Parser := (runOps (s0, Ghost.init) ops).1

/-- the variant of the search structure that belongs to a hash-parser kind -/
def DictOf : Kind → Dict → Prop
  | .HP, d | .BHP, d => ∃ h, d = .single h
  | .DHP, d | .BDHP, d => ∃ t, d = .double t
  | .BUP, d => ∃ b, d = .bucket b
  | _, _ => True

/-- in every reachable state of a hash parser the kind is the one `NewParser` was called for and the
    search structure is the variant of that kind (single table / two tables / buckets) -/
theorem reachable_kind_dict (k : Kind) (hk : ProbeW.HashKind k) (raw : Cfg) (s0 : Parser)
    (h0 : newParser k raw = some s0) (ops : List POp) :
    (stateAfter s0 ops).kind = k ∧ DictOf k (stateAfter s0 ops).dict := by
  have hne : k ≠ .OSAP := by rcases hk with rfl | rfl | rfl | rfl | rfl <;> decide
  have hI := history_inv k raw s0 h0 (histHyp_of_ne k s0 hne) ops
  refine ⟨hI.kind, ?_⟩
  rcases hk with rfl | rfl | rfl | rfl | rfl
  · obtain ⟨⟨h, hd, -⟩, -⟩ := reachable_singleFresh .HP (Or.inl rfl) raw s0 h0 ops
    exact ⟨h, hd⟩
  · obtain ⟨⟨h, hd, -⟩, -⟩ := reachable_singleFresh .BHP (Or.inr rfl) raw s0 h0 ops
    exact ⟨h, hd⟩
  · obtain ⟨-, ⟨d, hd, -⟩, -⟩ := reachable_doubleFresh raw s0 h0 ops
    exact ⟨d, hd⟩
  · obtain ⟨-, ⟨d, hd, -⟩, -⟩ := reachable_doubleOK raw s0 h0 ops
    exact ⟨d, hd⟩
  · obtain ⟨-, ⟨bk, hd, -⟩, -⟩ := reachable_bucketOK raw s0 h0 ops
    exact ⟨bk, hd⟩

/-- in every reachable state of BHP / BDHP `backward` (the flag `C19_left_maximal` asks for) is set -/
theorem reachable_backward (k : Kind) (hk : k = .BHP ∨ k = .BDHP) (raw : Cfg) (s0 : Parser)
    (h0 : newParser k raw = some s0) (ops : List POp) :
    (stateAfter s0 ops).backward = true := by
  rw [backward_iff]
  rcases hk with rfl | rfl
  · obtain ⟨h1, h, h2⟩ := reachable_kind_dict .BHP (by simp [ProbeW.HashKind]) raw s0 h0 ops
    exact Or.inl ⟨h, h2, h1⟩
  · obtain ⟨h1, d, h2⟩ := reachable_kind_dict .BDHP (by simp [ProbeW.HashKind]) raw s0 h0 ops
    exact Or.inr ⟨d, h2, h1⟩

/-- **C19 at history level, right-maximality.**  For every greedy parser kind (`k ≠ OSAP`: HP, BHP,
    DHP, BDHP, BUP — and GSAP), every accepted configuration, every history `ops` and all `flags`:
    every sequence of the block the next `Parse(&blk, flags)` returns is right-maximal in the block
    prefix `Data[:W + min(len(Data) - W, BlockSize)]` — the match ends at the end of the block
    prefix or the byte behind it differs from the byte `Offset` back (`SeqRightMax`, the statement
    of the per-call theorem `C19_right_maximal`; positions are buffer positions, `SeqsAll_iff`
    spells `SeqsAll` out).  Without unparsed data the block has no sequence. -/
theorem C19_right_maximal_reachable (k : Kind) (hk : k ≠ .OSAP) (raw : Cfg) (s0 : Parser)
    (h0 : newParser k raw = some s0) (ops : List POp) (flags : Nat) :
    let s := stateAfter s0 ops
    SeqsAll (SeqRightMax s.blockPrefix) s.buf.w (s.parse flags).2.2.2.seqs := by
  intro s
  obtain ⟨hs, hg⟩ := reachable_stateOK k raw s0 h0 hk ops
  by_cases hlt : s.buf.w < s.buf.data.length
  · exact C19_right_maximal s flags hs hg hlt
  · rw [C03_parse_empty s flags (by omega)]
    trivial

/-- **C19 at history level, left-maximality (BHP, BDHP).**  Every sequence of the block the next
    `Parse(&blk, flags)` returns after any history has no pending literal (`LitLen = 0`), or the
    source of its match starts at `Data[0]` (`Offset = ` position of the match), or the byte before
    the match differs from the byte before its source (`SeqLeftMax`, the statement of the per-call
    theorem `C19_left_maximal`, whose hypothesis `backward = true` is `reachable_backward`). -/
theorem C19_left_maximal_reachable (k : Kind) (hk : k = .BHP ∨ k = .BDHP) (raw : Cfg) (s0 : Parser)
    (h0 : newParser k raw = some s0) (ops : List POp) (flags : Nat) :
    let s := stateAfter s0 ops
    SeqsAll (SeqLeftMax s.blockPrefix) s.buf.w (s.parse flags).2.2.2.seqs := by
  intro s
  have hne : k ≠ .OSAP := by rcases hk with rfl | rfl <;> decide
  obtain ⟨hs, hg⟩ := reachable_stateOK k raw s0 h0 hne ops
  by_cases hlt : s.buf.w < s.buf.data.length
  · exact C19_left_maximal s flags hs hg hlt (reachable_backward k hk raw s0 h0 ops)
  · rw [C03_parse_empty s flags (by omega)]
    trivial

/-! ## 2. the probes of one greedy loop -/

/-- one probe of the greedy loop: the search structure BEFORE the probe, the probed position, the
    first uncovered byte, and what the finder reported -/
structure ProbeRec (δ : Type) where
  d : δ
  i : Nat
  li : Nat
  res : Option (Nat × Nat × Nat)

/-- the sequence the loop appends for a reported match `(start, len, offset)` -/
def ProbeRec.toSeq {δ} (r : ProbeRec δ) : Option Seq :=
  r.res.map fun m => { litLen := m.1 - r.li, matchLen := m.2.1, offset := m.2.2 }

/-- `tr` is exactly the list of probes the greedy loop performs from search structure `d`, position
    `i`, first uncovered byte `li` up to `stop`: each record holds the current state and the
    finder's answer, the next probe starts from the finder's new structure at `i + 1` (no match) or
    behind the match, and the list ends only when `stop` is reached -/
def Chained {δ} (F : Finder δ) (p : List Byte) (stop : Nat) :
    δ → Nat → Nat → List (ProbeRec δ) → Prop
  | _, i, _, [] => stop ≤ i
  | d, i, li, r :: rs =>
    i < stop ∧ r.d = d ∧ r.i = i ∧ r.li = li ∧ r.res = (F.probe d p i li).2 ∧
    match r.res with
    | none => Chained F p stop (F.probe d p i li).1 (i + 1) li rs
    | some (s, k, _) => Chained F p stop (F.probe d p i li).1 (s + k) (s + k) rs

/-- the probes of `greedyLoop`, by the same recursion -/
def probeTrace {δ} (F : Finder δ) (p : List Byte) (stop : Nat) (d : δ) (i li : Nat) :
    List (ProbeRec δ) :=
  if _h : i < stop then
    match _hp : F.probe d p i li with
    | (d', none) => ⟨d, i, li, none⟩ :: probeTrace F p stop d' (i + 1) li
    | (d', some (s, k, o)) =>
      if _hk : s + k > i then ⟨d, i, li, some (s, k, o)⟩ :: probeTrace F p stop d' (s + k) (s + k)
      else []   -- unreachable under the probe contract, as in `greedyLoop`
  else []
termination_by stop - i
decreasing_by all_goals simp_wf; all_goals omega

theorem probeTrace_stop {δ} (F : Finder δ) (p : List Byte) (stop : Nat) (d : δ) (i li : Nat)
    (h : ¬ i < stop) : probeTrace F p stop d i li = [] := by
  rw [probeTrace]; simp only [h, dite_false]

theorem probeTrace_none {δ} (F : Finder δ) (p : List Byte) (stop : Nat) (d : δ) (i li : Nat)
    (h : i < stop) (d' : δ) (hp : F.probe d p i li = (d', none)) :
    probeTrace F p stop d i li = ⟨d, i, li, none⟩ :: probeTrace F p stop d' (i + 1) li := by
  rw [probeTrace]; simp only [h, dite_true]
  split
  · rename_i d2 heq
    rw [hp] at heq
    simp only [Prod.mk.injEq, and_true] at heq
    subst heq; rfl
  · rename_i d2 s2 k2 o2 heq
    rw [hp] at heq; simp at heq

theorem probeTrace_some {δ} (F : Finder δ) (p : List Byte) (stop : Nat) (d : δ) (i li : Nat)
    (h : i < stop) (d' : δ) (s k o : Nat) (hp : F.probe d p i li = (d', some (s, k, o)))
    (hk : s + k > i) :
    probeTrace F p stop d i li =
      ⟨d, i, li, some (s, k, o)⟩ :: probeTrace F p stop d' (s + k) (s + k) := by
  rw [probeTrace]; simp only [h, dite_true]
  split
  · rename_i d2 heq
    rw [hp] at heq; simp at heq
  · rename_i d2 s2 k2 o2 heq
    rw [hp] at heq
    simp only [Prod.mk.injEq, Option.some.injEq] at heq
    obtain ⟨hd, hs, hk2, ho⟩ := heq
    subst hd hs hk2 ho
    simp only [hk, dite_true]

/-- the sequences of the loop are the reported matches of its probes, in order, and `probeTrace`
    is the complete chain of probes (for a finder satisfying the probe contract) -/
theorem greedyLoop_trace {δ} (F : Finder δ) (p : List Byte) (ws mm stop : Nat)
    (hF : ProbeOK F p ws mm) :
    ∀ st : LoopSt δ, st.litIndex ≤ st.i →
      (greedyLoop F p stop st).seqs =
        st.seqs ++ (probeTrace F p stop st.dict st.i st.litIndex).filterMap ProbeRec.toSeq ∧
      Chained F p stop st.dict st.i st.litIndex (probeTrace F p stop st.dict st.i st.litIndex) := by
  intro st
  induction st using greedyLoop.induct F p stop with
  | case1 st h d hp ih =>
    intro hli
    have ih' := ih (by simp; omega)
    rw [probeTrace_none F p stop _ _ _ h d hp]
    rw [greedyLoop]; simp only [h, dite_true]
    split
    · rename_i d2 heq
      rw [hp] at heq
      simp only [Prod.mk.injEq, and_true] at heq
      subst heq
      refine ⟨?_, ?_⟩
      · rw [ih'.1]; simp [List.filterMap_cons, ProbeRec.toSeq]
      · refine ⟨h, rfl, rfl, rfl, by rw [hp], ?_⟩
        show Chained F p stop (F.probe st.dict p st.i st.litIndex).1 (st.i + 1) st.litIndex _
        rw [hp]; exact ih'.2
    · rename_i d2 s2 k2 o2 heq
      rw [hp] at heq; simp at heq
  | case2 st h d s k o hp hk q ih =>
    intro hli
    obtain ⟨p1, p2, p3, hm, p5, p6⟩ := hF _ _ _ _ _ _ _ hli hp
    have ih' := ih (Nat.le_refl _)
    rw [probeTrace_some F p stop _ _ _ h d s k o hp hk]
    rw [greedyLoop]; simp only [h, dite_true]
    split
    · rename_i d2 heq
      rw [hp] at heq; simp at heq
    · rename_i d2 s2 k2 o2 heq
      rw [hp] at heq
      simp only [Prod.mk.injEq, Option.some.injEq] at heq
      obtain ⟨hd, hs, hk2, ho⟩ := heq
      subst hd hs hk2 ho
      simp only [hk, dite_true]
      have hq : q.length = s - st.litIndex := by
        have := hm.2.2.1
        simp [q]; omega
      refine ⟨?_, ?_⟩
      · rw [ih'.1]; simp [ProbeRec.toSeq, hq]
      · refine ⟨h, rfl, rfl, rfl, by rw [hp], ?_⟩
        show Chained F p stop (F.probe st.dict p st.i st.litIndex).1 (s + k) (s + k) _
        rw [hp]; exact ih'.2
  | case3 st h d s k o hp hk =>
    intro hli
    exact absurd (hF _ _ _ _ _ _ _ hli hp).2.2.1 hk
  | case4 st h =>
    intro _
    rw [probeTrace_stop F p stop _ _ _ h]
    rw [greedyLoop]; simp only [h, dite_false]
    exact ⟨by simp, by simp only [Chained]; omega⟩

/-- every record of a chain holds the finder's answer for its own state -/
theorem Chained.res {δ} {F : Finder δ} {p : List Byte} {stop : Nat} :
    ∀ {tr : List (ProbeRec δ)} {d : δ} {i li : Nat}, Chained F p stop d i li tr →
      ∀ r, r ∈ tr → r.res = (F.probe r.d p r.i r.li).2 := by
  intro tr
  induction tr with
  | nil => intro d i li _ r hr; simp at hr
  | cons r0 rs ih =>
    intro d i li hc r hr
    obtain ⟨-, h1, h2, h3, h4, h5⟩ := hc
    rcases List.mem_cons.1 hr with rfl | hr
    · rw [h1, h2, h3]; exact h4
    · cases hres : r0.res with
      | none => rw [hres] at h5; exact ih h5 r hr
      | some m =>
        obtain ⟨s, k, o⟩ := m
        rw [hres] at h5; exact ih h5 r hr

/-! ## 3. the candidates of a probe and the choice among them -/

/-- the match the hash parsers report for the verified candidate `j` at position `i` (`li` = first
    uncovered byte): forward length `lcpLen`, for BHP / BDHP (`back`) extended backwards -/
def matchOf (p : List Byte) (back : Bool) (i li j : Nat) : Nat × Nat × Nat :=
  (i - (if back then backExt p i li j else 0),
   lcpLen (p.drop j) (p.drop i) + (if back then backExt p i li j else 0), i - j)

/-- a probe with ONE candidate: the candidate is reported iff it passes the verification
    (`CandGood`: earlier position, inside the window, at least `mm` common bytes) -/
def oneCandResult (ws mm : Nat) (p : List Byte) (back : Bool) (i li : Nat) :
    Option Nat → Option (Nat × Nat × Nat)
  | none => none
  | some j => if CandGood ws mm p i j then some (matchOf p back i li j) else none

/-- the candidate a hash table offers for position `i`: the position stored in the slot of the key
    of `i`, if the stored value is the value of that key -/
def HashT.cand (h : HashT) (p : List Byte) (i : Nat) : Option Nat :=
  if lo32 (h.key p i) = (h.slot (h.key p i)).2 then some (h.slot (h.key p i)).1 else none

/-- the candidate of DHP / BDHP: in the first loop (`i < e2`) the entry of the long table if its
    value matches, otherwise the entry of the short table; in the second loop the short table only.
    The parsers look at ONE entry per probe; lengths of the two entries are never compared. -/
def Hash2.cand (d : Hash2) (e2 : Nat) (p : List Byte) (i : Nat) : Option Nat :=
  if i < e2 then
    match d.h2.cand p i with
    | some j => some j
    | none => d.h1.cand p i
  else d.h1.cand p i

/-- the verification every hash parser performs on its candidate `j`, whatever it does to the
    search structure (`A`, `B`) -/
theorem verify_tail {α} (A B : α) (ws mm : Nat) (p : List Byte) (back : Bool) (i li j : Nat) :
    (if ¬ (j < i ∧ i - j ≤ ws) then (A, none)
     else if lcpLen (p.drop j) (p.drop i) < mm then (A, none)
     else (B, some (i - (if back then backExt p i li j else 0),
            lcpLen (p.drop j) (p.drop i) + (if back then backExt p i li j else 0), i - j))).2 =
      oneCandResult ws mm p back i li (some j) := by
  unfold oneCandResult matchOf
  simp only []
  by_cases h2 : j < i ∧ i - j ≤ ws
  · rw [if_neg (fun hn => hn h2)]
    by_cases h3 : lcpLen (p.drop j) (p.drop i) < mm
    · rw [if_pos h3, if_neg (fun hc : CandGood _ _ _ _ _ => by have := hc.2.2; omega)]
    · rw [if_neg h3, if_pos (show CandGood _ _ _ _ _ from ⟨h2.1, h2.2, by omega⟩)]
  · rw [if_pos h2, if_neg (fun hc : CandGood _ _ _ _ _ => h2 ⟨hc.1, hc.2.1⟩)]

/-- HP / BHP: the result of a probe in closed form -/
theorem hpProbe_res (ws mm ie : Nat) (back : Bool) (h : HashT) (p : List Byte) (i li : Nat) :
    (hpProbe ws mm ie back h p i li).2 = oneCandResult ws mm p back i li (h.cand p i) := by
  unfold hpProbe HashT.cand HashT.slot
  simp only []
  by_cases h1 : lo32 (h.key p i) = (h.tbl.getD (hashValue (h.key p i) h.hashBits) (0, 0)).2
  · rw [if_neg (fun hn => hn h1), if_pos h1]
    exact verify_tail _ _ ws mm p back i li _
  · rw [if_pos h1, if_neg h1]
    rfl

/-- DHP / BDHP: the result of a probe in closed form -/
theorem dhpProbe_res (ws mm e1 e2 : Nat) (back : Bool) (d : Hash2) (p : List Byte) (i li : Nat) :
    (dhpProbe ws mm e1 e2 back d p i li).2 = oneCandResult ws mm p back i li (d.cand e2 p i) := by
  unfold dhpProbe Hash2.cand HashT.cand HashT.slot
  simp only []
  by_cases hi : i < e2
  · simp only [hi, if_true]
    by_cases h2 : lo32 (d.h2.key p i) = (d.h2.tbl.getD (hashValue (d.h2.key p i) d.h2.hashBits) (0, 0)).2
    · rw [if_neg (fun hn => hn h2), if_pos h2]
      exact verify_tail _ _ ws mm p back i li _
    · rw [if_pos h2, if_neg h2]
      by_cases h1 : lo32 (d.h1.key p i) = (d.h1.tbl.getD (hashValue (d.h1.key p i) d.h1.hashBits) (0, 0)).2
      · rw [if_neg (fun hn => hn h1), if_pos h1]
        exact verify_tail _ _ ws mm p back i li _
      · rw [if_pos h1, if_neg h1]
        rfl
  · simp only [hi, if_false]
    by_cases h1 : lo32 (d.h1.key p i) = (d.h1.tbl.getD (hashValue (d.h1.key p i) d.h1.hashBits) (0, 0)).2
    · rw [if_neg (fun hn => hn h1), if_pos h1]
      exact verify_tail _ _ ws mm p back i li _
    · rw [if_pos h1, if_neg h1]
      rfl

/-! ### BUP: several candidates -/

/-- `j` is a candidate of the BUP probe at `i`: a slot of the bucket of the key of `i` holds position
    `j` with the value of that key -/
def BucketT.Cand (bk : BucketT) (p : List Byte) (i j : Nat) : Prop :=
  bk.Has (hashValue (bk.key p i) bk.hashBits) (j, lo32 (bk.key p i))

/-- **longest, on a tie nearest**: what a BUP probe at `i` on the buckets `bk` reports.
    * no match: no candidate of the bucket passes the verification (`CandGood`);
    * a match `(i, k, o)`: it belongs to a candidate `j` of the bucket that passes the verification
      (`o = i - j`, `k = lcpLen`), and every candidate `j'` of the bucket at an earlier position
      inside the window offers a shorter match, or an equally long one at an offset `≥ o`. -/
def BupBest (ws mm : Nat) (p : List Byte) (bk : BucketT) (i : Nat) :
    Option (Nat × Nat × Nat) → Prop
  | none => ∀ j, bk.Cand p i j → ¬ CandGood ws mm p i j
  | some (s, k, o) =>
    s = i ∧
    (∃ j, bk.Cand p i j ∧ CandGood ws mm p i j ∧ k = lcpLen (p.drop j) (p.drop i) ∧ o = i - j) ∧
    ∀ j', bk.Cand p i j' → j' < i → i - j' ≤ ws →
      lcpLen (p.drop j') (p.drop i) < k ∨ (lcpLen (p.drop j') (p.drop i) = k ∧ o ≤ i - j')

/-- slot `s` (relative to `base`) holds a candidate for position `i`: the value `v` of the key of
    `i`, an earlier position, inside the window -/
def SlotValid (bk : BucketT) (i ws v base s : Nat) : Prop :=
  v = (bk.buckets.getD (base + s) (0, 0)).2 ∧ (bk.buckets.getD (base + s) (0, 0)).1 < i ∧
    i - (bk.buckets.getD (base + s) (0, 0)).1 ≤ ws

/-- the match length slot `s` offers -/
def slotLen (bk : BucketT) (p : List Byte) (i base s : Nat) : Nat :=
  lcpLen (p.drop (bk.buckets.getD (base + s) (0, 0)).1) (p.drop i)

/-- `r = (offset, length)` is a correct result of scanning `slots` with running best `(o, k)`:
    it is the running best or a valid candidate of the scanned slots, at least as good as the
    running best (longer, or equally long and not farther), and at least as good as every valid
    candidate of the scanned slots -/
def ScanGood (bk : BucketT) (p : List Byte) (i ws v base : Nat) (slots : List Nat) (o k : Nat)
    (r : Nat × Nat) : Prop :=
  (k < r.2 ∨ (k = r.2 ∧ r.1 ≤ o)) ∧
  (r = (o, k) ∨ ∃ s, s ∈ slots ∧ SlotValid bk i ws v base s ∧
      r.1 = i - (bk.buckets.getD (base + s) (0, 0)).1 ∧ r.2 = slotLen bk p i base s) ∧
  ∀ s, s ∈ slots → SlotValid bk i ws v base s →
    slotLen bk p i base s < r.2 ∨
      (slotLen bk p i base s = r.2 ∧ r.1 ≤ i - (bk.buckets.getD (base + s) (0, 0)).1)

/-- the head slot is skipped (it is no valid candidate, or not better than the running best) -/
theorem ScanGood.skip {bk : BucketT} {p : List Byte} {i ws v base s : Nat} {rest : List Nat}
    {o k : Nat} {r : Nat × Nat} (h : ScanGood bk p i ws v base rest o k r)
    (hhead : SlotValid bk i ws v base s → slotLen bk p i base s < k ∨
      (slotLen bk p i base s = k ∧ o ≤ i - (bk.buckets.getD (base + s) (0, 0)).1)) :
    ScanGood bk p i ws v base (s :: rest) o k r := by
  obtain ⟨a1, a2, a3⟩ := h
  refine ⟨a1, ?_, ?_⟩
  · rcases a2 with a2 | ⟨s', hs', b⟩
    · exact Or.inl a2
    · exact Or.inr ⟨s', List.mem_cons_of_mem _ hs', b⟩
  · intro s' hs' hv
    rcases List.mem_cons.1 hs' with h | h
    · subst h
      have := hhead hv
      omega
    · exact a3 s' h hv

/-- the head slot becomes the running best -/
theorem ScanGood.take {bk : BucketT} {p : List Byte} {i ws v base s : Nat} {rest : List Nat}
    {o k : Nat} {r : Nat × Nat} (hv : SlotValid bk i ws v base s)
    (h : ScanGood bk p i ws v base rest (i - (bk.buckets.getD (base + s) (0, 0)).1)
      (slotLen bk p i base s) r)
    (hb : ¬ (slotLen bk p i base s < k ∨
      (slotLen bk p i base s = k ∧ i - (bk.buckets.getD (base + s) (0, 0)).1 ≥ o))) :
    ScanGood bk p i ws v base (s :: rest) o k r := by
  obtain ⟨a1, a2, a3⟩ := h
  refine ⟨by omega, ?_, ?_⟩
  · right
    rcases a2 with a2 | ⟨s', hs', b⟩
    · exact ⟨s, List.mem_cons_self, hv, by rw [a2], by rw [a2]⟩
    · exact ⟨s', List.mem_cons_of_mem _ hs', b⟩
  · intro s' hs' hv'
    rcases List.mem_cons.1 hs' with h | h
    · subst h; exact a1
    · exact a3 s' h hv'

/-- **the scan of a bucket keeps the longest candidate and on a tie the nearest one** -/
theorem bupScan_best (bk : BucketT) (p : List Byte) (i ws v base : Nat) :
    ∀ (slots : List Nat) (o k : Nat),
      ScanGood bk p i ws v base slots o k (bupScan bk p i ws v base slots o k) := by
  intro slots
  induction slots with
  | nil =>
    intro o k
    exact ⟨Or.inr ⟨rfl, Nat.le_refl _⟩, Or.inl rfl, fun s hs => by simp at hs⟩
  | cons s rest ih =>
    intro o k
    unfold bupScan
    simp only []
    split
    · -- value mismatch
      rename_i hv
      exact (ih o k).skip (fun h => absurd h.1 hv)
    · split
      · -- outside the window
        rename_i hv hw
        exact (ih o k).skip (fun h => absurd ⟨h.2.1, h.2.2⟩ hw)
      · split
        · -- quick reject: the byte at `k - 1` differs, so the candidate is shorter than `k`
          rename_i hv hw hq
          refine (ih o k).skip (fun _ => Or.inl ?_)
          apply Decidable.byContradiction
          intro hge
          unfold slotLen at hge
          have := lcpLen_getElem? (p.drop (bk.buckets.getD (base + s) (0, 0)).1) (p.drop i) (k - 1)
            (by omega)
          simp only [List.getElem?_drop] at this
          apply hq.2
          have e1 : (bk.buckets.getD (base + s) (0, 0)).1 + k - 1 =
              (bk.buckets.getD (base + s) (0, 0)).1 + (k - 1) := by omega
          have e2 : i + k - 1 = i + (k - 1) := by omega
          rw [e1, e2]; exact this
        · split
          · -- not better
            rename_i hv hw hq hb
            refine (ih o k).skip (fun _ => ?_)
            unfold slotLen
            omega
          · -- better: the candidate becomes the running best
            rename_i hv hw hq hb
            have hw' := Decidable.not_not.mp hw
            exact ScanGood.take ⟨Decidable.not_not.mp hv, hw'.1, hw'.2⟩ (ih _ _) hb

/-- BUP: every probe reports the longest candidate of its bucket and on a tie the nearest one, and
    reports nothing only if no candidate passes the verification — whatever the buckets contain -/
theorem bupProbe_best (ws mm ie : Nat) (hmm : 1 ≤ mm) (bk : BucketT) (p : List Byte) (i li : Nat) :
    BupBest ws mm p bk i (bupProbe ws mm ie bk p i li).2 := by
  rw [bupProbe_eq]
  obtain ⟨a1, a2, a3⟩ := bupScan_best bk p i ws (lo32 (bk.key p i))
    (hashValue (bk.key p i) bk.hashBits * bk.bucketSize) (List.range bk.bucketSize) 0 0
  have hall : ∀ j', bk.Cand p i j' → j' < i → i - j' ≤ ws →
      lcpLen (p.drop j') (p.drop i) < (bupBest bk p i ws).2 ∨
        (lcpLen (p.drop j') (p.drop i) = (bupBest bk p i ws).2 ∧ (bupBest bk p i ws).1 ≤ i - j') := by
    intro j' ⟨s', hs', he⟩ hj hw
    have := a3 s' (List.mem_range.2 hs') (by unfold SlotValid; rw [he]; exact ⟨rfl, hj, hw⟩)
    unfold slotLen at this
    rw [he] at this
    exact this
  split
  · rename_i hlt
    intro j hc hg
    have := hall j hc hg.1 hg.2.1
    have := hg.2.2
    omega
  · rename_i hge
    refine ⟨rfl, ?_, hall⟩
    rcases a2 with a2 | ⟨s', hs', hv, b1, b2⟩
    · exfalso
      have : (bupBest bk p i ws).2 = 0 := by unfold bupBest; rw [a2]
      omega
    · refine ⟨(bk.buckets.getD (hashValue (bk.key p i) bk.hashBits * bk.bucketSize + s') (0, 0)).1,
        ⟨s', List.mem_range.1 hs', ?_⟩, ⟨hv.2.1, hv.2.2, ?_⟩, b2, b1⟩
      · exact Prod.ext rfl hv.1.symm
      · have : (bupBest bk p i ws).2 = slotLen bk p i
            (hashValue (bk.key p i) bk.hashBits * bk.bucketSize) s' := b2
        unfold slotLen at this
        omega

/-! ## 4. one block, one `Parse` call -/

/-- `seqs` are exactly the matches reported by the probes of one greedy loop (from the search
    structure `d0` at position `w` up to `stop`), in order, and each of these probes — its search
    structure BEFORE the probe, position, first uncovered byte, result — satisfies `Best` -/
def BlockProbes {δ} (F : Finder δ) (p : List Byte) (stop : Nat) (d0 : δ) (w : Nat)
    (Best : δ → Nat → Nat → Option (Nat × Nat × Nat) → Prop) (seqs : List Seq) : Prop :=
  ∃ tr : List (ProbeRec δ), Chained F p stop d0 w w tr ∧ seqs = tr.filterMap ProbeRec.toSeq ∧
    ∀ r, r ∈ tr → Best r.d r.i r.li r.res

theorem finishBlock_seqs {δ} (p : List Byte) (flags : Nat) (st : LoopSt δ) :
    (finishBlock p flags st).2.seqs = st.seqs := by
  unfold finishBlock; split <;> rfl

theorem runGreedy_blockProbes {δ} (F : Finder δ) (d : δ) (p : List Byte) (ws mm w stop flags : Nat)
    (Best : δ → Nat → Nat → Option (Nat × Nat × Nat) → Prop) (hF : ProbeOK F p ws mm)
    (hB : ∀ d i li, Best d i li (F.probe d p i li).2) :
    BlockProbes F p stop d w Best (runGreedy F d p w stop flags).2.2.1.seqs := by
  obtain ⟨h1, h2⟩ := greedyLoop_trace F p ws mm stop hF
    { dict := d, i := w, litIndex := w, seqs := [], lits := [] } (Nat.le_refl _)
  refine ⟨probeTrace F p stop d w w, h2, ?_, ?_⟩
  · show (finishBlock p flags _).2.seqs = _
    rw [finishBlock_seqs, h1]; rfl
  · intro r hr
    rw [h2.res r hr]; exact hB _ _ _

/-- **C19, "among the candidates of one probe the parser keeps the longest and on a tie the nearest
    one", for one `Parse(&blk, flags)` on the state `s`**: the sequences `seqs` of the block are
    exactly the matches the probes of the call report, and every probe
    * HP / BHP (one table): looks at ONE candidate — the entry of the slot of its key
      (`HashT.cand`) — and reports it iff it passes the verification (`oneCandResult`);
    * DHP / BDHP (two tables): looks at ONE candidate — in the first loop the entry of the long
      table if its value matches, else the entry of the short table; in the second loop the entry
      of the short table (`Hash2.cand`) — and reports it iff it passes the verification;
    * BUP: reports the longest of the candidates of its bucket, on a tie the nearest (`BupBest`).
    The search structure of each probe is the one the loop has built up to that probe
    (`Chained`, starting from the structure after `processSegment`). -/
def Parser.LongestNearest (s : Parser) (seqs : List Seq) : Prop :=
  let w := s.buf.w
  let p := s.blockPrefix
  let ws := s.buf.cfg.windowSize
  let mm := s.minMatch
  match s.dict with
  | .single h =>
    let h1 := processSegment1 h s.buf.data ((w : Int) - h.inputLen + 1) w
    let ie := p.length + 1 - h1.inputLen
    BlockProbes ⟨hpProbe ws mm ie (s.kind == .BHP)⟩ p ie h1 w
      (fun d i li res => res = oneCandResult ws mm p (s.kind == .BHP) i li (d.cand p i)) seqs
  | .double d =>
    let hh := processSegment2 d.h1 d.h2 s.buf.data ((w : Int) - d.h2.inputLen + 1) w
    let e1 := p.length + 1 - hh.1.inputLen
    let e2 := p.length + 1 - hh.2.inputLen
    BlockProbes ⟨dhpProbe ws mm e1 e2 (s.kind == .BDHP)⟩ p e1 ⟨hh.1, hh.2⟩ w
      (fun d i li res => res = oneCandResult ws mm p (s.kind == .BDHP) i li (d.cand e2 p i)) seqs
  | .bucket bk =>
    let b1 := processSegmentB bk s.buf.data ((w : Int) - bk.inputLen + 1) w
    let ie := p.length + 1 - b1.inputLen
    BlockProbes ⟨bupProbe ws mm ie⟩ p ie b1 w (fun d i _ res => BupBest ws mm p d i res) seqs
  | _ => True

/-- C19, longest / nearest, one call on an arbitrary state with unparsed data (the search structure
    may hold anything) -/
theorem C19_longest_nearest (s : Parser) (flags : Nat) (hs : StateOK s)
    (hlt : s.buf.w < s.buf.data.length) :
    s.LongestNearest (s.parse flags).2.2.2.seqs := by
  have hn : s.blockN ≠ 0 := by
    rw [ne_eq, blockN_eq_zero_iff s hs.w_le hs.blockSize]; omega
  have hm := marginOK_of_cap s hs.cap hn
  have hmm := hs.minMatch
  unfold Parser.LongestNearest
  cases hd : s.dict with
  | single h =>
    rw [parse_single s flags h hd hn hm]
    exact runGreedy_blockProbes _ _ _ _ _ _ _ _ _
      ((hpProbe_verifying _ _ _ _ _).probeOK hmm) (fun d i li => hpProbe_res _ _ _ _ d _ i li)
  | double d =>
    rw [parse_double s flags d hd hn hm]
    exact runGreedy_blockProbes _ _ _ _ _ _ _ _ _
      ((dhpProbe_verifying _ _ _ _ _ _).probeOK hmm) (fun d i li => dhpProbe_res _ _ _ _ _ d _ i li)
  | bucket bk =>
    rw [parse_bucket s flags bk hd hn hm]
    exact runGreedy_blockProbes _ _ _ _ _ _ _ _ _
      ((bupProbe_verifying _ _ _ hmm _).probeOK hmm) (fun d i li => bupProbe_best _ _ _ hmm d _ i li)
  | gsap g => trivial
  | osap o => trivial

/-- every sequence of a block described by `BlockProbes` is the answer of one of the probes -/
theorem BlockProbes.of_mem {δ} {F : Finder δ} {p : List Byte} {stop : Nat} {d0 : δ} {w : Nat}
    {Best : δ → Nat → Nat → Option (Nat × Nat × Nat) → Prop} {seqs : List Seq}
    (h : BlockProbes F p stop d0 w Best seqs) (sq : Seq) (hsq : sq ∈ seqs) :
    ∃ d i li s k o, (F.probe d p i li).2 = some (s, k, o) ∧ Best d i li (some (s, k, o)) ∧
      sq = { litLen := s - li, matchLen := k, offset := o } := by
  obtain ⟨tr, hc, rfl, hb⟩ := h
  obtain ⟨r, hr, hrs⟩ := List.mem_filterMap.1 hsq
  have h1 := hc.res r hr
  have h2 := hb r hr
  unfold ProbeRec.toSeq at hrs
  cases hres : r.res with
  | none => rw [hres] at hrs; simp at hrs
  | some m =>
    obtain ⟨s, k, o⟩ := m
    rw [hres] at hrs h1 h2
    simp only [Option.map_some, Option.some.injEq] at hrs
    exact ⟨r.d, r.i, r.li, s, k, o, h1.symm, h2, hrs.symm⟩

/-! ## 5. history level -/

/-- **C19 at history level, longest / nearest.**  For every hash parser kind (HP, BHP, DHP, BDHP,
    BUP), every accepted configuration, every history `ops` and all `flags`: the state reached has
    the kind and the search structure of that kind, and if data is unparsed the sequences of the
    block the next `Parse(&blk, flags)` returns are exactly the matches reported by its probes, each
    probe choosing among ITS candidates as `Parser.LongestNearest` says (BUP: the longest candidate
    of the bucket, on a tie the nearest; HP/BHP: the one entry of the table; DHP/BDHP: the entry of
    the long table if its value matches, else the entry of the short table). -/
theorem C19_longest_nearest_reachable (k : Kind) (hk : ProbeW.HashKind k) (raw : Cfg) (s0 : Parser)
    (h0 : newParser k raw = some s0) (ops : List POp) (flags : Nat) :
    let s := stateAfter s0 ops
    s.kind = k ∧ DictOf k s.dict ∧
    (s.buf.w < s.buf.data.length → s.LongestNearest (s.parse flags).2.2.2.seqs) := by
  intro s
  have hne : k ≠ .OSAP := by rcases hk with rfl | rfl | rfl | rfl | rfl <;> decide
  obtain ⟨hs, -⟩ := reachable_stateOK k raw s0 h0 hne ops
  obtain ⟨h1, h2⟩ := reachable_kind_dict k hk raw s0 h0 ops
  exact ⟨h1, h2, fun hlt => C19_longest_nearest s flags hs hlt⟩

/-- the BUP case spelled out per sequence: every match of every block of every BUP history was
    reported by a probe at some position `i` on some bucket table `bk`; it starts at `i`, its source
    `j` is a candidate of the bucket of `i`, its length is the full common prefix of `j` and `i`
    inside the block prefix, and every other candidate `j'` of that bucket (earlier position, inside
    the window) offers a shorter match, or an equally long one at an offset that is not smaller. -/
theorem C19_longest_nearest_bup_reachable (raw : Cfg) (s0 : Parser)
    (h0 : newParser .BUP raw = some s0) (ops : List POp) (flags : Nat) :
    let s := stateAfter s0 ops
    ∀ sq, sq ∈ (s.parse flags).2.2.2.seqs →
      ∃ (bk : BucketT) (i li j : Nat), bk.Cand s.blockPrefix i j ∧
        CandGood s.buf.cfg.windowSize s.minMatch s.blockPrefix i j ∧
        sq.litLen = i - li ∧ sq.offset = i - j ∧
        sq.matchLen = lcpLen (s.blockPrefix.drop j) (s.blockPrefix.drop i) ∧
        ∀ j', bk.Cand s.blockPrefix i j' → j' < i → i - j' ≤ s.buf.cfg.windowSize →
          lcpLen (s.blockPrefix.drop j') (s.blockPrefix.drop i) < sq.matchLen ∨
          (lcpLen (s.blockPrefix.drop j') (s.blockPrefix.drop i) = sq.matchLen ∧
            sq.offset ≤ i - j') := by
  intro s sq hsq
  obtain ⟨-, ⟨bk0, hd⟩, hL⟩ := C19_longest_nearest_reachable .BUP (by simp [ProbeW.HashKind]) raw s0 h0
    ops flags
  by_cases hlt : s.buf.w < s.buf.data.length
  · have := hL hlt
    unfold Parser.LongestNearest at this
    rw [show (stateAfter s0 ops).dict = .bucket bk0 from hd] at this
    obtain ⟨d, i, li, s1, k, o, -, hb, rfl⟩ := this.of_mem sq hsq
    obtain ⟨rfl, ⟨j, c1, c2, c3, c4⟩, c5⟩ := hb
    subst c3 c4
    exact ⟨d, s1, li, j, c1, c2, rfl, rfl, rfl, c5⟩
  · rw [C03_parse_empty s flags (by have := (reachable_stateOK .BUP raw s0 h0 (by decide) ops).1.w_le; omega)]
      at hsq
    simp at hsq

/-! ## 6. log level: every block of every history -/

theorem log_block_origin_aux : ∀ (ops : List POp) (sg : Parser × Ghost) (n fl : Nat) (blk : Block),
    Event.block n fl blk ∈ (runOps sg ops).2.log →
    Event.block n fl blk ∈ sg.2.log ∨
    ∃ ops1 ops2, ops = ops1 ++ POp.parse fl :: ops2 ∧
      ((runOps sg ops1).1.parse fl).2 = (n, .ok, blk) := by
  intro ops
  induction ops with
  | nil => intro sg n fl blk h; exact Or.inl h
  | cons op ops ih =>
    intro sg n fl blk h
    have h' : Event.block n fl blk ∈ (runOps (step sg op) ops).2.log := h
    rcases ih (step sg op) n fl blk h' with h1 | ⟨ops1, ops2, e1, e2⟩
    · cases op with
      | write p => exact Or.inl h1
      | readFrom r => exact Or.inl h1
      | shrink => exact Or.inl h1
      | parse flags =>
        simp only [step] at h1
        split at h1
        · rename_i hok
          simp only [List.mem_append, List.mem_singleton, Event.block.injEq] at h1
          rcases h1 with h1 | ⟨rfl, rfl, rfl⟩
          · exact Or.inl h1
          · refine Or.inr ⟨[], ops, rfl, ?_⟩
            show (sg.1.parse fl).2 = _
            rw [← hok]
        · exact Or.inl h1
      | parseNil =>
        simp only [step] at h1
        split at h1
        · simp only [List.mem_append, List.mem_singleton, reduceCtorEq, or_false] at h1
          exact Or.inl h1
        · exact Or.inl h1
      | reset data capExtra =>
        simp only [step] at h1
        split at h1
        · simp at h1
        · exact Or.inl h1
    · exact Or.inr ⟨op :: ops1, ops2, by rw [e1]; rfl, e2⟩

/-- **every `.block n flags blk` event in the ghost log of a history was returned (with error `nil`
    and count `n`) by a `Parse(&blk, flags)` call of that history**, i.e. by `parse flags` on the
    state reached after a prefix `ops1` of the history -/
theorem log_block_origin (s0 : Parser) (ops : List POp) (n fl : Nat) (blk : Block)
    (h : Event.block n fl blk ∈ (runOps (s0, Ghost.init) ops).2.log) :
    ∃ ops1 ops2, ops = ops1 ++ POp.parse fl :: ops2 ∧
      ((stateAfter s0 ops1).parse fl).2 = (n, .ok, blk) := by
  rcases log_block_origin_aux ops (s0, Ghost.init) n fl blk h with h1 | h1
  · simp [Ghost.init] at h1
  · exact h1

/-- C19, longest / nearest, log level: every block in the ghost log of a history of a hash parser
    was returned by a `Parse` call of that history, and its sequences are the matches reported by the
    probes of that call, each chosen among the candidates of its probe as `Parser.LongestNearest`
    says for the state `stateAfter s0 ops1` the call started from -/
theorem C19_longest_nearest_reachable_log (k : Kind) (hk : ProbeW.HashKind k) (raw : Cfg)
    (s0 : Parser) (h0 : newParser k raw = some s0) (ops : List POp) (n fl : Nat) (blk : Block)
    (h : Event.block n fl blk ∈ (runOps (s0, Ghost.init) ops).2.log) :
    ∃ ops1 ops2, ops = ops1 ++ POp.parse fl :: ops2 ∧
      ((stateAfter s0 ops1).parse fl).2 = (n, .ok, blk) ∧
      (stateAfter s0 ops1).kind = k ∧ DictOf k (stateAfter s0 ops1).dict ∧
      (stateAfter s0 ops1).LongestNearest blk.seqs := by
  obtain ⟨ops1, ops2, e1, e2⟩ := log_block_origin s0 ops n fl blk h
  obtain ⟨a1, a2, a3⟩ := C19_longest_nearest_reachable k hk raw s0 h0 ops1 fl
  refine ⟨ops1, ops2, e1, e2, a1, a2, ?_⟩
  have hne : k ≠ .OSAP := by rcases hk with rfl | rfl | rfl | rfl | rfl <;> decide
  have hw := (reachable_stateOK k raw s0 h0 hne ops1).1.w_le
  by_cases hlt : (stateAfter s0 ops1).buf.w < (stateAfter s0 ops1).buf.data.length
  · have := a3 hlt
    rw [e2] at this; exact this
  · rw [C03_parse_empty _ fl (by omega)] at e2
    simp at e2

/-! ### right / left maximality relative to the stream -/

/-- C19 for one sequence relative to the stream `fed` (positions are stream positions since the last
    Reset): `lim` is the end of the block prefix the call saw (`min(len(Data) - W, BlockSize)` bytes
    behind the start of the block), `base` the stream position of `Data[0]` at the time of the call.
    * the match lies inside the block prefix;
    * right: it ends at `lim`, or the next byte differs from the byte `Offset` back;
    * left (`back`, BHP / BDHP): no pending literal, or the source starts at `Data[0]`, or the byte
      before the match differs from the byte before the source. -/
def SeqMaxStream (fed : List Byte) (back : Bool) (base lim : Nat) (q : Nat) (sq : Seq) : Prop :=
  q + sq.litLen + sq.matchLen ≤ lim ∧ 1 ≤ sq.offset ∧ sq.offset ≤ q + sq.litLen ∧
  (q + sq.litLen + sq.matchLen = lim ∨
    fed[q + sq.litLen + sq.matchLen]? ≠ fed[q + sq.litLen + sq.matchLen - sq.offset]?) ∧
  (back = true → sq.litLen = 0 ∨ sq.offset = q + sq.litLen - base ∨
    fed[q + sq.litLen - 1]? ≠ fed[q + sq.litLen - 1 - sq.offset]?)

/-- the C19 guarantee of an event at stream position `pos` -/
def EventMax (fed : List Byte) (back : Bool) (bs : Nat) (pos : Nat) : Event → Prop
  | .block n fl blk =>
    ∃ base lim, base ≤ pos ∧ pos + n ≤ lim ∧ lim ≤ pos + bs ∧ lim ≤ fed.length ∧
      ((fl % 2 = 0 ∨ blk.seqs = []) → lim = pos + n) ∧
      SeqsAll (SeqMaxStream fed back base lim) pos blk.seqs
  | .skip _ => True

theorem SeqMaxStream.append {fed : List Byte} {back : Bool} {base lim q : Nat} {sq : Seq}
    (h : SeqMaxStream fed back base lim q sq) (hl : lim ≤ fed.length) (x : List Byte) :
    SeqMaxStream (fed ++ x) back base lim q sq := by
  obtain ⟨a1, a2, a3, a4, a5⟩ := h
  refine ⟨a1, a2, a3, ?_, ?_⟩
  · rcases a4 with a4 | a4
    · exact Or.inl a4
    · by_cases he : q + sq.litLen + sq.matchLen = lim
      · exact Or.inl he
      · right
        rw [List.getElem?_append_left (by omega), List.getElem?_append_left (by omega)]
        exact a4
  · intro hb
    rcases a5 hb with a5 | a5 | a5
    · exact Or.inl a5
    · exact Or.inr (Or.inl a5)
    · by_cases h0 : sq.litLen = 0
      · exact Or.inl h0
      · right; right
        rw [List.getElem?_append_left (by omega), List.getElem?_append_left (by omega)]
        exact a5

theorem EventMax.append {fed : List Byte} {back : Bool} {bs pos : Nat} {e : Event}
    (h : EventMax fed back bs pos e) (x : List Byte) : EventMax (fed ++ x) back bs pos e := by
  cases e with
  | skip b => trivial
  | block n fl blk =>
    obtain ⟨base, lim, b1, b2, b3, b4, b5, b6⟩ := h
    refine ⟨base, lim, b1, b2, b3, by simp; omega, b5, ?_⟩
    exact SeqsAll.mono (fun q sq hq => hq.append b4 x) _ _ b6

/-- a sequence that is good in the block prefix `p = data.take L` (buffer positions) is maximal in
    the stream `dropped ++ data` (stream positions: shifted by `|dropped|`) -/
theorem seqGood_stream (dropped data : List Byte) (L ws mm : Nat) (back : Bool) (hL : L ≤ data.length)
    (q : Nat) (sq : Seq) (h : SeqGood (data.take L) ws mm back q sq) :
    SeqMaxStream (dropped ++ data) back dropped.length (dropped.length + L) (q + dropped.length) sq := by
  obtain ⟨hwf, hgen, hr, hl⟩ := h
  obtain ⟨w1, w2, w3, w4, w5⟩ := hwf
  obtain ⟨g1, g2, g3, g4⟩ := hgen
  have hpl : (data.take L).length = L := by simp; omega
  rw [hpl] at g3
  have get : ∀ x, x < L → (data.take L)[x]? = (dropped ++ data)[dropped.length + x]? := by
    intro x hx
    rw [List.getElem?_take_of_lt hx, List.getElem?_append_right (by omega)]
    congr 1; omega
  refine ⟨by omega, w1, by omega, ?_, ?_⟩
  · unfold SeqRightMax at hr
    rw [hpl] at hr
    by_cases he : q + sq.litLen + sq.matchLen = L
    · left; omega
    · right
      rcases hr with hr | hr
      · exact absurd hr he
      · rw [get _ (by omega), get _ (by omega)] at hr
        have e1 : q + dropped.length + sq.litLen + sq.matchLen =
            dropped.length + (q + sq.litLen + sq.matchLen) := by omega
        have e2 : q + dropped.length + sq.litLen + sq.matchLen - sq.offset =
            dropped.length + (q + sq.litLen + sq.matchLen - sq.offset) := by omega
        rw [e2, e1]; exact hr
  · intro hb
    rcases hl hb with hl | hl | hl
    · exact Or.inl hl
    · right; left; omega
    · by_cases h0 : sq.litLen = 0
      · exact Or.inl h0
      · by_cases h1 : sq.offset = q + sq.litLen
        · right; left; omega
        · right; right
          rw [get _ (by omega), get _ (by omega)] at hl
          have e1 : q + dropped.length + sq.litLen - 1 = dropped.length + (q + sq.litLen - 1) := by omega
          have e2 : q + dropped.length + sq.litLen - 1 - sq.offset =
              dropped.length + (q + sq.litLen - 1 - sq.offset) := by omega
          rw [e2, e1]; exact hl

/-- every event of the log satisfies `EventMax` relative to the bytes fed so far -/
def MaxLog (back : Bool) (bs : Nat) (sg : Parser × Ghost) : Prop :=
  LogAll (EventMax sg.2.fed back bs) 0 sg.2.log

theorem maxLog_step_parse (k : Kind) (hne : k ≠ .OSAP) (raw : Cfg) (s0 : Parser)
    (h0 : newParser k raw = some s0) (back : Bool) (hb : back = true → k = .BHP ∨ k = .BDHP)
    (ops0 : List POp) (flags : Nat)
    (hM : MaxLog back s0.buf.cfg.blockSize (runOps (s0, Ghost.init) ops0)) :
    MaxLog back s0.buf.cfg.blockSize (step (runOps (s0, Ghost.init) ops0) (.parse flags)) := by
  have hI := history_inv k raw s0 h0 (histHyp_of_ne k s0 hne) ops0
  obtain ⟨hs, hg⟩ := reachable_stateOK k raw s0 h0 hne ops0
  have hback : back = true → (stateAfter s0 ops0).backward = true :=
    fun h => reachable_backward k (hb h) raw s0 h0 ops0
  generalize hsg : runOps (s0, Ghost.init) ops0 = sg at hM hI hs hg hback
  obtain ⟨s, g⟩ := sg
  have hs' : (stateAfter s0 ops0) = s := by show (runOps (s0, Ghost.init) ops0).1 = s; rw [hsg]
  rw [hs'] at hback
  simp only at hs hg
  by_cases hn : s.blockN = 0
  · simp only [step, Parser.parse_empty s flags hn]
    simp only [reduceCtorEq, if_false]
    exact hM
  obtain ⟨s', n, blk, hp, hok, -⟩ :=
    Parser.parse_greedy_ok s flags hs.w_le hn hs.minMatch (Parser.marginOK_of_cap s hs.cap hn) hg
  simp only [step, hp, if_true]
  obtain ⟨dropped, hf, hdl⟩ := hI.fed
  have hcons := hI.consumed
  have hspan := hI.span
  have hbc := hI.bcfg
  simp only at hf hdl hcons hspan hbc
  have hN := s.blockN_le
  have hw := hs.w_le
  unfold MaxLog at hM ⊢
  simp only at hM ⊢
  rw [LogAll_append]
  refine ⟨hM, ?_, trivial⟩
  rw [hspan, hcons, Nat.zero_add]
  refine ⟨s.buf.off, s.buf.off + (s.buf.w + s.blockN), by omega, ?_, ?_, ?_, ?_, ?_⟩
  · have := hok.n_le; omega
  · rw [← hbc]; omega
  · rw [hf]; simp; omega
  · intro hfl
    have := hok.block.full hfl
    rw [s.blockPrefix_length hw] at this
    omega
  · have h1 : SeqsAll (SeqGood (s.buf.data.take (s.buf.w + s.blockN)) s.buf.cfg.windowSize s.minMatch back)
        s.buf.w blk.seqs := by
      refine SeqsAll.mono ?_ _ _ hok.block.all
      intro q sq hq
      exact ⟨hq.1, hq.2.1, hq.2.2.1, fun hbk => hq.2.2.2 (hback hbk)⟩
    have h2 := SeqsAll.shift dropped.length
      (fun q sq hq => seqGood_stream dropped s.buf.data (s.buf.w + s.blockN) _ _ back (by omega) q sq hq)
      _ _ h1
    rw [hdl, ← hf] at h2
    rw [Nat.add_comm s.buf.off s.buf.w]
    exact h2

theorem maxLog_step_other (back : Bool) (bs : Nat) (sg : Parser × Ghost) (op : POp)
    (hop : ∀ fl, op ≠ .parse fl) (hM : MaxLog back bs sg) : MaxLog back bs (step sg op) := by
  unfold MaxLog at hM ⊢
  cases op with
  | parse fl => exact absurd rfl (hop fl)
  | write p => exact LogAll.mono (fun pos e he => he.append _) _ _ hM
  | readFrom r => exact LogAll.mono (fun pos e he => he.append _) _ _ hM
  | shrink => exact hM
  | parseNil =>
    simp only [step]
    split
    · simp only
      rw [LogAll_append]
      exact ⟨hM, trivial, trivial⟩
    · exact hM
  | reset data capExtra =>
    simp only [step]
    split
    · trivial
    · exact hM

theorem runOps_snoc (sg : Parser × Ghost) (ops : List POp) (op : POp) :
    runOps sg (ops ++ [op]) = step (runOps sg ops) op := by
  simp [runOps, List.foldl_append]

theorem maxLog_runOps (k : Kind) (hne : k ≠ .OSAP) (raw : Cfg) (s0 : Parser)
    (h0 : newParser k raw = some s0) (back : Bool) (hb : back = true → k = .BHP ∨ k = .BDHP) :
    ∀ (ops ops0 : List POp), MaxLog back s0.buf.cfg.blockSize (runOps (s0, Ghost.init) ops0) →
      MaxLog back s0.buf.cfg.blockSize (runOps (s0, Ghost.init) (ops0 ++ ops)) := by
  intro ops
  induction ops with
  | nil => intro ops0 h; simpa using h
  | cons op ops ih =>
    intro ops0 h
    have e : ops0 ++ op :: ops = (ops0 ++ [op]) ++ ops := by simp
    rw [e]
    apply ih
    rw [runOps_snoc]
    by_cases hop : ∃ fl, op = .parse fl
    · obtain ⟨fl, rfl⟩ := hop
      exact maxLog_step_parse k hne raw s0 h0 back hb ops0 fl h
    · exact maxLog_step_other back _ _ op (fun fl hfl => hop ⟨fl, hfl⟩) h

/-- **C19 maximality at log level, relative to the stream.**  For every greedy parser kind
    (`k ≠ OSAP`: HP, BHP, DHP, BDHP, BUP, GSAP), every accepted configuration and every history:
    every `.block` event of the ghost log, at stream position `pos`, has a block-prefix end `lim`
    (`pos + n ≤ lim ≤ pos + BlockSize`, `lim ≤` bytes fed, `lim = pos + n` without
    `NoTrailingLiterals`) and a buffer start `base ≤ pos` such that every match of the block
    ends at `lim` or before a byte that differs from the byte `Offset` back, and — for `back = true`,
    allowed for BHP and BDHP — has no pending literal before it, or its source starts at `base`, or
    the bytes before the match and before its source differ (`SeqMaxStream`, stream positions). -/
theorem C19_maximal_reachable_log (k : Kind) (hne : k ≠ .OSAP) (raw : Cfg) (s0 : Parser)
    (h0 : newParser k raw = some s0) (back : Bool) (hb : back = true → k = .BHP ∨ k = .BDHP)
    (ops : List POp) :
    let g := (runOps (s0, Ghost.init) ops).2
    LogAll (EventMax g.fed back s0.buf.cfg.blockSize) 0 g.log := by
  have := maxLog_runOps k hne raw s0 h0 back hb ops [] (by simp [MaxLog, runOps, Ghost.init, LogAll])
  simpa [MaxLog] using this

/-- right-maximality alone, relative to the stream (all greedy kinds) -/
theorem C19_right_maximal_reachable_log (k : Kind) (hne : k ≠ .OSAP) (raw : Cfg) (s0 : Parser)
    (h0 : newParser k raw = some s0) (ops : List POp) :
    let g := (runOps (s0, Ghost.init) ops).2
    LogAll (fun pos e => ∀ n fl blk, e = .block n fl blk →
      ∃ lim, pos + n ≤ lim ∧ lim ≤ pos + s0.buf.cfg.blockSize ∧ lim ≤ g.fed.length ∧
        ((fl % 2 = 0 ∨ blk.seqs = []) → lim = pos + n) ∧
        SeqsAll (fun q sq => q + sq.litLen + sq.matchLen ≤ lim ∧
          (q + sq.litLen + sq.matchLen = lim ∨
            g.fed[q + sq.litLen + sq.matchLen]? ≠ g.fed[q + sq.litLen + sq.matchLen - sq.offset]?))
          pos blk.seqs) 0 g.log := by
  intro g
  refine LogAll.mono ?_ _ _ (C19_maximal_reachable_log k hne raw s0 h0 false (by simp) ops)
  intro pos e he n fl blk heq
  subst heq
  obtain ⟨base, lim, -, b2, b3, b4, b5, b6⟩ := he
  exact ⟨lim, b2, b3, b4, b5, SeqsAll.mono (fun q sq h => ⟨h.1, h.2.2.2.1⟩) _ _ b6⟩

/-- left-maximality alone, relative to the stream (BHP, BDHP): `base` is the stream position of
    `Data[0]` at the time of the call -/
theorem C19_left_maximal_reachable_log (k : Kind) (hk : k = .BHP ∨ k = .BDHP) (raw : Cfg)
    (s0 : Parser) (h0 : newParser k raw = some s0) (ops : List POp) :
    let g := (runOps (s0, Ghost.init) ops).2
    LogAll (fun pos e => ∀ n fl blk, e = .block n fl blk →
      ∃ base, base ≤ pos ∧
        SeqsAll (fun q sq => sq.litLen = 0 ∨ sq.offset = q + sq.litLen - base ∨
          g.fed[q + sq.litLen - 1]? ≠ g.fed[q + sq.litLen - 1 - sq.offset]?) pos blk.seqs) 0 g.log := by
  intro g
  have hne : k ≠ .OSAP := by rcases hk with rfl | rfl <;> decide
  refine LogAll.mono ?_ _ _ (C19_maximal_reachable_log k hne raw s0 h0 true (fun _ => hk) ops)
  intro pos e he n fl blk heq
  subst heq
  obtain ⟨base, lim, b1, -, -, -, -, b6⟩ := he
  exact ⟨base, b1, SeqsAll.mono (fun q sq h => h.2.2.2.2 rfl) _ _ b6⟩

/-! ## 7. non-vacuity and witnesses (kernel-checked) -/

section Examples

/-- WindowSize 64 = BufferSize, BlockSize 48; HP/BHP/BUP: InputLen 3, 16 slots (BUP: buckets of 4);
    DHP/BDHP: InputLen1 3, InputLen2 4, 64 slots per table -/
def hCfg : Cfg :=
  { windowSize := 64, bufferSize := 64, blockSize := 48, shrinkSize := 16, inputLen := 3, hashBits := 4,
    inputLen1 := 3, hashBits1 := 6, inputLen2 := 4, hashBits2 := 6, bucketSize := 4 }

/-- the parser `NewParser` returns for `hCfg` -/
def hS0 (k : Kind) : Parser :=
  { kind := k, cfg := setDefaults k (hCfg.restrict k),
    buf := PBuf.init (setDefaults k (hCfg.restrict k)).bufCfg,
    dict := freshDict k (setDefaults k (hCfg.restrict k)) }

theorem hS0_new (k : Kind) (hv : verify k (setDefaults k (hCfg.restrict k)) = true) :
    newParser k hCfg = some (hS0 k) := by
  unfold newParser
  simp only []
  rw [if_pos hv]
  rfl

/-- "Zabcdefgh1371" -/
def bhData1 : List Byte := [90, 97, 98, 99, 100, 101, 102, 103, 104, 49, 51, 55, 49]
/-- "51abcdefgh" -/
def bhData2 : List Byte := [53, 49, 97, 98, 99, 100, 101, 102, 103, 104]

/-- the history: `Write("Zabcdefgh1371")`, `Write("51abcdefgh")` -/
def bhOps : List POp := [.write bhData1, .write bhData2]

set_option maxRecDepth 100000 in
/-- **A backward extension really happens in a BHP history** (kernel-checked).  After the two
    writes the buffer holds "Zabcdefgh137151abcdefgh".  With 16 table slots the entries of "abc" and
    "bcd" (positions 1, 2) have been overwritten when the second "abcdefgh" (position 15) is reached,
    so HP finds the match only at position 17: 17 literals, then 6 bytes at offset 14.  BHP extends
    that match two bytes backwards over the pending literals "ab": 15 literals, then 8 bytes at
    offset 14 — and stops there because the bytes before the match ('1', position 14) and before
    its source ('Z', position 0) differ: exactly the third alternative of `SeqLeftMax`
    (`LitLen = 15 ≠ 0`, `Offset = 14 ≠ 15`). -/
theorem bhp_backward_example :
    let s := stateAfter (hS0 .BHP) bhOps
    newParser .BHP hCfg = some (hS0 .BHP) ∧ newParser .HP hCfg = some (hS0 .HP) ∧
    s.buf.w = 0 ∧ s.blockPrefix = bhData1 ++ bhData2 ∧
    (s.parse 0).2.2.2.seqs = [⟨15, 8, 14, 0⟩] ∧
    ((stateAfter (hS0 .HP) bhOps).parse 0).2.2.2.seqs = [⟨17, 6, 14, 0⟩] ∧
    s.blockPrefix[14]? ≠ s.blockPrefix[0]? := by
  intro s
  have hs : s = List.foldl stepPF (hS0 .BHP) bhOps := runOps_fst_F _ _
  have hs' : stateAfter (hS0 .HP) bhOps = List.foldl stepPF (hS0 .HP) bhOps := runOps_fst_F _ _
  have hp : s.blockPrefix = bhData1 ++ bhData2 := by rw [hs]; decide
  refine ⟨hS0_new _ (by decide), hS0_new _ (by decide), by rw [hs]; decide, hp, ?_, ?_, ?_⟩
  · rw [hs, parse_eq_parseF]; decide
  · rw [hs', parse_eq_parseF]; decide
  · rw [hp]; decide

/-- the history theorems applied to that history: the hypotheses are satisfiable and the
    conclusions speak about the block of `bhp_backward_example` -/
example :
    let s := stateAfter (hS0 .BHP) bhOps
    SeqsAll (SeqRightMax s.blockPrefix) s.buf.w (s.parse 0).2.2.2.seqs ∧
    SeqsAll (SeqLeftMax s.blockPrefix) s.buf.w (s.parse 0).2.2.2.seqs ∧
    (s.buf.w < s.buf.data.length → s.LongestNearest (s.parse 0).2.2.2.seqs) :=
  ⟨C19_right_maximal_reachable .BHP (by decide) hCfg _ (hS0_new _ (by decide)) bhOps 0,
   C19_left_maximal_reachable .BHP (Or.inl rfl) hCfg _ (hS0_new _ (by decide)) bhOps 0,
   (C19_longest_nearest_reachable .BHP (by simp [ProbeW.HashKind]) hCfg _ (hS0_new _ (by decide))
     bhOps 0).2.2⟩

set_option maxRecDepth 100000 in
/-- log level, non-vacuity: the history `Write, Write, Parse(&blk, 0)` leaves exactly one event in
    the ghost log — the block of `bhp_backward_example` at stream position 0 — and
    `C19_maximal_reachable_log` (with the left clause, `back = true`) speaks about it -/
theorem bhp_log_example :
    let g := (runOps (hS0 .BHP, Ghost.init) (bhOps ++ [.parse 0])).2
    g.fed = bhData1 ++ bhData2 ∧
    g.log = [.block 23 0 ⟨[⟨15, 8, 14, 0⟩], (bhData1 ++ bhData2).take 15⟩] ∧
    EventMax g.fed true 48 0 (.block 23 0 ⟨[⟨15, 8, 14, 0⟩], (bhData1 ++ bhData2).take 15⟩) := by
  intro g
  have hpar : ((stateAfter (hS0 .BHP) bhOps).parse 0).2 =
      (23, .ok, ⟨[⟨15, 8, 14, 0⟩], (bhData1 ++ bhData2).take 15⟩) := by
    have hs : stateAfter (hS0 .BHP) bhOps = List.foldl stepPF (hS0 .BHP) bhOps := runOps_fst_F _ _
    rw [hs, parse_eq_parseF]; decide
  have hg0 : (runOps (hS0 .BHP, Ghost.init) bhOps).2.fed = bhData1 ++ bhData2 ∧
      (runOps (hS0 .BHP, Ghost.init) bhOps).2.log.length = 0 := by decide
  have hlog0 : (runOps (hS0 .BHP, Ghost.init) bhOps).2.log = [] := List.eq_nil_of_length_eq_zero hg0.2
  have hg : g = { (runOps (hS0 .BHP, Ghost.init) bhOps).2 with
      consumed := (runOps (hS0 .BHP, Ghost.init) bhOps).2.consumed + 23,
      log := (runOps (hS0 .BHP, Ghost.init) bhOps).2.log ++
        [.block 23 0 ⟨[⟨15, 8, 14, 0⟩], (bhData1 ++ bhData2).take 15⟩] } := by
    show (runOps (hS0 .BHP, Ghost.init) (bhOps ++ [.parse 0])).2 = _
    rw [runOps_snoc]
    have e1 : ((runOps (hS0 .BHP, Ghost.init) bhOps).1.parse 0).2.2.1 = .ok := by
      show ((stateAfter (hS0 .BHP) bhOps).parse 0).2.2.1 = .ok
      rw [hpar]
    have e2 : ((runOps (hS0 .BHP, Ghost.init) bhOps).1.parse 0).2.1 = 23 := by
      show ((stateAfter (hS0 .BHP) bhOps).parse 0).2.1 = 23
      rw [hpar]
    have e3 : ((runOps (hS0 .BHP, Ghost.init) bhOps).1.parse 0).2.2.2 =
        ⟨[⟨15, 8, 14, 0⟩], (bhData1 ++ bhData2).take 15⟩ := by
      show ((stateAfter (hS0 .BHP) bhOps).parse 0).2.2.2 = _
      rw [hpar]
    simp only [step, e1, if_true, e2, e3]
  have hfed : g.fed = bhData1 ++ bhData2 := by rw [hg]; exact hg0.1
  have hlog : g.log = [.block 23 0 ⟨[⟨15, 8, 14, 0⟩], (bhData1 ++ bhData2).take 15⟩] := by
    rw [hg]; simp only [hlog0, List.nil_append]
  refine ⟨hfed, hlog, ?_⟩
  have hbs : (hS0 .BHP).buf.cfg.blockSize = 48 := by decide
  have := C19_maximal_reachable_log .BHP (by decide) hCfg _ (hS0_new _ (by decide)) true
    (fun _ => Or.inl rfl) (bhOps ++ [.parse 0])
  simp only at this
  rw [show (runOps (hS0 .BHP, Ghost.init) (bhOps ++ [.parse 0])).2 = g from rfl, hlog, hbs] at this
  exact this.1

/-- "abcXabcYabcZ" -/
def buData1 : List Byte := [97, 98, 99, 88, 97, 98, 99, 89, 97, 98, 99, 90]
/-- "abcdXabcYabcdZ" -/
def buData2 : List Byte := [97, 98, 99, 100, 88, 97, 98, 99, 89, 97, 98, 99, 100, 90]

set_option maxRecDepth 100000 in
/-- **BUP, a tie: the nearest candidate wins** (kernel-checked).  In "abcXabcYabcZ" the probe at
    position 8 finds positions 0 and 4 in the bucket of "abc"; both offer 3 bytes; the match is
    emitted with offset 4, not 8. -/
theorem bup_tie_nearest_example :
    let s := stateAfter (hS0 .BUP) [.write buData1]
    newParser .BUP hCfg = some (hS0 .BUP) ∧ s.buf.w = 0 ∧ s.blockPrefix = buData1 ∧
    (s.parse 0).2.2.2.seqs = [⟨4, 3, 4, 0⟩, ⟨1, 3, 4, 0⟩] ∧
    lcpLen (buData1.drop 0) (buData1.drop 8) = 3 ∧ lcpLen (buData1.drop 4) (buData1.drop 8) = 3 := by
  intro s
  have hs : s = List.foldl stepPF (hS0 .BUP) [.write buData1] := runOps_fst_F _ _
  refine ⟨hS0_new _ (by decide), by rw [hs]; decide, by rw [hs]; decide, ?_, by decide, by decide⟩
  rw [hs, parse_eq_parseF]; decide

set_option maxRecDepth 100000 in
/-- **BUP: the longest candidate wins over a nearer one** (kernel-checked).  In "abcdXabcYabcdZ"
    the probe at position 9 finds positions 0 (4 common bytes) and 5 (3 common bytes) in the bucket
    of "abc"; the match is emitted with length 4 and offset 9. -/
theorem bup_longest_example :
    let s := stateAfter (hS0 .BUP) [.write buData2]
    s.buf.w = 0 ∧ s.blockPrefix = buData2 ∧
    (s.parse 0).2.2.2.seqs = [⟨5, 3, 5, 0⟩, ⟨1, 4, 9, 0⟩] ∧
    lcpLen (buData2.drop 0) (buData2.drop 9) = 4 ∧ lcpLen (buData2.drop 5) (buData2.drop 9) = 3 := by
  intro s
  have hs : s = List.foldl stepPF (hS0 .BUP) [.write buData2] := runOps_fst_F _ _
  refine ⟨by rw [hs]; decide, by rw [hs]; decide, ?_, by decide, by decide⟩
  rw [hs, parse_eq_parseF]; decide

/-- "XabcdQXabcdefghRabcdefghS" -/
def bdData : List Byte :=
  [88, 97, 98, 99, 100, 81, 88, 97, 98, 99, 100, 101, 102, 103, 104, 82, 97, 98, 99, 100, 101, 102,
   103, 104, 83]

set_option maxRecDepth 100000 in
/-- **DHP / BDHP do not compare their two table entries** (kernel-checked witness; this is why
    `Hash2.cand` is ONE candidate and `Parser.LongestNearest` claims no more for these parsers).
    Buffer "XabcdQXabcdefghRabcdefghS", InputLen1 3, InputLen2 4, no hash collisions involved.
    The match "Xabcd" at position 6 covers position 7; BDHP re-indexes the covered positions only in
    the short table, so the long table keeps "abcd" ↦ 1 while the short table has "abc" ↦ 7.  The
    probe at position 16 takes the entry of the long table — position 1, 4 common bytes, offset 15 —
    although the entry of the short table — position 7, offset 9, inside the window — offers 8
    bytes.  DHP, which re-indexes both tables, emits those 8 bytes at offset 9 for the same history.
    So "the longest of the entries of BOTH tables" is FALSE for reachable BDHP states; the clause
    holds for the candidate the probe actually looks at. -/
theorem bdhp_long_table_first :
    let s := stateAfter (hS0 .BDHP) [.write bdData]
    newParser .BDHP hCfg = some (hS0 .BDHP) ∧ newParser .DHP hCfg = some (hS0 .DHP) ∧
    s.buf.w = 0 ∧ s.blockPrefix = bdData ∧
    (s.parse 0).2.2.2.seqs = [⟨6, 5, 6, 0⟩, ⟨5, 4, 15, 0⟩, ⟨0, 4, 9, 0⟩] ∧
    ((stateAfter (hS0 .DHP) [.write bdData]).parse 0).2.2.2.seqs = [⟨6, 5, 6, 0⟩, ⟨5, 8, 9, 0⟩] ∧
    lcpLen (bdData.drop 1) (bdData.drop 16) = 4 ∧ lcpLen (bdData.drop 7) (bdData.drop 16) = 8 := by
  intro s
  have hs : s = List.foldl stepPF (hS0 .BDHP) [.write bdData] := runOps_fst_F _ _
  have hs' : stateAfter (hS0 .DHP) [.write bdData] = List.foldl stepPF (hS0 .DHP) [.write bdData] :=
    runOps_fst_F _ _
  refine ⟨hS0_new _ (by decide), hS0_new _ (by decide), by rw [hs]; decide, by rw [hs]; decide,
    ?_, ?_, by decide, by decide⟩
  · rw [hs, parse_eq_parseF]; decide
  · rw [hs', parse_eq_parseF]; decide

end Examples

end LZ

/-! ## axioms -/
#print axioms LZ.reachable_kind_dict
#print axioms LZ.reachable_backward
#print axioms LZ.C19_right_maximal_reachable
#print axioms LZ.C19_left_maximal_reachable
#print axioms LZ.greedyLoop_trace
#print axioms LZ.hpProbe_res
#print axioms LZ.dhpProbe_res
#print axioms LZ.bupScan_best
#print axioms LZ.bupProbe_best
#print axioms LZ.C19_longest_nearest
#print axioms LZ.C19_longest_nearest_reachable
#print axioms LZ.C19_longest_nearest_bup_reachable
#print axioms LZ.log_block_origin
#print axioms LZ.C19_longest_nearest_reachable_log
#print axioms LZ.C19_maximal_reachable_log
#print axioms LZ.C19_right_maximal_reachable_log
#print axioms LZ.C19_left_maximal_reachable_log
#print axioms LZ.bhp_backward_example
#print axioms LZ.bhp_log_example
#print axioms LZ.bup_tie_nearest_example
#print axioms LZ.bup_longest_example
#print axioms LZ.bdhp_long_table_first
