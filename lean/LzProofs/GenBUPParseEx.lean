/-
  LzProofs.GenBUPParseEx — non-vacuity of the hypotheses of `gen_bup_parse`: for a concrete configuration the
  TRANSLATED `bucketParser.init` (topic BucketInit, LzModel/Generated/CodeBucketInit.lean) run on `new(bucketParser)`
  returns a state that satisfies `ParseOKU` (kernel evaluation, `decide`; no `native_decide`).  A general
  `gen_bup_init_parseOK` (every accepted configuration) is not proved yet (notes/bup-readfrom-translate.md §7).
-/
import LzModel.Generated.CodeBucketInit
import LzProofs.GenBUPParse

namespace LZ.GenBUPParse
open LZ LZ.Gen LZ.GenBuf LZ.GenHash

def exCfg : Gen.BUPConfig :=
  { ShrinkSize := 8, BufferSize := 40, WindowSize := 16, BlockSize := 24, InputLen := 3, HashBits := 3, BucketSize := 2 }

/-- the state `new(bucketParser)` is in after `init(exCfg)` -/
def exS0 : Gen.bucketParser :=
  match bucketParser_init default exCfg with
  | Res.ok (s, _) => s
  | _ => default

theorem exInit : bucketParser_init default exCfg = Res.ok (exS0, Gen.Err.ok) := by decide +kernel

theorem exParseOKU : ParseOKU exS0 := by
  refine ⟨⟨⟨?_, ?_, ?_, ?_, ?_⟩, ⟨?_, ?_⟩⟩, ⟨?_, ?_, ?_, ?_, ?_, ?_, ?_⟩, ?_, ?_, ?_, ?_, ?_, ?_, ?_, ?_, ?_, ?_, ?_⟩
  all_goals first
    | (unfold SWF; decide +kernel)
    | (unfold GWF; decide +kernel)
    | decide +kernel

end LZ.GenBUPParse

#print axioms LZ.GenBUPParse.exInit
#print axioms LZ.GenBUPParse.exParseOKU
