/-
  LzProofs.FactsProps — side conditions of the property theorems discharged against the
  facts regenerated from the Go source (`LzModel/Generated/Facts.lean`).  If a change to
  the code falsifies one of them, this file stops compiling at a *named* theorem.
-/
import LzModel.Config
import LzModel.Json
namespace LZ

/-- `Facts.shapeOK`: the named constants of the configuration functions and of the ParserBuffer
    methods are derived by RUNNING the Go functions (tools/extract/facts_sem.go), not from the
    position of their literals, so nothing depends on the order or length of the `L_*` lists any
    more — except for (a) the functions the interpreter does not cover (`ParserBuffer.ReadFrom`:
    `chunkSize`, and its uses of the margin), (b) constants that fell back to the positional value
    (`-- positional fallback: …` in Facts.lean; `shapeOK` then contains the length / content check
    of the list the position refers to), and (c) consistency of the derived constants with each
    other (bucket and hash configuration accept the same InputLen range). -/
theorem facts_shape_ok : Facts.shapeOK = true := by decide

/-- the field list of every configuration type in the model is the Go struct's field list -/
theorem schema_matches_model :
    ∀ k ∈ Kind.all, (Facts.cfgStructs.lookup (k.name ++ "Config")).map (·.map (·.1)) = some k.fields := by
  decide

/-- Go types of the configuration fields: everything is `int` except `Cost : string` -/
theorem schema_types :
    ∀ k ∈ Kind.all, ∀ f ∈ (Facts.cfgStructs.lookup (k.name ++ "Config")).getD [],
      f.2 = (if f.1 = "Cost" then "string" else "int") := by
  decide

/-- `parserConfigUnion` in the model is the Go struct: same fields, same order, same types -/
theorem union_matches_model :
    Facts.unionStruct.map (fun f => (f.1, decide (f.2.1 = "string"))) = unionFields := by
  decide

/-- every union field except `Type` carries `omitempty`, `Type` carries no tag -/
theorem union_tags :
    ∀ f ∈ Facts.unionStruct, f.2.2 = (if f.1 = "Type" then "" else "json:\",omitempty\"") := by
  decide

/-- the union covers every field of every configuration type with the same Go type -/
theorem union_covers_fields :
    ∀ k ∈ Kind.all, ∀ f ∈ (Facts.cfgStructs.lookup (k.name ++ "Config")).getD [],
      (f.1, f.2, "json:\",omitempty\"") ∈ Facts.unionStruct := by
  decide

/-- MarshalJSON and UnmarshalJSON of every configuration type pass the type's own tag -/
theorem type_tags_match :
    Facts.typeTags = Kind.all.map (fun k => (k.name ++ "Config", k.name, k.name)) := by
  decide

/-- the `switch` of ParseJSON maps every tag to its own configuration type, and only those -/
theorem parseJSON_switch_matches :
    Facts.parseJSONSwitch = Kind.all.map (fun k => (k.name, k.name ++ "Config")) := by
  decide

/-- the type tags are pairwise different -/
theorem kind_names_nodup : (Kind.all.map Kind.name).Nodup := by decide

/-! ### no shared mutable state (the schedules clause of C13) -/

/-- every package-level variable of `lz` and `suffix` is an `errors.New` value -/
theorem package_vars_are_errors :
    (Facts.lzPackageVars ++ Facts.suffixPackageVars).all (fun v => v.2 == "call:errors.New") = true := by
  decide

/-- neither package has an `init` function -/
theorem no_init_functions : Facts.lzHasInit = false ∧ Facts.suffixHasInit = false := by decide

/-- neither package imports a package that provides shared mutable state or clocks -/
theorem no_stateful_imports :
    ∀ p ∈ ["sync", "sync/atomic", "unsafe", "math/rand", "time", "os", "runtime"],
      p ∉ Facts.lzImports ∧ p ∉ Facts.suffixImports := by
  decide

/-- every dictionary type declares its own `Reset` and `Shrink` (none is merely promoted
    from `ParserBuffer`, which would leave the search structure untouched) -/
theorem dict_methods_declared : Facts.dictMethods.all (fun d => d.2.1 && d.2.2) = true := by decide

/-! ### constants -/

theorem prime_odd : Facts.prime % 2 = 1 := by decide
theorem margin_is_seven : Facts.margin = 7 := by decide
theorem defaults_nonzero :
    Facts.defWindowSize ≠ 0 ∧ Facts.defShrinkSize ≠ 0 ∧ Facts.defBlockSize ≠ 0 ∧ Facts.defInputLen ≠ 0 ∧
    Facts.defHashBits ≠ 0 ∧ Facts.defInputLen2Small ≠ 0 ∧ Facts.defInputLen2Large ≠ 0 ∧
    Facts.defBucketInputLen ≠ 0 ∧ Facts.defBucketHashBits ≠ 0 ∧ Facts.defBucketSize ≠ 0 ∧
    Facts.defMinMatchLen ≠ 0 ∧ Facts.defOsapMinMatchLen ≠ 0 ∧ Facts.defMaxMatchLen ≠ 0 ∧
    Facts.defCost ≠ "" ∧ Facts.decDefWindowSize ≠ 0 := by decide
theorem bounds_ordered :
    Facts.minInputLen ≤ Facts.maxInputLen ∧ 0 < Facts.maxHashBits ∧ Facts.maxBucketHashBits ≤ Facts.maxHashBits ∧
    Facts.minBucketSize ≤ Facts.maxBucketSize ∧ (Facts.margin : Int) < Facts.maxUint32 := by decide

end LZ
