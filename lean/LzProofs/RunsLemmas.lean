/-
  LzProofs.RunsLemmas — helper lemmas for the run clause of C19 (LzProofs/Runs.lean):

  * locality of the hash key (`HashT.key` depends only on the `inputLen` bytes at the position)
  * slots of a hash table (`HashT.slot`) under `insert` / `insertRange` / `shiftOffsets`
  * the *coverage* predicate `HashT.Cov h p a` ("every position `q < a` is indexed and the slot of
    its key holds a position `≥ q`") and its preservation by `insert`, `insertRange`,
    `processSegment1`, `hpProbe`
  * one-step unfoldings of `greedyLoop`, a generic dictionary invariant for `greedyLoop` that
    depends on the loop position
  * `lcpLen` inside a run of equal bytes
-/
import LzProofs.SafeTables
import LzProofs.BytesProps
namespace LZ
open BytesW

/-! ## the key depends on `inputLen` bytes only -/

theorem key_toNat (h : HashT) (p : List Byte) (i : Nat) :
    (h.key p i).toNat = leNat ((p.drop i).take (min h.inputLen 8)) := by
  unfold HashT.key
  rw [and_maskOf_toNat, le64At_toNat, ← leNat_take, List.take_take]
  congr 2
  omega

theorem key_eq_of_take (h : HashT) (p q : List Byte) (i j : Nat)
    (e : (p.drop i).take (min h.inputLen 8) = (q.drop j).take (min h.inputLen 8)) :
    h.key p i = h.key q j := by
  apply UInt64.toNat_inj.1
  rw [key_toNat, key_toNat, e]

/-- same `inputLen` bytes (as options: reading behind the end counts as "no byte") → same key -/
theorem key_eq_of_bytes (h : HashT) (p q : List Byte) (i j : Nat)
    (e : ∀ t, t < h.inputLen → p[i + t]? = q[j + t]?) : h.key p i = h.key q j := by
  apply key_eq_of_take
  apply List.ext_getElem?
  intro t
  rw [List.getElem?_take, List.getElem?_take, List.getElem?_drop, List.getElem?_drop]
  split
  · exact e t (by omega)
  · rfl

theorem key_take (h : HashT) (p : List Byte) (n i : Nat) (hi : i + h.inputLen ≤ n) :
    h.key (p.take n) i = h.key p i := by
  apply key_eq_of_bytes
  intro t ht
  rw [List.getElem?_take, if_pos (by omega)]

theorem key_append (h : HashT) (p x : List Byte) (i : Nat) (hi : i + h.inputLen ≤ p.length) :
    h.key (p ++ x) i = h.key p i := by
  apply key_eq_of_bytes
  intro t ht
  rw [List.getElem?_append_left (by omega)]

theorem key_drop (h : HashT) (p : List Byte) (d i : Nat) : h.key (p.drop d) i = h.key p (d + i) := by
  apply key_eq_of_bytes
  intro t _
  rw [List.getElem?_drop, Nat.add_assoc]

/-- all positions whose `inputLen` bytes are the byte `b` have the same key -/
theorem key_run (h : HashT) (p : List Byte) (b : Byte) (i j : Nat)
    (hi : ∀ t, t < h.inputLen → p[i + t]? = some b) (hj : ∀ t, t < h.inputLen → p[j + t]? = some b) :
    h.key p i = h.key p j := by
  apply key_eq_of_bytes
  intro t ht
  rw [hi t ht, hj t ht]

/-! ## slots -/

/-- the entry in the slot the key `x` hashes to -/
def HashT.slot (h : HashT) (x : UInt64) : Nat × Nat := h.tbl.getD (hashValue x h.hashBits) (0, 0)

theorem HashT.insert_inputLen (h : HashT) (p : List Byte) (i : Nat) :
    (h.insert p i).inputLen = h.inputLen := rfl

theorem HashT.insert_key (h : HashT) (p : List Byte) (i : Nat) (p' : List Byte) (j : Nat) :
    (h.insert p i).key p' j = h.key p' j := rfl

theorem HashT.insertRange_inputLen (p : List Byte) : ∀ (n a : Nat) (h : HashT),
    (h.insertRange p a n).inputLen = h.inputLen := by
  intro n
  induction n with
  | zero => intro a h; rfl
  | succ n ih => intro a h; exact ih _ _

theorem HashT.insertRange_hashBits (p : List Byte) : ∀ (n a : Nat) (h : HashT),
    (h.insertRange p a n).hashBits = h.hashBits := by
  intro n
  induction n with
  | zero => intro a h; rfl
  | succ n ih => intro a h; exact ih _ _

theorem HashT.insertRange_key (p : List Byte) (n a : Nat) (h : HashT) (p' : List Byte) (j : Nat) :
    (h.insertRange p a n).key p' j = h.key p' j := by
  unfold HashT.key
  rw [HashT.insertRange_inputLen]

/-- the slot of `y` after storing `e` in the slot of `x` -/
theorem HashT.slot_set (h : HashT) (hs : h.SizeOK) (x y : UInt64) (e : Nat × Nat) :
    ({ h with tbl := h.tbl.setIfInBounds (hashValue x h.hashBits) e } : HashT).slot y =
      if hashValue x h.hashBits = hashValue y h.hashBits then e else h.slot y := by
  unfold HashT.slot
  simp only
  rw [Array.getD_eq_getD_getElem?, Array.getElem?_setIfInBounds, Array.getD_eq_getD_getElem?]
  have hlt : hashValue x h.hashBits < h.tbl.size := by rw [hs]; exact hashValue_lt _ _
  split
  · first | rfl | (rw [if_pos hlt]; rfl)
  · rfl

theorem HashT.slot_insert (h : HashT) (hs : h.SizeOK) (p : List Byte) (i : Nat) (y : UInt64) :
    (h.insert p i).slot y =
      if hashValue (h.key p i) h.hashBits = hashValue y h.hashBits then (i, lo32 (h.key p i))
      else h.slot y :=
  HashT.slot_set h hs (h.key p i) y _

theorem HashT.slot_insert_self (h : HashT) (hs : h.SizeOK) (p : List Byte) (i : Nat) :
    (h.insert p i).slot (h.key p i) = (i, lo32 (h.key p i)) := by
  rw [HashT.slot_insert h hs, if_pos rfl]

theorem HashT.insertRange_succ (h : HashT) (p : List Byte) (a n : Nat) :
    h.insertRange p a (n + 1) = (h.insert p a).insertRange p (a + 1) n := rfl

theorem HashT.insertRange_zero (h : HashT) (p : List Byte) (a : Nat) : h.insertRange p a 0 = h := rfl

/-- inserting `n ≥ 1` consecutive positions that all have the key `x` leaves the last one in the
    slot of `x` -/
theorem HashT.slot_insertRange_same (p : List Byte) (x : UInt64) : ∀ (n a : Nat) (h : HashT),
    h.SizeOK → (∀ q, a ≤ q → q < a + (n + 1) → h.key p q = x) →
    (h.insertRange p a (n + 1)).slot x = (a + n, lo32 x) := by
  intro n
  induction n with
  | zero =>
    intro a h hs hk
    rw [HashT.insertRange_succ, HashT.insertRange_zero]
    have := hk a (Nat.le_refl _) (by omega)
    subst this
    rw [HashT.slot_insert_self h hs, Nat.add_zero]
  | succ n ih =>
    intro a h hs hk
    rw [HashT.insertRange_succ]
    rw [ih (a + 1) (h.insert p a) (HashT.sizeOK_insert hs p a)
      (fun q h1 h2 => by rw [HashT.insert_key]; exact hk q (by omega) (by omega))]
    congr 1; omega

/-! ## coverage -/

/-- every position `q < a` of `p` is covered: the slot of its key holds a position `≥ q` -/
def HashT.Cov (h : HashT) (p : List Byte) (a : Nat) : Prop :=
  ∀ q, q < a → q ≤ (h.slot (h.key p q)).1

theorem HashT.Cov.mono {h : HashT} {p : List Byte} {a : Nat} (hc : h.Cov p a) (a' : Nat) (ha : a' ≤ a) :
    h.Cov p a' := fun q hq => hc q (by omega)

theorem HashT.Cov.congr {h : HashT} {p : List Byte} {a : Nat} (hc : h.Cov p a) (p' : List Byte)
    (hk : ∀ q, q < a → h.key p' q = h.key p q) : h.Cov p' a := by
  intro q hq
  rw [hk q hq]; exact hc q hq

theorem HashT.Cov.insert {h : HashT} {p : List Byte} {a : Nat} (hc : h.Cov p a) (hs : h.SizeOK) :
    (h.insert p a).Cov p (a + 1) := by
  intro q hq
  rw [HashT.insert_key, HashT.slot_insert h hs]
  split
  · simp only; omega
  · rename_i hne
    have : q ≠ a := by
      intro e; subst e; exact hne rfl
    exact hc q (by omega)

theorem HashT.Cov.insertRange {p : List Byte} : ∀ (n a : Nat) (h : HashT), h.SizeOK → h.Cov p a →
    (h.insertRange p a n).Cov p (a + n) := by
  intro n
  induction n with
  | zero => intro a h _ hc; exact hc
  | succ n ih =>
    intro a h hs hc
    have := ih (a + 1) (h.insert p a) (HashT.sizeOK_insert hs p a) (hc.insert hs)
    have e : a + 1 + n = a + (n + 1) := by omega
    rw [e] at this; exact this

/-- `insertRange` from the coverage bound up to any `b` -/
theorem HashT.Cov.insertRange_to {h : HashT} {p : List Byte} {a : Nat} (hc : h.Cov p a) (hs : h.SizeOK)
    (a0 b : Nat) (ha : a0 ≤ a) : (h.insertRange p a0 (b - a0)).Cov p b := by
  have := HashT.Cov.insertRange (b - a0) a0 h hs (hc.mono a0 ha)
  exact this.mono b (by omega)

/-! ## `processSegment1` -/

theorem processSegment1_inputLen (h : HashT) (data : List Byte) (a b : Int) :
    (processSegment1 h data a b).inputLen = h.inputLen := by
  unfold processSegment1
  simp only []
  repeat' split
  all_goals first | rfl | exact HashT.insertRange_inputLen _ _ _ _

theorem processSegment1_hashBits (h : HashT) (data : List Byte) (a b : Int) :
    (processSegment1 h data a b).hashBits = h.hashBits := by
  unfold processSegment1
  simp only []
  repeat' split
  all_goals first | rfl | exact HashT.insertRange_hashBits _ _ _ _

/-- `processSegment(w - inputLen + 1, b0)` extends the coverage from `w + 1 - inputLen` to every
    `X ≤ b0` whose key bytes lie inside `data` -/
theorem processSegment1_cov (h : HashT) (data : List Byte) (w : Nat) (b0 : Int) (X : Nat)
    (hs : h.SizeOK) (hc : h.Cov data (w + 1 - h.inputLen))
    (hX : (X : Int) ≤ b0) (hXl : X ≤ data.length + 1 - h.inputLen) :
    (processSegment1 h data ((w : Int) - h.inputLen + 1) b0).Cov data X := by
  by_cases hX0 : X = 0
  · subst hX0
    intro q hq; omega
  unfold processSegment1
  simp only []
  generalize hbb : (if (data.length : Int) - h.inputLen + 1 < b0 then
    (data.length : Int) - h.inputLen + 1 else b0) = bb
  have hbX : (X : Int) ≤ bb := by
    rw [← hbb]; split <;> omega
  generalize haa : (if (w : Int) - h.inputLen + 1 < 0 then (0 : Int) else (w : Int) - h.inputLen + 1).toNat = aa
  have haw : aa ≤ w + 1 - h.inputLen := by
    rw [← haa]; split <;> omega
  split
  · have : X = 0 := by omega
    subst this
    intro q hq; omega
  · apply HashT.Cov.mono (a := bb.toNat)
    · exact hc.insertRange_to hs aa bb.toNat haw
    · omega

/-! ## one-step unfoldings of the greedy loop -/

theorem greedyLoop_done {δ} (F : Finder δ) (p : List Byte) (stop : Nat) (st : LoopSt δ)
    (h : ¬ st.i < stop) : greedyLoop F p stop st = st := by
  rw [greedyLoop]; simp only [h, dite_false]

theorem greedyLoop_none {δ} (F : Finder δ) (p : List Byte) (stop : Nat) (st : LoopSt δ) (d : δ)
    (h : st.i < stop) (hp : F.probe st.dict p st.i st.litIndex = (d, none)) :
    greedyLoop F p stop st = greedyLoop F p stop { st with dict := d, i := st.i + 1 } := by
  rw [greedyLoop]; simp only [h, dite_true]
  split
  · rename_i d2 heq
    rw [hp] at heq
    simp only [Prod.mk.injEq, and_true] at heq
    subst heq; rfl
  · rename_i d2 s2 k2 o2 heq
    rw [hp] at heq; simp at heq

theorem greedyLoop_some {δ} (F : Finder δ) (p : List Byte) (stop : Nat) (st : LoopSt δ) (d : δ)
    (s k o : Nat) (h : st.i < stop) (hp : F.probe st.dict p st.i st.litIndex = (d, some (s, k, o)))
    (hk : s + k > st.i) :
    greedyLoop F p stop st = greedyLoop F p stop
      { dict := d, i := s + k, litIndex := s + k,
        seqs := st.seqs ++ [{ litLen := ((p.drop st.litIndex).take (s - st.litIndex)).length,
                              matchLen := k, offset := o }],
        lits := st.lits ++ (p.drop st.litIndex).take (s - st.litIndex) } := by
  rw [greedyLoop]; simp only [h, dite_true]
  split
  · rename_i d2 heq
    rw [hp] at heq; simp at heq
  · rename_i d2 s2 k2 o2 heq
    rw [hp] at heq
    simp only [Prod.mk.injEq, Option.some.injEq] at heq
    obtain ⟨hd, hs, hk2, ho⟩ := heq
    subst hd hs hk2 ho
    simp only [hk, dite_true]

/-- a dictionary invariant `C d a` indexed by the loop position: established for `stop` at the end
    of the loop if every probe advances it -/
theorem greedyLoop_cov {δ} (F : Finder δ) (p : List Byte) (stop : Nat) (C : δ → Nat → Prop)
    (hnone : ∀ d i li d', li ≤ i → i < stop → C d i → F.probe d p i li = (d', none) → C d' (i + 1))
    (hsome : ∀ d i li d' s k o, li ≤ i → i < stop → C d i → F.probe d p i li = (d', some (s, k, o)) →
      i < s + k ∧ C d' (min (s + k) stop))
    (st : LoopSt δ) (hli : st.litIndex ≤ st.i) (hC : C st.dict (min st.i stop)) :
    C (greedyLoop F p stop st).dict stop := by
  fun_induction greedyLoop F p stop st with
  | case1 st hlt d hp ih =>
    have e : min st.i stop = st.i := by omega
    rw [e] at hC
    apply ih
    · simp only; omega
    · have := hnone _ _ _ _ hli hlt hC hp
      have e2 : min (st.i + 1) stop = st.i + 1 := by omega
      simp only [e2]; exact this
  | case2 st hlt d s k o hp hk q ih =>
    have e : min st.i stop = st.i := by omega
    rw [e] at hC
    apply ih
    · exact Nat.le_refl _
    · exact (hsome _ _ _ _ _ _ _ hli hlt hC hp).2
  | case3 st hlt d s k o hp hk =>
    have e : min st.i stop = st.i := by omega
    rw [e] at hC
    exact absurd (hsome _ _ _ _ _ _ _ hli hlt hC hp).1 (by omega)
  | case4 st hlt =>
    have e : min st.i stop = stop := by omega
    rw [e] at hC; exact hC

/-! ## `hpProbe` in closed form -/

theorem hpProbe_eq (ws mm ie : Nat) (back : Bool) (h : HashT) (p : List Byte) (i li : Nat) :
    hpProbe ws mm ie back h p i li =
      if lo32 (h.key p i) = (h.slot (h.key p i)).2 ∧ (h.slot (h.key p i)).1 < i ∧
          i - (h.slot (h.key p i)).1 ≤ ws ∧
          mm ≤ lcpLen (p.drop (h.slot (h.key p i)).1) (p.drop i) then
        ((h.insert p i).insertRange p
            (i - (if back then backExt p i li (h.slot (h.key p i)).1 else 0) + 1)
            (min (i - (if back then backExt p i li (h.slot (h.key p i)).1 else 0) +
                  (lcpLen (p.drop (h.slot (h.key p i)).1) (p.drop i) +
                    (if back then backExt p i li (h.slot (h.key p i)).1 else 0))) ie -
              (i - (if back then backExt p i li (h.slot (h.key p i)).1 else 0) + 1)),
          some (i - (if back then backExt p i li (h.slot (h.key p i)).1 else 0),
            lcpLen (p.drop (h.slot (h.key p i)).1) (p.drop i) +
              (if back then backExt p i li (h.slot (h.key p i)).1 else 0),
            i - (h.slot (h.key p i)).1))
      else (h.insert p i, none) := by
  unfold hpProbe HashT.slot HashT.insert
  simp only []
  by_cases h1 : lo32 (h.key p i) = (h.tbl.getD (hashValue (h.key p i) h.hashBits) (0, 0)).2
  · by_cases h2 : (h.tbl.getD (hashValue (h.key p i) h.hashBits) (0, 0)).1 < i ∧
        i - (h.tbl.getD (hashValue (h.key p i) h.hashBits) (0, 0)).1 ≤ ws
    · by_cases h3 : mm ≤ lcpLen (p.drop (h.tbl.getD (hashValue (h.key p i) h.hashBits) (0, 0)).1) (p.drop i)
      · have h3' : ¬ lcpLen (p.drop (h.tbl.getD (hashValue (h.key p i) h.hashBits) (0, 0)).1) (p.drop i) < mm := by
          omega
        rw [if_neg (fun hn => hn h1), if_neg (fun hn => hn h2), if_neg h3',
          if_pos (show _ ∧ _ ∧ _ ∧ _ from ⟨h1, h2.1, h2.2, h3⟩)]
      · have h3' : lcpLen (p.drop (h.tbl.getD (hashValue (h.key p i) h.hashBits) (0, 0)).1) (p.drop i) < mm := by
          omega
        rw [if_neg (fun hn => hn h1), if_neg (fun hn => hn h2), if_pos h3',
          if_neg (fun hc : _ ∧ _ ∧ _ ∧ _ => h3 hc.2.2.2)]
    · rw [if_neg (fun hn => hn h1), if_pos h2, if_neg (fun hc : _ ∧ _ ∧ _ ∧ _ => h2 ⟨hc.2.1, hc.2.2.1⟩)]
  · rw [if_pos h1, if_neg (fun hc : _ ∧ _ ∧ _ ∧ _ => h1 hc.1)]

theorem hpProbe_cov (ws mm ie : Nat) (back : Bool) (hmm : 1 ≤ mm) (h : HashT) (p : List Byte)
    (i li : Nat) (hli : li ≤ i) (hs : h.SizeOK) (hc : h.Cov p i) :
    (∀ d', hpProbe ws mm ie back h p i li = (d', none) → d'.SizeOK ∧ d'.Cov p (i + 1)) ∧
    (∀ d' s k o, hpProbe ws mm ie back h p i li = (d', some (s, k, o)) →
      i < s + k ∧ d'.SizeOK ∧ d'.Cov p (min (s + k) ie)) := by
  have hsz := sizeOK_hpProbe ws mm ie back hs p i li
  constructor
  · intro d' hp
    rw [hp] at hsz
    refine ⟨hsz, ?_⟩
    rw [hpProbe_eq] at hp
    split at hp
    · simp at hp
    · simp only [Prod.mk.injEq, and_true] at hp
      subst hp
      exact hc.insert hs
  · intro d' s k o hp
    have hcf := (hpProbe_some ws mm ie back h p i li d' s k o hp).ok hmm hli
    rw [hp] at hsz
    refine ⟨hcf.1.2.2.1, hsz, ?_⟩
    rw [hpProbe_eq] at hp
    split at hp
    · simp only [Prod.mk.injEq, Option.some.injEq] at hp
      obtain ⟨hd, hs', hk', ho'⟩ := hp
      subst hd
      rw [← hs', ← hk']
      apply (hc.insert hs).insertRange_to (HashT.sizeOK_insert hs p i)
      omega
    · simp at hp

/-! ## `lcpLen` inside a run -/

/-- if `p[j..]` consists of the byte `b` up to the end of `p`, the common prefix of `p[j..]` and
    `p[i..]` (`j < i`) reaches the end of `p` -/
theorem lcpLen_run (p : List Byte) (b : Byte) (j i : Nat) (hji : j < i) (hi : i ≤ p.length)
    (hrun : ∀ t, j ≤ t → t < p.length → p[t]? = some b) :
    lcpLen (p.drop j) (p.drop i) = p.length - i := by
  have hle := lcpLen_le_right (p.drop j) (p.drop i)
  simp only [List.length_drop] at hle
  rcases lcpLen_drop_maximal p j i hji with h | h | h
  · omega
  · omega
  · by_cases hlt : i + lcpLen (p.drop j) (p.drop i) < p.length
    · exfalso
      apply h
      rw [hrun _ (by omega) hlt, hrun _ (by omega) (by omega)]
    · omega

/-- facts about a verified candidate `j` for a position `i` at which a run of `b` up to the end of
    `p` starts, when the common prefix ends before the end of `p` -/
theorem lcpLen_run_short (p : List Byte) (b : Byte) (j i : Nat) (hji : j < i) (hi : i ≤ p.length)
    (hrun : ∀ t, i ≤ t → t < p.length → p[t]? = some b)
    (hk : i + lcpLen (p.drop j) (p.drop i) < p.length) :
    (∀ t, t < lcpLen (p.drop j) (p.drop i) → p[j + t]? = some b) ∧
    j + lcpLen (p.drop j) (p.drop i) < i := by
  have hpre : ∀ t, t < lcpLen (p.drop j) (p.drop i) → p[j + t]? = some b := by
    intro t ht
    have := lcpLen_getElem? _ _ t ht
    simp only [List.getElem?_drop] at this
    rw [this]; exact hrun _ (by omega) (by omega)
  refine ⟨hpre, ?_⟩
  rcases lcpLen_drop_maximal p j i hji with h | h | h
  · omega
  · omega
  · apply Decidable.byContradiction
    intro hge
    apply h
    rw [hrun _ (by omega) hk, hrun _ (by omega) (by omega)]

end LZ
