/-
  LzProofs.SmallProps — small statements an audit found missing, decoder side.
  (The parser side — items (2), (3), (4) — is LzProofs/SmallPropsParser.lean.)

  (1) C05  every sequence `WriteBlock` reports as consumed was valid at its point; a stop that is
           not a capacity error (`full`, `matchLen`) is at a sequence that is NOT valid
           (`C05_consumed_valid`, `C05_ok_all_valid`, `C05_stop_classified`, `C05_stop_invalid`).
  (5) C07  the refusal of a well-formed long sequence for every geometry
           (`C07_refused_when_window_full`) and kernel-checked counter-witnesses at the DEFAULT
           decoder geometry (`C07_counter_default_fresh`, `C07_counter_default`).
-/
import LzProofs.DecBufProps
import LzProofs.AcceptProps

/-! # (1) C05: no malformed sequence is consumed -/

namespace LZ.DecBuf

/-- The validity of a sequence in the words of property C05, for the log `wi` (everything written
    before the sequence), the remaining literals `li` and the window size `ws`:
    `MatchLen = 0 ∨ 1 ≤ Offset`, `Offset ≤ min(WindowSize, bytes available before the match)`
    (the bytes before the match are the log plus the sequence's own literals) and
    `LitLen ≤` remaining literals.  NOTE the Go semantics for `MatchLen = 0`: the offset is NOT
    irrelevant — `Offset = 0` is fine, but an offset beyond the window / the available bytes is
    refused with `ErrOffset` also for an empty match. -/
def SeqValidAt (wi li : List Byte) (ws : Nat) (s : Seq) : Prop :=
  (s.matchLen = 0 ∨ 1 ≤ s.offset) ∧ s.offset ≤ min ws (wi.length + s.litLen) ∧
  s.litLen ≤ li.length

/-- `SeqValidAt` is the predicate `SeqValid` of DecBufLemmas (the negation of the loop's guards) -/
theorem seqValidAt_iff (wi li : List Byte) (ws : Nat) (s : Seq) :
    SeqValidAt wi li ws s ↔ SeqValid wi li ws s := by
  unfold SeqValidAt SeqValid
  constructor
  · intro ⟨h1, h2, h3⟩
    exact ⟨h3, by omega⟩
  · intro ⟨h1, h2⟩
    exact ⟨by omega, by omega, h1⟩

/-- on the buffer: as long as the abstraction holds, `min(WindowSize, len(Data) + LitLen)` — what
    the Go code compares the offset with — is `min(WindowSize, |log| + LitLen)` -/
theorem seqValidAt_buffer {b : DecBuf} {w : List Byte} {d : Nat} (h : AbsD b w d) (li : List Byte)
    (s : Seq) :
    SeqValidAt w li b.ws s ↔
      ((s.matchLen = 0 ∨ 1 ≤ s.offset) ∧ s.offset ≤ min b.ws (b.data.length + s.litLen) ∧
        s.litLen ≤ li.length) := by
  have := h.min_win s.litLen
  unfold SeqValidAt
  omega

/-- the sequence loop: every sequence it counts as consumed passed the guards in the state
    (log `wi`, remaining literals `li`) the reference expander reaches before it -/
theorem seqLoop_consumed_valid (g : Grow) (seqs : List Seq) :
    ∀ (b : DecBuf) (w : List Byte) (d : Nat) (lits : List Byte) (k dl : Nat)
      (b' : DecBuf) (k' : Nat) (lits' : List Byte) (dl' : Nat) (e : Err),
      AbsD b w d → seqLoop g b seqs lits k dl = (b', k', lits', dl', e) →
      ∀ i, k + i < k' → ∃ (_ : i < seqs.length) (wi li : List Byte),
        expandSeqs w lits (seqs.take i) = some (wi, li) ∧ SeqValid wi li b.ws seqs[i] := by
  induction seqs with
  | nil =>
    intro b w d lits k dl b' k' lits' dl' e h hr i hi
    simp only [seqLoop, Prod.mk.injEq] at hr
    omega
  | cons s rest ih =>
    intro b w d lits k dl b' k' lits' dl' e h hr i hi
    rw [seqLoop_cons] at hr
    have hmw := h.min_win s.litLen
    by_cases h1 : s.litLen > lits.length
    · simp only [h1, ↓reduceIte, Prod.mk.injEq] at hr
      omega
    · simp only [h1, ↓reduceIte] at hr
      by_cases h2 : s.offset = 0 ∧ s.matchLen > 0
      · simp only [h2, and_self, ↓reduceIte, Prod.mk.injEq] at hr
        omega
      · simp only [h2, ↓reduceIte] at hr
        by_cases h3 : s.offset > min (b.data.length + s.litLen) b.ws
        · simp only [h3, ↓reduceIte, Prod.mk.injEq] at hr
          omega
        · simp only [h3, ↓reduceIte] at hr
          obtain ⟨r1, r2, r3, r4, r5, r6⟩ := room_spec h (s.litLen + s.matchLen)
          generalize room b (s.litLen + s.matchLen) = rm at hr r1 r2 r3 r4 r5 r6
          obtain ⟨b1, fits, d1⟩ := rm
          simp only at hr r1 r2 r3 r4 r5 r6
          by_cases hf : fits = true
          · simp only [hf, not_true_eq_false, ↓reduceIte] at hr
            have hfit := r6.mp hf
            have hlb := r1.len_bs
            have ha := r1.append g (lits.take s.litLen) (by simp; omega)
            have htl : (lits.take s.litLen).length = s.litLen := by simp; omega
            obtain ⟨w2, hw1, hw2, hw3⟩ := ha.ofCopyMatch g s.matchLen s.offset
              (by simp only [append_data, List.length_append, htl]; omega)
              (by simp only [append_data, List.length_append, htl, append_bs]; omega)
            obtain ⟨s1, s2, s3, s4⟩ :=
              copyMatch_sameCtl g (b1.append g (lits.take s.litLen)) s.matchLen s.offset
            cases i with
            | zero =>
              refine ⟨by simp, w, lits, rfl, ?_⟩
              show SeqValid w lits b.ws s
              refine ⟨by omega, ?_⟩
              rw [← hmw]
              intro hh; cases hh <;> contradiction
            | succ j =>
              obtain ⟨hj, wi, li, hx, hv⟩ := ih _ _ _ _ _ _ _ _ _ _ _ hw2 hr j (by omega)
              refine ⟨by simp; omega, wi, li, ?_, ?_⟩
              · simp only [List.take_succ_cons, expandSeqs]
                have : s.litLen ≤ lits.length := by omega
                simp only [this, ↓reduceIte, hw1]
                exact hx
              · rw [s3, append_ws, r3] at hv
                simpa using hv
          · have hf' : fits = false := by cases fits <;> simp_all
            subst hf'
            simp only [Bool.false_eq_true, not_false_eq_true, ↓reduceIte, Prod.mk.injEq] at hr
            omega

/-- `k` of `WriteBlock` is the `k` of its sequence loop -/
theorem writeBlock_k (g : Grow) (b : DecBuf) (blk : Block) :
    (writeBlock g b blk).2.2.1 = (seqLoop g b blk.seqs blk.lits 0 0).2.1 := by
  unfold writeBlock
  generalize seqLoop g b blk.seqs blk.lits 0 0 = r
  obtain ⟨b1, k1, lits1, dl1, e1⟩ := r
  simp only
  split
  · rfl
  · split
    · split <;> rfl
    · rfl

/-- **C05, no malformed sequence is consumed.**  If `WriteBlock` reports `k` sequences as consumed
    (whatever the error), then every one of them was valid at its point: for `i < k`, with
    `(wi, li)` the log and the remaining literals the reference expander reaches after the first
    `i` sequences — the state before sequence `i` —, `SeqValidAt wi li WindowSize seqs[i]`. -/
theorem C05_consumed_valid (g : Grow) {b : DecBuf} {w : List Byte} {d : Nat} (h : Abs b w d)
    (blk : Block) {b' : DecBuf} {n : Int} {k l : Nat} {e : Err}
    (hr : writeBlock g b blk = (b', n, k, l, e)) :
    ∀ i, i < k → ∃ (_ : i < blk.seqs.length) (wi li : List Byte),
      expandSeqs w blk.lits (blk.seqs.take i) = some (wi, li) ∧
      SeqValidAt wi li b.ws blk.seqs[i] := by
  intro i hi
  have hk := writeBlock_k g b blk
  rw [hr] at hk
  simp only at hk
  generalize hsl : seqLoop g b blk.seqs blk.lits 0 0 = r at hk
  obtain ⟨b1, k1, lits1, dl1, e1⟩ := r
  simp only at hk
  subst hk
  obtain ⟨hlt, wi, li, hx, hv⟩ :=
    seqLoop_consumed_valid g blk.seqs b w d blk.lits 0 0 _ _ _ _ _ h.toAbsD hsl i (by omega)
  exact ⟨hlt, wi, li, hx, (seqValidAt_iff _ _ _ _).2 hv⟩

/-- on `nil` every sequence of the block was valid at its point -/
theorem C05_ok_all_valid (g : Grow) {b : DecBuf} {w : List Byte} {d : Nat} (h : Abs b w d)
    (blk : Block) {b' : DecBuf} {n : Int} {k l : Nat}
    (hr : writeBlock g b blk = (b', n, k, l, .ok)) :
    ∀ i (hi : i < blk.seqs.length), ∃ (wi li : List Byte),
      expandSeqs w blk.lits (blk.seqs.take i) = some (wi, li) ∧
      SeqValidAt wi li b.ws blk.seqs[i] := by
  intro i hi
  obtain ⟨_, _, _, _, hok, _⟩ := writeBlock_spec g h blk hr
  have hk := (hok rfl).1
  obtain ⟨_, wi, li, hx, hv⟩ := C05_consumed_valid g h blk hr i (by omega)
  exact ⟨wi, li, hx, hv⟩

/-- **C05, converse: what stops the loop.**  If `WriteBlock` stops with an error at sequence `k`
    (`k < len(seqs)`), let `(w1, rest)` be the log and the remaining literals before that sequence
    (the buffer represents exactly `w1`: nothing of sequence `k` was written).  Then the error is
    one of four, and precisely:
    * `ErrLitLen`  iff `LitLen >` remaining literals;
    * `ErrOffset`  iff (not that and) `Offset = 0 ∧ MatchLen > 0` or
                   `Offset > min(|w1| + LitLen, WindowSize)`;
    * `errMatchLen` / `ErrFullBuffer` (the two capacity errors) iff the sequence IS valid; then
      `LitLen + MatchLen` exceeds `BufferSize − WindowSize` (`errMatchLen`: can never fit) resp.
      fits there but not into `BufferSize − len(Data)` after the shrink (`ErrFullBuffer`);
    so an error other than the two capacity errors means `seqs[k]` violates `SeqValidAt`. -/
theorem C05_stop_classified (g : Grow) {b : DecBuf} {w : List Byte} {d : Nat} (h : Abs b w d)
    (blk : Block) {b' : DecBuf} {n : Int} {k l : Nat} {e : Err}
    (hr : writeBlock g b blk = (b', n, k, l, e)) (he : e ≠ .ok) (hk : k < blk.seqs.length) :
    ∃ w1 rest, expandSeqs w blk.lits (blk.seqs.take k) = some (w1, rest) ∧ Abs b' w1 d ∧
      (e = .litLen ∨ e = .offset ∨ e = .matchLen ∨ e = .full) ∧
      (e = .litLen ↔ blk.seqs[k].litLen > rest.length) ∧
      (e = .offset ↔ blk.seqs[k].litLen ≤ rest.length ∧
        ((blk.seqs[k].offset = 0 ∧ blk.seqs[k].matchLen > 0) ∨
          blk.seqs[k].offset > min (w1.length + blk.seqs[k].litLen) b.ws)) ∧
      ((e = .matchLen ∨ e = .full) ↔ SeqValidAt w1 rest b.ws blk.seqs[k]) ∧
      ((e ≠ .matchLen ∧ e ≠ .full) ↔ ¬ SeqValidAt w1 rest b.ws blk.seqs[k]) ∧
      (e = .matchLen → blk.seqs[k].litLen + blk.seqs[k].matchLen > b'.bs - b.ws) ∧
      (e = .full → blk.seqs[k].litLen + blk.seqs[k].matchLen ≤ b'.bs - b.ws ∧
        blk.seqs[k].litLen + blk.seqs[k].matchLen > b'.bs - b'.data.length) := by
  obtain ⟨w1, rest, _, hx, _, herr⟩ := writeBlock_spec g h blk hr
  obtain ⟨_, ha, _, hc⟩ := herr he
  have hws : b'.ws = b.ws := writeBlock_ws g b blk ▸ (by rw [hr])
  refine ⟨w1, rest, hx, ha, ?_⟩
  rcases hc with ⟨_, hs⟩ | ⟨hk', _, _⟩
  · obtain ⟨k1, k2, k3, k4, k5⟩ := C05_seqFail_kinds hs
    rw [hws] at k3 k4 k5
    have hvalid : (e = .matchLen ∨ e = .full) ↔ SeqValidAt w1 rest b.ws blk.seqs[k] := by
      rw [seqValidAt_iff]
      unfold SeqFail at hs
      rw [hws] at hs
      constructor
      · intro hh
        rcases hs with ⟨rfl, _⟩ | ⟨rfl, _⟩ | ⟨_, hv, _⟩ | ⟨_, hv, _⟩
        · rcases hh with hh | hh <;> cases hh
        · rcases hh with hh | hh <;> cases hh
        · exact hv
        · exact hv
      · intro hv
        rcases hs with ⟨_, h1⟩ | ⟨_, h1, h2⟩ | ⟨rfl, _⟩ | ⟨rfl, _⟩
        · exact absurd hv.1 (by omega)
        · exact absurd h2 hv.2
        · exact Or.inl rfl
        · exact Or.inr rfl
    refine ⟨k1, k2, k3, hvalid, ?_, k4, k5⟩
    rw [← hvalid]
    constructor
    · intro ⟨a, b⟩ hh; rcases hh with hh | hh <;> contradiction
    · intro hh; exact ⟨fun a => hh (Or.inl a), fun a => hh (Or.inr a)⟩
  · omega

/-- the same as one sentence: a stop at sequence `k` with an error that is not a capacity error
    means that sequence `k` is malformed in the state before it -/
theorem C05_stop_invalid (g : Grow) {b : DecBuf} {w : List Byte} {d : Nat} (h : Abs b w d)
    (blk : Block) {b' : DecBuf} {n : Int} {k l : Nat} {e : Err}
    (hr : writeBlock g b blk = (b', n, k, l, e)) (he : e ≠ .ok) (hk : k < blk.seqs.length)
    (hcap : e ≠ .full ∧ e ≠ .matchLen) :
    ∃ w1 rest, expandSeqs w blk.lits (blk.seqs.take k) = some (w1, rest) ∧
      ¬ SeqValidAt w1 rest b.ws blk.seqs[k] := by
  obtain ⟨w1, rest, hx, _, _, _, _, _, hv, _⟩ := C05_stop_classified g h blk hr he hk
  exact ⟨w1, rest, hx, hv.1 ⟨hcap.2, hcap.1⟩⟩

/-! ### non-vacuity (the buffer `b23` = WindowSize 2, BufferSize 3 of DecBufProps) -/

section Examples
set_option linter.unusedSimpArgs false

/-- `WriteBlock` stops at sequence 1 with `ErrOffset` (offset 5 > window): sequence 0 was valid
    in the initial state, sequence 1 is not valid on top of the log `[4, 4]` -/
example :
    (writeBlock gId b23 ⟨[⟨1, 1, 1, 0⟩, ⟨0, 1, 5, 0⟩], [4, 5]⟩).2 = (2, 1, 1, .offset) ∧
      expandSeqs [] [4, 5] [⟨1, 1, 1, 0⟩] = some ([4, 4], [5]) ∧
      SeqValidAt [] [4, 5] 2 ⟨1, 1, 1, 0⟩ ∧ ¬ SeqValidAt [4, 4] [5] 2 ⟨0, 1, 5, 0⟩ := by
  refine ⟨?_, by decide, by unfold SeqValidAt; decide, by unfold SeqValidAt; decide⟩
  simp [writeBlock, seqLoop, b23, shrink, copyMatch, copyLoop, append, gId]

/-- an EMPTY match with an offset beyond the available bytes is refused too -/
example : (writeBlock gId b23 ⟨[⟨1, 0, 2, 0⟩], [4]⟩).2 = (0, 0, 0, .offset) := by
  simp [writeBlock, seqLoop, b23, shrink, copyMatch, copyLoop, append, gId]

/-- … while an empty match with offset 0 is accepted -/
example : (writeBlock gId b23 ⟨[⟨1, 0, 0, 0⟩], [4]⟩).2 = (1, 1, 1, .ok) := by
  simp [writeBlock, seqLoop, b23, shrink, copyMatch, copyLoop, append, gId]

end Examples

end LZ.DecBuf

#print axioms LZ.DecBuf.seqValidAt_iff
#print axioms LZ.DecBuf.seqValidAt_buffer
#print axioms LZ.DecBuf.seqLoop_consumed_valid
#print axioms LZ.DecBuf.C05_consumed_valid
#print axioms LZ.DecBuf.C05_ok_all_valid
#print axioms LZ.DecBuf.C05_stop_classified
#print axioms LZ.DecBuf.C05_stop_invalid

/-! # (5) C07: the refusal at the DEFAULT decoder geometry

  `DecoderConfig{}` gives WindowSize 8 MiB and BufferSize 16 MiB, so
  `BufferSize − WindowSize = 8388608`.  The existing witnesses (`C07_counter`,
  `C07_parser_emits_long_sequence`) use WindowSize 4, BufferSize 6.  Here:

  * `C07_refused_when_window_full` — for EVERY geometry: once at least `WindowSize` bytes have been
    decoded (the window is full), a block whose first sequence is well-formed but has
    `LitLen + MatchLen > max(BufferSize, cap(Data)) − WindowSize` is refused with `errMatchLen`
    and nothing is consumed (`max(…, cap)`: `shrink` raises `BufferSize` to `cap(Data)`);
  * `C07_counter_default_fresh` — the freshly initialised default decoder refuses the well-formed
    block "1 literal + a match of 16 MiB at offset 1";
  * `C07_counter_default` — the default decoder after 8 MiB of zeros have been written and flushed
    refuses "1 literal + match of 8 MiB at offset 1", i.e. `LitLen + MatchLen = 8388609 =
    BufferSize − WindowSize + 1`: the threshold of the finding is sharp at the default geometry
    (`C07_accepts_partial` accepts everything up to `BufferSize − WindowSize`).
  No list of megabytes is ever evaluated: the 8 MiB are `List.replicate`, used through its length. -/

namespace LZ.DecBuf

theorem shrink_bs_le (b : DecBuf) (g : Nat) : (b.shrink g).1.bs ≤ max b.bs b.cap := by
  unfold shrink
  by_cases hr : b.bs < b.cap <;> simp only [hr, ↓reduceIte, true_and, false_and]
  · split
    · simp; omega
    · split
      · simp; omega
      · simp; omega
  · split
    · simp; omega
    · simp; omega

/-- the sequence loop refuses a long first sequence when the window is full -/
theorem seqLoop_long_refused (g : Grow) (b : DecBuf) (s : Seq) (rest : List Seq) (lits : List Byte)
    (k dl : Nat) (h1 : s.litLen ≤ lits.length) (h2 : s.matchLen = 0 ∨ 1 ≤ s.offset)
    (h3 : s.offset ≤ min (b.data.length + s.litLen) b.ws) (hfull : b.ws ≤ b.data.length)
    (hlong : s.litLen + s.matchLen > max b.bs b.cap - b.ws) :
    ∃ b' d, seqLoop g b (s :: rest) lits k dl = (b', k, lits, dl + d, .matchLen) ∧
      b'.data.length + d = b.data.length ∧ b'.off = b.off := by
  rw [seqLoop_cons]
  have c1 : ¬ s.litLen > lits.length := by omega
  have c2 : ¬ (s.offset = 0 ∧ s.matchLen > 0) := by omega
  have c3 : ¬ s.offset > min (b.data.length + s.litLen) b.ws := by omega
  simp only [c1, c2, c3, ↓reduceIte]
  have hk := shrink_keeps b (s.litLen + s.matchLen + b.data.length)
  have hp := shrink_props b (s.litLen + s.matchLen + b.data.length)
  have hb := shrink_bs_le b (s.litLen + s.matchLen + b.data.length)
  have hroom : room b (s.litLen + s.matchLen) =
      ((b.shrink (s.litLen + s.matchLen + b.data.length)).1, false,
        (b.shrink (s.litLen + s.matchLen + b.data.length)).2) := by
    unfold room
    have : s.litLen + s.matchLen > b.bs - b.data.length := by omega
    simp only [this, ↓reduceIte]
    congr 2
    simp only [decide_eq_false_iff_not]
    omega
  rw [hroom]
  simp only [Bool.false_eq_true, not_false_eq_true, ↓reduceIte]
  have : s.litLen + s.matchLen > (b.shrink (s.litLen + s.matchLen + b.data.length)).1.bs -
      (b.shrink (s.litLen + s.matchLen + b.data.length)).1.ws := by
    rw [hp.2.2.2.2.2.1]; omega
  simp only [this, ↓reduceIte]
  exact ⟨_, _, rfl, hk.2.2.2, hp.2.2.2.2.1⟩

/-- `DecoderBuffer.WriteBlock` refuses a block whose first sequence is long when the window is full:
    `errMatchLen`, `n = k = l = 0` -/
theorem writeBlock_long_refused (g : Grow) (b : DecBuf) (s : Seq) (rest : List Seq)
    (lits : List Byte) (h1 : s.litLen ≤ lits.length) (h2 : s.matchLen = 0 ∨ 1 ≤ s.offset)
    (h3 : s.offset ≤ min (b.data.length + s.litLen) b.ws) (hfull : b.ws ≤ b.data.length)
    (hlong : s.litLen + s.matchLen > max b.bs b.cap - b.ws) :
    (writeBlock g b ⟨s :: rest, lits⟩).2 = (0, 0, 0, .matchLen) := by
  obtain ⟨b', d, hs, hl, _⟩ := seqLoop_long_refused g b s rest lits 0 0 h1 h2 h3 hfull hlong
  unfold writeBlock
  simp only [hs, ne_eq, reduceCtorEq, not_false_eq_true, ↓reduceIte, Nat.zero_add, Nat.sub_self,
    Prod.mk.injEq, and_true]
  omega

end LZ.DecBuf

namespace LZ
open DecBuf Decoder

/-- **C07, the refusal for every geometry.**  `Good d` (any state reached from `Init`/`Reset`), at
    least `WindowSize` bytes decoded so far, a block that is well-formed for the decoder's window
    over its log; if the FIRST sequence has `LitLen + MatchLen > max(BufferSize, cap(Data)) −
    WindowSize`, `Decoder.WriteBlock` returns `errMatchLen` with `n = k = l = 0`, for every growth
    function and every writer.  (With `cap(Data) ≤ BufferSize`, as after `Init` with an
    unallocated buffer and a non-over-allocating `append`, this is `BufferSize − WindowSize`.) -/
theorem C07_refused_when_window_full (g : Grow) (d : Decoder) (h : Good d)
    (hlog : d.buf.ws ≤ d.log.length) (s : Seq) (rest : List Seq) (lits : List Byte)
    (hwf : WellFormedBlock d.buf.ws d.log ⟨s :: rest, lits⟩)
    (hlong : s.litLen + s.matchLen > max d.buf.bs d.buf.cap - d.buf.ws) :
    (d.writeBlock g (s :: rest) lits 0 0 0).2 = (0, 0, 0, Err.matchLen) := by
  obtain ⟨w1, w2, w3, _⟩ := hwf
  have hmw := h.toAbsD.min_win s.litLen
  have hwin := h.win
  have hb := DecBuf.writeBlock_long_refused g d.buf s rest lits w1 w2
    (by omega) (by omega) hlong
  rw [Decoder.writeBlock]
  generalize DecBuf.writeBlock g d.buf ⟨s :: rest, lits⟩ = r at hb
  obtain ⟨b', n, k, l, e⟩ := r
  simp only [Prod.mk.injEq] at hb
  obtain ⟨rfl, rfl, rfl, rfl⟩ := hb
  simp

namespace AcceptEx

/-- the default geometry: `DecoderConfig{}.SetDefaults()` = WindowSize 8388608, BufferSize 16777216 -/
def dDef : Decoder := { buf := ⟨[], 0, 0, 8388608, 16777216, 0⟩, w := ⟨[], []⟩ }

example : DecBuf.init 0 0 0 = some dDef.buf := by rfl
theorem dDef_good : Good dDef := (good_init (ws := 0) (bs := 0) (precap := 0) (by rfl) ⟨[], []⟩ rfl).1

/-- 1 literal `a` + a match of `BufferSize` = 16 MiB bytes at offset 1 -/
def blkHuge : Block := ⟨[⟨1, 16777216, 1, 0⟩], [97]⟩

theorem blkHuge_wf : WellFormedBlock dDef.buf.ws dDef.log blkHuge := by
  simp [WellFormedBlock, WFSeqs, blkHuge, dDef, Decoder.log, DecBuf.pending]

/-- 8 MiB of zeros (never evaluated) -/
def zeros8M : List Byte := List.replicate 8388608 0
theorem zeros8M_length : zeros8M.length = 8388608 := List.length_replicate
attribute [irreducible] zeros8M

/-- the default decoder after `Write` of 8 MiB zeros and `Flush` (writer accepts everything):
    `Data` = the 8 MiB, all of them handed to the writer (`R = Off = 8388608`), `cap(Data)` = 8 MiB -/
def dFull : Decoder :=
  { buf := ⟨zeros8M, 8388608, 8388608, 8388608, 16777216, 8388608⟩, w := ⟨[], zeros8M⟩ }

theorem dFull_log : dFull.log = zeros8M := by
  show zeros8M ++ zeros8M.drop 8388608 = zeros8M
  rw [List.drop_eq_nil_of_le (by rw [zeros8M_length]; exact Nat.le_refl _), List.append_nil]

theorem dFull_good : Good dFull := by
  unfold Good
  rw [dFull_log]
  refine ⟨⟨List.suffix_refl _, ?_, ?_, ?_, ?_, ?_⟩, ?_⟩
  · show 8388608 ≤ zeros8M.length
    rw [zeros8M_length]; exact Nat.le_refl _
  · show zeros8M.length = zeros8M.length - zeros8M.length + 8388608
    rw [zeros8M_length]
  · show min 8388608 zeros8M.length ≤ zeros8M.length
    rw [zeros8M_length]; exact Nat.le_of_eq (Nat.min_self _)
  · show 8388608 < 16777216
    decide
  · show zeros8M.length ≤ 16777216
    rw [zeros8M_length]; decide
  · show 8388608 = zeros8M.length
    rw [zeros8M_length]

/-- 1 literal + a match of `WindowSize` = 8 MiB bytes at offset 1:
    `LitLen + MatchLen = 8388609 = BufferSize − WindowSize + 1` -/
def blkDef : Block := ⟨[⟨1, 8388608, 1, 0⟩], [97]⟩

theorem blkDef_wf : WellFormedBlock dFull.buf.ws dFull.log blkDef := by
  rw [dFull_log]
  unfold WellFormedBlock
  rw [zeros8M_length]
  simp [WFSeqs, blkDef, dFull]

/-- `Write` of any 8 MiB on the fresh default decoder (growth function `gId`: `append` allocates
    exactly what is needed): one chunk, all accepted -/
theorem dDef_write (z : List Byte) (hl : z.length = 8388608) :
    dDef.write AcceptEx.gId z 0 =
      (⟨⟨z, 0, 8388608, 8388608, 16777216, 8388608⟩, ⟨[], []⟩⟩, 8388608, .ok) := by
  rw [Decoder.write]
  have h0 : ¬ z.length = 0 := by omega
  simp only [h0, ↓reduceDIte]
  have e1 : dDef.buf.bs - dDef.buf.ws = 8388608 := by decide
  have e2 : ¬ z.length > 8388608 := by omega
  simp only [e1, e2, ↓reduceIte]
  have e3 : dDef.buf.write AcceptEx.gId z =
      (⟨z, 0, 8388608, 8388608, 16777216, 8388608⟩, 8388608, .ok) := by
    unfold DecBuf.write
    simp [dDef, hl, DecBuf.append, AcceptEx.gId]
  rw [e3]
  simp only [hl]
  have h1 : (0 : Nat) < 8388608 ∧ 8388608 ≤ 8388608 := by decide
  simp only [h1, and_self, ↓reduceDIte, ↓reduceIte]
  rw [Decoder.write]
  have h2 : (List.drop 8388608 z).length = 0 := by rw [List.length_drop, hl]
  simp only [h2, ↓reduceDIte]
  rfl

/-- … and the `Flush` after it hands all of them to the writer -/
theorem dDef_flush (z : List Byte) (hl : z.length = 8388608) :
    (⟨⟨z, 0, 8388608, 8388608, 16777216, 8388608⟩, ⟨[], []⟩⟩ : Decoder).flush =
      (⟨⟨z, 8388608, 8388608, 8388608, 16777216, 8388608⟩, ⟨[], z⟩⟩, .ok) := by
  simp [Decoder.flush, Decoder.writeTo, Writer.write, hl]

/-- **`dFull` is reachable**: it is the state of the default decoder after `Write(zeros8M)` (returns
    `(8388608, nil)`) and `Flush` (returns `nil`) -/
theorem dFull_reached :
    (dDef.write AcceptEx.gId zeros8M 0).2 = (8388608, .ok) ∧
    (dDef.write AcceptEx.gId zeros8M 0).1.flush = (dFull, .ok) := by
  rw [dDef_write zeros8M zeros8M_length]
  exact ⟨rfl, dDef_flush zeros8M zeros8M_length⟩

end AcceptEx

open AcceptEx in
/-- **C07, counter-witness at the default geometry, fresh decoder.**  `DecoderConfig{}` (WindowSize
    8 MiB, BufferSize 16 MiB), nothing written yet, a writer that accepts everything: the block
    `[⟨LitLen 1, MatchLen 16777216, Offset 1⟩]` with literal `"a"` is well-formed and has a reference
    expansion, but `Decoder.WriteBlock` refuses it with `errMatchLen`, consuming nothing. -/
theorem C07_counter_default_fresh :
    DecBuf.init 0 0 0 = some dDef.buf ∧ Good dDef ∧ dDef.w.resps = [] ∧
    WellFormedBlock dDef.buf.ws dDef.log blkHuge ∧ (expand dDef.log blkHuge).isSome = true ∧
    (dDef.writeBlock AcceptEx.gId blkHuge.seqs blkHuge.lits 0 0 0).2 = (0, 0, 0, Err.matchLen) := by
  refine ⟨by rfl, dDef_good, rfl, blkHuge_wf, ?_, ?_⟩
  · obtain ⟨out, ho⟩ := blkHuge_wf.expand_defined
    rw [ho]; rfl
  · simp [Decoder.writeBlock, DecBuf.writeBlock, DecBuf.seqLoop, DecBuf.shrink, dDef, blkHuge]

open AcceptEx in
/-- **C07, counter-witness at the default geometry, sharp threshold.**  The default decoder
    (WindowSize 8388608, BufferSize 16777216) in the `Good` state `dFull` — reached from `Init` by
    `Write` of 8 MiB and `Flush` (`dFull_reached`) — refuses, for EVERY growth function, the well-formed block
    `[⟨LitLen 1, MatchLen 8388608, Offset 1⟩]` + literal `"a"` with `errMatchLen`, consuming nothing:
    `LitLen + MatchLen = 8388609 > BufferSize − WindowSize = 8388608`.  By `C07_accepts_partial`
    every well-formed block with sequences of at most 8388608 bytes is accepted in this state. -/
theorem C07_counter_default (g : Grow) :
    DecBuf.init 0 0 0 = some dDef.buf ∧
    (dDef.write AcceptEx.gId zeros8M 0).1.flush = (dFull, .ok) ∧
    Good dFull ∧ dFull.w.resps = [] ∧ dFull.buf.ws = 8388608 ∧ dFull.buf.bs = 16777216 ∧
    WellFormedBlock dFull.buf.ws dFull.log blkDef ∧ (expand dFull.log blkDef).isSome = true ∧
    ¬ SeqsFit (dFull.buf.bs - dFull.buf.ws) blkDef.seqs ∧
    SeqsFit (dFull.buf.bs - dFull.buf.ws + 1) blkDef.seqs ∧
    (dFull.writeBlock g blkDef.seqs blkDef.lits 0 0 0).2 = (0, 0, 0, Err.matchLen) := by
  refine ⟨by rfl, dFull_reached.2, dFull_good, rfl, rfl, rfl, blkDef_wf, ?_, ?_, ?_, ?_⟩
  · obtain ⟨out, ho⟩ := blkDef_wf.expand_defined
    rw [ho]; rfl
  · simp [SeqsFit, blkDef, dFull]
  · simp [SeqsFit, blkDef, dFull]
  · refine C07_refused_when_window_full g dFull dFull_good ?_ _ _ _ blkDef_wf ?_
    · rw [dFull_log, zeros8M_length]; exact Nat.le_refl _
    · show 1 + 8388608 > max 16777216 8388608 - 8388608
      decide

end LZ

#print axioms LZ.DecBuf.writeBlock_long_refused
#print axioms LZ.C07_refused_when_window_full
#print axioms LZ.AcceptEx.dFull_reached
#print axioms LZ.C07_counter_default_fresh
#print axioms LZ.C07_counter_default
