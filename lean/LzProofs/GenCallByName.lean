/-
  LzProofs.GenCallByName — `gcall%` / `gproj%`: apply a generated (loop) function and project its result BY GO VARIABLE
  NAME (moved here unchanged from LzProofs/GenDecoderProps.lean, third robustness pass, so that other tie modules can use
  it).  The order of the parameters of a generated loop function is the order of FIRST USE of the captured variables in
  the loop body, the order of the state tuple is declaration / first-assignment order: a behaviour-preserving rewrite
  that reorders independent statements, hoists a local or stops shadowing a variable changes them.  Lemmas that are
  stated through `gcall% f [x := e, …]` do not depend on that order.  Names that `f` does not have are ignored,
  arguments that are not given are `_`.  Pure notation: the elaborated term is an ordinary application / projection
  checked by the kernel.  No theorem in this file.
-/
import Lean

namespace LZ.GenDec

section GenCall
open Lean Elab Term Meta

/-- argument names of the generated function `f` (Go variable names), and the position of the fuel argument of a
    loop function (`none` for a function that is not defined by `match` on the fuel) -/
def genArgNames (f : Name) : MetaM (Array Name × Option Nat) := do
  let some u ← getUnfoldEqnFor? f (nonRec := true) | throwError "gcall%: no defining equation for {f}"
  let info ← getConstInfo u
  forallTelescope info.type fun xs body => do
    let some (_, _, rhs) := body.eq? | throwError "gcall%: unexpected defining equation {u}"
    let hdr ← xs.mapM fun x => return (← x.fvarId!.getUserName).eraseMacroScopes
    match ← matchMatcherApp? rhs with
    | some app =>
      let rec names (e : Expr) (acc : Array Name) : Array Name := match e with
        | .lam n _ b _ => names b (acc.push n.eraseMacroScopes)
        | _ => acc
      let alt := names app.alts.back! #[]
      if alt.size > hdr.size then throwError "gcall%: unexpected defining equation {u}"
      return (hdr.extract 0 (hdr.size - alt.size) ++ alt, some (hdr.size - alt.size))
    | none => return (hdr, none)

declare_syntax_cat garg
syntax ident " := " term : garg

/-- `gcall% f [x := e, …]`: `f` applied to the given arguments, matched by name -/
elab "gcall% " f:ident " [" as:garg,* "]" : term => do
  let fn ← realizeGlobalConstNoOverloadWithInfo f
  let (names, _) ← genArgNames fn
  let mut given : Array (Name × Term) := #[]
  for a in as.getElems do
    match a with
    | `(garg| $x:ident := $t:term) => given := given.push (x.getId, t)
    | _ => throwUnsupportedSyntax
  let mut args : Array Term := #[]
  for n in names do
    match given.find? (·.1 == n) with
    | some (_, t) => args := args.push t
    | none => args := args.push (← `(_))
  elabTerm (← `(@$(mkIdent fn) $args*)) none

/-- `gproj% f x r`: the component of the result `r = (exit, state…)` of the loop function `f` for the state variable `x` -/
elab "gproj% " f:ident x:ident r:term:max : term => do
  let fn ← realizeGlobalConstNoOverloadWithInfo f
  let (names, some i) ← genArgNames fn | throwError "gproj%: {f.getId} is not a loop function"
  let state := names.extract (i + 1) names.size
  let some j := state.findIdx? (· == x.getId)
    | throwError "gproj%: {fn} has no state variable {x.getId}; its state is {state}"
  let mut t : Term := r
  for _ in [0:j+1] do t ← `($t.2)
  if j + 1 < state.size then t ← `($t.1)
  elabTerm t none

/-- `ghead% f [x := e, …]`: the loop function `f` applied to its HEADER parameters only (the captured variables, matched
    by name; their order is the order of first use in the loop body); the fuel and the loop state — whose order is the
    declaration order of the state variables — remain to be applied positionally -/
elab "ghead% " f:ident " [" as:garg,* "]" : term => do
  let fn ← realizeGlobalConstNoOverloadWithInfo f
  let (names, some k) ← genArgNames fn | throwError "ghead%: {f.getId} is not a loop function"
  let mut given : Array (Name × Term) := #[]
  for a in as.getElems do
    match a with
    | `(garg| $x:ident := $t:term) => given := given.push (x.getId, t)
    | _ => throwUnsupportedSyntax
  let mut args : Array Term := #[]
  for n in names.extract 0 k do
    match given.find? (·.1 == n) with
    | some (_, t) => args := args.push t
    | none => args := args.push (← `(_))
  elabTerm (← `(@$(mkIdent fn) $args*)) none

/-- `gstate% f [x := e, …]`: the state tuple of the loop function `f` (what `f` returns in `Res.ok`, for a loop without
    exit code) built from the given values BY NAME of the state variables, in the order `f` has them -/
elab "gstate% " f:ident " [" as:garg,* "]" : term => do
  let fn ← realizeGlobalConstNoOverloadWithInfo f
  let (names, some i) ← genArgNames fn | throwError "gstate%: {f.getId} is not a loop function"
  let state := names.extract (i + 1) names.size
  let mut given : Array (Name × Term) := #[]
  for a in as.getElems do
    match a with
    | `(garg| $x:ident := $t:term) => given := given.push (x.getId, t)
    | _ => throwUnsupportedSyntax
  let mut ts : Array Term := #[]
  for n in state do
    match given.find? (·.1 == n) with
    | some (_, t) => ts := ts.push t
    | none => throwError "gstate%: no value for the state variable {n} of {fn}; its state is {state}"
  if ts.isEmpty then throwError "gstate%: {fn} has no state"
  let mut t : Term := ts.back!
  for k in [0:ts.size - 1] do
    t ← `(($(ts[ts.size - 2 - k]!), $t))
  elabTerm t none

end GenCall

end LZ.GenDec
