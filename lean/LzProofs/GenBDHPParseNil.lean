/-
  LzProofs.GenBDHPParseNil — the NIL PATH of the mechanical translation of bdhp.go `(*bdhp).Parse`:
  `bdhp_Parse_nilable grow fuel lcs s true blk flags` (LzModel/Generated/CodeBDHPParse.lean; the pointer parameter
  `blk` is modelled by a flag plus a value, tools/extract/code_nil.go) is the call `Parse(nil, flags)`.
  Port of LzProofs/GenHPParseNil.lean.  The nil path does not call `lcs` (no `LcsSpec` hypothesis) and ignores `flags`.
  No sorry, no axioms of its own.

    gen_bdhp_parse_nonnil   `bdhp_Parse … blk …` IS `bdhp_Parse_nilable … false blk …` (the generated wrapper)
    gen_bdhp_parseNil_empty the straight-line prefix (`n = 0`), every fuel
    gen_bdhp_parseNil       for every Go state with `ParseOKBD s`, every `blk` (a ghost), every `flags`, every `lcs`,
                            `fuel ≥ len + 2`:
                            `parseNilW (ofBDHPs s) (staleOfBD s) = none` ⇒ the translated `Parse(nil)` is `Res.panic`
                            `… = some (s', n, e)` ⇒ it is `Res.ok (t, blk, n, parseErr e)` — THE SAME `blk`: nothing is
                            written — with `ofBDHPs t = s'`, `staleOfBD t = staleOfBD s`, `ParseOKBD t`, and only `W` and
                            the two tables of the Go state change (`∃ t1' t2', t = withWTBD s … t1' t2'`)
    gen_bdhp_parseNil_model on reachable states: the list-level `Parser.parseNil`, no panic
-/
import LzProofs.GenBDHPParse

set_option linter.unusedSimpArgs false
set_option linter.unusedVariables false

namespace LZ.GenBDHPParse
open LZ LZ.Gen LZ.GenBuf LZ.GenHash LZ.GenProps LZ.GenHPParse LZ.GenParse LZ.GenDHPParse LZ.GenBHPParse

theorem gen_bdhp_parse_nonnil (grow : Nat → Nat → Nat) (fuel : Nat) (lcs : Slice → Slice → Int) (s : Gen.bdhp)
    (blk : Gen.Block') (flags : Int) :
    bdhp_Parse grow fuel lcs s blk flags = bdhp_Parse_nilable grow fuel lcs s false blk flags := rfl

/-- the straight-line prefix of the nil path: nothing buffered ⇒ `(0, ErrEmptyBuffer)`, the parser and the ghost block
    unchanged; for every `grow`, `fuel`, `lcs`, `flags` -/
theorem gen_bdhp_parseNil_empty (grow : Nat → Nat → Nat) (fuel : Nat) (lcs : Slice → Slice → Int) (s : Gen.bdhp)
    (blk : Gen.Block') (flags : Int) (h : blockNBD s = 0) :
    bdhp_Parse_nilable grow fuel lcs s true blk flags = Res.ok (s, blk, (0 : Int), ErrEmptyBuffer) := by
  unfold blockNBD at h
  unfold bdhp_Parse_nilable
  simp only [if_true, gt_iff_lt, ge_iff_le, ite_lt_min, ite_le_min] at h ⊢
  split
  all_goals first
    | rfl
    | (exfalso; int_omega)

theorem parseNilW_double_nf (s : Parser) (stale : List Byte) (d : Hash2) (hd : s.dict = .double d)
    (hn : s.blockN ≠ 0) :
    ProbeW.parseNilW s stale =
      (ProbeW.processSegment2W d.h1 d.h2 s.buf.data stale ((s.buf.w : Int) - d.h2.inputLen + 1)
        ((s.buf.w + s.blockN : Nat) : Int)).bind fun hh =>
      some ({ s with buf := { s.buf with w := s.buf.w + s.blockN }, dict := .double { h1 := hh.1, h2 := hh.2 } },
        s.blockN, .ok) := by
  unfold ProbeW.parseNilW
  simp only [hn, if_false, hd]
  rfl

set_option maxHeartbeats 1000000 in
theorem gen_bdhp_parseNil (grow : Nat → Nat → Nat) (fuel : Nat) (lcs : Slice → Slice → Int) (s : Gen.bdhp)
    (blk : Gen.Block') (flags : Int)
    (h : ParseOKBD s) (hfuel : s.doubleHashDictionary.ParserBuffer.Data.len + 2 ≤ fuel) :
    match ProbeW.parseNilW (ofBDHPs s) (staleOfBD s) with
    | none => bdhp_Parse_nilable grow fuel lcs s true blk flags = Res.panic
    | some (s', n, e) =>
      ∃ t, bdhp_Parse_nilable grow fuel lcs s true blk flags = Res.ok (t, blk, (n : Int), parseErr e) ∧
        ofBDHPs t = s' ∧ staleOfBD t = staleOfBD s ∧ (e = .ok ∨ e = .empty) ∧ ParseOKBD t ∧
        ∃ t1' t2', t = withWTBD s ((s'.buf.w : Nat) : Int) t1' t2' := by
  have hP := h
  obtain ⟨⟨hpb, hw1, hw2⟩, cws, cbs, cil, hbs0, hW, hil1, hil12, hsh1, hsh2, hsmall⟩ := h
  obtain ⟨hgwf1, hil01, hmask1, hs641, htl1⟩ := hw1
  obtain ⟨hgwf2, hil02, hmask2, hs642, htl2⟩ := hw2
  have w1 : HOK s.doubleHashDictionary.h1 := ⟨hil01, hmask1, hsh1, hs641, ⟨hgwf1, htl1⟩⟩
  have w2 : HOK s.doubleHashDictionary.h2 := ⟨hil02, hmask2, hsh2, hs642, ⟨hgwf2, htl2⟩⟩
  have hD : SWF s.doubleHashDictionary.ParserBuffer.Data := hpb.data
  have hD' : s.doubleHashDictionary.ParserBuffer.Data.len ≤ s.doubleHashDictionary.ParserBuffer.Data.arr.length := hD
  have hW0 := hpb.w
  have hdl : s.doubleHashDictionary.ParserBuffer.Data.data.length = s.doubleHashDictionary.ParserBuffer.Data.len := data_length hD
  have hbN : (ofBDHPs s).blockN = Min.min (s.doubleHashDictionary.ParserBuffer.Data.len - s.doubleHashDictionary.ParserBuffer.W.toNat)
      s.BDHPConfig.BlockSize.toNat := by
    show Min.min (s.doubleHashDictionary.ParserBuffer.Data.data.length - _) s.doubleHashDictionary.ParserBuffer.BufConfig.BlockSize.toNat = _
    rw [hdl, cbs]
    rfl
  have hnG : Min.min ((Int.ofNat s.doubleHashDictionary.ParserBuffer.Data.len) - s.doubleHashDictionary.ParserBuffer.W) s.BDHPConfig.BlockSize =
      (((ofBDHPs s).blockN : Nat) : Int) := by
    rw [hbN]; int_omega
  have hnG' : Min.min s.BDHPConfig.BlockSize ((Int.ofNat s.doubleHashDictionary.ParserBuffer.Data.len) - s.doubleHashDictionary.ParserBuffer.W) =
      (((ofBDHPs s).blockN : Nat) : Int) := by
    rw [hbN]; int_omega
  have bind_ok : ∀ {α β : Type} (a : α) (f : α → Res β), Res.bind (Res.ok a) f = f a := fun _ _ => rfl
  generalize hG : bdhp_Parse_nilable grow fuel lcs s true blk flags = G
  unfold bdhp_Parse_nilable at hG
  simp only [if_true] at hG
  simp only [gt_iff_lt, ge_iff_le, ite_lt_min, ite_le_min, ite_lt_max, ite_le_max] at hG
  simp only [hnG, hnG'] at hG
  by_cases hn : (ofBDHPs s).blockN = 0
  · unfold ProbeW.parseNilW
    simp only [hn, if_true]
    rw [hn] at hG
    split at hG
    all_goals first
      | (exfalso; int_omega)
      | (refine ⟨s, hG.symm, rfl, rfl, by simp, hP, s.doubleHashDictionary.h1.table, s.doubleHashDictionary.h2.table, ?_⟩
         have e1 : (((ofBDHPs s).buf.w : Nat) : Int) = s.doubleHashDictionary.ParserBuffer.W := by
           show ((s.doubleHashDictionary.ParserBuffer.W.toNat : Nat) : Int) = _; omega
         rw [e1])
  rw [parseNilW_double_nf (ofBDHPs s) (staleOfBD s)
    ⟨ofHash s.doubleHashDictionary.h1, ofHash s.doubleHashDictionary.h2⟩ rfl hn]
  rw [if_neg (by omega)] at hG
  have hargs : ProbeW.processSegment2W (ofHash s.doubleHashDictionary.h1) (ofHash s.doubleHashDictionary.h2)
      (ofBDHPs s).buf.data (staleOfBD s)
      (((ofBDHPs s).buf.w : Int) - ((ofHash s.doubleHashDictionary.h2).inputLen : Int) + 1)
        (((ofBDHPs s).buf.w + (ofBDHPs s).blockN : Nat) : Int) =
      ProbeW.processSegment2W (ofHash s.doubleHashDictionary.h1) (ofHash s.doubleHashDictionary.h2)
        s.doubleHashDictionary.ParserBuffer.Data.data
        (s.doubleHashDictionary.ParserBuffer.Data.arr.drop s.doubleHashDictionary.ParserBuffer.Data.len)
        ((s.doubleHashDictionary.ParserBuffer.W - s.doubleHashDictionary.h2.inputLen) + 1)
        (s.doubleHashDictionary.ParserBuffer.W + (((ofBDHPs s).blockN : Nat) : Int)) := by
    have e1 : (((ofBDHPs s).buf.w : Nat) : Int) = s.doubleHashDictionary.ParserBuffer.W := by
      show ((s.doubleHashDictionary.ParserBuffer.W.toNat : Nat) : Int) = _; omega
    have e2 : (((ofHash s.doubleHashDictionary.h2).inputLen : Nat) : Int) = s.doubleHashDictionary.h2.inputLen := by
      show ((s.doubleHashDictionary.h2.inputLen.toNat : Nat) : Int) = _; omega
    rw [Int.natCast_add, e1, e2]; rfl
  rw [hargs]
  have hps := gen_processSegment2 fuel s.doubleHashDictionary
    ((s.doubleHashDictionary.ParserBuffer.W - s.doubleHashDictionary.h2.inputLen) + 1)
    (s.doubleHashDictionary.ParserBuffer.W + (((ofBDHPs s).blockN : Nat) : Int)) hD w1 w2 hil12 hsmall (by omega)
  cases hp1 : ProbeW.processSegment2W (ofHash s.doubleHashDictionary.h1) (ofHash s.doubleHashDictionary.h2)
        s.doubleHashDictionary.ParserBuffer.Data.data
        (s.doubleHashDictionary.ParserBuffer.Data.arr.drop s.doubleHashDictionary.ParserBuffer.Data.len)
        ((s.doubleHashDictionary.ParserBuffer.W - s.doubleHashDictionary.h2.inputLen) + 1)
        (s.doubleHashDictionary.ParserBuffer.W + (((ofBDHPs s).blockN : Nat) : Int)) with
  | none =>
    rw [hp1] at hps
    simp only [] at hps
    rw [hps] at hG
    exact hG.symm
  | some hh =>
    rw [hp1] at hps
    obtain ⟨t01, t02, ht01, ht02, rfl, hps⟩ := hps
    rw [hps, bind_ok] at hG
    rw [Option.bind_some]
    dsimp only at hG ⊢
    have hN := (ofBDHPs s).blockN_le
    have hwn : (ofBDHPs s).buf.w = s.doubleHashDictionary.ParserBuffer.W.toNat := rfl
    have hLlen : s.doubleHashDictionary.ParserBuffer.W.toNat + (ofBDHPs s).blockN ≤ s.doubleHashDictionary.ParserBuffer.Data.len := by
      rw [hbN]; omega
    have hwt : s.doubleHashDictionary.ParserBuffer.W + (((ofBDHPs s).blockN : Nat) : Int) =
        (((ofBDHPs s).buf.w + (ofBDHPs s).blockN : Nat) : Int) := by rw [hwn]; omega
    refine ⟨withWTBD s (((ofBDHPs s).buf.w + (ofBDHPs s).blockN : Nat) : Int) t01 t02, hG.symm.trans ?_, ?_, rfl,
      Or.inl rfl, ?_, t01, t02, rfl⟩
    · rw [hwt]; rfl
    · show ofBDHPs (withWTBD s _ t01 t02) = _
      unfold ofBDHPs ofDDict ofPB
      simp only [Int.toNat_natCast]
      rfl
    · exact ⟨⟨⟨hD, by show (0 : Int) ≤ (((ofBDHPs s).buf.w + (ofBDHPs s).blockN : Nat) : Int); omega, hpb.off, hpb.ss, hpb.bs⟩,
          ⟨ht01.1, hil01, hmask1, hs641, ht01.2⟩, ⟨ht02.1, hil02, hmask2, hs642, ht02.2⟩⟩,
        cws, cbs, cil, hbs0,
        by show (((ofBDHPs s).buf.w + (ofBDHPs s).blockN : Nat) : Int) ≤ ((s.doubleHashDictionary.ParserBuffer.Data.len : Nat) : Int); rw [hwn]; omega,
        hil1, hil12, hsh1, hsh2, hsmall⟩

/-- **Go text → list-level model**, nil path: on reachable states no panic, the result of `Parser.parseNil`. -/
theorem gen_bdhp_parseNil_model (grow : Nat → Nat → Nat) (fuel : Nat) (lcs : Slice → Slice → Int) (s : Gen.bdhp)
    (blk : Gen.Block') (flags : Int)
    (h : ParseOKBD s) (hfuel : s.doubleHashDictionary.ParserBuffer.Data.len + 2 ≤ fuel)
    (hcap : (ofBDHPs s).buf.CapOK) (hil8 : s.doubleHashDictionary.h2.inputLen ≤ 8) :
    ∃ t, bdhp_Parse_nilable grow fuel lcs s true blk flags =
        Res.ok (t, blk, (((ofBDHPs s).parseNil).2.1 : Int), parseErr ((ofBDHPs s).parseNil).2.2) ∧
      ofBDHPs t = ((ofBDHPs s).parseNil).1 ∧ staleOfBD t = staleOfBD s ∧ ParseOKBD t ∧
      ∃ t1' t2', t = withWTBD s ((((ofBDHPs s).parseNil).1.buf.w : Nat) : Int) t1' t2' := by
  have hb : ProbeW.Backing (ofBDHPs s) (staleOfBD s) := staleOfBD_length s h.wf.1.data
  have hd : ProbeW.HashDictOK (ofBDHPs s).dict := by
    have h1 := h.il1
    have h2 := h.il12
    show 1 ≤ s.doubleHashDictionary.h1.inputLen.toNat ∧
      s.doubleHashDictionary.h1.inputLen.toNat ≤ s.doubleHashDictionary.h2.inputLen.toNat ∧
      s.doubleHashDictionary.h2.inputLen.toNat ≤ 8
    omega
  have hW := ProbeW.parseNilW_eq (ofBDHPs s) (staleOfBD s) hb hcap hd
  have hm := gen_bdhp_parseNil grow fuel lcs s blk flags h hfuel
  rw [hW] at hm
  obtain ⟨t, h1, h2, h3, _, h5, h6⟩ := hm
  exact ⟨t, h1, h2, h3, h5, h6⟩

#print axioms gen_bdhp_parse_nonnil
#print axioms gen_bdhp_parseNil_empty
#print axioms gen_bdhp_parseNil
#print axioms gen_bdhp_parseNil_model

end LZ.GenBDHPParse
