/-
  LzProofs.GenDHPParseLoop — one iteration of the two greedy loops of dhp.go `Parse` (loop_1: both tables,
  `i < e2`; loop_5: the table of the short hash only, `e2 ≤ i < e1`) versus one step of
  `ProbeW.greedyLoopW (ProbeW.dhpProbeW … false …)`, and the two loops (instances of `GenParse.greedy_generic`).
-/
import LzProofs.GenDHPParseLemmas

set_option linter.unusedSimpArgs false
set_option linter.unusedVariables false

namespace LZ.GenDHPParse
open LZ LZ.Gen LZ.GenBuf LZ.GenHash LZ.GenHPParse LZ.GenParse

/-- the dictionary of the model a Go `doubleHashParser` stands for -/
def absD (s : Gen.doubleHashParser) : Hash2 :=
  ⟨ofHash s.doubleHashDictionary.h1, ofHash s.doubleHashDictionary.h2⟩

/-- decides a test of the stored value in the goal, spelled `a ≠ b`, `b ≠ a`, `¬ a = b`, … (either arm order) -/
local macro "val_test_ne" h:term : tactic => `(tactic|
  (simp only [eq_false $h, eq_false (Ne.symm $h), ne_eq, not_false_eq_true, not_true_eq_false, if_true, if_false]))
local macro "val_test_eq" h:term : tactic => `(tactic|
  (simp only [eq_true (Decidable.not_not.mp $h), eq_true (Decidable.not_not.mp $h).symm, ne_eq, not_false_eq_true,
    not_true_eq_false, if_true, if_false]))

set_option hygiene false in
/-- rewrites the clamp `if k > len(p)-i { k = len(p)-i }` of the first word, in any spelling (operand order, `≤`/`<`,
    negated test, `min`), to `↑k8`; from `hk8` of `first_word` -/
local macro "first_word_clamp" : tactic => `(tactic| (
  generalize htz : ((BytesW.tz64 (z ^^^ y) >>> 3 : Nat) : Int) = tz at hk8 ⊢
  have hkA : (if Int.ofNat L - ia < tz then Int.ofNat L - ia else tz) = ((k8 : Nat) : Int) := hk8
  have hkB : (if tz ≤ Int.ofNat L - ia then tz else Int.ofNat L - ia) = ((k8 : Nat) : Int) := by
    rw [← hkA]; split <;> split <;> omega
  have hkC : (if tz < Int.ofNat L - ia then tz else Int.ofNat L - ia) = ((k8 : Nat) : Int) := by
    rw [← hkA]; split <;> split <;> omega
  have hkD : (if Int.ofNat L - ia ≤ tz then Int.ofNat L - ia else tz) = ((k8 : Nat) : Int) := by
    rw [← hkA]; split <;> split <;> omega
  simp only [LZ.GenProps.gen_min, Int.min_def, gt_iff_lt, ge_iff_le, Int.not_lt, Int.not_le, hkA, hkB, hkC, hkD]
  clear hkA hkB hkC hkD htz))

set_option hygiene false in
/-- `CLAMP = ↑(min a b)` for a generated clamp `if x > e { x = e }` / `min(x, e)` in any spelling -/
local macro "clamp_eq" : tactic => `(tactic| (
  (try simp only [LZ.GenProps.gen_min, Int.min_def, Int.ofNat_eq_natCast])
  subst hia
  (try subst hE1)
  (try subst hE2)
  (repeat' split) <;> omega))

set_option hygiene false in
/-- closes `BLOCK = Res.ok ↑kk`, `BLOCK` = the translated block
    `if k == 8 { r := p[j+8:]; q := p[i+8:]; for len(q) >= 8 {…}; if len(q) > 0 {…} }` AS IT STANDS IN THE GOAL, from
    `hme : BytesW.matchExt (A.take L) i j k8 = some kk` (local names of the step lemmas below).  The extension loop is
    whatever function the goal calls (`loop2_cont` / `loop6_cont` by unification); its result is read through
    `ExtView` only; every test is split as it comes and decided by `omega`. -/
local macro "dhp_ext_block" : tactic => `(tactic| (
  have hpl' : (A.take L).length = L := by rw [List.length_take]; omega
  by_cases h8 : k8 = 8
  · subst h8
    have hme' := hme
    unfold BytesW.matchExt at hme'
    rw [if_pos rfl, BytesW.sliceFrom_eq_some _ _ (by rw [hpl']; omega),
      BytesW.sliceFrom_eq_some _ _ (by rw [hpl']; omega)] at hme'
    simp only [Option.bind_eq_bind, Option.bind_some] at hme'
    rw [if_pos (by omega)]
    refine bind_trans (slice_okI _ _ _ (j + 8) L (by (try simp only [Int.ofNat_eq_natCast]); omega)
      (by first | rfl | (simp only [Int.ofNat_eq_natCast]; omega)) (by omega) hLA) ?_
    refine bind_trans (slice_okI _ _ _ (i + 8) L (by (try simp only [Int.ofNat_eq_natCast]); omega)
      (by first | rfl | (simp only [Int.ofNat_eq_natCast]; omega)) (by omega) hLA) ?_
    try dsimp only
    first
      | refine loop2_cont (L - i) fuel 8 kk (by first | omega | (dsimp only; omega)) (by omega) rfl (swf_drop _ _ _ hLA)
          (swf_drop _ _ _ hLA) (by first | omega | (dsimp only; omega)) (by rw [data_drop, data_drop]; exact hme')
          (fun res done kN' r' q' hv hr' hq' h1 h0 => ?_)
      | refine loop6_cont (L - i) fuel 8 kk (by first | omega | (dsimp only; omega)) (by omega) rfl (swf_drop _ _ _ hLA)
          (swf_drop _ _ _ hLA) (by first | omega | (dsimp only; omega)) (by rw [data_drop, data_drop]; exact hme')
          (fun res done kN' r' q' hv hr' hq' h1 h0 => ?_)
    obtain ⟨hd, hk', hrr, hqq⟩ := hv
    try dsimp only
    simp only [hk', hrr, hqq]
    by_cases hdone : done
    · have hdT := eq_true (hd.mpr hdone)
      simp only [hdT, not_true_eq_false, false_and, and_false, if_true, if_false, bind_ok]
      rw [h1 hdone]
    · have hdF := eq_false (fun h => hdone (hd.mp h))
      simp only [hdF, not_false_eq_true, true_and, and_true, if_true, if_false]
      have hkk := h0 hdone
      unfold BytesW.matchExtTail at hkk
      rw [data_length hq'] at hkk
      split
      · rename_i hpos
        rw [if_pos (by (try simp only [Int.ofNat_eq_natCast] at hpos); omega)] at hkk
        rw [gen_getLE64 r' hr', bind_ok, gen_getLE64 q' hq', bind_ok]
        simp only [bind_ok, tz_shr]
        apply congrArg Res.ok
        try simp only [Int.ofNat_eq_natCast]
        rw [← hkk]
        try dsimp only
        split <;> split <;> omega
      · rename_i hpos
        rw [if_neg (by (try simp only [Int.ofNat_eq_natCast] at hpos); omega)] at hkk
        rw [bind_ok, hkk]
  · rw [if_neg (by omega)]
    unfold BytesW.matchExt at hme
    rw [if_neg h8] at hme
    injection hme with hme
    rw [hme]))

set_option maxHeartbeats 1000000 in
/-- one iteration of the SECOND loop (`for ; i < e1; i++`, entered with `e2 ≤ i`) -/
theorem loop5_step (grow : Nat → Nat → Nat) (e1I mm : Int) (A : List UInt8) (L E1 E2 mmN ws : Nat)
    (fuel i li : Nat) (ia lia : Int) (s : Gen.doubleHashParser) (blk : Block')
    (w1 : HOK s.doubleHashDictionary.h1)
    (hia : ia = (i : Int)) (hlia : lia = (li : Int)) (hE1 : e1I = (E1 : Int)) (hmm : mm = (mmN : Int))
    (hi : i < E1) (hi2 : ¬ i < E2) (hEL : E1 ≤ L) (hLA : L ≤ A.length) (hEA : E1 + 7 ≤ A.length)
    (hsm : E1 + 7 < 4294967296 + 8) (hli : li ≤ i)
    (hws : ws = s.DHPConfig.WindowSize.toNat) (hmm1 : 1 ≤ mmN) (hmm8 : mmN ≤ 8)
    (hfuel : L ≤ fuel + i) (hfuelE : E1 < fuel) :
    ∃ r, ProbeW.dhpProbeW ws mmN E1 E2 false (A.drop L) (absD s) (A.take L) i li = some r ∧
      ∃ t1', TOK s.doubleHashDictionary.h1.shift t1' ∧
        r.1 = ⟨ofHashT s.doubleHashDictionary.h1 t1', ofHash s.doubleHashDictionary.h2⟩ ∧
        doubleHashParser_Parse_loop_5 grow e1I { arr := A, len := E1 + 7 } { arr := A, len := L } mm (fuel + 1) ia s blk lia =
          (match r.2 with
          | none =>
            doubleHashParser_Parse_loop_5 grow e1I { arr := A, len := E1 + 7 } { arr := A, len := L } mm fuel (ia + 1)
              (setTT s t1' s.doubleHashDictionary.h2.table) blk lia
          | some (st, k, o) =>
            doubleHashParser_Parse_loop_5 grow e1I { arr := A, len := E1 + 7 } { arr := A, len := L } mm fuel
              ((st + k : Nat) : Int) (setTT s t1' s.doubleHashDictionary.h2.table)
              { Sequences := blk.Sequences ++ [seqRep { litLen := st - li, matchLen := k, offset := o }],
                Literals := Slice.append grow blk.Literals ((A.drop li).take (st - li)) }
              ((st + k : Nat) : Int)) ∧
        (∀ st k o, r.2 = some (st, k, o) → li ≤ st ∧ st ≤ i ∧ i < st + k ∧ st + k ≤ L) := by
  have hmem : BytesW.sliceTo (A.take L) (A.drop L) (E1 + 7) = some (A.take (E1 + 7)) := by
    unfold BytesW.sliceTo; rw [List.take_append_drop, if_pos hEA]
  have hpd : ({ arr := A, len := E1 + 7 } : Slice).data = A.take (E1 + 7) := rfl
  have hpl : (A.take L).length = L := by rw [List.length_take]; omega
  have hswf : SWF ({ arr := A, len := E1 + 7 } : Slice) := hEA
  have c1 := w1.ctx { arr := A, len := E1 + 7 } hswf hsm
  -- the load at i, the table access
  obtain ⟨y, hy, hF⟩ := gen_load_ok { arr := A, len := E1 + 7 } hswf ia i hia (by show i + 8 ≤ E1 + 7; omega)
  rw [hpd] at hy
  obtain ⟨ent, t1, hidx, hset, ht1, hget, hofs⟩ := table_probe s.doubleHashDictionary.h1 s.doubleHashDictionary.h1.table
    w1.tok w1.sh1 w1.sh2 y ia i hia (by omega)
  rw [doubleHashParser_Parse_loop_5, if_pos (by omega), hF]
  dsimp only
  rw [hidx, bind_ok, hset, bind_ok]
  have hnf := dhpProbeW_nf2 ws mmN E1 E2 false (A.drop L) (absD s) (A.take L) i li (A.take (E1 + 7)) y hi2 hmem hy
    (y &&& s.doubleHashDictionary.h1.mask) (by rw [w1.mask]; rfl) (ofEntry ent) hget
    (ofHashT s.doubleHashDictionary.h1 t1) hofs
  -- A: the stored value differs
  by_cases hvA : (y &&& s.doubleHashDictionary.h1.mask).toUInt32 ≠ ent.value
  · have hA : lo32 (y &&& s.doubleHashDictionary.h1.mask) ≠ (ofEntry ent).2 := by
      intro hc; apply hvA; apply UInt32.toNat_inj.mp; rw [lo32_eq]; exact hc
    refine ⟨(⟨ofHashT s.doubleHashDictionary.h1 t1, ofHash s.doubleHashDictionary.h2⟩, none), by rw [hnf, if_pos hA]; rfl,
      t1, ht1, rfl, ?_, by intro st k o h; cases h⟩
    val_test_ne hvA
    try rfl
  have hA : ¬ lo32 (y &&& s.doubleHashDictionary.h1.mask) ≠ (ofEntry ent).2 := by
    intro hc; apply hc; rw [← lo32_eq, Decidable.not_not.mp hvA]; rfl
  val_test_eq hvA
  rw [if_neg hA] at hnf
  unfold tailM2 at hnf
  simp only [Bool.false_eq_true, if_false, Option.bind_some, Nat.sub_zero, Nat.add_zero] at hnf
  -- B: the candidate is outside the window
  have hj1 : (ofEntry ent).1 = ent.pos.toNat := rfl
  rw [hj1] at hnf
  generalize hjdef : ent.pos.toNat = j at hnf ⊢
  by_cases hw : ¬ (j < i ∧ i - j ≤ ws)
  · refine ⟨(⟨ofHashT s.doubleHashDictionary.h1 t1, ofHash s.doubleHashDictionary.h2⟩, none), by rw [hnf, if_pos hw]; rfl,
      t1, ht1, rfl, ?_, by intro st k o h; cases h⟩
    split
    all_goals first
      | rfl
      | (rename_i hc; exfalso; simp only [Int.ofNat_eq_natCast] at hc; omega)
  have hc1 : 0 < ia - Int.ofNat j := by show 0 < ia - (j : Int); omega
  have hc2 : ia - Int.ofNat j ≤ s.DHPConfig.WindowSize := by show ia - (j : Int) ≤ _; omega
  have hc3 : ¬ (ia - Int.ofNat j ≤ 0) := by show ¬ (ia - (j : Int) ≤ 0); omega
  have hc4 : ¬ (ia - Int.ofNat j > s.DHPConfig.WindowSize) := by show ¬ (ia - (j : Int) > _); omega
  have hc5 : ¬ (s.DHPConfig.WindowSize < ia - Int.ofNat j) := hc4
  simp only [hc1, hc2, hc3, hc4, hc5, and_self, or_self, not_true_eq_false, not_false_eq_true, if_false, if_true]
  rw [if_neg hw] at hnf
  have hw := Decidable.not_not.mp hw
  -- C: the first word of the candidate
  obtain ⟨z, hz, hF2⟩ := gen_load_ok { arr := A, len := E1 + 7 } hswf (Int.ofNat j) j rfl (by show j + 8 ≤ E1 + 7; omega)
  rw [hpd] at hz
  rw [hF2]
  rw [tz_shr]
  obtain ⟨k8, hk8le, hk8, hfw⟩ := first_word A L E1 mmN i j y z ia hia hy hz hw.1 hi hEL hLA hEA
  first_word_clamp
  rcases hfw with ⟨hC1, hml⟩ | ⟨hC1, kk, hme, hml, hkk1, hkk2⟩
  · refine ⟨(⟨ofHashT s.doubleHashDictionary.h1 t1, ofHash s.doubleHashDictionary.h2⟩, none), by rw [hnf, hml]; rfl,
      t1, ht1, rfl, ?_, by intro st k o h; cases h⟩
    rw [if_pos (by omega)]
  rw [if_neg (by omega)]
  -- the re-indexing loop (it starts at the match position j)
  obtain ⟨t2, ht2, hr7, hl7⟩ := loopH1_eq
    (doubleHashParser_Parse_loop_7 grow ((Min.min (i + kk) E1 : Nat) : Int)
      (y &&& s.doubleHashDictionary.h1.mask) { arr := A, len := E1 + 7 }
      (Gen.hashValue (y &&& s.doubleHashDictionary.h1.mask) s.doubleHashDictionary.h1.shift))
    ((Min.min (i + kk) E1 : Nat) : Int) { arr := A, len := E1 + 7 }
    (loop7_heq grow _ _ _ _)
    (Min.min (i + kk) E1 - j) fuel j ((j : Nat) : Int) (setTT s t1 s.doubleHashDictionary.h2.table) rfl
    (by omega) (by omega)
    (by show _ ∨ _ ≤ E1 + 7; omega) c1 ht1
  -- the bound `b` of the generated call, in whatever spelling, is `min (i + kk) E1`
  have hl7b : ∀ b : Int, b = ((Min.min (i + kk) E1 : Nat) : Int) →
      doubleHashParser_Parse_loop_7 grow b (y &&& s.doubleHashDictionary.h1.mask) { arr := A, len := E1 + 7 }
        (Gen.hashValue (y &&& s.doubleHashDictionary.h1.mask) s.doubleHashDictionary.h1.shift) fuel ((j : Nat) : Int)
        (setTT s t1 s.doubleHashDictionary.h2.table) =
      doubleHashParser_Parse_loop_7 grow ((Min.min (i + kk) E1 : Nat) : Int) (y &&& s.doubleHashDictionary.h1.mask)
        { arr := A, len := E1 + 7 }
        (Gen.hashValue (y &&& s.doubleHashDictionary.h1.mask) s.doubleHashDictionary.h1.shift) fuel ((j : Nat) : Int)
        (setTT s t1 s.doubleHashDictionary.h2.table) := fun b hb => by rw [hb]
  rw [hpd] at hr7
  have hr7' : ProbeW.insertRangeW (ofHashT s.doubleHashDictionary.h1 t1) (List.take (E1 + 7) A) j
      (Min.min (i + kk) E1 - j) = some (ofHashT s.doubleHashDictionary.h1 t2) := hr7
  refine ⟨(⟨ofHashT s.doubleHashDictionary.h1 t2, ofHash s.doubleHashDictionary.h2⟩, some (i, kk, i - j)), ?_,
    t2, ht2, rfl, ?_, ?_⟩
  · rw [hnf, hml, Option.bind_some]
    dsimp only
    rw [hr7']; rfl
  · refine bind_trans (v := (kk : Int)) (by dhp_ext_block) ?_
    dsimp only
    refine bind_trans (slice_okI _ lia ia li i hlia hia hli (by show i ≤ A.length; omega)) ?_
    dsimp only
    refine bind_trans ((hl7b _ (by clamp_eq)).trans hl7) ?_
    dsimp only
    have e1 : ia + (kk : Int) - 1 + 1 = ((i + kk : Nat) : Int) := by omega
    have e2 : ia + (kk : Int) = ((i + kk : Nat) : Int) := by omega
    have e3 : ia - Int.ofNat j = ((i - j : Nat) : Int) := by show ia - (j : Int) = _; omega
    rw [e1, e2, e3]
    rfl
  · intro st k o h
    cases h
    exact ⟨hli, Nat.le_refl _, by omega, by omega⟩

theorem val_ne_iff (x : UInt64) (ent : hashEntry) : x.toUInt32 ≠ ent.value ↔ lo32 x ≠ (ofEntry ent).2 := by
  constructor
  · intro h hc; apply h; apply UInt32.toNat_inj.mp; rw [lo32_eq]; exact hc
  · intro h hc; apply h; rw [← lo32_eq, hc]; rfl

set_option maxHeartbeats 4000000 in
/-- one iteration of the FIRST loop (`for ; i < e2; i++`: both tables are probed and updated) -/
theorem loop1_step (grow : Nat → Nat → Nat) (e2I mm e1I : Int) (A : List UInt8) (L E1 E2 mmN ws : Nat)
    (fuel i li : Nat) (ia lia : Int) (s : Gen.doubleHashParser) (blk : Block')
    (w1 : HOK s.doubleHashDictionary.h1) (w2 : HOK s.doubleHashDictionary.h2)
    (hia : ia = (i : Int)) (hlia : lia = (li : Int)) (hE1 : e1I = (E1 : Int)) (hE2 : e2I = (E2 : Int))
    (hmm : mm = (mmN : Int))
    (hi : i < E2) (hE21 : E2 ≤ E1) (hEL : E1 ≤ L) (hLA : L ≤ A.length) (hEA : E1 + 7 ≤ A.length)
    (hsm : E1 + 7 < 4294967296 + 8) (hli : li ≤ i)
    (hws : ws = s.DHPConfig.WindowSize.toNat) (hmm1 : 1 ≤ mmN) (hmm8 : mmN ≤ 8)
    (hfuel : L ≤ fuel + i) :
    ∃ r, ProbeW.dhpProbeW ws mmN E1 E2 false (A.drop L) (absD s) (A.take L) i li = some r ∧
      ∃ t1' t2', TOK s.doubleHashDictionary.h1.shift t1' ∧ TOK s.doubleHashDictionary.h2.shift t2' ∧
        r.1 = ⟨ofHashT s.doubleHashDictionary.h1 t1', ofHashT s.doubleHashDictionary.h2 t2'⟩ ∧
        doubleHashParser_Parse_loop_1 grow e2I { arr := A, len := E1 + 7 } { arr := A, len := L } mm e1I (fuel + 1) ia s blk lia =
          (match r.2 with
          | none =>
            doubleHashParser_Parse_loop_1 grow e2I { arr := A, len := E1 + 7 } { arr := A, len := L } mm e1I fuel (ia + 1)
              (setTT s t1' t2') blk lia
          | some (st, k, o) =>
            doubleHashParser_Parse_loop_1 grow e2I { arr := A, len := E1 + 7 } { arr := A, len := L } mm e1I fuel
              ((st + k : Nat) : Int) (setTT s t1' t2')
              { Sequences := blk.Sequences ++ [seqRep { litLen := st - li, matchLen := k, offset := o }],
                Literals := Slice.append grow blk.Literals ((A.drop li).take (st - li)) }
              ((st + k : Nat) : Int)) ∧
        (∀ st k o, r.2 = some (st, k, o) → li ≤ st ∧ st ≤ i ∧ i < st + k ∧ st + k ≤ L) := by
  have hmem : BytesW.sliceTo (A.take L) (A.drop L) (E1 + 7) = some (A.take (E1 + 7)) := by
    unfold BytesW.sliceTo; rw [List.take_append_drop, if_pos hEA]
  have hpd : ({ arr := A, len := E1 + 7 } : Slice).data = A.take (E1 + 7) := rfl
  have hpl : (A.take L).length = L := by rw [List.length_take]; omega
  have hswf : SWF ({ arr := A, len := E1 + 7 } : Slice) := hEA
  have c1 := w1.ctx { arr := A, len := E1 + 7 } hswf hsm
  have c2 := w2.ctx { arr := A, len := E1 + 7 } hswf hsm
  -- the load at i, the two table accesses
  obtain ⟨y, hy, hF⟩ := gen_load_ok { arr := A, len := E1 + 7 } hswf ia i hia (by show i + 8 ≤ E1 + 7; omega)
  rw [hpd] at hy
  obtain ⟨ent2, u1, hidx2, hset2, hu1, hget2, hofs2⟩ := table_probe s.doubleHashDictionary.h2 s.doubleHashDictionary.h2.table
    w2.tok w2.sh1 w2.sh2 y ia i hia (by omega)
  obtain ⟨ent1, t1, hidx1, hset1, ht1, hget1, hofs1⟩ := table_probe s.doubleHashDictionary.h1 s.doubleHashDictionary.h1.table
    w1.tok w1.sh1 w1.sh2 y ia i hia (by omega)
  rw [doubleHashParser_Parse_loop_1, if_pos (by omega), hF]
  dsimp only
  rw [hidx2, bind_ok, hset2, bind_ok]
  try dsimp only
  rw [hidx1, bind_ok, hset1, bind_ok]
  try dsimp only
  have hnf := dhpProbeW_nf1 ws mmN E1 E2 false (A.drop L) (absD s) (A.take L) i li (A.take (E1 + 7)) y hi hmem hy
    (y &&& s.doubleHashDictionary.h2.mask) (by rw [w2.mask]; rfl) (ofEntry ent2) hget2
    (ofHashT s.doubleHashDictionary.h2 u1) hofs2
    (y &&& s.doubleHashDictionary.h1.mask) (by rw [w1.mask]; rfl) (ofEntry ent1) hget1
    (ofHashT s.doubleHashDictionary.h1 t1) hofs1
  by_cases hv2 : (y &&& s.doubleHashDictionary.h2.mask).toUInt32 ≠ ent2.value <;>
    by_cases hv1 : (y &&& s.doubleHashDictionary.h1.mask).toUInt32 ≠ ent1.value
  · -- neither table has the value: `continue`
    refine ⟨(⟨ofHashT s.doubleHashDictionary.h1 t1, ofHashT s.doubleHashDictionary.h2 u1⟩, none),
      by rw [hnf, if_pos ((val_ne_iff _ _).mp hv2), if_pos ((val_ne_iff _ _).mp hv1)],
      t1, u1, ht1, hu1, rfl, ?_, by intro st k o h; cases h⟩
    val_test_ne hv2
    val_test_ne hv1
    try rfl
  all_goals (
    -- the candidate `ent`: the entry of h1 (the value of h2 differs) or the entry of h2
    first
      | (val_test_ne hv2
         val_test_eq hv1
         have hnfE : ProbeW.dhpProbeW ws mmN E1 E2 false (A.drop L) (absD s) (A.take L) i li =
             tailM1 ws mmN E1 E2 false (A.drop L) (A.take L) (A.take (E1 + 7)) i li
               (ofHashT s.doubleHashDictionary.h1 t1) (ofHashT s.doubleHashDictionary.h2 u1) (ofEntry ent1) := by
           rw [hnf, if_pos ((val_ne_iff _ _).mp hv2), if_neg (fun hc => hv1 ((val_ne_iff _ _).mpr hc))]
         obtain ⟨ent, hent⟩ : ∃ ent, ent = ent1 := ⟨_, rfl⟩
         rw [← hent] at hnfE ⊢)
      | (val_test_eq hv2
         have hnfE : ProbeW.dhpProbeW ws mmN E1 E2 false (A.drop L) (absD s) (A.take L) i li =
             tailM1 ws mmN E1 E2 false (A.drop L) (A.take L) (A.take (E1 + 7)) i li
               (ofHashT s.doubleHashDictionary.h1 t1) (ofHashT s.doubleHashDictionary.h2 u1) (ofEntry ent2) := by
           rw [hnf, if_neg (fun hc => hv2 ((val_ne_iff _ _).mpr hc))]
         obtain ⟨ent, hent⟩ : ∃ ent, ent = ent2 := ⟨_, rfl⟩
         rw [← hent] at hnfE ⊢)
    unfold tailM1 at hnfE
    simp only [Bool.false_eq_true, if_false, Option.bind_some, Nat.sub_zero, Nat.add_zero] at hnfE
    -- B: the candidate is outside the window
    have hj1 : (ofEntry ent).1 = ent.pos.toNat := rfl
    rw [hj1] at hnfE
    generalize hjdef : ent.pos.toNat = j at hnfE ⊢
    by_cases hw : ¬ (j < i ∧ i - j ≤ ws)
    · refine ⟨(⟨ofHashT s.doubleHashDictionary.h1 t1, ofHashT s.doubleHashDictionary.h2 u1⟩, none),
        by rw [hnfE, if_pos hw], t1, u1, ht1, hu1, rfl, ?_, by intro st k o h; cases h⟩
      split
      all_goals first
        | rfl
        | (rename_i hc; exfalso; simp only [Int.ofNat_eq_natCast] at hc; omega)
    have hc1 : 0 < ia - Int.ofNat j := by show 0 < ia - (j : Int); omega
    have hc2 : ia - Int.ofNat j ≤ s.DHPConfig.WindowSize := by show ia - (j : Int) ≤ _; omega
    have hc3 : ¬ (ia - Int.ofNat j ≤ 0) := by show ¬ (ia - (j : Int) ≤ 0); omega
    have hc4 : ¬ (ia - Int.ofNat j > s.DHPConfig.WindowSize) := by show ¬ (ia - (j : Int) > _); omega
    have hc5 : ¬ (s.DHPConfig.WindowSize < ia - Int.ofNat j) := hc4
    simp only [hc1, hc2, hc3, hc4, hc5, and_self, or_self, not_true_eq_false, not_false_eq_true, if_false, if_true]
    rw [if_neg hw] at hnfE
    have hw := Decidable.not_not.mp hw
    -- C: the first word of the candidate
    obtain ⟨z, hz, hF2⟩ := gen_load_ok { arr := A, len := E1 + 7 } hswf (Int.ofNat j) j rfl (by show j + 8 ≤ E1 + 7; omega)
    rw [hpd] at hz
    rw [hF2]
    rw [tz_shr]
    obtain ⟨k8, hk8le, hk8, hfw⟩ := first_word A L E1 mmN i j y z ia hia hy hz hw.1 (by omega) hEL hLA hEA
    first_word_clamp
    rcases hfw with ⟨hC1, hml⟩ | ⟨hC1, kk, hme, hml, hkk1, hkk2⟩
    · refine ⟨(⟨ofHashT s.doubleHashDictionary.h1 t1, ofHashT s.doubleHashDictionary.h2 u1⟩, none),
        by rw [hnfE, hml]; rfl, t1, u1, ht1, hu1, rfl, ?_, by intro st k o h; cases h⟩
      rw [if_pos (by omega)]
    rw [if_neg (by omega)]
    -- the re-indexing loops: both tables for [i+1, min(i+k, e2)), then the table of h1 for [.., min(i+k, e1))
    obtain ⟨t1a, t2a, ht1a, ht2a, hr1, hr2, hl3⟩ := loop3_eq grow
      ((Min.min (i + kk) E2 : Nat) : Int) y { arr := A, len := E1 + 7 }
      (y &&& s.doubleHashDictionary.h1.mask)
      (Gen.hashValue (y &&& s.doubleHashDictionary.h1.mask) s.doubleHashDictionary.h1.shift) (UInt32.ofInt ia)
      (Min.min (i + kk) E2 - (i + 1)) fuel (i + 1) (ia + 1) (setTT s t1 u1) (by omega)
      (by omega) (by omega)
      (by show _ ∨ _ ≤ E1 + 7; omega) c1 ht1 c2 hu1
    rw [hpd] at hr1 hr2
    have hr1' : ProbeW.insertRangeW (ofHashT s.doubleHashDictionary.h1 t1) (List.take (E1 + 7) A) (i + 1)
        (Min.min (i + kk) E2 - (i + 1)) = some (ofHashT s.doubleHashDictionary.h1 t1a) := hr1
    have hr2' : ProbeW.insertRangeW (ofHashT s.doubleHashDictionary.h2 u1) (List.take (E1 + 7) A) (i + 1)
        (Min.min (i + kk) E2 - (i + 1)) = some (ofHashT s.doubleHashDictionary.h2 t2a) := hr2
    have hj3 : i + 1 + (Min.min (i + kk) E2 - (i + 1)) = Min.min (i + kk) E2 := by omega
    rw [hj3] at hl3
    -- the bound `b` of the generated call, in whatever spelling, is `min (i + kk) E2`
    have hl3b : ∀ b : Int, b = ((Min.min (i + kk) E2 : Nat) : Int) →
        doubleHashParser_Parse_loop_3 grow b y { arr := A, len := E1 + 7 } (y &&& s.doubleHashDictionary.h1.mask)
          (Gen.hashValue (y &&& s.doubleHashDictionary.h1.mask) s.doubleHashDictionary.h1.shift) (UInt32.ofInt ia)
          fuel (ia + 1) (setTT s t1 u1) =
        doubleHashParser_Parse_loop_3 grow ((Min.min (i + kk) E2 : Nat) : Int) y { arr := A, len := E1 + 7 }
          (y &&& s.doubleHashDictionary.h1.mask)
          (Gen.hashValue (y &&& s.doubleHashDictionary.h1.mask) s.doubleHashDictionary.h1.shift) (UInt32.ofInt ia)
          fuel (ia + 1) (setTT s t1 u1) := fun b hb => by rw [hb]
    have e1 : ia + (kk : Int) - 1 + 1 = ((i + kk : Nat) : Int) := by omega
    have e2 : ia + (kk : Int) = ((i + kk : Nat) : Int) := by omega
    have e3 : ia - Int.ofNat j = ((i - j : Nat) : Int) := by show ia - (j : Int) = _; omega
    by_cases hlong : E2 < i + kk
    · obtain ⟨t1b, ht1b, hr4, hl4⟩ := loopH1_eq
        (doubleHashParser_Parse_loop_4 grow ((Min.min (i + kk) E1 : Nat) : Int)
          (y &&& s.doubleHashDictionary.h1.mask) { arr := A, len := E1 + 7 }
          (Gen.hashValue (y &&& s.doubleHashDictionary.h1.mask) s.doubleHashDictionary.h1.shift) (UInt32.ofInt ia))
        ((Min.min (i + kk) E1 : Nat) : Int) { arr := A, len := E1 + 7 }
        (loop4_heq grow _ _ _ _ _)
        (Min.min (i + kk) E1 - Min.min (i + kk) E2) fuel (Min.min (i + kk) E2) ((Min.min (i + kk) E2 : Nat) : Int)
        (setTT s t1a t2a) rfl
        (by omega) (by omega)
        (by show _ ∨ _ ≤ E1 + 7; omega) c1 ht1a
      have hl4b : ∀ b : Int, b = ((Min.min (i + kk) E1 : Nat) : Int) →
          doubleHashParser_Parse_loop_4 grow b (y &&& s.doubleHashDictionary.h1.mask) { arr := A, len := E1 + 7 }
            (Gen.hashValue (y &&& s.doubleHashDictionary.h1.mask) s.doubleHashDictionary.h1.shift) (UInt32.ofInt ia)
            fuel ((Min.min (i + kk) E2 : Nat) : Int) (setTT s t1a t2a) =
          doubleHashParser_Parse_loop_4 grow ((Min.min (i + kk) E1 : Nat) : Int) (y &&& s.doubleHashDictionary.h1.mask)
            { arr := A, len := E1 + 7 }
            (Gen.hashValue (y &&& s.doubleHashDictionary.h1.mask) s.doubleHashDictionary.h1.shift) (UInt32.ofInt ia)
            fuel ((Min.min (i + kk) E2 : Nat) : Int) (setTT s t1a t2a) := fun b hb => by rw [hb]
      rw [hpd] at hr4
      have hr4' : ProbeW.insertRangeW (ofHashT s.doubleHashDictionary.h1 t1a) (List.take (E1 + 7) A) (Min.min (i + kk) E2)
          (Min.min (i + kk) E1 - Min.min (i + kk) E2) = some (ofHashT s.doubleHashDictionary.h1 t1b) := hr4
      have hsum : Min.min (i + kk) E1 - (i + 1) =
          (Min.min (i + kk) E2 - (i + 1)) + (Min.min (i + kk) E1 - Min.min (i + kk) E2) := by omega
      have hmodel : ProbeW.insertRangeW (ofHashT s.doubleHashDictionary.h1 t1) (List.take (E1 + 7) A) (i + 1)
          (Min.min (i + kk) E1 - (i + 1)) = some (ofHashT s.doubleHashDictionary.h1 t1b) := by
        rw [hsum, insertRangeW_add, hr1', Option.bind_some, hj3, hr4']
      refine ⟨(⟨ofHashT s.doubleHashDictionary.h1 t1b, ofHashT s.doubleHashDictionary.h2 t2a⟩, some (i, kk, i - j)), ?_,
        t1b, t2a, ht1b, ht2a, rfl, ?_, ?_⟩
      · rw [hnfE, hml, Option.bind_some]
        dsimp only
        rw [hmodel, Option.bind_some, hr2']; rfl
      · refine bind_trans (v := (kk : Int)) (by dhp_ext_block) ?_
        dsimp only
        refine bind_trans (slice_okI _ lia ia li i hlia hia hli (by show i ≤ A.length; omega)) ?_
        dsimp only
        refine bind_trans ((hl3b _ (by clamp_eq)).trans hl3) ?_
        dsimp only
        rw [if_pos (by omega)]
        refine bind_trans (bind_trans ((hl4b _ (by clamp_eq)).trans hl4) rfl) ?_
        dsimp only
        rw [e1, e2, e3]
        rfl
      · intro st k o h
        cases h
        exact ⟨hli, Nat.le_refl _, by omega, by omega⟩
    · have hsame : Min.min (i + kk) E1 - (i + 1) = Min.min (i + kk) E2 - (i + 1) := by omega
      refine ⟨(⟨ofHashT s.doubleHashDictionary.h1 t1a, ofHashT s.doubleHashDictionary.h2 t2a⟩, some (i, kk, i - j)), ?_,
        t1a, t2a, ht1a, ht2a, rfl, ?_, ?_⟩
      · rw [hnfE, hml, Option.bind_some]
        dsimp only
        rw [hsame, hr1', Option.bind_some, hr2']; rfl
      · refine bind_trans (v := (kk : Int)) (by dhp_ext_block) ?_
        dsimp only
        refine bind_trans (slice_okI _ lia ia li i hlia hia hli (by show i ≤ A.length; omega)) ?_
        dsimp only
        refine bind_trans ((hl3b _ (by clamp_eq)).trans hl3) ?_
        dsimp only
        rw [if_neg (by omega), bind_ok]
        dsimp only
        rw [e1, e2, e3]
        rfl
      · intro st k o h
        cases h
        exact ⟨hli, Nat.le_refl _, by omega, by omega⟩)

/-- the invariant of the two loops: only the tables change, they keep their invariant -/
def InvD (s0 s : Gen.doubleHashParser) : Prop :=
  ∃ t1 t2, s = setTT s0 t1 t2 ∧ TOK s0.doubleHashDictionary.h1.shift t1 ∧ TOK s0.doubleHashDictionary.h2.shift t2

/-- **The two greedy loops of `Parse`** (loop_1 up to `e2`, then loop_5 up to `e1`) are ONE run of
    `ProbeW.greedyLoopW` with the finder `ProbeW.dhpProbeW` up to `e1`: no panic, same final position, `litIndex`,
    sequences, literals; the final tables abstract to the model's.  `e1 = len(p) - inputLen1 + 1 > 0`,
    `e2 = len(p) - inputLen2 + 1 ≤ e1` (any sign).  Fuel `2·len(p) + 3`: the re-indexing loop of the second loop
    starts at the MATCH position `j < i`. -/
theorem loops_eq (grow : Nat → Nat → Nat) (e1I e2I mm : Int) (A : List UInt8) (L E1 mmN ws : Nat)
    (hE1 : e1I = (E1 : Int)) (he21 : e2I ≤ e1I) (hmm : mm = (mmN : Int))
    (hEL : E1 ≤ L) (hLA : L ≤ A.length) (hEA : E1 + 7 ≤ A.length) (hsm : E1 + 7 < 4294967296 + 8)
    (hmm1 : 1 ≤ mmN) (hmm8 : mmN ≤ 8)
    (fuel W : Nat) (s : Gen.doubleHashParser) (blk : Block')
    (w1 : HOK s.doubleHashDictionary.h1) (w2 : HOK s.doubleHashDictionary.h2)
    (hws : ws = s.DHPConfig.WindowSize.toNat) (hW : W ≤ L) (hfuel : 2 * L + 3 ≤ fuel)
    (hsq : blk.Sequences = []) (hlt : blk.Literals.data = []) (hswf : SWF blk.Literals) :
    ∃ (st1 st' : LoopSt Hash2) (s1 : Gen.doubleHashParser) (blk1 : Block') (t1 t2 : GSlice hashEntry) (blk' : Block'),
      ProbeW.greedyLoopW (ProbeW.dhpProbeW ws mmN E1 e2I.toNat false (A.drop L)) (A.take L) E1
        { dict := absD s, i := W, litIndex := W, seqs := [], lits := [] } = some st' ∧
      doubleHashParser_Parse_loop_1 grow e2I { arr := A, len := E1 + 7 } { arr := A, len := L } mm e1I fuel (W : Int) s blk (W : Int) =
        Res.ok ((st1.i : Int), s1, blk1, (st1.litIndex : Int)) ∧
      doubleHashParser_Parse_loop_5 grow e1I { arr := A, len := E1 + 7 } { arr := A, len := L } mm fuel (st1.i : Int) s1 blk1
        (st1.litIndex : Int) = Res.ok ((st'.i : Int), setTT s t1 t2, blk', (st'.litIndex : Int)) ∧
      TOK s.doubleHashDictionary.h1.shift t1 ∧ TOK s.doubleHashDictionary.h2.shift t2 ∧
      st'.dict = ⟨ofHashT s.doubleHashDictionary.h1 t1, ofHashT s.doubleHashDictionary.h2 t2⟩ ∧
      blk'.Sequences = st'.seqs.map seqRep ∧ blk'.Literals.data = st'.lits ∧ SWF blk'.Literals ∧
      W ≤ st'.litIndex ∧ st'.litIndex ≤ L := by
  have hE2 : e2I.toNat ≤ E1 := by omega
  have hokOf : ∀ t1 t2, TOK s.doubleHashDictionary.h1.shift t1 → TOK s.doubleHashDictionary.h2.shift t2 →
      HOK (setTT s t1 t2).doubleHashDictionary.h1 ∧ HOK (setTT s t1 t2).doubleHashDictionary.h2 :=
    fun t1 t2 h1 h2 => ⟨⟨w1.il0, w1.mask, w1.sh1, w1.sh2, h1⟩, ⟨w2.il0, w2.mask, w2.sh1, w2.sh2, h2⟩⟩
  -- the first loop
  obtain ⟨st1, s1, blk1, hg1, hl1, ⟨u1, u2, rfl, hu1, hu2⟩, hd1, hE2i, hiL1, hli1, hsq1, hlt1, hswf1, hW1⟩ :=
    greedy_generic (ProbeW.dhpProbeW ws mmN E1 e2I.toNat false (A.drop L))
      (doubleHashParser_Parse_loop_1 grow e2I { arr := A, len := E1 + 7 } { arr := A, len := L } mm e1I) absD (InvD s)
      grow A L E1 e2I.toNat 0 0 hE2 hEL hLA
      (fun fuel ia s blk lia h => by rw [doubleHashParser_Parse_loop_1, if_neg (by omega)])
      (fun fuel i li ia lia s' blk hinv hia hlia hlo hi hli hf => by
        obtain ⟨t1, t2, rfl, ht1, ht2⟩ := hinv
        obtain ⟨w1', w2'⟩ := hokOf t1 t2 ht1 ht2
        obtain ⟨r, hr, t1', t2', ht1', ht2', hr1, hstp, hb⟩ := loop1_step grow e2I mm e1I A L E1 e2I.toNat mmN ws
          fuel i li ia lia (setTT s t1 t2) blk w1' w2' hia hlia hE1 (by omega) hmm hi hE2 hEL hLA hEA hsm hli hws
          hmm1 hmm8 (by omega)
        exact ⟨r, hr, setTT s t1' t2', ⟨t1', t2', rfl, ht1', ht2'⟩, hr1, hstp, hb⟩)
      (e2I.toNat - W) fuel W W (W : Int) (W : Int) s blk [] [] (by omega) (Nat.zero_le _) hW (Nat.le_refl _) rfl rfl
      (by omega) ⟨_, _, rfl, w1.tok, w2.tok⟩ (by rw [hsq]; rfl) hlt hswf
  -- the second loop
  obtain ⟨w1', w2'⟩ := hokOf u1 u2 hu1 hu2
  obtain ⟨st2, s2, blk2, hg2, hl2, ⟨v1, v2, rfl, hv1, hv2⟩, hd2, hE1i, hiL2, hli2, hsq2, hlt2, hswf2, hW2⟩ :=
    greedy_generic (ProbeW.dhpProbeW ws mmN E1 e2I.toNat false (A.drop L))
      (doubleHashParser_Parse_loop_5 grow e1I { arr := A, len := E1 + 7 } { arr := A, len := L } mm) absD (InvD s)
      grow A L E1 E1 (E1 + 1) e2I.toNat (Nat.le_refl _) hEL hLA
      (fun fuel ia s blk lia h => by rw [doubleHashParser_Parse_loop_5, if_neg (by omega)])
      (fun fuel i li ia lia s' blk hinv hia hlia hlo hi hli hf => by
        obtain ⟨t1, t2, rfl, ht1, ht2⟩ := hinv
        obtain ⟨w1'', w2''⟩ := hokOf t1 t2 ht1 ht2
        obtain ⟨r, hr, t1', ht1', hr1, hstp, hb⟩ := loop5_step grow e1I mm A L E1 e2I.toNat mmN ws
          fuel i li ia lia (setTT s t1 t2) blk w1'' hia hlia hE1 hmm hi (by omega) hEL hLA hEA hsm hli hws
          hmm1 hmm8 (by omega) (by omega)
        exact ⟨r, hr, setTT s t1' t2, ⟨t1', t2, rfl, ht1', ht2⟩, hr1, hstp, hb⟩)
      (E1 - st1.i) fuel st1.i st1.litIndex (st1.i : Int) (st1.litIndex : Int) (setTT s u1 u2) blk1 st1.seqs st1.lits
      (by omega) hE2i hiL1 hli1 rfl rfl (by omega) ⟨_, _, rfl, hu1, hu2⟩ hsq1 hlt1 hswf1
  refine ⟨st1, st2, _, blk1, v1, v2, blk2, ?_, hl1, hl2, hv1, hv2, hd2, hsq2, hlt2, hswf2, by omega, by omega⟩
  rw [hg1]
  have : st1 = { dict := absD (setTT s u1 u2), i := st1.i, litIndex := st1.litIndex, seqs := st1.seqs, lits := st1.lits } := by
    rw [← hd1]
  rw [this, hg2]
  exact ProbeW.greedyLoopW_done _ _ _ _ (by omega)

end LZ.GenDHPParse
