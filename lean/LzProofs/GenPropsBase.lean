/-
  LzProofs.GenPropsBase — lemmas shared by the GenProps topic files that do not mention any
  translated function: the model's verification predicates as propositions, the two
  error-propagation idioms of the generated code (over `Gen.Err` of CodePrelude), and the
  domain of `hashBits` on verified configurations.
-/
import LzModel.Generated.CodePrelude
import LzModel.Basic
import LzModel.Config
import LzModel.Hash
import LzModel.Sap
import LzModel.DecBuf

set_option linter.unusedSimpArgs false

namespace LZ.GenProps
open LZ

/-! ## shape-independent tactics

The generated term changes with every behaviour-preserving rewrite of the Go source (negated
conditions with swapped arms, De Morgan, early returns, reordered statements …).  The proofs
about generated functions therefore do not rewrite with lemmas that match a particular shape;
they unfold the function, split every `if`, and close each branch by computation, by the
contradiction between the branch conditions, or by linear arithmetic. -/

/-- close one branch / one field: computation, contradictory branch conditions, linear
    arithmetic, or simplification with the branch conditions -/
macro "gen_close" : tactic =>
  `(tactic| first
    | rfl
    | contradiction
    | omega
    | (simp_all; done)
    | (simp_all <;> omega))

/-- split every `if` of the goal, then close every branch with `gen_close` -/
macro "gen_cases" : tactic =>
  `(tactic| ((repeat' split) <;> gen_close))

/-- for an equation between two records: split every `if`, compare field by field -/
macro "gen_fields" : tactic =>
  `(tactic| ((repeat' split) <;> (try dsimp only at *) <;> (repeat' apply And.intro) <;> gen_close))

/-! ## configurations: the four helper configurations -/

/-- the model's verification predicates as propositions (constants of `Facts` unfolded) -/
theorem bufVerify_iff (c : Cfg) : bufVerify c = true ↔
    ((1 ≤ c.bufferSize ∧ c.bufferSize ≤ 4294967288) ∧ (0 ≤ c.shrinkSize ∧ c.shrinkSize < c.bufferSize) ∧
     (0 ≤ c.windowSize ∧ c.windowSize ≤ 4294967288) ∧ (1 ≤ c.blockSize ∧ c.blockSize ≤ 4294967288)) := by
  unfold bufVerify
  simp +zetaHave only [decide_eq_true_eq]
  simp only [Facts.maxUint32, Facts.margin]
  omega

theorem hashVerify_iff (il hb mb : Int) : hashVerify il hb mb = true ↔
    ((2 ≤ il ∧ il ≤ 8) ∧ (0 ≤ hb ∧ hb ≤ (if 8 * il < mb then 8 * il else mb))) := by
  unfold hashVerify
  simp +zetaHave only [decide_eq_true_eq]
  simp only [Facts.minInputLen, Facts.maxInputLen]

/-- an error-propagating step `if err = f(); err != nil { return err }; rest` -/
theorem seq_ok (a b : Gen.Err) : (if a ≠ .ok then a else b) = .ok ↔ a = .ok ∧ b = .ok := by
  split <;> simp_all

/-- a check `if !(p) { return error k }; rest` -/
theorem chk_ok {p : Prop} [Decidable p] (k : Nat) (r : Gen.Err) :
    (if ¬p then Gen.Err.error k else r) = .ok ↔ p ∧ r = .ok := by
  split <;> simp_all

/-! ### the domain on which `hashValue` is used

The model's `hashValue x hashBits` returns a `Nat` without the `uint32(…)` truncation, so it
equals the Go function only for `hashBits ≤ 32` (`gen_hashValue`).  Every caller takes
`hashBits` from a verified configuration, where it is at most 24 (23 for the bucket hash). -/

theorem hashBits_domain (il hb : Int) (h : hashVerify il hb Facts.maxHashBits = true) :
    0 ≤ hb ∧ hb ≤ 24 := by
  rw [hashVerify_iff] at h
  simp only [Facts.maxHashBits] at h
  omega

theorem bucketHashBits_domain (il hb : Int) (h : hashVerify il hb Facts.maxBucketHashBits = true) :
    0 ≤ hb ∧ hb ≤ 23 := by
  rw [hashVerify_iff] at h
  simp only [Facts.maxBucketHashBits] at h
  omega

/-- `if bc.BufferSize == 0 { bc.SetDefaults(); bc.BufferSize = bc.WindowSize }` changes nothing:
    that is what `BufConfig.SetDefaults` yields anyway -/
theorem bufDefaults_bufferSize_of_zero (c : Cfg) (h : c.bufferSize = 0) :
    (bufDefaults c).bufferSize = (bufDefaults c).windowSize := by
  simp [bufDefaults, h]

end LZ.GenProps
