/-
  LzProofs.GenBufPropsD — the DecoderBuffer methods without loops (D01–D07; D08–D10 are in GenBufPropsDCopy) of: the hand-written models of `ParserBuffer` (LzModel/PBuf.lean) and
  `DecoderBuffer` (LzModel/DecBuf.lean) equal the code that `tools/extract -code` regenerates
  from parser_buffer.go / decoder_buffer.go (second part of LzModel/Generated/Code.lean:
  byte slices as values `Gen.Slice`, panics and loop fuel as `Gen.Res`, error variables).

  Abstraction maps: `ofPB : Gen.ParserBuffer → PBuf`, `ofDB : Gen.DecoderBuffer → DecBuf`
  (Go ints ↦ naturals by `Int.toNat`, `Data ↦ Data.data = arr.take len`, `cap = arr.length`),
  `errOf : Gen.Err → Option LZ.Err` (the package-level error variables; `none` for any other
  value), `ofSeq`, `ofBlock`.  Representation invariants (explicit hypotheses, shown to be
  preserved): `SWF s : s.len ≤ s.arr.length`, `PBWF b` / `DBWF b`: `SWF b.Data` and the int
  fields the model stores as naturals are ≥ 0.  Every theorem quantifies over ALL states and
  inputs satisfying the stated hypotheses, every growth function `g` (with `GrowOK g :
  ∀ c n, n ≤ g c n` where `append` may reallocate), and every sufficient fuel.

  Index (B = ParserBuffer, D = DecoderBuffer; referred to by NOTES.md):
    B01 gen_pbuf_shrink (+ gen_pbuf_shrink_panic)   B02 gen_pbuf_byteAt    B03 gen_pbuf_peekAt
    B04 gen_pbuf_readAt   B05 gen_pbuf_reset   B06 gen_pbuf_grow   B07 gen_pbuf_write   B08 gen_pbuf_init
    D01 gen_dbuf_init   D02 gen_dbuf_reset   D03 gen_dbuf_byteAtEnd   D04 gen_dbuf_read (+ gen_dbuf_read_panic)
    D05 gen_dbuf_shrink   D06 gen_dbuf_writeByte   D07 gen_dbuf_write
    D08 gen_dbuf_writeMatch (loop: loop_spec / loop_spec0 / copyTail_spec)
    D09 gen_dbuf_writeBlock (range loop with `goto end`: wb_loop_spec)
    D10 gen_dbuf_lenInv / gen_dbuf_init_lenInv (the invariant `len(Data) ≤ BufferSize` of D08/D09)
    writeMatch_discrepancy (a concrete state outside of that invariant on which code and model differ)
  The lemmas `gen_*_unfold`, `loop_unfold`, `wb_loop_cons`, `wb_loop_nil`, `wb_loop2_eq` state the
  syntactic shape of the generated definitions (proved by `rfl`/unfolding); they are the first
  thing that breaks when the Go source changes.  D05 (`shrink`) has no such lemma any more: it is
  proved by unfolding, splitting every `if` and evaluating every leaf (`okAnd`, `slice_ok_and`,
  `shift_copy` of GenBufPropsBase) against the closed form `model_shrink_closed` of the model.
  Part of the split of the former LzProofs/GenBufProps.lean (the generated code is emitted per
  topic: LzModel/Generated/CodePBuf.lean, CodeDBuf.lean, CodeSlicePrelude.lean, CodeErrVars.lean),
  so that a construct the translator refuses in decoder_buffer.go does not take the ParserBuffer
  theorems down, and vice versa.  All names live in `LZ.GenBuf`.
-/
import LzModel.Generated.CodeDBuf
import LzProofs.GenBufPropsBase
import LzProofs.GenPropsDec
import LzProofs.GenPropsInts
import LzProofs.DecBufLemmas

set_option linter.unusedSimpArgs false
set_option linter.unusedVariables false

namespace LZ.GenBuf
open LZ LZ.Gen

/-! ## DecoderBuffer -/

structure DBWF (b : DecoderBuffer) : Prop where
  data : SWF b.Data
  r : 0 ≤ b.R
  off : 0 ≤ b.Off
  ws : 0 ≤ b.DecoderConfig.WindowSize
  bs : 0 ≤ b.DecoderConfig.BufferSize

/-- abstraction map: generated `DecoderBuffer` ↦ model `DecBuf` -/
def ofDB (b : DecoderBuffer) : DecBuf :=
  { data := b.Data.data, r := b.R.toNat, off := b.Off.toNat, ws := b.DecoderConfig.WindowSize.toNat,
    bs := b.DecoderConfig.BufferSize.toNat, cap := b.Data.cap }

/-- what the Go run time guarantees about the capacity `append` chooses -/
def GrowOK (g : Nat → Nat → Nat) : Prop := ∀ c n, n ≤ g c n

/-- D01 `Init(cfg)` -/
theorem gen_dbuf_init (b : DecoderBuffer) (cfg : Gen.DecoderConfig) :
    match DecBuf.init cfg.WindowSize cfg.BufferSize b.Data.cap with
    | some m => ∃ b', DecoderBuffer_Init b cfg = Res.ok (b', Gen.Err.ok) ∧ ofDB b' = m ∧ DBWF b'
    | none => ∃ e, DecoderBuffer_Init b cfg = Res.ok (b, e) ∧ e ≠ Gen.Err.ok := by
  unfold DecBuf.init
  rw [GenProps.gen_decCfg]
  have hc : (⟨cfg.WindowSize, cfg.BufferSize⟩ : Gen.DecoderConfig) = cfg := rfl
  simp only [hc]
  unfold DecoderBuffer_Init
  by_cases hok : DecoderConfig_Verify (DecoderConfig_SetDefaults cfg) = Gen.Err.ok
  · simp only [hok, ne_eq, not_true_eq_false, if_false, if_true]
    have h0 : ((0 : Nat) : Int) = 0 := rfl
    rw [← h0, slice_ok _ 0 0 (Nat.le_refl _) (Nat.zero_le _)]
    simp only [bind_ok, List.drop_zero, Slice.cap, Int.ofNat_eq_natCast]
    have hv := (GenProps.gen_decVerify (DecoderConfig_SetDefaults cfg)).mp hok
    obtain ⟨⟨hb1, _⟩, hw0, _⟩ := hv
    by_cases hcap : (b.Data.arr.length : Int) > (DecoderConfig_SetDefaults cfg).BufferSize
    · have hcap' : b.Data.arr.length > (DecoderConfig_SetDefaults cfg).BufferSize.toNat := by omega
      simp only [hcap, hcap', if_true]
      refine ⟨_, rfl, ?_, ⟨Nat.zero_le _, Int.le_refl _, Int.le_refl _, hw0, by show (0:Int) ≤ (b.Data.arr.length : Int); omega⟩⟩
      simp [ofDB, Slice.data, Slice.cap]
    · have hcap' : ¬ b.Data.arr.length > (DecoderConfig_SetDefaults cfg).BufferSize.toNat := by omega
      simp only [hcap, hcap', if_false]
      refine ⟨_, rfl, ?_, ⟨Nat.zero_le _, Int.le_refl _, Int.le_refl _, hw0, by show (0:Int) ≤ (DecoderConfig_SetDefaults cfg).BufferSize; omega⟩⟩
      simp [ofDB, Slice.data, Slice.cap]
  · simp only [hok, ne_eq, not_false_eq_true, if_true, if_false]
    exact ⟨_, rfl, hok⟩

/-- D02 `Reset()` -/
theorem gen_dbuf_reset (b : DecoderBuffer) (h : DBWF b) :
    ∃ b', DecoderBuffer_Reset b = Res.ok b' ∧ ofDB b' = (ofDB b).reset ∧ DBWF b' := by
  obtain ⟨hd, hr0, ho0, hw0, hb0⟩ := h
  unfold DecoderBuffer_Reset DecBuf.reset
  have h0 : ((0 : Nat) : Int) = 0 := rfl
  rw [← h0, slice_ok _ 0 0 (Nat.le_refl _) (Nat.zero_le _)]
  simp only [bind_ok, List.drop_zero, Slice.cap, Int.ofNat_eq_natCast]
  by_cases hcap : (b.Data.arr.length : Int) > b.DecoderConfig.BufferSize
  · have hcap' : (ofDB b).cap > (ofDB b).bs := by simp only [ofDB, Slice.cap]; omega
    simp only [hcap, hcap', if_true]
    refine ⟨_, rfl, ?_, ⟨Nat.zero_le _, Int.le_refl _, Int.le_refl _, hw0, by show (0:Int) ≤ (b.Data.arr.length : Int); omega⟩⟩
    simp [ofDB, Slice.data, Slice.cap]
  · have hcap' : ¬ (ofDB b).cap > (ofDB b).bs := by simp only [ofDB, Slice.cap]; omega
    simp only [hcap, hcap', if_false]
    refine ⟨_, rfl, ?_, ⟨Nat.zero_le _, Int.le_refl _, Int.le_refl _, hw0, hb0⟩⟩
    simp [ofDB, Slice.data, Slice.cap]

/-- canonical form of `Gen.DecoderBuffer_ByteAtEnd`: the text the translator emitted when the proof below was
    written; `gen_DecoderBuffer_ByteAtEnd_canon` re-proves "generated = canonical" on every build -/
def DecoderBuffer_ByteAtEnd_canon (b : DecoderBuffer) (off : Int) : Res (UInt8) :=
  let i : Int := (Int.ofNat b.Data.len) - off
  if ¬((0 ≤ i) ∧ (i < (Int.ofNat b.Data.len))) then
    Res.ok (0 : UInt8)
  else
  Res.bind (Slice.index b.Data i) fun t_1 =>
  Res.ok t_1

theorem gen_DecoderBuffer_ByteAtEnd_canon (b : DecoderBuffer) (off : Int) :
    DecoderBuffer_ByteAtEnd b off = DecoderBuffer_ByteAtEnd_canon b off := by
  first
  | rfl
  | (simp only [DecoderBuffer_ByteAtEnd, DecoderBuffer_ByteAtEnd_canon, Slice.make, Slice.slice, Slice.index,
      bind_ite, bind_ok, bind_panic, bind_fuel] <;> gen_eq)

/-- D03 `ByteAtEnd(off)` -/
theorem gen_dbuf_byteAtEnd (b : DecoderBuffer) (h : SWF b.Data) (off : Int) :
    DecoderBuffer_ByteAtEnd b off = Res.ok (DecBuf.byteAtEnd (ofDB b) off) := by
  rw [gen_DecoderBuffer_ByteAtEnd_canon]
  unfold DecoderBuffer_ByteAtEnd_canon DecBuf.byteAtEnd
  have hl : (ofDB b).data.length = b.Data.len := data_length h
  simp only [hl, Int.ofNat_eq_natCast]
  by_cases hin : 0 ≤ (b.Data.len : Int) - off ∧ (b.Data.len : Int) - off < (b.Data.len : Int)
  · simp only [hin, and_self, not_true_eq_false, if_false, if_true]
    obtain ⟨i, hi⟩ : ∃ i : Nat, (b.Data.len : Int) - off = (i : Int) := ⟨((b.Data.len : Int) - off).toNat, by omega⟩
    rw [hi, index_spec _ h i (by omega)]
    simp only [bind_ok, Int.toNat_natCast]
    rfl
  · simp only [hin, not_false_eq_true, if_true, if_false]

/-- D04 `Read(p)`: the bytes the model returns are the new head of `p` -/
theorem gen_dbuf_read (b : DecoderBuffer) (h : DBWF b) (hr : b.R ≤ b.Data.len) (p : Slice) (hp : SWF p) :
    ∃ b' p' n, DecoderBuffer_Read b p = Res.ok (b', p', n, Gen.Err.ok) ∧
      ofDB b' = (DecBuf.read (ofDB b) p.len).1 ∧
      p'.data = (DecBuf.read (ofDB b) p.len).2 ++ p.data.drop (DecBuf.read (ofDB b) p.len).2.length ∧
      n = ((DecBuf.read (ofDB b) p.len).2.length : Int) ∧ DBWF b' ∧ b'.R ≤ b'.Data.len ∧
      p'.len = p.len ∧ p'.arr.length = p.arr.length := by
  obtain ⟨hd, hr0, ho0, hw0, hb0⟩ := h
  have hd' : b.Data.len ≤ b.Data.arr.length := hd
  unfold DecoderBuffer_Read DecBuf.read
  obtain ⟨r, hrr⟩ : ∃ r : Nat, b.R = (r : Int) := ⟨b.R.toNat, by omega⟩
  have hmr : (ofDB b).r = r := by simp only [ofDB]; omega
  simp only [hrr, hmr, Int.ofNat_eq_natCast]
  rw [slice_ok _ _ _ (by omega) hd]
  simp only [bind_ok]
  have hq : SWF { arr := List.drop r b.Data.arr, len := b.Data.len - r } := by
    show b.Data.len - r ≤ (List.drop r b.Data.arr).length
    simp only [List.length_drop]; omega
  have hqd : ({ arr := List.drop r b.Data.arr, len := b.Data.len - r } : Slice).data = List.drop r (ofDB b).data := by
    simp only [Slice.data, ofDB, List.drop_take]
  obtain ⟨hc2, hcd, hcl, hca⟩ := copy_spec p _ hp hq
  have hql : (List.drop r (ofDB b).data).length = b.Data.len - r := by rw [← hqd, data_length hq]
  refine ⟨_, _, _, rfl, ?_, ?_, ?_, ⟨hd, ?_, ho0, hw0, hb0⟩, ?_, hcl, hca⟩
  · simp only [ofDB, hc2, List.length_take, List.length_drop, data_length hd]
    congr 1
  · rw [hcd, hqd]
    simp only [List.length_take, hql]
  · rw [hc2]; simp only [List.length_take, hql]
  · show (0 : Int) ≤ (r : Int) + (Slice.copy _ _).2
    rw [hc2]; omega
  · show (r : Int) + (Slice.copy _ _).2 ≤ (b.Data.len : Int)
    rw [hc2]
    show (r : Int) + ((Min.min p.len (b.Data.len - r) : Nat) : Int) ≤ _
    omega

/-- D04' the model's `read` is total, the Go code panics when `R > len(Data)` -/
theorem gen_dbuf_read_panic (b : DecoderBuffer) (hr : b.R > b.Data.len) (p : Slice) :
    DecoderBuffer_Read b p = Res.panic := by
  unfold DecoderBuffer_Read
  rw [slice_panic _ _ _ (by right; left; show ((b.Data.len : Nat) : Int) < b.R; omega)]
  rfl


def modelShrinkTail (m : DecBuf) : DecBuf × Nat :=
  let delta := Min.min (m.data.length - m.ws) m.r
  if delta = 0 then (m, 0)
  else ({ m with data := m.data.drop delta, r := m.r - delta }, delta)

theorem model_shrink_unfold (m : DecBuf) (g : Nat) :
    DecBuf.shrink m g =
      if m.bs < m.cap then
        if g ≤ m.cap then ({ m with bs := m.cap }, 0) else modelShrinkTail { m with bs := m.cap }
      else modelShrinkTail m := by
  unfold DecBuf.shrink modelShrinkTail
  by_cases h : m.bs < m.cap
  · simp only [h, decide_true, if_true, true_and]
  · simp only [h, decide_false, if_false, false_and, Bool.false_eq_true]

/-- the model's `shrink` in closed form: the new `bs` and the number `D` of dropped bytes are
    described by linear arithmetic, independently of the order of the tests in the code -/
theorem model_shrink_closed (m : DecBuf) (g : Nat) :
    ∃ D B : Nat, ((m.bs < m.cap ∧ g ≤ m.cap → D = 0) ∧
        (¬ (m.bs < m.cap ∧ g ≤ m.cap) → D = Min.min (m.data.length - m.ws) m.r)) ∧
      ((m.bs < m.cap → B = m.cap) ∧ (¬ m.bs < m.cap → B = m.bs)) ∧
      DecBuf.shrink m g = ({ m with bs := B, data := m.data.drop D, r := m.r - D }, D) := by
  refine ⟨if m.bs < m.cap ∧ g ≤ m.cap then 0 else Min.min (m.data.length - m.ws) m.r,
    if m.bs < m.cap then m.cap else m.bs, ⟨fun h => if_pos h, fun h => if_neg h⟩,
    ⟨fun h => if_pos h, fun h => if_neg h⟩, ?_⟩
  rw [model_shrink_unfold]
  unfold modelShrinkTail
  by_cases h1 : m.bs < m.cap <;> by_cases h2 : g ≤ m.cap <;>
    by_cases h0 : Min.min (m.data.length - m.ws) m.r = 0 <;>
    simp only [h0, h1, h2, and_self, and_true, and_false, false_and, true_and, if_true, if_false,
      List.drop_zero, Nat.sub_zero]

/-- D05 `shrink(g)` (for every `g`, also negative: the model is called with `g.toNat`).
    Shape-independent: unfold, split every `if`, in every leaf evaluate the two slice
    expressions (`slice_ok_and`, `shift_copy`) and compare with the closed form of the model. -/
theorem gen_dbuf_shrink (b : DecoderBuffer) (h : DBWF b) (g : Int) :
    ∃ b', DecoderBuffer_shrink b g = Res.ok (b', ((DecBuf.shrink (ofDB b) g.toNat).2 : Int)) ∧
      ofDB b' = (DecBuf.shrink (ofDB b) g.toNat).1 ∧ DBWF b' ∧
      b'.DecoderConfig.WindowSize = b.DecoderConfig.WindowSize ∧ b'.Off = b.Off := by
  obtain ⟨hd, hr0, ho0, hw0, hb0⟩ := h
  have hd' : b.Data.len ≤ b.Data.arr.length := hd
  have hl : b.Data.data.length = b.Data.len := data_length hd
  obtain ⟨D, B, hD, hB, hm⟩ := model_shrink_closed (ofDB b) g.toNat
  rw [hm]
  simp only [ofDB, Slice.cap, hl] at hD hB
  suffices hs : okAnd (DecoderBuffer_shrink b g) (fun r => r.2 = (D : Int) ∧
      ofDB r.1 = { ofDB b with bs := B, data := (ofDB b).data.drop D, r := (ofDB b).r - D } ∧ DBWF r.1 ∧
      r.1.DecoderConfig.WindowSize = b.DecoderConfig.WindowSize ∧ r.1.Off = b.Off) by
    obtain ⟨⟨b', δ⟩, e, h1, h2⟩ := hs
    exact ⟨b', by rw [e, ← h1], h2⟩
  unfold DecoderBuffer_shrink
  simp only [GenProps.gen_doz_toNat, Int.ofNat_eq_natCast, Slice.cap]
  repeat' split
  all_goals
    (try rw [slice_ok_and _ _ _ (by omega)])
    (try simp only [bind_ok])
    (try rw [shift_copy _ hd _ (by omega) _ (by omega)])
    simp only [bind_ok, okAnd_ok, ofDB, Slice.cap, DecBuf.mk.injEq]
    refine ⟨?_, ⟨?_, ?_, ?_, ?_, ?_, ?_⟩, ⟨?_, ?_, ?_, ?_, ?_⟩, ?_, ?_⟩
    all_goals (try dsimp only)
    all_goals first
      | trivial
      | rfl
      | assumption
      | omega
      | exact shifted_data _ hd _ _ (by omega) (by omega)
      | exact shifted_cap _ hd _ (by omega)
      | exact shifted_swf _ hd _ (by omega)
      | exact drop_of_eq_zero _ _ (by omega)


theorem model_shrink_delta_le (m : DecBuf) (g : Nat) : (DecBuf.shrink m g).2 ≤ m.data.length := by
  rw [model_shrink_unfold]
  unfold modelShrinkTail
  by_cases h1 : m.bs < m.cap <;> by_cases h2 : g ≤ m.cap <;> simp only [h1, h2, if_true, if_false] <;>
    (try split) <;> (try dsimp only) <;> omega

/-- `b.Data = append(b.Data, bs...)` is the model's `append` -/
theorem db_append (g : Nat → Nat → Nat) (hg : GrowOK g) (b : DecoderBuffer) (hd : SWF b.Data) (bs : List UInt8) :
    ofDB { b with Data := Slice.append g b.Data bs } = DecBuf.append g (ofDB b) bs ∧
    SWF (Slice.append g b.Data bs) ∧ (Slice.append g b.Data bs).len = b.Data.len + bs.length := by
  obtain ⟨had, hal, haa⟩ := append_spec g b.Data hd bs
  have hl : (ofDB b).data.length = b.Data.len := data_length hd
  have hd' : b.Data.len ≤ b.Data.arr.length := hd
  refine ⟨?_, ?_, hal⟩
  · unfold DecBuf.append
    simp only [hl]
    simp only [ofDB, had, Slice.cap, haa]
    congr 1
    by_cases hc : b.Data.len + bs.length ≤ b.Data.arr.length
    · simp only [hc, if_true]
    · simp only [hc, if_false]
      have := hg b.Data.arr.length (b.Data.len + bs.length); omega
  · show (Slice.append g b.Data bs).len ≤ (Slice.append g b.Data bs).arr.length
    rw [hal, haa]
    by_cases hc : b.Data.len + bs.length ≤ b.Data.arr.length
    · simp only [hc, if_true]
    · simp only [hc, if_false]; omega

/-- D06 `WriteByte(c)` -/
theorem gen_dbuf_writeByte (g : Nat → Nat → Nat) (hg : GrowOK g) (b : DecoderBuffer) (h : DBWF b) (c : UInt8) :
    ∃ b' e, DecoderBuffer_WriteByte g b c = Res.ok (b', e) ∧ ofDB b' = (DecBuf.writeByte g (ofDB b) c).1 ∧
      errOf e = some (DecBuf.writeByte g (ofDB b) c).2 ∧ DBWF b' := by
  have hwf := h
  obtain ⟨hd, hr0, ho0, hw0, hb0⟩ := h
  have hl : (ofDB b).data.length = b.Data.len := data_length hd
  unfold DecoderBuffer_WriteByte DecBuf.writeByte
  simp only [hl, Int.ofNat_eq_natCast]
  -- the last step: append and advance Off
  have fin : ∀ (b' : DecoderBuffer), DBWF b' →
      ofDB { b' with Data := Slice.append g b'.Data [c], Off := b'.Off + 1 }
        = { (DecBuf.append g (ofDB b') [c]) with off := (ofDB b').off + 1 } ∧
      DBWF { b' with Data := Slice.append g b'.Data [c], Off := b'.Off + 1 } := by
    intro b' hwf'
    obtain ⟨hd2, hr2, ho2, hw2, hb2⟩ := hwf'
    obtain ⟨e1, e2, _⟩ := db_append g hg b' hd2 [c]
    refine ⟨?_, ⟨e2, hr2, by show (0:Int) ≤ b'.Off + 1; omega, hw2, hb2⟩⟩
    rw [← e1]
    simp only [ofDB]
    congr 1
    omega
  by_cases h1 : (b.Data.len : Int) + 1 > b.DecoderConfig.BufferSize
  · have h1' : b.Data.len + 1 > (ofDB b).bs := by simp only [ofDB]; omega
    simp only [h1, h1', if_true]
    obtain ⟨b', e1, e2, e3, _, _⟩ := gen_dbuf_shrink b hwf ((b.Data.len : Int) + 1)
    have hto : ((b.Data.len : Int) + 1).toNat = b.Data.len + 1 := by omega
    rw [hto] at e1 e2
    have hdl := model_shrink_delta_le (ofDB b) (b.Data.len + 1)
    rw [hl] at hdl
    rw [e1]
    simp only [bind_ok]
    have hbs' : (DecBuf.shrink (ofDB b) (b.Data.len + 1)).1.bs = b'.DecoderConfig.BufferSize.toNat := by
      rw [← e2]; rfl
    have hb0' := e3.bs
    by_cases h2 : (b.Data.len : Int) + 1 - ((DecBuf.shrink (ofDB b) (b.Data.len + 1)).2 : Int) > b'.DecoderConfig.BufferSize
    · have h2' : b.Data.len + 1 - (DecBuf.shrink (ofDB b) (b.Data.len + 1)).2 > (DecBuf.shrink (ofDB b) (b.Data.len + 1)).1.bs := by
        rw [hbs']; omega
      simp only [h2, h2', if_true]
      exact ⟨_, _, rfl, e2, errOf_full, e3⟩
    · have h2' : ¬ b.Data.len + 1 - (DecBuf.shrink (ofDB b) (b.Data.len + 1)).2 > (DecBuf.shrink (ofDB b) (b.Data.len + 1)).1.bs := by
        rw [hbs']; omega
      simp only [h2, h2', if_false]
      obtain ⟨f1, f2⟩ := fin b' e3
      rw [← e2]
      exact ⟨_, _, rfl, f1, errOf_ok, f2⟩
  · have h1' : ¬ b.Data.len + 1 > (ofDB b).bs := by simp only [ofDB]; omega
    simp only [h1, h1', if_false]
    obtain ⟨f1, f2⟩ := fin b hwf
    exact ⟨_, _, rfl, f1, errOf_ok, f2⟩

/-- D07 `Write(p)` -/
theorem gen_dbuf_write (g : Nat → Nat → Nat) (hg : GrowOK g) (b : DecoderBuffer) (h : DBWF b) (p : Slice) (hp : SWF p) :
    ∃ b' e, DecoderBuffer_Write g b p = Res.ok (b', ((DecBuf.write g (ofDB b) p.data).2.1 : Int), e) ∧
      ofDB b' = (DecBuf.write g (ofDB b) p.data).1 ∧
      errOf e = some (DecBuf.write g (ofDB b) p.data).2.2 ∧ DBWF b' := by
  have hwf := h
  obtain ⟨hd, hr0, ho0, hw0, hb0⟩ := h
  have hl : (ofDB b).data.length = b.Data.len := data_length hd
  have hpl : p.data.length = p.len := data_length hp
  unfold DecoderBuffer_Write DecBuf.write
  simp only [hl, hpl, Int.ofNat_eq_natCast]
  have fin : ∀ (b' : DecoderBuffer), DBWF b' →
      ofDB { b' with Data := Slice.append g b'.Data p.data, Off := b'.Off + (p.len : Int) }
        = { (DecBuf.append g (ofDB b') p.data) with off := (ofDB b').off + p.len } ∧
      DBWF { b' with Data := Slice.append g b'.Data p.data, Off := b'.Off + (p.len : Int) } := by
    intro b' hwf'
    obtain ⟨hd2, hr2, ho2, hw2, hb2⟩ := hwf'
    obtain ⟨e1, e2, _⟩ := db_append g hg b' hd2 p.data
    refine ⟨?_, ⟨e2, hr2, by show (0:Int) ≤ b'.Off + (p.len : Int); omega, hw2, hb2⟩⟩
    rw [← e1]
    simp only [ofDB]
    congr 1
    omega
  by_cases h1 : (b.Data.len : Int) + (p.len : Int) > b.DecoderConfig.BufferSize
  · have h1' : b.Data.len + p.len > (ofDB b).bs := by simp only [ofDB]; omega
    simp only [h1, h1', if_true]
    obtain ⟨b', e1, e2, e3, _, _⟩ := gen_dbuf_shrink b hwf ((b.Data.len : Int) + (p.len : Int))
    have hto : ((b.Data.len : Int) + (p.len : Int)).toNat = b.Data.len + p.len := by omega
    rw [hto] at e1 e2
    have hdl := model_shrink_delta_le (ofDB b) (b.Data.len + p.len)
    rw [hl] at hdl
    rw [e1]
    simp only [bind_ok]
    have hbs' : (DecBuf.shrink (ofDB b) (b.Data.len + p.len)).1.bs = b'.DecoderConfig.BufferSize.toNat := by
      rw [← e2]; rfl
    have hb0' := e3.bs
    by_cases h2 : (b.Data.len : Int) + (p.len : Int) - ((DecBuf.shrink (ofDB b) (b.Data.len + p.len)).2 : Int) > b'.DecoderConfig.BufferSize
    · have h2' : b.Data.len + p.len - (DecBuf.shrink (ofDB b) (b.Data.len + p.len)).2 > (DecBuf.shrink (ofDB b) (b.Data.len + p.len)).1.bs := by
        rw [hbs']; omega
      simp only [h2, h2', if_true]
      exact ⟨_, _, rfl, e2, errOf_full, e3⟩
    · have h2' : ¬ b.Data.len + p.len - (DecBuf.shrink (ofDB b) (b.Data.len + p.len)).2 > (DecBuf.shrink (ofDB b) (b.Data.len + p.len)).1.bs := by
        rw [hbs']; omega
      simp only [h2, h2', if_false]
      obtain ⟨f1, f2⟩ := fin b' e3
      rw [← e2]
      exact ⟨_, _, rfl, f1, errOf_ok, f2⟩
  · have h1' : ¬ b.Data.len + p.len > (ofDB b).bs := by simp only [ofDB]; omega
    simp only [h1, h1', if_false]
    obtain ⟨f1, f2⟩ := fin b hwf
    exact ⟨_, _, rfl, f1, errOf_ok, f2⟩

end LZ.GenBuf

/-! ### axiom audit (printed on every build) -/
#print axioms LZ.GenBuf.gen_dbuf_init
#print axioms LZ.GenBuf.gen_dbuf_reset
#print axioms LZ.GenBuf.gen_dbuf_byteAtEnd
#print axioms LZ.GenBuf.gen_dbuf_read
#print axioms LZ.GenBuf.gen_dbuf_read_panic
#print axioms LZ.GenBuf.gen_dbuf_shrink
#print axioms LZ.GenBuf.gen_dbuf_writeByte
#print axioms LZ.GenBuf.gen_dbuf_write
