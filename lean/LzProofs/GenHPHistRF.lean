/-
  LzProofs.GenHPHistRF — histories of the hash parser HP that also contain `ReadFrom`, with `ParserBuffer.ReadFrom` as
  an OPAQUE callee under a named specification.  No sorry, no axioms of its own.

  `ParserBuffer.ReadFrom(r io.Reader)` is NOT translated by `tools/extract` (interface-typed parameter; see
  LzModel/Generated/Facts.lean `chunkSize`), so there is no Go-derived Lean text to execute.  This file treats it the
  way the translation of bhp.go treats `lcs` and the translation of wrap.go treats the methods of the wrapped `Parser`
  (GenWrapProps `mReadFrom`): a parameter `RF` of `runGR`, and a hypothesis
      `RFSpec RF`:  on every well-formed buffer (`len ≤ BufferSize`, empty or 7 spare bytes) on which the model's `PBuf.readFrom` (scripted reader, LzModel/PBuf.lean)
                    does not report a Go panic, `RF` returns the model's `(reader', n, err)` and a buffer that abstracts
                    to the model's.
  Everything else is as in GenHPHistRun: the other four operations are executed on the translated functions.
  The theorems say: IF `ReadFrom` does what its hand model says (what the correspondence scripts test), then histories
  with `ReadFrom` never panic, keep `ParseOK`, and satisfy C01.  The hypothesis `RFSpec` is the exact residue of the
  tie for HP; it disappears when `ReadFrom` is translated.

    hist_readFrom       the per-operation lemma (the model's `readFrom` never reports a panic on a state with `HistOK`)
    runGR_sim           simulation from any state with `HistOK`
    C01_go_text_hp_rf   C01 for histories of Write / ReadFrom / Parse / Shrink / Reset
-/
import LzProofs.GenHPHistRun

set_option linter.unusedSimpArgs false
set_option linter.unusedVariables false

namespace LZ.GenHPHist
open LZ LZ.Gen LZ.GenBuf LZ.GenHash LZ.GenHPParse LZ.GenProps

/-- model error ↦ Go error value, as `GenWrap.genErr` (LzProofs/GenWrapProps.lean; not importable here: its import
    closure declares `LZ.step_fst` a second time) on the errors `ReadFrom` can return: `ErrFullBuffer`, `io.EOF`,
    the reader's own error `c ≥ 2` as a fresh code -/
def genErr : LZ.Err → Gen.Err
  | .ok => Gen.Err.ok
  | .full => Gen.ErrFullBuffer
  | .eof => Gen.io_EOF
  | .reader c => Gen.Err.error (3000 + 2 * c)
  | _ => Gen.Err.error 2903

/-- the type of (a Lean rendering of) `(*ParserBuffer).ReadFrom` against the scripted reader -/
abbrev RFun := Gen.ParserBuffer → Reader → Res (Gen.ParserBuffer × Reader × Int × Gen.Err)

/-- the specification of the opaque `ReadFrom`: it is the model's `PBuf.readFrom` -/
def RFSpec (RF : RFun) : Prop :=
  ∀ (b : Gen.ParserBuffer) (r : Reader), PBWF b → (ofPB b).CapOK → (ofPB b).data.length ≤ (ofPB b).cfg.bufferSize →
    (PBuf.readFrom (ofPB b) r).2.2.2 ≠ .panic →
    ∃ b', RF b r = Res.ok (b', (PBuf.readFrom (ofPB b) r).2.1, ((PBuf.readFrom (ofPB b) r).2.2.1 : Int),
        genErr (PBuf.readFrom (ofPB b) r).2.2.2) ∧
      ofPB b' = (PBuf.readFrom (ofPB b) r).1 ∧ PBWF b'

/-- `RFSpec` is satisfiable: the model's `readFrom`, written back into a Go buffer (fresh backing array of the
    model's capacity, zero behind the data) -/
def rfWitness : RFun := fun b r =>
  let x := PBuf.readFrom (ofPB b) r
  Res.ok ({ b with Data := { arr := x.1.data ++ List.replicate (x.1.cap - x.1.data.length) 0, len := x.1.data.length } },
    x.2.1, (x.2.2.1 : Int), genErr x.2.2.2)

theorem ofPB_mk (b : Gen.ParserBuffer) (d : List UInt8) (c : Nat) (h : d.length ≤ c) :
    ofPB { b with Data := { arr := d ++ List.replicate (c - d.length) 0, len := d.length } } =
      { ofPB b with data := d, cap := c } := by
  simp only [ofPB, Slice.data, Slice.cap, List.take_left', List.length_append, List.length_replicate]
  congr 1; omega

theorem rfWitness_spec : RFSpec rfWitness := by
  intro b r hwf hcap hlen hnp
  obtain ⟨c, pre, hb, -, hn1, hn2, hm, -⟩ :=
    PBuf.readFrom_master hlen (r := r) (b' := (PBuf.readFrom (ofPB b) r).1)
      (r' := (PBuf.readFrom (ofPB b) r).2.1) (n := (PBuf.readFrom (ofPB b) r).2.2.1)
      (e := (PBuf.readFrom (ofPB b) r).2.2.2) rfl
  have hc : (PBuf.readFrom (ofPB b) r).1.data.length ≤ (PBuf.readFrom (ofPB b) r).1.cap := by
    rw [hb]
    simp only [List.length_append, List.length_take]
    rcases hm hcap with ⟨h1, h2⟩ | h2
    · rw [h1, h2]; simp
    · omega
  refine ⟨_, rfl, ?_, ?_⟩
  · generalize PBuf.readFrom (ofPB b) r = x at hb hc ⊢
    obtain ⟨x1, x2, x3, x4⟩ := x
    simp only at hb hc ⊢
    rw [ofPB_mk b _ _ hc, hb]
  · obtain ⟨hd, hw0, ho0, hs0, hb0⟩ := hwf
    refine ⟨?_, hw0, ho0, hs0, hb0⟩
    show (PBuf.readFrom (ofPB b) r).1.data.length ≤
      ((PBuf.readFrom (ofPB b) r).1.data ++ List.replicate _ (0 : UInt8)).length
    simp only [List.length_append]; omega

/-- `s.ReadFrom(r)` for `s *hashParser`: promoted from the embedded `ParserBuffer` -/
def hp_ReadFrom (RF : RFun) (s : Gen.hashParser) (r : Reader) : Res (Gen.hashParser × Reader × Int × Gen.Err) :=
  Res.bind (RF s.hashDictionary.ParserBuffer r) fun x =>
  Res.ok ({ s with hashDictionary := { s.hashDictionary with ParserBuffer := x.1 } }, x.2.1, x.2.2.1, x.2.2.2)

theorem mreadFrom_eq (s : Parser) (r : Reader) :
    s.readFrom r = ({ s with buf := (s.buf.readFrom r).1 }, (s.buf.readFrom r).2.1, (s.buf.readFrom r).2.2.1,
      (s.buf.readFrom r).2.2.2) := by
  unfold Parser.readFrom
  generalize s.buf.readFrom r = x
  obtain ⟨b, r', n, e⟩ := x
  rfl

theorem errOfCode_ne_panic (c : Nat) : errOfCode c ≠ .panic := by
  unfold errOfCode
  split <;> intro h <;> cases h

theorem hist_readFrom {bc : BufCfg} (hbc : BCOK bc) (RF : RFun) (hRF : RFSpec RF) (t : Gen.hashParser)
    (h : HistOK bc t) (r : Reader) :
    ∃ t', hp_ReadFrom RF t r = Res.ok (t', ((ofHPs t).readFrom r).2.1, (((ofHPs t).readFrom r).2.2.1 : Int),
        genErr ((ofHPs t).readFrom r).2.2.2) ∧ HistOK bc t' ∧ ofHPs t' = ((ofHPs t).readFrom r).1 := by
  rw [mreadFrom_eq]
  simp only []
  show ∃ t', hp_ReadFrom RF t r = Res.ok (t', (PBuf.readFrom (ofPB t.hashDictionary.ParserBuffer) r).2.1,
      ((PBuf.readFrom (ofPB t.hashDictionary.ParserBuffer) r).2.2.1 : Int),
      genErr (PBuf.readFrom (ofPB t.hashDictionary.ParserBuffer) r).2.2.2) ∧ HistOK bc t' ∧
      ofHPs t' = { ofHPs t with buf := (PBuf.readFrom (ofPB t.hashDictionary.ParserBuffer) r).1 }
  have hml : (ofPB t.hashDictionary.ParserBuffer).data.length ≤ (ofPB t.hashDictionary.ParserBuffer).cfg.bufferSize :=
    h.mlen
  have hmw : (ofPB t.hashDictionary.ParserBuffer).w ≤ (ofPB t.hashDictionary.ParserBuffer).data.length := h.hw
  obtain ⟨c, pre, hb, -, hn1, hn2, hm, -, -, hcase⟩ :=
    PBuf.readFrom_master hml (r := r) (b' := (PBuf.readFrom (ofPB t.hashDictionary.ParserBuffer) r).1)
      (r' := (PBuf.readFrom (ofPB t.hashDictionary.ParserBuffer) r).2.1)
      (n := (PBuf.readFrom (ofPB t.hashDictionary.ParserBuffer) r).2.2.1)
      (e := (PBuf.readFrom (ofPB t.hashDictionary.ParserBuffer) r).2.2.2) rfl
  have hnp : (PBuf.readFrom (ofPB t.hashDictionary.ParserBuffer) r).2.2.2 ≠ .panic := by
    rcases hcase with ⟨h1, -⟩ | ⟨h1, -⟩ | ⟨mx, ec, -, -, h1⟩
    · rw [h1]; intro hc; cases hc
    · rw [h1]; intro hc; cases hc
    · rw [h1]; exact errOfCode_ne_panic ec
  obtain ⟨b', hrf, hof, hwf⟩ := hRF t.hashDictionary.ParserBuffer r h.pok.wf.1 h.cap hml hnp
  unfold hp_ReadFrom
  rw [hrf]
  refine ⟨_, rfl, ?_, ?_⟩
  · have hcfgE : (ofPB t.hashDictionary.ParserBuffer).cfg.bufferSize = bc.bufferSize := by rw [← h.cfg]; rfl
    refine histOK_update hbc h { t.hashDictionary with ParserBuffer := b' } ⟨hwf, h.pok.wf.2⟩ rfl rfl ?_ ?_ ?_ ?_
    · show (ofPB b').cfg = bc
      rw [hof, hb]; exact h.cfg
    · show (ofPB b').w ≤ (ofPB b').data.length
      rw [hof, hb]; simp only [List.length_append]; omega
    · show (ofPB b').data.length ≤ bc.bufferSize
      rw [hof, hb]; simp only [List.length_append, List.length_take]; omega
    · show (ofPB b').CapOK
      rw [hof, hb]
      have hc := h.cap
      unfold PBuf.CapOK at hc ⊢
      rcases hm hc with ⟨h1, h2⟩ | h2
      · left; simp only; rw [h1, h2]; rfl
      · right; simp only [List.length_append, List.length_take]; omega
  · show ofDict .HP (ofHP t.HPConfig) { t.hashDictionary with ParserBuffer := b' } = _
    simp only [ofDict, hof, ofHPs]

/-! ## histories with ReadFrom -/

inductive GOpR where
  | base (op : GOp)
  | readFrom (r : Reader)

inductive GResR where
  | base (r : GRes)
  /-- `n` and the error; the reader after the call is not an input of any later call -/
  | readFrom (n : Int) (err : Gen.Err)

def GOpR.WF : GOpR → Prop
  | .base op => op.WF
  | .readFrom _ => True

def GOpR.abs : GOpR → POp
  | .base op => op.abs
  | .readFrom r => .readFrom r

def stepGR (RF : RFun) (grow : Nat → Nat → Nat) (fuel : Nat) (s : Gen.hashParser) : GOpR → Res (Gen.hashParser × GResR)
  | .base op => Res.bind (stepG grow fuel s op) fun x => Res.ok (x.1, .base x.2)
  | .readFrom r => Res.bind (hp_ReadFrom RF s r) fun x => Res.ok (x.1, .readFrom x.2.2.1 x.2.2.2)

def runGR (RF : RFun) (grow : Nat → Nat → Nat) (fuel : Nat) : Gen.hashParser → List GOpR → Res (Gen.hashParser × List GResR)
  | s, [] => Res.ok (s, [])
  | s, op :: ops =>
    Res.bind (stepGR RF grow fuel s op) fun x =>
    Res.bind (runGR RF grow fuel x.1 ops) fun q => Res.ok (q.1, x.2 :: q.2)

def resAgreeR (m : Parser) : GOpR → GResR → Prop
  | .base op, .base r => resAgree m op r
  | .readFrom rd, .readFrom n e => n = ((m.readFrom rd).2.2.1 : Int) ∧ e = genErr (m.readFrom rd).2.2.2
  | _, _ => False

def ResultsAgreeR : Parser × Ghost → List GOpR → List GResR → Prop
  | _, [], [] => True
  | sg, op :: ops, r :: rs => resAgreeR sg.1 op r ∧ ResultsAgreeR (step sg op.abs) ops rs
  | _, _, _ => False

def ghostStepR (g : Ghost) : GOpR → GResR → Ghost
  | .base op, .base r => ghostStep g op r
  | .readFrom rd, .readFrom n _ => { g with fed := g.fed ++ rd.payload.take n.toNat }
  | _, _ => g

def ghostRunR : Ghost → List GOpR → List GResR → Ghost
  | g, op :: ops, r :: rs => ghostRunR (ghostStepR g op r) ops rs
  | g, _, _ => g

theorem stepGR_sim {bc : BufCfg} (hbc : BCOK bc) (RF : RFun) (hRF : RFSpec RF) (grow : Nat → Nat → Nat) (fuel : Nat)
    (hfuel : bc.bufferSize + 3 ≤ fuel) (t : Gen.hashParser) (g : Ghost) (h : HistOK bc t) (op : GOpR) (hop : op.WF) :
    ∃ t' r, stepGR RF grow fuel t op = Res.ok (t', r) ∧ HistOK bc t' ∧
      ofHPs t' = (step (ofHPs t, g) op.abs).1 ∧ ghostStepR g op r = (step (ofHPs t, g) op.abs).2 ∧
      resAgreeR (ofHPs t) op r := by
  cases op with
  | base op =>
    obtain ⟨t', r, h1, h2, h3, h4, h5⟩ := stepG_sim hbc grow fuel hfuel t g h op hop
    refine ⟨t', .base r, ?_, h2, h3, h4, h5⟩
    simp only [stepGR, h1]; rfl
  | readFrom rd =>
    obtain ⟨t', h1, h2, h3⟩ := hist_readFrom hbc RF hRF t h rd
    refine ⟨t', .readFrom _ _, ?_, h2, h3, ?_, rfl, rfl⟩
    · simp only [stepGR, h1]; rfl
    · simp only [ghostStepR, step, GOpR.abs, Int.toNat_natCast]

theorem runGR_sim {bc : BufCfg} (hbc : BCOK bc) (RF : RFun) (hRF : RFSpec RF) (grow : Nat → Nat → Nat) (fuel : Nat)
    (hfuel : bc.bufferSize + 3 ≤ fuel) :
    ∀ (ops : List GOpR) (t : Gen.hashParser) (g : Ghost), HistOK bc t → (∀ op ∈ ops, op.WF) →
      ∃ t' rs, runGR RF grow fuel t ops = Res.ok (t', rs) ∧ HistOK bc t' ∧
        ofHPs t' = (runOps (ofHPs t, g) (ops.map GOpR.abs)).1 ∧
        ghostRunR g ops rs = (runOps (ofHPs t, g) (ops.map GOpR.abs)).2 ∧
        ResultsAgreeR (ofHPs t, g) ops rs := by
  intro ops
  induction ops with
  | nil => intro t g h _; exact ⟨t, [], rfl, h, rfl, rfl, trivial⟩
  | cons op ops ih =>
    intro t g h hwf
    obtain ⟨t1, r, h1, h2, h3, h4, h5⟩ :=
      stepGR_sim hbc RF hRF grow fuel hfuel t g h op (hwf op (List.mem_cons_self ..))
    obtain ⟨t', rs, k1, k2, k3, k4, k5⟩ := ih t1 (ghostStepR g op r) h2 (fun o ho => hwf o (List.mem_cons_of_mem _ ho))
    have hsg : step (ofHPs t, g) op.abs = (ofHPs t1, ghostStepR g op r) := by
      rw [h3, h4]
    refine ⟨t', r :: rs, ?_, k2, ?_, ?_, h5, ?_⟩
    · show Res.bind (stepGR RF grow fuel t op) _ = _
      rw [h1]
      show Res.bind (runGR RF grow fuel t1 ops) _ = _
      rw [k1]; rfl
    · show _ = (runOps (step (ofHPs t, g) op.abs) (ops.map GOpR.abs)).1
      rw [hsg]; exact k3
    · show ghostRunR (ghostStepR g op r) ops rs = (runOps (step (ofHPs t, g) op.abs) (ops.map GOpR.abs)).2
      rw [hsg]; exact k4
    · show ResultsAgreeR (step (ofHPs t, g) op.abs) ops rs
      rw [hsg]; exact k5

/-- the simulation from `hashParser.init`, for histories with `ReadFrom` (relative to `RFSpec`) -/
theorem gen_hp_history_rf (cfg : Gen.HPConfig) (s0 : Gen.hashParser)
    (hinit : hashParser_init default cfg = Res.ok (s0, Gen.Err.ok))
    (RF : RFun) (hRF : RFSpec RF) (grow : Nat → Nat → Nat) (fuel : Nat)
    (hfuel : s0.hashDictionary.ParserBuffer.BufConfig.BufferSize.toNat + 3 ≤ fuel)
    (ops : List GOpR) (hwf : ∀ op ∈ ops, op.WF) :
    ∃ p t rs, newParser .HP (ofHP cfg) = some p ∧ ofHPs s0 = p ∧
      runGR RF grow fuel s0 ops = Res.ok (t, rs) ∧ ParseOK t ∧
      ofHPs t = (runOps (p, Ghost.init) (ops.map GOpR.abs)).1 ∧
      ghostRunR Ghost.init ops rs = (runOps (p, Ghost.init) (ops.map GOpR.abs)).2 ∧
      ResultsAgreeR (p, Ghost.init) ops rs := by
  obtain ⟨p, hp, h2, hbc, hH⟩ := hist_init cfg s0 hinit
  have hf : p.buf.cfg.bufferSize + 3 ≤ fuel := by
    have : p.buf.cfg = ofCfg s0.hashDictionary.ParserBuffer.BufConfig := hH.cfg.symm
    rw [this]; exact hfuel
  obtain ⟨t, rs, k1, k2, k3, k4, k5⟩ := runGR_sim hbc RF hRF grow fuel hf ops s0 Ghost.init hH hwf
  rw [h2] at k3 k4 k5
  exact ⟨p, t, rs, hp, h2, k1, k2.pok, k3, k4, k5⟩

/-- **C01 about the Go text of HP, histories with `ReadFrom`** — relative to `RFSpec RF` (the untranslated
    `ParserBuffer.ReadFrom` behaves as its hand model); `Write`, `Parse`, `Shrink`, `Reset`, `init` are the translated
    functions. -/
theorem C01_go_text_hp_rf (cfg : Gen.HPConfig) (s0 : Gen.hashParser)
    (hinit : hashParser_init default cfg = Res.ok (s0, Gen.Err.ok))
    (RF : RFun) (hRF : RFSpec RF) (grow : Nat → Nat → Nat) (fuel : Nat)
    (hfuel : s0.hashDictionary.ParserBuffer.BufConfig.BufferSize.toNat + 3 ≤ fuel)
    (ops : List GOpR) (hwf : ∀ op ∈ ops, op.WF) :
    ∃ t rs, runGR RF grow fuel s0 ops = Res.ok (t, rs) ∧
      decode [] (ghostRunR Ghost.init ops rs).log =
        some ((ghostRunR Ghost.init ops rs).fed.take (ghostRunR Ghost.init ops rs).consumed) := by
  obtain ⟨p, t, rs, hp, -, h1, -, -, h4, -⟩ := gen_hp_history_rf cfg s0 hinit RF hRF grow fuel hfuel ops hwf
  refine ⟨t, rs, h1, ?_⟩
  rw [h4]
  exact C01_roundtrip .HP (ofHP cfg) p hp (histHyp_of_ne .HP p (by decide)) (ops.map GOpR.abs)

end LZ.GenHPHist

#print axioms LZ.GenHPHist.rfWitness_spec
#print axioms LZ.GenHPHist.hist_readFrom
#print axioms LZ.GenHPHist.runGR_sim
#print axioms LZ.GenHPHist.gen_hp_history_rf
#print axioms LZ.GenHPHist.C01_go_text_hp_rf
