/-
  LzProofs.DecoderWB — discharges the hypothesis `WBSpec g` of LzProofs.DecoderProps (C18) from the
  content theorem of the DecBuf topic (`LZ.DecBuf.seqLoop_spec`, abstraction relation `AbsD`,
  file LzProofs/DecBufLemmas.lean, which contains the doubling-copy proof
  `copyMatch_eq_copyRef`), and restates the C18 block theorems without hypothesis.
-/
import LzProofs.DecBufLemmas
import LzProofs.DecoderProps
namespace LZ
open DecBuf Decoder

namespace DecBuf

/-- every buffer satisfying `Inv` represents (at least) its own content -/
theorem AbsD.self {b : DecBuf} (h : DecBuf.Inv b) : AbsD b b.data b.r :=
  ⟨List.suffix_refl _, h.1, by omega, Nat.min_le_right _ _, h.2.1, h.2.2⟩

/-- the appended bytes of `Ext` are those of the abstraction relation -/
theorem Ext.eq_of_absD {b b' : DecBuf} {x x' : List Byte} (hr : b.r ≤ b.data.length)
    (he : Ext b b' x) (ha : AbsD b' (b.data ++ x') b.r) : x = x' := by
  obtain ⟨δ, a1, a2, a3, _⟩ := he
  have hd := ha.data_eq
  have hdl := ha.deliv
  have hle := ha.len_le
  have hδ : (b.data ++ x').length - b'.data.length = δ := by omega
  rw [hδ, a3, List.drop_append_of_le_length (by omega), List.drop_append_of_le_length (by omega)] at hd
  exact List.append_cancel_left hd

end DecBuf

/-- **`hWB` holds for every growth function.** -/
theorem wbSpec (g : Grow) : WBSpec g := by
  intro b blk x h hx
  rw [DecBuf.writeBlock_eq] at hx ⊢
  generalize hsl : seqLoop g b blk.seqs blk.lits 0 0 = sl at hx ⊢
  obtain ⟨b1, k1, lits1, dl1, e1⟩ := sl
  obtain ⟨j, w', e1', e2, e3, e4, e5, e6, e7, e8, e9⟩ :=
    DecBuf.seqLoop_spec g blk.seqs b b.data b.r blk.lits 0 0 _ _ _ _ _ (AbsD.self h) hsl
  have hj : k1 = j := by omega
  subst hj
  obtain ⟨⟨x', hx'⟩, t0, ht0, hr0⟩ := expandSeqs_suffix _ _ _ _ _ e3
  subst hx'
  have hl1 : lits1.length = blk.lits.length - t0 := by rw [hr0, List.length_drop]
  simp only at hx ⊢
  split at hx
  · -- the sequence loop stopped with an error
    rename_i hne
    rw [if_pos hne]
    simp only [wbFin] at hx ⊢
    have hxx : x = x' := Ext.eq_of_absD h.1 hx (e4.congr rfl rfl rfl rfl)
    subst hxx
    exact ⟨e2, _, lits1, 0, e3, by omega, Nat.zero_le _, Or.inl rfl, by simp⟩
  · rename_i hok
    rw [if_neg hok]
    have hok : e1 = .ok := by simpa using hok
    have hjl := e8 hok
    split at hx
    · rename_i hbig
      rw [if_pos hbig]
      have hsh := e4.shrink (b1.data.length + lits1.length)
      split at hx
      · -- trailing literals do not fit
        rename_i hfull
        rw [if_pos hfull]
        simp only [wbFin] at hx ⊢
        have hxx : x = x' := Ext.eq_of_absD h.1 hx (hsh.congr rfl rfl rfl rfl)
        subst hxx
        exact ⟨e2, _, lits1, 0, e3, by omega, Nat.zero_le _, Or.inl rfl, by simp⟩
      · rename_i hfit
        rw [if_neg hfit]
        simp only [wbFin] at hx ⊢
        have hk := shrink_keeps b1 (b1.data.length + lits1.length)
        have hap := hsh.append g lits1 (by omega)
        rw [List.append_assoc] at hap
        have hxx : x = x' ++ lits1 := Ext.eq_of_absD h.1 hx (hap.congr rfl rfl rfl rfl)
        subst hxx
        refine ⟨e2, _, lits1, lits1.length, e3, ?_, Nat.le_refl _, Or.inr hjl, ?_⟩
        · simp only [List.length_nil]; omega
        · rw [List.take_length, List.append_assoc]
    · rename_i hsmall
      rw [if_neg hsmall]
      simp only [wbFin] at hx ⊢
      have hap := e4.append g lits1 (by omega)
      rw [List.append_assoc] at hap
      have hxx : x = x' ++ lits1 := Ext.eq_of_absD h.1 hx (hap.congr rfl rfl rfl rfl)
      subst hxx
      refine ⟨e2, _, lits1, lits1.length, e3, ?_, Nat.le_refl _, Or.inr hjl, ?_⟩
      · simp only [List.length_nil]; omega
      · rw [List.take_length, List.append_assoc]

/-! ## C18 for blocks, without hypothesis -/

/-- **C18 (iii), `WriteBlock`, content.**  Whatever the writer did and whatever error is returned,
    the log after the call is the reference expansion of the first `k` sequences and `l` literals
    over the log before the call. -/
theorem C18_writeBlock_expands' (g : Grow) (d : Decoder) (seqs : List Seq) (lits : List Byte)
    (h : DecBuf.Inv d.buf) (hh : Hist d) :
    Expands d.log lits seqs (d.writeBlock g seqs lits 0 0 0).2.2.1
      (d.writeBlock g seqs lits 0 0 0).2.2.2.1 (d.writeBlock g seqs lits 0 0 0).1.log ∧
    Hist (d.writeBlock g seqs lits 0 0 0).1 :=
  C18_writeBlock_expands g (wbSpec g) d seqs lits h hh

/-- **C18, prefix property.**  What the writer has accepted at return of `WriteBlock` (with or
    without error) is a prefix of the reference expansion `full` of the block. -/
theorem C18_got_prefix_of_expansion' (g : Grow) (d : Decoder) (seqs : List Seq) (lits : List Byte)
    (full : List Byte) (h : DecBuf.Inv d.buf) (hh : Hist d)
    (hf : expand d.log ⟨seqs, lits⟩ = some full) :
    ∃ t, (d.writeBlock g seqs lits 0 0 0).1.w.got ++ t = full :=
  C18_got_prefix_of_expansion g (wbSpec g) d seqs lits full h hh hf

/-- **C18 (iv), `WriteBlock`: exactly once.**  The retry protocol (`retryBlock`: re-submit
    `(seqs[k:], lits[l:])` after every writer fault, finally flush until success) with one unit of
    fuel per scripted writer response plus one always finishes; it ends with a buffer error
    (bad block) or in success, and on success the writer has received the old log followed by the
    full reference expansion of the block — exactly once — and nothing is pending. -/
theorem C18_retryBlock_exactly_once' (g : Grow) (d : Decoder) (seqs : List Seq) (lits : List Byte)
    (h : DecBuf.Inv d.buf) (hh : Hist d) :
    ∃ d' e, retryBlock g (d.w.resps.length + 1) d seqs lits = some (d', e) ∧ BufErr e ∧
      (e = .ok → expand d.log ⟨seqs, lits⟩ = some d'.w.got ∧ d'.buf.pending = []) := by
  obtain ⟨d', e, h1, h2⟩ := C18_retryBlock_terminates g d seqs lits h
  refine ⟨d', e, h1, h2, fun he => ?_⟩
  subst he
  exact C18_retryBlock_exactly_once g (wbSpec g) _ d d' seqs lits h hh h1

end LZ

#print axioms LZ.wbSpec
#print axioms LZ.C18_writeBlock_expands'
#print axioms LZ.C18_got_prefix_of_expansion'
#print axioms LZ.C18_retryBlock_exactly_once'
