/-
  LzProofs.GenBDHPParseLoop — one iteration of the two greedy loops of bdhp.go `Parse` (first loop: both tables,
  `i < e2`; second loop: the table of the short hash only, `e2 ≤ i < e1`) versus one step of
  `ProbeW.greedyLoopW (ProbeW.dhpProbeW … true …)`, and the two loops (instances of `GenParse.greedy_generic`).

  Shape independence: no generated loop function is named (see the header of GenBDHPParseLemmas); the two greedy loops
  are `callee_loop% bdhp_Parse_nilable 0/1`; the step lemmas compute the generated side in a hypothesis `hG : … = G`
  ("continuation style"), every `if` is decided by omega from facts in the spelling of the model (`decide_if`), the
  inner loops and the extension blocks are taken from `hG` by unification, extracted helpers are unfolded generically
  (`unfold_helpers`), the final call of the loop is compared up to integer arithmetic (`loop_congr`).
-/
import LzProofs.GenBDHPParseLemmas

set_option linter.unusedSimpArgs false
set_option linter.unusedVariables false

namespace LZ.GenBDHPParse
open LZ LZ.Gen LZ.GenBuf LZ.GenHash LZ.GenHPParse LZ.GenParse LZ.GenDHPParse LZ.GenBHPParse

/-- the dictionary of the model a Go `doubleHashParser` stands for -/
def absB (s : Gen.bdhp) : Hash2 :=
  ⟨ofHash s.doubleHashDictionary.h1, ofHash s.doubleHashDictionary.h2⟩

/-- the clamp of the first-word match length, the window test and the value test of the generated text are decided
    from facts in the spelling of the MODEL (`first_word`, `j < i ∧ i - j ≤ ws`, `val_ne_iff`) by omega / by the iff
    below, whatever their spelling in the generated text -/
theorem val_ne_iff (x : UInt64) (ent : hashEntry) : x.toUInt32 ≠ ent.value ↔ lo32 x ≠ (ofEntry ent).2 := by
  constructor
  · intro h hc; apply h; apply UInt32.toNat_inj.mp; rw [lo32_eq]; exact hc
  · intro h hc; apply h; rw [← lo32_eq, hc]; rfl

/-- decide a value test `v ≠ e`, `v = e`, `e ≠ v`, `¬ v = e`, … at the head of `h` from `hv : v ≠ e` or `hv : ¬ v ≠ e` -/
macro "decide_val" hv:ident " at " h:ident : tactic =>
  `(tactic| first
    | rw [if_pos $hv] at $h:ident
    | rw [if_neg $hv] at $h:ident
    | rw [if_pos (fun hc => $hv hc.symm)] at $h:ident
    | rw [if_neg (fun hc => $hv hc.symm)] at $h:ident
    | rw [if_pos (fun hc => $hv (fun hd => hd hc))] at $h:ident
    | rw [if_neg (fun hc => $hv (fun hd => hd hc))] at $h:ident
    | rw [if_pos (Decidable.not_not.mp $hv)] at $h:ident
    | rw [if_pos (Decidable.not_not.mp $hv).symm] at $h:ident
    | rw [if_neg (fun hc => absurd (Decidable.not_not.mp $hv) hc)] at $h:ident
    | rw [if_neg (fun hc => absurd (Decidable.not_not.mp $hv).symm hc)] at $h:ident)

set_option maxHeartbeats 1000000 in
/-- one iteration of the SECOND greedy loop (`for ; i < e1; i++`, entered with `e2 ≤ i`) -/
theorem loop5_step (grow : Nat → Nat → Nat) (lcs : Slice → Slice → Int) (hlcs : LcsSpec lcs) (e1I mm : Int) (A : List UInt8) (L E1 E2 mmN ws : Nat)
    (fuel i li : Nat) (ia lia : Int) (s : Gen.bdhp) (blk : Block')
    (w1 : HOK s.doubleHashDictionary.h1)
    (hia : ia = (i : Int)) (hlia : lia = (li : Int)) (hE1 : e1I = (E1 : Int)) (hmm : mm = (mmN : Int))
    (hi : i < E1) (hi2 : ¬ i < E2) (hEL : E1 ≤ L) (hLA : L ≤ A.length) (hEA : E1 + 7 ≤ A.length)
    (hsm : E1 + 7 < 4294967296 + 8) (hli : li ≤ i)
    (hws : ws = s.BDHPConfig.WindowSize.toNat) (hmm1 : 1 ≤ mmN) (hmm8 : mmN ≤ 8)
    (hfuel : L ≤ fuel + i) (hfuelE : E1 < fuel) :
    ∃ r, ProbeW.dhpProbeW ws mmN E1 E2 true (A.drop L) (absB s) (A.take L) i li = some r ∧
      ∃ t1', TOK s.doubleHashDictionary.h1.shift t1' ∧
        r.1 = ⟨ofHashT s.doubleHashDictionary.h1 t1', ofHash s.doubleHashDictionary.h2⟩ ∧
        (callee_loop% bdhp_Parse_nilable 1) grow lcs e1I { arr := A, len := E1 + 7 } { arr := A, len := L } mm (fuel + 1) ia s blk lia =
          (match r.2 with
          | none =>
            (callee_loop% bdhp_Parse_nilable 1) grow lcs e1I { arr := A, len := E1 + 7 } { arr := A, len := L } mm fuel (ia + 1)
              (setTB s t1' s.doubleHashDictionary.h2.table) blk lia
          | some (st, k, o) =>
            (callee_loop% bdhp_Parse_nilable 1) grow lcs e1I { arr := A, len := E1 + 7 } { arr := A, len := L } mm fuel
              ((st + k : Nat) : Int) (setTB s t1' s.doubleHashDictionary.h2.table)
              { Sequences := blk.Sequences ++ [seqRep { litLen := st - li, matchLen := k, offset := o }],
                Literals := Slice.append grow blk.Literals ((A.drop li).take (st - li)) }
              ((st + k : Nat) : Int)) ∧
        (∀ st k o, r.2 = some (st, k, o) → li ≤ st ∧ st ≤ i ∧ i < st + k ∧ st + k ≤ L) := by
  have hmem : BytesW.sliceTo (A.take L) (A.drop L) (E1 + 7) = some (A.take (E1 + 7)) := by
    unfold BytesW.sliceTo; rw [List.take_append_drop, if_pos hEA]
  have hpd : ({ arr := A, len := E1 + 7 } : Slice).data = A.take (E1 + 7) := rfl
  have hpl : (A.take L).length = L := by rw [List.length_take]; omega
  have hswf : SWF ({ arr := A, len := E1 + 7 } : Slice) := hEA
  have c1 := w1.ctx { arr := A, len := E1 + 7 } hswf hsm
  -- the load at i, the table access
  obtain ⟨y, hy, hF⟩ := gen_load_ok { arr := A, len := E1 + 7 } hswf ia i hia (by show i + 8 ≤ E1 + 7; omega)
  rw [hpd] at hy
  obtain ⟨ent, t1, hidx, hset, ht1, hget, hofs⟩ := table_probe s.doubleHashDictionary.h1 s.doubleHashDictionary.h1.table
    w1.tok w1.sh1 w1.sh2 y ia i hia (by omega)
  -- the generated side: `G`, computed step by step in `hG`
  generalize hG : (callee_loop% bdhp_Parse_nilable 1) grow lcs e1I { arr := A, len := E1 + 7 } { arr := A, len := L } mm (fuel + 1) ia s blk lia = G
  unfold_head at hG
  unfold_helpers at hG
  decide_if at hG
  rw [hF] at hG
  try dsimp only at hG
  rw [hidx, bind_ok, hset, bind_ok] at hG
  have hnf := dhpProbeW_nf2 ws mmN E1 E2 true (A.drop L) (absB s) (A.take L) i li (A.take (E1 + 7)) y hi2 hmem hy
    (y &&& s.doubleHashDictionary.h1.mask) (by rw [w1.mask]; rfl) (ofEntry ent) hget
    (ofHashT s.doubleHashDictionary.h1 t1) hofs
  -- A: the stored value differs
  by_cases hvA : (y &&& s.doubleHashDictionary.h1.mask).toUInt32 ≠ ent.value
  · decide_val hvA at hG
    exact ⟨(⟨ofHashT s.doubleHashDictionary.h1 t1, ofHash s.doubleHashDictionary.h2⟩, none),
      by rw [hnf, if_pos ((val_ne_iff _ _).mp hvA)]; rfl, t1, ht1, rfl, hG.symm, by intro st k o h; cases h⟩
  decide_val hvA at hG
  rw [if_neg (fun hc => hvA ((val_ne_iff _ _).mpr hc))] at hnf
  unfold tailM2 at hnf
  simp only [if_true, Option.bind_some] at hnf
  -- B: the candidate is outside the window
  have hj1 : (ofEntry ent).1 = ent.pos.toNat := rfl
  rw [hj1] at hnf
  generalize hjdef : ent.pos.toNat = j at hnf hG
  try dsimp only at hG
  by_cases hw : ¬ (j < i ∧ i - j ≤ ws)
  · decide_if at hG
    exact ⟨(⟨ofHashT s.doubleHashDictionary.h1 t1, ofHash s.doubleHashDictionary.h2⟩, none), by rw [hnf, if_pos hw]; rfl,
      t1, ht1, rfl, hG.symm, by intro st k o h; cases h⟩
  decide_if at hG
  rw [if_neg hw] at hnf
  have hw := Decidable.not_not.mp hw
  -- C: the first word of the candidate
  obtain ⟨z, hz, hF2⟩ := gen_load_ok { arr := A, len := E1 + 7 } hswf (Int.ofNat j) j rfl (by show j + 8 ≤ E1 + 7; omega)
  rw [hpd] at hz
  rw [hF2] at hG
  rw [tz_shr] at hG
  obtain ⟨k8, hk8le, hk8, hfw⟩ := first_word A L E1 mmN i j y z ia hia hy hz hw.1 hi hEL hLA hEA
  -- the clamp `k8 = min (tz >>> 3) (len(p) - i)`, whatever its spelling
  rw [ite_int_eq (v := ((k8 : Nat) : Int)) (by omegaI)] at hG
  rcases hfw with ⟨hC1, hml⟩ | ⟨hC1, kk, hme, hml, hkk1, hkk2⟩
  · decide_if at hG
    exact ⟨(⟨ofHashT s.doubleHashDictionary.h1 t1, ofHash s.doubleHashDictionary.h2⟩, none), by rw [hnf, hml]; rfl,
      t1, ht1, rfl, hG.symm, by intro st k o h; cases h⟩
  decide_if at hG
  -- the forward extension (`F` = whatever loop function the text calls)
  have hG := extBlock_at (first_loop% hG 4) _ _ fuel A L i j k8 ia hG (loop2_of_eqn _ (fun fuel k r q => by unfold_head; rfl)) kk hia hw.1
    hk8le hLA (by omega) hme
  try dsimp only at hG
  -- the backward extension
  have hbe := ProbeW.backExtW_eq (A.take L) (A.drop L) i li j (by omega) (by rw [hpl]; omega)
  have hmle := backExt_le (A.take L) i li j
  have hm0 := backExt_zero (A.take L) i li j
  by_cases hb : li < i
  case' pos =>
    decide_if at hG
    simp only [bind_assoc, bind_ok] at hG
    obtain ⟨s1, s2, hls, hG⟩ := backLcs_at lcs hlcs A L i li j _ ia _ _ hG (by omegaI) hia hb hw.1 (by omega) hLA
    simp only [hls] at hG
  case' neg =>
    decide_if at hG
    rw [bind_ok] at hG
    have hm0 := hm0 hb
  all_goals (
    generalize backExt (A.take L) i li j = m at *
    -- q := p[litIndex:i]
    rw [slice_okI _ _ _ li (i - m) (by omegaI) (by omegaI) (by omega) (by show i - m ≤ A.length; omega), bind_ok] at hG
    try dsimp only at hG
    -- the re-indexing loop (it starts at the match position j)
    have hq := loopH1_at _ _ _ _ _ _ _ _ hG (by intros; unfold_head; rfl)
    obtain ⟨t2, ht2, hr7, hG⟩ := hq (Min.min (i - m + (kk + m)) E1 - j) j (by omegaI) (by omegaI) (by omega)
      (by show _ ∨ _ ≤ E1 + 7; omega) c1 ht1
    rw [hpd] at hr7
    have hr7' : ProbeW.insertRangeW (ofHashT s.doubleHashDictionary.h1 t1) (List.take (E1 + 7) A) j
        (Min.min (i - m + (kk + m)) E1 - j) = some (ofHashT s.doubleHashDictionary.h1 t2) := hr7
    refine ⟨(⟨ofHashT s.doubleHashDictionary.h1 t2, ofHash s.doubleHashDictionary.h2⟩, some (i - m, kk + m, i - j)), ?_,
      t2, ht2, rfl, ?_, ?_⟩
    · rw [hnf, hml, Option.bind_some]
      dsimp only
      rw [hbe, Option.bind_some, hr7']; rfl
    · rw [← hG]
      try dsimp only
      exact loop_congr _ (by omegaI) rfl (blk_eq (seq_eq (by omegaI) (by omegaI) (by omegaI)) rfl) (by omegaI)
    · intro st k o h
      cases h
      exact ⟨by omega, by omega, by omega, by omega⟩)

set_option maxHeartbeats 4000000 in
/-- one iteration of the FIRST loop (`for ; i < e2; i++`: both tables are probed and updated) -/
theorem loop1_step (grow : Nat → Nat → Nat) (lcs : Slice → Slice → Int) (hlcs : LcsSpec lcs) (e2I mm e1I : Int) (A : List UInt8) (L E1 E2 mmN ws : Nat)
    (fuel i li : Nat) (ia lia : Int) (s : Gen.bdhp) (blk : Block')
    (w1 : HOK s.doubleHashDictionary.h1) (w2 : HOK s.doubleHashDictionary.h2)
    (hia : ia = (i : Int)) (hlia : lia = (li : Int)) (hE1 : e1I = (E1 : Int)) (hE2 : e2I = (E2 : Int))
    (hmm : mm = (mmN : Int))
    (hi : i < E2) (hE21 : E2 ≤ E1) (hEL : E1 ≤ L) (hLA : L ≤ A.length) (hEA : E1 + 7 ≤ A.length)
    (hsm : E1 + 7 < 4294967296 + 8) (hli : li ≤ i)
    (hws : ws = s.BDHPConfig.WindowSize.toNat) (hmm1 : 1 ≤ mmN) (hmm8 : mmN ≤ 8)
    (hfuel : L ≤ fuel + i) (hfuelE : E1 < fuel) :
    ∃ r, ProbeW.dhpProbeW ws mmN E1 E2 true (A.drop L) (absB s) (A.take L) i li = some r ∧
      ∃ t1' t2', TOK s.doubleHashDictionary.h1.shift t1' ∧ TOK s.doubleHashDictionary.h2.shift t2' ∧
        r.1 = ⟨ofHashT s.doubleHashDictionary.h1 t1', ofHashT s.doubleHashDictionary.h2 t2'⟩ ∧
        (callee_loop% bdhp_Parse_nilable 0) grow lcs e2I { arr := A, len := E1 + 7 } { arr := A, len := L } mm e1I (fuel + 1) ia s blk lia =
          (match r.2 with
          | none =>
            (callee_loop% bdhp_Parse_nilable 0) grow lcs e2I { arr := A, len := E1 + 7 } { arr := A, len := L } mm e1I fuel (ia + 1)
              (setTB s t1' t2') blk lia
          | some (st, k, o) =>
            (callee_loop% bdhp_Parse_nilable 0) grow lcs e2I { arr := A, len := E1 + 7 } { arr := A, len := L } mm e1I fuel
              ((st + k : Nat) : Int) (setTB s t1' t2')
              { Sequences := blk.Sequences ++ [seqRep { litLen := st - li, matchLen := k, offset := o }],
                Literals := Slice.append grow blk.Literals ((A.drop li).take (st - li)) }
              ((st + k : Nat) : Int)) ∧
        (∀ st k o, r.2 = some (st, k, o) → li ≤ st ∧ st ≤ i ∧ i < st + k ∧ st + k ≤ L) := by
  have hmem : BytesW.sliceTo (A.take L) (A.drop L) (E1 + 7) = some (A.take (E1 + 7)) := by
    unfold BytesW.sliceTo; rw [List.take_append_drop, if_pos hEA]
  have hpd : ({ arr := A, len := E1 + 7 } : Slice).data = A.take (E1 + 7) := rfl
  have hpl : (A.take L).length = L := by rw [List.length_take]; omega
  have hswf : SWF ({ arr := A, len := E1 + 7 } : Slice) := hEA
  have c1 := w1.ctx { arr := A, len := E1 + 7 } hswf hsm
  have c2 := w2.ctx { arr := A, len := E1 + 7 } hswf hsm
  -- the load at i, the two table accesses
  obtain ⟨y, hy, hF⟩ := gen_load_ok { arr := A, len := E1 + 7 } hswf ia i hia (by show i + 8 ≤ E1 + 7; omega)
  rw [hpd] at hy
  obtain ⟨ent2, u1, hidx2, hset2, hu1, hget2, hofs2⟩ := table_probe s.doubleHashDictionary.h2 s.doubleHashDictionary.h2.table
    w2.tok w2.sh1 w2.sh2 y ia i hia (by omega)
  obtain ⟨ent1, t1, hidx1, hset1, ht1, hget1, hofs1⟩ := table_probe s.doubleHashDictionary.h1 s.doubleHashDictionary.h1.table
    w1.tok w1.sh1 w1.sh2 y ia i hia (by omega)
  -- the generated side: `G`, computed step by step in `hG`
  generalize hG : (callee_loop% bdhp_Parse_nilable 0) grow lcs e2I { arr := A, len := E1 + 7 } { arr := A, len := L } mm e1I (fuel + 1) ia s blk lia = G
  unfold_head at hG
  unfold_helpers at hG
  decide_if at hG
  rw [hF] at hG
  dsimp only at hG
  -- the two probes, in whatever order the text makes them
  first
    | rw [hidx2, bind_ok, hset2, bind_ok] at hG
      try dsimp only at hG
      rw [hidx1, bind_ok, hset1, bind_ok] at hG
    | rw [hidx1, bind_ok, hset1, bind_ok] at hG
      try dsimp only at hG
      rw [hidx2, bind_ok, hset2, bind_ok] at hG
  try dsimp only at hG
  have hnf := dhpProbeW_nf1 ws mmN E1 E2 true (A.drop L) (absB s) (A.take L) i li (A.take (E1 + 7)) y hi hmem hy
    (y &&& s.doubleHashDictionary.h2.mask) (by rw [w2.mask]; rfl) (ofEntry ent2) hget2
    (ofHashT s.doubleHashDictionary.h2 u1) hofs2
    (y &&& s.doubleHashDictionary.h1.mask) (by rw [w1.mask]; rfl) (ofEntry ent1) hget1
    (ofHashT s.doubleHashDictionary.h1 t1) hofs1
  by_cases hv2 : (y &&& s.doubleHashDictionary.h2.mask).toUInt32 ≠ ent2.value <;>
    by_cases hv1 : (y &&& s.doubleHashDictionary.h1.mask).toUInt32 ≠ ent1.value
  · -- neither table has the value: `continue`
    decide_val hv2 at hG
    decide_val hv1 at hG
    exact ⟨(⟨ofHashT s.doubleHashDictionary.h1 t1, ofHashT s.doubleHashDictionary.h2 u1⟩, none),
      by rw [hnf, if_pos ((val_ne_iff _ _).mp hv2), if_pos ((val_ne_iff _ _).mp hv1)],
      t1, u1, ht1, hu1, rfl, hG.symm, by intro st k o h; cases h⟩
  all_goals (
    -- the candidate `ent`: the entry of h1 (the value of h2 differs) or the entry of h2
    first
      | (have hv2' : (y &&& s.doubleHashDictionary.h2.mask).toUInt32 ≠ ent2.value := hv2
         decide_val hv2 at hG
         decide_val hv1 at hG
         have hnfE : ProbeW.dhpProbeW ws mmN E1 E2 true (A.drop L) (absB s) (A.take L) i li =
             tailM1 ws mmN E1 E2 true (A.drop L) (A.take L) (A.take (E1 + 7)) i li
               (ofHashT s.doubleHashDictionary.h1 t1) (ofHashT s.doubleHashDictionary.h2 u1) (ofEntry ent1) := by
           rw [hnf, if_pos ((val_ne_iff _ _).mp hv2), if_neg (fun hc => hv1 ((val_ne_iff _ _).mpr hc))]
         obtain ⟨ent, hent⟩ : ∃ ent, ent = ent1 := ⟨_, rfl⟩
         rw [← hent] at hnfE hG)
      | (decide_val hv2 at hG
         have hnfE : ProbeW.dhpProbeW ws mmN E1 E2 true (A.drop L) (absB s) (A.take L) i li =
             tailM1 ws mmN E1 E2 true (A.drop L) (A.take L) (A.take (E1 + 7)) i li
               (ofHashT s.doubleHashDictionary.h1 t1) (ofHashT s.doubleHashDictionary.h2 u1) (ofEntry ent2) := by
           rw [hnf, if_neg (fun hc => hv2 ((val_ne_iff _ _).mpr hc))]
         obtain ⟨ent, hent⟩ : ∃ ent, ent = ent2 := ⟨_, rfl⟩
         rw [← hent] at hnfE hG)
    unfold tailM1 at hnfE
    simp only [if_true, Option.bind_some] at hnfE
    -- B: the candidate is outside the window
    have hj1 : (ofEntry ent).1 = ent.pos.toNat := rfl
    rw [hj1] at hnfE
    generalize hjdef : ent.pos.toNat = j at hnfE hG
    try dsimp only at hG
    by_cases hw : ¬ (j < i ∧ i - j ≤ ws)
    · decide_if at hG
      exact ⟨(⟨ofHashT s.doubleHashDictionary.h1 t1, ofHashT s.doubleHashDictionary.h2 u1⟩, none),
        by rw [hnfE, if_pos hw], t1, u1, ht1, hu1, rfl, hG.symm, by intro st k o h; cases h⟩
    decide_if at hG
    rw [if_neg hw] at hnfE
    have hw := Decidable.not_not.mp hw
    -- C: the first word of the candidate
    obtain ⟨z, hz, hF2⟩ := gen_load_ok { arr := A, len := E1 + 7 } hswf (Int.ofNat j) j rfl (by show j + 8 ≤ E1 + 7; omega)
    rw [hpd] at hz
    rw [hF2] at hG
    rw [tz_shr] at hG
    obtain ⟨k8, hk8le, hk8, hfw⟩ := first_word A L E1 mmN i j y z ia hia hy hz hw.1 (by omega) hEL hLA hEA
    -- the clamp `k8 = min (tz >>> 3) (len(p) - i)`, whatever its spelling
    rw [ite_int_eq (v := ((k8 : Nat) : Int)) (by omegaI)] at hG
    rcases hfw with ⟨hC1, hml⟩ | ⟨hC1, kk, hme, hml, hkk1, hkk2⟩
    · decide_if at hG
      exact ⟨(⟨ofHashT s.doubleHashDictionary.h1 t1, ofHashT s.doubleHashDictionary.h2 u1⟩, none),
        by rw [hnfE, hml]; rfl, t1, u1, ht1, hu1, rfl, hG.symm, by intro st k o h; cases h⟩
    decide_if at hG
    -- the forward extension (`F` = whatever loop function the text calls)
    have hG := extBlock_at (first_loop% hG 4) _ _ fuel A L i j k8 ia hG
      (loop2_of_eqn _ (fun fuel k r q => by unfold_head; rfl)) kk hia hw.1 hk8le hLA (by omega) hme
    try dsimp only at hG
    -- the backward extension
    have hbe := ProbeW.backExtW_eq (A.take L) (A.drop L) i li j (by omega) (by rw [hpl]; omega)
    have hmle := backExt_le (A.take L) i li j
    have hm0 := backExt_zero (A.take L) i li j
    by_cases hb : li < i
    case' pos =>
      decide_if at hG
      simp only [bind_assoc, bind_ok] at hG
      obtain ⟨s1, s2, hls, hG⟩ := backLcs_at lcs hlcs A L i li j _ ia _ _ hG (by omegaI) hia hb hw.1 (by omega) hLA
      simp only [hls] at hG
    case' neg =>
      decide_if at hG
      rw [bind_ok] at hG
      have hm0 := hm0 hb
    all_goals (
      generalize backExt (A.take L) i li j = m at *
      -- q := p[litIndex:i]
      rw [slice_okI _ _ _ li (i - m) (by omegaI) (by omegaI) (by omega) (by show i - m ≤ A.length; omega), bind_ok] at hG
      try dsimp only at hG
      -- the re-indexing loops (the table of h1 only): [i-m+1, min(i+k, e2)), then [.., min(i+k, e1))
      have hq := loopXH_at _ _ _ _ _ _ _ _ _ _ hG (by intros; unfold_head; rfl)
      obtain ⟨t1a, x', h', ht1a, hr1, hG⟩ := hq (Min.min (i - m + (kk + m)) E2 - (i - m + 1)) (i - m + 1) (by omegaI)
        (by omegaI) (by omega) (by show _ ∨ _ ≤ E1 + 7; omega) c1 ht1
      rw [hpd] at hr1
      have hr1' : ProbeW.insertRangeW (ofHashT s.doubleHashDictionary.h1 t1) (List.take (E1 + 7) A) (i - m + 1)
          (Min.min (i - m + (kk + m)) E2 - (i - m + 1)) = some (ofHashT s.doubleHashDictionary.h1 t1a) := hr1
      have hj3 : i - m + 1 + (Min.min (i - m + (kk + m)) E2 - (i - m + 1)) = Min.min (i - m + (kk + m)) E2 := by omega
      rw [hj3] at hG
      try dsimp only at hG
      by_cases hlong : E2 < i - m + (kk + m)
      · decide_if at hG
        simp only [bind_assoc, bind_ok] at hG
        have hq := loopH1_at _ _ _ _ _ _ _ _ hG (by intros; unfold_head; rfl)
        obtain ⟨t1b, ht1b, hr4, hG⟩ := hq (Min.min (i - m + (kk + m)) E1 - Min.min (i - m + (kk + m)) E2)
          (Min.min (i - m + (kk + m)) E2) (by omegaI) (by omegaI) (by omega) (by show _ ∨ _ ≤ E1 + 7; omega) c1 ht1a
        rw [hpd] at hr4
        have hr4' : ProbeW.insertRangeW (ofHashT s.doubleHashDictionary.h1 t1a) (List.take (E1 + 7) A)
            (Min.min (i - m + (kk + m)) E2)
            (Min.min (i - m + (kk + m)) E1 - Min.min (i - m + (kk + m)) E2) = some (ofHashT s.doubleHashDictionary.h1 t1b) := hr4
        have hsum : Min.min (i - m + (kk + m)) E1 - (i - m + 1) =
            (Min.min (i - m + (kk + m)) E2 - (i - m + 1)) +
              (Min.min (i - m + (kk + m)) E1 - Min.min (i - m + (kk + m)) E2) := by omega
        have hmodel : ProbeW.insertRangeW (ofHashT s.doubleHashDictionary.h1 t1) (List.take (E1 + 7) A) (i - m + 1)
            (Min.min (i - m + (kk + m)) E1 - (i - m + 1)) = some (ofHashT s.doubleHashDictionary.h1 t1b) := by
          rw [hsum, insertRangeW_add, hr1', Option.bind_some, hj3, hr4']
        refine ⟨(⟨ofHashT s.doubleHashDictionary.h1 t1b, ofHashT s.doubleHashDictionary.h2 u1⟩,
            some (i - m, kk + m, i - j)), ?_, t1b, u1, ht1b, hu1, rfl, ?_, ?_⟩
        · rw [hnfE, hml, Option.bind_some]
          dsimp only
          rw [hbe, Option.bind_some, hmodel, Option.bind_some]
        · rw [← hG]
          try dsimp only
          exact loop_congr _ (by omegaI) rfl (blk_eq (seq_eq (by omegaI) (by omegaI) (by omegaI)) rfl) (by omegaI)
        · intro st k o h
          cases h
          exact ⟨by omega, by omega, by omega, by omega⟩
      · have hsame : Min.min (i - m + (kk + m)) E1 - (i - m + 1) = Min.min (i - m + (kk + m)) E2 - (i - m + 1) := by omega
        decide_if at hG
        rw [bind_ok] at hG
        refine ⟨(⟨ofHashT s.doubleHashDictionary.h1 t1a, ofHashT s.doubleHashDictionary.h2 u1⟩,
            some (i - m, kk + m, i - j)), ?_, t1a, u1, ht1a, hu1, rfl, ?_, ?_⟩
        · rw [hnfE, hml, Option.bind_some]
          dsimp only
          rw [hbe, Option.bind_some, hsame, hr1', Option.bind_some]
        · rw [← hG]
          try dsimp only
          exact loop_congr _ (by omegaI) rfl (blk_eq (seq_eq (by omegaI) (by omegaI) (by omegaI)) rfl) (by omegaI)
        · intro st k o h
          cases h
          exact ⟨by omega, by omega, by omega, by omega⟩))

/-- the invariant of the two loops: only the tables change, they keep their invariant -/
def InvB (s0 s : Gen.bdhp) : Prop :=
  ∃ t1 t2, s = setTB s0 t1 t2 ∧ TOK s0.doubleHashDictionary.h1.shift t1 ∧ TOK s0.doubleHashDictionary.h2.shift t2

/-- **The two greedy loops of `Parse`** (loop_1 up to `e2`, then loop_5 up to `e1`) are ONE run of
    `ProbeW.greedyLoopW` with the finder `ProbeW.dhpProbeW` up to `e1`: no panic, same final position, `litIndex`,
    sequences, literals; the final tables abstract to the model's.  `e1 = len(p) - inputLen1 + 1 > 0`,
    `e2 = len(p) - inputLen2 + 1 ≤ e1` (any sign).  Fuel `2·len(p) + 3`: the re-indexing loop of the second loop
    starts at the MATCH position `j < i`. -/
theorem loops_eq (grow : Nat → Nat → Nat) (lcs : Slice → Slice → Int) (hlcs : LcsSpec lcs) (e1I e2I mm : Int) (A : List UInt8) (L E1 mmN ws : Nat)
    (hE1 : e1I = (E1 : Int)) (he21 : e2I ≤ e1I) (hmm : mm = (mmN : Int))
    (hEL : E1 ≤ L) (hLA : L ≤ A.length) (hEA : E1 + 7 ≤ A.length) (hsm : E1 + 7 < 4294967296 + 8)
    (hmm1 : 1 ≤ mmN) (hmm8 : mmN ≤ 8)
    (fuel W : Nat) (s : Gen.bdhp) (blk : Block')
    (w1 : HOK s.doubleHashDictionary.h1) (w2 : HOK s.doubleHashDictionary.h2)
    (hws : ws = s.BDHPConfig.WindowSize.toNat) (hW : W ≤ L) (hfuel : 2 * L + 3 ≤ fuel)
    (hsq : blk.Sequences = []) (hlt : blk.Literals.data = []) (hswf : SWF blk.Literals) :
    ∃ (st1 st' : LoopSt Hash2) (s1 : Gen.bdhp) (blk1 : Block') (t1 t2 : GSlice hashEntry) (blk' : Block'),
      ProbeW.greedyLoopW (ProbeW.dhpProbeW ws mmN E1 e2I.toNat true (A.drop L)) (A.take L) E1
        { dict := absB s, i := W, litIndex := W, seqs := [], lits := [] } = some st' ∧
      (callee_loop% bdhp_Parse_nilable 0) grow lcs e2I { arr := A, len := E1 + 7 } { arr := A, len := L } mm e1I fuel (W : Int) s blk (W : Int) =
        Res.ok ((st1.i : Int), s1, blk1, (st1.litIndex : Int)) ∧
      (callee_loop% bdhp_Parse_nilable 1) grow lcs e1I { arr := A, len := E1 + 7 } { arr := A, len := L } mm fuel (st1.i : Int) s1 blk1
        (st1.litIndex : Int) = Res.ok ((st'.i : Int), setTB s t1 t2, blk', (st'.litIndex : Int)) ∧
      TOK s.doubleHashDictionary.h1.shift t1 ∧ TOK s.doubleHashDictionary.h2.shift t2 ∧
      st'.dict = ⟨ofHashT s.doubleHashDictionary.h1 t1, ofHashT s.doubleHashDictionary.h2 t2⟩ ∧
      blk'.Sequences = st'.seqs.map seqRep ∧ blk'.Literals.data = st'.lits ∧ SWF blk'.Literals ∧
      W ≤ st'.litIndex ∧ st'.litIndex ≤ L := by
  have hE2 : e2I.toNat ≤ E1 := by omega
  have hokOf : ∀ t1 t2, TOK s.doubleHashDictionary.h1.shift t1 → TOK s.doubleHashDictionary.h2.shift t2 →
      HOK (setTB s t1 t2).doubleHashDictionary.h1 ∧ HOK (setTB s t1 t2).doubleHashDictionary.h2 :=
    fun t1 t2 h1 h2 => ⟨⟨w1.il0, w1.mask, w1.sh1, w1.sh2, h1⟩, ⟨w2.il0, w2.mask, w2.sh1, w2.sh2, h2⟩⟩
  -- the first loop
  obtain ⟨st1, s1, blk1, hg1, hl1, ⟨u1, u2, rfl, hu1, hu2⟩, hd1, hE2i, hiL1, hli1, hsq1, hlt1, hswf1, hW1⟩ :=
    greedy_generic (ProbeW.dhpProbeW ws mmN E1 e2I.toNat true (A.drop L))
      ((callee_loop% bdhp_Parse_nilable 0) grow lcs e2I { arr := A, len := E1 + 7 } { arr := A, len := L } mm e1I) absB (InvB s)
      grow A L E1 e2I.toNat (E1 + 1) 0 hE2 hEL hLA
      (fun fuel ia s blk lia h => by unfold_head; rw [if_neg (by omega)])
      (fun fuel i li ia lia s' blk hinv hia hlia hlo hi hli hf => by
        obtain ⟨t1, t2, rfl, ht1, ht2⟩ := hinv
        obtain ⟨w1', w2'⟩ := hokOf t1 t2 ht1 ht2
        obtain ⟨r, hr, t1', t2', ht1', ht2', hr1, hstp, hb⟩ := loop1_step grow lcs hlcs e2I mm e1I A L E1 e2I.toNat mmN ws
          fuel i li ia lia (setTB s t1 t2) blk w1' w2' hia hlia hE1 (by omega) hmm hi hE2 hEL hLA hEA hsm hli hws
          hmm1 hmm8 (by omega) (by omega)
        exact ⟨r, hr, setTB s t1' t2', ⟨t1', t2', rfl, ht1', ht2'⟩, hr1, hstp, hb⟩)
      (e2I.toNat - W) fuel W W (W : Int) (W : Int) s blk [] [] (by omega) (Nat.zero_le _) hW (Nat.le_refl _) rfl rfl
      (by omega) ⟨_, _, rfl, w1.tok, w2.tok⟩ (by rw [hsq]; rfl) hlt hswf
  -- the second loop
  obtain ⟨w1', w2'⟩ := hokOf u1 u2 hu1 hu2
  obtain ⟨st2, s2, blk2, hg2, hl2, ⟨v1, v2, rfl, hv1, hv2⟩, hd2, hE1i, hiL2, hli2, hsq2, hlt2, hswf2, hW2⟩ :=
    greedy_generic (ProbeW.dhpProbeW ws mmN E1 e2I.toNat true (A.drop L))
      ((callee_loop% bdhp_Parse_nilable 1) grow lcs e1I { arr := A, len := E1 + 7 } { arr := A, len := L } mm) absB (InvB s)
      grow A L E1 E1 (E1 + 1) e2I.toNat (Nat.le_refl _) hEL hLA
      (fun fuel ia s blk lia h => by unfold_head; rw [if_neg (by omega)])
      (fun fuel i li ia lia s' blk hinv hia hlia hlo hi hli hf => by
        obtain ⟨t1, t2, rfl, ht1, ht2⟩ := hinv
        obtain ⟨w1'', w2''⟩ := hokOf t1 t2 ht1 ht2
        obtain ⟨r, hr, t1', ht1', hr1, hstp, hb⟩ := loop5_step grow lcs hlcs e1I mm A L E1 e2I.toNat mmN ws
          fuel i li ia lia (setTB s t1 t2) blk w1'' hia hlia hE1 hmm hi (by omega) hEL hLA hEA hsm hli hws
          hmm1 hmm8 (by omega) (by omega)
        exact ⟨r, hr, setTB s t1' t2, ⟨t1', t2, rfl, ht1', ht2⟩, hr1, hstp, hb⟩)
      (E1 - st1.i) fuel st1.i st1.litIndex (st1.i : Int) (st1.litIndex : Int) (setTB s u1 u2) blk1 st1.seqs st1.lits
      (by omega) hE2i hiL1 hli1 rfl rfl (by omega) ⟨_, _, rfl, hu1, hu2⟩ hsq1 hlt1 hswf1
  refine ⟨st1, st2, _, blk1, v1, v2, blk2, ?_, hl1, hl2, hv1, hv2, hd2, hsq2, hlt2, hswf2, by omega, by omega⟩
  rw [hg1]
  have : st1 = { dict := absB (setTB s u1 u2), i := st1.i, litIndex := st1.litIndex, seqs := st1.seqs, lits := st1.lits } := by
    rw [← hd1]
  rw [this, hg2]
  exact ProbeW.greedyLoopW_done _ _ _ _ (by omega)

end LZ.GenBDHPParse
