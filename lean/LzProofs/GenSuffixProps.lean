/-
  LzProofs.GenSuffixProps — the translated code of suffix/lcp.go
  (LzModel/Generated/CodeSuffixLcp.lean, regenerated from the Go source on every run) equals the
  hand-written model (LzModel/Suffix.lean: `invertSA`, `kasaiLoop`, `lcpKasai`).

  Abstraction: `absI32 : GSlice Int32 → Array Nat` (elements only, `Int32.toInt.toNat`); `Slice.data`
  for the text.  `matchLen` is an opaque parameter of the translation (code_part4.go); its
  specification `MatchLenSpec` is a hypothesis.

  S01  gen_invertSA       InvertSA on ANY previous contents of `sainv` = `invertFrom` (fold from that
                          contents); for a permutation = `invertSA` (every entry is written)
  S01' gen_invertSA_panic len(sa) ≠ len(sainv) ⇒ panic
  S02  gen_lcp_chk        `_lcp` = the checked Kasai loop `kasaiLoopChk` (LzProofs/Kasai.lean) started
                          on the caller's table, whenever that loop does not fail
  S03  gen_lcp            for a suffix array and its inverse: `_lcp` does not panic and, for EVERY
                          initial contents of `lcp` of the right length, yields `lcpKasai` (the model
                          started on zeros) = `lcpSpec`; the capacity tail of `lcp` is untouched
  S04  lcpKasaiFrom_eq    model level: the result of the Kasai loop does not depend on the initial
                          table as soon as `sainv` hits every index (no suffix-array hypothesis)
-/
import LzModel.Generated.CodeSuffixLcp
import LzModel.Suffix
import LzProofs.GenSuffixPropsBase
import LzProofs.Kasai
import LzProofs.SuffixProps

set_option linter.unusedSimpArgs false
set_option linter.unusedVariables false

namespace LZ.GenSuffix
open LZ LZ.Gen LZ.GenBuf LZ.GenHash

/-! ## new model definitions: explicit start tables -/

/-- `InvertSA` started on the caller's table -/
def invertFrom (sa : Array Nat) (init : Array Nat) : Array Nat :=
  (List.range sa.size).foldl (fun inv j => inv.setIfInBounds (sa.getD j 0) j) init

theorem invertSA_eq_invertFrom (sa : Array Nat) : invertSA sa = invertFrom sa (Array.replicate sa.size 0) := rfl

/-- `_lcp` started on the caller's table -/
def lcpKasaiFrom (t : List Byte) (sa isa : Array Nat) (lcp0 : Array Nat) : Array Nat :=
  kasaiLoop t sa isa isa.size 0 0 lcp0

theorem lcpKasai_eq_from (t : List Byte) (sa isa : Array Nat) :
    lcpKasai t sa isa = lcpKasaiFrom t sa isa (Array.replicate t.length 0) := rfl

/-- the specification assumed for the opaque callee `matchLen` -/
def MatchLenSpec (matchLen : Slice → Slice → Int) : Prop :=
  ∀ p q : Slice, matchLen p q = ((lcpLen p.data q.data : Nat) : Int)

/-! ## S01 InvertSA -/

/-- partial fold: positions `i, …, i+n-1` -/
def invertSteps (sa : Array Nat) : Nat → Nat → Array Nat → Array Nat
  | 0, _, inv => inv
  | n + 1, i, inv => invertSteps sa n (i + 1) (inv.setIfInBounds (sa.getD i 0) i)

theorem foldl_range' {β : Type} (f : β → Nat → β) (n i : Nat) (b : β) :
    (List.range' i n).foldl f b = (match n with | 0 => b | m + 1 => (List.range' (i+1) m).foldl f (f b i)) := by
  cases n <;> simp [List.range']

theorem invertSteps_eq (sa : Array Nat) (n i : Nat) (inv : Array Nat) :
    invertSteps sa n i inv = (List.range' i n).foldl (fun inv j => inv.setIfInBounds (sa.getD j 0) j) inv := by
  induction n generalizing i inv with
  | zero => simp [invertSteps]
  | succ n ih => simp [invertSteps, List.range', ih]

theorem invertFrom_eq_steps (sa init : Array Nat) : invertFrom sa init = invertSteps sa sa.size 0 init := by
  rw [invertSteps_eq, invertFrom, List.range_eq_range']

theorem invertSteps_size (sa : Array Nat) (n i : Nat) (inv : Array Nat) :
    (invertSteps sa n i inv).size = inv.size := by
  induction n generalizing i inv with
  | zero => rfl
  | succ n ih => simp [invertSteps, ih]

/-- all entries of `sa` are valid indices `< n` -/
def InRange (s : GSlice Int32) (n : Nat) : Prop :=
  ∀ i, i < s.len → 0 ≤ ((s.arr[i]?).getD 0).toInt ∧ ((s.arr[i]?).getD 0).toInt < n

theorem invert_loop_eq (sa : GSlice Int32) (hsa : GWF sa) (hlen : sa.len ≤ 2147483647) (N : Nat) (hr : InRange sa N) :
    ∀ (n i : Nat) (sainv : GSlice Int32), i + n = sa.len → GWF sainv → sainv.len = N →
      ∃ s', suffix_InvertSA_loop_1 sa n (i : Int) sainv = Res.ok s' ∧
        absI32 s' = invertSteps (absI32 sa) n i (absI32 sainv) ∧ GWF s' ∧ s'.len = sainv.len ∧
        s'.arr.length = sainv.arr.length ∧ s'.arr.drop sainv.len = sainv.arr.drop sainv.len := by
  intro n
  induction n with
  | zero =>
    intro i sainv _ hw _
    exact ⟨sainv, by simp [suffix_InvertSA_loop_1], by simp [invertSteps], hw, rfl, rfl, rfl⟩
  | succ n ih =>
    intro i sainv hin hw hN
    have hi : i < sa.len := by omega
    obtain ⟨h0, h1⟩ := hr i hi
    rw [suffix_InvertSA_loop_1]
    rw [gindex_ok (0 : Int32) sa (i : Int) i rfl hi]
    simp only [bind_ok]
    generalize hx : (sa.arr[i]?).getD 0 = x at h0 h1
    rw [gset_ok sainv x.toInt x.toInt.toNat (by omega) (by omega)]
    simp only [bind_ok]
    have hw' := gset_wf hw x.toInt.toNat (Int32.ofInt (i : Int))
    obtain ⟨s', e1, e2, e3, e4, e5, e6⟩ := ih (i + 1) _ (by omega) hw' (by simpa using hN)
    refine ⟨s', by simpa using e1, ?_, e3, by simpa using e4, by simpa using e5, ?_⟩
    · rw [e2, absI32_set, invertSteps, absI32_getD hsa i hi, hx]
      congr 2
      unfold i32n
      rw [i32_ofInt _ (by omega) (by omega)]; simp
    · have e6' : s'.arr.drop sainv.len = (sainv.arr.set x.toInt.toNat (Int32.ofInt (i : Int))).drop sainv.len := e6
      rw [e6', drop_set_lt _ _ _ _ (by omega)]

/-- S01: `InvertSA(sa, sainv)` on any previous contents of `sainv`. -/
theorem gen_invertSA (sa sainv : GSlice Int32) (hsa : GWF sa) (hsi : GWF sainv)
    (hlen : sa.len = sainv.len) (h31 : sa.len ≤ 2147483647) (hr : InRange sa sa.len) :
    ∃ s', suffix_InvertSA sa sainv = Res.ok s' ∧
      absI32 s' = invertFrom (absI32 sa) (absI32 sainv) ∧ GWF s' ∧ s'.len = sainv.len ∧
      s'.arr.drop sainv.len = sainv.arr.drop sainv.len := by
  obtain ⟨s', e1, e2, e3, e4, _, e6⟩ := invert_loop_eq sa hsa h31 sa.len hr sa.len 0 sainv (by omega) hsi hlen.symm
  refine ⟨s', ?_, ?_, e3, e4, e6⟩
  · have e1' : suffix_InvertSA_loop_1 sa sa.len 0 sainv = Res.ok s' := by simpa using e1
    unfold suffix_InvertSA
    split
    · rename_i hne
      exact absurd hlen (by simp only [Int.ofNat_eq_natCast] at hne; omega)
    · simp only [e1', bind_ok]
  · rw [e2, invertFrom_eq_steps, absI32_size hsa]

/-- S01': the explicit panic -/
theorem gen_invertSA_panic (sa sainv : GSlice Int32) (hlen : sa.len ≠ sainv.len) :
    suffix_InvertSA sa sainv = Res.panic := by
  unfold suffix_InvertSA
  split
  · rfl
  · rename_i hne
    exact absurd hlen (by simp only [Int.ofNat_eq_natCast] at hne; omega)

/-! ### every entry is written: the start table is irrelevant for a permutation -/

theorem invertSteps_agree (sa : Array Nat) :
    ∀ (n i : Nat) (a b : Array Nat), a.size = b.size →
      (∀ k, k < a.size → (∃ j, i ≤ j ∧ j < i + n ∧ sa.getD j 0 = k) ∨ a[k]? = b[k]?) →
      invertSteps sa n i a = invertSteps sa n i b := by
  intro n
  induction n with
  | zero =>
    intro i a b hs h
    simp only [invertSteps]
    apply Array.ext_getElem?
    intro k
    by_cases hk : k < a.size
    · rcases h k hk with ⟨j, h1, h2, _⟩ | h
      · omega
      · exact h
    · rw [Array.getElem?_eq_none (by omega), Array.getElem?_eq_none (by omega)]
  | succ n ih =>
    intro i a b hs h
    simp only [invertSteps]
    apply ih
    · simp [hs]
    · intro k hk
      simp only [Array.size_setIfInBounds] at hk
      by_cases hki : sa.getD i 0 = k
      · right
        simp [Array.getElem?_setIfInBounds, hki, hs]
      · rcases h k hk with ⟨j, h1, h2, h3⟩ | h
        · left
          refine ⟨j, ?_, by omega, h3⟩
          by_cases hji : j = i
          · subst hji; exact absurd h3 hki
          · omega
        · right
          have hki' : ¬ sa[i]?.getD 0 = k := by simpa [Array.getD_eq_getD_getElem?] using hki
          simp [Array.getElem?_setIfInBounds, hki', h]

/-- `InvertSA` writes every entry when `sa` hits every index: the previous contents are irrelevant. -/
theorem invertFrom_eq_invertSA (sa init : Array Nat) (hs : init.size = sa.size)
    (hsurj : ∀ k, k < sa.size → ∃ j, j < sa.size ∧ sa.getD j 0 = k) :
    invertFrom sa init = invertSA sa := by
  rw [invertSA_eq_invertFrom, invertFrom_eq_steps, invertFrom_eq_steps]
  apply invertSteps_agree
  · simp [hs]
  · intro k hk
    left
    obtain ⟨j, h1, h2⟩ := hsurj k (by omega)
    exact ⟨j, by omega, by omega, h2⟩

/-! ## S02 `_lcp` = the checked Kasai loop -/

/-- `split` the next `if` of the goal and close the branch that contradicts the known fact `h`
    (whatever the order of the operands of `=` in the translated condition) -/
local macro "split_by " h:ident : tactic =>
  `(tactic| (split <;> try (rename_i hc
                            first
                              | exact absurd $h hc
                              | exact absurd (Eq.symm $h) hc
                              | exact absurd hc $h
                              | exact absurd (Eq.symm hc) $h)))

/-- an `Int32` comparison hypothesis (in whatever form `split` produced it) as a fact about `toInt` -/
local macro "i32_norm " "at " h:ident : tactic =>
  `(tactic| simp only [gt_iff_lt, ge_iff_le, i32_lt_iff, i32_le_iff, i32_eq_iff, i32_zero, i32_one, Int32.not_lt, Int32.not_le, ne_eq] at $h:ident)

theorem lcp_loop_chk (matchLen : Slice → Slice → Int) (hml : MatchLenSpec matchLen)
    (t : Slice) (sa sainv : GSlice Int32) (ht : SWF t) (hsa : GWF sa) (hsi : GWF sainv)
    (hnsa : NonNeg sa) (hnsi : NonNeg sainv) (ht31 : t.len ≤ 2147483647) (hi31 : sainv.len ≤ 2147483647) :
    ∀ (n i : Nat) (lcp : GSlice Int32) (l : Int32) (r : Array Nat), i + n = sainv.len → GWF lcp → 0 ≤ l.toInt →
      kasaiLoopChk t.data (absI32 sa) (absI32 sainv) n i l.toInt.toNat (absI32 lcp) = some r →
      ∃ lcp' l', suffix__lcp_loop_1 matchLen sainv sa t n (i : Int) lcp l = Res.ok (lcp', l') ∧
        absI32 lcp' = r ∧ GWF lcp' ∧ lcp'.len = lcp.len ∧ lcp'.arr.length = lcp.arr.length ∧
        lcp'.arr.drop lcp.len = lcp.arr.drop lcp.len := by
  intro n
  induction n with
  | zero =>
    intro i lcp l r _ hw _ h
    simp only [kasaiLoopChk, Option.some.injEq] at h
    exact ⟨lcp, l, by simp [suffix__lcp_loop_1], h, hw, rfl, rfl, rfl⟩
  | succ n ih =>
    intro i lcp l r hin hw hl h
    have hi : i < sainv.len := by omega
    have htd : t.data.length = t.len := data_length ht
    rw [kasaiLoopChk, absI32_getElem? hsi i hi] at h
    simp only at h
    rw [suffix__lcp_loop_1]
    rw [gindex_ok (0 : Int32) sainv (i : Int) i rfl hi]
    simp only [bind_ok]
    have hk0 := hnsi i hi
    generalize hx : (sainv.arr[i]?).getD 0 = k at h hk0
    have hkr := i32_range k
    have hkz : (k = 0) ↔ (i32n k = 0) := by
      rw [i32_eq_iff, i32_zero]; unfold i32n; omega
    by_cases hk : k = 0
    · -- lcp[0] = 0; l = 0
      have hk' : i32n k = 0 := hkz.1 hk
      simp only [hk', if_true] at h
      split_by hk
      rw [absI32_size hw] at h
      by_cases hpos : 0 < lcp.len
      · simp only [hpos, if_true] at h
        rw [gset_ok lcp (0 : Int) 0 rfl hpos]
        simp only [bind_ok]
        have hw' := gset_wf hw 0 (0 : Int32)
        have h' : kasaiLoopChk t.data (absI32 sa) (absI32 sainv) n (i + 1) (0 : Int32).toInt.toNat
            (absI32 { lcp with arr := lcp.arr.set 0 (0 : Int32) }) = some r := by
          rw [absI32_set]; simpa [i32n, i32_zero] using h
        obtain ⟨lcp', l', e1, e2, e3, e4, e5, e6⟩ := ih (i + 1) _ 0 r (by omega) hw' (by simp [i32_zero]) h'
        refine ⟨lcp', l', by simpa using e1, e2, e3, by simpa using e4, by simpa using e5, ?_⟩
        have e6' : lcp'.arr.drop lcp.len = (lcp.arr.set 0 (0 : Int32)).drop lcp.len := e6
        rw [e6', drop_set_lt _ _ _ _ hpos]
      · simp only [hpos, if_false] at h
        exact absurd h (by simp)
    · have hk' : ¬ i32n k = 0 := fun e => hk (hkz.2 e)
      simp only [hk', if_false] at h
      split_by hk
      have hkpos : 1 ≤ k.toInt := by
        unfold i32n at hk'; omega
      have hkm : (k - 1).toInt = k.toInt - 1 := by
        rw [i32_sub _ _ (by rw [i32_one]; omega) (by rw [i32_one]; omega), i32_one]
      have hkn : (k.toInt - 1).toNat = i32n k - 1 := by unfold i32n; omega
      -- j := sa[k-1]
      by_cases hks : i32n k - 1 < sa.len
      · rw [absI32_getElem? hsa _ hks] at h
        simp only at h
        rw [gindex_ok (0 : Int32) sa (k - 1).toInt (i32n k - 1) (by rw [hkm]; unfold i32n; omega) hks]
        simp only [bind_ok]
        have hj0 := hnsa _ hks
        generalize hjx : (sa.arr[i32n k - 1]?).getD 0 = j at h hj0
        have hjr := i32_range j
        rw [absI32_size hw] at h
        by_cases hc : i + l.toInt.toNat ≤ t.data.length ∧ i32n j + l.toInt.toNat ≤ t.data.length ∧ i32n k < lcp.len
        · simp only [hc, and_self, if_true] at h
          obtain ⟨hc1, hc2, hc3⟩ := hc
          rw [htd] at hc1 hc2
          have hii : (Int32.ofInt (i : Int)).toInt = (i : Int) := i32_ofInt _ (by omega) (by omega)
          have hil : ((Int32.ofInt (i : Int)) + l).toInt = ((i + l.toInt.toNat : Nat) : Int) := by
            rw [i32_add _ _ (by rw [hii]; omega) (by rw [hii]; omega), hii]; omega
          have hjl : (j + l).toInt = ((i32n j + l.toInt.toNat : Nat) : Int) := by
            unfold i32n at hc2 ⊢
            rw [i32_add _ _ (by omega) (by omega)]; omega
          obtain ⟨p, hp1, hp2⟩ := bslice_tail t ht _ _ hil hc1
          obtain ⟨q, hq1, hq2⟩ := bslice_tail t ht _ _ hjl hc2
          rw [hp1]; simp only [bind_ok]
          rw [hq1]; simp only [bind_ok]
          rw [hml p q, hp2, hq2]
          generalize hm : lcpLen (t.data.drop (i + l.toInt.toNat)) (t.data.drop (i32n j + l.toInt.toNat)) = m at h
          have hmle : m ≤ t.len - (i + l.toInt.toNat) := by
            have := LZ.lcpLen_le_left (t.data.drop (i + l.toInt.toNat)) (t.data.drop (i32n j + l.toInt.toNat))
            rw [hm, List.length_drop, htd] at this; exact this
          have hmi : (Int32.ofInt ((m : Nat) : Int)).toInt = (m : Int) := i32_ofInt _ (by omega) (by omega)
          have hl' : (l + Int32.ofInt ((m : Nat) : Int)).toInt = ((l.toInt.toNat + m : Nat) : Int) := by
            rw [i32_add _ _ (by rw [hmi]; omega) (by rw [hmi]; omega), hmi]; omega
          generalize hL : l + Int32.ofInt ((m : Nat) : Int) = L at hl'
          rw [gset_ok lcp k.toInt (i32n k) (by unfold i32n; omega) hc3]
          simp only [bind_ok]
          have hw' := gset_wf hw (i32n k) L
          -- the rest of the loop for any decremented value `L2`
          have key : ∀ L2 : Int32, 0 ≤ L2.toInt → L2.toInt.toNat = l.toInt.toNat + m - 1 →
              ∃ lcp' l', suffix__lcp_loop_1 matchLen sainv sa t n ((i : Int) + 1)
                  { lcp with arr := lcp.arr.set (i32n k) L } L2 = Res.ok (lcp', l') ∧
                absI32 lcp' = r ∧ GWF lcp' ∧ lcp'.len = lcp.len ∧ lcp'.arr.length = lcp.arr.length ∧
                lcp'.arr.drop lcp.len = lcp.arr.drop lcp.len := by
            intro L2 hL2n hL2v
            have h' : kasaiLoopChk t.data (absI32 sa) (absI32 sainv) n (i + 1) L2.toInt.toNat
                (absI32 { lcp with arr := lcp.arr.set (i32n k) L }) = some r := by
              rw [absI32_set, hL2v]
              have : i32n L = l.toInt.toNat + m := by unfold i32n; omega
              rw [this]; exact h
            obtain ⟨lcp', l', e1, e2, e3, e4, e5, e6⟩ := ih (i + 1) _ L2 r (by omega) hw' hL2n h'
            refine ⟨lcp', l', by simpa using e1, e2, e3, by simpa using e4, by simpa using e5, ?_⟩
            have e6' : lcp'.arr.drop lcp.len = (lcp.arr.set (i32n k) L).drop lcp.len := e6
            rw [e6', drop_set_lt _ _ _ _ hc3]
          -- l-- if l > 0
          have hs : 0 < L.toInt → (L - 1).toInt = L.toInt - 1 := fun _ => by
            rw [i32_sub _ _ (by rw [i32_one]; omega) (by rw [i32_one]; omega), i32_one]
          split
          · rename_i hLp
            i32_norm at hLp
            refine key _ ?_ ?_ <;> (have := hs hLp; omega)
          · rename_i hLp
            i32_norm at hLp
            refine key _ ?_ ?_ <;> omega
        · simp only [hc, if_false] at h
          exact absurd h (by simp)
      · rw [absI32_getElem?_none hsa _ hks] at h
        exact absurd h (by simp)

/-- S02: `_lcp` computes what the checked Kasai loop computes on the caller's table. -/
theorem gen_lcp_chk (matchLen : Slice → Slice → Int) (hml : MatchLenSpec matchLen)
    (t : Slice) (sa sainv lcp : GSlice Int32) (ht : SWF t) (hsa : GWF sa) (hsi : GWF sainv) (hw : GWF lcp)
    (hnsa : NonNeg sa) (hnsi : NonNeg sainv) (ht31 : t.len ≤ 2147483647) (hi31 : sainv.len ≤ 2147483647)
    (r : Array Nat)
    (h : kasaiLoopChk t.data (absI32 sa) (absI32 sainv) (absI32 sainv).size 0 0 (absI32 lcp) = some r) :
    ∃ lcp', suffix__lcp matchLen t sa sainv lcp = Res.ok lcp' ∧ absI32 lcp' = r ∧ GWF lcp' ∧
      lcp'.len = lcp.len ∧ lcp'.arr.drop lcp.len = lcp.arr.drop lcp.len := by
  rw [absI32_size hsi] at h
  obtain ⟨lcp', l', e1, e2, e3, e4, _, e6⟩ := lcp_loop_chk matchLen hml t sa sainv ht hsa hsi hnsa hnsi ht31 hi31
    sainv.len 0 lcp 0 r (by omega) hw (by simp [i32_zero]) (by simpa [i32_zero] using h)
  refine ⟨lcp', ?_, e2, e3, e4, e6⟩
  unfold suffix__lcp
  have e1' : suffix__lcp_loop_1 matchLen sainv sa t sainv.len 0 lcp 0 = Res.ok (lcp', l') := by simpa using e1
  simp only [e1', bind_ok]

/-! ## S04 the start table is irrelevant (model level, no suffix-array hypothesis) -/

theorem kasaiLoop_agree (t : List Byte) (sa isa : Array Nat) :
    ∀ (n i l : Nat) (a b : Array Nat), a.size = b.size →
      (∀ k, k < a.size → (∃ j, i ≤ j ∧ j < i + n ∧ isa.getD j 0 = k) ∨ a[k]? = b[k]?) →
      kasaiLoop t sa isa n i l a = kasaiLoop t sa isa n i l b := by
  intro n
  induction n with
  | zero =>
    intro i l a b hs h
    simp only [kasaiLoop]
    apply Array.ext_getElem?
    intro k
    by_cases hk : k < a.size
    · rcases h k hk with ⟨j, h1, h2, _⟩ | h
      · omega
      · exact h
    · rw [Array.getElem?_eq_none (by omega), Array.getElem?_eq_none (by omega)]
  | succ n ih =>
    intro i l a b hs h
    -- one step writes the same value at index `isa[i]` of both tables
    have step : ∀ (v : Nat), ∀ k, k < (a.setIfInBounds (isa.getD i 0) v).size →
        (∃ j, i + 1 ≤ j ∧ j < i + 1 + n ∧ isa.getD j 0 = k) ∨
          (a.setIfInBounds (isa.getD i 0) v)[k]? = (b.setIfInBounds (isa.getD i 0) v)[k]? := by
      intro v k hk
      simp only [Array.size_setIfInBounds] at hk
      by_cases hki : isa.getD i 0 = k
      · right; simp [Array.getElem?_setIfInBounds, hki, hs]
      · rcases h k hk with ⟨j, h1, h2, h3⟩ | h
        · left
          refine ⟨j, ?_, by omega, h3⟩
          by_cases hji : j = i
          · subst hji; exact absurd h3 hki
          · omega
        · right
          have hki' : ¬ isa[i]?.getD 0 = k := by simpa [Array.getD_eq_getD_getElem?] using hki
          simp [Array.getElem?_setIfInBounds, hki', h]
    simp only [kasaiLoop]
    by_cases hk : isa.getD i 0 = 0
    · simp only [hk, if_true]
      apply ih
      · simp [hs]
      · have := step 0; rw [hk] at this; exact this
    · simp only [hk, if_false]
      apply ih
      · simp [hs]
      · exact step _

/-- S04: if `isa` hits every index, `_lcp` overwrites the whole table: the result for any start
    table of the right length is the model's `lcpKasai` (which starts on zeros). -/
theorem lcpKasaiFrom_eq (t : List Byte) (sa isa lcp0 : Array Nat) (h0 : lcp0.size = t.length)
    (hsurj : ∀ k, k < t.length → ∃ j, j < isa.size ∧ isa.getD j 0 = k) :
    lcpKasaiFrom t sa isa lcp0 = lcpKasai t sa isa := by
  rw [lcpKasai_eq_from]
  unfold lcpKasaiFrom
  apply kasaiLoop_agree
  · simp [h0]
  · intro k hk
    left
    obtain ⟨j, h1, h2⟩ := hsurj k (by omega)
    exact ⟨j, by omega, by omega, h2⟩

/-! ## S03 `_lcp` on a suffix array -/

/-- S03: for a suffix array `sa` of `t` and its inverse, the translated `_lcp` does not panic and —
    for EVERY previous contents of the caller's table `lcp` (of length `len(t)`) — stores the table
    the model computes from zeros, i.e. every entry is written. -/
theorem gen_lcp (matchLen : Slice → Slice → Int) (hml : MatchLenSpec matchLen)
    (t : Slice) (sa sainv lcp : GSlice Int32) (ht : SWF t) (hsa : GWF sa) (hsi : GWF sainv) (hw : GWF lcp)
    (hnsa : NonNeg sa) (hnsi : NonNeg sainv) (ht31 : t.len ≤ 2147483647)
    (hSA : IsSuffixArray t.data (absI32 sa).toList) (hinv : IsInverse (absI32 sa).toList (absI32 sainv))
    (hlen : lcp.len = t.len) :
    ∃ lcp', suffix__lcp matchLen t sa sainv lcp = Res.ok lcp' ∧
      absI32 lcp' = lcpKasai t.data (absI32 sa) (absI32 sainv) ∧
      (absI32 lcp').toList = lcpSpec t.data (absI32 sa).toList ∧
      GWF lcp' ∧ lcp'.len = lcp.len ∧ lcp'.arr.drop lcp.len = lcp.arr.drop lcp.len := by
  have htd : t.data.length = t.len := data_length ht
  have hsz : (absI32 lcp).size = t.data.length := by rw [absI32_size hw, hlen, htd]
  have hchk := kasaiChk_correct hSA hinv (absI32 lcp) hsz
  have hzero := kasaiLoop_correct hSA hinv (Array.replicate t.data.length 0) (by simp)
  have hi31 : sainv.len ≤ 2147483647 := by
    have h1 := hinv.1
    have h2 := hSA.length_eq
    rw [absI32_size hsi] at h1
    omega
  simp only [Array.toArray_toList] at hchk hzero
  obtain ⟨lcp', e1, e2, e3, e4, e5⟩ := gen_lcp_chk matchLen hml t sa sainv lcp ht hsa hsi hw hnsa hnsi ht31 hi31 _ hchk
  refine ⟨lcp', e1, ?_, by rw [e2], e3, e4, e5⟩
  rw [e2]; unfold lcpKasai; rw [hzero]

end LZ.GenSuffix

/-! ## axiom audit -/
#print axioms LZ.GenSuffix.gen_invertSA
#print axioms LZ.GenSuffix.gen_invertSA_panic
#print axioms LZ.GenSuffix.invertFrom_eq_invertSA
#print axioms LZ.GenSuffix.gen_lcp_chk
#print axioms LZ.GenSuffix.gen_lcp
#print axioms LZ.GenSuffix.lcpKasaiFrom_eq
