/-
  LzProofs.AcceptDefs — definitions shared by the decoder side (LzProofs.AcceptLemmas /
  AcceptProps) and the parser side (LzProofs.AcceptParse) of property C07.  Only the model is
  imported here (the proof modules of the decoder topic and of the parser topic cannot be imported
  into one file: both define `LZ.copyRef_prepend` / `LZ.expandSeqs_prepend`).

  * `WFSeqs W n ll seqs`      : the sequences are well-formed for window size `W` when `n` stream
                                bytes precede them and `ll` literal bytes are available: exactly
                                the negation of the guards (`litLen`, `offset`) of the decoder's
                                sequence loop, which only depend on these two numbers.
  * `WellFormedBlock W hist blk`, `WellFormedStream W hist blks`
  * `SeqsFit m seqs`          : every sequence has `litLen + matchLen ≤ m`
  * `DEvent`                  : what a decoder is fed: a block, or raw bytes (`Write`)
  * `Decoder.feed`, `Decoder.feedAll`, `refDecode`, `WellFormedEvents`, `EventsFit`
-/
import LzModel.DecBuf
namespace LZ

/-! ## well-formed sequences, blocks, streams -/

/-- `seqs` are well-formed for window size `W` on top of `n` stream bytes with `ll` literal bytes
    available: for each sequence in turn `LitLen ≤` remaining literals, `MatchLen = 0 ∨ 1 ≤ Offset`,
    `Offset ≤ min W (bytes before the match)`. -/
def WFSeqs (W : Nat) : Nat → Nat → List Seq → Prop
  | _, _, [] => True
  | n, ll, s :: ss =>
    s.litLen ≤ ll ∧ (s.matchLen = 0 ∨ 1 ≤ s.offset) ∧ s.offset ≤ min W (n + s.litLen) ∧
    WFSeqs W (n + s.litLen + s.matchLen) (ll - s.litLen) ss

/-- a block is well-formed for window size `W` over the history `hist` -/
def WellFormedBlock (W : Nat) (hist : List Byte) (blk : Block) : Prop :=
  WFSeqs W hist.length blk.lits.length blk.seqs

/-- a stream of blocks is well-formed over `hist`: each block is well-formed over the reference
    expansion of the previous ones -/
def WellFormedStream (W : Nat) : List Byte → List Block → Prop
  | _, [] => True
  | h, b :: bs => WellFormedBlock W h b ∧ ∃ h', expand h b = some h' ∧ WellFormedStream W h' bs

/-- every sequence is at most `m` bytes long (`LitLen + MatchLen ≤ m`) -/
def SeqsFit (m : Nat) (seqs : List Seq) : Prop := ∀ s ∈ seqs, s.litLen + s.matchLen ≤ m

/-- reference expansion of a stream of blocks -/
def expandStream : List Byte → List Block → Option (List Byte)
  | h, [] => some h
  | h, b :: bs =>
    match expand h b with
    | some h' => expandStream h' bs
    | none => none

/-! ## the reference expander on well-formed input -/

theorem copyRef_len : ∀ (m : Nat) (out : List Byte) (o : Nat) (r : List Byte),
    copyRef out o m = some r → r.length = out.length + m := by
  intro m
  induction m with
  | zero => intro out o r h; simp only [copyRef, Option.some.injEq] at h; subst h; rfl
  | succ m ih =>
    intro out o r h
    rw [copyRef] at h
    split at h
    · have := ih _ _ _ h
      simp only [List.length_append, List.length_singleton] at this
      omega
    · cases h

theorem copyRef_defined : ∀ (m : Nat) (out : List Byte) (o : Nat),
    (m = 0 ∨ (0 < o ∧ o ≤ out.length)) → ∃ r, copyRef out o m = some r := by
  intro m
  induction m with
  | zero => intro out o _; exact ⟨out, rfl⟩
  | succ m ih =>
    intro out o h
    have h' : 0 < o ∧ o ≤ out.length := by
      rcases h with h | h
      · cases h
      · exact h
    rw [copyRef]
    simp only [h', and_self, ↓reduceDIte]
    apply ih
    right
    simp only [List.length_append, List.length_singleton]
    omega

/-- the reference expander is defined on well-formed sequences -/
theorem WFSeqs.expandSeqs_defined {W : Nat} : ∀ (seqs : List Seq) (hist lits : List Byte),
    WFSeqs W hist.length lits.length seqs →
    ∃ out rest, expandSeqs hist lits seqs = some (out, rest) := by
  intro seqs
  induction seqs with
  | nil => intro hist lits _; exact ⟨hist, lits, rfl⟩
  | cons s ss ih =>
    intro hist lits h
    obtain ⟨h1, h2, h3, h4⟩ := h
    have hlen : (hist ++ lits.take s.litLen).length = hist.length + s.litLen := by
      simp only [List.length_append, List.length_take]; omega
    obtain ⟨r, hr⟩ := copyRef_defined s.matchLen (hist ++ lits.take s.litLen) s.offset (by
      rcases h2 with h2 | h2
      · exact Or.inl h2
      · right; rw [hlen]; omega)
    have hrl := copyRef_len _ _ _ _ hr
    rw [hlen] at hrl
    have := ih r (lits.drop s.litLen) (by
      rw [hrl, List.length_drop]; exact h4)
    obtain ⟨out, rest, ho⟩ := this
    exact ⟨out, rest, by simp only [expandSeqs, h1, ↓reduceIte, hr, ho]⟩

/-- a well-formed block has a reference expansion -/
theorem WellFormedBlock.expand_defined {W : Nat} {hist : List Byte} {blk : Block}
    (h : WellFormedBlock W hist blk) : ∃ out, expand hist blk = some out := by
  obtain ⟨out, rest, ho⟩ := WFSeqs.expandSeqs_defined blk.seqs hist blk.lits h
  exact ⟨out ++ rest, by simp only [expand, ho]⟩

/-- after the first `k` sequences the remaining ones are well-formed over the expansion so far -/
theorem WFSeqs.drop {W : Nat} : ∀ (seqs : List Seq) (k : Nat) (hist lits w1 rest : List Byte),
    WFSeqs W hist.length lits.length seqs →
    expandSeqs hist lits (seqs.take k) = some (w1, rest) →
    WFSeqs W w1.length rest.length (seqs.drop k) := by
  intro seqs
  induction seqs with
  | nil =>
    intro k hist lits w1 rest _ hx
    simp only [List.take_nil, expandSeqs, Option.some.injEq, Prod.mk.injEq] at hx
    simp only [List.drop_nil, WFSeqs]
  | cons s ss ih =>
    intro k hist lits w1 rest h hx
    cases k with
    | zero =>
      simp only [List.take_zero, expandSeqs, Option.some.injEq, Prod.mk.injEq] at hx
      obtain ⟨rfl, rfl⟩ := hx
      simpa using h
    | succ k =>
      obtain ⟨h1, h2, h3, h4⟩ := h
      simp only [List.take_succ_cons, expandSeqs, h1, ↓reduceIte] at hx
      split at hx
      · rename_i out' hc
        have hrl := copyRef_len _ _ _ _ hc
        simp only [List.length_append, List.length_take] at hrl
        simp only [List.drop_succ_cons]
        apply ih k out' (lits.drop s.litLen) w1 rest _ hx
        rw [hrl, List.length_drop, Nat.min_eq_left h1]
        exact h4
      · cases hx

/-- well-formedness is monotone in the window size and in the number of preceding bytes -/
theorem WFSeqs.mono {W W' : Nat} (hW : W ≤ W') : ∀ (seqs : List Seq) (n n' ll : Nat), n ≤ n' →
    WFSeqs W n ll seqs → WFSeqs W' n' ll seqs := by
  intro seqs
  induction seqs with
  | nil => intro _ _ _ _ _; trivial
  | cons s ss ih =>
    intro n n' ll hn ⟨h1, h2, h3, h4⟩
    exact ⟨h1, h2, by omega, ih _ _ _ (by omega) h4⟩

theorem WFSeqs.mono_fit {m m' : Nat} {seqs : List Seq} (h : SeqsFit m seqs) (hm : m ≤ m') :
    SeqsFit m' seqs := fun s hs => Nat.le_trans (h s hs) hm

theorem SeqsFit.drop {m : Nat} {seqs : List Seq} (h : SeqsFit m seqs) (k : Nat) :
    SeqsFit m (seqs.drop k) := fun s hs => h s (List.mem_of_mem_drop hs)

/-! ## what a decoder is fed -/

/-- one item of a compressed stream as the decoder sees it: a block (`WriteBlock`) or bytes that
    are passed verbatim (`Write`; the parser side skipped them with `Parse(nil)`) -/
inductive DEvent where
  | block (blk : Block)
  | raw (bytes : List Byte)

/-- feed one item to the decoder -/
def Decoder.feed (g : Grow) (d : Decoder) : DEvent → Decoder × Err
  | .block blk => ((d.writeBlock g blk.seqs blk.lits 0 0 0).1, (d.writeBlock g blk.seqs blk.lits 0 0 0).2.2.2.2)
  | .raw p => ((d.write g p 0).1, (d.write g p 0).2.2)

/-- feed the items in order, stopping at the first error -/
def Decoder.feedAll (g : Grow) : Decoder → List DEvent → Decoder × Err
  | d, [] => (d, .ok)
  | d, e :: es => if (d.feed g e).2 = .ok then Decoder.feedAll g (d.feed g e).1 es else d.feed g e

theorem Decoder.feedAll_cons_ok (g : Grow) (d : Decoder) (e : DEvent) (es : List DEvent)
    (h : (d.feed g e).2 = .ok) : d.feedAll g (e :: es) = (d.feed g e).1.feedAll g es := by
  simp only [Decoder.feedAll, h, ↓reduceIte]

theorem Decoder.feedAll_cons_err (g : Grow) (d : Decoder) (e : DEvent) (es : List DEvent)
    (h : (d.feed g e).2 ≠ .ok) : d.feedAll g (e :: es) = d.feed g e := by
  simp only [Decoder.feedAll, h, ↓reduceIte]

theorem Decoder.flush_fst (d : Decoder) : d.flush.1 = d.writeTo.1 := rfl
theorem Decoder.flush_snd (d : Decoder) : d.flush.2 = d.writeTo.2.2 := rfl

/-- reference decoder of a list of items -/
def refDecode : List Byte → List DEvent → Option (List Byte)
  | out, [] => some out
  | out, .block blk :: es =>
    match expand out blk with
    | some out' => refDecode out' es
    | none => none
  | out, .raw p :: es => refDecode (out ++ p) es

/-- the items are well-formed for window size `W` over the history `hist` -/
def WellFormedEvents (W : Nat) : List Byte → List DEvent → Prop
  | _, [] => True
  | h, .block blk :: es => WellFormedBlock W h blk ∧ ∃ h', expand h blk = some h' ∧ WellFormedEvents W h' es
  | h, .raw p :: es => WellFormedEvents W (h ++ p) es

/-- all sequences of all blocks are at most `m` bytes long -/
def EventsFit (m : Nat) : List DEvent → Prop
  | [] => True
  | .block blk :: es => SeqsFit m blk.seqs ∧ EventsFit m es
  | .raw _ :: es => EventsFit m es

theorem EventsFit.mono {m m' : Nat} (hm : m ≤ m') : ∀ es, EventsFit m es → EventsFit m' es := by
  intro es
  induction es with
  | nil => intro _; trivial
  | cons e es ih =>
    cases e with
    | block blk => intro ⟨a, b⟩; exact ⟨WFSeqs.mono_fit a hm, ih b⟩
    | raw p => intro h; exact ih h

theorem expand_length_le {hist h' : List Byte} {blk : Block}
    (hx : expand hist blk = some h') : hist.length ≤ h'.length := by
  unfold expand at hx
  split at hx
  · rename_i out rest ho
    simp only [Option.some.injEq] at hx
    subst hx
    have : ∀ (ss : List Seq) (o l o' r' : List Byte), expandSeqs o l ss = some (o', r') →
        o.length ≤ o'.length := by
      intro ss
      induction ss with
      | nil => intro o l o' r' h; simp only [expandSeqs, Option.some.injEq, Prod.mk.injEq] at h; rw [h.1]; exact Nat.le_refl _
      | cons s ss ih =>
        intro o l o' r' h
        simp only [expandSeqs] at h
        split at h
        · split at h
          · rename_i out' hc
            have h1 := copyRef_len _ _ _ _ hc
            have h2 := ih _ _ _ _ h
            simp only [List.length_append] at h1
            omega
          · cases h
        · cases h
    have := this _ _ _ _ _ ho
    simp only [List.length_append]; omega
  · cases hx

/-- well-formedness of a list of items is monotone in the window size -/
theorem WellFormedEvents.mono {W W' : Nat} (hW : W ≤ W') : ∀ (es : List DEvent) (h : List Byte),
    WellFormedEvents W h es → WellFormedEvents W' h es := by
  intro es
  induction es with
  | nil => intro _ _; trivial
  | cons e es ih =>
    intro h hwf
    cases e with
    | block blk =>
      obtain ⟨h1, h', h2, h3⟩ := hwf
      exact ⟨WFSeqs.mono hW _ _ _ _ (Nat.le_refl _) h1, h', h2, ih h' h3⟩
    | raw p => exact ih _ hwf

/-- a stream of blocks as a list of items -/
theorem wellFormedEvents_blocks (W : Nat) : ∀ (blks : List Block) (h : List Byte),
    WellFormedStream W h blks → WellFormedEvents W h (blks.map .block) := by
  intro blks
  induction blks with
  | nil => intro _ _; trivial
  | cons b bs ih =>
    intro h ⟨h1, h', h2, h3⟩
    exact ⟨h1, h', h2, ih h' h3⟩

theorem refDecode_blocks : ∀ (blks : List Block) (h : List Byte),
    refDecode h (blks.map .block) = expandStream h blks := by
  intro blks
  induction blks with
  | nil => intro _; rfl
  | cons b bs ih =>
    intro h
    simp only [List.map_cons, refDecode, expandStream]
    split <;> simp_all

theorem eventsFit_blocks (m : Nat) : ∀ (blks : List Block),
    (∀ b ∈ blks, SeqsFit m b.seqs) → EventsFit m (blks.map .block) := by
  intro blks
  induction blks with
  | nil => intro _; trivial
  | cons b bs ih =>
    intro h
    exact ⟨h b (by simp), ih (fun b' hb' => h b' (by simp [hb']))⟩

end LZ
