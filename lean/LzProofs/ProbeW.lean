/-
  LzProofs.ProbeW — the word-level byte code of the hash parsers *inside* the parser model.

  The model has two descriptions of the byte comparisons of hp.go, bhp.go, dhp.go, bdhp.go, bup.go:

   (A) `LzModel.Hash`: the match finders `hpProbe`, `dhpProbe`, `bupProbe` compute keys and match
       lengths with the list-level functions `le64At`, `lcpLen`, `lcsLen` (`backExt`);
   (B) `LzModel.BytesW`: the Go text of `_getLE64`, `lcp`, `lcs` and of the match length
       computation inlined in `Parse` (`matchLenInline`), with `Option` for panics, proved equal
       to the list-level functions *in isolation* (LzProofs/BytesProps.lean).

  This file composes them.  `hpProbeW`, `dhpProbeW`, `bupProbeW` are the model's finders in which
  EVERY access to the bytes of the buffer is the Go access:

    * the key            `_getLE64(_p[i:]) & mask`            (`loadKey`, reads up to 7 bytes behind `p`)
    * the match length   the inlined code                     (`BytesW.matchLenInline`)
                         `lcp(p[j:], p[i:])` in bup.go        (`BytesW.lcpW?` on `sliceFrom`)
                         `p[j+k-1] != p[i+k-1]` in bup.go     (`index`, panics out of range)
    * backward extension `lcs(p[j-back:j], p[:i])`            (`backExtW`: `slice`, `BytesW.lcsW?`)
    * re-indexing        `_getLE64(_p[j:]) & mask` per position (`insertRangeW`)

  on the memory `p ++ behind`: `p = s.Data[:W+n]`, `behind` = the bytes physically behind `p` in
  the backing array up to `cap(s.Data)` — the rest of `s.Data` and the stale bytes behind
  `len(s.Data)`, ARBITRARY contents.  Result `none` = the Go code panics.

  Main results (all for ARBITRARY table contents and ARBITRARY `behind` / `stale` bytes):

    hpProbeW_eq, dhpProbeW_eq, bupProbeW_eq
        for `i < inputEnd ≤ len(p) + 1 - inputLen`, `1 ≤ inputLen`, `inputEnd + 7 ≤ cap`
        (`minMatchLen ≤ 8`; DHP/BDHP: `e2 ≤ e1`): the word-level finder does not panic and
        returns what the model's finder returns (new table and match)
    greedyLoopW_eq, runGreedyW_eq, hpRunW_eq, dhpRunW_eq, bupRunW_eq
        the loop of `Parse` run with a word-level finder = the model's `greedyLoop` / `runGreedy`
    processSegment1W_eq, processSegment2W_eq, processSegmentBW_eq
        `processSegment` (hash.go, bucket_hash.go) with its own reslice `f.Data[:b+7]`
    parseW_eq         `Parse(&blk, flags)` of HP, BHP, DHP, BDHP, BUP, word level, on a state with
                      `W ≤ len(Data)`, `1 ≤ InputLen ≤ 8` (`HashDictOK`), the buffer invariant
                      `CapOK` and the physical fact `cap = len(Data) + len(stale)` (`Backing`):
                      `parseW s stale flags = some (s.parse flags)`
    parseW_panic      if the model's guard fails (`¬ MarginOK`, `parse` returns `.panic`), the
                      word-level `Parse` panics
    parseW_reachable, parseNilW_reachable
                      after every history from `NewParser` (five hash kinds), every `stale`
    parseW_stale_irrelevant, hpProbeW_behind_irrelevant

  Subtleties, made explicit:

   1. *Reads behind the block.*  `_p = s.Data[:inputEnd+7]`, `inputEnd = len(p) - inputLen + 1`.
      The loads `_getLE64(_p[i:])`, `_getLE64(_p[j:])` (`j < i < inputEnd`) read the positions
      `i … i+7 ≤ inputEnd+6 = len(p) + 7 - inputLen`: up to `8 - inputLen ≤ 7` bytes behind
      `len(p)`, i.e. bytes of `behind` (later buffer bytes or stale memory).  Key: the mask keeps
      `inputLen` bytes, all inside `p` (`loadKey_eq`).  Match length: the first-word value is
      clamped with `if k > len(p)-i { k = len(p)-i }` — against the BLOCK END `len(p)`, not against
      `inputEnd`; the model's `lcpLen (p.drop j) (p.drop i)` is bounded by `len(p) - i` as well, so
      both agree, and a match found at `i < inputEnd` may extend behind `inputEnd` up to `len(p)`
      in both (`BytesW.matchLen8_eq`; examples with `nines` behind the block below).
   2. *`minMatchLen`.*  Go tests `k < minMatchLen` on the clamped first-word value (`≤ 8`), the
      model on the full length; equal for `minMatchLen ≤ 8` (the parsers have `min 3 inputLen`).
   3. *DHP / BDHP* use `_p = s.Data[:e1+7]` in both loops: the first loop (`i < e2`) is inside `_p`
      only for `e2 ≤ e1`, i.e. `InputLen1 ≤ InputLen2` (`Verify` demands `<`; an example shows the
      panic otherwise).
   4. *BUP*: `p[j+k-1]`, `p[i+k-1]` are index expressions (panic behind `len(p)`); they are in range
      because the running best `k` is a match length at `i` (`bupScanW_eq` carries `k ≤ len(p)-i`).
   5. *`processSegment`* reslices `f.Data[:b+7]` itself.  The model's guard in `parse`
      (`MarginOK`) covers only the reslice of `Parse`; `processSegment` needs `CapOK`, which holds
      in every reachable state.  Outside `CapOK` model and Go differ: `exOdd` below (checked
      against the Go library: "slice bounds out of range [:16] with capacity 15").
   6. Table accesses (`table[h]`, buckets) stay `getD` / `setIfInBounds` as in the model; their
      range safety is `C16_table_access` (LzProofs/SafeTables.lean).
-/
import LzModel.BytesW
import LzModel.Parser
import LzProofs.BytesProps
import LzProofs.ParseParser
import LzProofs.RunsBdhp
import LzProofs.RunsBucket
namespace LZ.ProbeW
open LZ.BytesW

/-! ## 1. Go memory accesses -/

/-- `p[lo:hi]` for a slice `p` with the bytes `behind` inside its capacity: legal for
    `lo ≤ hi ≤ cap(p)` -/
def slice (p behind : List Byte) (lo hi : Nat) : Option (List Byte) :=
  if lo ≤ hi ∧ hi ≤ (p ++ behind).length then some (((p ++ behind).take hi).drop lo) else none

/-- `p[i]` (panics for `i ≥ len(p)`; an index expression never sees the capacity) -/
def index (p : List Byte) (i : Nat) : Option Byte := p[i]?

/-- `_getLE64(_p[i:]) & mask` -/
def loadKey (_p : List Byte) (inputLen i : Nat) : Option UInt64 := do
  let y ← le64 (← sliceFrom _p i)
  return y &&& maskOf inputLen

/-! ## 2. table updates with word-level keys -/

/-- `x := _getLE64(_p[i:]) & mask; table[hashValue(x, shift)] = hashEntry{pos: i, value: uint32(x)}` -/
def insertW (h : HashT) (_p : List Byte) (i : Nat) : Option HashT := do
  let x ← loadKey _p h.inputLen i
  return { h with tbl := h.tbl.setIfInBounds (hashValue x h.hashBits) (i, lo32 x) }

/-- `for j = a; j < a+n; j++ { … }` -/
def insertRangeW (h : HashT) (_p : List Byte) (a : Nat) : Nat → Option HashT
  | 0 => some h
  | n + 1 => do insertRangeW (← insertW h _p a) _p (a + 1) n

/-- `x := _getLE64(_p[i:]) & mask; s.add(hashValue(x, shift), i, uint32(x))` -/
def binsertW (b : BucketT) (_p : List Byte) (i : Nat) : Option BucketT := do
  let x ← loadKey _p b.inputLen i
  return b.add (hashValue x b.hashBits) i (lo32 x)

def binsertRangeW (b : BucketT) (_p : List Byte) (a : Nat) : Nat → Option BucketT
  | 0 => some b
  | n + 1 => do binsertRangeW (← binsertW b _p a) _p (a + 1) n

/-! ## 3. the finders -/

/-- `if back := i - litIndex; back > 0 { if back > j { back = j }; m := lcs(p[j-back:j], p[:i]) }` -/
def backExtW (p behind : List Byte) (i li j : Nat) : Option Nat :=
  if i > li then do
    let back := i - li
    let back := if back > j then j else back
    lcsW? (← slice p behind (j - back) j) (← slice p behind 0 i)
  else some 0

/-- one iteration of the loop of hp.go (`back = false`) / bhp.go (`back = true`) -/
def hpProbeW (ws minMatch inputEnd : Nat) (back : Bool) (behind : List Byte)
    (h : HashT) (p : List Byte) (i li : Nat) : Option (HashT × Option (Nat × Nat × Nat)) := do
  let _p ← sliceTo p behind (inputEnd + 7)
  let x ← loadKey _p h.inputLen i
  let idx := hashValue x h.hashBits
  let entry := h.tbl.getD idx (0, 0)
  let v := lo32 x
  let h1 : HashT := { h with tbl := h.tbl.setIfInBounds idx (i, v) }
  if v ≠ entry.2 then return (h1, none)
  let j := entry.1
  if ¬ (j < i ∧ i - j ≤ ws) then return (h1, none)
  match ← matchLenInline p behind inputEnd minMatch i j with
  | none => return (h1, none)
  | some k =>
    let m ← if back then backExtW p behind i li j else pure 0
    let s := i - m
    let k := k + m
    let b := min (s + k) inputEnd
    let h2 ← insertRangeW h1 _p (s + 1) (b - (s + 1))
    return (h2, some (s, k, i - j))

/-- one iteration of the loops of dhp.go (`back = false`) / bdhp.go (`back = true`);
    `_p = s.Data[:e1+7]` in both loops -/
def dhpProbeW (ws minMatch e1 e2 : Nat) (back : Bool) (behind : List Byte)
    (d : Hash2) (p : List Byte) (i li : Nat) : Option (Hash2 × Option (Nat × Nat × Nat)) := do
  let _p ← sliceTo p behind (e1 + 7)
  if i < e2 then
    let x2 ← loadKey _p d.h2.inputLen i
    let idx2 := hashValue x2 d.h2.hashBits
    let entry2 := d.h2.tbl.getD idx2 (0, 0)
    let v2 := lo32 x2
    let t2 : HashT := { d.h2 with tbl := d.h2.tbl.setIfInBounds idx2 (i, v2) }
    let x1 ← loadKey _p d.h1.inputLen i
    let idx1 := hashValue x1 d.h1.hashBits
    let entry1 := d.h1.tbl.getD idx1 (0, 0)
    let v1 := lo32 x1
    let t1 : HashT := { d.h1 with tbl := d.h1.tbl.setIfInBounds idx1 (i, v1) }
    let d1 : Hash2 := { h1 := t1, h2 := t2 }
    let cand : Option (Nat × Nat) :=
      if v2 ≠ entry2.2 then (if v1 ≠ entry1.2 then none else some entry1) else some entry2
    match cand with
    | none => return (d1, none)
    | some entry =>
      let j := entry.1
      if ¬ (j < i ∧ i - j ≤ ws) then return (d1, none)
      match ← matchLenInline p behind e1 minMatch i j with
      | none => return (d1, none)
      | some k =>
        let m ← if back then backExtW p behind i li j else pure 0
        let s := i - m
        let k := k + m
        let li' := s + k
        let n1 := min li' e1 - (s + 1)
        let n2 := min li' e2 - (s + 1)
        let t1' ← insertRangeW t1 _p (s + 1) n1
        let t2' ← if back then pure t2 else insertRangeW t2 _p (s + 1) n2
        return ({ h1 := t1', h2 := t2' }, some (s, k, i - j))
  else
    let x1 ← loadKey _p d.h1.inputLen i
    let idx1 := hashValue x1 d.h1.hashBits
    let entry := d.h1.tbl.getD idx1 (0, 0)
    let v1 := lo32 x1
    let t1 : HashT := { d.h1 with tbl := d.h1.tbl.setIfInBounds idx1 (i, v1) }
    let d1 : Hash2 := { d with h1 := t1 }
    if v1 ≠ entry.2 then return (d1, none)
    let j := entry.1
    if ¬ (j < i ∧ i - j ≤ ws) then return (d1, none)
    match ← matchLenInline p behind e1 minMatch i j with
    | none => return (d1, none)
    | some k =>
      let m ← if back then backExtW p behind i li j else pure 0
      let s := i - m
      let k := k + m
      let b := min (s + k) e1
      let t1' ← insertRangeW t1 _p j (b - j)
      return ({ d1 with h1 := t1' }, some (s, k, i - j))

/-- `for _, e := range s.bucket(h) { … }` of bup.go: `p[j+k-1] != p[i+k-1]` are index expressions,
    `ke := lcp(p[j:], p[i:])` -/
def bupScanW (bk : BucketT) (p : List Byte) (i ws v base : Nat) :
    List Nat → Nat → Nat → Option (Nat × Nat)
  | [], o, k => some (o, k)
  | s :: rest, o, k =>
    let e := bk.buckets.getD (base + s) (0, 0)
    if v ≠ e.2 then bupScanW bk p i ws v base rest o k
    else
      let j := e.1
      if ¬ (j < i ∧ i - j ≤ ws) then bupScanW bk p i ws v base rest o k
      else do
        let differ ← if k > 0 then do
            let a ← index p (j + k - 1)
            let b ← index p (i + k - 1)
            pure (a != b)
          else pure false
        if differ then bupScanW bk p i ws v base rest o k
        else
          let ke ← lcpW? (← sliceFrom p j) (← sliceFrom p i)
          if ke < k ∨ (ke = k ∧ i - j ≥ o) then bupScanW bk p i ws v base rest o k
          else bupScanW bk p i ws v base rest (i - j) ke

/-- one iteration of the loop of bup.go -/
def bupProbeW (ws minMatch inputEnd : Nat) (behind : List Byte)
    (bk : BucketT) (p : List Byte) (i _li : Nat) : Option (BucketT × Option (Nat × Nat × Nat)) := do
  let _p ← sliceTo p behind (inputEnd + 7)
  let x ← loadKey _p bk.inputLen i
  let h := hashValue x bk.hashBits
  let v := lo32 x
  let (o, k) ← bupScanW bk p i ws v (h * bk.bucketSize) (List.range bk.bucketSize) 0 0
  let bk1 := bk.add h i v
  if k < minMatch then return (bk1, none)
  let b := min (i + k) inputEnd
  let bk2 ← binsertRangeW bk1 _p (i + 1) (b - (i + 1))
  return (bk2, some (i, k, o))

/-! ## 4. the accesses stay inside the capacity and do not depend on `behind` -/

theorem slice_eq_some (p behind : List Byte) (lo hi : Nat) (h1 : lo ≤ hi) (h2 : hi ≤ p.length) :
    slice p behind lo hi = some ((p.take hi).drop lo) := by
  unfold slice
  rw [if_pos ⟨h1, by rw [List.length_append]; omega⟩, List.take_append_of_le_length h2]

theorem index_eq_some (p : List Byte) (i : Nat) (h : i < p.length) : index p i = some p[i] := by
  unfold index; exact List.getElem?_eq_getElem h

/-- the key load through `_p = s.Data[:inputEnd+7]`: for `i < inputEnd` no panic, and the masked
    value is the model's key — whatever the (at most 7) bytes read behind `p` contain -/
theorem loadKey_eq (p behind : List Byte) (e n i : Nat) (hcap : e + 7 ≤ (p ++ behind).length)
    (hi : i < e) (h : i + min n 8 ≤ p.length) :
    loadKey ((p ++ behind).take (e + 7)) n i = some (le64At p i &&& maskOf n) := by
  unfold loadKey
  have hlen : ((p ++ behind).take (e + 7)).length = e + 7 := by rw [List.length_take]; omega
  rw [sliceFrom_eq_some _ i (by omega)]
  obtain ⟨y, hy, hyv⟩ := le64_eq_some' (((p ++ behind).take (e + 7)).drop i)
    (by rw [List.length_drop, hlen]; omega)
  simp only [hy, bind, Option.bind, pure]
  congr 1
  apply UInt64.toNat_inj.1
  rw [and_maskOf_toNat, and_maskOf_toNat, hyv, le64At_toNat, ← leNat_take, ← leNat_take,
    List.take_take, List.take_take, Nat.min_eq_left (Nat.min_le_right _ _),
    window_eq p behind (e + 7) i (min n 8) h (by omega)]

theorem insertW_eq (hsh : HashT) (p behind : List Byte) (e i : Nat)
    (hcap : e + 7 ≤ (p ++ behind).length) (hi : i < e) (h : i + min hsh.inputLen 8 ≤ p.length) :
    insertW hsh ((p ++ behind).take (e + 7)) i = some (hsh.insert p i) := by
  unfold insertW
  rw [loadKey_eq p behind e _ i hcap hi h]
  rfl

theorem insert_inputLen (hsh : HashT) (p : List Byte) (i : Nat) :
    (hsh.insert p i).inputLen = hsh.inputLen := rfl

/-- re-indexing positions `a, …, a+n-1`, all `< e` and with their `inputLen` bytes inside `p` -/
theorem insertRangeW_eq (p behind : List Byte) (e : Nat) (hcap : e + 7 ≤ (p ++ behind).length) :
    ∀ (n a : Nat) (hsh : HashT),
      (n = 0 ∨ (a + n ≤ e ∧ a + n + min hsh.inputLen 8 ≤ p.length + 1)) →
      insertRangeW hsh ((p ++ behind).take (e + 7)) a n = some (hsh.insertRange p a n) := by
  intro n
  induction n with
  | zero => intro a hsh _; rfl
  | succ n ih =>
    intro a hsh hn
    have hn' : a + (n + 1) ≤ e ∧ a + (n + 1) + min hsh.inputLen 8 ≤ p.length + 1 := by omega
    unfold insertRangeW HashT.insertRange
    rw [insertW_eq hsh p behind e a hcap (by omega) (by omega)]
    simp only [bind, Option.bind]
    exact ih (a + 1) _ (by rw [insert_inputLen]; omega)

theorem binsertW_eq (bk : BucketT) (p behind : List Byte) (e i : Nat)
    (hcap : e + 7 ≤ (p ++ behind).length) (hi : i < e) (h : i + min bk.inputLen 8 ≤ p.length) :
    binsertW bk ((p ++ behind).take (e + 7)) i = some (bk.insert p i) := by
  unfold binsertW
  rw [loadKey_eq p behind e _ i hcap hi h]
  rfl

theorem binsert_inputLen (bk : BucketT) (p : List Byte) (i : Nat) :
    (bk.insert p i).inputLen = bk.inputLen := rfl

theorem binsertRangeW_eq (p behind : List Byte) (e : Nat) (hcap : e + 7 ≤ (p ++ behind).length) :
    ∀ (n a : Nat) (bk : BucketT),
      (n = 0 ∨ (a + n ≤ e ∧ a + n + min bk.inputLen 8 ≤ p.length + 1)) →
      binsertRangeW bk ((p ++ behind).take (e + 7)) a n = some (bk.insertRange p a n) := by
  intro n
  induction n with
  | zero => intro a bk _; rfl
  | succ n ih =>
    intro a bk hn
    have hn' : a + (n + 1) ≤ e ∧ a + (n + 1) + min bk.inputLen 8 ≤ p.length + 1 := by omega
    unfold binsertRangeW BucketT.insertRange
    rw [binsertW_eq bk p behind e a hcap (by omega) (by omega)]
    simp only [bind, Option.bind]
    exact ih (a + 1) _ (by rw [binsert_inputLen]; omega)

/-- the backward extension of bhp.go / bdhp.go: the two slice expressions are in range for
    `j < i ≤ len(p)`, `lcs` does not panic, and the result is the model's `backExt` -/
theorem backExtW_eq (p behind : List Byte) (i li j : Nat) (hj : j ≤ i) (hi : i ≤ p.length) :
    backExtW p behind i li j = some (backExt p i li j) := by
  unfold backExtW backExt
  split
  · have hmin : (if i - li > j then j else i - li) = min (i - li) j := by split <;> omega
    simp only [hmin]
    rw [slice_eq_some p behind _ j (by omega) (by omega), slice_eq_some p behind 0 i (by omega) hi]
    simp only [bind, Option.bind, List.drop_zero]
    exact lcsW?_eq _ _
  · rfl

/-! ## 5. the finders -/

/-- the result of the inlined match length computation in the form of the model's finders -/
theorem matchLenInline_model (p behind : List Byte) (e mm i j : Nat)
    (hj : j < i) (hi : i < e) (hE : e ≤ p.length) (hcap : e + 7 ≤ (p ++ behind).length)
    (hmm : mm ≤ 8) :
    matchLenInline p behind e mm i j =
      some (if lcpLen (p.drop j) (p.drop i) < mm then none else some (lcpLen (p.drop j) (p.drop i))) :=
  matchLenInline_eq_probe p behind e mm i j hj hi hE hcap hmm


/-- … in terms of the model's `HashT.key` / `BucketT.key` -/
theorem loadKey_key (hsh : HashT) (p behind : List Byte) (e i : Nat)
    (hcap : e + 7 ≤ (p ++ behind).length) (hi : i < e) (h : i + min hsh.inputLen 8 ≤ p.length) :
    loadKey ((p ++ behind).take (e + 7)) hsh.inputLen i = some (hsh.key p i) :=
  loadKey_eq p behind e _ i hcap hi h

theorem loadKey_bkey (bk : BucketT) (p behind : List Byte) (e i : Nat)
    (hcap : e + 7 ≤ (p ++ behind).length) (hi : i < e) (h : i + min bk.inputLen 8 ≤ p.length) :
    loadKey ((p ++ behind).take (e + 7)) bk.inputLen i = some (bk.key p i) :=
  loadKey_eq p behind e _ i hcap hi h

/-- **HP / BHP.**  One iteration of the loop of `Parse` at a position `i < inputEnd`: the Go byte
    code (`_getLE64` loads through `_p`, inlined match length, `lcs`) does not panic and computes
    exactly the model's `hpProbe` — for every table `h`, every `li`, every `behind`. -/
theorem hpProbeW_eq (ws mm inputEnd : Nat) (back : Bool) (behind : List Byte)
    (h : HashT) (p : List Byte) (i li : Nat)
    (hcap : inputEnd + 7 ≤ (p ++ behind).length) (hi : i < inputEnd)
    (hil : 1 ≤ h.inputLen) (hE : inputEnd ≤ p.length + 1 - h.inputLen) (hmm : mm ≤ 8) :
    hpProbeW ws mm inputEnd back behind h p i li = some (hpProbe ws mm inputEnd back h p i li) := by
  unfold hpProbeW hpProbe
  simp only [Option.bind_eq_bind, Option.pure_def]
  rw [sliceTo_eq_some _ _ _ hcap, Option.bind_some,
    loadKey_key h p behind inputEnd i hcap hi (by omega), Option.bind_some]
  generalize h.key p i = x
  generalize h.tbl.getD (hashValue x h.hashBits) (0, 0) = entry
  by_cases hv : lo32 x ≠ entry.2
  · simp only [if_pos hv]
  simp only [if_neg hv]
  by_cases hw : ¬ (entry.1 < i ∧ i - entry.1 ≤ ws)
  · simp only [if_pos hw]
  simp only [if_neg hw]
  have hw' := Decidable.not_not.mp hw
  rw [matchLenInline_model p behind inputEnd mm i _ hw'.1 hi (by omega) hcap hmm, Option.bind_some]
  by_cases hk : lcpLen (p.drop entry.1) (p.drop i) < mm
  · simp only [if_pos hk]
  simp only [if_neg hk]
  cases back
  · simp only [Bool.false_eq_true, if_false, Option.bind_some]
    rw [insertRangeW_eq p behind inputEnd hcap _ _ _ (by simp only []; omega),
      Option.bind_some]
  · simp only [if_true]
    rw [backExtW_eq p behind i li _ (by omega) (by omega), Option.bind_some,
      insertRangeW_eq p behind inputEnd hcap _ _ _ (by simp only []; omega),
      Option.bind_some]

/-- **DHP / BDHP.**  One iteration of either loop of `Parse` (`i < e2`: both tables; `e2 ≤ i < e1`:
    the table of the short hash only) — no panic, result = the model's `dhpProbe`. -/
theorem dhpProbeW_eq (ws mm e1 e2 : Nat) (back : Bool) (behind : List Byte)
    (d : Hash2) (p : List Byte) (i li : Nat)
    (hcap : e1 + 7 ≤ (p ++ behind).length) (hi : i < e1) (he : e2 ≤ e1)
    (hil : 1 ≤ d.h1.inputLen) (hE1 : e1 ≤ p.length + 1 - d.h1.inputLen)
    (hE2 : e2 ≤ p.length + 1 - d.h2.inputLen) (hmm : mm ≤ 8) :
    dhpProbeW ws mm e1 e2 back behind d p i li = some (dhpProbe ws mm e1 e2 back d p i li) := by
  unfold dhpProbeW dhpProbe
  simp only [Option.bind_eq_bind, Option.pure_def]
  rw [sliceTo_eq_some _ _ _ hcap, Option.bind_some]
  by_cases hi2 : i < e2
  · simp only [if_pos hi2]
    rw [loadKey_key d.h2 p behind e1 i hcap hi (by omega), Option.bind_some,
      loadKey_key d.h1 p behind e1 i hcap hi (by omega), Option.bind_some]
    generalize d.h2.key p i = x2
    generalize d.h1.key p i = x1
    generalize d.h2.tbl.getD (hashValue x2 d.h2.hashBits) (0, 0) = entry2
    generalize d.h1.tbl.getD (hashValue x1 d.h1.hashBits) (0, 0) = entry1
    generalize (if lo32 x2 ≠ entry2.2 then (if lo32 x1 ≠ entry1.2 then none else some entry1)
      else some entry2) = cand
    cases cand with
    | none => rfl
    | some entry =>
      simp only []
      by_cases hw : ¬ (entry.1 < i ∧ i - entry.1 ≤ ws)
      · simp only [if_pos hw]
      simp only [if_neg hw]
      have hw' := Decidable.not_not.mp hw
      rw [matchLenInline_model p behind e1 mm i _ hw'.1 hi (by omega) hcap hmm, Option.bind_some]
      by_cases hk : lcpLen (p.drop entry.1) (p.drop i) < mm
      · simp only [if_pos hk]
      simp only [if_neg hk]
      cases back
      · simp only [Bool.false_eq_true, if_false, Option.bind_some]
        rw [insertRangeW_eq p behind e1 hcap _ _ _ (by simp only []; omega), Option.bind_some,
          insertRangeW_eq p behind e1 hcap _ _ _ (by simp only []; omega), Option.bind_some]
      · simp only [if_true]
        rw [backExtW_eq p behind i li _ (by omega) (by omega), Option.bind_some,
          insertRangeW_eq p behind e1 hcap _ _ _ (by simp only []; omega), Option.bind_some,
          Option.bind_some]
  · simp only [if_neg hi2]
    rw [loadKey_key d.h1 p behind e1 i hcap hi (by omega), Option.bind_some]
    generalize d.h1.key p i = x1
    generalize d.h1.tbl.getD (hashValue x1 d.h1.hashBits) (0, 0) = entry
    by_cases hv : lo32 x1 ≠ entry.2
    · simp only [if_pos hv]
    simp only [if_neg hv]
    by_cases hw : ¬ (entry.1 < i ∧ i - entry.1 ≤ ws)
    · simp only [if_pos hw]
    simp only [if_neg hw]
    have hw' := Decidable.not_not.mp hw
    rw [matchLenInline_model p behind e1 mm i _ hw'.1 hi (by omega) hcap hmm, Option.bind_some]
    by_cases hk : lcpLen (p.drop entry.1) (p.drop i) < mm
    · simp only [if_pos hk]
    simp only [if_neg hk]
    cases back
    · simp only [Bool.false_eq_true, if_false, Option.bind_some]
      rw [insertRangeW_eq p behind e1 hcap _ _ _ (by simp only []; omega), Option.bind_some]
    · simp only [if_true]
      rw [backExtW_eq p behind i li _ (by omega) (by omega), Option.bind_some,
        insertRangeW_eq p behind e1 hcap _ _ _ (by simp only []; omega), Option.bind_some]

/-- the scan over one bucket in bup.go: the two index expressions `p[j+k-1]`, `p[i+k-1]` are in
    range because the running best length `k` is a match length at `i` (`k ≤ len(p) - i`), `lcp`
    does not panic; the result is the model's `bupScan` -/
theorem bupScanW_eq (bk : BucketT) (p : List Byte) (i ws v base : Nat) (hi : i ≤ p.length) :
    ∀ (slots : List Nat) (o k : Nat), k ≤ p.length - i →
      bupScanW bk p i ws v base slots o k = some (bupScan bk p i ws v base slots o k) := by
  intro slots
  induction slots with
  | nil => intro o k _; rfl
  | cons s rest ih =>
    intro o k hk
    unfold bupScanW bupScan
    simp only [Option.bind_eq_bind, Option.pure_def]
    generalize bk.buckets.getD (base + s) (0, 0) = e
    by_cases hv : v ≠ e.2
    · simp only [if_pos hv]; exact ih o k hk
    simp only [if_neg hv]
    by_cases hw : ¬ (e.1 < i ∧ i - e.1 ≤ ws)
    · simp only [if_pos hw]; exact ih o k hk
    simp only [if_neg hw]
    have hw' := Decidable.not_not.mp hw
    have hlcp : (sliceFrom p e.1).bind (fun a => (sliceFrom p i).bind fun b => lcpW? a b) =
        some (lcpLen (p.drop e.1) (p.drop i)) := by
      rw [sliceFrom_eq_some p e.1 (by omega), Option.bind_some, sliceFrom_eq_some p i hi,
        Option.bind_some, lcpW?_eq]
    have hle : lcpLen (p.drop e.1) (p.drop i) ≤ p.length - i := by
      have := lcpLen_le_right (p.drop e.1) (p.drop i)
      rw [List.length_drop] at this; exact this
    have tail : ((sliceFrom p e.1).bind fun a => (sliceFrom p i).bind fun b => (lcpW? a b).bind fun ke =>
          if ke < k ∨ ke = k ∧ i - e.1 ≥ o then bupScanW bk p i ws v base rest o k
          else bupScanW bk p i ws v base rest (i - e.1) ke) =
        some (if lcpLen (p.drop e.1) (p.drop i) < k ∨
              lcpLen (p.drop e.1) (p.drop i) = k ∧ i - e.1 ≥ o then bupScan bk p i ws v base rest o k
          else bupScan bk p i ws v base rest (i - e.1) (lcpLen (p.drop e.1) (p.drop i))) := by
      rw [sliceFrom_eq_some p e.1 (by omega), Option.bind_some, sliceFrom_eq_some p i hi,
        Option.bind_some, lcpW?_eq, Option.bind_some]
      split
      · exact ih o k hk
      · exact ih _ _ hle
    by_cases hk0 : k > 0
    · simp only [if_pos hk0]
      obtain ⟨a, ha⟩ : ∃ a, p[e.1 + k - 1]? = some a :=
        ⟨_, List.getElem?_eq_getElem (by omega : e.1 + k - 1 < p.length)⟩
      obtain ⟨b, hb⟩ : ∃ b, p[i + k - 1]? = some b :=
        ⟨_, List.getElem?_eq_getElem (by omega : i + k - 1 < p.length)⟩
      simp only [index, ha, hb, Option.bind_some]
      by_cases hab : a = b
      · subst hab
        simp only [bne_self_eq_false, Bool.false_eq_true, if_false, ne_eq, not_true_eq_false,
          and_false]
        exact tail
      · have h1 : (a != b) = true := by simpa using hab
        have h2 : k > 0 ∧ some a ≠ some b := ⟨hk0, by simpa using hab⟩
        simp only [h1, if_true, if_pos h2]
        exact ih o k hk
    · simp only [if_neg hk0, Option.bind_some, Bool.false_eq_true, if_false]
      have h2 : ¬ (k > 0 ∧ p[e.1 + k - 1]? ≠ p[i + k - 1]?) := fun h => hk0 h.1
      simp only [if_neg h2]
      exact tail

/-- **BUP.**  One iteration of the loop of `Parse`: key load through `_p`, the bucket scan with
    `lcp` and the two index expressions, re-indexing — no panic, result = the model's `bupProbe`. -/
theorem bupProbeW_eq (ws mm inputEnd : Nat) (behind : List Byte)
    (bk : BucketT) (p : List Byte) (i li : Nat)
    (hcap : inputEnd + 7 ≤ (p ++ behind).length) (hi : i < inputEnd)
    (hil : 1 ≤ bk.inputLen) (hE : inputEnd ≤ p.length + 1 - bk.inputLen) :
    bupProbeW ws mm inputEnd behind bk p i li = some (bupProbe ws mm inputEnd bk p i li) := by
  unfold bupProbeW bupProbe
  simp only [Option.bind_eq_bind, Option.pure_def]
  rw [sliceTo_eq_some _ _ _ hcap, Option.bind_some,
    loadKey_bkey bk p behind inputEnd i hcap hi (by omega), Option.bind_some,
    bupScanW_eq bk p i ws _ _ (by omega) _ 0 0 (Nat.zero_le _), Option.bind_some]
  generalize bk.key p i = x
  generalize bupScan bk p i ws (lo32 x) (hashValue x bk.hashBits * bk.bucketSize)
    (List.range bk.bucketSize) 0 0 = r
  obtain ⟨o, k⟩ := r
  simp only []
  by_cases hk : k < mm
  · simp only [if_pos hk]
  simp only [if_neg hk]
  rw [binsertRangeW_eq p behind inputEnd hcap _ _ _ (by
    have : (bk.add (hashValue x bk.hashBits) i (lo32 x)).inputLen = bk.inputLen := rfl
    rw [this]; omega), Option.bind_some]

/-! ## 6. the loop of `Parse` with a word-level finder -/

/-- `greedyLoop` (LzModel/Loop.lean) for a finder that may panic: a panic ends the run -/
def greedyLoopW {δ} (f : δ → List Byte → Nat → Nat → Option (δ × Option (Nat × Nat × Nat)))
    (p : List Byte) (stop : Nat) (st : LoopSt δ) : Option (LoopSt δ) :=
  if _h : st.i < stop then
    match _hp : f st.dict p st.i st.litIndex with
    | none => none
    | some (d, none) => greedyLoopW f p stop { st with dict := d, i := st.i + 1 }
    | some (d, some (s, k, o)) =>
      if _hk : s + k > st.i then
        let q := (p.drop st.litIndex).take (s - st.litIndex)
        greedyLoopW f p stop
          { dict := d, i := s + k, litIndex := s + k,
            seqs := st.seqs ++ [{ litLen := q.length, matchLen := k, offset := o }],
            lits := st.lits ++ q }
      else some { st with dict := d, i := stop }
  else some st
termination_by stop - st.i
decreasing_by all_goals simp_wf; all_goals omega

/-- `Parser.runGreedy` with a word-level finder -/
def runGreedyW {δ} (f : δ → List Byte → Nat → Nat → Option (δ × Option (Nat × Nat × Nat)))
    (d : δ) (p : List Byte) (w stop flags : Nat) : Option (δ × Nat × Block × Nat) := do
  let st ← greedyLoopW f p stop { dict := d, i := w, litIndex := w, seqs := [], lits := [] }
  let r := finishBlock p flags st
  return (st.dict, r.1, r.2, st.litIndex)

theorem greedyLoopW_done {δ} (f : δ → List Byte → Nat → Nat → Option (δ × Option (Nat × Nat × Nat)))
    (p : List Byte) (stop : Nat) (st : LoopSt δ) (h : ¬ st.i < stop) :
    greedyLoopW f p stop st = some st := by
  rw [greedyLoopW]; simp only [h, dite_false]

theorem greedyLoopW_none {δ} (f : δ → List Byte → Nat → Nat → Option (δ × Option (Nat × Nat × Nat)))
    (p : List Byte) (stop : Nat) (st : LoopSt δ) (d : δ) (h : st.i < stop)
    (hp : f st.dict p st.i st.litIndex = some (d, none)) :
    greedyLoopW f p stop st = greedyLoopW f p stop { st with dict := d, i := st.i + 1 } := by
  rw [greedyLoopW]; simp only [h, dite_true]
  split
  · rename_i heq; rw [hp] at heq; cases heq
  · rename_i d2 heq; rw [hp] at heq; cases heq; rfl
  · rename_i d2 s2 k2 o2 heq; rw [hp] at heq; cases heq

theorem greedyLoopW_some {δ} (f : δ → List Byte → Nat → Nat → Option (δ × Option (Nat × Nat × Nat)))
    (p : List Byte) (stop : Nat) (st : LoopSt δ) (d : δ) (s k o : Nat) (h : st.i < stop)
    (hp : f st.dict p st.i st.litIndex = some (d, some (s, k, o))) (hk : s + k > st.i) :
    greedyLoopW f p stop st = greedyLoopW f p stop
      { dict := d, i := s + k, litIndex := s + k,
        seqs := st.seqs ++ [{ litLen := ((p.drop st.litIndex).take (s - st.litIndex)).length,
                              matchLen := k, offset := o }],
        lits := st.lits ++ (p.drop st.litIndex).take (s - st.litIndex) } := by
  rw [greedyLoopW]; simp only [h, dite_true]
  split
  · rename_i heq; rw [hp] at heq; cases heq
  · rename_i d2 heq; rw [hp] at heq; cases heq
  · rename_i d2 s2 k2 o2 heq; rw [hp] at heq; cases heq
    simp only [hk, dite_true]

theorem greedyLoopW_bad {δ} (f : δ → List Byte → Nat → Nat → Option (δ × Option (Nat × Nat × Nat)))
    (p : List Byte) (stop : Nat) (st : LoopSt δ) (d : δ) (s k o : Nat) (h : st.i < stop)
    (hp : f st.dict p st.i st.litIndex = some (d, some (s, k, o))) (hk : ¬ s + k > st.i) :
    greedyLoopW f p stop st = some { st with dict := d, i := stop } := by
  rw [greedyLoopW]; simp only [h, dite_true]
  split
  · rename_i heq; rw [hp] at heq; cases heq
  · rename_i d2 heq; rw [hp] at heq; cases heq
  · rename_i d2 s2 k2 o2 heq; rw [hp] at heq; cases heq
    simp only [hk, dite_false]

theorem greedyLoop_bad {δ} (F : Finder δ) (p : List Byte) (stop : Nat) (st : LoopSt δ) (d : δ)
    (s k o : Nat) (h : st.i < stop) (hp : F.probe st.dict p st.i st.litIndex = (d, some (s, k, o)))
    (hk : ¬ s + k > st.i) :
    greedyLoop F p stop st = { st with dict := d, i := stop } := by
  rw [greedyLoop]; simp only [h, dite_true]
  split
  · rename_i d2 heq; rw [hp] at heq; simp at heq
  · rename_i d2 s2 k2 o2 heq
    rw [hp] at heq
    simp only [Prod.mk.injEq, Option.some.injEq] at heq
    obtain ⟨hd, hs, hk2, ho⟩ := heq
    subst hd hs hk2 ho
    simp only [hk, dite_false]

/-- If the word-level finder agrees with the finder `F` at all positions `< stop` for all
    dictionaries satisfying an invariant `P` of `F`, the two loops agree (and no panic occurs). -/
theorem greedyLoopW_eq {δ} (F : Finder δ)
    (f : δ → List Byte → Nat → Nat → Option (δ × Option (Nat × Nat × Nat)))
    (p : List Byte) (stop : Nat) (P : δ → Prop)
    (hP : ∀ d i li, P d → P (F.probe d p i li).1)
    (hf : ∀ d i li, P d → i < stop → f d p i li = some (F.probe d p i li)) :
    ∀ st : LoopSt δ, P st.dict → greedyLoopW f p stop st = some (greedyLoop F p stop st) := by
  intro st
  induction st using greedyLoop.induct F p stop with
  | case1 st h d hp ih =>
    intro hd
    have hpd : P d := by have := hP st.dict st.i st.litIndex hd; rw [hp] at this; exact this
    rw [greedyLoop_none F p stop st d h hp,
      greedyLoopW_none f p stop st d h (by rw [hf _ _ _ hd h, hp])]
    exact ih hpd
  | case2 st h d s k o hp hk q ih =>
    intro hd
    have hpd : P d := by have := hP st.dict st.i st.litIndex hd; rw [hp] at this; exact this
    rw [greedyLoop_some F p stop st d s k o h hp hk,
      greedyLoopW_some f p stop st d s k o h (by rw [hf _ _ _ hd h, hp]) hk]
    exact ih hpd
  | case3 st h d s k o hp hk =>
    intro hd
    rw [greedyLoop_bad F p stop st d s k o h hp hk,
      greedyLoopW_bad f p stop st d s k o h (by rw [hf _ _ _ hd h, hp]) hk]
  | case4 st h =>
    intro _
    rw [greedyLoop_done F p stop st h, greedyLoopW_done f p stop st h]

theorem runGreedyW_eq {δ} (F : Finder δ)
    (f : δ → List Byte → Nat → Nat → Option (δ × Option (Nat × Nat × Nat)))
    (p : List Byte) (stop : Nat) (P : δ → Prop)
    (hP : ∀ d i li, P d → P (F.probe d p i li).1)
    (hf : ∀ d i li, P d → i < stop → f d p i li = some (F.probe d p i li))
    (d : δ) (hd : P d) (w flags : Nat) :
    runGreedyW f d p w stop flags = some (Parser.runGreedy F d p w stop flags) := by
  unfold runGreedyW Parser.runGreedy
  simp only [Option.bind_eq_bind, Option.pure_def]
  rw [greedyLoopW_eq F f p stop P hP hf _ hd, Option.bind_some]

/-! ## 7. `processSegment` (hash.go, bucket_hash.go) with word-level keys

  `data = f.Data`, `stale` = the bytes behind `len(f.Data)` up to the capacity. -/

/-- `hashDictionary.processSegment(a, b)`: `_p := f.Data[:b+7]` -/
def processSegment1W (h : HashT) (data stale : List Byte) (a b : Int) : Option HashT :=
  let a := if a < 0 then 0 else a
  let c : Int := (data.length : Int) - h.inputLen + 1
  let b := if c < b then c else b
  if b ≤ 0 then some h
  else do
    let _p ← sliceTo data stale (b.toNat + 7)
    insertRangeW h _p a.toNat (b.toNat - a.toNat)

/-- `doubleHashDictionary.processSegment(a, b)`: `_p := f.Data[:b1+7]` (no early return) -/
def processSegment2W (h1 h2 : HashT) (data stale : List Byte) (a b : Int) : Option (HashT × HashT) :=
  let a := if a < 0 then 0 else a
  let c1 : Int := (data.length : Int) - h1.inputLen + 1
  let b1 := if c1 < b then c1 else b
  let b1 := if b1 < 0 then 0 else b1
  let c2 : Int := (data.length : Int) - h2.inputLen + 1
  let b2 := if c2 < b then c2 else b
  let b2 := if b2 < 0 then 0 else b2
  do
    let _p ← sliceTo data stale (b1.toNat + 7)
    let h1a ← insertRangeW h1 _p a.toNat (b2.toNat - a.toNat)
    let h1b ← insertRangeW h1a _p b2.toNat (b1.toNat - b2.toNat)
    let h2' ← insertRangeW h2 _p a.toNat (b2.toNat - a.toNat)
    return (h1b, h2')

/-- `bucketDictionary.processSegment(a, b)` -/
def processSegmentBW (bk : BucketT) (data stale : List Byte) (a e : Int) : Option BucketT :=
  let a := if a < 0 then 0 else a
  let c : Int := (data.length : Int) - bk.inputLen + 1
  let e := if c < e then c else e
  if e ≤ 0 then some bk
  else do
    let _p ← sliceTo data stale (e.toNat + 7)
    binsertRangeW bk _p a.toNat (e.toNat - a.toNat)

/-- the reslice `f.Data[:b+7]` and the loop over `[a, b)` for `b ≤ len(Data) - inputLen + 1` -/
theorem segW_eq (h : HashT) (data stale : List Byte) (a b : Nat)
    (hcap : b + 7 ≤ (data ++ stale).length) (hb : b + min h.inputLen 8 ≤ data.length + 1) :
    ((sliceTo data stale (b + 7)).bind fun _p => insertRangeW h _p a (b - a)) =
      some (h.insertRange data a (b - a)) := by
  rw [sliceTo_eq_some _ _ _ hcap, Option.bind_some,
    insertRangeW_eq data stale b hcap _ _ _ (by omega)]

theorem bsegW_eq (bk : BucketT) (data stale : List Byte) (a b : Nat)
    (hcap : b + 7 ≤ (data ++ stale).length) (hb : b + min bk.inputLen 8 ≤ data.length + 1) :
    ((sliceTo data stale (b + 7)).bind fun _p => binsertRangeW bk _p a (b - a)) =
      some (bk.insertRange data a (b - a)) := by
  rw [sliceTo_eq_some _ _ _ hcap, Option.bind_some,
    binsertRangeW_eq data stale b hcap _ _ _ (by omega)]

/-- `processSegment` of the single table: with 7 bytes of capacity behind `len(Data)` no panic,
    result = the model's `processSegment1` -/
theorem processSegment1W_eq (h : HashT) (data stale : List Byte) (a b : Int)
    (hil : 1 ≤ h.inputLen) (hcap : data.length + 7 ≤ (data ++ stale).length) :
    processSegment1W h data stale a b = some (processSegment1 h data a b) := by
  unfold processSegment1W processSegment1
  simp only [Option.bind_eq_bind]
  have hb' : (if (data.length : Int) - h.inputLen + 1 < b then (data.length : Int) - h.inputLen + 1
      else b) ≤ (data.length : Int) - h.inputLen + 1 := by split <;> omega
  generalize (if (data.length : Int) - h.inputLen + 1 < b then (data.length : Int) - h.inputLen + 1
      else b) = b' at hb' ⊢
  generalize (if a < 0 then 0 else a) = a'
  by_cases hb0 : b' ≤ 0
  · simp only [if_pos hb0]
  · simp only [if_neg hb0]
    exact segW_eq h data stale _ _ (by omega) (by omega)

theorem processSegmentBW_eq (bk : BucketT) (data stale : List Byte) (a e : Int)
    (hil : 1 ≤ bk.inputLen) (hcap : data.length + 7 ≤ (data ++ stale).length) :
    processSegmentBW bk data stale a e = some (processSegmentB bk data a e) := by
  unfold processSegmentBW processSegmentB
  simp only [Option.bind_eq_bind]
  have hb' : (if (data.length : Int) - bk.inputLen + 1 < e then (data.length : Int) - bk.inputLen + 1
      else e) ≤ (data.length : Int) - bk.inputLen + 1 := by split <;> omega
  generalize (if (data.length : Int) - bk.inputLen + 1 < e then (data.length : Int) - bk.inputLen + 1
      else e) = e' at hb' ⊢
  generalize (if a < 0 then 0 else a) = a'
  by_cases hb0 : e' ≤ 0
  · simp only [if_pos hb0]
  · simp only [if_neg hb0]
    exact bsegW_eq bk data stale _ _ (by omega) (by omega)

/-- `processSegment` of the two tables (`InputLen1 ≤ InputLen2`, so `b2 ≤ b1`) -/
theorem processSegment2W_eq (h1 h2 : HashT) (data stale : List Byte) (a b : Int)
    (hil : 1 ≤ h1.inputLen) (h12 : h1.inputLen ≤ h2.inputLen)
    (hcap : data.length + 7 ≤ (data ++ stale).length) :
    processSegment2W h1 h2 data stale a b = some (processSegment2 h1 h2 data a b) := by
  unfold processSegment2W processSegment2
  simp only [Option.bind_eq_bind, Option.pure_def]
  have hb1 : (if (data.length : Int) - h1.inputLen + 1 < b then (data.length : Int) - h1.inputLen + 1
      else b) ≤ (data.length : Int) - h1.inputLen + 1 := by split <;> omega
  have hb2 : (if (data.length : Int) - h2.inputLen + 1 < b then (data.length : Int) - h2.inputLen + 1
      else b) ≤ (data.length : Int) - h2.inputLen + 1 := by split <;> omega
  have hb12 : (if (data.length : Int) - h2.inputLen + 1 < b then (data.length : Int) - h2.inputLen + 1
      else b) ≤ (if (data.length : Int) - h1.inputLen + 1 < b then (data.length : Int) - h1.inputLen + 1
      else b) := by split <;> split <;> omega
  generalize (if (data.length : Int) - h1.inputLen + 1 < b then (data.length : Int) - h1.inputLen + 1
      else b) = b1 at hb1 hb12 ⊢
  generalize (if (data.length : Int) - h2.inputLen + 1 < b then (data.length : Int) - h2.inputLen + 1
      else b) = b2 at hb2 hb12 ⊢
  have hc1 : (if b1 < 0 then 0 else b1).toNat = 0 ∨
      (if b1 < 0 then 0 else b1).toNat + min h1.inputLen 8 ≤ data.length + 1 := by
    split <;> omega
  have hc2 : (if b2 < 0 then 0 else b2).toNat = 0 ∨
      (if b2 < 0 then 0 else b2).toNat + min h2.inputLen 8 ≤ data.length + 1 := by
    split <;> omega
  have hc12 : (if b2 < 0 then 0 else b2).toNat ≤ (if b1 < 0 then 0 else b1).toNat := by
    split <;> split <;> omega
  generalize (if b1 < 0 then 0 else b1).toNat = n1 at hc1 hc12 ⊢
  generalize (if b2 < 0 then 0 else b2).toNat = n2 at hc2 hc12 ⊢
  generalize (if a < 0 then 0 else a).toNat = a'
  have hcap1 : n1 + 7 ≤ (data ++ stale).length := by omega
  rw [sliceTo_eq_some _ _ _ hcap1, Option.bind_some,
    insertRangeW_eq data stale n1 hcap1 _ _ _ (by omega), Option.bind_some,
    insertRangeW_eq data stale n1 hcap1 _ _ _ (by rw [HashT.insertRange_inputLen]; omega),
    Option.bind_some,
    insertRangeW_eq data stale n1 hcap1 _ _ _ (by omega), Option.bind_some]

/-! ## 8. `Parse(&blk, flags)` of HP, BHP, DHP, BDHP, BUP at word level -/

/-- `inputEnd := len(p) - inputLen + 1; _p := s.Data[:inputEnd+7]` in Go `int` arithmetic:
    the slice expression panics for `inputEnd + 7 < 0` and for `inputEnd + 7 > cap(s.Data)` -/
def resliceMargin (p behind : List Byte) (inputLen : Nat) : Option Unit :=
  let e : Int := (p.length : Int) - inputLen + 1
  if e + 7 < 0 ∨ ((p ++ behind).length : Int) < e + 7 then none else some ()

/-- `Parse(&blk, flags)` of the five hash parsers with all byte accesses at word level.
    `stale` = the bytes of the backing array behind `len(s.Data)` up to `cap(s.Data)`.
    `p = s.Data[:W+n]`; behind `p` lie the rest of `s.Data` and `stale`.
    (GSAP / OSAP: the model's `parse`; their byte code is not the subject of this file.) -/
def parseW (s : Parser) (stale : List Byte) (flags : Nat) : Option (Parser × Nat × Err × Block) :=
  let n := s.blockN
  if n = 0 then some (s, 0, .empty, ⟨[], []⟩)
  else
    let w := s.buf.w
    let data := s.buf.data
    let p := data.take (w + n)
    let behind := data.drop (w + n) ++ stale
    let ws := s.buf.cfg.windowSize
    let mm := s.minMatch
    match s.dict with
    | .single h => do
      let h ← processSegment1W h data stale ((w : Int) - h.inputLen + 1) w
      let _ ← resliceMargin p behind h.inputLen
      let inputEnd := p.length + 1 - h.inputLen
      let r ← runGreedyW (hpProbeW ws mm inputEnd (s.kind == .BHP) behind) h p w inputEnd flags
      return ({ s with buf := { s.buf with w := r.2.1 }, dict := .single r.1 }, r.2.1 - w, .ok, r.2.2.1)
    | .double d => do
      let hh ← processSegment2W d.h1 d.h2 data stale ((w : Int) - d.h2.inputLen + 1) w
      let _ ← resliceMargin p behind hh.1.inputLen
      let e1 := p.length + 1 - hh.1.inputLen
      let e2 := p.length + 1 - hh.2.inputLen
      let r ← runGreedyW (dhpProbeW ws mm e1 e2 (s.kind == .BDHP) behind) ⟨hh.1, hh.2⟩ p w e1 flags
      return ({ s with buf := { s.buf with w := r.2.1 }, dict := .double r.1 }, r.2.1 - w, .ok, r.2.2.1)
    | .bucket bk => do
      let bk ← processSegmentBW bk data stale ((w : Int) - bk.inputLen + 1) w
      let _ ← resliceMargin p behind bk.inputLen
      let inputEnd := p.length + 1 - bk.inputLen
      let r ← runGreedyW (bupProbeW ws mm inputEnd behind) bk p w inputEnd flags
      return ({ s with buf := { s.buf with w := r.2.1 }, dict := .bucket r.1 }, r.2.1 - w, .ok, r.2.2.1)
    | _ => some (s.parse flags)

/-- `1 ≤ InputLen ≤ 8` for the tables of the hash parsers (`InputLen1 ≤ InputLen2` for the two
    tables of DHP / BDHP); holds in every reachable state (`reachable_hashDictOK`) -/
def HashDictOK : Dict → Prop
  | .single h => 1 ≤ h.inputLen ∧ h.inputLen ≤ 8
  | .double d => 1 ≤ d.h1.inputLen ∧ d.h1.inputLen ≤ d.h2.inputLen ∧ d.h2.inputLen ≤ 8
  | .bucket b => 1 ≤ b.inputLen ∧ b.inputLen ≤ 8
  | _ => True

/-- `stale` are the bytes between `len(s.Data)` and `cap(s.Data)` -/
def Backing (s : Parser) (stale : List Byte) : Prop :=
  s.buf.data.length + stale.length = s.buf.cap

theorem resliceMargin_eq_some (p behind : List Byte) (il : Nat) (hil : il ≤ 8)
    (hcap : p.length + 1 - il + 7 ≤ (p ++ behind).length) :
    resliceMargin p behind il = some () := by
  unfold resliceMargin
  simp only []
  rw [if_neg (by omega)]

theorem resliceMargin_eq_none (p behind : List Byte) (il : Nat)
    (hcap : ((p ++ behind).length : Int) < (p.length : Int) - il + 1 + 7) :
    resliceMargin p behind il = none := by
  unfold resliceMargin
  simp only []
  rw [if_pos (Or.inr hcap)]

/-- the memory of the block prefix and what lies behind it is the backing array -/
theorem backing_length (s : Parser) (stale : List Byte) (hb : Backing s stale) (m : Nat) :
    (s.buf.data.take m ++ (s.buf.data.drop m ++ stale)).length = s.buf.cap := by
  unfold Backing at hb
  rw [← List.append_assoc, List.take_append_drop, List.length_append]; exact hb

/-- **The loop of `Parse`, HP / BHP**: on a block prefix `p` with `inputEnd + 7 ≤ cap` (the model's
    margin check) the word-level run does not panic and equals the model's run, whatever the
    table contains at the start and whatever lies behind `p`. -/
theorem hpRunW_eq (ws mm : Nat) (back : Bool) (behind : List Byte) (h : HashT) (p : List Byte)
    (w flags : Nat) (hil : 1 ≤ h.inputLen) (hmm : mm ≤ 8)
    (hcap : p.length + 1 - h.inputLen + 7 ≤ (p ++ behind).length) :
    runGreedyW (hpProbeW ws mm (p.length + 1 - h.inputLen) back behind) h p w
        (p.length + 1 - h.inputLen) flags =
      some (Parser.runGreedy ⟨hpProbe ws mm (p.length + 1 - h.inputLen) back⟩ h p w
        (p.length + 1 - h.inputLen) flags) := by
  apply runGreedyW_eq ⟨hpProbe ws mm (p.length + 1 - h.inputLen) back⟩ _ p _
    (fun d => d.inputLen = h.inputLen)
  · intro d i li hd
    show (hpProbe ws mm _ back d p i li).1.inputLen = h.inputLen
    rw [hpProbe_inputLen]; exact hd
  · intro d i li hd hi
    have hd' : d.inputLen = h.inputLen := hd
    exact hpProbeW_eq ws mm _ back behind d p i li hcap hi (by omega) (by rw [hd']; exact Nat.le_refl _) hmm
  · rfl

/-- **The loops of `Parse`, DHP / BDHP.** -/
theorem dhpRunW_eq (ws mm : Nat) (back : Bool) (behind : List Byte) (d : Hash2) (p : List Byte)
    (w flags : Nat) (hil : 1 ≤ d.h1.inputLen) (h12 : d.h1.inputLen ≤ d.h2.inputLen) (hmm : mm ≤ 8)
    (hcap : p.length + 1 - d.h1.inputLen + 7 ≤ (p ++ behind).length) :
    runGreedyW (dhpProbeW ws mm (p.length + 1 - d.h1.inputLen) (p.length + 1 - d.h2.inputLen) back
        behind) d p w (p.length + 1 - d.h1.inputLen) flags =
      some (Parser.runGreedy ⟨dhpProbe ws mm (p.length + 1 - d.h1.inputLen)
        (p.length + 1 - d.h2.inputLen) back⟩ d p w (p.length + 1 - d.h1.inputLen) flags) := by
  apply runGreedyW_eq ⟨dhpProbe ws mm (p.length + 1 - d.h1.inputLen)
      (p.length + 1 - d.h2.inputLen) back⟩ _ p _
    (fun d' => d'.h1.inputLen = d.h1.inputLen ∧ d'.h2.inputLen = d.h2.inputLen)
  · intro d' i li hd
    have := dhpProbe_inputLen ws mm (p.length + 1 - d.h1.inputLen) (p.length + 1 - d.h2.inputLen)
      back d' p i li
    exact ⟨this.1.trans hd.1, this.2.trans hd.2⟩
  · intro d' i li hd hi
    obtain ⟨hd1, hd2⟩ := hd
    exact dhpProbeW_eq ws mm _ _ back behind d' p i li hcap hi (by omega) (by omega)
      (by rw [hd1]; exact Nat.le_refl _) (by rw [hd2]; exact Nat.le_refl _) hmm
  · exact ⟨rfl, rfl⟩

/-- **The loop of `Parse`, BUP.** -/
theorem bupRunW_eq (ws mm : Nat) (behind : List Byte) (bk : BucketT) (p : List Byte)
    (w flags : Nat) (hil : 1 ≤ bk.inputLen)
    (hcap : p.length + 1 - bk.inputLen + 7 ≤ (p ++ behind).length) :
    runGreedyW (bupProbeW ws mm (p.length + 1 - bk.inputLen) behind) bk p w
        (p.length + 1 - bk.inputLen) flags =
      some (Parser.runGreedy ⟨bupProbe ws mm (p.length + 1 - bk.inputLen)⟩ bk p w
        (p.length + 1 - bk.inputLen) flags) := by
  apply runGreedyW_eq ⟨bupProbe ws mm (p.length + 1 - bk.inputLen)⟩ _ p _
    (fun d => d.inputLen = bk.inputLen)
  · intro d i li hd
    show (bupProbe ws mm _ d p i li).1.inputLen = bk.inputLen
    rw [bupProbe_inputLen]; exact hd
  · intro d i li hd hi
    have hd' : d.inputLen = bk.inputLen := hd
    exact bupProbeW_eq ws mm _ behind d p i li hcap hi (by omega) (by rw [hd']; exact Nat.le_refl _)
  · rfl

theorem margin_eq : Facts.margin = 7 := rfl

/-- **`Parse(&blk, flags)` at word level** (HP, BHP, DHP, BDHP, BUP; trivially GSAP, OSAP).
    State: `W ≤ len(Data)`; `stale` are the `cap - len` bytes behind `Data` (ARBITRARY contents);
    `Data` is empty or has 7 bytes of capacity behind it (`CapOK`, the invariant of
    `ParserBuffer`); `1 ≤ InputLen ≤ 8`; `minMatchLen ≤ 8`.
    Then no byte access of `Parse` panics and `Parse` returns what the model's `parse` returns:
    same new state (tables included), same `n`, same error, same block. -/
theorem parseW_eq (s : Parser) (stale : List Byte) (flags : Nat)
    (hw : s.buf.w ≤ s.buf.data.length) (hb : Backing s stale) (hc : s.buf.CapOK)
    (hd : HashDictOK s.dict) (hmm : s.minMatch ≤ 8) :
    parseW s stale flags = some (s.parse flags) := by
  by_cases hn : s.blockN = 0
  · rw [Parser.parse_empty s flags hn]
    unfold parseW
    simp only [hn, if_true]
  have hlen := s.blockPrefix_length hw
  have hN := s.blockN_le
  have hM := margin_eq
  have hb' : s.buf.data.length + stale.length = s.buf.cap := hb
  have hdata : s.buf.data.length + 7 ≤ s.buf.cap := by
    rcases hc with h | h
    · rw [h] at hN; simp only [List.length_nil] at hN; omega
    · omega
  have hcapD : s.buf.data.length + 7 ≤ (s.buf.data ++ stale).length := by
    rw [List.length_append]; omega
  have hpl : (s.buf.data.take (s.buf.w + s.blockN)).length = s.buf.w + s.blockN := hlen
  cases hdict : s.dict with
  | single h =>
    rw [hdict] at hd
    obtain ⟨h1, h8⟩ := hd
    have hm : s.MarginOK := by
      unfold Parser.MarginOK Parser.dictInputLen
      rw [hdict, hlen]; simp only []; omega
    rw [Parser.parse_single s flags h hdict hn hm]
    unfold parseW
    simp only [hn, if_false, hdict, Option.bind_eq_bind, Option.pure_def]
    rw [processSegment1W_eq h _ stale _ _ h1 hcapD, Option.bind_some]
    have hil := processSegment1_inputLen h s.buf.data ((s.buf.w : Int) - h.inputLen + 1) s.buf.w
    rw [resliceMargin_eq_some _ _ _ (by omega)
        (by rw [backing_length s stale hb, hpl]; omega), Option.bind_some,
      hpRunW_eq _ _ _ _ _ _ _ _ (by omega) hmm
        (by rw [backing_length s stale hb, hpl]; omega), Option.bind_some]
    rfl
  | double d =>
    rw [hdict] at hd
    obtain ⟨h1, h12, h8⟩ := hd
    have hm : s.MarginOK := by
      unfold Parser.MarginOK Parser.dictInputLen
      rw [hdict, hlen]; simp only []; omega
    rw [Parser.parse_double s flags d hdict hn hm]
    unfold parseW
    simp only [hn, if_false, hdict, Option.bind_eq_bind, Option.pure_def]
    rw [processSegment2W_eq d.h1 d.h2 _ stale _ _ h1 h12 hcapD, Option.bind_some]
    obtain ⟨hi1, hi2⟩ := processSegment2_inputLen d.h1 d.h2 s.buf.data
      ((s.buf.w : Int) - d.h2.inputLen + 1) s.buf.w
    generalize processSegment2 d.h1 d.h2 s.buf.data ((s.buf.w : Int) - d.h2.inputLen + 1) s.buf.w = hh
      at hi1 hi2 ⊢
    obtain ⟨t1, t2⟩ := hh
    simp only [] at hi1 hi2 ⊢
    rw [resliceMargin_eq_some _ _ _ (by omega)
        (by rw [backing_length s stale hb, hpl]; omega), Option.bind_some,
      dhpRunW_eq _ _ _ _ ⟨t1, t2⟩ _ _ _ (by simp only []; omega) (by simp only []; omega) hmm
        (by rw [backing_length s stale hb, hpl]; simp only []; omega), Option.bind_some]
    rfl
  | bucket bk =>
    rw [hdict] at hd
    obtain ⟨h1, h8⟩ := hd
    have hm : s.MarginOK := by
      unfold Parser.MarginOK Parser.dictInputLen
      rw [hdict, hlen]; simp only []; omega
    rw [Parser.parse_bucket s flags bk hdict hn hm]
    unfold parseW
    simp only [hn, if_false, hdict, Option.bind_eq_bind, Option.pure_def]
    rw [processSegmentBW_eq bk _ stale _ _ h1 hcapD, Option.bind_some]
    have hil := processSegmentB_inputLen bk s.buf.data ((s.buf.w : Int) - bk.inputLen + 1) s.buf.w
    rw [resliceMargin_eq_some _ _ _ (by omega)
        (by rw [backing_length s stale hb, hpl]; omega), Option.bind_some,
      bupRunW_eq _ _ _ _ _ _ _ (by omega)
        (by rw [backing_length s stale hb, hpl]; omega), Option.bind_some]
    rfl
  | gsap g =>
    unfold parseW
    simp only [hn, if_false, hdict]
  | osap o =>
    unfold parseW
    simp only [hn, if_false, hdict]

/-! ### the other direction: the model's `.panic` is a panic of the Go code -/

theorem insertW_inputLen (h h' : HashT) (_p : List Byte) (i : Nat) (e : insertW h _p i = some h') :
    h'.inputLen = h.inputLen := by
  unfold insertW at e
  simp only [Option.bind_eq_bind, Option.pure_def] at e
  cases hk : loadKey _p h.inputLen i with
  | none => rw [hk] at e; cases e
  | some x => rw [hk, Option.bind_some] at e; cases e; rfl

theorem insertRangeW_inputLen (_p : List Byte) : ∀ (n a : Nat) (h h' : HashT),
    insertRangeW h _p a n = some h' → h'.inputLen = h.inputLen := by
  intro n
  induction n with
  | zero => intro a h h' e; cases e; rfl
  | succ n ih =>
    intro a h h' e
    unfold insertRangeW at e
    simp only [Option.bind_eq_bind] at e
    cases hk : insertW h _p a with
    | none => rw [hk] at e; cases e
    | some h1 =>
      rw [hk, Option.bind_some] at e
      rw [ih _ _ _ e, insertW_inputLen h h1 _p a hk]

theorem binsertW_inputLen (b b' : BucketT) (_p : List Byte) (i : Nat)
    (e : binsertW b _p i = some b') : b'.inputLen = b.inputLen := by
  unfold binsertW at e
  simp only [Option.bind_eq_bind, Option.pure_def] at e
  cases hk : loadKey _p b.inputLen i with
  | none => rw [hk] at e; cases e
  | some x => rw [hk, Option.bind_some] at e; cases e; rfl

theorem binsertRangeW_inputLen (_p : List Byte) : ∀ (n a : Nat) (b b' : BucketT),
    binsertRangeW b _p a n = some b' → b'.inputLen = b.inputLen := by
  intro n
  induction n with
  | zero => intro a b b' e; cases e; rfl
  | succ n ih =>
    intro a b b' e
    unfold binsertRangeW at e
    simp only [Option.bind_eq_bind] at e
    cases hk : binsertW b _p a with
    | none => rw [hk] at e; cases e
    | some b1 =>
      rw [hk, Option.bind_some] at e
      rw [ih _ _ _ e, binsertW_inputLen b b1 _p a hk]

theorem processSegment1W_inputLen (h h' : HashT) (data stale : List Byte) (a b : Int)
    (e : processSegment1W h data stale a b = some h') : h'.inputLen = h.inputLen := by
  unfold processSegment1W at e
  simp only [Option.bind_eq_bind] at e
  generalize (if (data.length : Int) - h.inputLen + 1 < b then (data.length : Int) - h.inputLen + 1
    else b) = b' at e
  by_cases hb0 : b' ≤ 0
  · rw [if_pos hb0] at e; cases e; rfl
  · rw [if_neg hb0] at e
    cases hs : sliceTo data stale (b'.toNat + 7) with
    | none => rw [hs] at e; cases e
    | some _p => rw [hs, Option.bind_some] at e; exact insertRangeW_inputLen _ _ _ _ _ e

theorem processSegmentBW_inputLen (bk bk' : BucketT) (data stale : List Byte) (a b : Int)
    (e : processSegmentBW bk data stale a b = some bk') : bk'.inputLen = bk.inputLen := by
  unfold processSegmentBW at e
  simp only [Option.bind_eq_bind] at e
  generalize (if (data.length : Int) - bk.inputLen + 1 < b then (data.length : Int) - bk.inputLen + 1
    else b) = b' at e
  by_cases hb0 : b' ≤ 0
  · rw [if_pos hb0] at e; cases e; rfl
  · rw [if_neg hb0] at e
    cases hs : sliceTo data stale (b'.toNat + 7) with
    | none => rw [hs] at e; cases e
    | some _p => rw [hs, Option.bind_some] at e; exact binsertRangeW_inputLen _ _ _ _ _ e

theorem processSegment2W_inputLen (h1 h2 : HashT) (hh : HashT × HashT) (data stale : List Byte)
    (a b : Int) (e : processSegment2W h1 h2 data stale a b = some hh) :
    hh.1.inputLen = h1.inputLen := by
  unfold processSegment2W at e
  simp only [Option.bind_eq_bind, Option.pure_def] at e
  generalize sliceTo data stale _ = sp at e
  cases sp with
  | none => cases e
  | some _p =>
    rw [Option.bind_some] at e
    generalize hA : insertRangeW h1 _p _ _ = A at e
    cases A with
    | none => cases e
    | some h1a =>
      rw [Option.bind_some] at e
      generalize hB : insertRangeW h1a _p _ _ = B at e
      cases B with
      | none => cases e
      | some h1b =>
        rw [Option.bind_some] at e
        generalize insertRangeW h2 _p _ _ = C at e
        cases C with
        | none => cases e
        | some h2' =>
          rw [Option.bind_some] at e
          cases e
          rw [insertRangeW_inputLen _ _ _ _ _ hB, insertRangeW_inputLen _ _ _ _ _ hA]

/-- **The model's `.panic` of `parse` is a panic of the Go code**: if the capacity behind the block
    prefix is too small for `s.Data[:inputEnd+7]` (`¬ MarginOK`, the guard of the model), the
    word-level `Parse` panics — in `processSegment` or at the reslice, before the loop. -/
theorem parseW_panic (s : Parser) (stale : List Byte) (flags : Nat) (hb : Backing s stale)
    (hn : s.blockN ≠ 0) (hm : ¬ s.MarginOK) :
    parseW s stale flags = none ∧ (s.parse flags).2.2.1 = .panic := by
  refine ⟨?_, parse_panic_of_not_margin s flags hn hm⟩
  unfold Parser.MarginOK Parser.dictInputLen Parser.blockPrefix at hm
  have hm' := Decidable.not_not.mp hm
  have hM := margin_eq
  unfold parseW
  simp only [hn, if_false, Option.bind_eq_bind, Option.pure_def]
  cases hdict : s.dict with
  | single h =>
    simp only [hdict] at hm' ⊢
    cases hp : processSegment1W h s.buf.data stale ((s.buf.w : Int) - h.inputLen + 1) s.buf.w with
    | none => rfl
    | some h' =>
      rw [Option.bind_some, processSegment1W_inputLen _ _ _ _ _ _ hp,
        resliceMargin_eq_none _ _ _ (by rw [backing_length s stale hb]; omega)]
      rfl
  | double d =>
    simp only [hdict] at hm' ⊢
    cases hp : processSegment2W d.h1 d.h2 s.buf.data stale ((s.buf.w : Int) - d.h2.inputLen + 1)
        s.buf.w with
    | none => rfl
    | some hh =>
      rw [Option.bind_some, processSegment2W_inputLen _ _ _ _ _ _ _ hp,
        resliceMargin_eq_none _ _ _ (by rw [backing_length s stale hb]; omega)]
      rfl
  | bucket bk =>
    simp only [hdict] at hm' ⊢
    cases hp : processSegmentBW bk s.buf.data stale ((s.buf.w : Int) - bk.inputLen + 1) s.buf.w with
    | none => rfl
    | some bk' =>
      rw [Option.bind_some, processSegmentBW_inputLen _ _ _ _ _ _ hp,
        resliceMargin_eq_none _ _ _ (by rw [backing_length s stale hb]; omega)]
      rfl
  | gsap g => simp only [hdict] at hm'; exact absurd rfl hm'.1
  | osap o => simp only [hdict] at hm'; exact absurd rfl hm'.1

/-! ## 9. every reachable state -/

/-- the five hash parsers -/
def HashKind (k : Kind) : Prop := k = .HP ∨ k = .BHP ∨ k = .DHP ∨ k = .BDHP ∨ k = .BUP

/-- after every history from `NewParser` the tables of a hash parser have `1 ≤ InputLen ≤ 8`
    (`InputLen1 ≤ InputLen2`) -/
theorem reachable_hashDictOK (k : Kind) (hk : HashKind k) (raw : Cfg) (s0 : Parser)
    (h0 : newParser k raw = some s0) (ops : List POp) :
    HashDictOK (runOps (s0, Ghost.init) ops).1.dict := by
  rcases hk with rfl | rfl | rfl | rfl | rfl
  · obtain ⟨⟨h, hd, -, h1, h8, -⟩, -⟩ := reachable_singleFresh .HP (Or.inl rfl) raw s0 h0 ops
    rw [hd]; exact ⟨h1, h8⟩
  · obtain ⟨⟨h, hd, -, h1, h8, -⟩, -⟩ := reachable_singleFresh .BHP (Or.inr rfl) raw s0 h0 ops
    rw [hd]; exact ⟨h1, h8⟩
  · obtain ⟨-, ⟨d, hd, -, -, h1, h12, h8, -⟩, -⟩ := reachable_doubleFresh raw s0 h0 ops
    rw [hd]; exact ⟨h1, h12, h8⟩
  · obtain ⟨-, ⟨d, hd, -, -, e1, e2⟩, -, -, a1, a2, a3, -⟩ := reachable_doubleOK raw s0 h0 ops
    rw [hd]; exact ⟨by omega, by omega, by omega⟩
  · obtain ⟨-, ⟨bk, hd, -, e1⟩, -, -, a1, a2, -⟩ := reachable_bucketOK raw s0 h0 ops
    rw [hd]; exact ⟨by omega, by omega⟩

/-- in a reachable state the capacity is at least the length: `stale` exists -/
theorem reachable_backing (k : Kind) (hk : HashKind k) (raw : Cfg) (s0 : Parser)
    (h0 : newParser k raw = some s0) (ops : List POp) :
    ∃ stale, Backing (runOps (s0, Ghost.init) ops).1 stale := by
  have hne : k ≠ .OSAP := by rcases hk with rfl | rfl | rfl | rfl | rfl <;> decide
  have hI := history_inv k raw s0 h0 (histHyp_of_ne k s0 hne) ops
  refine ⟨List.replicate ((runOps (s0, Ghost.init) ops).1.buf.cap -
    (runOps (s0, Ghost.init) ops).1.buf.data.length) 0xAA, ?_⟩
  unfold Backing
  rw [List.length_replicate]
  rcases hI.cap with h | h
  · rw [h]; simp
  · omega

/-- **History level.**  For every accepted configuration of HP, BHP, DHP, BDHP, BUP and every
    history of `Write`, `ReadFrom`, `Parse`, `Parse(nil)`, `Shrink`, `Reset`: in the state reached,
    with ANY contents `stale` of the `cap - len` bytes behind `s.Data`, the word-level `Parse`
    (Go byte code: `_getLE64` through `_p`, inlined match length, `lcp`, `lcs`, index
    expressions, `processSegment`) does not panic and returns exactly the model's `parse`. -/
theorem parseW_reachable (k : Kind) (hk : HashKind k) (raw : Cfg) (s0 : Parser)
    (h0 : newParser k raw = some s0) (ops : List POp) (stale : List Byte) (flags : Nat)
    (hb : Backing (runOps (s0, Ghost.init) ops).1 stale) :
    parseW (runOps (s0, Ghost.init) ops).1 stale flags =
      some ((runOps (s0, Ghost.init) ops).1.parse flags) := by
  have hne : k ≠ .OSAP := by rcases hk with rfl | rfl | rfl | rfl | rfl <;> decide
  have hI := history_inv k raw s0 h0 (histHyp_of_ne k s0 hne) ops
  have h3 : (runOps (s0, Ghost.init) ops).1.minMatch ≤ 3 := by
    apply minMatch_le_three
    rw [hI.kind]
    rcases hk with rfl | rfl | rfl | rfl | rfl <;> decide
  exact parseW_eq _ stale flags hI.hw hb hI.cap (reachable_hashDictOK k hk raw s0 h0 ops) (by omega)

/-! ## 10. `Parse(nil, flags)`: only `processSegment` touches the bytes -/

/-- `Parse(nil, flags)` of the hash parsers at word level -/
def parseNilW (s : Parser) (stale : List Byte) : Option (Parser × Nat × Err) :=
  let n := s.blockN
  if n = 0 then some (s, 0, .empty)
  else
    let w := s.buf.w
    let t := w + n
    let data := s.buf.data
    match s.dict with
    | .single h => do
      let h' ← processSegment1W h data stale ((w : Int) - h.inputLen + 1) t
      return ({ s with buf := { s.buf with w := t }, dict := .single h' }, n, .ok)
    | .double d => do
      let hh ← processSegment2W d.h1 d.h2 data stale ((w : Int) - d.h2.inputLen + 1) t
      return ({ s with buf := { s.buf with w := t }, dict := .double { h1 := hh.1, h2 := hh.2 } }, n, .ok)
    | .bucket bk => do
      let bk' ← processSegmentBW bk data stale ((w : Int) - bk.inputLen + 1) t
      return ({ s with buf := { s.buf with w := t }, dict := .bucket bk' }, n, .ok)
    | _ => some s.parseNil

theorem parseNilW_eq (s : Parser) (stale : List Byte) (hb : Backing s stale) (hc : s.buf.CapOK)
    (hd : HashDictOK s.dict) : parseNilW s stale = some s.parseNil := by
  unfold parseNilW Parser.parseNil
  by_cases hn : s.blockN = 0
  · simp only [hn, if_true]
  simp only [hn, if_false, Option.bind_eq_bind, Option.pure_def]
  have hN := s.blockN_le
  have hM := margin_eq
  have hb' : s.buf.data.length + stale.length = s.buf.cap := hb
  have hcapD : s.buf.data.length + 7 ≤ (s.buf.data ++ stale).length := by
    rw [List.length_append]
    rcases hc with h | h
    · rw [h] at hN; simp only [List.length_nil] at hN; omega
    · omega
  cases hdict : s.dict with
  | single h =>
    rw [hdict] at hd
    simp only []
    rw [processSegment1W_eq h _ stale _ _ hd.1 hcapD, Option.bind_some]
  | double d =>
    rw [hdict] at hd
    simp only []
    rw [processSegment2W_eq d.h1 d.h2 _ stale _ _ hd.1 hd.2.1 hcapD, Option.bind_some]
  | bucket bk =>
    rw [hdict] at hd
    simp only []
    rw [processSegmentBW_eq bk _ stale _ _ hd.1 hcapD, Option.bind_some]
  | gsap g => rfl
  | osap o => rfl

theorem parseNilW_reachable (k : Kind) (hk : HashKind k) (raw : Cfg) (s0 : Parser)
    (h0 : newParser k raw = some s0) (ops : List POp) (stale : List Byte)
    (hb : Backing (runOps (s0, Ghost.init) ops).1 stale) :
    parseNilW (runOps (s0, Ghost.init) ops).1 stale = some (runOps (s0, Ghost.init) ops).1.parseNil := by
  have hne : k ≠ .OSAP := by rcases hk with rfl | rfl | rfl | rfl | rfl <;> decide
  have hI := history_inv k raw s0 h0 (histHyp_of_ne k s0 hne) ops
  exact parseNilW_eq _ stale hb hI.cap (reachable_hashDictOK k hk raw s0 h0 ops)

/-! ## 11. the memory behind the block is irrelevant -/

theorem hpProbeW_behind_irrelevant (ws mm inputEnd : Nat) (back : Bool) (b1 b2 : List Byte)
    (h : HashT) (p : List Byte) (i li : Nat)
    (h1 : inputEnd + 7 ≤ (p ++ b1).length) (h2 : inputEnd + 7 ≤ (p ++ b2).length) (hi : i < inputEnd)
    (hil : 1 ≤ h.inputLen) (hE : inputEnd ≤ p.length + 1 - h.inputLen) (hmm : mm ≤ 8) :
    hpProbeW ws mm inputEnd back b1 h p i li = hpProbeW ws mm inputEnd back b2 h p i li := by
  rw [hpProbeW_eq ws mm inputEnd back b1 h p i li h1 hi hil hE hmm,
    hpProbeW_eq ws mm inputEnd back b2 h p i li h2 hi hil hE hmm]

/-- two contents of the stale bytes behind `s.Data` give the same `Parse` -/
theorem parseW_stale_irrelevant (s : Parser) (st1 st2 : List Byte) (flags : Nat)
    (hw : s.buf.w ≤ s.buf.data.length) (h1 : Backing s st1) (h2 : Backing s st2) (hc : s.buf.CapOK)
    (hd : HashDictOK s.dict) (hmm : s.minMatch ≤ 8) :
    parseW s st1 flags = parseW s st2 flags := by
  rw [parseW_eq s st1 flags hw h1 hc hd hmm, parseW_eq s st2 flags hw h2 hc hd hmm]

/-! ## 12. non-vacuity and concrete evaluations (kernel-checked, no `native_decide`)

  `BytesW.exP` = "abcabcabcabcabcabcXXXX" (22 bytes), `InputLen = 3`, `inputEnd = 20`. -/

section Examples

/-- 7 bytes of garbage behind the block -/
def garbage : List Byte := [0xde, 0xad, 0xbe, 0xef, 0xaa, 0x55, 0x09]
/-- garbage that continues the last bytes of the block -/
def nines : List Byte := [9, 9, 9, 9, 9, 9, 9]
/-- a 16-slot table with the positions `0, …, n-1` of `exP` indexed -/
def exH (n : Nat) : HashT := (HashT.new 3 4).insertRange exP 0 n
def exD (n : Nat) : Hash2 :=
  { h1 := (HashT.new 3 4).insertRange exP 0 n, h2 := (HashT.new 6 4).insertRange exP 0 n }
def exB (n : Nat) : BucketT := (BucketT.new 3 4 2).insertRange exP 0 n

def view (r : HashT × Option (Nat × Nat × Nat)) := (r.1.tbl, r.2)
def viewD (r : Hash2 × Option (Nat × Nat × Nat)) := (r.1.h1.tbl, r.1.h2.tbl, r.2)
def viewB (r : BucketT × Option (Nat × Nat × Nat)) := (r.1.buckets, r.1.indexes, r.2)

/-- the hypotheses of `hpProbeW_eq` are satisfiable -/
example : 20 + 7 ≤ (exP ++ garbage).length ∧ 3 < 20 ∧ 1 ≤ (exH 3).inputLen ∧
    20 ≤ exP.length + 1 - (exH 3).inputLen ∧ 3 ≤ 8 := by decide
example : hpProbeW 64 3 20 false garbage (exH 3) exP 3 3 = some (hpProbe 64 3 20 false (exH 3) exP 3 3) :=
  hpProbeW_eq 64 3 20 false garbage (exH 3) exP 3 3 (by decide) (by decide) (by decide) (by decide)
    (by decide)

-- HP, i = 3, candidate j = 0: first word full, extension, result 15; table compared as well
example : (hpProbeW 64 3 20 false garbage (exH 3) exP 3 3).map view =
    some (view (hpProbe 64 3 20 false (exH 3) exP 3 3)) := by decide +kernel
example : ((hpProbeW 64 3 20 false garbage (exH 3) exP 3 3).map view).map (·.2) =
    some (some (3, 15, 3)) := by decide +kernel
-- BHP, i = 6, litIndex = 4, candidate j = 3: `lcs(p[1:3], p[:6]) = 2`, match (4, 12 + 2, 3)
example : ((hpProbeW 64 3 20 true garbage (exH 6) exP 6 4).map view).map (·.2) =
    some (some (4, 14, 3)) := by decide +kernel
example : (hpProbeW 64 3 20 true garbage (exH 6) exP 6 4).map view =
    some (view (hpProbe 64 3 20 true (exH 6) exP 6 4)) := by decide +kernel
-- the last position i = 19 = inputEnd - 1, candidate j = 18: both loads read 5 bytes behind `p`;
-- the bytes `9` behind the block make the first words agree in all 8 bytes, the clamp
-- `k > len(p) - i` cuts the length to 3 = `len(p) - i` (block end, not `inputEnd`)
example : ((hpProbeW 64 3 20 false nines (exH 19) exP 19 19).map view).map (·.2) =
    some (some (19, 3, 1)) := by decide +kernel
example : ((hpProbeW 64 3 20 false garbage (exH 19) exP 19 19).map view).map (·.2) =
    some (some (19, 3, 1)) := by decide +kernel
example : (hpProbe 64 3 20 false (exH 19) exP 19 19).2 = some (19, 3, 1) := by decide +kernel
-- no capacity behind the block: panic
example : (hpProbeW 64 3 20 false [] (exH 3) exP 3 3).map view = none := by decide +kernel

-- DHP / BDHP: first loop (i = 3 < e2 = 17), second loop (i = 19 ≥ e2)
example : (dhpProbeW 64 3 20 17 false garbage (exD 3) exP 3 3).map viewD =
    some (viewD (dhpProbe 64 3 20 17 false (exD 3) exP 3 3)) := by decide +kernel
example : ((dhpProbeW 64 3 20 17 false garbage (exD 3) exP 3 3).map viewD).map (·.2.2) =
    some (some (3, 15, 3)) := by decide +kernel
example : (dhpProbeW 64 3 20 17 true nines (exD 19) exP 19 19).map viewD =
    some (viewD (dhpProbe 64 3 20 17 true (exD 19) exP 19 19)) := by decide +kernel
example : ((dhpProbeW 64 3 20 17 true nines (exD 19) exP 19 19).map viewD).map (·.2.2) =
    some (some (19, 3, 1)) := by decide +kernel
/-- the hypothesis `e2 ≤ e1` (`InputLen1 ≤ InputLen2`, enforced by `Verify`: `il1 < il2`) is
    necessary: with `InputLen1 = 6 > InputLen2 = 3` the first loop reaches `i = 17 = e1`, where
    `_p[17:]` has only 7 bytes — Go panics, the (list-level) model does not notice -/
example : (dhpProbeW 64 3 17 20 false garbage
      { h1 := HashT.new 6 4, h2 := HashT.new 3 4 } exP 17 17).map viewD = none := by decide +kernel

-- BUP: two candidates (positions 0 and 3) in the bucket of "abc" at i = 6
example : (bupProbeW 64 3 20 garbage (exB 6) exP 6 6).map viewB =
    some (viewB (bupProbe 64 3 20 (exB 6) exP 6 6)) := by decide +kernel
example : ((bupProbeW 64 3 20 garbage (exB 6) exP 6 6).map viewB).map (·.2.2) =
    some (some (6, 12, 3)) := by decide +kernel
example : ((bupProbeW 64 3 20 nines (exB 19) exP 19 19).map viewB).map (·.2.2) =
    some (some (19, 3, 1)) := by decide +kernel

/-! ### whole `Parse` calls in reachable states: `NewParser` (configuration `runCfg` of
    LzProofs/Runs.lean), `Write(exP)`; then `cap = 71`, 49 stale bytes behind the 22 data bytes -/

/-- 49 bytes of garbage behind `s.Data` -/
def staleEx : List Byte := (List.range 49).map fun i => UInt8.ofNat (i * 37 + 11)
def exOpsW : List POp := [.write exP]
def exS (k : Kind) : Parser := (runOps (runS0 k, Ghost.init) exOpsW).1
def view2 (r : Parser × Nat × Err × Block) : Nat × Err × Block × Nat :=
  (r.2.1, r.2.2.1, r.2.2.2, r.1.buf.w)
/-- the block all five parsers emit (the Go library emits the same block for this input with
    these and other stale bytes behind the data) -/
def exBlk : Block := ⟨[⟨3, 15, 3, 0⟩, ⟨1, 3, 1, 0⟩], [1, 2, 3, 9]⟩

example : Backing (exS .HP) staleEx ∧ (exS .HP).buf.cap = 71 ∧ (exS .HP).buf.data = exP := by
  unfold Backing; decide
/-- `parseW_reachable` applies (all hypotheses satisfiable), for all five kinds -/
example : parseW (exS .HP) staleEx 0 = some ((exS .HP).parse 0) :=
  parseW_reachable .HP (Or.inl rfl) runCfg (runS0 .HP) (runS0_new .HP (by decide)) exOpsW staleEx 0
    (by unfold Backing; decide)
example : parseW (exS .BHP) staleEx 0 = some ((exS .BHP).parse 0) :=
  parseW_reachable .BHP (Or.inr (Or.inl rfl)) runCfg (runS0 .BHP) (runS0_new .BHP (by decide))
    exOpsW staleEx 0 (by unfold Backing; decide)
example : parseW (exS .DHP) staleEx 0 = some ((exS .DHP).parse 0) :=
  parseW_reachable .DHP (Or.inr (Or.inr (Or.inl rfl))) runCfg (runS0 .DHP) (runS0_new .DHP (by decide))
    exOpsW staleEx 0 (by unfold Backing; decide)
example : parseW (exS .BDHP) staleEx 0 = some ((exS .BDHP).parse 0) :=
  parseW_reachable .BDHP (Or.inr (Or.inr (Or.inr (Or.inl rfl)))) runCfg (runS0 .BDHP)
    (runS0_new .BDHP (by decide)) exOpsW staleEx 0 (by unfold Backing; decide)
example : parseW (exS .BUP) staleEx 0 = some ((exS .BUP).parse 0) :=
  parseW_reachable .BUP (Or.inr (Or.inr (Or.inr (Or.inr rfl)))) runCfg (runS0 .BUP)
    (runS0_new .BUP (by decide)) exOpsW staleEx 0 (by unfold Backing; decide)
-- the word-level runs evaluated: the last sequence (1, 3, 1) comes from the probe at i = 19 whose
-- loads read 5 stale bytes
example : (parseW (exS .HP) staleEx 0).map view2 = some (22, .ok, exBlk, 22) := by decide +kernel
example : (parseW (exS .BHP) staleEx 0).map view2 = some (22, .ok, exBlk, 22) := by decide +kernel
example : (parseW (exS .DHP) staleEx 0).map view2 = some (22, .ok, exBlk, 22) := by decide +kernel
example : (parseW (exS .BDHP) staleEx 0).map view2 = some (22, .ok, exBlk, 22) := by decide +kernel
example : (parseW (exS .BUP) staleEx 0).map view2 = some (22, .ok, exBlk, 22) := by decide +kernel
example : (parseW (exS .HP) (List.replicate 49 9) 0).map view2 = some (22, .ok, exBlk, 22) := by
  decide +kernel
example : (parseW (exS .BUP) (List.replicate 49 9) 0).map view2 = some (22, .ok, exBlk, 22) := by
  decide +kernel

/-- capacity 26 < inputEnd + 7 = 27: the model reports `.panic`, the word-level code panics
    (`parseW_panic`) -/
def exSmall : Parser := { exS .HP with buf := { (exS .HP).buf with cap := 26 } }
example : Backing exSmall [9, 9, 9, 9] ∧ (parseW exSmall [9, 9, 9, 9] 0).map view2 = none ∧
    (exSmall.parse 0).2.2.1 = .panic :=
  ⟨by unfold Backing; decide, by decide +kernel, by decide +kernel⟩

/-- **A state outside the buffer invariant `CapOK` where model and Go differ** (not reachable
    through the API: `history_inv … .cap`).  12 data bytes with capacity 15, `W = 10`, `BlockSize = 1`,
    `InputLen = 4`: the model's guard in `parse` (`inputEnd + 7 = 15 ≤ cap`) passes and `parse`
    returns `n = 1`, `nil`; Go panics before the loop in `processSegment(7, 10)`:
    `f.Data[:b+7]` with `b = min(12 - 4 + 1, 10) = 9`, "slice bounds out of range [:16] with
    capacity 15".  The model guards only the reslice of `Parse`, not the one of `processSegment`;
    `parseW_eq` therefore assumes `CapOK`. -/
def exOdd : Parser :=
  { kind := .HP, cfg := {},
    buf := { data := [1, 2, 3, 4, 5, 6, 7, 8, 9, 10, 11, 12], w := 10, off := 0, cap := 15,
             cfg := { shrinkSize := 0, bufferSize := 64, windowSize := 64, blockSize := 1 } },
    dict := .single (HashT.new 4 4) }
example : Backing exOdd [0xaa, 0xbb, 0xcc] ∧ exOdd.MarginOK ∧ ¬ exOdd.buf.CapOK ∧
    view2 (exOdd.parse 0) = (1, .ok, ⟨[], [11]⟩, 11) ∧
    (parseW exOdd [0xaa, 0xbb, 0xcc] 0).map view2 = none :=
  ⟨by unfold Backing; decide, by unfold Parser.MarginOK; decide, by unfold PBuf.CapOK; decide,
    by decide +kernel, by decide +kernel⟩

end Examples

#print axioms slice_eq_some
#print axioms loadKey_eq
#print axioms insertRangeW_eq
#print axioms binsertRangeW_eq
#print axioms backExtW_eq
#print axioms hpProbeW_eq
#print axioms dhpProbeW_eq
#print axioms bupScanW_eq
#print axioms bupProbeW_eq
#print axioms greedyLoopW_eq
#print axioms runGreedyW_eq
#print axioms processSegment1W_eq
#print axioms processSegment2W_eq
#print axioms processSegmentBW_eq
#print axioms hpRunW_eq
#print axioms dhpRunW_eq
#print axioms bupRunW_eq
#print axioms parseW_eq
#print axioms parseW_panic
#print axioms reachable_hashDictOK
#print axioms reachable_backing
#print axioms parseW_reachable
#print axioms parseNilW_eq
#print axioms parseNilW_reachable
#print axioms hpProbeW_behind_irrelevant
#print axioms parseW_stale_irrelevant

end LZ.ProbeW
