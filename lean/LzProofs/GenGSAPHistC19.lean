/-
  LzProofs.GenGSAPHistC19 — C19 (right-maximality of every emitted match w.r.t. the bytes fed) stated about the
  translation of the Go text of the greedy suffix-array parser GSAP: port of LzProofs/GenC19Hist.lean `C19_go_text_hp`,
  `C19_right_go_text_hp` through `gen_gsap_history` (LzProofs/GenGSAPHistRun.lean).  The model-level theorem is
  `C19_maximal_reachable_log .GSAP` (LzProofs/C19Hist.lean; every kind except OSAP, no hypothesis beyond
  `newParser … = some s0`).  Under the three specification hypotheses `GsapSpecs lcp SS BI`.
  No sorry, no axioms of its own.
-/
import LzProofs.GenGSAPHistRun
import LzProofs.GenC19Hist

set_option linter.unusedSimpArgs false
set_option linter.unusedVariables false

namespace LZ.GenGSAPHist
open LZ LZ.Gen LZ.GenBuf LZ.GenHash LZ.GenHPParse LZ.GenProps LZ.GenGSAP
open LZ.GenHPHist (GOpR GOpR.WF GOpR.abs ghostRunR)
open LZ.GenC19Hist (EventRightMax eventMax_right)

variable {lcp : Slice → Slice → Int} {SS : Slice → GSlice Int32 → Res (GSlice Int32)}
  {BI : Gen.bitset → List Int → Res Gen.bitset}

/-- **C19 about the Go text of GSAP** (right-maximality w.r.t. the bytes fed; `EventMax … false`) -/
theorem C19_go_text_gsap (cfg : Gen.GSAPConfig) (s0 : Gen.gsap)
    (hinit : gsap_init default cfg = Res.ok (s0, Gen.Err.ok)) (sp : GsapSpecs lcp SS BI)
    (extra : Nat) (grow : Nat → Nat → Nat) (fuel : Nat)
    (hfuel : 2 * s0.ParserBuffer.BufConfig.BufferSize.toNat + 5 ≤ fuel)
    (ops : List GOpR) (hwf : ∀ op ∈ ops, op.WF) :
    ∃ t rs, runG extra grow fuel lcp SS BI s0 ops = Res.ok (t, rs) ∧
      let g := ghostRunR Ghost.init ops rs
      LogAll (EventMax g.fed false s0.ParserBuffer.BufConfig.BlockSize.toNat) 0 g.log := by
  obtain ⟨p, t, rs, g, hp, h0, h1, -, -, -, h4, -⟩ := gen_gsap_history cfg s0 hinit sp extra grow fuel hfuel ops hwf
  subst h0
  refine ⟨t, rs, h1, ?_⟩
  intro gg
  have hg : gg = (runOps (ofGSAPs s0 GsapD.empty, Ghost.init) (ops.map GOpR.abs)).2 := h4
  rw [hg]
  exact C19_maximal_reachable_log .GSAP (by decide) (ofGSAP cfg) _ hp false (by simp) (ops.map GOpR.abs)

theorem C19_right_go_text_gsap (cfg : Gen.GSAPConfig) (s0 : Gen.gsap)
    (hinit : gsap_init default cfg = Res.ok (s0, Gen.Err.ok)) (sp : GsapSpecs lcp SS BI)
    (extra : Nat) (grow : Nat → Nat → Nat) (fuel : Nat)
    (hfuel : 2 * s0.ParserBuffer.BufConfig.BufferSize.toNat + 5 ≤ fuel)
    (ops : List GOpR) (hwf : ∀ op ∈ ops, op.WF) :
    ∃ t rs, runG extra grow fuel lcp SS BI s0 ops = Res.ok (t, rs) ∧
      let g := ghostRunR Ghost.init ops rs
      LogAll (EventRightMax g.fed s0.ParserBuffer.BufConfig.BlockSize.toNat) 0 g.log := by
  obtain ⟨t, rs, h1, h2⟩ := C19_go_text_gsap cfg s0 hinit sp extra grow fuel hfuel ops hwf
  exact ⟨t, rs, h1, LogAll.mono (fun pos e he => eventMax_right he) _ _ h2⟩

end LZ.GenGSAPHist

#print axioms LZ.GenGSAPHist.C19_go_text_gsap
#print axioms LZ.GenGSAPHist.C19_right_go_text_gsap
