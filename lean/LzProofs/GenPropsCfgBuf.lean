/-
  LzProofs.GenPropsCfgBuf — lz.go: BufConfig.
    G08 gen_bufDefaults   G09 gen_bufVerify (+ gen_bufVerify_error1..4)
  Part of the split of the former LzProofs/GenProps.lean: "the hand-written model equals the
  code that `tools/extract -code` regenerates from the Go source".  The generated code is
  emitted per topic (LzModel/Generated/Code<Topic>.lean); this file only imports the topic it
  talks about, so a Go function the translator refuses takes down this file and nothing else.
  Every theorem quantifies over ALL inputs; Go `int`/`int64` are unbounded `Int` on both sides
  (overflow is out of scope), `uint32`/`uint64` wrap around.  All names live in `LZ.GenProps`.
  The proofs are written against the MEANING of the generated functions (unfold, split every
  `if`, decide linear arithmetic), not against the shape of the generated term, so that
  behaviour-preserving rewrites of the Go source (De Morgan, swapped arms, reordered defaults,
  `x+x` for `2*x`, …) do not break them.
-/
import LzModel.Generated.CodeCfgBuf
import LzProofs.GenPropsBase

set_option linter.unusedSimpArgs false

namespace LZ.GenProps
open LZ

def ofBuf (c : Gen.BufConfig) : Cfg :=
  { shrinkSize := c.ShrinkSize, bufferSize := c.BufferSize, windowSize := c.WindowSize,
    blockSize := c.BlockSize }

/-- G08 `(*BufConfig).SetDefaults` -/
theorem gen_bufDefaults (c : Gen.BufConfig) :
    ofBuf (Gen.BufConfig_SetDefaults c) = bufDefaults (ofBuf c) := by
  obtain ⟨ss, bs, ws, bl⟩ := c
  simp only [Gen.BufConfig_SetDefaults, gen_helper, bufDefaults, ofBuf, Facts.defWindowSize,
    Facts.shrinkSmallLimit, Facts.defShrinkSize, Facts.defBlockSize]
  repeat' split
  all_goals simp_all
  all_goals (intros; omega)

theorem gen_bufDefaults' (b : Gen.BufConfig) : Gen.BufConfig_SetDefaults b =
    ⟨(bufDefaults (ofBuf b)).shrinkSize, (bufDefaults (ofBuf b)).bufferSize,
     (bufDefaults (ofBuf b)).windowSize, (bufDefaults (ofBuf b)).blockSize⟩ := by
  rw [← gen_bufDefaults]; rfl

/-- G09 `(*BufConfig).Verify` -/
theorem gen_bufVerify (c : Gen.BufConfig) :
    Gen.BufConfig_Verify c = .ok ↔ bufVerify (ofBuf c) = true := by
  rw [bufVerify_iff]
  obtain ⟨ss, bs, ws, bl⟩ := c
  simp only [Gen.BufConfig_Verify, gen_helper, ofBuf]
  repeat' split
  all_goals simp only [reduceCtorEq, false_iff, true_iff]
  all_goals omega

/-- G09 which check fails: the k-th `fmt.Errorf` is returned iff the first k-1 range checks
    pass and the k-th does not -/
theorem gen_bufVerify_error1 (c : Gen.BufConfig) :
    Gen.BufConfig_Verify c = .error 1 ↔ ¬(1 ≤ c.BufferSize ∧ c.BufferSize ≤ 4294967288) := by
  simp only [Gen.BufConfig_Verify, gen_helper]
  repeat' split
  all_goals simp only [reduceCtorEq, Gen.Err.error.injEq, false_iff, true_iff]
  all_goals omega

theorem gen_bufVerify_error2 (c : Gen.BufConfig) :
    Gen.BufConfig_Verify c = .error 2 ↔
      (1 ≤ c.BufferSize ∧ c.BufferSize ≤ 4294967288) ∧ ¬(0 ≤ c.ShrinkSize ∧ c.ShrinkSize < c.BufferSize) := by
  simp only [Gen.BufConfig_Verify, gen_helper]
  repeat' split
  all_goals simp only [reduceCtorEq, Gen.Err.error.injEq, false_iff, true_iff]
  all_goals omega

theorem gen_bufVerify_error3 (c : Gen.BufConfig) :
    Gen.BufConfig_Verify c = .error 3 ↔
      (1 ≤ c.BufferSize ∧ c.BufferSize ≤ 4294967288) ∧ (0 ≤ c.ShrinkSize ∧ c.ShrinkSize < c.BufferSize) ∧
      ¬(0 ≤ c.WindowSize ∧ c.WindowSize ≤ 4294967288) := by
  simp only [Gen.BufConfig_Verify, gen_helper]
  repeat' split
  all_goals simp only [reduceCtorEq, Gen.Err.error.injEq, false_iff, true_iff]
  all_goals omega

theorem gen_bufVerify_error4 (c : Gen.BufConfig) :
    Gen.BufConfig_Verify c = .error 4 ↔
      (1 ≤ c.BufferSize ∧ c.BufferSize ≤ 4294967288) ∧ (0 ≤ c.ShrinkSize ∧ c.ShrinkSize < c.BufferSize) ∧
      (0 ≤ c.WindowSize ∧ c.WindowSize ≤ 4294967288) ∧ ¬(1 ≤ c.BlockSize ∧ c.BlockSize ≤ 4294967288) := by
  simp only [Gen.BufConfig_Verify, gen_helper]
  repeat' split
  all_goals simp only [reduceCtorEq, Gen.Err.error.injEq, false_iff, true_iff]
  all_goals omega

end LZ.GenProps
