/-
  LzProofs.GenBUPHistEx — non-vacuity of LzProofs/GenBUPHistRun.lean: a concrete history executed on the TRANSLATED
  functions (`runU`, `ReadFrom` = the translated `ParserBuffer.ReadFrom` against the scripted reader), checked by kernel
  evaluation (`decide +kernel`; no `native_decide`), and the instances of `gen_bup_history` / `C01_go_text_bup` /
  `C19_go_text_bup` for it.

  Configuration (`GenBUPParse.exCfg`): ShrinkSize 8, BufferSize 40, WindowSize 16, BlockSize 24, InputLen 3, HashBits 3,
  BucketSize 2.
  History: ReadFrom(r) with r answering at most 5, 0 (`(0, nil)`), 7, 100, 3 bytes of
           "abcabcabcabcabcabcxyzxyzabcabcQQQQQQQQabcabcxyzxyz0123456789"; Parse(&blk, 0) three times [the third: empty];
           Reset("hello hello hello"); Write("lo hel"); Parse(&blk, NoTrailingLiterals); Parse(&blk, 0) [empty].
  The first four calls are the input of notes/bup-readfrom-translate.md §4, which was run against the REAL Go code:
  `n=40, ErrFullBuffer`; `n=24, (3,15,3)(3,3,3), "abcxyz"`; `n=16, (2,4,12)(1,7,1), "abQab"`; `n=0, ErrEmptyBuffer` —
  the values `exResults` lists.  `lcp` is instantiated by `lcpLen` on the elements (`exLcp_spec : LcpSpec exLcp`).
-/
import LzProofs.GenBUPHistC19
import LzProofs.GenBUPShrinkWitness
import LzProofs.GenBUPParseEx

namespace LZ.GenBUPHist
open LZ LZ.Gen LZ.GenBuf LZ.GenHash LZ.GenHPParse LZ.GenBUPParse LZ.GenProps
open LZ.GenHPHist (rfGo)

/-- the capacity policy of `append` -/
def exGrow : Nat → Nat → Nat := fun _ n => n

/-- a Go slice with `cap = len` -/
def sliceOf (l : List UInt8) : Slice := { arr := l, len := l.length }

/-- the opaque callee `lcp`, instantiated by its specification -/
def exLcp : Slice → Slice → Int := fun p q => (lcpLen p.data q.data : Int)

theorem exLcp_spec : LcpSpec exLcp := fun _ _ => rfl

/-- "abcabcabcabcabcabcxyzxyzabcabcQQQQQQQQabcabcxyzxyz0123456789" -/
def exP : List UInt8 := [97, 98, 99, 97, 98, 99, 97, 98, 99, 97, 98, 99, 97, 98, 99, 97, 98, 99, 120, 121, 122, 120, 121, 122, 97, 98, 99, 97, 98, 99, 81, 81, 81, 81, 81, 81, 81, 81, 97, 98, 99, 97, 98, 99, 120, 121, 122, 120, 121, 122, 48, 49, 50, 51, 52, 53, 54, 55, 56, 57]
/-- "hello hello hello" -/
def exC : List UInt8 := [104, 101, 108, 108, 111, 32, 104, 101, 108, 108, 111, 32, 104, 101, 108, 108, 111]
/-- "lo hel" -/
def exD : List UInt8 := [108, 111, 32, 104, 101, 108]

/-- a reader that hands out `exP` in answers of at most 5, 0, 7, 100, 3 bytes, error `nil` each time -/
def exRd : Reader := { payload := exP, resps := [(5, 0), (0, 0), (7, 0), (100, 0), (3, 0)] }

def exOps : List GOpU :=
  [ .readFrom exRd, .parse default 0, .parse default 0, .parse default 0, .reset (sliceOf exC), .write (sliceOf exD),
    .parse default 1, .parse default 0 ]

theorem exWF : ∀ op ∈ exOps, op.WF := by
  intro op hop
  simp only [exOps, List.mem_cons, List.not_mem_nil, or_false] at hop
  rcases hop with rfl | rfl | rfl | rfl | rfl | rfl | rfl | rfl <;>
    first | trivial | exact Nat.le_refl _ | (show (0 : Int) ≤ _; decide)

/-- the values the translated functions return, in order -/
def exResults : List GResU :=
  [ -- the buffer (BufferSize 40) is full after 40 of the 60 bytes
    .readFrom 40 Gen.ErrFullBuffer,
    -- "abc" + match(15, offset 3) + "xyz" + match(3, offset 3): 24 bytes = BlockSize
    .parse { Sequences := [{ LitLen := 3, MatchLen := 15, Offset := 3, Aux := 0 },
                           { LitLen := 3, MatchLen := 3, Offset := 3, Aux := 0 }],
             Literals := { arr := [97, 98, 99, 120, 121, 122], len := 6 } } 24 Gen.Err.ok,
    -- "ab" + match(4, offset 12) + "Q" + match(7, offset 1) + trailing "ab": the remaining 16 bytes
    .parse { Sequences := [{ LitLen := 2, MatchLen := 4, Offset := 12, Aux := 0 },
                           { LitLen := 1, MatchLen := 7, Offset := 1, Aux := 0 }],
             Literals := { arr := [97, 98, 81, 97, 98], len := 5 } } 16 Gen.Err.ok,
    .parse { Sequences := [], Literals := { arr := [], len := 0 } } 0 Gen.ErrEmptyBuffer,
    .reset Gen.Err.ok,
    .write 6 Gen.Err.ok,
    -- "hello hello hellolo hel", NoTrailingLiterals: "hello " + match(11, offset 6) + match(6, offset 8) = all 23 bytes
    .parse { Sequences := [{ LitLen := 6, MatchLen := 11, Offset := 6, Aux := 0 },
                           { LitLen := 0, MatchLen := 6, Offset := 8, Aux := 0 }],
             Literals := { arr := [104, 101, 108, 108, 111, 32], len := 6 } } 23 Gen.Err.ok,
    .parse { Sequences := [], Literals := { arr := [], len := 0 } } 0 Gen.ErrEmptyBuffer ]

/-- `exOps` contains no `Shrink()`, so the opaque `shiftOffsets` is never called in `exRun`: any function will do there -/
def exSO0 : SOFun := fun _ _ => Res.panic

/-- the run on the translated functions, evaluated by the kernel -/
theorem exRun :
    (match runU (rfGo 0) exGrow 43 exLcp exSO0 GenBUPParse.exS0 exOps with | .ok r => some r.2 | _ => none) = some exResults := by
  decide +kernel

/-- the bookkeeping computed from the calls and the results: after the `Reset` 23 bytes were fed, all consumed, one
    block, and it decodes to those bytes -/
theorem exGhost :
    (ghostRunU Ghost.init exOps exResults).fed = exC ++ exD ∧ (ghostRunU Ghost.init exOps exResults).consumed = 23 ∧
    decode [] (ghostRunU Ghost.init exOps exResults).log = some (exC ++ exD) := by decide +kernel

/-- the bookkeeping before the `Reset`: the 40 bytes `ReadFrom` accepted, all consumed, two blocks, and they decode to
    those bytes -/
theorem exGhost4 :
    (ghostRunU Ghost.init (exOps.take 4) (exResults.take 4)).fed = exP.take 40 ∧
    (ghostRunU Ghost.init (exOps.take 4) (exResults.take 4)).consumed = 40 ∧
    decode [] (ghostRunU Ghost.init (exOps.take 4) (exResults.take 4)).log = some (exP.take 40) := by decide +kernel

theorem exFuel : GenBUPParse.exS0.bucketDictionary.ParserBuffer.BufConfig.BufferSize.toNat + 3 ≤ 43 := by decide +kernel

/-- the general theorems, for this history and for a history WITH `Shrink()` calls (well-formed): the opaque `shiftOffsets` is instantiated by the witness `shiftK`
    (`shiftK_spec : ShiftSpec shiftK`, LzProofs/GenBUPShrinkWitness.lean), so no hypothesis is left -/
def exOpsS : List GOpU := exOps.take 3 ++ [.shrink, .write (sliceOf exD), .parse default 0, .shrink] ++ exOps.drop 3

theorem exWFS : ∀ op ∈ exOpsS, op.WF := by
  intro op hop
  simp only [exOpsS, List.mem_append, List.mem_cons, List.not_mem_nil, or_false] at hop
  rcases hop with (h | h) | h
  · exact exWF op (List.mem_of_mem_take h)
  · rcases h with rfl | rfl | rfl | rfl <;> first | trivial | exact Nat.le_refl _ | (show (0 : Int) ≤ _; decide)
  · exact exWF op (List.mem_of_mem_drop h)

example := gen_bup_history GenBUPParse.exCfg GenBUPParse.exS0 GenBUPParse.exInit 0 exGrow 43 exLcp exLcp_spec shiftK shiftK_spec exFuel exOps exWF
example := gen_bup_history GenBUPParse.exCfg GenBUPParse.exS0 GenBUPParse.exInit 0 exGrow 43 exLcp exLcp_spec shiftK shiftK_spec exFuel exOpsS exWFS
example := C01_go_text_bup GenBUPParse.exCfg GenBUPParse.exS0 GenBUPParse.exInit 0 exGrow 43 exLcp exLcp_spec shiftK shiftK_spec exFuel exOpsS exWFS
example := C19_go_text_bup GenBUPParse.exCfg GenBUPParse.exS0 GenBUPParse.exInit 0 exGrow 43 exLcp exLcp_spec shiftK shiftK_spec exFuel exOpsS exWFS

end LZ.GenBUPHist

#print axioms LZ.GenBUPHist.exRun
#print axioms LZ.GenBUPHist.exGhost
#print axioms LZ.GenBUPHist.exGhost4
