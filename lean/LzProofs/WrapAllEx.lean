/-
  LzProofs.WrapAllEx — non-vacuity of the C08 theorems of WrapAll / WrapAllHist: concrete
  configurations for OSAP and HP, reader scripts with short reads and data returned together with
  io.EOF, wrapped calls evaluated inside the kernel (`decide`, `rfl`, `simp`), and instances of
  the headline theorems.
-/
import LzProofs.WrapAllEof
set_option linter.unusedSimpArgs false
namespace LZ
namespace WrapEx
open PBuf

/-! ## evaluation rules for `Wrapped.parse` (no hypotheses on the state) -/

theorem parse_of_block (wp : Wrapped) (flags : Nat) (res : Parser × Nat × Err × Block)
    (h : wp.s.parse flags = res) (he : res.2.2.1 ≠ .empty) :
    wp.parse flags = ({ wp with s := res.1 }, res.2) := by
  subst h
  rw [Wrapped.parse_eq, if_pos he]

theorem parse_of_stop (wp : Wrapped) (flags : Nat) (s3 : Parser) (r3 : Reader) (e : Err)
    (hpe : wp.s.parse flags = (wp.s, 0, .empty, ⟨[], []⟩))
    (hrf : wp.s.shrink.1.readFrom wp.r = (s3, r3, 0, e)) (hne : e ≠ .full) :
    wp.parse flags = (⟨r3, s3⟩, 0, e, ⟨[], []⟩) := by
  rw [Wrapped.parse_eq]
  simp only [hpe, ne_eq, not_true_eq_false, if_false, hrf, if_true, hne]

theorem parse_of_retry (wp : Wrapped) (flags : Nat) (s3 : Parser) (r3 : Reader) (k : Nat) (e : Err)
    (hpe : wp.s.parse flags = (wp.s, 0, .empty, ⟨[], []⟩))
    (hrf : wp.s.shrink.1.readFrom wp.r = (s3, r3, k, e)) (hk : k ≠ 0)
    (hlt : r3.resps.length < wp.r.resps.length) :
    wp.parse flags = Wrapped.parse ⟨r3, s3⟩ flags := by
  rw [Wrapped.parse_eq]
  simp only [hpe, ne_eq, not_true_eq_false, if_false, hrf, hk, hlt, if_true]

/-- "ababa" -/
def dat : List Byte := [97, 98, 97, 98, 97]

/-- short reads (2 bytes, 1 byte), then the last 2 bytes together with io.EOF -/
def rS : Reader := ⟨dat, [(2, 0), (1, 0), (2, 1)]⟩
/-- the same payload byte by byte, error free -/
def rA : Reader := ⟨dat, [(1, 0), (1, 0), (1, 0), (1, 0), (1, 0)]⟩
/-- the same payload in one piece, error free -/
def rB : Reader := ⟨dat, [(5, 0), (9, 0), (9, 0), (9, 0), (9, 0)]⟩

/-! ## OSAP -/

/-- WindowSize 8, BufferSize 8, BlockSize 8, ShrinkSize 2, MinMatchLen 2, MaxMatchLen 8 -/
def osapCfg : Cfg :=
  { windowSize := 8, bufferSize := 8, blockSize := 8, shrinkSize := 2, minMatchLen := 2,
    maxMatchLen := 8 }

def bc8 : BufCfg := { shrinkSize := 2, bufferSize := 8, windowSize := 8, blockSize := 8 }

def osap0 : Parser :=
  { kind := .OSAP, cfg := setDefaults .OSAP (osapCfg.restrict .OSAP), buf := PBuf.init bc8,
    dict := .osap OsapD.empty }

theorem osap0_new : newParser .OSAP osapCfg = some osap0 := by
  unfold newParser
  simp only []
  rw [if_pos (by decide)]
  rfl

/-- the suffix array of "ababa" -/
theorem dat_sa : saSpec dat = [4, 2, 0, 3, 1] := by
  simp [dat, saSpec, List.mergeSort, List.range, List.range.loop, lexLe,
    List.MergeSort.Internal.splitInTwo, List.splitAt, List.splitAt.go]

theorem dat_lcp : lcpKasai dat [4, 2, 0, 3, 1].toArray (invertSA [4, 2, 0, 3, 1].toArray) =
    #[0, 1, 3, 0, 2] := by decide

theorem dat_seg : segments32 5 #[0, 1, 3, 0, 2] 2 3 = some [(3, 1, 3), (2, 3, 5)] := by
  simp [segments32, segments, scanLCP, scanFrom, popLoop, Int.min_def]

/-- `computeEdges` on "ababa" (head 0, window 8, match lengths 2…8): "aba" at 2 and "ba" at 3
    are repetitions at distance 2 -/
theorem dat_edges : computeEdges dat 0 8 2 8 = ⟨#[[], [], [(3, 2)], [(2, 2)], []], 0, 2⟩ := by
  have e0 : List.drop (0 - 8) dat = dat := rfl
  unfold computeEdges
  simp only [e0, dat_sa, dat_lcp]
  have e2 : min (Array.foldl max 0 #[0, 1, 3, 0, 2]) 8 = 3 := by decide
  have e3 : ([4, 2, 0, 3, 1] : List Nat).toArray.size = 5 := rfl
  simp only [e2, e3]
  have e4 : ((2 : Nat) : Int) = 2 := rfl
  have e5 : ((3 : Nat) : Int) = 3 := rfl
  rw [e4, e5, dat_seg]
  simp [dat, List.mergeSort, List.MergeSort.Internal.splitInTwo, List.splitAt, List.splitAt.go,
    edgeCallback]
  decide

/-- the state after the first refill: "ababa" buffered, nothing parsed -/
def osap1 : Parser := { osap0 with buf := { data := dat, w := 0, off := 0, cap := 15, cfg := bc8 } }

/-- the reader after the first refill -/
def rDone : Reader := ⟨[], []⟩

/-- `Shrink`, then `ReadFrom`: three `Read` calls (2 bytes, 1 byte, 2 bytes + io.EOF) -/
theorem osap0_refill : osap0.shrink.1.readFrom rS = (osap1, rDone, 5, .eof) := by
  simp [Parser.shrink, Parser.readFrom, osap0, osap1, rS, rDone, dat, bc8, readFrom, readLoop,
    shrink, init, grow, Facts.margin, Facts.chunkSize, Facts.growMin, min3, errOfCode]

/-- the edge table of "ababa" -/
def edgesAB : OsapD := ⟨#[[], [], [(3, 2)], [(2, 2)], []], 0, 2⟩

/-- the state after the first block -/
def osap2 : Parser :=
  { osap1 with buf := { data := dat, w := 5, off := 0, cap := 15, cfg := bc8 }, dict := .osap edgesAB }

/-- literals "ab", then a match of length 3 at distance 2 -/
def blkAB : Block := ⟨[{ litLen := 2, matchLen := 3, offset := 2 }], [97, 98]⟩

theorem osap1_edges : osap1.osapEdges OsapD.empty = edgesAB := by
  unfold Parser.osapEdges
  rw [if_pos (by decide)]
  exact dat_edges

/-- OSAP's `Parse` on "ababa", edges computed by `computeEdges`, evaluated in the kernel -/
theorem osap1_parse : osap1.parse 0 = (osap2, 5, .ok, blkAB) := by
  rw [Parser.parse_osap osap1 0 OsapD.empty rfl (by decide)]
  simp only [osap1_edges]
  rw [if_neg (by decide)]
  refine Prod.ext ?_ ?_
  · rfl
  · decide +kernel

/-- **first call**: `Parse` finds the buffer empty, `Shrink`, `ReadFrom` takes all five bytes in
    three short reads (the last with io.EOF, which is dropped because data came with it), `Parse`
    again: one block, `n = 5` -/
theorem osap_call1 : (Wrapped.mk rS osap0).parse 0 = (⟨rDone, osap2⟩, 5, .ok, blkAB) := by
  rw [parse_of_retry ⟨rS, osap0⟩ 0 osap1 rDone 5 .eof
    (Parser.parse_of_blockN_zero _ _ (by decide)) osap0_refill (by decide) (by decide)]
  exact parse_of_block ⟨rDone, osap1⟩ 0 _ osap1_parse (by decide)

/-- the state after the second call: `Shrink` has discarded 3 bytes -/
def osap3 : Parser :=
  { osap2 with buf := { data := [98, 97], w := 2, off := 3, cap := 15, cfg := bc8 },
               dict := .osap OsapD.empty }

theorem osap2_refill : osap2.shrink.1.readFrom rDone = (osap3, rDone, 0, .eof) := by
  simp [Parser.shrink, Parser.readFrom, osap0, osap1, osap2, osap3, rDone, dat, bc8, readFrom,
    readLoop, shrink, init, grow, Facts.margin, Facts.chunkSize, Facts.growMin, min3, errOfCode]

/-- **second call**: nothing left: `(0, io.EOF)` -/
theorem osap_call2 : (Wrapped.mk rDone osap2).parse 0 = (⟨rDone, osap3⟩, 0, .eof, ⟨[], []⟩) :=
  parse_of_stop ⟨rDone, osap2⟩ 0 osap3 rDone .eof
    (Parser.parse_of_blockN_zero _ _ (by decide)) osap2_refill (by decide)

theorem osap3_refill : osap3.shrink.1.readFrom rDone = (osap3, rDone, 0, .eof) := by
  simp [Parser.shrink, Parser.readFrom, osap0, osap1, osap2, osap3, rDone, dat, bc8, readFrom,
    readLoop, shrink, init, grow, Facts.margin, Facts.chunkSize, Facts.growMin, min3, errOfCode]

/-- **third call** (with NoTrailingLiterals): `(0, io.EOF)` again, state unchanged -/
theorem osap_call3 : (Wrapped.mk rDone osap3).parse 1 = (⟨rDone, osap3⟩, 0, .eof, ⟨[], []⟩) :=
  parse_of_stop ⟨rDone, osap3⟩ 1 osap3 rDone .eof
    (Parser.parse_of_blockN_zero _ _ (by decide)) osap3_refill (by decide)

/-- the wrapped history `Parse(0), Parse(0), Parse(1)` of the OSAP parser on the short-reading
    reader: one block that expands to "ababa", then io.EOF twice -/
theorem osap_run : (Wrapped.runW ⟨rS, osap0⟩ [.parse 0, .parse 0, .parse 1]).2 =
    [(5, .ok, blkAB), (0, .eof, ⟨[], []⟩), (0, .eof, ⟨[], []⟩)] := by
  simp only [Wrapped.runW, Wrapped.stepW, osap_call1, osap_call2, osap_call3]

example : expand [] blkAB = some dat := by decide

/-! ## HP, with a failing reader -/

/-- WindowSize 8, BufferSize 8, BlockSize 8, ShrinkSize 2, InputLen 2, HashBits 4 -/
def hpCfg : Cfg :=
  { windowSize := 8, bufferSize := 8, blockSize := 8, shrinkSize := 2, inputLen := 2, hashBits := 4 }

def hp0 : Parser :=
  { kind := .HP, cfg := setDefaults .HP (hpCfg.restrict .HP), buf := PBuf.init bc8,
    dict := .single (HashT.new 2 4) }

theorem hp0_new : newParser .HP hpCfg = some hp0 := by
  unfold newParser
  simp only []
  rw [if_pos (by decide)]
  rfl

/-- "abababab" ++ "cabc" -/
def dat2 : List Byte := [97, 98, 97, 98, 97, 98, 97, 98, 99, 97, 98, 99]

/-- short reads (3, 5), then a failure without data (error code 7), then recovery: 1 byte, and the
    last 3 bytes together with io.EOF -/
def rF : Reader := ⟨dat2, [(3, 0), (5, 0), (0, 7), (1, 0), (20, 1)]⟩
def rF2 : Reader := ⟨[99, 97, 98, 99], [(0, 7), (1, 0), (20, 1)]⟩
def rF3 : Reader := ⟨[99, 97, 98, 99], [(1, 0), (20, 1)]⟩

/-- a hash table with 16 entries, given by its non-zero entries -/
def tb (l : List (Nat × Nat × Nat)) : HashT :=
  { tbl := l.foldl (fun t e => t.setIfInBounds e.1 e.2) (Array.replicate 16 (0, 0)),
    inputLen := 2, hashBits := 4 }

def hpBuf (data : List Byte) (w off : Nat) : PBuf :=
  { data := data, w := w, off := off, cap := 15, cfg := bc8 }

def hpF1 : Parser := { hp0 with buf := hpBuf [97, 98, 97, 98, 97, 98, 97, 98] 0 0 }
def hpF2 : Parser :=
  { hp0 with buf := hpBuf [97, 98, 97, 98, 97, 98, 97, 98] 8 0,
             dict := .single (tb [(4, 5, 24930), (7, 6, 25185)]) }
def hpF2s : Parser :=
  { hp0 with buf := hpBuf [97, 98] 2 6, dict := .single (tb [(7, 0, 25185)]) }
def hpF4 : Parser :=
  { hp0 with buf := hpBuf [97, 98, 99, 97, 98, 99] 2 6, dict := .single (tb [(7, 0, 25185)]) }
def hpF5 : Parser :=
  { hp0 with buf := hpBuf [97, 98, 99, 97, 98, 99] 6 6,
             dict := .single (tb [(7, 3, 25185), (10, 4, 25442), (13, 2, 24931)]) }
def hpF6 : Parser :=
  { hp0 with buf := hpBuf [98, 99] 2 10, dict := .single (tb [(10, 0, 25442)]) }

def blk1 : Block := ⟨[{ litLen := 2, matchLen := 6, offset := 2 }], [97, 98]⟩
def blk2 : Block := ⟨[{ litLen := 1, matchLen := 3, offset := 3 }], [99]⟩

local macro "eval_buf" : tactic =>
  `(tactic| simp [Parser.readFrom, hp0, hpF1, hpF2, hpF2s, hpF4, hpF5, hpF6, hpBuf, rF, rF2, rF3,
      rDone, dat2, bc8, readFrom, readLoop, init, grow, Facts.margin, Facts.chunkSize,
      Facts.growMin, min3, errOfCode])

theorem hp0_shrink : hp0.shrink.1 = hp0 := rfl
theorem hp0_read : hp0.readFrom rF = (hpF1, rF2, 8, .full) := by eval_buf

theorem hpF1_parse : hpF1.parse 0 = (hpF2, 8, .ok, blk1) := by
  rw [Parser.parse_single hpF1 0 _ rfl (by decide)
    (Parser.marginOK_of_cap _ (Or.inr (by decide)) (by decide))]
  simp only [runGreedy_eq_fuel]
  refine Prod.ext ?_ ?_
  · rfl
  · decide

/-- **call 1**: two short reads fill the buffer (`ErrFullBuffer` with `k = 8`), one block of 8 -/
theorem hp_call1 : (Wrapped.mk rF hp0).parse 0 = (⟨rF2, hpF2⟩, 8, .ok, blk1) := by
  rw [parse_of_retry ⟨rF, hp0⟩ 0 hpF1 rF2 8 .full
    (Parser.parse_of_blockN_zero _ _ (by decide)) hp0_read (by decide) (by decide)]
  exact parse_of_block ⟨rF2, hpF1⟩ 0 _ hpF1_parse (by decide)

theorem hpF2_shrink : hpF2.shrink.1 = hpF2s := by
  simp [Parser.shrink, PBuf.shrink, hpF2, hpF2s, hp0, hpBuf, bc8, tb, HashT.shiftOffsets]
theorem hpF2s_read : hpF2s.readFrom rF2 = (hpF2s, rF3, 0, .reader 7) := by eval_buf

/-- **call 2**: the reader fails without data: `(0, reader 7)`; all 8 bytes read so far have been
    delivered by call 1 -/
theorem hp_call2 : (Wrapped.mk rF2 hpF2).parse 0 = (⟨rF3, hpF2s⟩, 0, .reader 7, ⟨[], []⟩) :=
  parse_of_stop ⟨rF2, hpF2⟩ 0 hpF2s rF3 (.reader 7)
    (Parser.parse_of_blockN_zero _ _ (by decide)) (by rw [hpF2_shrink]; exact hpF2s_read) (by decide)

theorem hpF2s_shrink : hpF2s.shrink.1 = hpF2s := rfl
theorem hpF2s_read3 : hpF2s.readFrom rF3 = (hpF4, rDone, 4, .eof) := by eval_buf

theorem hpF4_parse : hpF4.parse 1 = (hpF5, 4, .ok, blk2) := by
  rw [Parser.parse_single hpF4 1 _ rfl (by decide)
    (Parser.marginOK_of_cap _ (Or.inr (by decide)) (by decide))]
  simp only [runGreedy_eq_fuel]
  refine Prod.ext ?_ ?_
  · rfl
  · decide

/-- **call 3** (NoTrailingLiterals): the reader has recovered: 1 byte, then 3 bytes with io.EOF;
    the block continues exactly where call 1 stopped -/
theorem hp_call3 : (Wrapped.mk rF3 hpF2s).parse 1 = (⟨rDone, hpF5⟩, 4, .ok, blk2) := by
  rw [parse_of_retry ⟨rF3, hpF2s⟩ 1 hpF4 rDone 4 .eof
    (Parser.parse_of_blockN_zero _ _ (by decide)) (by rw [hpF2s_shrink]; exact hpF2s_read3)
    (by decide) (by decide)]
  exact parse_of_block ⟨rDone, hpF4⟩ 1 _ hpF4_parse (by decide)

theorem hpF5_shrink : hpF5.shrink.1 = hpF6 := by
  simp [Parser.shrink, PBuf.shrink, hpF5, hpF6, hp0, hpBuf, bc8, tb, HashT.shiftOffsets]
  decide
theorem hpF6_read : hpF6.readFrom rDone = (hpF6, rDone, 0, .eof) := by eval_buf

/-- **call 4**: `(0, io.EOF)` -/
theorem hp_call4 : (Wrapped.mk rDone hpF5).parse 1 = (⟨rDone, hpF6⟩, 0, .eof, ⟨[], []⟩) :=
  parse_of_stop ⟨rDone, hpF5⟩ 1 hpF6 rDone .eof
    (Parser.parse_of_blockN_zero _ _ (by decide)) (by rw [hpF5_shrink]; exact hpF6_read) (by decide)

/-- the wrapped history of the HP parser on the failing reader: block, the reader's error with
    `n = 0`, block after recovery, io.EOF -/
theorem hp_run : (Wrapped.runW ⟨rF, hp0⟩ [.parse 0, .parse 0, .parse 1, .parse 1]).2 =
    [(8, .ok, blk1), (0, .reader 7, ⟨[], []⟩), (4, .ok, blk2), (0, .eof, ⟨[], []⟩)] := by
  simp only [Wrapped.runW, Wrapped.stepW, hp_call1, hp_call2, hp_call3, hp_call4]

/-- nothing lost, nothing duplicated: the two blocks expand to the payload -/
example : decode [] [.block 8 0 blk1, .block 4 1 blk2] = some dat2 := by decide

/-! ## instances of the theorems -/

theorem fillR_rA : FillR rA := by unfold FillR; decide
theorem fillR_rB : FillR rB := by unfold FillR; decide

/-- the invariant holds after the evaluated OSAP history (reader with short reads and data+EOF) -/
example : ∃ fed, WInv I_all (Wrapped.runW ⟨rS, osap0⟩ [.parse 0, .parse 0, .parse 1]).1 fed :=
  C08_reachable_winv .OSAP osapCfg osap0 osap0_new rS _

/-- … and after the HP history with the failing reader, with a `Reset` in between -/
example : ∃ fed, WInv I_all
    (Wrapped.runW ⟨rF, hp0⟩ [.parse 0, .parse 0, .reset rS, .parse 1, .parse 1]).1 fed :=
  C08_reachable_winv .HP hpCfg hp0 hp0_new rF _

/-- chunking independence, OSAP: byte-by-byte reader against one-piece reader, with a `Reset` to
    readers chunked the other way round -/
theorem osap_chunking :
    (Wrapped.runW ⟨rA, osap0⟩ [.parse 0, .parse 1, .reset rB, .parse 0, .parse 0]).2 =
    (Wrapped.runW ⟨rB, osap0⟩ [.parse 0, .parse 1, .reset rA, .parse 0, .parse 0]).2 :=
  C08_chunking_independent .OSAP osapCfg osap0 osap0_new rA rB rfl fillR_rA fillR_rB _ _
    ⟨rfl, rfl, ⟨rfl, fillR_rB, fillR_rA⟩, rfl, rfl, trivial⟩

/-- the same for HP -/
theorem hp_chunking :
    (Wrapped.runW ⟨rA, hp0⟩ [.parse 0, .parse 1, .reset rB, .parse 0, .parse 0]).2 =
    (Wrapped.runW ⟨rB, hp0⟩ [.parse 0, .parse 1, .reset rA, .parse 0, .parse 0]).2 :=
  C08_chunking_independent .HP hpCfg hp0 hp0_new rA rB rfl fillR_rA fillR_rB _ _
    ⟨rfl, rfl, ⟨rfl, fillR_rB, fillR_rA⟩, rfl, rfl, trivial⟩

/-- the one-piece reader evaluated: `ReadFrom` takes the five bytes with one `Read`; the
    remaining responses answer `(0, nil)` ("nothing happened", `ReadFrom` calls `Read` again)
    until the script is exhausted: io.EOF -/
theorem osap0_refillB :
    osap0.shrink.1.readFrom rB = (osap1, ⟨[], []⟩, 5, .eof) := by
  simp [Parser.shrink, Parser.readFrom, osap0, osap1, rB, dat, bc8, readFrom, readLoop,
    shrink, init, grow, Facts.margin, Facts.chunkSize, Facts.growMin, min3, errOfCode]

theorem osapB_call1 : ((Wrapped.mk rB osap0).parse 0).2 = (5, .ok, blkAB) := by
  rw [parse_of_retry ⟨rB, osap0⟩ 0 osap1 _ 5 .eof
    (Parser.parse_of_blockN_zero _ _ (by decide)) osap0_refillB (by decide) (by decide)]
  rw [parse_of_block ⟨_, osap1⟩ 0 _ osap1_parse (by decide)]

/-- … hence, by chunking independence and without evaluating anything, the byte-by-byte reader
    gets the same first result -/
example : ((Wrapped.mk rA osap0).parse 0).2 = (5, .ok, blkAB) := by
  have := C08_chunking_independent .OSAP osapCfg osap0 osap0_new rA rB rfl fillR_rA fillR_rB
    [.parse 0] [.parse 0] ⟨rfl, trivial⟩
  simp only [Wrapped.runW, Wrapped.stepW, List.cons.injEq, and_true] at this
  rw [this]; exact osapB_call1

/-- completeness, OSAP with the byte-by-byte reader: whatever the blocks are, they expand to a
    prefix of "ababa", all calls return a block or io.EOF, and io.EOF means everything was
    delivered -/
example :
    let run := Wrapped.runW ⟨rA, osap0⟩ [WOp.parse 0, WOp.parse 1, WOp.parse 0]
    decode [] (okEvents [0, 1, 0] run.2) = some (dat.take ((run.2.map (·.1)).sum)) ∧
    (∀ o ∈ run.2, (o.2.1 = .ok ∧ 1 ≤ o.1) ∨ (o.1 = 0 ∧ o.2.1 = .eof)) ∧
    ((run.1.parse 0).2.2.1 = .eof → decode [] (okEvents [0, 1, 0] run.2) = some dat) :=
  C08_complete_calls .OSAP osapCfg osap0 osap0_new rA fillR_rA [0, 1, 0] 0

/-- the hypothesis of `C08_fault` for the evaluated HP history: the second call returns the
    reader's error -/
theorem hp_fault_hyp : ((Wrapped.runW ⟨rF, hp0⟩ [.parse 0]).1.parse 0).2.2.1 = .reader 7 := by
  simp only [Wrapped.runW, Wrapped.stepW, hp_call1, hp_call2]

/-- `C08_fault` applied to it -/
example := C08_fault .HP hpCfg hp0 hp0_new rF [.parse 0] 0 7 hp_fault_hyp

/-- the ghost state of the evaluated OSAP history (reader with short reads and data+EOF): the one
    block, 5 bytes consumed, 5 bytes read -/
example : (Wrapped.runG (⟨rS, osap0⟩, Ghost.init) [.parse 0, .parse 0]).2.consumed = 5 ∧
    (Wrapped.runG (⟨rS, osap0⟩, Ghost.init) [.parse 0, .parse 0]).2.fed = dat := by
  simp only [Wrapped.runG, List.foldl, Wrapped.stepG, osap_call1, osap_call2]
  decide

/-! ## data together with io.EOF (`TruthR`) -/

/-- byte by byte, the last byte together with io.EOF -/
def rE : Reader := ⟨dat, [(1, 0), (1, 0), (1, 0), (1, 0), (1, 1)]⟩

theorem truthR_rE : TruthR rE :=
  Or.inr (Or.inl ⟨[(1, 0), (1, 0), (1, 0), (1, 0)], 1, [], rfl, by decide, by decide, by decide,
    by simp⟩)

/-- `rE` is not in the class `FillR` of `WSim` / `C08_chunking_independent` -/
example : ¬ FillR rE := by unfold FillR; decide

/-- chunking independence with data+EOF: the reader that returns its last byte together with
    io.EOF against the one-piece reader, OSAP -/
theorem osap_chunking_eof :
    (Wrapped.runW ⟨rE, osap0⟩ [.parse 0, .parse 1, .reset rB, .parse 0]).2 =
    (Wrapped.runW ⟨rB, osap0⟩ [.parse 0, .parse 1, .reset rE, .parse 0]).2 :=
  C08_chunking_independent_eof .OSAP osapCfg osap0 osap0_new rE rB rfl truthR_rE
    (TruthR.of_fillR fillR_rB) _ _
    ⟨rfl, rfl, ⟨rfl, TruthR.of_fillR fillR_rB, truthR_rE⟩, rfl, trivial⟩

/-- … so its first result is the evaluated one of the one-piece reader -/
example : ((Wrapped.mk rE osap0).parse 0).2 = (5, .ok, blkAB) := by
  have := C08_chunking_independent_eof .OSAP osapCfg osap0 osap0_new rE rB rfl truthR_rE
    (TruthR.of_fillR fillR_rB) [.parse 0] [.parse 0] ⟨rfl, trivial⟩
  simp only [Wrapped.runW, Wrapped.stepW, List.cons.injEq, and_true] at this
  rw [this]; exact osapB_call1

/-- io.EOF is reached within 6 calls (payload of 5 bytes), HP, reader with data+EOF -/
example : ∃ o ∈ (Wrapped.runW ⟨rE, hp0⟩ ([0, 1, 0, 1, 0, 1].map WOp.parse)).2, o.1 = 0 ∧ o.2.1 = .eof :=
  C08_eof_reached .HP hpCfg hp0 hp0_new rE truthR_rE [0, 1, 0, 1, 0, 1] (by decide)

/-! ## a reader error that comes together with data is never reported -/

/-- one response: all 5 bytes together with error 7; afterwards the script is exhausted (io.EOF) -/
def rX : Reader := ⟨dat, [(5, 7)]⟩

def hpX1 : Parser := { hp0 with buf := hpBuf dat 0 0 }
def hpX2 : Parser :=
  { hp0 with buf := hpBuf dat 5 0, dict := .single (tb [(4, 3, 24930), (7, 2, 25185)]) }
def hpX3 : Parser := { hp0 with buf := hpBuf [98, 97] 2 3, dict := .single (tb [(4, 0, 24930)]) }

local macro "eval_bufX" : tactic =>
  `(tactic| simp [Parser.readFrom, hp0, hpX1, hpX2, hpX3, hpBuf, rX, rDone, dat, bc8, readFrom,
      readLoop, init, grow, Facts.margin, Facts.chunkSize, Facts.growMin, min3, errOfCode])

theorem hp0_readX : hp0.readFrom rX = (hpX1, rDone, 5, .reader 7) := by eval_bufX

theorem hpX1_parse : hpX1.parse 0 = (hpX2, 5, .ok, blkAB) := by
  rw [Parser.parse_single hpX1 0 _ rfl (by decide)
    (Parser.marginOK_of_cap _ (Or.inr (by decide)) (by decide))]
  simp only [runGreedy_eq_fuel]
  refine Prod.ext ?_ ?_
  · rfl
  · decide

theorem hpX2_shrink : hpX2.shrink.1 = hpX3 := by
  simp [Parser.shrink, PBuf.shrink, hpX2, hpX3, hp0, hpBuf, bc8, tb, HashT.shiftOffsets, dat]
  decide

theorem hpX3_read : hpX3.readFrom rDone = (hpX3, rDone, 0, .eof) := by eval_bufX

/-- **Observation (wrap.go: `if k, err := ReadFrom(r); k == 0 { return 0, err }`).**  The reader
    returns all its data together with error 7.  `ReadFrom` returns `(5, reader 7)`;
    `WrappedParser.Parse` looks at the error only when `k = 0`, so it parses the 5 bytes and returns
    `(5, nil)`; the next call reads again and gets io.EOF.  The caller never sees error 7.
    (No byte is lost or duplicated — `C08_fault` is about calls that DO return the reader's error —
    but "the reader's error is returned" holds only for errors that come without data, or for
    readers that repeat their error.) -/
theorem hp_error_with_data_dropped :
    (Wrapped.runW ⟨rX, hp0⟩ [.parse 0, .parse 0]).2 = [(5, .ok, blkAB), (0, .eof, ⟨[], []⟩)] := by
  have c1 : (Wrapped.mk rX hp0).parse 0 = (⟨rDone, hpX2⟩, 5, .ok, blkAB) := by
    rw [parse_of_retry ⟨rX, hp0⟩ 0 hpX1 rDone 5 (.reader 7)
      (Parser.parse_of_blockN_zero _ _ (by decide)) hp0_readX (by decide) (by decide)]
    exact parse_of_block ⟨rDone, hpX1⟩ 0 _ hpX1_parse (by decide)
  have c2 : (Wrapped.mk rDone hpX2).parse 0 = (⟨rDone, hpX3⟩, 0, .eof, ⟨[], []⟩) :=
    parse_of_stop ⟨rDone, hpX2⟩ 0 hpX3 rDone .eof
      (Parser.parse_of_blockN_zero _ _ (by decide)) (by rw [hpX2_shrink]; exact hpX3_read)
      (by decide)
  simp only [Wrapped.runW, Wrapped.stepW, c1, c2]

end WrapEx
end LZ

#print axioms LZ.WrapEx.osap_run
#print axioms LZ.WrapEx.hp_run
#print axioms LZ.WrapEx.osap_chunking
#print axioms LZ.WrapEx.osap_chunking_eof
#print axioms LZ.WrapEx.hp_error_with_data_dropped
