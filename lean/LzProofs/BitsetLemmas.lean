/-
  LzProofs.BitsetLemmas — helper lemmas for the word-level bitset model (LzModel/BitsetW.lean).
-/
import LzModel.BitsetW
namespace LZ
namespace BitsetW

/-! ## A. arrays as total functions (`rd`) -/

@[simp] theorem size_tabulate (n : Nat) (f : Nat → UInt64) : (tabulate n f).size = n := by
  simp [tabulate]

theorem rd_tabulate (n : Nat) (f : Nat → UInt64) (i : Nat) :
    rd (tabulate n f) i = if i < n then f i else 0 := by
  unfold rd tabulate
  by_cases h : i < n <;> simp [Array.getD_eq_getD_getElem?, h]

theorem rd_of_size_le {arr : Array UInt64} {i : Nat} (h : arr.size ≤ i) : rd arr i = 0 := by
  unfold rd
  simp [Array.getD_eq_getD_getElem?, h]

@[simp] theorem size_make (n : Nat) : (make n).size = n := by simp [make]

theorem rd_make (n i : Nat) : rd (make n) i = 0 := by
  simp [make, rd_tabulate]

@[simp] theorem size_zeroRange (arr : Array UInt64) (lo hi : Nat) :
    (zeroRange arr lo hi).size = arr.size := by simp [zeroRange]

theorem rd_zeroRange (arr : Array UInt64) (lo hi i : Nat) :
    rd (zeroRange arr lo hi) i = if lo ≤ i ∧ i < hi then 0 else rd arr i := by
  simp only [zeroRange, rd_tabulate]
  by_cases h : i < arr.size
  · simp [h]
  · simp [h, rd_of_size_le (Nat.le_of_not_lt h)]

@[simp] theorem size_goCopy (arr : Array UInt64) (lo hi : Nat) (src : Array UInt64) :
    (goCopy arr lo hi src).1.size = arr.size := by simp [goCopy]

@[simp] theorem goCopy_snd (arr : Array UInt64) (lo hi : Nat) (src : Array UInt64) :
    (goCopy arr lo hi src).2 = min (hi - lo) src.size := rfl

theorem rd_goCopy (arr : Array UInt64) (lo hi : Nat) (src : Array UInt64) (i : Nat) :
    rd (goCopy arr lo hi src).1 i =
      if i < arr.size then
        (if lo ≤ i ∧ i < lo + min (hi - lo) src.size then rd src (i - lo) else rd arr i)
      else 0 := by
  simp only [goCopy, rd_tabulate]

theorem size_a (b : BitsetW) : b.a.size = min b.len b.backing.size := by
  simp [a]

theorem rd_a (b : BitsetW) (i : Nat) : rd b.a i = if i < b.len then rd b.backing i else 0 := by
  unfold rd a
  simp only [Array.getD_eq_getD_getElem?]
  by_cases h : i < b.len
  · simp [h]
  · simp [h, List.getElem?_take]

theorem rd_setIfInBounds (arr : Array UInt64) (k : Nat) (v : UInt64) (i : Nat) :
    rd (arr.setIfInBounds k v) i = if i = k ∧ k < arr.size then v else rd arr i := by
  unfold rd
  simp only [Array.getD_eq_getD_getElem?, Array.getElem?_setIfInBounds]
  by_cases h1 : k = i
  · subst h1
    by_cases h2 : k < arr.size <;> simp [h2]
  · have : ¬ i = k := fun h => h1 h.symm
    simp [h1, this]

/-! ## B. bits of a word -/

theorem shr6 (i : Nat) : i >>> 6 = i / 64 := by
  rw [Nat.shiftRight_eq_div_pow]
theorem and63 (i : Nat) : i &&& 63 = i % 64 := by
  have := Nat.and_two_pow_sub_one_eq_mod i 6
  simpa using this
theorem shl6 (i : Nat) : i <<< 6 = i * 64 := by
  rw [Nat.shiftLeft_eq]

theorem tb_ge (w : UInt64) {p : Nat} (h : 64 ≤ p) : tb w p = false := by
  unfold tb
  apply Nat.testBit_lt_two_pow
  have := w.toNat_lt
  calc w.toNat < 2^64 := this
    _ ≤ 2^p := Nat.pow_le_pow_right (by decide) h

@[simp] theorem tb_zero (p : Nat) : tb 0 p = false := by
  simp [tb]

theorem toNat_one_shl (s : Nat) (hs : s < 64) : ((1 : UInt64) <<< s.toUInt64).toNat = 2 ^ s := by
  rw [UInt64.toNat_shiftLeft]
  have h1 : s.toUInt64.toNat = s := by
    simp [Nat.toUInt64]; omega
  rw [h1, Nat.mod_eq_of_lt hs]
  simp [Nat.shiftLeft_eq]
  exact Nat.pow_lt_pow_right (a := 2) (by decide) hs

theorem tb_or_bit (w : UInt64) (s p : Nat) (hs : s < 64) :
    tb (w ||| ((1 : UInt64) <<< s.toUInt64)) p = (tb w p || decide (p = s)) := by
  unfold tb
  rw [UInt64.toNat_or, Nat.testBit_or, toNat_one_shl s hs, Nat.testBit_two_pow]
  simp [eq_comm]

theorem toNat_mask (s : Nat) (hs : s < 64) :
    (((1 : UInt64) <<< s.toUInt64) - 1).toNat = 2 ^ s - 1 := by
  rw [UInt64.toNat_sub_of_le, toNat_one_shl s hs]
  · rfl
  · rw [UInt64.le_iff_toNat_le, toNat_one_shl s hs]
    exact Nat.one_le_two_pow

theorem tb_and_mask (w : UInt64) (s p : Nat) (hs : s < 64) :
    tb (w &&& (((1 : UInt64) <<< s.toUInt64) - 1)) p = (tb w p && decide (p < s)) := by
  unfold tb
  rw [UInt64.toNat_and, Nat.testBit_and, toNat_mask s hs, Nat.testBit_two_pow_sub_one]

theorem tb_and_not_mask (w : UInt64) (s p : Nat) (hs : s < 64) :
    tb (w &&& ~~~(((1 : UInt64) <<< s.toUInt64) - 1)) p = (tb w p && decide (s ≤ p)) := by
  by_cases hp : p < 64
  · unfold tb
    rw [UInt64.toNat_and, Nat.testBit_and, UInt64.toNat_not, toNat_mask s hs]
    have : UInt64.size - 1 - (2 ^ s - 1) = 2 ^ 64 - ((2^s - 1) + 1) := by
      simp [UInt64.size]
    rw [this, Nat.testBit_two_pow_sub_succ, Nat.testBit_two_pow_sub_one]
    · by_cases hps : p < s
      · have : ¬ s ≤ p := by omega
        simp [hp, hps, this]
      · have : s ≤ p := by omega
        simp [hp, hps, this]
    · have := Nat.pow_lt_pow_right (a := 2) (by decide) hs
      omega
  · rw [tb_ge _ (Nat.le_of_not_lt hp), tb_ge _ (Nat.le_of_not_lt hp)]
    rfl

theorem tb_and_not_bit (w : UInt64) (s p : Nat) (hs : s < 64) :
    tb (w &&& ~~~((1 : UInt64) <<< s.toUInt64)) p = (tb w p && !decide (p = s)) := by
  by_cases hp : p < 64
  · unfold tb
    rw [UInt64.toNat_and, Nat.testBit_and, UInt64.toNat_not, toNat_one_shl s hs]
    have hlt := Nat.pow_lt_pow_right (a := 2) (by decide) hs
    have : UInt64.size - 1 - 2 ^ s = 2 ^ 64 - (2^s + 1) := by
      simp [UInt64.size]
    rw [this, Nat.testBit_two_pow_sub_succ hlt, Nat.testBit_two_pow]
    simp [hp, eq_comm]
  · rw [tb_ge _ (Nat.le_of_not_lt hp), tb_ge _ (Nat.le_of_not_lt hp)]
    rfl


/-! ## C. word scans -/

theorem hiBitBelow_some {w : UInt64} {p j : Nat} (h : hiBitBelow w p = some j) :
    j < p ∧ tb w j = true ∧ ∀ q, j < q → q < p → tb w q = false := by
  induction p with
  | zero => simp [hiBitBelow] at h
  | succ p ih =>
    unfold hiBitBelow at h
    split at h
    · next hb =>
      cases h
      exact ⟨by omega, hb, fun q h1 h2 => by omega⟩
    · next hb =>
      obtain ⟨h1, h2, h3⟩ := ih h
      refine ⟨by omega, h2, fun q hq1 hq2 => ?_⟩
      by_cases hqp : q = p
      · subst hqp; simpa using hb
      · exact h3 q hq1 (by omega)

theorem hiBitBelow_none {w : UInt64} {p : Nat} (h : hiBitBelow w p = none) :
    ∀ q, q < p → tb w q = false := by
  induction p with
  | zero => intro q hq; omega
  | succ p ih =>
    unfold hiBitBelow at h
    split at h
    · cases h
    · next hb =>
      intro q hq
      by_cases hqp : q = p
      · subst hqp; simpa using hb
      · exact ih h q (by omega)

theorem hiBit_some {w : UInt64} {j : Nat} (h : hiBit w = some j) :
    j < 64 ∧ tb w j = true ∧ ∀ q, j < q → tb w q = false := by
  obtain ⟨h1, h2, h3⟩ := hiBitBelow_some h
  refine ⟨h1, h2, fun q hq => ?_⟩
  by_cases hq64 : q < 64
  · exact h3 q hq hq64
  · exact tb_ge w (by omega)

theorem hiBit_none {w : UInt64} (h : hiBit w = none) : ∀ q, tb w q = false := by
  intro q
  by_cases hq64 : q < 64
  · exact hiBitBelow_none h q hq64
  · exact tb_ge w (by omega)

theorem loBitFrom_some {w : UInt64} {p f j : Nat} (h : loBitFrom w p f = some j) :
    p ≤ j ∧ j < p + f ∧ tb w j = true ∧ ∀ q, p ≤ q → q < j → tb w q = false := by
  induction f generalizing p with
  | zero => simp [loBitFrom] at h
  | succ f ih =>
    unfold loBitFrom at h
    split at h
    · next hb =>
      cases h
      exact ⟨by omega, by omega, hb, fun q h1 h2 => by omega⟩
    · next hb =>
      obtain ⟨h1, h2, h3, h4⟩ := ih h
      refine ⟨by omega, by omega, h3, fun q hq1 hq2 => ?_⟩
      by_cases hqp : q = p
      · subst hqp; simpa using hb
      · exact h4 q (by omega) hq2

theorem loBitFrom_none {w : UInt64} {p f : Nat} (h : loBitFrom w p f = none) :
    ∀ q, p ≤ q → q < p + f → tb w q = false := by
  induction f generalizing p with
  | zero => intro q h1 h2; omega
  | succ f ih =>
    unfold loBitFrom at h
    split at h
    · cases h
    · next hb =>
      intro q h1 h2
      by_cases hqp : q = p
      · subst hqp; simpa using hb
      · exact ih h q (by omega) (by omega)

theorem loBit_some {w : UInt64} {j : Nat} (h : loBit w = some j) :
    j < 64 ∧ tb w j = true ∧ ∀ q, q < j → tb w q = false := by
  obtain ⟨_, h2, h3, h4⟩ := loBitFrom_some h
  exact ⟨by omega, h3, fun q hq => h4 q (by omega) hq⟩

theorem loBit_none {w : UInt64} (h : loBit w = none) : ∀ q, tb w q = false := by
  intro q
  by_cases hq64 : q < 64
  · exact loBitFrom_none h q (by omega) (by omega)
  · exact tb_ge w (by omega)

/-! ### the inner loop of `slice` -/

theorem wordLoop_mem_imp {base : Nat} {fuel : Nat} {x : UInt64} {m : Nat}
    (h : m ∈ wordLoop base x fuel) : ∃ q, q < 64 ∧ m = base + q ∧ tb x q = true := by
  induction fuel generalizing x with
  | zero => simp [wordLoop] at h
  | succ f ih =>
    unfold wordLoop at h
    split at h
    · simp at h
    · next i hi =>
      obtain ⟨hi1, hi2, hi3⟩ := loBit_some hi
      rcases List.mem_cons.mp h with h | h
      · exact ⟨i, hi1, h, hi2⟩
      · obtain ⟨q, hq1, hq2, hq3⟩ := ih h
        rw [tb_and_not_bit x i q hi1] at hq3
        simp at hq3
        exact ⟨q, hq1, hq2, hq3.1⟩

theorem wordLoop_mem {base : Nat} {m : Nat} (fuel : Nat) (x : UInt64) (p : Nat)
    (hlow : ∀ q, q < p → tb x q = false) (hf : 64 ≤ p + fuel) :
    m ∈ wordLoop base x fuel ↔ ∃ q, m = base + q ∧ tb x q = true := by
  constructor
  · intro h
    obtain ⟨q, _, h2, h3⟩ := wordLoop_mem_imp h
    exact ⟨q, h2, h3⟩
  · rintro ⟨q, rfl, hq⟩
    induction fuel generalizing x p with
    | zero =>
      have : tb x q = false := by
        by_cases hq64 : q < 64
        · exact hlow q (by omega)
        · exact tb_ge x (by omega)
      simp [this] at hq
    | succ f ih =>
      unfold wordLoop
      split
      · next hn => simp [loBit_none hn q] at hq
      · next i hi =>
        obtain ⟨hi1, hi2, hi3⟩ := loBit_some hi
        by_cases hqi : q = i
        · subst hqi; simp
        · apply List.mem_cons_of_mem
          have hpi : p ≤ i := by
            apply Nat.le_of_not_lt
            intro hlt
            have := hlow i hlt
            simp [this] at hi2
          apply ih _ (i+1)
          · intro r hr
            rw [tb_and_not_bit x i r hi1]
            by_cases hri : r = i
            · simp [hri]
            · simp [hi3 r (by omega)]
          · omega
          · rw [tb_and_not_bit x i q hi1]
            simp [hq, hqi]

theorem wordLoop_sorted (base : Nat) (fuel : Nat) (x : UInt64) :
    List.Pairwise (· < ·) (wordLoop base x fuel) := by
  induction fuel generalizing x with
  | zero => simp [wordLoop]
  | succ f ih =>
    unfold wordLoop
    split
    · simp
    · next i hi =>
      obtain ⟨hi1, hi2, hi3⟩ := loBit_some hi
      rw [List.pairwise_cons]
      refine ⟨fun m hm => ?_, ih _⟩
      obtain ⟨q, hq1, hq2, hq3⟩ := wordLoop_mem_imp hm
      rw [tb_and_not_bit x i q hi1] at hq3
      simp at hq3
      have : ¬ q < i := fun hlt => by simp [hi3 q hlt] at hq3
      omega


/-! ## D. invariant, membership, `support` -/

/-- the only invariant needed: `len(a) ≤ cap(a)`.  The contents of the backing array —
    in particular everything at and behind position `len` — are arbitrary. -/
def WInv (b : BitsetW) : Prop := b.len ≤ b.backing.size

instance (b : BitsetW) : Decidable (WInv b) := by unfold WInv; infer_instance

/-- `i` is a member: bit `i % 64` of word `a[i/64 - off]` is set -/
def mem (b : BitsetW) (i : Nat) : Prop :=
  b.off ≤ i / 64 ∧ i / 64 - b.off < b.len ∧ tb (rd b.backing (i / 64 - b.off)) (i % 64) = true

instance (b : BitsetW) (i : Nat) : Decidable (mem b i) := by unfold mem; infer_instance

/-- what `support` has to achieve for the words: the new array `a'` (length `n`, offset `yoff`)
    contains the old words shifted by `d` and zeros elsewhere -/
structure Shifted (b b' : BitsetW) (d : Nat) : Prop where
  inv : WInv b'
  len_ge : d + b.len ≤ b'.len
  off_eq : b.len ≠ 0 → b'.off + d = b.off
  words : ∀ idx, idx < b'.len →
    rd b'.backing idx = if d ≤ idx ∧ idx < d + b.len then rd b.backing (idx - d) else 0

theorem Shifted.mem_iff {b b' : BitsetW} {d : Nat} (h : Shifted b b' d) (i : Nat) :
    mem b' i ↔ mem b i := by
  unfold mem
  by_cases hl : b.len = 0
  · have h1 : ¬ (i / 64 - b.off < b.len) := by omega
    constructor
    · rintro ⟨h2, h3, h4⟩
      rw [h.words _ h3] at h4
      have : ¬ (d ≤ i / 64 - b'.off ∧ i / 64 - b'.off < d + b.len) := by omega
      simp [this] at h4
    · rintro ⟨_, h3, _⟩
      exact absurd h3 h1
  · have ho := h.off_eq hl
    have hlen := h.len_ge
    constructor
    · rintro ⟨h2, h3, h4⟩
      rw [h.words _ h3] at h4
      split at h4
      · next hc =>
        have : i / 64 - b'.off - d = i / 64 - b.off := by omega
        rw [this] at h4
        exact ⟨by omega, by omega, h4⟩
      · simp at h4
    · rintro ⟨h2, h3, h4⟩
      have h3' : i / 64 - b'.off < b'.len := by omega
      refine ⟨by omega, h3', ?_⟩
      rw [h.words _ h3']
      have hc : d ≤ i / 64 - b'.off ∧ i / 64 - b'.off < d + b.len := by omega
      have : i / 64 - b'.off - d = i / 64 - b.off := by omega
      simp only [hc, and_self, if_true, this]
      exact h4

theorem support_cases (b : BitsetW) (hb : WInv b) (mn mx : Nat) :
    (b.off ≤ mn / 64 ∧ mx / 64 < b.off + b.len ∧ b.support mn mx = b) ∨
    (¬ (b.off ≤ mn / 64 ∧ mx / 64 < b.off + b.len) ∧
      (b.support mn mx).off = (supportOffD b (mn / 64)).1 ∧
      (b.support mn mx).len =
        supportN b (mx / 64) (supportOffD b (mn / 64)).1 (supportOffD b (mn / 64)).2 ∧
      Shifted b (b.support mn mx) (supportOffD b (mn / 64)).2) := by
  by_cases hc : b.off ≤ mn / 64 ∧ mx / 64 < b.off + b.len
  · left
    refine ⟨hc.1, hc.2, ?_⟩
    simp [support, shr6, hc]
  · right
    refine ⟨hc, ?_⟩
    generalize hyd : supportOffD b (mn / 64) = yd
    obtain ⟨yoff, d⟩ := yd
    have hoff : b.len ≠ 0 → yoff + d = b.off := by
      intro hl
      unfold supportOffD at hyd
      simp only [hl, if_false] at hyd
      split at hyd <;> cases hyd <;> omega
    have hn : d + b.len ≤ supportN b (mx / 64) yoff d := by
      unfold supportN; simp only; split <;> omega
    generalize hnn : supportN b (mx / 64) yoff d = n at hn
    have hsz : b.a.size = b.len := by rw [size_a]; exact Nat.min_eq_left hb
    have hk : min (n - d) b.a.size = b.len := by rw [hsz]; omega
    by_cases hcap : n > b.cap
    · have e : b.support mn mx =
          { backing := (goCopy (make n) d n b.a).1, len := n, off := yoff } := by
        simp [support, shr6, hc, hyd, hnn, hcap]
      rw [e]
      refine ⟨rfl, rfl, ⟨?_, hn, hoff, ?_⟩⟩
      · simp [WInv]
      · intro idx hidx
        simp only at hidx
        simp only [rd_goCopy, size_make, hidx, if_true, hk, rd_make, rd_a]
        split
        · next h1 => have : idx - d < b.len := by omega
                     simp [this]
        · rfl
    · have e : b.support mn mx =
          { backing := zeroRange (zeroRange (goCopy b.backing d n b.a).1 0 d)
                         (d + (goCopy b.backing d n b.a).2) n, len := n, off := yoff } := by
        simp [support, shr6, hc, hyd, hnn, hcap]
      rw [e]
      have hcap' : n ≤ b.backing.size := by unfold cap at hcap; omega
      refine ⟨rfl, rfl, ⟨?_, hn, hoff, ?_⟩⟩
      · simp [WInv, hcap']
      · intro idx hidx
        simp only at hidx
        have hi : idx < b.backing.size := by omega
        simp only [rd_zeroRange, rd_goCopy, goCopy_snd, hk, hi, if_true, rd_a]
        by_cases h1 : d + b.len ≤ idx
        · have c1 : d + b.len ≤ idx ∧ idx < n := ⟨h1, hidx⟩
          have c2 : ¬ (d ≤ idx ∧ idx < d + b.len) := by omega
          simp [c1, c2]
        · have c1 : ¬ (d + b.len ≤ idx ∧ idx < n) := by omega
          by_cases h2 : idx < d
          · have c2 : ¬ (d ≤ idx ∧ idx < d + b.len) := by omega
            simp [c1, c2, h2]
          · have c2 : d ≤ idx ∧ idx < d + b.len := by omega
            have c3 : idx - d < b.len := by omega
            simp [c1, c2, h2, c3]


theorem support_inv (b : BitsetW) (hb : WInv b) (mn mx : Nat) : WInv (b.support mn mx) := by
  rcases support_cases b hb mn mx with ⟨_, _, e⟩ | ⟨_, _, _, h⟩
  · rw [e]; exact hb
  · exact h.inv

theorem support_mem (b : BitsetW) (hb : WInv b) (mn mx i : Nat) :
    mem (b.support mn mx) i ↔ mem b i := by
  rcases support_cases b hb mn mx with ⟨_, _, e⟩ | ⟨_, _, _, h⟩
  · rw [e]
  · exact h.mem_iff i

/-- after `support(min, max)` every word index between `min>>6` and `max>>6` is inside `a` -/
theorem support_covers (b : BitsetW) (hb : WInv b) (mn mx : Nat) (hmm : mn ≤ mx) :
    (b.support mn mx).off ≤ mn / 64 ∧
      mx / 64 < (b.support mn mx).off + (b.support mn mx).len := by
  have hdiv : mn / 64 ≤ mx / 64 := Nat.div_le_div_right hmm
  rcases support_cases b hb mn mx with ⟨h1, h2, e⟩ | ⟨hc, ho, hl, _⟩
  · rw [e]; exact ⟨h1, h2⟩
  · rw [ho, hl]
    unfold supportN supportOffD
    simp only
    split <;> split <;> (try split) <;> simp only <;> omega

/-! ### setting bits -/

theorem setBit_spec (b : BitsetW) (hb : WInv b) (j : Nat)
    (hj : b.off ≤ j / 64 ∧ j / 64 < b.off + b.len) :
    ∃ b', setBit b j = some b' ∧ WInv b' ∧ b'.off = b.off ∧ b'.len = b.len ∧
      ∀ i, mem b' i ↔ (mem b i ∨ i = j) := by
  have hk : j / 64 - b.off < b.len := by omega
  have hk' : j / 64 - b.off < b.backing.size := Nat.lt_of_lt_of_le hk hb
  have hj64 : j % 64 < 64 := Nat.mod_lt _ (by decide)
  refine ⟨{ b with backing := (b.backing.setIfInBounds (j / 64 - b.off)
            (rd b.backing (j / 64 - b.off) ||| ((1 : UInt64) <<< (j % 64).toUInt64))) },
    by simp only [setBit, shr6, and63]; rw [if_pos ⟨hj.1, hk⟩], ?_, rfl, rfl, ?_⟩
  · simpa [WInv] using hb
  · intro i
    unfold mem
    simp only [rd_setIfInBounds]
    by_cases hik : i / 64 - b.off = j / 64 - b.off
    · simp only [hik, hk', and_self, if_true, tb_or_bit _ _ _ hj64, Bool.or_eq_true,
        decide_eq_true_eq]
      constructor
      · rintro ⟨h1, h2, h3 | h3⟩
        · exact Or.inl ⟨h1, h2, h3⟩
        · right; omega
      · rintro (⟨h1, h2, h3⟩ | h)
        · exact ⟨h1, h2, Or.inl h3⟩
        · subst h; exact ⟨hj.1, hk, Or.inr rfl⟩
    · simp only [hik, false_and, if_false]
      constructor
      · intro h; exact Or.inl h
      · rintro (h | h)
        · exact h
        · subst h; exact absurd rfl hik

theorem setBits_spec (js : List Nat) (b : BitsetW) (hb : WInv b)
    (hj : ∀ j ∈ js, b.off ≤ j / 64 ∧ j / 64 < b.off + b.len) :
    ∃ b', setBits b js = some b' ∧ WInv b' ∧ b'.off = b.off ∧ b'.len = b.len ∧
      ∀ i, mem b' i ↔ (mem b i ∨ i ∈ js) := by
  induction js generalizing b with
  | nil => exact ⟨b, rfl, hb, rfl, rfl, by simp⟩
  | cons j js ih =>
    obtain ⟨b1, e1, inv1, o1, l1, m1⟩ := setBit_spec b hb j (hj j (by simp))
    obtain ⟨b2, e2, inv2, o2, l2, m2⟩ := ih b1 inv1 (fun x hx => by
      rw [o1, l1]; exact hj x (List.mem_cons_of_mem _ hx))
    refine ⟨b2, by simp [setBits, e1, e2], inv2, by omega, by omega, fun i => ?_⟩
    rw [m2, m1, List.mem_cons, or_assoc]

theorem minOf_le (i0 : Nat) (rest : List Nat) :
    minOf i0 rest ≤ i0 ∧ ∀ j ∈ rest, minOf i0 rest ≤ j := by
  unfold minOf
  induction rest generalizing i0 with
  | nil => simp
  | cons x xs ih =>
    simp only [List.foldl_cons, List.mem_cons]
    by_cases hx : x < i0
    · simp only [hx, if_true]
      obtain ⟨h1, h2⟩ := ih x
      refine ⟨by omega, fun j hj => ?_⟩
      rcases hj with rfl | hj
      · exact h1
      · exact h2 j hj
    · simp only [hx, if_false]
      obtain ⟨h1, h2⟩ := ih i0
      refine ⟨h1, fun j hj => ?_⟩
      rcases hj with rfl | hj
      · omega
      · exact h2 j hj

theorem le_maxOf (i0 : Nat) (rest : List Nat) :
    i0 ≤ maxOf i0 rest ∧ ∀ j ∈ rest, j ≤ maxOf i0 rest := by
  unfold maxOf
  induction rest generalizing i0 with
  | nil => simp
  | cons x xs ih =>
    simp only [List.foldl_cons, List.mem_cons]
    by_cases hx : x > i0
    · simp only [hx, if_true]
      obtain ⟨h1, h2⟩ := ih x
      refine ⟨by omega, fun j hj => ?_⟩
      rcases hj with rfl | hj
      · exact h1
      · exact h2 j hj
    · simp only [hx, if_false]
      obtain ⟨h1, h2⟩ := ih i0
      refine ⟨h1, fun j hj => ?_⟩
      rcases hj with rfl | hj
      · omega
      · exact h2 j hj

/-- `insert` never panics, keeps the invariant and adds exactly the given numbers -/
theorem insert_spec (b : BitsetW) (hb : WInv b) (is : List Nat) :
    ∃ b', b.insert is = some b' ∧ WInv b' ∧ ∀ i, mem b' i ↔ (mem b i ∨ i ∈ is) := by
  cases is with
  | nil => exact ⟨b, rfl, hb, by simp⟩
  | cons i0 rest =>
    have hmin := minOf_le i0 rest
    have hmax := le_maxOf i0 rest
    have hmm : minOf i0 rest ≤ maxOf i0 rest := by omega
    have hcov := support_covers b hb _ _ hmm
    have hinv := support_inv b hb (minOf i0 rest) (maxOf i0 rest)
    obtain ⟨b', e, inv', _, _, m'⟩ := setBits_spec (i0 :: rest) _ hinv (fun j hj => by
      have h1 : minOf i0 rest ≤ j := by
        rcases List.mem_cons.mp hj with rfl | h
        · exact hmin.1
        · exact hmin.2 j h
      have h2 : j ≤ maxOf i0 rest := by
        rcases List.mem_cons.mp hj with rfl | h
        · exact hmax.1
        · exact hmax.2 j h
      have := Nat.div_le_div_right (c := 64) h1
      have := Nat.div_le_div_right (c := 64) h2
      omega)
    refine ⟨b', e, inv', fun i => ?_⟩
    rw [m', support_mem b hb]


/-! ## E. the abstraction `members` and sorted lists -/

/-- the set bits of a word, ascending -/
def wordBits (w : UInt64) : List Nat := (List.range 64).filter (tb w)

/-- the abstraction function: all members, ascending -/
def members (b : BitsetW) : List Nat :=
  (List.range b.len).flatMap fun k =>
    (wordBits (rd b.backing k)).map fun p => (b.off + k) * 64 + p

theorem mem_wordBits {w : UInt64} {p : Nat} : p ∈ wordBits w ↔ p < 64 ∧ tb w p = true := by
  simp [wordBits]

theorem mem_members {b : BitsetW} {i : Nat} : i ∈ members b ↔ mem b i := by
  unfold members mem
  simp only [List.mem_flatMap, List.mem_range, List.mem_map, mem_wordBits]
  constructor
  · rintro ⟨k, hk, p, ⟨hp, hb⟩, rfl⟩
    have e1 : ((b.off + k) * 64 + p) / 64 = b.off + k := by omega
    have e2 : ((b.off + k) * 64 + p) % 64 = p := by omega
    rw [e1, e2]
    have e3 : b.off + k - b.off = k := by omega
    rw [e3]
    exact ⟨by omega, hk, hb⟩
  · rintro ⟨h1, h2, h3⟩
    refine ⟨i / 64 - b.off, h2, i % 64, ⟨Nat.mod_lt _ (by decide), h3⟩, ?_⟩
    omega

theorem members_sorted (b : BitsetW) : (members b).Pairwise (· < ·) := by
  unfold members
  rw [List.pairwise_flatMap]
  constructor
  · intro k _
    rw [List.pairwise_map]
    unfold wordBits
    apply List.Pairwise.filter
    exact List.pairwise_lt_range.imp (fun h => by omega)
  · apply List.pairwise_lt_range.imp
    intro k1 k2 hk x hx y hy
    simp only [List.mem_map, mem_wordBits] at hx hy
    obtain ⟨p, ⟨hp, _⟩, rfl⟩ := hx
    obtain ⟨q, ⟨hq, _⟩, rfl⟩ := hy
    omega

theorem mem_slice {b : BitsetW} {i : Nat} : i ∈ b.slice ↔ mem b i := by
  unfold slice mem
  simp only [List.mem_flatMap, List.mem_range, shl6]
  constructor
  · rintro ⟨k, hk, hm⟩
    obtain ⟨p, hp, rfl, hb⟩ := wordLoop_mem_imp hm
    have e1 : ((b.off + k) * 64 + p) / 64 = b.off + k := by omega
    have e2 : ((b.off + k) * 64 + p) % 64 = p := by omega
    rw [e1, e2]
    have e3 : b.off + k - b.off = k := by omega
    rw [e3]
    exact ⟨by omega, hk, hb⟩
  · rintro ⟨h1, h2, h3⟩
    refine ⟨i / 64 - b.off, h2, ?_⟩
    rw [wordLoop_mem 64 _ 0 (fun q hq => by omega) (by omega)]
    exact ⟨i % 64, by omega, h3⟩

theorem slice_sorted (b : BitsetW) : b.slice.Pairwise (· < ·) := by
  unfold slice
  rw [List.pairwise_flatMap]
  constructor
  · intro k _
    exact wordLoop_sorted _ _ _
  · apply List.pairwise_lt_range.imp
    intro k1 k2 hk x hx y hy
    obtain ⟨p, hp, rfl, _⟩ := wordLoop_mem_imp hx
    obtain ⟨q, hq, rfl, _⟩ := wordLoop_mem_imp hy
    simp only [shl6]
    omega

/-- two strictly ascending lists with the same elements are equal -/
theorem sorted_ext {l₁ l₂ : List Nat} (h₁ : l₁.Pairwise (· < ·)) (h₂ : l₂.Pairwise (· < ·))
    (h : ∀ x, x ∈ l₁ ↔ x ∈ l₂) : l₁ = l₂ := by
  induction l₁ generalizing l₂ with
  | nil =>
    cases l₂ with
    | nil => rfl
    | cons y ys => have := (h y).2 (by simp); simp at this
  | cons x xs ih =>
    cases l₂ with
    | nil => have := (h x).1 (by simp); simp at this
    | cons y ys =>
      rw [List.pairwise_cons] at h₁ h₂
      have hxy : x = y := by
        have hx := (h x).1 (by simp)
        have hy := (h y).2 (by simp)
        rcases List.mem_cons.mp hx with e | hx
        · exact e
        · rcases List.mem_cons.mp hy with e | hy
          · exact e.symm
          · have := h₂.1 x hx
            have := h₁.1 y hy
            omega
      subst hxy
      congr 1
      apply ih h₁.2 h₂.2
      intro z
      constructor
      · intro hz
        have := (h z).1 (List.mem_cons_of_mem _ hz)
        rcases List.mem_cons.mp this with e | hz'
        · have := h₁.1 z hz; omega
        · exact hz'
      · intro hz
        have := (h z).2 (List.mem_cons_of_mem _ hz)
        rcases List.mem_cons.mp this with e | hz'
        · have := h₂.1 z hz; omega
        · exact hz'

theorem slice_eq_members (b : BitsetW) : b.slice = members b :=
  sorted_ext (slice_sorted b) (members_sorted b) (fun x => by rw [mem_slice, mem_members])

/-! ### the set-level `insertOne` -/

theorem mem_insertOne (l : List Nat) (x y : Nat) :
    y ∈ BitsetM.insertOne l x ↔ y ∈ l ∨ y = x := by
  induction l with
  | nil => simp [BitsetM.insertOne]
  | cons z zs ih =>
    unfold BitsetM.insertOne
    split
    · simp only [List.mem_cons]
      constructor
      · rintro (h | h | h)
        · exact Or.inr h
        · exact Or.inl (Or.inl h)
        · exact Or.inl (Or.inr h)
      · rintro ((h | h) | h)
        · exact Or.inr (Or.inl h)
        · exact Or.inr (Or.inr h)
        · exact Or.inl h
    · split
      · next h =>
        subst h
        simp only [List.mem_cons]
        constructor
        · intro h; exact Or.inl h
        · rintro (h | h)
          · exact h
          · exact Or.inl h
      · simp only [List.mem_cons, ih]
        constructor
        · rintro (h | h | h)
          · exact Or.inl (Or.inl h)
          · exact Or.inl (Or.inr h)
          · exact Or.inr h
        · rintro ((h | h) | h)
          · exact Or.inl h
          · exact Or.inr (Or.inl h)
          · exact Or.inr (Or.inr h)

theorem sorted_insertOne (l : List Nat) (x : Nat) (h : l.Pairwise (· < ·)) :
    (BitsetM.insertOne l x).Pairwise (· < ·) := by
  induction l with
  | nil => simp [BitsetM.insertOne]
  | cons z zs ih =>
    rw [List.pairwise_cons] at h
    unfold BitsetM.insertOne
    split
    · next hxz =>
      rw [List.pairwise_cons]
      refine ⟨fun a ha => ?_, List.pairwise_cons.mpr h⟩
      rcases List.mem_cons.mp ha with e | ha
      · omega
      · have := h.1 a ha; omega
    · split
      · exact List.pairwise_cons.mpr h
      · next h1 h2 =>
        rw [List.pairwise_cons]
        refine ⟨fun a ha => ?_, ih h.2⟩
        rw [mem_insertOne] at ha
        rcases ha with ha | e
        · exact h.1 a ha
        · omega

theorem mem_foldl_insertOne (is : List Nat) (l : List Nat) (y : Nat) :
    y ∈ is.foldl BitsetM.insertOne l ↔ y ∈ l ∨ y ∈ is := by
  induction is generalizing l with
  | nil => simp
  | cons i is ih =>
    simp only [List.foldl_cons, ih, mem_insertOne, List.mem_cons]
    constructor
    · rintro ((h | h) | h)
      · exact Or.inl h
      · exact Or.inr (Or.inl h)
      · exact Or.inr (Or.inr h)
    · rintro (h | h | h)
      · exact Or.inl (Or.inl h)
      · exact Or.inl (Or.inr h)
      · exact Or.inr h

theorem sorted_foldl_insertOne (is : List Nat) (l : List Nat) (h : l.Pairwise (· < ·)) :
    (is.foldl BitsetM.insertOne l).Pairwise (· < ·) := by
  induction is generalizing l with
  | nil => exact h
  | cons i is ih => exact ih _ (sorted_insertOne l i h)


/-! ## F. predecessor / successor queries -/

/-- `o` is the answer to "largest element of `S` below `i`" -/
def IsPred (S : Nat → Prop) (i : Nat) : Option Nat → Prop
  | none => ∀ x, S x → ¬ x < i
  | some j => S j ∧ j < i ∧ ∀ x, S x → x < i → x ≤ j

/-- `o` is the answer to "smallest element of `S` at or above `lo`" -/
def IsGE (S : Nat → Prop) (lo : Nat) : Option Nat → Prop
  | none => ∀ x, S x → ¬ lo ≤ x
  | some j => S j ∧ lo ≤ j ∧ ∀ x, S x → lo ≤ x → j ≤ x

theorem IsPred.unique {S : Nat → Prop} {i : Nat} {o₁ o₂ : Option Nat}
    (h₁ : IsPred S i o₁) (h₂ : IsPred S i o₂) : o₁ = o₂ := by
  cases o₁ <;> cases o₂ <;> simp only [IsPred] at h₁ h₂
  · rfl
  · exact absurd h₂.2.1 (h₁ _ h₂.1)
  · exact absurd h₁.2.1 (h₂ _ h₁.1)
  · have := h₁.2.2 _ h₂.1 h₂.2.1
    have := h₂.2.2 _ h₁.1 h₁.2.1
    congr 1; omega

theorem IsGE.unique {S : Nat → Prop} {i : Nat} {o₁ o₂ : Option Nat}
    (h₁ : IsGE S i o₁) (h₂ : IsGE S i o₂) : o₁ = o₂ := by
  cases o₁ <;> cases o₂ <;> simp only [IsGE] at h₁ h₂
  · rfl
  · exact absurd h₂.2.1 (h₁ _ h₂.1)
  · exact absurd h₁.2.1 (h₂ _ h₁.1)
  · have := h₁.2.2 _ h₂.1 h₂.2.1
    have := h₂.2.2 _ h₁.1 h₁.2.1
    congr 1; omega

theorem IsPred.congr {S T : Nat → Prop} {i : Nat} {o : Option Nat} (h : IsPred S i o)
    (hst : ∀ x, S x ↔ T x) : IsPred T i o := by
  cases o <;> simp only [IsPred] at h ⊢
  · exact fun x hx => h x ((hst x).2 hx)
  · exact ⟨(hst _).1 h.1, h.2.1, fun x hx => h.2.2 x ((hst x).2 hx)⟩

theorem IsGE.congr {S T : Nat → Prop} {i : Nat} {o : Option Nat} (h : IsGE S i o)
    (hst : ∀ x, S x ↔ T x) : IsGE T i o := by
  cases o <;> simp only [IsGE] at h ⊢
  · exact fun x hx => h x ((hst x).2 hx)
  · exact ⟨(hst _).1 h.1, h.2.1, fun x hx => h.2.2 x ((hst x).2 hx)⟩

/-- move the bound up over a gap without elements -/
theorem IsPred.mono {S : Nat → Prop} {i₀ i : Nat} {o : Option Nat} (h : IsPred S i₀ o)
    (hle : i₀ ≤ i) (gap : ∀ x, S x → i₀ ≤ x → ¬ x < i) : IsPred S i o := by
  cases o <;> simp only [IsPred] at h ⊢
  · intro x hx hlt
    by_cases hx0 : x < i₀
    · exact h x hx hx0
    · exact gap x hx (by omega) hlt
  · refine ⟨h.1, by omega, fun x hx hlt => ?_⟩
    by_cases hx0 : x < i₀
    · exact h.2.2 x hx hx0
    · exact absurd hlt (gap x hx (by omega))

/-- move the bound down over a gap without elements -/
theorem IsGE.mono {S : Nat → Prop} {lo' lo : Nat} {o : Option Nat} (h : IsGE S lo' o)
    (hle : lo ≤ lo') (gap : ∀ x, S x → lo ≤ x → lo' ≤ x) : IsGE S lo o := by
  cases o <;> simp only [IsGE] at h ⊢
  · intro x hx hlo
    exact h x hx (gap x hx hlo)
  · exact ⟨h.1, by omega, fun x hx hlo => h.2.2 x hx (gap x hx hlo)⟩

/-! ### set level -/

theorem le_getLast?_of_sorted {l : List Nat} (h : l.Pairwise (· < ·)) {j : Nat}
    (hj : l.getLast? = some j) : ∀ x ∈ l, x ≤ j := by
  induction l with
  | nil => simp at hj
  | cons y ys ih =>
    rw [List.pairwise_cons] at h
    cases ys with
    | nil =>
      simp at hj
      intro x hx
      simp at hx
      omega
    | cons z zs =>
      rw [List.getLast?_cons_cons] at hj
      intro x hx
      rcases List.mem_cons.mp hx with rfl | hx
      · have h1 := ih h.2 hj z (by simp)
        have h2 := h.1 z (by simp)
        omega
      · exact ih h.2 hj x hx

theorem model_before_isPred {l : List Nat} (h : l.Pairwise (· < ·)) (i : Nat) :
    IsPred (· ∈ l) i (BitsetM.memberBefore ⟨l⟩ i) := by
  unfold BitsetM.memberBefore
  simp only
  have hs : (l.filter (· < i)).Pairwise (· < ·) := h.filter _
  cases hg : (l.filter (· < i)).getLast? with
  | none =>
    simp only [IsPred]
    rw [List.getLast?_eq_none_iff, List.filter_eq_nil_iff] at hg
    intro x hx hlt
    exact hg x hx (by simpa using hlt)
  | some j =>
    simp only [IsPred]
    have hjm : j ∈ l.filter (· < i) := List.mem_of_getLast? hg
    rw [List.mem_filter] at hjm
    refine ⟨hjm.1, by simpa using hjm.2, fun x hx hlt => ?_⟩
    exact le_getLast?_of_sorted hs hg x (List.mem_filter.mpr ⟨hx, by simpa using hlt⟩)

theorem model_after_isGE {l : List Nat} (h : l.Pairwise (· < ·)) (i : Nat) :
    IsGE (· ∈ l) (i + 1) (BitsetM.memberAfter ⟨l⟩ i) := by
  unfold BitsetM.memberAfter
  simp only
  cases hg : l.find? (· > i) with
  | none =>
    simp only [IsGE]
    rw [List.find?_eq_none] at hg
    intro x hx hlo
    have := hg x hx
    simp at this
    omega
  | some j =>
    simp only [IsGE]
    rw [List.find?_eq_some_iff_append] at hg
    obtain ⟨hj, as, bs, rfl, has⟩ := hg
    simp at hj
    refine ⟨by simp, by omega, fun x hx hlo => ?_⟩
    rw [List.pairwise_append] at h
    rcases List.mem_append.mp hx with hx | hx
    · have := has x hx
      simp at this
      omega
    · rcases List.mem_cons.mp hx with rfl | hx
      · exact Nat.le_refl _
      · have := (List.pairwise_cons.mp h.2.1).1 x hx
        omega

/-! ### word level -/

theorem mem_lt_end {b : BitsetW} {x : Nat} (h : mem b x) : x < (b.off + b.len) * 64 := by
  obtain ⟨h1, h2, _⟩ := h
  omega

theorem mem_ge_start {b : BitsetW} {x : Nat} (h : mem b x) : b.off * 64 ≤ x := by
  obtain ⟨h1, h2, _⟩ := h
  omega

/-- a member in word `k` -/
theorem mem_word {b : BitsetW} {k p : Nat} (hk : k < b.len) (hp : p < 64) :
    mem b ((b.off + k) * 64 + p) ↔ tb (rd b.backing k) p = true := by
  unfold mem
  have e1 : ((b.off + k) * 64 + p) / 64 = b.off + k := by omega
  have e2 : ((b.off + k) * 64 + p) % 64 = p := by omega
  have e3 : b.off + k - b.off = k := by omega
  rw [e1, e2, e3]
  constructor
  · exact fun h => h.2.2
  · exact fun h => ⟨by omega, hk, h⟩

/-- every member decomposes into word and bit index -/
theorem mem_decomp {b : BitsetW} {x : Nat} (h : mem b x) :
    ∃ k p, k < b.len ∧ p < 64 ∧ x = (b.off + k) * 64 + p ∧ tb (rd b.backing k) p = true := by
  obtain ⟨h1, h2, h3⟩ := h
  exact ⟨x / 64 - b.off, x % 64, h2, Nat.mod_lt _ (by decide), by omega, h3⟩

theorem scanDown_isPred (b : BitsetW) (k : Nat) (hk : k ≤ b.len) :
    IsPred (mem b) ((b.off + k) * 64) (scanDown b k) := by
  induction k with
  | zero =>
    simp only [scanDown, IsPred]
    intro x hx
    have := mem_ge_start hx
    omega
  | succ k ih =>
    have ih := ih (by omega)
    have hk' : k < b.len := by omega
    unfold scanDown
    split
    · next j hj =>
      obtain ⟨hj1, hj2, hj3⟩ := hiBit_some hj
      simp only [IsPred, shl6]
      refine ⟨(mem_word hk' hj1).2 hj2, by omega, fun x hx hlt => ?_⟩
      obtain ⟨k', p, hk1, hp, rfl, hb⟩ := mem_decomp hx
      by_cases hkk : k' = k
      · subst hkk
        have : ¬ j < p := fun hlt' => by simp [hj3 p hlt'] at hb
        omega
      · have : k' < k := by
          have : (b.off + k') * 64 < (b.off + k + 1) * 64 := by omega
          omega
        have : (b.off + k') * 64 + 64 ≤ (b.off + k) * 64 := by omega
        omega
    · next hn =>
      have hz := hiBit_none hn
      apply ih.mono (by omega)
      intro x hx hge hlt
      obtain ⟨k', p, hk1, hp, rfl, hb⟩ := mem_decomp hx
      have : k' = k := by omega
      subst this
      simp [hz p] at hb

theorem memberBefore_isPred (b : BitsetW) (i : Nat) :
    IsPred (mem b) i (b.memberBefore i) := by
  unfold memberBefore
  simp only [shr6, and63, shl6]
  have hi64 : i % 64 < 64 := Nat.mod_lt _ (by decide)
  split
  · next hlt =>
    simp only [IsPred]
    intro x hx
    have := mem_ge_start hx
    omega
  · next hge =>
    split
    · next hk =>
      have hoff : b.off + (i / 64 - b.off) = i / 64 := by omega
      split
      · next j hj =>
        obtain ⟨hj1, hj2, hj3⟩ := hiBit_some hj
        rw [tb_and_mask _ _ _ hi64] at hj2
        simp only [Bool.and_eq_true, decide_eq_true_eq] at hj2
        simp only [IsPred]
        refine ⟨(mem_word hk hj1).2 hj2.1, by omega, fun x hx hlt => ?_⟩
        obtain ⟨k', p, hk1, hp, rfl, hb⟩ := mem_decomp hx
        by_cases hkk : k' = i / 64 - b.off
        · subst hkk
          have : ¬ j < p := fun hlt' => by
            have := hj3 p hlt'
            rw [tb_and_mask _ _ _ hi64] at this
            have hpi : p < i % 64 := by omega
            simp [hb, hpi] at this
          omega
        · have : (b.off + k') * 64 + 64 ≤ (b.off + (i / 64 - b.off)) * 64 := by omega
          omega
      · next hn =>
        have hz := hiBit_none hn
        apply (scanDown_isPred b _ (by omega)).mono (by omega)
        intro x hx hge' hlt
        obtain ⟨k', p, hk1, hp, rfl, hb⟩ := mem_decomp hx
        have : k' = i / 64 - b.off := by omega
        subst this
        have := hz p
        rw [tb_and_mask _ _ _ hi64] at this
        have hpi : p < i % 64 := by omega
        simp [hb, hpi] at this
    · next hk =>
      apply (scanDown_isPred b _ (Nat.le_refl _)).mono (by omega)
      intro x hx _ _
      have := mem_lt_end hx
      omega

theorem scanUpAux_isGE (b : BitsetW) (fuel k : Nat) (hf : b.len - k ≤ fuel) :
    IsGE (mem b) ((b.off + k) * 64) (scanUpAux b k fuel) := by
  induction fuel generalizing k with
  | zero =>
    simp only [scanUpAux, IsGE]
    intro x hx
    have := mem_lt_end hx
    have : (b.off + b.len) * 64 ≤ (b.off + k) * 64 := by
      apply Nat.mul_le_mul_right; omega
    omega
  | succ f ih =>
    unfold scanUpAux
    split
    · next hk =>
      simp only [IsGE]
      intro x hx
      have := mem_lt_end hx
      have : (b.off + b.len) * 64 ≤ (b.off + k) * 64 := by
        apply Nat.mul_le_mul_right; omega
      omega
    · next hk =>
      have hk' : k < b.len := by omega
      split
      · next j hj =>
        obtain ⟨hj1, hj2, hj3⟩ := loBit_some hj
        simp only [IsGE, shl6]
        refine ⟨(mem_word hk' hj1).2 hj2, by omega, fun x hx hlo => ?_⟩
        obtain ⟨k', p, hk1, hp, rfl, hb⟩ := mem_decomp hx
        by_cases hkk : k' = k
        · subst hkk
          have : ¬ p < j := fun hlt' => by simp [hj3 p hlt'] at hb
          omega
        · have : (b.off + k) * 64 + 64 ≤ (b.off + k') * 64 := by omega
          omega
      · next hn =>
        have hz := loBit_none hn
        apply (ih (k+1) (by omega)).mono (by omega)
        intro x hx hlo
        obtain ⟨k', p, hk1, hp, rfl, hb⟩ := mem_decomp hx
        have : k' ≠ k := by
          rintro rfl
          simp [hz p] at hb
        omega

theorem memberAfter_isGE (b : BitsetW) (i : Nat) :
    IsGE (mem b) (i + 1) (b.memberAfter i) := by
  unfold memberAfter
  simp only [shr6, and63, shl6]
  generalize i + 1 = i
  have hi64 : i % 64 < 64 := Nat.mod_lt _ (by decide)
  split
  · next hge =>
    simp only [IsGE]
    intro x hx
    have := mem_lt_end hx
    have : (b.off + b.len) * 64 ≤ i / 64 * 64 := Nat.mul_le_mul_right _ hge
    omega
  · next hlt =>
    split
    · next hoff' =>
      have hk : i / 64 - b.off < b.len := by omega
      have hoff : b.off + (i / 64 - b.off) = i / 64 := by omega
      split
      · next j hj =>
        obtain ⟨hj1, hj2, hj3⟩ := loBit_some hj
        rw [tb_and_not_mask _ _ _ hi64] at hj2
        simp only [Bool.and_eq_true, decide_eq_true_eq] at hj2
        simp only [IsGE]
        refine ⟨(mem_word hk hj1).2 hj2.1, by omega, fun x hx hlo => ?_⟩
        obtain ⟨k', p, hk1, hp, rfl, hb⟩ := mem_decomp hx
        by_cases hkk : k' = i / 64 - b.off
        · subst hkk
          have : ¬ p < j := fun hlt' => by
            have := hj3 p hlt'
            rw [tb_and_not_mask _ _ _ hi64] at this
            have hpi : i % 64 ≤ p := by omega
            simp [hb, hpi] at this
          omega
        · have : (b.off + (i / 64 - b.off)) * 64 + 64 ≤ (b.off + k') * 64 := by omega
          omega
      · next hn =>
        have hz := loBit_none hn
        apply (scanUpAux_isGE b _ (i / 64 - b.off + 1) (Nat.le_refl _)).mono (by omega)
        intro x hx hlo
        obtain ⟨k', p, hk1, hp, rfl, hb⟩ := mem_decomp hx
        have : k' ≠ i / 64 - b.off := by
          rintro rfl
          have := hz p
          rw [tb_and_not_mask _ _ _ hi64] at this
          have hpi : i % 64 ≤ p := by omega
          simp [hb, hpi] at this
        omega
    · next hoff' =>
      apply (scanUpAux_isGE b _ 0 (Nat.le_refl _)).mono (by omega)
      intro x hx _
      have := mem_ge_start hx
      omega


/-! ## G. where `supportOld` differs from `support` -/

theorem rd_eq_getElem {arr : Array UInt64} {i : Nat} (h : i < arr.size) : rd arr i = arr[i] := by
  unfold rd
  simp [Array.getD_eq_getD_getElem?, h]

theorem array_ext_rd {a₁ a₂ : Array UInt64} (hs : a₁.size = a₂.size)
    (h : ∀ i, i < a₁.size → rd a₁ i = rd a₂ i) : a₁ = a₂ := by
  apply Array.ext hs
  intro i h1 h2
  have := h i h1
  rwa [rd_eq_getElem h1, rd_eq_getElem h2] at this

theorem zeroRange_empty (arr : Array UInt64) (lo : Nat) : zeroRange arr lo lo = arr := by
  apply array_ext_rd (by simp)
  intro i _
  rw [rd_zeroRange]
  have : ¬ (lo ≤ i ∧ i < lo) := by omega
  simp [this]

/-- the two versions differ only when the set grows DOWNWARDS (`d > 0`) inside the capacity -/
theorem supportOld_eq_support (b : BitsetW) (mn mx : Nat)
    (h : (supportOffD b (mn / 64)).2 = 0 ∨
      supportN b (mx / 64) (supportOffD b (mn / 64)).1 (supportOffD b (mn / 64)).2 > b.cap) :
    b.supportOld mn mx = b.support mn mx := by
  unfold supportOld support
  simp only [shr6]
  split
  · rfl
  · generalize hyd : supportOffD b (mn / 64) = yd at h
    obtain ⟨yoff, d⟩ := yd
    simp only at h ⊢
    split
    · rfl
    · next hcap =>
      rcases h with h | h
      · subst h
        simp only [zeroRange_empty]
      · exact absurd h hcap

end BitsetW
end LZ
