/-
  LzProofs.GenGSAPHistNil — histories of the translated operations of GSAP WITH `Parse(nil, flags)`, and property C14
  about the Go text.  Continues GenGSAPHist / GenGSAPHistRun (whose per-operation lemmas are reused unchanged); the new
  operation is `gsap_Parse_nilable … true ghost flags` (LzProofs/GenGSAPParseNil.lean).  The operation / result types
  `GOpN`, `GResN`, `GOpN.WF`, `GOpN.abs`, `resAgreeN`, `ResultsAgreeN`, `ghostStepN`, `ghostRunN` are those of
  LzProofs/GenHPHistNil.lean (they do not mention the parser).  The three opaque callees enter under `GsapSpecs lcp SS BI`
  (needed by `Parse(&blk)` only: the nil path calls none of them).  No sorry, no axioms of its own.

    hist_parseNil        one `Parse(nil)`: never panics (every fuel), returns the model's `n` / error, hands the ghost
                         block back unchanged, preserves `HistOKG` (incl. `SaIdx`), changes only `W`; the model state for
                         THE SAME rank array `g`
    stepN, runN          a call = a call of GenGSAPHistRun (`Write`, `ReadFrom`, `Parse(&blk)`, `Shrink`, `Reset`) or
                         `parseNil ghost flags` (every ghost value, every `flags`, also negative)
    stepN_sim, runN_sim, gen_gsap_history_nil   the simulation (model operation `.parseNil`, ghost log entry `Event.skip`)
    C01_go_text_gsap_nil C01 for histories WITH `Parse(nil)`; C03_go_text_gsap_nil, C14_skip_go_text_gsap likewise
    C14_go_text_gsap     after ANY such history: `Parse(nil, flags)` returns the same `n` and error as `Parse(&blk, 0)`
                         from the same state, leaves the same `Data` and `W`, `n = min(BlockSize, len(Data) - W)`,
                         `ErrEmptyBuffer` iff `n = 0`, writes nothing, and changes NOTHING of the parser but `W`
-/
import LzProofs.GenGSAPParseNil
import LzProofs.GenGSAPHistRun
import LzProofs.GenHPHistNil
import LzProofs.GenNilShared

set_option linter.unusedSimpArgs false
set_option linter.unusedVariables false

namespace LZ.GenGSAPHist
open LZ LZ.Gen LZ.GenBuf LZ.GenHash LZ.GenSuffix LZ.GenBitset LZ.GsapBits LZ.GenHPParse LZ.GenParse LZ.GenBUPParse
  LZ.GenProps LZ.GenGSAP LZ.GenNil
open LZ.GenHPHist (GOp GRes GOp.WF GOp.abs resAgree ResultsAgree ghostStep ghostRun parseErr_ok_iff step_parse_fst
  step_reset_fst bind_ok' GOpR GResR GOpR.WF GOpR.abs resAgreeR ResultsAgreeR ghostStepR ghostRunR genErr RFun RFSpec
  rfGo rfGo_spec GOpN GResN GOpN.WF GOpN.abs resAgreeN ResultsAgreeN ghostStepN ghostRunN step_parseNil_fst)

section
variable {lcp : Slice → Slice → Int} {SS : Slice → GSlice Int32 → Res (GSlice Int32)}
  {BI : Gen.bitset → List Int → Res Gen.bitset}

/-- one `Parse(nil, flags)` on a Go state with `HistOKG`: no hypothesis on `fuel`, `flags`, `lcp`, `SS`, `BI` -/
theorem hist_parseNil {bc : BufCfg} (hbc : BCOKG bc) (grow : Nat → Nat → Nat) (fuel : Nat)
    (lcp : Slice → Slice → Int) (SS : Slice → GSlice Int32 → Res (GSlice Int32))
    (BI : Gen.bitset → List Int → Res Gen.bitset)
    (t : Gen.gsap) (h : HistOKG bc t) (g : GsapD) (ghost : Gen.Block') (flags : Int) :
    ∃ t', gsap_Parse_nilable grow fuel lcp SS BI t true ghost flags =
        Res.ok (t', ghost, (((ofGSAPs t g).parseNil).2.1 : Int), parseErr ((ofGSAPs t g).parseNil).2.2) ∧
      HistOKG bc t' ∧ ofGSAPs t' g = ((ofGSAPs t g).parseNil).1 ∧ ofGW t' = ofGW t ∧
      t' = withW t (t.ParserBuffer.W + (((ofGSAPs t g).parseNil).2.1 : Int)) ∧
      t'.ParserBuffer.W = (((ofGSAPs t g).parseNil).1.buf.w : Int) := by
  obtain ⟨t', h1, h2, h3, h4, h5, h6, h7⟩ := gen_gsap_parseNil grow fuel lcp SS BI t ghost flags g h.pok
  have hW : t'.ParserBuffer.W = (((ofGSAPs t g).parseNil).1.buf.w : Int) := by rw [h5]
  have ht : t' = withW t t'.ParserBuffer.W := by
    rw [hW]; exact h5
  have hcap : (ofPB t'.ParserBuffer).CapOK := by
    have hc := h.cap
    rw [ht]
    unfold PBuf.CapOK at hc ⊢
    exact hc
  refine ⟨t', h1, ⟨h7, ?_, ?_, hcap⟩, h2, h3, by rw [← h6]; exact ht, hW⟩
  · rw [ht]; exact h.cfg
  · rw [ht]; exact h.len

/-! ## histories with `Parse(nil)` -/

/-- one call, on the translated functions -/
def stepN (extra : Nat) (grow : Nat → Nat → Nat) (fuel : Nat) (lcp : Slice → Slice → Int)
    (SS : Slice → GSlice Int32 → Res (GSlice Int32)) (BI : Gen.bitset → List Int → Res Gen.bitset) (s : Gen.gsap) :
    GOpN → Res (Gen.gsap × GResN)
  | .r op => Res.bind (stepG extra grow fuel lcp SS BI s op) fun x => Res.ok (x.1, .r x.2)
  | .parseNil ghost flags =>
    Res.bind (gsap_Parse_nilable grow fuel lcp SS BI s true ghost flags) fun x =>
      Res.ok (x.1, .parseNil x.2.1 x.2.2.1 x.2.2.2)

/-- a history of calls; the results in order -/
def runN (extra : Nat) (grow : Nat → Nat → Nat) (fuel : Nat) (lcp : Slice → Slice → Int)
    (SS : Slice → GSlice Int32 → Res (GSlice Int32)) (BI : Gen.bitset → List Int → Res Gen.bitset) :
    Gen.gsap → List GOpN → Res (Gen.gsap × List GResN)
  | s, [] => Res.ok (s, [])
  | s, op :: ops =>
    Res.bind (stepN extra grow fuel lcp SS BI s op) fun x =>
    Res.bind (runN extra grow fuel lcp SS BI x.1 ops) fun q => Res.ok (q.1, x.2 :: q.2)

theorem stepN_sim {bc : BufCfg} (hbc : BCOKG bc) (sp : GsapSpecs lcp SS BI) (extra : Nat) (grow : Nat → Nat → Nat)
    (fuel : Nat) (hfuel : 2 * bc.bufferSize + 5 ≤ fuel)
    (raw : Cfg) (p0 : Parser) (h0 : newParser .GSAP raw = some p0) (mops : List POp)
    (t : Gen.gsap) (gh : Ghost) (g : GsapD) (h : HistOKG bc t) (hG : GSim g (ofGW t))
    (hreach : (ofGSAPs t g, gh) = runOps (p0, Ghost.init) mops) (op : GOpN) (hop : op.WF) :
    ∃ t' r g', stepN extra grow fuel lcp SS BI t op = Res.ok (t', r) ∧ HistOKG bc t' ∧ GSim g' (ofGW t') ∧
      ofGSAPs t' g' = (step (ofGSAPs t g, gh) op.abs).1 ∧ ghostStepN gh op r = (step (ofGSAPs t g, gh) op.abs).2 ∧
      resAgreeN (ofGSAPs t g) op r := by
  cases op with
  | r op =>
    obtain ⟨t', r, g', h1, h2, hG', h3, h4, h5⟩ :=
      stepG_sim hbc sp extra grow fuel hfuel raw p0 h0 mops t gh g h hG hreach op hop
    refine ⟨t', .r r, g', ?_, h2, hG', h3, h4, h5⟩
    simp only [stepN, h1]; rfl
  | parseNil ghost flags =>
    obtain ⟨t', h1, h2, h3, h4, -, -⟩ := hist_parseNil hbc grow fuel lcp SS BI t h g ghost flags
    refine ⟨t', .parseNil ghost _ _, g, ?_, h2, by rw [h4]; exact hG, ?_, ?_, rfl, rfl, rfl⟩
    · simp only [stepN, h1]; rfl
    · rw [GOpN.abs, step_parseNil_fst]; exact h3
    · simp only [ghostStepN, step, GOpN.abs, parseErr_ok_iff _ (parseNil_err _), Int.toNat_natCast]
      split <;> rfl

theorem runN_sim {bc : BufCfg} (hbc : BCOKG bc) (sp : GsapSpecs lcp SS BI) (extra : Nat) (grow : Nat → Nat → Nat)
    (fuel : Nat) (hfuel : 2 * bc.bufferSize + 5 ≤ fuel)
    (raw : Cfg) (p0 : Parser) (h0 : newParser .GSAP raw = some p0) :
    ∀ (ops : List GOpN) (mops : List POp) (t : Gen.gsap) (gh : Ghost) (g : GsapD), HistOKG bc t → GSim g (ofGW t) →
      (ofGSAPs t g, gh) = runOps (p0, Ghost.init) mops → (∀ op ∈ ops, op.WF) →
      ∃ t' rs g', runN extra grow fuel lcp SS BI t ops = Res.ok (t', rs) ∧ HistOKG bc t' ∧ GSim g' (ofGW t') ∧
        ofGSAPs t' g' = (runOps (ofGSAPs t g, gh) (ops.map GOpN.abs)).1 ∧
        ghostRunN gh ops rs = (runOps (ofGSAPs t g, gh) (ops.map GOpN.abs)).2 ∧
        ResultsAgreeN (ofGSAPs t g, gh) ops rs := by
  intro ops
  induction ops with
  | nil => intro mops t gh g h hG _ _; exact ⟨t, [], g, rfl, h, hG, rfl, rfl, trivial⟩
  | cons op ops ih =>
    intro mops t gh g h hG hreach hwf
    obtain ⟨t1, r, g1, h1, h2, hG1, h3, h4, h5⟩ :=
      stepN_sim hbc sp extra grow fuel hfuel raw p0 h0 mops t gh g h hG hreach op (hwf op (List.mem_cons_self ..))
    have hsg : step (ofGSAPs t g, gh) op.abs = (ofGSAPs t1 g1, ghostStepN gh op r) := by
      rw [h3, h4]
    have hreach1 : (ofGSAPs t1 g1, ghostStepN gh op r) = runOps (p0, Ghost.init) (mops ++ [op.abs]) := by
      rw [runOps_snoc, ← hreach, hsg]
    obtain ⟨t', rs, g', k1, k2, kG, k3, k4, k5⟩ := ih (mops ++ [op.abs]) t1 (ghostStepN gh op r) g1 h2 hG1 hreach1
      (fun o ho => hwf o (List.mem_cons_of_mem _ ho))
    refine ⟨t', r :: rs, g', ?_, k2, kG, ?_, ?_, h5, ?_⟩
    · show Res.bind (stepN extra grow fuel lcp SS BI t op) _ = _
      rw [h1]
      show Res.bind (runN extra grow fuel lcp SS BI t1 ops) _ = _
      rw [k1]; rfl
    · show _ = (runOps (step (ofGSAPs t g, gh) op.abs) (ops.map GOpN.abs)).1
      rw [hsg]; exact k3
    · show ghostRunN (ghostStepN gh op r) ops rs = (runOps (step (ofGSAPs t g, gh) op.abs) (ops.map GOpN.abs)).2
      rw [hsg]; exact k4
    · show ResultsAgreeN (step (ofGSAPs t g, gh) op.abs) ops rs
      rw [hsg]; exact k5

/-- the simulation from `gsap.init` for histories of Write / ReadFrom / Parse(&blk) / Parse(nil) / Shrink / Reset, every
    operation a translated function (`ReadFrom` against the scripted reader) -/
theorem gen_gsap_history_nil (cfg : Gen.GSAPConfig) (s0 : Gen.gsap)
    (hinit : gsap_init default cfg = Res.ok (s0, Gen.Err.ok)) (sp : GsapSpecs lcp SS BI)
    (extra : Nat) (grow : Nat → Nat → Nat) (fuel : Nat)
    (hfuel : 2 * s0.ParserBuffer.BufConfig.BufferSize.toNat + 5 ≤ fuel)
    (ops : List GOpN) (hwf : ∀ op ∈ ops, op.WF) :
    ∃ p t rs g, newParser .GSAP (ofGSAP cfg) = some p ∧ ofGSAPs s0 GsapD.empty = p ∧
      runN extra grow fuel lcp SS BI s0 ops = Res.ok (t, rs) ∧ HistOKG p.buf.cfg t ∧ BCOKG p.buf.cfg ∧
      2 * p.buf.cfg.bufferSize + 5 ≤ fuel ∧ GSim g (ofGW t) ∧
      ofGSAPs t g = (runOps (p, Ghost.init) (ops.map GOpN.abs)).1 ∧
      ghostRunN Ghost.init ops rs = (runOps (p, Ghost.init) (ops.map GOpN.abs)).2 ∧
      ResultsAgreeN (p, Ghost.init) ops rs := by
  obtain ⟨p, hp, h2, hG0, hbc, hH⟩ := hist_init cfg s0 hinit
  have hf : 2 * p.buf.cfg.bufferSize + 5 ≤ fuel := by
    have : p.buf.cfg = ofCfg s0.ParserBuffer.BufConfig := hH.cfg.symm
    rw [this]; exact hfuel
  obtain ⟨t, rs, g, k1, k2, kG, k3, k4, k5⟩ := runN_sim hbc sp extra grow fuel hf (ofGSAP cfg) p hp ops [] s0 Ghost.init
    GsapD.empty hH hG0 (by rw [h2]; rfl) hwf
  rw [h2] at k3 k4 k5
  exact ⟨p, t, rs, g, hp, h2, k1, k2, hbc, hf, kG, k3, k4, k5⟩

/-! ## the property theorems -/

/-- **C01 about the Go text of GSAP, histories WITH `Parse(nil)`.**  Run any history of `Write`, `ReadFrom`,
    `Parse(&blk, flags)`, `Parse(nil, flags)`, `Shrink`, `Reset` on the translated functions (`lcp`, `suffix.Sort`,
    `bitset.insert` under `GsapSpecs`).  No call panics or runs out of fuel, and the reference decoder, applied to what
    the calls produced since the last successful `Reset` — the blocks of `Parse(&blk)` and, for every `Parse(nil)` that
    returned `n > 0`, the next `n` bytes of the stream VERBATIM (`Event.skip`) —, yields exactly the first `consumed`
    bytes fed, `consumed` = the sum of all returned `n`. -/
theorem C01_go_text_gsap_nil (cfg : Gen.GSAPConfig) (s0 : Gen.gsap)
    (hinit : gsap_init default cfg = Res.ok (s0, Gen.Err.ok)) (sp : GsapSpecs lcp SS BI)
    (extra : Nat) (grow : Nat → Nat → Nat) (fuel : Nat)
    (hfuel : 2 * s0.ParserBuffer.BufConfig.BufferSize.toNat + 5 ≤ fuel)
    (ops : List GOpN) (hwf : ∀ op ∈ ops, op.WF) :
    ∃ t rs, runN extra grow fuel lcp SS BI s0 ops = Res.ok (t, rs) ∧
      decode [] (ghostRunN Ghost.init ops rs).log =
        some ((ghostRunN Ghost.init ops rs).fed.take (ghostRunN Ghost.init ops rs).consumed) := by
  obtain ⟨p, t, rs, g, hp, -, h1, -, -, -, -, -, h4, -⟩ :=
    gen_gsap_history_nil cfg s0 hinit sp extra grow fuel hfuel ops hwf
  refine ⟨t, rs, h1, ?_⟩
  rw [h4]
  exact C01_roundtrip .GSAP (ofGSAP cfg) p hp (histHyp_of_ne .GSAP p (by decide)) (ops.map GOpN.abs)

/-- **C03 about the Go text of GSAP, histories WITH `Parse(nil)`**: blocks and skipped segments tile the consumed
    stream. -/
theorem C03_go_text_gsap_nil (cfg : Gen.GSAPConfig) (s0 : Gen.gsap)
    (hinit : gsap_init default cfg = Res.ok (s0, Gen.Err.ok)) (sp : GsapSpecs lcp SS BI)
    (extra : Nat) (grow : Nat → Nat → Nat) (fuel : Nat)
    (hfuel : 2 * s0.ParserBuffer.BufConfig.BufferSize.toNat + 5 ≤ fuel)
    (ops : List GOpN) (hwf : ∀ op ∈ ops, op.WF) :
    ∃ t rs, runN extra grow fuel lcp SS BI s0 ops = Res.ok (t, rs) ∧
      let g := ghostRunN Ghost.init ops rs
      LogAll (fun pos e => 1 ≤ e.n ∧ e.n ≤ s0.ParserBuffer.BufConfig.BlockSize.toNat ∧
        pos + e.n ≤ g.fed.length ∧
        ∀ n fl blk, e = .block n fl blk →
          blk.len = n ∧ expand (g.fed.take pos) blk = some (g.fed.take (pos + n)) ∧
          (fl % 2 = 1 → blk.seqs ≠ [] → blk.lits.length = litSum blk.seqs ∧ n = seqsSpan blk.seqs)) 0 g.log ∧
      logSpan g.log = g.consumed ∧ g.consumed ≤ g.fed.length := by
  obtain ⟨p, t, rs, g, hp, h0, h1, -, -, -, -, -, h4, -⟩ :=
    gen_gsap_history_nil cfg s0 hinit sp extra grow fuel hfuel ops hwf
  subst h0
  refine ⟨t, rs, h1, ?_⟩
  intro gg
  have hg : gg = (runOps (ofGSAPs s0 GsapD.empty, Ghost.init) (ops.map GOpN.abs)).2 := h4
  have := C03_contiguous .GSAP (ofGSAP cfg) _ hp (histHyp_of_ne .GSAP _ (by decide)) (ops.map GOpN.abs)
  obtain ⟨a1, a2, a3, a4⟩ := this
  rw [hg]
  exact ⟨a1, a2, a4⟩

/-- **C14 (skipped bytes verbatim) about the Go text of GSAP**: every skip entry of the log is a non-empty segment of at
    most `BlockSize` bytes and IS the segment of the fed stream at its position. -/
theorem C14_skip_go_text_gsap (cfg : Gen.GSAPConfig) (s0 : Gen.gsap)
    (hinit : gsap_init default cfg = Res.ok (s0, Gen.Err.ok)) (sp : GsapSpecs lcp SS BI)
    (extra : Nat) (grow : Nat → Nat → Nat) (fuel : Nat)
    (hfuel : 2 * s0.ParserBuffer.BufConfig.BufferSize.toNat + 5 ≤ fuel)
    (ops : List GOpN) (hwf : ∀ op ∈ ops, op.WF) :
    ∃ t rs, runN extra grow fuel lcp SS BI s0 ops = Res.ok (t, rs) ∧
      let g := ghostRunN Ghost.init ops rs
      LogAll (fun pos e => ∀ b, e = .skip b →
        1 ≤ b.length ∧ b.length ≤ s0.ParserBuffer.BufConfig.BlockSize.toNat ∧
        b = (g.fed.drop pos).take b.length) 0 g.log := by
  obtain ⟨p, t, rs, g, hp, h0, h1, -, -, -, -, -, h4, -⟩ :=
    gen_gsap_history_nil cfg s0 hinit sp extra grow fuel hfuel ops hwf
  subst h0
  refine ⟨t, rs, h1, ?_⟩
  intro gg
  have hg : gg = (runOps (ofGSAPs s0 GsapD.empty, Ghost.init) (ops.map GOpN.abs)).2 := h4
  rw [hg]
  exact C14_skip_verbatim .GSAP (ofGSAP cfg) _ hp (histHyp_of_ne .GSAP _ (by decide)) (ops.map GOpN.abs)

/-- **C14 about the Go text of GSAP.**  After ANY history of the translated `Write`, `ReadFrom`, `Parse(&blk)`,
    `Parse(nil)`, `Shrink`, `Reset` from `gsap.init`, let `t` be the Go state reached.  For every `flags`, every ghost
    value and every block `blk` of the caller: the translated `Parse(nil, flags)` and the translated `Parse(&blk, 0)`,
    both run from `t`, return THE SAME `n` and THE SAME error, and leave THE SAME buffer `Data` and THE SAME `W`;
    `n = min(BlockSize, len(Data) - W)`; the error is `ErrEmptyBuffer` if `n = 0` and `nil` otherwise; `Parse(nil)` hands
    the ghost block back unchanged (it writes nothing), leaves `Data` as it was, and changes NOTHING of the parser but
    `W` (`sa`, `isa`, the bitset stay: the skipped positions are not entered into the bitset). -/
theorem C14_go_text_gsap (cfg : Gen.GSAPConfig) (s0 : Gen.gsap)
    (hinit : gsap_init default cfg = Res.ok (s0, Gen.Err.ok)) (sp : GsapSpecs lcp SS BI)
    (extra : Nat) (grow : Nat → Nat → Nat) (fuel : Nat)
    (hfuel : 2 * s0.ParserBuffer.BufConfig.BufferSize.toNat + 5 ≤ fuel)
    (ops : List GOpN) (hwf : ∀ op ∈ ops, op.WF) (ghost blk : Gen.Block') (flags : Int) :
    ∃ t rs, runN extra grow fuel lcp SS BI s0 ops = Res.ok (t, rs) ∧
      ∃ t1 t2 blk' n e,
        gsap_Parse_nilable grow fuel lcp SS BI t true ghost flags = Res.ok (t1, ghost, n, e) ∧
        gsap_Parse grow fuel lcp SS BI t blk 0 = Res.ok (t2, blk', n, e) ∧
        t1.ParserBuffer.Data = t2.ParserBuffer.Data ∧
        t1.ParserBuffer.W = t2.ParserBuffer.W ∧
        t1.ParserBuffer.Data = t.ParserBuffer.Data ∧
        t1.ParserBuffer.W = t.ParserBuffer.W + n ∧
        n = Min.min t.GSAPConfig.BlockSize ((t.ParserBuffer.Data.len : Int) - t.ParserBuffer.W) ∧
        (n = 0 → e = Gen.ErrEmptyBuffer ∧ t1 = t) ∧ (n ≠ 0 → e = Gen.Err.ok) ∧
        t1 = { t with ParserBuffer := { t.ParserBuffer with W := t.ParserBuffer.W + n } } := by
  obtain ⟨p, t, rs, g, hp, h0, h1, hH, hbc, hf, hG, h3, -, -⟩ :=
    gen_gsap_history_nil cfg s0 hinit sp extra grow fuel hfuel ops hwf
  refine ⟨t, rs, h1, ?_⟩
  have hlen := hH.len
  obtain ⟨t1, e1, hH1, m1, -, ht1, w1⟩ := hist_parseNil hbc grow fuel lcp SS BI t hH g ghost flags
  -- `Parse(&blk, 0)`: the model's values (`hist_parse`) and the frame of the Go state (`gen_gsap_parse_ex`)
  obtain ⟨t2, blk', g2, e2, -, -, -, -, -, -⟩ :=
    hist_parse hbc grow fuel sp t hH g hG (ofGSAP cfg) p hp (ops.map GOpN.abs) h3 blk 0 (Int.le_refl 0) (by omega)
  obtain ⟨gw', n', e', b', -, t2', blk2', e2', -, pb2, -, -, -, -, -, -⟩ :=
    gen_gsap_parse_ex grow fuel lcp sp.lcp SS sp.sort BI sp.ins t blk 0 g hH.pok (Int.le_refl 0) (by omega)
  have hM := C14_same_n_greedy_reachable .GSAP (by decide) (ofGSAP cfg) p hp (ops.map GOpN.abs) 0 rfl
  simp only at hM
  rw [← h3] at hM
  obtain ⟨c1, c2, -, c6⟩ := hM
  have hz : (0 : Int).toNat = 0 := rfl
  rw [hz] at e2
  rw [← c1, ← c2] at e2
  -- the two descriptions of the same call
  rw [e2] at e2'
  injection e2' with e2'
  have q1 : t2 = t2' := congrArg Prod.fst e2'
  have q2 : (((ofGSAPs t g).parseNil.2.1 : Nat) : Int) = (n' : Int) := congrArg (fun x => x.2.2.1) e2'
  subst q1
  rw [← q2] at pb2
  have ht1pb : t1.ParserBuffer =
      { t.ParserBuffer with W := t.ParserBuffer.W + (((ofGSAPs t g).parseNil.2.1 : Nat) : Int) } := by rw [ht1]
  have hpb12 : t1.ParserBuffer = t2.ParserBuffer := by rw [ht1pb, pb2]
  -- `n`
  have hdl := hH.dataLen
  have hcbs := hH.pok.cbs
  have hbs0 := hH.pok.bs0
  have hWle := hH.pok.w
  have hW0 := hH.pok.pb.w
  have hwN : (ofGSAPs t g).buf.w = t.ParserBuffer.W.toNat := rfl
  have hbsN : (ofGSAPs t g).buf.cfg.blockSize = t.ParserBuffer.BufConfig.BlockSize.toNat := rfl
  have hdN : (ofGSAPs t g).buf.data.length = t.ParserBuffer.Data.len := hdl
  have hn : (((ofGSAPs t g).parseNil.2.1 : Nat) : Int) =
      Min.min t.GSAPConfig.BlockSize ((t.ParserBuffer.Data.len : Int) - t.ParserBuffer.W) := by
    rw [c6, hdN, hwN, hbsN, ← hcbs]
    int_omega
  have hbn : (ofGSAPs t g).parseNil.2.1 = (ofGSAPs t g).blockN := parseNil_n _
  refine ⟨t1, t2, blk', _, _, e1, e2, by rw [hpb12], by rw [hpb12], by rw [ht1pb], by rw [ht1pb], hn, ?_, ?_, ht1⟩
  · intro hn0
    have h0 : (ofGSAPs t g).blockN = 0 := by rw [← hbn]; omega
    refine ⟨by rw [Parser.parseNil_empty _ h0]; rfl, ?_⟩
    rw [ht1, hn0, Int.add_zero]
  · intro hn0
    have h0 : (ofGSAPs t g).blockN ≠ 0 := by rw [← hbn]; omega
    obtain ⟨s', hs, -⟩ := Parser.parseNil_ok _ h0
    rw [hs]; rfl

end

end LZ.GenGSAPHist

#print axioms LZ.GenGSAPHist.hist_parseNil
#print axioms LZ.GenGSAPHist.stepN_sim
#print axioms LZ.GenGSAPHist.runN_sim
#print axioms LZ.GenGSAPHist.gen_gsap_history_nil
#print axioms LZ.GenGSAPHist.C01_go_text_gsap_nil
#print axioms LZ.GenGSAPHist.C03_go_text_gsap_nil
#print axioms LZ.GenGSAPHist.C14_skip_go_text_gsap
#print axioms LZ.GenGSAPHist.C14_go_text_gsap
