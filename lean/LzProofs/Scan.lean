/-
  LzProofs.Scan — the stack machine `scanLCP` (segments.go) reports exactly the LCP-intervals.
-/
import LzModel.Suffix
namespace LZ

/-! ### functional description of `popLoop` -/

/-- strictly decreasing `n` from the top of the stack to the bottom -/
abbrev StackSorted (st : List Item) : Prop := st.Pairwise (fun a b => b.n < a.n)

def cbOf (j : Nat) (it : Item) : Callback := (it.n.toNat, it.j, j)

/-- left boundary carried out of the pops: the `j` of the last popped item -/
def lastJ (left : Nat) (popped : List Item) : Nat := popped.foldl (fun _ it => it.j) left

/-- callbacks for the popped items -/
def emit (minLen : Int) (j : Nat) (popped : List Item) : List Callback :=
  (popped.filter (fun it => decide (minLen ≤ it.n))).map (cbOf j)

/-- what happens with the rest of the stack after the pops -/
def pushRes (n : Int) (left : Nat) : List Item → Option (List Item)
  | [] => none
  | top :: rest => if top.n < n then some (⟨n, left⟩ :: top :: rest) else some (top :: rest)

theorem emit_cons (minLen : Int) (j : Nat) (top : Item) (l : List Item) :
    emit minLen j (top :: l) = (if minLen ≤ top.n then [cbOf j top] else []) ++ emit minLen j l := by
  unfold emit
  by_cases h : minLen ≤ top.n <;> simp [h]

theorem mem_emit {minLen : Int} {j : Nat} {popped : List Item} {m lo hi : Nat} :
    (m, lo, hi) ∈ emit minLen j popped ↔
      ∃ it, it ∈ popped ∧ minLen ≤ it.n ∧ it.n.toNat = m ∧ it.j = lo ∧ j = hi := by
  simp only [emit, cbOf, List.mem_map, List.mem_filter, decide_eq_true_eq, Prod.mk.injEq]
  constructor
  · rintro ⟨it, ⟨h1, h2⟩, h3, h4, h5⟩; exact ⟨it, h1, h2, h3, h4, h5⟩
  · rintro ⟨it, h1, h2, h3, h4, h5⟩; exact ⟨it, ⟨h1, h2⟩, h3, h4, h5⟩

theorem popLoop_pop (minLen n : Int) (j left : Nat) (top : Item) (rest : List Item)
    (out : List Callback) (h : n < top.n) :
    popLoop minLen n j left (top :: rest) out =
      popLoop minLen n j top.j rest
        (if top.n ≥ minLen then out ++ [(top.n.toNat, top.j, j)] else out) := by
  have h1 : ¬ n > top.n := by omega
  have h2 : ¬ n = top.n := by omega
  cases rest with
  | nil => simp [popLoop, h1, h2]
  | cons a l => rw [popLoop]; simp only [h1, h2, if_false]

theorem popLoop_spec (minLen n : Int) (j : Nat) :
    ∀ (st : List Item) (left : Nat) (out : List Callback), StackSorted st →
      ∃ popped rest, st = popped ++ rest ∧ (∀ it ∈ popped, n < it.n) ∧ (∀ it ∈ rest, it.n ≤ n) ∧
        popLoop minLen n j left st out =
          (pushRes n (lastJ left popped) rest, out ++ emit minLen j popped) := by
  intro st
  induction st with
  | nil =>
    intro left out _
    exact ⟨[], [], rfl, by simp, by simp, by simp [popLoop, pushRes, emit]⟩
  | cons top st' ih =>
    intro left out hs
    have hs' := List.pairwise_cons.1 hs
    by_cases h1 : n > top.n
    · refine ⟨[], top :: st', rfl, by simp, ?_, ?_⟩
      · intro it hit
        rcases List.mem_cons.1 hit with e | hit'
        · subst e; omega
        · have := hs'.1 it hit'; omega
      · have : top.n < n := h1
        simp [popLoop, pushRes, emit, lastJ, h1]
    · by_cases h2 : n = top.n
      · refine ⟨[], top :: st', rfl, by simp, ?_, ?_⟩
        · intro it hit
          rcases List.mem_cons.1 hit with e | hit'
          · subst e; omega
          · have := hs'.1 it hit'; omega
        · have : ¬ top.n < n := by omega
          simp [popLoop, pushRes, emit, h2]
      · have h3 : n < top.n := by omega
        obtain ⟨popped, rest, e, hp, hr, hres⟩ := ih top.j
          (if top.n ≥ minLen then out ++ [(top.n.toNat, top.j, j)] else out) hs'.2
        refine ⟨top :: popped, rest, by simp [e], ?_, hr, ?_⟩
        · intro it hit
          rcases List.mem_cons.1 hit with e' | hit'
          · subst e'; exact h3
          · exact hp it hit'
        · rw [popLoop_pop _ _ _ _ _ _ _ h3, hres, emit_cons]
          have hl : lastJ left (top :: popped) = lastJ top.j popped := rfl
          rw [hl]
          by_cases hm : minLen ≤ top.n
          · simp [hm, cbOf]
          · simp [hm]

theorem lastJ_spec : ∀ (popped : List Item) (left : Nat), StackSorted popped →
    (popped = [] ∧ lastJ left popped = left) ∨
    (∃ last, last ∈ popped ∧ lastJ left popped = last.j ∧ ∀ it ∈ popped, last.n ≤ it.n) := by
  intro popped
  induction popped with
  | nil => intro left _; exact Or.inl ⟨rfl, rfl⟩
  | cons a l ih =>
    intro left hs
    have hs' := List.pairwise_cons.1 hs
    right
    have hl : lastJ left (a :: l) = lastJ a.j l := rfl
    rcases ih a.j hs'.2 with ⟨e, h⟩ | ⟨last, hmem, hj, hmin⟩
    · subst e
      exact ⟨a, by simp, by rw [hl, h], by simp⟩
    · refine ⟨last, List.mem_cons_of_mem _ hmem, by rw [hl, hj], ?_⟩
      intro it hit
      rcases List.mem_cons.1 hit with e | hit'
      · subst e; have := hs'.1 last hmem; omega
      · exact hmin it hit'

/-! ### open intervals and the stack invariant -/

section
variable (v : Nat → Int)

/-- `⟨n, p⟩` is an open interval at index `j`: all values in `(p, j)` are `≥ n`, `p` is the
    leftmost possible boundary, and the value `n` is attained (or it is the bottom item) -/
def Open (j : Nat) (n : Int) (p : Nat) : Prop :=
  p < j ∧ (∀ x, p < x → x < j → n ≤ v x) ∧ (p = 0 ∨ v p < n) ∧
    ((n = 0 ∧ p = 0) ∨ ∃ x, p < x ∧ x < j ∧ v x = n)

/-- `[lo, hi)` is an LCP-interval of value `m` of a table of `size` entries -/
def IsLcpIv (size : Nat) (m : Int) (lo hi : Nat) : Prop :=
  Open v hi m lo ∧ hi ≤ size ∧ (hi = size ∨ v hi < m)

structure ScanInv (j : Nat) (st : List Item) : Prop where
  sorted : StackSorted st
  mem : ∀ it : Item, it ∈ st ↔ Open v j it.n it.j
  top : j = 1 ∨ ∃ it rest, st = it :: rest ∧ it.n = v (j - 1)

variable {v}

theorem Open.nonneg (hv : ∀ x, 0 ≤ v x) {j : Nat} {n : Int} {p : Nat} (h : Open v j n p) : 0 ≤ n := by
  rcases h.2.2.2 with ⟨e, _⟩ | ⟨x, _, _, e⟩
  · omega
  · rw [← e]; exact hv x

theorem left_unique {j : Nat} {n : Int} {p p' : Nat}
    (h1 : p < j) (h2 : ∀ x, p < x → x < j → n ≤ v x) (h3 : p = 0 ∨ v p < n)
    (h1' : p' < j) (h2' : ∀ x, p' < x → x < j → n ≤ v x) (h3' : p' = 0 ∨ v p' < n) : p = p' := by
  rcases Nat.lt_trichotomy p p' with h | h | h
  · rcases h3' with e | e
    · omega
    · have := h2 p' h h1'; omega
  · exact h
  · rcases h3 with e | e
    · omega
    · have := h2' p h h1; omega

theorem exists_left (n : Int) : ∀ j, 1 ≤ j →
    ∃ p, p < j ∧ (∀ x, p < x → x < j → n ≤ v x) ∧ (p = 0 ∨ v p < n) := by
  intro j
  induction j with
  | zero => intro h; omega
  | succ j ih =>
    intro _
    by_cases hj : j = 0
    · subst hj; exact ⟨0, by omega, fun x h1 h2 => by omega, Or.inl rfl⟩
    · by_cases hvj : v j < n
      · exact ⟨j, by omega, fun x h1 h2 => by omega, Or.inr hvj⟩
      · obtain ⟨p, h1, h2, h3⟩ := ih (by omega)
        refine ⟨p, by omega, fun x hx1 hx2 => ?_, h3⟩
        by_cases e : x = j
        · subst e; omega
        · exact h2 x hx1 (by omega)

theorem exists_right (n : Int) (size : Nat) : ∀ k b, b + k = size → b < size →
    ∃ h, b < h ∧ h ≤ size ∧ (∀ x, b < x → x < h → n ≤ v x) ∧ (h = size ∨ v h < n) := by
  intro k
  induction k with
  | zero => intro b h1 h2; omega
  | succ k ih =>
    intro b hb hlt
    by_cases e : b + 1 = size
    · exact ⟨size, by omega, Nat.le_refl _, fun x h1 h2 => by omega, Or.inl rfl⟩
    · by_cases hvb : v (b+1) < n
      · exact ⟨b+1, by omega, by omega, fun x h1 h2 => by omega, Or.inr hvb⟩
      · obtain ⟨h, h1, h2, h3, h4⟩ := ih (b+1) (by omega) (by omega)
        refine ⟨h, by omega, h2, fun x hx1 hx2 => ?_, h4⟩
        by_cases e' : x = b + 1
        · subst e'; omega
        · exact h3 x (by omega) hx2

theorem Open.extend {j : Nat} {n : Int} {p : Nat} (h : Open v j n p) (hn : n ≤ v j) :
    Open v (j+1) n p := by
  obtain ⟨h1, h2, h3, h4⟩ := h
  refine ⟨by omega, fun x hx1 hx2 => ?_, h3, ?_⟩
  · by_cases e : x = j
    · subst e; exact hn
    · exact h2 x hx1 (by omega)
  · rcases h4 with h4 | ⟨x, hx1, hx2, hx3⟩
    · exact Or.inl h4
    · exact Or.inr ⟨x, hx1, by omega, hx3⟩

theorem Open.succ_cases (hv : ∀ x, 0 ≤ v x) {j : Nat} (hj : 1 ≤ j) {n : Int} {p : Nat}
    (h : Open v (j+1) n p) : (Open v j n p ∧ n ≤ v j) ∨ n = v j := by
  obtain ⟨h1, h2, h3, h4⟩ := h
  rcases h4 with ⟨e1, e2⟩ | ⟨x, hx1, hx2, hx3⟩
  · left
    subst e1 e2
    exact ⟨⟨by omega, fun x _ _ => hv x, h3, Or.inl ⟨rfl, rfl⟩⟩, hv j⟩
  · by_cases e : x = j
    · subst e; exact Or.inr hx3.symm
    · left
      refine ⟨⟨by omega, fun y hy1 hy2 => h2 y hy1 (by omega), h3, Or.inr ⟨x, hx1, by omega, hx3⟩⟩, ?_⟩
      exact h2 j (by omega) (by omega)

theorem inv_init (hv : ∀ x, 0 ≤ v x) : ScanInv v 1 [⟨0, 0⟩] := by
  refine ⟨by simp, fun it => ?_, Or.inl rfl⟩
  constructor
  · intro h
    have : it = ⟨0, 0⟩ := by simpa using h
    subst this
    exact ⟨by show 0 < 1; omega, fun x _ _ => hv x, Or.inl rfl, Or.inl ⟨rfl, rfl⟩⟩
  · rintro ⟨h1, _, _, h4⟩
    rcases h4 with ⟨e1, e2⟩ | ⟨x, hx1, hx2, _⟩
    · cases it; simp_all
    · omega

/-- the bottom item is on every stack satisfying the invariant -/
theorem ScanInv.bottom_mem (hv : ∀ x, 0 ≤ v x) {j : Nat} {st : List Item} (hI : ScanInv v j st)
    (hj : 1 ≤ j) : (⟨0, 0⟩ : Item) ∈ st :=
  (hI.mem ⟨0, 0⟩).2 ⟨by show 0 < j; omega, fun x _ _ => hv x, Or.inl rfl, Or.inl ⟨rfl, rfl⟩⟩

/-- left boundaries are non-decreasing from the bottom of the stack to the top -/
theorem ScanInv.j_mono {j : Nat} {st : List Item} (hI : ScanInv v j st) {a b : Item} (ha : a ∈ st)
    (hb : b ∈ st) (hn : b.n < a.n) : b.j ≤ a.j := by
  have oa := (hI.mem a).1 ha
  have ob := (hI.mem b).1 hb
  by_cases c : b.j ≤ a.j
  · exact c
  · rcases ob.2.2.1 with e | e
    · omega
    · have := oa.2.1 b.j (by omega) ob.1; omega

/-- one step of the outer loop preserves the invariant -/
theorem inv_step (hv : ∀ x, 0 ≤ v x) {j : Nat} {st : List Item} (hI : ScanInv v j st) (hj : 1 ≤ j)
    {popped rest : List Item} (hst : st = popped ++ rest)
    (hp : ∀ it ∈ popped, v j < it.n) (hr : ∀ it ∈ rest, it.n ≤ v j) :
    ∃ st', pushRes (v j) (lastJ (j - 1) popped) rest = some st' ∧ ScanInv v (j+1) st' := by
  subst hst
  have hsorted := List.pairwise_append.1 hI.sorted
  -- the rest is not empty
  have hbot := hI.bottom_mem hv hj
  have hbot' : (⟨0, 0⟩ : Item) ∈ rest := by
    rcases List.mem_append.1 hbot with h | h
    · have := hp _ h; have := hv j; simp at *; omega
    · exact h
  obtain ⟨top, rest', hrest⟩ : ∃ top rest', rest = top :: rest' := by
    cases rest with
    | nil => simp at hbot'
    | cons a l => exact ⟨a, l, rfl⟩
  subst hrest
  have hrs := List.pairwise_cons.1 hsorted.2.1
  have hrest_le_top : ∀ it ∈ top :: rest', it.n ≤ top.n := by
    intro it hit
    rcases List.mem_cons.1 hit with e | h
    · subst e; omega
    · have := hrs.1 it h; omega
  -- members of the rest stay open
  have hrest_open : ∀ it ∈ top :: rest', Open v (j+1) it.n it.j := fun it hit =>
    ((hI.mem it).1 (List.mem_append_right _ hit)).extend (hr it hit)
  -- an interval open at `j+1` that was open at `j` is in the rest
  have hold : ∀ it : Item, Open v j it.n it.j → it.n ≤ v j → it ∈ top :: rest' := by
    intro it ho hle
    rcases List.mem_append.1 ((hI.mem it).2 ho) with h | h
    · have := hp it h; omega
    · exact h
  by_cases hpush : top.n < v j
  · -- push ⟨v j, left'⟩
    refine ⟨⟨v j, lastJ (j-1) popped⟩ :: top :: rest', by simp [pushRes, hpush], ?_⟩
    have hopen : Open v (j+1) (v j) (lastJ (j-1) popped) := by
      rcases lastJ_spec popped (j-1) hsorted.1 with ⟨e, hl⟩ | ⟨last, hmem, hl, hmin⟩
      · subst e
        rw [hl]
        refine ⟨by omega, fun x h1 h2 => ?_, ?_, Or.inr ⟨j, by omega, by omega, rfl⟩⟩
        · have : x = j := by omega
          subst this; omega
        · rcases hI.top with e | ⟨it, r, e1, e2⟩
          · left; omega
          · right
            simp only [List.nil_append, List.cons.injEq] at e1
            rw [← e2, ← e1.1]; exact hpush
      · rw [hl]
        have hlo := (hI.mem last).1 (List.mem_append_left _ hmem)
        have hlast := hp last hmem
        obtain ⟨h1, h2, h3, _⟩ := hlo
        refine ⟨by omega, fun x hx1 hx2 => ?_, ?_, Or.inr ⟨j, h1, by omega, rfl⟩⟩
        · by_cases e : x = j
          · subst e; omega
          · have := h2 x hx1 (by omega); omega
        · by_cases hz : last.j = 0
          · exact Or.inl hz
          · have h3 : v last.j < last.n := by
              rcases h3 with h3 | h3
              · exact absurd h3 hz
              · exact h3
            right
            -- otherwise the value `v last.j` would be open at `j` strictly between the
            -- last popped item and the top of the rest
            by_cases hlt : v last.j < v j
            · exact hlt
            · exfalso
              obtain ⟨q, hq1, hq2, hq3⟩ := exists_left (v := v) (v last.j) last.j (by omega)
              have hw : Open v j (v last.j) q := by
                refine ⟨by omega, fun x hx1 hx2 => ?_, hq3, Or.inr ⟨last.j, hq1, h1, rfl⟩⟩
                rcases Nat.lt_trichotomy x last.j with h | h | h
                · exact hq2 x hx1 h
                · subst h; omega
                · have := h2 x h hx2; omega
              rcases List.mem_append.1 ((hI.mem ⟨v last.j, q⟩).2 hw) with h | h
              · have := hmin _ h; simp at this; omega
              · have := hrest_le_top _ h; simp at this; omega
    refine ⟨?_, ?_, Or.inr ⟨_, _, rfl, by simp⟩⟩
    · refine List.pairwise_cons.2 ⟨?_, hsorted.2.1⟩
      intro it hit
      have := hrest_le_top it hit
      show it.n < v j
      omega
    · intro it
      constructor
      · intro hit
        rcases List.mem_cons.1 hit with e | h
        · subst e; exact hopen
        · exact hrest_open it h
      · intro ho
        rcases ho.succ_cases hv hj with ⟨ho', hle⟩ | e
        · exact List.mem_cons_of_mem _ (hold it ho' hle)
        · have := left_unique ho.1 ho.2.1 ho.2.2.1 hopen.1 (e ▸ hopen.2.1) (e ▸ hopen.2.2.1)
          have : it = ⟨v j, lastJ (j-1) popped⟩ := by cases it; simp_all
          rw [this]; exact List.mem_cons_self
  · -- the top of the rest has exactly the value `v j`
    have htop : top.n = v j := by have := hr top List.mem_cons_self; omega
    refine ⟨top :: rest', by simp [pushRes, hpush], ⟨hsorted.2.1, ?_, Or.inr ⟨top, rest', rfl, by simp [htop]⟩⟩⟩
    intro it
    constructor
    · exact hrest_open it
    · intro ho
      rcases ho.succ_cases hv hj with ⟨ho', hle⟩ | e
      · exact hold it ho' hle
      · have hto := hrest_open top List.mem_cons_self
        rw [htop, ← e] at hto
        have := left_unique ho.1 ho.2.1 ho.2.2.1 hto.1 hto.2.1 hto.2.2.1
        have : it = top := by cases it; cases top; simp_all
        rw [this]; exact List.mem_cons_self

end


/-! ### the outer loop -/

/-- the clipped LCP value the scan works with at index `x` -/
def vclip (lcp : Array Nat) (maxLen : Int) (x : Nat) : Int := min ((lcp.getD x 0 : Nat) : Int) maxLen

theorem vclip_nonneg (lcp : Array Nat) {maxLen : Int} (h : 0 ≤ maxLen) (x : Nat) :
    0 ≤ vclip lcp maxLen x := by
  unfold vclip; omega

/-- order in which callbacks are issued: by right end, then by decreasing value -/
def CbBefore (c1 c2 : Callback) : Prop := c1.2.2 < c2.2.2 ∨ (c1.2.2 = c2.2.2 ∧ c2.1 < c1.1)

theorem emit_pairwise (minLen : Int) (j : Nat) (popped : List Item) (hs : StackSorted popped)
    (hnn : ∀ it ∈ popped, 0 ≤ it.n) : (emit minLen j popped).Pairwise CbBefore := by
  unfold emit
  rw [List.pairwise_map]
  apply List.Pairwise.filter
  refine List.Pairwise.imp_of_mem ?_ hs
  intro a b ha hb hab
  right
  have := hnn a ha
  have := hnn b hb
  simp only [cbOf, true_and]
  omega

theorem scanFrom_lt_some (lcp : Array Nat) (minLen maxLen : Int) (j : Nat) (st : List Item)
    (out : List Callback) (h : j < lcp.size) {st' : List Item} {out' : List Callback}
    (hpop : popLoop minLen (vclip lcp maxLen j) j (j - 1) st out = (some st', out')) :
    scanFrom lcp minLen maxLen j st out = scanFrom lcp minLen maxLen (j + 1) st' out' := by
  rw [scanFrom]
  simp only [Nat.le_of_lt h, h, if_true]
  unfold vclip at hpop
  rw [hpop]

theorem scanFrom_last_none (lcp : Array Nat) (minLen maxLen : Int) (j : Nat) (st : List Item)
    (out : List Callback) (h : j = lcp.size) {out' : List Callback}
    (hpop : popLoop minLen (-1) j (j - 1) st out = (none, out')) :
    scanFrom lcp minLen maxLen j st out = out' := by
  rw [scanFrom]
  subst h
  simp only [Nat.le_refl, Nat.lt_irrefl, if_true, if_false]
  rw [hpop]

theorem scanFrom_spec (lcp : Array Nat) (minLen maxLen : Int) (hmax : 0 ≤ maxLen) :
    ∀ k j st out, j + k = lcp.size → 1 ≤ j → ScanInv (vclip lcp maxLen) j st →
      ∃ l, scanFrom lcp minLen maxLen j st out = out ++ l ∧
        (∀ m lo hi : Nat, (m, lo, hi) ∈ l ↔
          minLen ≤ (m : Int) ∧ j ≤ hi ∧ IsLcpIv (vclip lcp maxLen) lcp.size (m : Int) lo hi) ∧
        l.Pairwise CbBefore := by
  have hv := vclip_nonneg lcp hmax
  intro k
  induction k with
  | zero =>
    intro j st out hj hj1 hI
    have hje : j = lcp.size := by omega
    obtain ⟨popped, rest, hst, hp, hr, hres⟩ := popLoop_spec minLen (-1) j st (j-1) out hI.sorted
    have hrest : rest = [] := by
      cases rest with
      | nil => rfl
      | cons a l =>
        have h1 := hr a List.mem_cons_self
        have h2 := ((hI.mem a).1 (by rw [hst]; simp)).nonneg hv
        omega
    subst hrest
    simp only [List.append_nil] at hst
    subst hst
    refine ⟨emit minLen j st, ?_, ?_, ?_⟩
    · exact scanFrom_last_none _ _ _ _ _ _ hje (by rw [hres]; simp [pushRes])
    · intro m lo hi
      rw [mem_emit]
      constructor
      · rintro ⟨it, hit, hmin, hm, hlo, hhi⟩
        have ho := (hI.mem it).1 hit
        have hnn := ho.nonneg hv
        have hm' : (m : Int) = it.n := by omega
        subst hlo hhi
        rw [hm']
        exact ⟨hmin, Nat.le_refl _, ho, by omega, Or.inl hje⟩
      · rintro ⟨hmin, hjhi, ho, hle, _⟩
        have : hi = j := by omega
        subst this
        exact ⟨⟨m, lo⟩, (hI.mem _).2 ho, hmin, by simp, rfl, rfl⟩
    · exact emit_pairwise _ _ _ hI.sorted (fun it hit => ((hI.mem it).1 hit).nonneg hv)
  | succ k ih =>
    intro j st out hj hj1 hI
    have hjlt : j < lcp.size := by omega
    obtain ⟨popped, rest, hst, hp, hr, hres⟩ :=
      popLoop_spec minLen (vclip lcp maxLen j) j st (j-1) out hI.sorted
    obtain ⟨st', hpush, hI'⟩ := inv_step hv hI hj1 hst hp hr
    obtain ⟨l', hl', hmem', hpw'⟩ := ih (j+1) st' (out ++ emit minLen j popped) (by omega) (by omega) hI'
    have hpopped_sorted : StackSorted popped := by
      have := hI.sorted; rw [hst] at this; exact (List.pairwise_append.1 this).1
    have hpopped_mem : ∀ it ∈ popped, it ∈ st := fun it h => by rw [hst]; exact List.mem_append_left _ h
    refine ⟨emit minLen j popped ++ l', ?_, ?_, ?_⟩
    · rw [scanFrom_lt_some _ _ _ _ _ _ hjlt (by rw [hres, hpush]), hl', List.append_assoc]
    · intro m lo hi
      rw [List.mem_append, hmem', mem_emit]
      constructor
      · rintro (⟨it, hit, hmin, hm, hlo, hhi⟩ | ⟨h1, h2, h3⟩)
        · have ho := (hI.mem it).1 (hpopped_mem it hit)
          have hnn := ho.nonneg hv
          have hm' : (m : Int) = it.n := by omega
          have hlt := hp it hit
          subst hlo hhi
          rw [hm']
          exact ⟨hmin, Nat.le_refl _, ho, by omega, Or.inr hlt⟩
        · exact ⟨h1, by omega, h3⟩
      · rintro ⟨hmin, hjhi, hiv⟩
        by_cases e : hi = j
        · left
          subst e
          obtain ⟨ho, hle, hend⟩ := hiv
          have hlt : vclip lcp maxLen hi < (m : Int) := by
            rcases hend with h | h
            · omega
            · exact h
          have hin : (⟨m, lo⟩ : Item) ∈ st := (hI.mem _).2 ho
          rw [hst] at hin
          rcases List.mem_append.1 hin with h | h
          · exact ⟨⟨m, lo⟩, h, hmin, by simp, rfl, rfl⟩
          · have := hr _ h; simp at this; omega
        · right
          exact ⟨hmin, by omega, hiv⟩
    · rw [List.pairwise_append]
      refine ⟨emit_pairwise _ _ _ hpopped_sorted
        (fun it hit => ((hI.mem it).1 (hpopped_mem it hit)).nonneg hv), hpw', ?_⟩
      intro a ha b hb
      obtain ⟨m1, lo1, hi1⟩ := a
      obtain ⟨m2, lo2, hi2⟩ := b
      have h1 := (mem_emit.1 ha)
      obtain ⟨_, _, _, _, _, h1⟩ := h1
      have h2 := ((hmem' m2 lo2 hi2).1 hb).2.1
      left
      show hi1 < hi2
      omega

/-- **Characterisation of the callbacks** of `scanLCP`: they are exactly the LCP-intervals of the
    clipped table with value `≥ minLen`, issued in the order `CbBefore`. -/
theorem scanLCP_spec (lcp : Array Nat) (minLen maxLen : Int) (hmax : 0 ≤ maxLen)
    (hsize : 0 < lcp.size) :
    (∀ m lo hi : Nat, (m, lo, hi) ∈ scanLCP lcp minLen maxLen ↔
      minLen ≤ (m : Int) ∧ IsLcpIv (vclip lcp maxLen) lcp.size (m : Int) lo hi) ∧
    (scanLCP lcp minLen maxLen).Pairwise CbBefore := by
  obtain ⟨l, hl, hmem, hpw⟩ := scanFrom_spec lcp minLen maxLen hmax (lcp.size - 1) 1 [⟨0, 0⟩] []
    (by omega) (Nat.le_refl _) (inv_init (vclip_nonneg lcp hmax))
  unfold scanLCP
  rw [hl, List.nil_append]
  refine ⟨fun m lo hi => ?_, hpw⟩
  rw [hmem]
  constructor
  · rintro ⟨h1, _, h3⟩; exact ⟨h1, h3⟩
  · rintro ⟨h1, h3⟩
    refine ⟨h1, ?_, h3⟩
    have := h3.1.1
    omega

end LZ
