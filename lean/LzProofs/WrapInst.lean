/-
  LzProofs.WrapInst — discharges the hypothesis `ParseSpec` of LzProofs/WrapProps.lean for the six
  greedy parsers (HP, BHP, DHP, BDHP, BUP, GSAP) with the invariant `Parser.GreedyWF` of the parser
  proofs (LzProofs/ParseParser.lean, LzProofs/ParseHist.lean), and states the Wrap theorems without
  that hypothesis.
-/
import LzProofs.WrapProps
import LzProofs.ParseHist
namespace LZ
open PBuf

/-- `ParseSpec` holds for every greedy parser state (no assumption on the dictionary contents). -/
theorem parseSpec_greedy : ParseSpec Parser.GreedyWF where
  progress := fun s flags hI hb hlt => Parser.parse_progress s flags hI hb.1 hb.2.2 hlt
  inv_parse := fun _ flags hI hb => Parser.GreedyWF.parse flags hI hb.1 hb.2.2
  inv_shrink := fun _ hI _ => Parser.GreedyWF.shrink hI
  inv_readFrom := fun _ r hI _ => Parser.GreedyWF.readFrom hI r

theorem C08_wrap_step_greedy (wp : Wrapped) (flags : Nat) (fed : List Byte)
    (h : WInv Parser.GreedyWF wp fed) : WrapPost Parser.GreedyWF wp fed (wp.parse flags) :=
  C08_wrap_step parseSpec_greedy wp flags fed h

theorem C08_wrap_no_panic_greedy (wp : Wrapped) (flags : Nat) (fed : List Byte)
    (h : WInv Parser.GreedyWF wp fed) :
    (wp.parse flags).2.2.1 ≠ .panic ∧ (wp.parse flags).2.2.1 ≠ .full ∧
    (wp.parse flags).2.2.1 ≠ .empty :=
  C08_wrap_no_panic parseSpec_greedy wp flags fed h

theorem C08_wrap_eof_forever_greedy (flags : Nat) (fed : List Byte) (k : Nat) (wp : Wrapped)
    (h : WInv Parser.GreedyWF wp fed) (hd : Drained wp) :
    ((Wrapped.iter flags k wp).parse flags).2.1 = 0 ∧
    ((Wrapped.iter flags k wp).parse flags).2.2.1 = .eof :=
  C08_wrap_eof_forever parseSpec_greedy flags fed k wp h hd

theorem C08_wrap_chunking_greedy (wa wb : Wrapped) (flags : Nat) (fa fb : List Byte)
    (ha : WInv Parser.GreedyWF wa fa) (hb : WInv Parser.GreedyWF wb fb) (hs : WSim wa wb) :
    (wa.parse flags).2 = (wb.parse flags).2 ∧ WSim (wa.parse flags).1 (wb.parse flags).1 :=
  C08_wrap_chunking parseSpec_greedy wa wb flags fa fb ha hb hs

end LZ

#print axioms LZ.parseSpec_greedy
#print axioms LZ.C08_wrap_chunking_greedy
