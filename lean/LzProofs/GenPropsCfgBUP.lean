/-
  LzProofs.GenPropsCfgBUP — the parser configuration BUPConfig (SetDefaults / Verify through the
  reflective helpers, which appear in the generated code as the field copies the extractor read
  from their source).  `ofBUP` reads the generated struct as the model's union record `Cfg`
  (fields the kind does not have are zero), `toBUP` is the inverse on `Cfg.restrict .BUP`.
    G16 gen_setDefaults_BUP   G17 gen_verify_BUP   G18 gen_accepted_BUP
  Part of the split of the former LzProofs/GenProps.lean: "the hand-written model equals the
  code that `tools/extract -code` regenerates from the Go source".  The generated code is
  emitted per topic (LzModel/Generated/Code<Topic>.lean); this file only imports the topic it
  talks about, so a Go function the translator refuses takes down this file and nothing else.
  Every theorem quantifies over ALL inputs; Go `int`/`int64` are unbounded `Int` on both sides
  (overflow is out of scope), `uint32`/`uint64` wrap around.  All names live in `LZ.GenProps`.
  The proofs are written against the MEANING of the generated functions (unfold, split every
  `if`, decide linear arithmetic), not against the shape of the generated term, so that
  behaviour-preserving rewrites of the Go source (De Morgan, swapped arms, reordered defaults,
  `x+x` for `2*x`, …) do not break them.
-/
import LzModel.Generated.CodeCfgBUP
import LzProofs.GenPropsCfgBuf
import LzProofs.GenPropsCfgBucket

set_option linter.unusedSimpArgs false

namespace LZ.GenProps
open LZ

def ofBUP (c : Gen.BUPConfig) : Cfg :=
  { shrinkSize := c.ShrinkSize, bufferSize := c.BufferSize, windowSize := c.WindowSize,
    blockSize := c.BlockSize,
    inputLen := c.InputLen, hashBits := c.HashBits, bucketSize := c.BucketSize }

def toBUP (c : Cfg) : Gen.BUPConfig :=
  { ShrinkSize := c.shrinkSize, BufferSize := c.bufferSize, WindowSize := c.windowSize,
    BlockSize := c.blockSize,
    InputLen := c.inputLen, HashBits := c.hashBits, BucketSize := c.bucketSize }

theorem ofBUP_toBUP (c : Cfg) : ofBUP (toBUP c) = c.restrict .BUP := by
  simp [ofBUP, toBUP, Cfg.restrict, Kind.fields]

theorem toBUP_ofBUP (c : Gen.BUPConfig) : toBUP (ofBUP c) = c := rfl

theorem gen_setDefaults_BUP (c : Gen.BUPConfig) :
    ofBUP (Gen.BUPConfig_SetDefaults c) = setDefaults .BUP (ofBUP c) := by
  simp only [Gen.BUPConfig_SetDefaults, gen_helper, gen_bufDefaults', gen_bucketDefaults]
  rfl

theorem gen_verify_BUP (c : Gen.BUPConfig) :
    Gen.BUPConfig_Verify c = .ok ↔ verify .BUP (ofBUP c) = true := by
  -- the model side, grouped as (buffer check) && (bucket check) …
  have e : verify .BUP (ofBUP c) = (bufVerify (ofBUP c) &&
      (hashVerify c.InputLen c.HashBits Facts.maxBucketHashBits &&
       decide (Facts.minBucketSize ≤ c.BucketSize ∧ c.BucketSize ≤ Facts.maxBucketSize))) := by
    simp only [verify, ofBUP, Bool.and_assoc]
    rfl
  -- … and what the two helper checks of the generated code mean (G09, G15)
  have hb : Gen.BufConfig_Verify ⟨c.ShrinkSize, c.BufferSize, c.WindowSize, c.BlockSize⟩ = .ok ↔ bufVerify (ofBUP c) = true := gen_bufVerify _
  have hk := gen_bucketVerify ⟨c.InputLen, c.HashBits, c.BucketSize⟩
  dsimp only at hk
  rw [e, Bool.and_eq_true, ← hb, ← hk]
  -- the rest is propositional in the two results, whatever the shape of the generated function
  simp only [Gen.BUPConfig_Verify, gen_helper]
  gen_cases

theorem gen_accepted_BUP (c : Cfg) :
    accepted .BUP c = true ↔ Gen.BUPConfig_Verify (Gen.BUPConfig_SetDefaults (toBUP c)) = .ok := by
  rw [gen_verify_BUP, gen_setDefaults_BUP, ofBUP_toBUP]; rfl

end LZ.GenProps
