import LzModel.Generated.CodeHPParse
import LzModel.BytesW
import LzProofs.BytesProps
import LzProofs.GenBufPropsBase

set_option linter.unusedSimpArgs false
set_option linter.unusedVariables false

namespace LZ.GenHPParse
open LZ LZ.Gen LZ.GenBuf

/-- Option (none = Go panic) to Res -/
def ofOpt {α : Type} : Option α → Res α
  | some a => Res.ok a
  | none => Res.panic

/-- a shift of a shift by literal amounts is one shift (`(x <<< 8) <<< 32 = x <<< 40`; side conditions by `decide`) -/
theorem shl_shl64 (x a b : UInt64) (ha : a < 64) (hb : b < 64) (hab : a + b < 64) : x <<< a <<< b = x <<< (a + b) :=
  (UInt64.shiftLeft_add ha hb hab).symm

/-- a shift by a literal number of bytes as an opaque atom.  (`ac_rfl` compares atoms up to definitional equality;
    comparing `x <<< 40` with `y <<< 48` as UInt64 terms makes it evaluate the literals and time out.) -/
@[irreducible] def shB (k : Nat) (x : UInt64) : UInt64 := x <<< UInt64.ofNat k
theorem shB8 (x : UInt64) : x <<< 8 = shB 8 x := by unfold shB; rfl
theorem shB16 (x : UInt64) : x <<< 16 = shB 16 x := by unfold shB; rfl
theorem shB24 (x : UInt64) : x <<< 24 = shB 24 x := by unfold shB; rfl
theorem shB32 (x : UInt64) : x <<< 32 = shB 32 x := by unfold shB; rfl
theorem shB40 (x : UInt64) : x <<< 40 = shB 40 x := by unfold shB; rfl
theorem shB48 (x : UInt64) : x <<< 48 = shB 48 x := by unfold shB; rfl
theorem shB56 (x : UInt64) : x <<< 56 = shB 56 x := by unfold shB; rfl

/-- closes an equation between two ways of OR-ing shifted bytes together: shifts are distributed over `|||`,
    nested literal shifts added up, and the rest is associativity/commutativity of `|||` — so the order and the
    grouping in which the Go text combines the bytes (`hi<<32 | lo`, `x |= …` in any order) do not matter, while a wrong
    shift amount or a wrong byte still leaves an unprovable goal. -/
macro "bytes_or" : tactic =>
  `(tactic| (
    try simp (disch := decide) only [UInt64.shiftLeft_or, shl_shl64, UInt64.reduceAdd]
    try simp only [shB8, shB16, shB24, shB32, shB40, shB48, shB56]
    ac_rfl))

/-- `_getLE64(p)` on a slice value = the word read `BytesW.le64` of its elements (panic iff len < 8) -/
theorem gen_le64 (p : Slice) (h : SWF p) : Gen._getLE64 p = ofOpt (BytesW.le64 p.data) := by
  obtain ⟨arr, len⟩ := p
  unfold SWF at h
  simp only at h
  by_cases hl : len < 8
  · have h1 : BytesW.le64 (Slice.data ⟨arr, len⟩) = none := by
      rw [BytesW.le64_eq_none_iff]; simp [Slice.data]; omega
    rw [h1]
    have h2 : Slice.index ⟨arr, len⟩ (7 : Int) = Res.panic := by
      simp [Slice.index]; omega
    simp [Gen._getLE64, h2, ofOpt]
  · obtain ⟨n, rfl⟩ : ∃ n, len = n + 8 := ⟨len - 8, by omega⟩
    match arr, h with
    | b0 :: b1 :: b2 :: b3 :: b4 :: b5 :: b6 :: b7 :: rest, _ =>
      have h0 : Slice.index ⟨b0 :: b1 :: b2 :: b3 :: b4 :: b5 :: b6 :: b7 :: rest, n + 8⟩ (0 : Int) = Res.ok b0 := by
        simp [Slice.index]; omega
      have h1 : Slice.index ⟨b0 :: b1 :: b2 :: b3 :: b4 :: b5 :: b6 :: b7 :: rest, n + 8⟩ (1 : Int) = Res.ok b1 := by
        simp [Slice.index]; omega
      have h2 : Slice.index ⟨b0 :: b1 :: b2 :: b3 :: b4 :: b5 :: b6 :: b7 :: rest, n + 8⟩ (2 : Int) = Res.ok b2 := by
        simp [Slice.index]; omega
      have h3 : Slice.index ⟨b0 :: b1 :: b2 :: b3 :: b4 :: b5 :: b6 :: b7 :: rest, n + 8⟩ (3 : Int) = Res.ok b3 := by
        simp [Slice.index]; omega
      have h4 : Slice.index ⟨b0 :: b1 :: b2 :: b3 :: b4 :: b5 :: b6 :: b7 :: rest, n + 8⟩ (4 : Int) = Res.ok b4 := by
        simp [Slice.index]; omega
      have h5 : Slice.index ⟨b0 :: b1 :: b2 :: b3 :: b4 :: b5 :: b6 :: b7 :: rest, n + 8⟩ (5 : Int) = Res.ok b5 := by
        simp [Slice.index]; omega
      have h6 : Slice.index ⟨b0 :: b1 :: b2 :: b3 :: b4 :: b5 :: b6 :: b7 :: rest, n + 8⟩ (6 : Int) = Res.ok b6 := by
        simp [Slice.index]; omega
      have h7 : Slice.index ⟨b0 :: b1 :: b2 :: b3 :: b4 :: b5 :: b6 :: b7 :: rest, n + 8⟩ (7 : Int) = Res.ok b7 := by
        simp [Slice.index]; omega
      simp only [Gen._getLE64, h0, h1, h2, h3, h4, h5, h6, h7, bind_ok, Slice.data, List.take_succ_cons,
        BytesW.le64, BytesW.le64v, ofOpt, shlU64]
      simp <;> bytes_or

/-- `getLE64(p)` (the `switch len(p)`) never panics and is `BytesW.getLE64` of the elements -/
theorem gen_getLE64 (p : Slice) (h : SWF p) : Gen.getLE64 p = Res.ok (BytesW.getLE64 p.data) := by
  by_cases hl : 8 ≤ p.len
  · have hd : 8 ≤ p.data.length := by rw [data_length h]; exact hl
    have e := gen_le64 p h
    rw [BytesW.le64_eq_some _ hd] at e
    -- whatever chain of tests on `len(p)` the text uses (switch, `n >= 8` first, …): split them as they come; the
    -- only reachable leaf is the call of `_getLE64`, the others contradict `8 ≤ len`
    simp only [Gen.getLE64]
    (repeat' split) <;>
      first
      | (simp only [e, ofOpt, bind_ok]; done)
      | (exfalso; simp only [Int.ofNat_eq_natCast] at *; omega)
  · obtain ⟨arr, len⟩ := p
    unfold SWF at h
    simp only at h hl
    match len, arr, h, hl with
    | 0, _, _, _ => simp [Gen.getLE64, Slice.data, BytesW.getLE64] <;> bytes_or
    | 1, b0 :: _, _, _ => simp [Gen.getLE64, Slice.data, BytesW.getLE64, Slice.index] <;> bytes_or
    | 2, b0 :: b1 :: _, _, _ => simp [Gen.getLE64, Slice.data, BytesW.getLE64, Slice.index, shlU64] <;> bytes_or
    | 3, b0 :: b1 :: b2 :: _, _, _ => simp [Gen.getLE64, Slice.data, BytesW.getLE64, Slice.index, shlU64] <;> bytes_or
    | 4, b0 :: b1 :: b2 :: b3 :: _, _, _ =>
      simp [Gen.getLE64, Gen._getLE32, Slice.data, BytesW.getLE64, BytesW.le32v, Slice.index, shlU64, shlU32] <;> bytes_or
    | 5, b0 :: b1 :: b2 :: b3 :: b4 :: _, _, _ =>
      simp [Gen.getLE64, Gen._getLE32, Slice.data, BytesW.getLE64, BytesW.le32v, Slice.index, shlU64, shlU32] <;> bytes_or
    | 6, b0 :: b1 :: b2 :: b3 :: b4 :: b5 :: _, _, _ =>
      simp [Gen.getLE64, Gen._getLE32, Slice.data, BytesW.getLE64, BytesW.le32v, Slice.index, shlU64, shlU32] <;> bytes_or
    | 7, b0 :: b1 :: b2 :: b3 :: b4 :: b5 :: b6 :: _, _, _ =>
      simp [Gen.getLE64, Gen._getLE32, Slice.data, BytesW.getLE64, BytesW.le32v, Slice.index, shlU64, shlU32] <;> bytes_or
    | n + 8, _, _, hl => exact absurd (by omega) hl

theorem lowBitFrom_eq (x : UInt64) : ∀ fuel i, i + fuel = 64 →
    Gen.lowBitFrom x fuel i = i + BytesW.ctz fuel (x.toNat / 2 ^ i) := by
  intro fuel
  induction fuel with
  | zero => intro i h; simp [Gen.lowBitFrom, BytesW.ctz]; omega
  | succ f ih =>
    intro i h
    simp only [Gen.lowBitFrom, BytesW.ctz, Nat.testBit_eq_decide_div_mod_eq]
    by_cases hb : x.toNat / 2 ^ i % 2 = 1
    · simp [hb]
    · simp only [hb, decide_false, if_false, Bool.false_eq_true]
      rw [ih (i + 1) (by omega), Nat.div_div_eq_div_mul, ← Nat.pow_succ]
      simp only [Nat.succ_eq_add_one]; omega

/-- `bits.TrailingZeros64` of the translation (`lowBitFrom`) = `BytesW.tz64` (`ctz 64`) -/
theorem tz_eq (x : UInt64) : Gen.trailingZeros64 x = ((BytesW.tz64 x : Nat) : Int) := by
  unfold Gen.trailingZeros64 BytesW.tz64
  rw [lowBitFrom_eq x 64 0 rfl]
  simp

/-- `bits.TrailingZeros64(x) >> 3` in Go int arithmetic -/
theorem tz_shr (x : UInt64) : (Gen.trailingZeros64 x) >>> (3 : Nat) = ((BytesW.tz64 x >>> 3 : Nat) : Int) := by
  rw [tz_eq]; rfl

end LZ.GenHPParse

#print axioms LZ.GenHPParse.gen_le64
#print axioms LZ.GenHPParse.gen_getLE64
#print axioms LZ.GenHPParse.tz_eq
#print axioms LZ.GenHPParse.tz_shr
