/-
  LzProofs.SmallPropsParser — small statements an audit found missing, parser side.
  (The decoder side — items (1), (5) — is LzProofs/SmallProps.lean.)

  (2) OSAP every sequence of every block of every history has
           `MinMatchLen ≤ MatchLen ≤ MaxMatchLen`, both flags (`C11_history_matchLen_le_max`).
  (3) `Parse(nil)` consumes what `Parse(&blk, 0)` would consume and leaves the same buffer
           (`C14_parseNil_same_n`, `C14_parseNil_same_n_reachable`).
  (4) all seven kinds: every reachable state satisfies `StateOK` and `I_all`
           (`reachable_stateOK_all`); there `Parse` returns `ErrEmptyBuffer` iff nothing is
           unparsed, else `nil` with `n ≥ 1` (`C03_parse_any`, `C03_empty_iff_reachable`).
-/
import LzProofs.WrapAllHist

namespace LZ

/-! # (4) every reachable state, all seven kinds -/

/-- **Every state reachable from `NewParser` by any history — for ALL seven kinds — satisfies the
    hypotheses of the parser-level theorems**: `StateOK` (`W ≤ len(Data)`, `1 ≤ minMatch`,
    `1 ≤ BlockSize`, the 7 spare bytes of capacity) and `I_all` (if the search structure is OSAP's
    edge table, it satisfies `OsapOK`).  `reachable_stateOK` (ParseProps) excludes OSAP. -/
theorem reachable_stateOK_all (k : Kind) (raw : Cfg) (s0 : Parser) (h0 : newParser k raw = some s0)
    (ops : List POp) :
    StateOK (runOps (s0, Ghost.init) ops).1 ∧ I_all (runOps (s0, Ghost.init) ops).1 := by
  have h := history_inv_all k raw s0 h0 ops
  obtain ⟨-, hmm, hbs⟩ := newParser_inv k raw s0 h0
  have h1 : 1 ≤ (runOps (s0, Ghost.init) ops).1.minMatch := by
    rw [minMatch_eq, h.kind, h.cfg]; exact hmm
  have h2 : 1 ≤ (runOps (s0, Ghost.init) ops).1.buf.cfg.blockSize := by rw [h.bcfg]; exact hbs
  refine ⟨⟨h.hw, h1, h2, h.cap⟩, h1, h2, ?_⟩
  intro o ho
  have hD := h.dict
  unfold DictOK at hD
  simp only [ho] at hD
  exact hD.2

/-- one `Parse(&blk, flags)` with unparsed data on a state satisfying `StateOK` and `I_all`, whatever
    the kind: `nil` and a `ParseOK` result for some per-sequence guarantee `Q` -/
theorem Parser.parse_ok_any (s : Parser) (flags : Nat) (hs : StateOK s) (hI : I_all s)
    (hlt : s.buf.w < s.buf.data.length) :
    ∃ s' n blk Q, s.parse flags = (s', n, .ok, blk) ∧ Parser.ParseOK s flags Q s' n blk := by
  have hn : s.blockN ≠ 0 := by
    rw [ne_eq, Parser.blockN_eq_zero_iff s hs.w_le hs.blockSize]; omega
  cases hd : s.dict with
  | osap o =>
    obtain ⟨s', n, blk, hp, hok, -, -⟩ := Parser.parse_osap_all s flags o hd hI hs.w_le hn
    exact ⟨s', n, blk, _, hp, hok⟩
  | single _ | double _ | bucket _ | gsap _ =>
    have hnot : ∀ o, s.dict ≠ .osap o := by intro o ho; rw [hd] at ho; simp at ho
    obtain ⟨s', n, blk, hp, hok, -⟩ :=
      Parser.parse_greedy_ok s flags hs.w_le hn hs.minMatch (Parser.marginOK_of_cap s hs.cap hn) hnot
    exact ⟨s', n, blk, _, hp, hok⟩

/-- **C03 for one call, all seven kinds** (state with `StateOK`, `I_all`):
    `Parse` returns `ErrEmptyBuffer` iff nothing is unparsed (then `n = 0`, an emptied block, state
    untouched); otherwise it returns `nil`, consumes `1 ≤ n ≤ min(unparsed, BlockSize)` bytes, only
    `W` moves (by `n`), and without `NoTrailingLiterals` `n = min(unparsed, BlockSize)`. -/
theorem C03_parse_any (s : Parser) (flags : Nat) (hs : StateOK s) (hI : I_all s) :
    ((s.parse flags).2.2.1 = .empty ↔ s.buf.w = s.buf.data.length) ∧
    (s.buf.w = s.buf.data.length → s.parse flags = (s, 0, .empty, ⟨[], []⟩)) ∧
    (s.buf.w < s.buf.data.length →
      (s.parse flags).2.2.1 = .ok ∧ 1 ≤ (s.parse flags).2.1 ∧
      (s.parse flags).2.1 ≤ min (s.buf.data.length - s.buf.w) s.buf.cfg.blockSize ∧
      (s.parse flags).1.buf = { s.buf with w := s.buf.w + (s.parse flags).2.1 } ∧
      (flags % 2 = 0 →
        (s.parse flags).2.1 = min (s.buf.data.length - s.buf.w) s.buf.cfg.blockSize)) := by
  have hlt : s.buf.w < s.buf.data.length →
      (s.parse flags).2.2.1 = .ok ∧ 1 ≤ (s.parse flags).2.1 ∧
      (s.parse flags).2.1 ≤ min (s.buf.data.length - s.buf.w) s.buf.cfg.blockSize ∧
      (s.parse flags).1.buf = { s.buf with w := s.buf.w + (s.parse flags).2.1 } ∧
      (flags % 2 = 0 →
        (s.parse flags).2.1 = min (s.buf.data.length - s.buf.w) s.buf.cfg.blockSize) := by
    intro hlt
    obtain ⟨s', n, blk, Q, hp, hok⟩ := Parser.parse_ok_any s flags hs hI hlt
    rw [hp]
    have hl := s.blockPrefix_length hs.w_le
    refine ⟨rfl, hok.n_pos, hok.n_le, hok.buf, ?_⟩
    intro hf
    have := hok.block.full (Or.inl hf)
    rw [hl] at this
    show n = s.blockN
    omega
  have hemp : s.buf.w = s.buf.data.length → s.parse flags = (s, 0, .empty, ⟨[], []⟩) :=
    fun h => C03_parse_empty s flags (by omega)
  refine ⟨⟨?_, fun h => by rw [hemp h]⟩, hemp, hlt⟩
  intro h
  by_cases hl : s.buf.w < s.buf.data.length
  · rw [(hlt hl).1] at h; cases h
  · have := hs.w_le; omega

/-- **C03 at history level, all seven kinds** (HP, BHP, DHP, BDHP, BUP, GSAP, OSAP): in every
    state reachable from `NewParser` by any sequence of Write, ReadFrom, Parse (any flags),
    Parse(nil), Shrink, Reset, the next `Parse(&blk, flags)` returns `ErrEmptyBuffer` iff nothing is
    unparsed (`W = len(Data)`; then `n = 0` and the state is untouched), and otherwise returns
    `nil` and consumes at least one byte (at most `min(unparsed, BlockSize)`; exactly that many
    without `NoTrailingLiterals`). -/
theorem C03_empty_iff_reachable (k : Kind) (raw : Cfg) (s0 : Parser)
    (h0 : newParser k raw = some s0) (ops : List POp) (flags : Nat) :
    let s := (runOps (s0, Ghost.init) ops).1
    s.buf.w ≤ s.buf.data.length ∧
    ((s.parse flags).2.2.1 = .empty ↔ s.buf.w = s.buf.data.length) ∧
    (s.buf.w = s.buf.data.length → s.parse flags = (s, 0, .empty, ⟨[], []⟩)) ∧
    (s.buf.w < s.buf.data.length →
      (s.parse flags).2.2.1 = .ok ∧ 1 ≤ (s.parse flags).2.1 ∧
      (s.parse flags).2.1 ≤ min (s.buf.data.length - s.buf.w) s.buf.cfg.blockSize ∧
      (s.parse flags).1.buf = { s.buf with w := s.buf.w + (s.parse flags).2.1 } ∧
      (flags % 2 = 0 →
        (s.parse flags).2.1 = min (s.buf.data.length - s.buf.w) s.buf.cfg.blockSize)) := by
  intro s
  obtain ⟨hs, hI⟩ := reachable_stateOK_all k raw s0 h0 ops
  exact ⟨hs.w_le, C03_parse_any s flags hs hI⟩

/-! # (3) `Parse(nil)` consumes what `Parse(&blk, 0)` would consume -/

/-- **C14, `Parse(nil)` against a normal `Parse`** (all seven kinds; state with `StateOK`, `I_all`;
    `flags` without `NoTrailingLiterals`): both calls return the same `n = min(BlockSize, unparsed)`
    and the same error (`nil`, or `ErrEmptyBuffer` when nothing is unparsed), and the parser
    buffers afterwards are equal (`Data`, `W`, `Off`, capacity, configuration — in particular
    `data` and `w`).  Only the search structure may differ. -/
theorem C14_parseNil_same_n (s : Parser) (flags : Nat) (hf : flags % 2 = 0) (hs : StateOK s)
    (hI : I_all s) :
    s.parseNil.2.1 = (s.parse flags).2.1 ∧
    s.parseNil.2.2 = (s.parse flags).2.2.1 ∧
    s.parseNil.1.buf = (s.parse flags).1.buf ∧
    s.parseNil.1.buf.data = (s.parse flags).1.buf.data ∧
    s.parseNil.1.buf.w = (s.parse flags).1.buf.w ∧
    s.parseNil.2.1 = min s.buf.cfg.blockSize (s.buf.data.length - s.buf.w) ∧
    (s.parse flags).2.1 = min s.buf.cfg.blockSize (s.buf.data.length - s.buf.w) := by
  have hbn : s.blockN = min s.buf.cfg.blockSize (s.buf.data.length - s.buf.w) := by
    unfold Parser.blockN; omega
  by_cases hn : s.blockN = 0
  · rw [Parser.parseNil_empty s hn, Parser.parse_empty s flags hn]
    exact ⟨rfl, rfl, rfl, rfl, rfl, by simp only; omega, by simp only; omega⟩
  · have hlt : s.buf.w < s.buf.data.length := by
      rw [Parser.blockN_eq_zero_iff s hs.w_le hs.blockSize] at hn
      have := hs.w_le; omega
    obtain ⟨s1, h1, -, -, hb1⟩ := Parser.parseNil_ok s hn
    obtain ⟨s2, n, blk, Q, hp, hok⟩ := Parser.parse_ok_any s flags hs hI hlt
    have hl := s.blockPrefix_length hs.w_le
    have hfull := hok.block.full (Or.inl hf)
    rw [hl] at hfull
    have hnn : n = s.blockN := by omega
    subst hnn
    rw [h1, hp]
    refine ⟨rfl, rfl, ?_, ?_, ?_, hbn, hbn⟩
    · show s1.buf = s2.buf
      rw [hb1, hok.buf]
    · show s1.buf.data = s2.buf.data
      rw [hb1, hok.buf]
    · show s1.buf.w = s2.buf.w
      rw [hb1, hok.buf]

/-- the same in every state reachable from `NewParser` (all seven kinds, any history) -/
theorem C14_parseNil_same_n_reachable (k : Kind) (raw : Cfg) (s0 : Parser)
    (h0 : newParser k raw = some s0) (ops : List POp) (flags : Nat) (hf : flags % 2 = 0) :
    let s := (runOps (s0, Ghost.init) ops).1
    s.parseNil.2.1 = (s.parse flags).2.1 ∧
    s.parseNil.2.2 = (s.parse flags).2.2.1 ∧
    s.parseNil.1.buf = (s.parse flags).1.buf ∧
    s.parseNil.1.buf.data = (s.parse flags).1.buf.data ∧
    s.parseNil.1.buf.w = (s.parse flags).1.buf.w ∧
    s.parseNil.2.1 = min s.buf.cfg.blockSize (s.buf.data.length - s.buf.w) ∧
    (s.parse flags).2.1 = min s.buf.cfg.blockSize (s.buf.data.length - s.buf.w) := by
  intro s
  obtain ⟨hs, hI⟩ := reachable_stateOK_all k raw s0 h0 ops
  exact C14_parseNil_same_n s flags hf hs hI

end LZ

#print axioms LZ.reachable_stateOK_all
#print axioms LZ.Parser.parse_ok_any
#print axioms LZ.C03_parse_any
#print axioms LZ.C03_empty_iff_reachable
#print axioms LZ.C14_parseNil_same_n
#print axioms LZ.C14_parseNil_same_n_reachable

/-! # (2) OSAP: `MinMatchLen ≤ MatchLen ≤ MaxMatchLen` for every emitted sequence, history level -/

namespace LZ

/-- a per-sequence property that does not depend on the position holds for every member -/
theorem SeqsAll.forall_mem {P : Nat → Seq → Prop} {R : Seq → Prop} (h : ∀ pos s, P pos s → R s) :
    ∀ (pos : Nat) (ss : List Seq), SeqsAll P pos ss → ∀ s ∈ ss, R s := by
  intro pos ss
  induction ss generalizing pos with
  | nil => intro _ s hs; cases hs
  | cons a ss ih =>
    intro ⟨h1, h2⟩ s hs
    rcases List.mem_cons.mp hs with rfl | hs
    · exact h _ _ h1
    · exact ih _ h2 s hs

/-- every sequence of every block of the log has its match length in `[mn, mx]` -/
def LogMatchLenIn (mn mx : Nat) (log : List Event) : Prop :=
  ∀ e ∈ log, ∀ n fl blk, e = Event.block n fl blk → ∀ sq ∈ blk.seqs, mn ≤ sq.matchLen ∧ sq.matchLen ≤ mx

/-- for OSAP `minMatch` is the configured `MinMatchLen` -/
theorem mmOf_osap (c : Cfg) : mmOf .OSAP c = c.minMatchLen.toNat := rfl

/-- one `Parse` of OSAP on a state with `I_all` whose search structure is the edge table: all
    sequences of the returned block have `MinMatchLen ≤ MatchLen ≤ MaxMatchLen` (both flags), and
    the search structure stays an edge table -/
theorem Parser.parse_osap_matchLen (s : Parser) (flags : Nat) (o : OsapD) (hd : s.dict = .osap o)
    (hI : I_all s) (hw : s.buf.w ≤ s.buf.data.length) :
    (∀ sq ∈ (s.parse flags).2.2.2.seqs,
      s.minMatch ≤ sq.matchLen ∧ sq.matchLen ≤ s.cfg.maxMatchLen.toNat) ∧
    ∃ o', (s.parse flags).1.dict = .osap o' := by
  by_cases hn : s.blockN = 0
  · rw [Parser.parse_empty s flags hn]
    exact ⟨fun sq h => (by cases h), o, hd⟩
  · obtain ⟨s', n, blk, hp, hok, hd', -⟩ := Parser.parse_osap_all s flags o hd hI hw hn
    rw [hp]
    refine ⟨?_, _, hd'⟩
    show ∀ sq ∈ blk.seqs, _
    refine SeqsAll.forall_mem ?_ _ _ hok.block.all
    intro pos sq hq
    exact ⟨hq.1.1.2.2.2.1, hq.1.2⟩

/-- the invariant of an OSAP history: `Inv`, the search structure is an edge table, the log bound -/
structure OsapLogInv (c : Cfg) (bc : BufCfg) (sg : Parser × Ghost) : Prop where
  inv : Inv .OSAP c bc sg
  dict : ∃ o, sg.1.dict = .osap o
  log : LogMatchLenIn (mmOf .OSAP c) c.maxMatchLen.toNat sg.2.log

theorem LogMatchLenIn.snoc_skip {mn mx : Nat} {log : List Event} (h : LogMatchLenIn mn mx log)
    (b : List Byte) : LogMatchLenIn mn mx (log ++ [.skip b]) := by
  intro e he n fl blk heq
  rcases List.mem_append.mp he with he | he
  · exact h e he n fl blk heq
  · simp only [List.mem_singleton] at he
    subst he; cases heq

theorem OsapLogInv.step {c : Cfg} {bc : BufCfg} (hS : Static .OSAP c bc) (sg : Parser × Ghost)
    (h : OsapLogInv c bc sg) (op : POp) : OsapLogInv c bc (step sg op) := by
  obtain ⟨s, g⟩ := sg
  have hinv := step_inv hS (s, g) h.inv op
  obtain ⟨o, hd⟩ := h.dict
  have hlog := h.log
  simp only at hd hlog
  refine ⟨hinv, ?_, ?_⟩
  · -- the search structure stays an edge table
    cases op with
    | write p => exact ⟨o, hd⟩
    | readFrom r => exact ⟨o, hd⟩
    | parse flags =>
      have hI : I_all s := by
        refine ⟨?_, ?_, ?_⟩
        · rw [minMatch_eq, h.inv.kind, h.inv.cfg]; exact hS.mm
        · rw [h.inv.bcfg]; exact hS.bs
        · intro o' ho'
          have hD := h.inv.dict
          unfold DictOK at hD
          simp only [ho'] at hD
          exact hD.2
      obtain ⟨-, o', ho'⟩ := Parser.parse_osap_matchLen s flags o hd hI h.inv.hw
      simp only [LZ.step]
      split
      · exact ⟨o', ho'⟩
      · exact ⟨o', ho'⟩
    | parseNil =>
      simp only [LZ.step]
      have : s.parseNil.1.dict = .osap o := by
        by_cases hn : s.blockN = 0
        · rw [Parser.parseNil_empty s hn]; exact hd
        · exact (parseNil_dict s hn).1 o hd
      split
      · exact ⟨o, this⟩
      · exact ⟨o, this⟩
    | shrink =>
      simp only [LZ.step]
      rcases shrink_eq s with he | ⟨-, -, -, hd1, -⟩
      · rw [he]; exact ⟨o, hd⟩
      · exact ⟨_, hd1 o hd⟩
    | reset data capExtra =>
      simp only [LZ.step]
      rcases reset_eq s data capExtra with ⟨he, hs⟩ | ⟨he, -, -, -, -, hd1, -⟩
      · simp only [he, if_false]; rw [hs]; exact ⟨o, hd⟩
      · simp only [he, if_true]; exact ⟨_, hd1 o hd⟩
  · -- the log
    cases op with
    | write p => exact hlog
    | readFrom r => exact hlog
    | parse flags =>
      have hI : I_all s := by
        refine ⟨?_, ?_, ?_⟩
        · rw [minMatch_eq, h.inv.kind, h.inv.cfg]; exact hS.mm
        · rw [h.inv.bcfg]; exact hS.bs
        · intro o' ho'
          have hD := h.inv.dict
          unfold DictOK at hD
          simp only [ho'] at hD
          exact hD.2
      obtain ⟨hm, -⟩ := Parser.parse_osap_matchLen s flags o hd hI h.inv.hw
      rw [minMatch_eq, h.inv.kind, h.inv.cfg] at hm
      simp only [LZ.step]
      split
      · intro e he n fl blk heq
        rcases List.mem_append.mp he with he | he
        · exact hlog e he n fl blk heq
        · simp only [List.mem_singleton] at he
          subst he; cases heq
          exact hm
      · exact hlog
    | parseNil =>
      simp only [LZ.step]
      split
      · exact hlog.snoc_skip _
      · exact hlog
    | shrink => exact hlog
    | reset data capExtra =>
      simp only [LZ.step]
      split
      · intro e he; cases he
      · exact hlog

theorem OsapLogInv.run {c : Cfg} {bc : BufCfg} (hS : Static .OSAP c bc) (ops : List POp) :
    ∀ (sg : Parser × Ghost), OsapLogInv c bc sg → OsapLogInv c bc (runOps sg ops) := by
  induction ops with
  | nil => intro sg h; exact h
  | cons op ops ih => intro sg h; exact ih _ (h.step hS sg op)

/-- **OSAP, history level: `MinMatchLen ≤ MatchLen ≤ MaxMatchLen`.**  For every accepted OSAP
    configuration and every history of Write, ReadFrom, Parse (BOTH flags), Parse(nil), Shrink and
    Reset, every sequence of every block emitted since the last Reset has its match length in
    `[MinMatchLen, MaxMatchLen]` of the (defaults-completed) configuration.  Unconditional
    (`computeEdgesSound_holds`).  (`C02_wellformed` only has the lower bound; `C11_optimal_history`
    has both bounds for flags 0 through `LzParse`.) -/
theorem C11_history_matchLen_le_max (raw : Cfg) (s0 : Parser) (h0 : newParser .OSAP raw = some s0)
    (ops : List POp) :
    let sg := runOps (s0, Ghost.init) ops
    (∀ e ∈ sg.2.log, ∀ n fl blk, e = Event.block n fl blk → ∀ sq ∈ blk.seqs,
      s0.cfg.minMatchLen.toNat ≤ sq.matchLen ∧ sq.matchLen ≤ s0.cfg.maxMatchLen.toNat) ∧
    -- … and the same for the block the NEXT `Parse` returns, whatever its flags
    (∀ flags, ∀ sq ∈ (sg.1.parse flags).2.2.2.seqs,
      s0.cfg.minMatchLen.toNat ≤ sq.matchLen ∧ sq.matchLen ≤ s0.cfg.maxMatchLen.toNat) ∧
    sg.1.cfg = s0.cfg := by
  intro sg
  obtain ⟨hi, hmm, hbs⟩ := newParser_inv .OSAP raw s0 h0
  have hS := static_all .OSAP s0.cfg s0.buf.cfg hmm hbs
  have h00 : OsapLogInv s0.cfg s0.buf.cfg (s0, Ghost.init) := by
    refine ⟨hi, ?_, ?_⟩
    · unfold newParser at h0
      simp only [] at h0
      split at h0
      · simp only [Option.some.injEq] at h0
        subst h0
        exact ⟨_, rfl⟩
      · cases h0
    · intro e he; cases he
  have h := OsapLogInv.run hS ops _ h00
  refine ⟨h.log, ?_, h.inv.cfg⟩
  intro flags
  obtain ⟨o, hd⟩ := h.dict
  have hI := (reachable_stateOK_all .OSAP raw s0 h0 ops).2
  have hm := (Parser.parse_osap_matchLen sg.1 flags o hd hI h.inv.hw).1
  rw [minMatch_eq, h.inv.kind, h.inv.cfg] at hm
  exact hm

/-- non-vacuity: the hypotheses are met by the OSAP parser and the history of GlueProps
    (MinMatchLen 2, MaxMatchLen 20; `Write("ababab")`, `Parse(nil)`, `Shrink`, `Write("abab")`), with
    a `Parse` with and one without `NoTrailingLiterals` appended -/
example := C11_history_matchLen_le_max Sap.glueOsapCfg Sap.glueOsap0 Sap.glueOsap0_new
  (glueOpsP ++ [.parse 1, .parse 0])

end LZ

#print axioms LZ.C11_history_matchLen_le_max
