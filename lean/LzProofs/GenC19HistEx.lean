/-
  LzProofs.GenC19HistEx — non-vacuity of LzProofs/GenC19Hist.lean: the instances of `C19_go_text_*` for the
  kernel-evaluated example histories (GenHPHistEx, GenBHPHistEx, GenDHPHistEx, GenBDHPHistEx), and the C19 guarantee
  checked directly on the block the translated `bdhp.Parse` returned in GenBDHPHistEx (a backward extension that stops
  at differing bytes: the third alternative of the left clause).
-/
import LzProofs.GenC19Hist
import LzProofs.GenHPHistEx
import LzProofs.GenBHPHistEx
import LzProofs.GenDHPHistEx
import LzProofs.GenBDHPHistEx

namespace LZ.GenC19Hist
open LZ LZ.Gen LZ.GenBuf LZ.GenProps

example := C19_go_text_hp GenHPHist.exCfg GenHPHist.exS0 GenHPHist.exInit GenHPHist.exGrow 40 (by decide +kernel)
  GenHPHist.exOps GenHPHist.exWF
example := C19_go_text_bhp GenBHPHist.exCfg GenBHPHist.exS0 GenBHPHist.exInit GenHPHist.exGrow 70 GenBHPHist.exLcs
  GenBHPHist.exLcs_spec (by decide +kernel) GenBHPHist.exOps GenBHPHist.exWF
example := C19_go_text_dhp GenDHPHist.exCfg GenDHPHist.exS0 GenDHPHist.exInit GenHPHist.exGrow 140 (by decide +kernel)
  GenDHPHist.exOps GenDHPHist.exWF
example := C19_go_text_bdhp GenBDHPHist.exCfg GenBDHPHist.exS0 GenBDHPHist.exInit GenHPHist.exGrow 140
  GenBHPHist.exLcs GenBHPHist.exLcs_spec (by decide +kernel) GenBDHPHist.exOps GenBDHPHist.exWF

/-- the block the translated `bdhp.Parse` returned first in `GenBDHPHist.exRun` -/
def exBlk : Gen.Block' :=
  { Sequences := [{ LitLen := 15, MatchLen := 7, Offset := 14, Aux := 0 }],
    Literals := { arr := [90, 97, 98, 99, 100, 101, 102, 103, 104, 49, 51, 55, 49, 53, 49, 88], len := 16 } }

/-- the first block of the BDHP example (stream position 0, `n = 23`, flags 0; read through `ofBlock`) against the
    23 bytes fed: block prefix end `lim = 23`, buffer start `base = 0`; the match (15 literals, 7 bytes, offset 14)
    ends before 'X' ≠ 'h' (right clause) and starts behind '1' ≠ 'Z' with `LitLen ≠ 0`, `Offset ≠ 15` (left clause,
    third alternative) -/
theorem exBDHP_block_max :
    EventMax (GenBDHPHist.exE ++ GenBDHPHist.exF) true 48 0
      (.block 23 0 (ofBlock exBlk)) := by
  refine ⟨0, 23, by decide, by decide, by decide, by decide, fun _ => rfl, ?_⟩
  show SeqMaxStream _ true 0 23 0 ⟨15, 7, 14, 0⟩ ∧ True
  refine ⟨?_, trivial⟩
  unfold SeqMaxStream
  decide +kernel

/-- … and the left clause holds through its THIRD alternative only -/
theorem exBDHP_left_third :
    let fed := GenBDHPHist.exE ++ GenBDHPHist.exF
    (15 : Nat) ≠ 0 ∧ (14 : Nat) ≠ 0 + 15 - 0 ∧ fed[0 + 15 - 1]? ≠ fed[0 + 15 - 1 - 14]? := by decide +kernel

end LZ.GenC19Hist

#print axioms LZ.GenC19Hist.exBDHP_block_max
#print axioms LZ.GenC19Hist.exBDHP_left_third
