/-
  LzProofs.GenBUPParseNil — the NIL PATH of the mechanical translation of bup.go `(*bucketParser).Parse`:
  `bucketParser_Parse_nilable grow fuel lcp s true blk flags` (LzModel/Generated/CodeBUPParse.lean; the pointer
  parameter `blk` is modelled by a flag plus a value, tools/extract/code_nil.go) is the call `Parse(nil, flags)`.
  The nil path ignores `flags` and never calls `lcp` (no `LcpSpec` hypothesis).  No sorry, no axioms of its own.

    gen_bup_parse_nonnil   `bucketParser_Parse … blk …` IS `bucketParser_Parse_nilable … false blk …` (the generated wrapper)
    gen_bup_parseNil_empty nothing buffered ⇒ `(0, ErrEmptyBuffer)`, parser and ghost block unchanged
    gen_bup_parseNil       for every Go state with `ParseOKU s`, every `blk` (a ghost), every `flags`, `fuel ≥ len + 2`:
                             `parseNilW (ofBUPs s) (staleOfU s) = none` ⇒ the translated `Parse(nil)` is `Res.panic`
                             `… = some (s', n, e)` ⇒ it is `Res.ok (t, blk, n, parseErr e)` — THE SAME `blk`: nothing is
                             written — with `ofBUPs t = s'`, `staleOfU t = staleOfU s`, `ParseOKU t`, and only `W` and
                             the table of the Go state change (`∃ g', t = withWB s … g'`, scalar fields `SameCfg`)
    gen_bup_parseNil_model on reachable states: the list-level `Parser.parseNil`, no panic
-/
import LzProofs.GenBUPParse

set_option linter.unusedSimpArgs false
set_option linter.unusedVariables false

namespace LZ.GenBUPParse
open LZ LZ.Gen LZ.GenBuf LZ.GenHash LZ.GenHPParse LZ.GenParse LZ.GenProps

theorem gen_bup_parse_nonnil (grow : Nat → Nat → Nat) (fuel : Nat) (lcp : Slice → Slice → Int) (s : Gen.bucketParser)
    (blk : Gen.Block') (flags : Int) :
    bucketParser_Parse grow fuel lcp s blk flags = bucketParser_Parse_nilable grow fuel lcp s false blk flags := rfl

/-- the straight-line prefix of the nil path: nothing buffered ⇒ `(0, ErrEmptyBuffer)`, the parser and the ghost block
    unchanged; for every `grow`, `fuel`, `lcp`, `flags` -/
theorem gen_bup_parseNil_empty (grow : Nat → Nat → Nat) (fuel : Nat) (lcp : Slice → Slice → Int) (s : Gen.bucketParser)
    (blk : Gen.Block') (flags : Int) (h : blockNU s = 0) :
    bucketParser_Parse_nilable grow fuel lcp s true blk flags = Res.ok (s, blk, (0 : Int), ErrEmptyBuffer) := by
  -- the clamp in any spelling is a minimum; the test `n == 0` is evaluated as it comes (either arm order)
  have hmin : Min.min s.BUPConfig.BlockSize
      ((Int.ofNat s.bucketDictionary.ParserBuffer.Data.len) - s.bucketDictionary.ParserBuffer.W) = 0 := by
    unfold blockNU at h; rw [← ite_lt_min]; exact h
  have hmin' : Min.min ((Int.ofNat s.bucketDictionary.ParserBuffer.Data.len) - s.bucketDictionary.ParserBuffer.W)
      s.BUPConfig.BlockSize = 0 := by rw [Int.min_comm]; exact hmin
  unfold bucketParser_Parse_nilable
  simp only [if_true, gt_iff_lt, ge_iff_le, ite_lt_min, ite_le_min, hmin, hmin']
  try (first | rfl | simp)

theorem parseNilW_bucket_nf (s : Parser) (stale : List Byte) (bk : BucketT) (hd : s.dict = .bucket bk)
    (hn : s.blockN ≠ 0) :
    ProbeW.parseNilW s stale =
      (ProbeW.processSegmentBW bk s.buf.data stale ((s.buf.w : Int) - bk.inputLen + 1) ((s.buf.w + s.blockN : Nat) : Int)).bind fun bk' =>
      some ({ s with buf := { s.buf with w := s.buf.w + s.blockN }, dict := .bucket bk' }, s.blockN, .ok) := by
  unfold ProbeW.parseNilW
  simp only [hn, if_false, hd]
  rfl

set_option maxHeartbeats 1000000 in
theorem gen_bup_parseNil (grow : Nat → Nat → Nat) (fuel : Nat) (lcp : Slice → Slice → Int) (s : Gen.bucketParser)
    (blk : Gen.Block') (flags : Int)
    (h : ParseOKU s) (hfuel : s.bucketDictionary.ParserBuffer.Data.len + 2 ≤ fuel) :
    match ProbeW.parseNilW (ofBUPs s) (staleOfU s) with
    | none => bucketParser_Parse_nilable grow fuel lcp s true blk flags = Res.panic
    | some (s', n, e) =>
      ∃ t, bucketParser_Parse_nilable grow fuel lcp s true blk flags = Res.ok (t, blk, (n : Int), parseErr e) ∧
        ofBUPs t = s' ∧ staleOfU t = staleOfU s ∧ (e = .ok ∨ e = .empty) ∧ ParseOKU t ∧
        t.bucketDictionary.ParserBuffer.Data = s.bucketDictionary.ParserBuffer.Data ∧
        t.bucketDictionary.ParserBuffer.W = ((s'.buf.w : Nat) : Int) ∧
        t.bucketDictionary.ParserBuffer.BufConfig = s.bucketDictionary.ParserBuffer.BufConfig ∧
        t.bucketDictionary.ParserBuffer.Off = s.bucketDictionary.ParserBuffer.Off ∧
        t.BUPConfig = s.BUPConfig ∧
        SameCfg s.bucketDictionary.bucketHash t.bucketDictionary.bucketHash ∧
        ∃ g', t = withWB s ((s'.buf.w : Nat) : Int) g' := by
  have hP := h
  obtain ⟨⟨hpb, hbw⟩, hbok, cws, cbs, cil, hbs0, hws0, hW, hil1, hmask, hsh, hsh2, hsmall⟩ := h
  have hil0 : 0 ≤ s.bucketDictionary.bucketHash.inputLen := by omega
  have hD : SWF s.bucketDictionary.ParserBuffer.Data := hpb.data
  have hD' : s.bucketDictionary.ParserBuffer.Data.len ≤ s.bucketDictionary.ParserBuffer.Data.arr.length := hD
  have hW0 := hpb.w
  have hdl : s.bucketDictionary.ParserBuffer.Data.data.length = s.bucketDictionary.ParserBuffer.Data.len := data_length hD
  have hbN : (ofBUPs s).blockN = Min.min (s.bucketDictionary.ParserBuffer.Data.len - s.bucketDictionary.ParserBuffer.W.toNat)
      s.BUPConfig.BlockSize.toNat := by
    show Min.min (s.bucketDictionary.ParserBuffer.Data.data.length - _) s.bucketDictionary.ParserBuffer.BufConfig.BlockSize.toNat = _
    rw [hdl, cbs]
    rfl
  have hnG : (if (Int.ofNat s.bucketDictionary.ParserBuffer.Data.len) - s.bucketDictionary.ParserBuffer.W > s.BUPConfig.BlockSize
      then s.BUPConfig.BlockSize
      else (Int.ofNat s.bucketDictionary.ParserBuffer.Data.len) - s.bucketDictionary.ParserBuffer.W) =
      (((ofBUPs s).blockN : Nat) : Int) := by
    rw [hbN]
    show (if (s.bucketDictionary.ParserBuffer.Data.len : Int) - _ > _ then _ else (s.bucketDictionary.ParserBuffer.Data.len : Int) - _) = _
    split <;> omega
  have hnG' : (if (Int.ofNat s.bucketDictionary.ParserBuffer.Data.len) - s.bucketDictionary.ParserBuffer.W ≥ s.BUPConfig.BlockSize
      then s.BUPConfig.BlockSize
      else (Int.ofNat s.bucketDictionary.ParserBuffer.Data.len) - s.bucketDictionary.ParserBuffer.W) =
      (((ofBUPs s).blockN : Nat) : Int) := by
    rw [hbN]
    show (if (s.bucketDictionary.ParserBuffer.Data.len : Int) - _ ≥ _ then _ else (s.bucketDictionary.ParserBuffer.Data.len : Int) - _) = _
    split <;> omega
  have bind_ok : ∀ {α β : Type} (a : α) (f : α → Res β), Res.bind (Res.ok a) f = f a := fun _ _ => rfl
  have e1 : (((ofBUPs s).buf.w : Nat) : Int) = s.bucketDictionary.ParserBuffer.W := by
    show ((s.bucketDictionary.ParserBuffer.W.toNat : Nat) : Int) = _; omega
  by_cases hn : (ofBUPs s).blockN = 0
  · have hg : blockNU s = 0 := by unfold blockNU; rw [hnG, hn]; rfl
    rw [gen_bup_parseNil_empty grow fuel lcp s blk flags hg]
    unfold ProbeW.parseNilW
    simp only [hn, if_true]
    refine ⟨s, rfl, rfl, rfl, by simp, hP, rfl, e1.symm, rfl, rfl, rfl, SameCfg.refl _,
      s.bucketDictionary.bucketHash, ?_⟩
    rw [e1]
  generalize hG : bucketParser_Parse_nilable grow fuel lcp s true blk flags = G
  unfold bucketParser_Parse_nilable at hG
  simp only [if_true] at hG
  simp only [hnG, hnG'] at hG
  rw [parseNilW_bucket_nf (ofBUPs s) (staleOfU s) (ofBucket s.bucketDictionary.bucketHash) rfl hn]
  -- `if n == 0 { return … }` or `if n != 0 { … }` with the arms swapped
  first | rw [if_neg (by omega)] at hG | rw [if_pos (by omega)] at hG
  -- `t := s.W + n` with the summands either way round
  try rw [Int.add_comm (((ofBUPs s).blockN : Nat) : Int) s.bucketDictionary.ParserBuffer.W] at hG
  have hargs : ProbeW.processSegmentBW (ofBucket s.bucketDictionary.bucketHash) (ofBUPs s).buf.data (staleOfU s)
      (((ofBUPs s).buf.w : Int) - ((ofBucket s.bucketDictionary.bucketHash).inputLen : Int) + 1)
        (((ofBUPs s).buf.w + (ofBUPs s).blockN : Nat) : Int) =
      ProbeW.processSegmentBW (ofBucket s.bucketDictionary.bucketHash) s.bucketDictionary.ParserBuffer.Data.data
        (s.bucketDictionary.ParserBuffer.Data.arr.drop s.bucketDictionary.ParserBuffer.Data.len)
        ((s.bucketDictionary.ParserBuffer.W - s.bucketDictionary.bucketHash.inputLen) + 1)
        (s.bucketDictionary.ParserBuffer.W + (((ofBUPs s).blockN : Nat) : Int)) := by
    have e2 : (((ofBucket s.bucketDictionary.bucketHash).inputLen : Nat) : Int) = s.bucketDictionary.bucketHash.inputLen := by
      show ((s.bucketDictionary.bucketHash.inputLen.toNat : Nat) : Int) = _; omega
    rw [Int.natCast_add, e1, e2]; rfl
  rw [hargs]
  have hps := gen_processSegmentB fuel s.bucketDictionary ((s.bucketDictionary.ParserBuffer.W - s.bucketDictionary.bucketHash.inputLen) + 1)
    (s.bucketDictionary.ParserBuffer.W + (((ofBUPs s).blockN : Nat) : Int)) hD hil0 hmask hsh hsh2 hbok hsmall (by omega)
  cases hp1 : ProbeW.processSegmentBW (ofBucket s.bucketDictionary.bucketHash) s.bucketDictionary.ParserBuffer.Data.data
        (s.bucketDictionary.ParserBuffer.Data.arr.drop s.bucketDictionary.ParserBuffer.Data.len)
        ((s.bucketDictionary.ParserBuffer.W - s.bucketDictionary.bucketHash.inputLen) + 1)
        (s.bucketDictionary.ParserBuffer.W + (((ofBUPs s).blockN : Nat) : Int)) with
  | none =>
    rw [hp1] at hps
    simp only [] at hps
    rw [hps] at hG
    exact hG.symm
  | some bk' =>
    rw [hp1] at hps
    obtain ⟨g0, hb0, hsc0, rfl, hps⟩ := hps
    rw [hps, bind_ok] at hG
    rw [Option.bind_some]
    dsimp only at hG ⊢
    have hsc := hsc0
    obtain ⟨hm0, hsh0, hil0', hbs0'⟩ := hsc0
    have hN := (ofBUPs s).blockN_le
    have hwn : (ofBUPs s).buf.w = s.bucketDictionary.ParserBuffer.W.toNat := rfl
    have hLlen : s.bucketDictionary.ParserBuffer.W.toNat + (ofBUPs s).blockN ≤ s.bucketDictionary.ParserBuffer.Data.len := by
      rw [hbN]; omega
    have hwt : s.bucketDictionary.ParserBuffer.W + (((ofBUPs s).blockN : Nat) : Int) =
        (((ofBUPs s).buf.w + (ofBUPs s).blockN : Nat) : Int) := by rw [hwn]; omega
    refine ⟨withWB s (((ofBUPs s).buf.w + (ofBUPs s).blockN : Nat) : Int) g0, hG.symm.trans ?_, ?_, rfl, Or.inl rfl, ?_,
      rfl, rfl, rfl, rfl, rfl, hsc, g0, rfl⟩
    · rw [hwt]; rfl
    · show ofBUPs (withWB s _ g0) = _
      unfold ofBUPs ofBDict ofPB
      simp only [Int.toNat_natCast]
    · exact ⟨⟨⟨hD, by show (0 : Int) ≤ (((ofBUPs s).buf.w + (ofBUPs s).blockN : Nat) : Int); omega, hpb.off, hpb.ss, hpb.bs⟩,
          ⟨hb0.gwf, hb0.swf⟩⟩, hb0,
        cws, cbs, by show _ = g0.inputLen.toNat; rw [hil0']; exact cil, hbs0, hws0,
        by show (((ofBUPs s).buf.w + (ofBUPs s).blockN : Nat) : Int) ≤ ((s.bucketDictionary.ParserBuffer.Data.len : Nat) : Int); rw [hwn]; omega,
        by show 1 ≤ g0.inputLen; rw [hil0']; exact hil1,
        by show g0.mask = maskOf g0.inputLen.toNat; rw [hm0, hil0']; exact hmask,
        by show 32 ≤ g0.shift.toNat; rw [hsh0]; exact hsh,
        by show g0.shift.toNat ≤ 64; rw [hsh0]; exact hsh2, hsmall⟩

/-- **Go text → list-level model**, nil path: on reachable states no panic, the result of `Parser.parseNil`. -/
theorem gen_bup_parseNil_model (grow : Nat → Nat → Nat) (fuel : Nat) (lcp : Slice → Slice → Int) (s : Gen.bucketParser)
    (blk : Gen.Block') (flags : Int)
    (h : ParseOKU s) (hfuel : s.bucketDictionary.ParserBuffer.Data.len + 2 ≤ fuel)
    (hcap : (ofBUPs s).buf.CapOK) (hil8 : s.bucketDictionary.bucketHash.inputLen ≤ 8) :
    ∃ t, bucketParser_Parse_nilable grow fuel lcp s true blk flags =
        Res.ok (t, blk, (((ofBUPs s).parseNil).2.1 : Int), parseErr ((ofBUPs s).parseNil).2.2) ∧
      ofBUPs t = ((ofBUPs s).parseNil).1 ∧ staleOfU t = staleOfU s ∧ ParseOKU t ∧
      t.bucketDictionary.ParserBuffer.Data = s.bucketDictionary.ParserBuffer.Data ∧
      t.bucketDictionary.ParserBuffer.W = ((((ofBUPs s).parseNil).1.buf.w : Nat) : Int) ∧
      t.bucketDictionary.ParserBuffer.BufConfig = s.bucketDictionary.ParserBuffer.BufConfig ∧
      t.bucketDictionary.ParserBuffer.Off = s.bucketDictionary.ParserBuffer.Off ∧
      t.BUPConfig = s.BUPConfig ∧
      SameCfg s.bucketDictionary.bucketHash t.bucketDictionary.bucketHash ∧
      ∃ g', t = withWB s ((((ofBUPs s).parseNil).1.buf.w : Nat) : Int) g' := by
  have hb : ProbeW.Backing (ofBUPs s) (staleOfU s) := staleOfU_length s h.wf.1.data
  have hd : ProbeW.HashDictOK (ofBUPs s).dict := by
    have := h.il1
    show 1 ≤ s.bucketDictionary.bucketHash.inputLen.toNat ∧ s.bucketDictionary.bucketHash.inputLen.toNat ≤ 8
    omega
  have hW := ProbeW.parseNilW_eq (ofBUPs s) (staleOfU s) hb hcap hd
  have hm := gen_bup_parseNil grow fuel lcp s blk flags h hfuel
  rw [hW] at hm
  obtain ⟨t, h1, h2, h3, _, h5, h6⟩ := hm
  exact ⟨t, h1, h2, h3, h5, h6⟩

#print axioms gen_bup_parse_nonnil
#print axioms gen_bup_parseNil_empty
#print axioms gen_bup_parseNil
#print axioms gen_bup_parseNil_model

end LZ.GenBUPParse
