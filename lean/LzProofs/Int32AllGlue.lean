/-
  LzProofs.Int32AllGlue — the C11 theorems of GlueProps.lean without the hypothesis `Sap.Int32OK`
  (derivable from `newParser .OSAP raw = some s0` since the repair of D18, see Int32All.lean).

  Theorems (namespace `LZ`):
   * `C11_optimal_unconditional_all`  strengthens `LZ.C11_optimal_unconditional` (GlueProps)
   * `C11_optimal_history_all`        strengthens `LZ.C11_optimal_history`       (GlueProps)
-/
import LzProofs.Int32All
import LzProofs.GlueProps
namespace LZ

/-- **C11, unconditional, for every accepted OSAP configuration.**  Start from a new OSAP parser,
    apply any sequence of `Write`, `ReadFrom`, `Parse(&blk, flags)`, `Parse(nil)`, `Shrink`,
    `Reset`; the next block emitted with flags 0 is an LZ77 parse of its bytes (lengths in
    `[MinMatchLen, MaxMatchLen]`, offsets `≤ WindowSize`, sources in the buffer) and costs no
    more (`XZCost`) than any such parse. -/
theorem C11_optimal_unconditional_all (raw : Cfg) (s0 : Parser)
    (h0 : newParser .OSAP raw = some s0)
    (ops : List Sap.POp) (flags : Nat) (hf : flags % 2 = 0)
    (hn : (Sap.runOps s0 ops).blockN ≠ 0) :
    let s := Sap.runOps s0 ops
    ∃ o, s.dict = .osap o ∧
      Sap.LzParse (s.buf.data.take (s.buf.w + s.blockN)) s.buf.w s.buf.cfg.windowSize
        s.minMatch s.cfg.maxMatchLen.toNat s.blockN (Sap.osapPath s o) ∧
      ∀ π, Sap.LzParse (s.buf.data.take (s.buf.w + s.blockN)) s.buf.w s.buf.cfg.windowSize
          s.minMatch s.cfg.maxMatchLen.toNat s.blockN π →
        Sap.blockCost (s.parse flags).2.2.2 ≤ Sap.pathCost π :=
  C11_optimal_unconditional raw s0 h0 (Sap.int32OK_of_newParser raw s0 h0) ops flags hf hn

/-- **C11 over the histories of the parser topic, for every accepted OSAP configuration** (the
    same histories `C01_roundtrip_osap`, `C02_wellformed_osap`, `C03_contiguous_osap` speak
    about): after any history, the next block an OSAP parser emits with flags 0 is a minimum-cost
    LZ77 parse of its bytes. -/
theorem C11_optimal_history_all (raw : Cfg) (s0 : Parser)
    (h0 : newParser .OSAP raw = some s0)
    (ops : List POp) (flags : Nat) (hf : flags % 2 = 0)
    (hn : (runOps (s0, Ghost.init) ops).1.blockN ≠ 0) :
    let s := (runOps (s0, Ghost.init) ops).1
    ∃ o, s.dict = .osap o ∧
      Sap.LzParse (s.buf.data.take (s.buf.w + s.blockN)) s.buf.w s.buf.cfg.windowSize
        s.minMatch s.cfg.maxMatchLen.toNat s.blockN (Sap.osapPath s o) ∧
      ∀ π, Sap.LzParse (s.buf.data.take (s.buf.w + s.blockN)) s.buf.w s.buf.cfg.windowSize
          s.minMatch s.cfg.maxMatchLen.toNat s.blockN π →
        Sap.blockCost (s.parse flags).2.2.2 ≤ Sap.pathCost π :=
  C11_optimal_history raw s0 h0 (Sap.int32OK_of_newParser raw s0 h0) ops flags hf hn

/-! ## non-vacuity -/

example := C11_optimal_unconditional_all Sap.glueOsapCfg Sap.glueOsap0 Sap.glueOsap0_new
  Sap.glueOps 0 rfl Sap.glueOps_blockN

/-! ## axioms -/

#print axioms C11_optimal_unconditional_all
#print axioms C11_optimal_history_all

end LZ
