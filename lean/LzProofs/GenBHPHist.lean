/-
  LzProofs.GenBHPHist — port of LzProofs/GenHPHist.lean to the backward hash parser BHP
  (bhp.go `backwardHashParser`: `init`, `Parse` translated — CodeBHPInit / CodeBHPParse, `lcs` an opaque parameter of
  the translation under `LcsSpec` —; `Write`, `Reset`, `Shrink` promoted from the embedded `hashDictionary` /
  `ParserBuffer` exactly as for HP).  New here: `gen_bhp_init`, `gen_bhp_init_fresh`, `gen_bhp_init_parseOK`
  (`backwardHashParser.init` = the model's `newParser .BHP`; the Go text of bhp.go `init` is that of hp.go modulo the
  type names, and so are the proofs).  The parser-independent lemmas (`BCOK`, `mparse_frame`, `ofSeq_seqRep`, …) are
  those of GenHPHist.  No sorry, no axioms of its own.
-/
import LzProofs.GenHPHist
import LzProofs.GenBHPParse
import LzProofs.GenPropsCfgBHP
import LzModel.Generated.CodeBHPInit

set_option linter.unusedSimpArgs false
set_option linter.unusedVariables false

namespace LZ.GenBHPHist
open LZ LZ.Gen LZ.GenBuf LZ.GenHash LZ.GenHPParse LZ.GenBHPParse LZ.GenProps
open LZ.GenHPHist (BCOK mwrite_eq mshrink_dict mreset_dict capOK_shrink mem_le_sum seqsAll_mem ofSeq_seqRep mparse_frame)

/-! ## init -/

/-- P01 `hashParser.init(cfg)`: `raw` is the configuration as the model sees it (`toBHP raw` the Go
    struct with the fields of `raw` that BHPConfig has) -/
theorem gen_bhp_init (s : Gen.backwardHashParser) (raw : Cfg) (hw : GWF s.hashDictionary.hash.table) :
    match newParser .BHP raw with
    | none => ∃ e, backwardHashParser_init s (toBHP raw) = Res.ok (s, e) ∧ e ≠ Gen.Err.ok
    | some p => ∃ s', backwardHashParser_init s (toBHP raw) = Res.ok (s', Gen.Err.ok) ∧
        ofBHPs s' = { p with buf := { p.buf with cap := s.hashDictionary.ParserBuffer.Data.cap } } ∧
        DictWF s'.hashDictionary := by
  -- the configuration after SetDefaults, on both sides
  have hc : ofBHP (BHPConfig_SetDefaults (toBHP raw)) = setDefaults .BHP (raw.restrict .BHP) := by
    rw [gen_setDefaults_BHP, ofBHP_toBHP]
  have hv := gen_verify_BHP (BHPConfig_SetDefaults (toBHP raw))
  rw [hc] at hv
  unfold newParser
  simp only []
  by_cases hok : BHPConfig_Verify (BHPConfig_SetDefaults (toBHP raw)) = Gen.Err.ok
  · have hvm : verify .BHP (setDefaults .BHP (raw.restrict .BHP)) = true := hv.mp hok
    simp only [hvm, if_true]
    unfold backwardHashParser_init hashDictionary_init
    dsimp only
    -- what Verify = ok says about the two helper configurations
    have hparts : BufConfig_Verify ⟨(BHPConfig_SetDefaults (toBHP raw)).ShrinkSize, (BHPConfig_SetDefaults (toBHP raw)).BufferSize,
          (BHPConfig_SetDefaults (toBHP raw)).WindowSize, (BHPConfig_SetDefaults (toBHP raw)).BlockSize⟩ = Gen.Err.ok ∧
        hashConfig_Verify ⟨(BHPConfig_SetDefaults (toBHP raw)).InputLen, (BHPConfig_SetDefaults (toBHP raw)).HashBits⟩ = Gen.Err.ok := by
      have := hok
      simp only [BHPConfig_Verify] at this
      split at this
      · rename_i hne; exact absurd this hne
      · rename_i hne; exact ⟨Classical.not_not.mp hne, this⟩
    -- the two helper configurations are SetDefaults images, so SetDefaults does not change them
    have hbc : ∃ b0 : Gen.BufConfig, (⟨(BHPConfig_SetDefaults (toBHP raw)).ShrinkSize, (BHPConfig_SetDefaults (toBHP raw)).BufferSize,
          (BHPConfig_SetDefaults (toBHP raw)).WindowSize, (BHPConfig_SetDefaults (toBHP raw)).BlockSize⟩ : Gen.BufConfig) =
        BufConfig_SetDefaults b0 := ⟨_, rfl⟩
    have hhc : ∃ h0 : Gen.hashConfig, (⟨(BHPConfig_SetDefaults (toBHP raw)).InputLen, (BHPConfig_SetDefaults (toBHP raw)).HashBits⟩ : Gen.hashConfig) =
        hashConfig_SetDefaults h0 := ⟨_, rfl⟩
    generalize BHPConfig_SetDefaults (toBHP raw) = c' at *
    obtain ⟨hvb, hvh⟩ := hparts
    obtain ⟨b0, hb0⟩ := hbc
    obtain ⟨h0, hh0⟩ := hhc
    have hbi : BufConfig_SetDefaults ⟨c'.ShrinkSize, c'.BufferSize, c'.WindowSize, c'.BlockSize⟩ =
        ⟨c'.ShrinkSize, c'.BufferSize, c'.WindowSize, c'.BlockSize⟩ := by rw [hb0, bufDefaults_idem]
    have hhi : hashConfig_SetDefaults ⟨c'.InputLen, c'.HashBits⟩ = ⟨c'.InputLen, c'.HashBits⟩ := by
      rw [hh0, hashDefaults_idem]
    obtain ⟨pb', hpi, hofpb, hpwf⟩ :=
      (gen_pbuf_init s.hashDictionary.ParserBuffer ⟨c'.ShrinkSize, c'.BufferSize, c'.WindowSize, c'.BlockSize⟩).2
        (by rw [hbi]; exact hvb)
    obtain ⟨g', hgi, hofg, hgwf⟩ := gen_hash_init s.hashDictionary.hash c'.InputLen c'.HashBits hw
      (hashVerify_initOK _ hvh)
    simp only [hok, ne_eq, not_true_eq_false, if_false, hpi, bind_ok, hhi, hvh, hgi]
    refine ⟨_, rfl, ?_, ⟨hpwf, hgwf⟩⟩
    simp only [ofBHPs, ofDict, hofpb, hofg, hbi, freshDict, ← hc]
    rfl
  · have hvm : ¬ verify .BHP (setDefaults .BHP (raw.restrict .BHP)) = true := fun c => hok (hv.mpr c)
    simp only [hvm, if_false]
    unfold backwardHashParser_init
    simp only [hok, ne_eq, not_false_eq_true, if_true]
    exact ⟨_, rfl, hok⟩

/-- P01 for the receiver `new(hashParser)` (all fields zero): exactly the model's fresh parser -/
theorem gen_bhp_init_fresh (raw : Cfg) (p : Parser) (hp : newParser .BHP raw = some p) :
    ∃ s', backwardHashParser_init default (toBHP raw) = Res.ok (s', Gen.Err.ok) ∧ ofBHPs s' = p ∧ DictWF s'.hashDictionary := by
  have := gen_bhp_init default raw (by unfold GWF; exact Nat.le_refl 0)
  rw [hp] at this
  obtain ⟨s', h1, h2, h3⟩ := this
  refine ⟨s', h1, ?_, h3⟩
  rw [h2]
  unfold newParser at hp
  simp only [] at hp
  split at hp
  · simp only [Option.some.injEq] at hp
    subst hp; rfl
  · exact absurd hp (by simp)

/-- **`ParseOKB` is what `init` establishes** (non-vacuity of the hypotheses of `gen_hp_parse`): for every
    configuration `NewParser` accepts, the translated `hashParser.init` on `new(hashParser)` yields a Go state that
    abstracts to the model's fresh parser and satisfies `ParseOKB`.  (`gen_hp_parse` then shows that `Parse`
    preserves `ParseOKB`.) -/
theorem gen_bhp_init_parseOK (raw : Cfg) (p : Parser) (hp : newParser .BHP raw = some p) :
    ∃ s', backwardHashParser_init default (GenProps.toBHP raw) = Res.ok (s', Gen.Err.ok) ∧ ofBHPs s' = p ∧ ParseOKB s' := by
  obtain ⟨s', h1, h2, h3⟩ := gen_bhp_init_fresh raw p hp
  refine ⟨s', h1, h2, ?_⟩
  unfold newParser at hp
  simp only [] at hp
  split at hp
  · rename_i hv
    simp only [Option.some.injEq] at hp
    subst hp
    generalize setDefaults .BHP (raw.restrict .BHP) = c at hv h2
    have hhv : hashVerify c.inputLen c.hashBits Facts.maxHashBits = true := by
      simp only [verify, Bool.and_eq_true] at hv; exact hv.2
    rw [GenProps.hashVerify_iff] at hhv
    simp only [Facts.maxHashBits] at hhv
    obtain ⟨⟨hb1, hb2⟩, hb3, hb4⟩ := hhv
    have hb4' : c.hashBits ≤ 24 := by omega
    obtain ⟨_, hbs⟩ := verify_static .BHP c hv
    have hcfg : GenProps.ofBHP s'.BHPConfig = c := congrArg Parser.cfg h2
    have hbuf : ofPB s'.hashDictionary.ParserBuffer = PBuf.init c.bufCfg := congrArg Parser.buf h2
    have hdict : Dict.single (ofHash s'.hashDictionary.hash) =
        Dict.single (HashT.new c.inputLen.toNat c.hashBits.toNat) := congrArg Parser.dict h2
    injection hdict with hdict
    have hws : s'.hashDictionary.ParserBuffer.BufConfig.WindowSize.toNat = c.windowSize.toNat :=
      congrArg (fun b => b.cfg.windowSize) hbuf
    have hbl : s'.hashDictionary.ParserBuffer.BufConfig.BlockSize.toNat = c.blockSize.toNat :=
      congrArg (fun b => b.cfg.blockSize) hbuf
    have hw : s'.hashDictionary.ParserBuffer.W.toNat = 0 := congrArg PBuf.w hbuf
    have hd : s'.hashDictionary.ParserBuffer.Data.data = [] := congrArg PBuf.data hbuf
    have hil : s'.hashDictionary.hash.inputLen.toNat = c.inputLen.toNat := congrArg HashT.inputLen hdict
    have hhb : 64 - s'.hashDictionary.hash.shift.toNat = c.hashBits.toNat := congrArg HashT.hashBits hdict
    have cW : s'.BHPConfig.WindowSize = c.windowSize := congrArg Cfg.windowSize hcfg
    have cB : s'.BHPConfig.BlockSize = c.blockSize := congrArg Cfg.blockSize hcfg
    have cI : s'.BHPConfig.InputLen = c.inputLen := congrArg Cfg.inputLen hcfg
    have hlen : s'.hashDictionary.ParserBuffer.Data.len = 0 := by
      have := data_length h3.1.data
      rw [hd] at this; exact this.symm
    have hbs' : 1 ≤ c.blockSize.toNat := hbs
    have hw0 := h3.1.w
    have hs64 := h3.2.2.2.2.1
    exact ⟨h3, by rw [cW, hws], by rw [cB, hbl], by rw [cI, hil], by rw [cB]; omega, by rw [hlen]; omega,
      by omega, by omega, by rw [hlen]; decide⟩
  · exact absurd hp (by simp)


/-! ## the promoted methods -/

/-- `s.Write(p)` for `s *backwardHashParser`: `ParserBuffer.Write` on the embedded buffer -/
def bhp_Write (grow : Nat → Nat → Nat) (s : Gen.backwardHashParser) (p : Slice) : Res (Gen.backwardHashParser × Int × Gen.Err) :=
  Res.bind (ParserBuffer_Write grow s.hashDictionary.ParserBuffer p) fun r =>
  Res.ok ({ s with hashDictionary := { s.hashDictionary with ParserBuffer := r.1 } }, r.2.1, r.2.2)

/-- `s.Reset(data)` for `s *backwardHashParser`: `hashDictionary.Reset` on the embedded dictionary -/
def bhp_Reset (s : Gen.backwardHashParser) (data : Slice) : Res (Gen.backwardHashParser × Gen.Err) :=
  Res.bind (hashDictionary_Reset s.hashDictionary data) fun r =>
  Res.ok ({ s with hashDictionary := r.1 }, r.2)

/-- `s.Shrink()` for `s *backwardHashParser`: `hashDictionary.Shrink` on the embedded dictionary -/
def bhp_Shrink (s : Gen.backwardHashParser) : Res (Gen.backwardHashParser × Int) :=
  Res.bind (hashDictionary_Shrink s.hashDictionary) fun r =>
  Res.ok ({ s with hashDictionary := r.1 }, r.2)

/-! ## the invariant -/

/-- the invariant of a history of translated operations on a Go `backwardHashParser` -/
structure HistOK (bc : BufCfg) (t : Gen.backwardHashParser) : Prop where
  pok : ParseOKB t
  cfg : ofCfg t.hashDictionary.ParserBuffer.BufConfig = bc
  len : t.hashDictionary.ParserBuffer.Data.len ≤ bc.bufferSize
  cap : (ofPB t.hashDictionary.ParserBuffer).CapOK
  il8 : t.BHPConfig.InputLen.toNat ≤ 8

theorem HistOK.dataLen {bc : BufCfg} {t : Gen.backwardHashParser} (h : HistOK bc t) :
    (ofBHPs t).buf.data.length = t.hashDictionary.ParserBuffer.Data.len := data_length h.pok.wf.1.data

theorem HistOK.hw {bc : BufCfg} {t : Gen.backwardHashParser} (h : HistOK bc t) :
    (ofBHPs t).buf.w ≤ (ofBHPs t).buf.data.length := by
  rw [h.dataLen]
  have h1 := h.pok.w
  have h2 := h.pok.wf.1.w
  show t.hashDictionary.ParserBuffer.W.toNat ≤ _
  omega

theorem HistOK.mlen {bc : BufCfg} {t : Gen.backwardHashParser} (h : HistOK bc t) :
    (ofBHPs t).buf.data.length ≤ (ofBHPs t).buf.cfg.bufferSize := by
  rw [h.dataLen]
  show _ ≤ (ofCfg t.hashDictionary.ParserBuffer.BufConfig).bufferSize
  rw [h.cfg]; exact h.len

theorem HistOK.mcfg {bc : BufCfg} {t : Gen.backwardHashParser} (h : HistOK bc t) : (ofBHPs t).buf.cfg = bc := h.cfg

/-- `HistOK` after an operation that replaced the embedded dictionary: what has to be known about the new one -/
theorem histOK_update {bc : BufCfg} (hbc : BCOK bc) {t : Gen.backwardHashParser} (h : HistOK bc t)
    (f' : Gen.hashDictionary) (hwf : DictWF f')
    (hil : (ofHash f'.hash).inputLen = (ofHash t.hashDictionary.hash).inputLen)
    (hhb : (ofHash f'.hash).hashBits = (ofHash t.hashDictionary.hash).hashBits)
    (hcfg : (ofPB f'.ParserBuffer).cfg = bc)
    (hw : (ofPB f'.ParserBuffer).w ≤ (ofPB f'.ParserBuffer).data.length)
    (hlen : (ofPB f'.ParserBuffer).data.length ≤ bc.bufferSize)
    (hcap : (ofPB f'.ParserBuffer).CapOK) :
    HistOK bc { t with hashDictionary := f' } := by
  have hdl : (ofPB f'.ParserBuffer).data.length = f'.ParserBuffer.Data.len := data_length hwf.1.data
  rw [hdl] at hw hlen
  have hil' : f'.hash.inputLen.toNat = t.hashDictionary.hash.inputLen.toNat := hil
  have hhb' : 64 - f'.hash.shift.toNat = 64 - t.hashDictionary.hash.shift.toNat := hhb
  have hc : ofCfg f'.ParserBuffer.BufConfig = ofCfg t.hashDictionary.ParserBuffer.BufConfig := hcfg.trans h.cfg.symm
  have hws : f'.ParserBuffer.BufConfig.WindowSize.toNat = t.hashDictionary.ParserBuffer.BufConfig.WindowSize.toNat :=
    congrArg BufCfg.windowSize hc
  have hbs : f'.ParserBuffer.BufConfig.BlockSize.toNat = t.hashDictionary.ParserBuffer.BufConfig.BlockSize.toNat :=
    congrArg BufCfg.blockSize hc
  have hW0 := hwf.1.w
  have hw' : f'.ParserBuffer.W.toNat ≤ f'.ParserBuffer.Data.len := hw
  have hs64 := hwf.2.2.2.2.1
  have hs64' := h.pok.wf.2.2.2.2.1
  have hi0 := hwf.2.2.1
  have := h.pok.il1
  have := h.pok.sh
  have := hbc.bmax
  refine ⟨⟨hwf, ?_, ?_, ?_, h.pok.bs0, ?_, ?_, ?_, ?_⟩, hcfg, hlen, hcap, h.il8⟩
  · show t.BHPConfig.WindowSize.toNat = f'.ParserBuffer.BufConfig.WindowSize.toNat
    rw [hws]; exact h.pok.cws
  · show t.BHPConfig.BlockSize.toNat = f'.ParserBuffer.BufConfig.BlockSize.toNat
    rw [hbs]; exact h.pok.cbs
  · show t.BHPConfig.InputLen.toNat = f'.hash.inputLen.toNat
    rw [hil']; exact h.pok.cil
  · show f'.ParserBuffer.W ≤ (f'.ParserBuffer.Data.len : Int)
    omega
  · show 1 ≤ f'.hash.inputLen
    omega
  · show 32 ≤ f'.hash.shift.toNat
    omega
  · show f'.ParserBuffer.Data.len < 4294967296
    omega

/-! ## Write -/

theorem hist_write {bc : BufCfg} (hbc : BCOK bc) (grow : Nat → Nat → Nat) (t : Gen.backwardHashParser) (h : HistOK bc t)
    (p : Slice) (hp : SWF p) :
    ∃ t' n e, bhp_Write grow t p = Res.ok (t', n, e) ∧ HistOK bc t' ∧
      ofBHPs t' = ((ofBHPs t).write p.data).1 ∧ n = (((ofBHPs t).write p.data).2.1 : Int) ∧
      errOf e = some ((ofBHPs t).write p.data).2.2 ∧
      (((ofBHPs t).write p.data).2.2 = .ok ∨ ((ofBHPs t).write p.data).2.2 = .full) := by
  have hA := gen_pbuf_write grow t.hashDictionary.ParserBuffer h.pok.wf.1 p hp
  obtain ⟨c, hc, hcm⟩ := PBuf.write_spec (ofPB t.hashDictionary.ParserBuffer) p.data h.mlen
  obtain ⟨a1, a2, a3, a4, a5, a6⟩ := PBuf.write_frame (ofPB t.hashDictionary.ParserBuffer) p.data
  have herr : (PBuf.write (ofPB t.hashDictionary.ParserBuffer) p.data).2.2 = .ok ∨
      (PBuf.write (ofPB t.hashDictionary.ParserBuffer) p.data).2.2 = .full := by
    rw [hc]; simp only []; split
    · right; rfl
    · left; rfl
  rw [mwrite_eq]
  simp only []
  show ∃ t' n e, bhp_Write grow t p = Res.ok (t', n, e) ∧ HistOK bc t' ∧
      ofBHPs t' = { ofBHPs t with buf := (PBuf.write (ofPB t.hashDictionary.ParserBuffer) p.data).1 } ∧
      n = ((PBuf.write (ofPB t.hashDictionary.ParserBuffer) p.data).2.1 : Int) ∧
      errOf e = some (PBuf.write (ofPB t.hashDictionary.ParserBuffer) p.data).2.2 ∧ _
  unfold bhp_Write
  cases hr : ParserBuffer_Write grow t.hashDictionary.ParserBuffer p with
  | ok v =>
    obtain ⟨b', n, e⟩ := v
    rw [hr] at hA
    obtain ⟨_, hof, hn, he, hwf⟩ := hA
    refine ⟨_, n, e, rfl, ?_, ?_, hn, he, herr⟩
    · refine histOK_update hbc h { t.hashDictionary with ParserBuffer := b' } ⟨hwf, h.pok.wf.2⟩ rfl rfl ?_ ?_ ?_ ?_
      · show (ofPB b').cfg = bc
        rw [hof, a5]; exact h.cfg
      · show (ofPB b').w ≤ (ofPB b').data.length
        rw [hof, a3, a1, List.length_append]
        have := h.hw
        show (ofPB t.hashDictionary.ParserBuffer).w ≤ (ofPB t.hashDictionary.ParserBuffer).data.length + _
        have h2 : (ofPB t.hashDictionary.ParserBuffer).w ≤ (ofPB t.hashDictionary.ParserBuffer).data.length := this
        omega
      · show (ofPB b').data.length ≤ bc.bufferSize
        rw [hof, hc]
        simp only [List.length_append, List.length_take]
        have h1 := h.mlen
        have h2 : (ofPB t.hashDictionary.ParserBuffer).cfg.bufferSize = bc.bufferSize := by rw [h.cfg.symm]; rfl
        have h1' : (ofPB t.hashDictionary.ParserBuffer).data.length ≤ (ofPB t.hashDictionary.ParserBuffer).cfg.bufferSize := h1
        omega
      · show (ofPB b').CapOK
        rw [hof]; exact a6 h.cap
    · show ofDict .BHP (ofBHP t.BHPConfig) { t.hashDictionary with ParserBuffer := b' } = _
      simp only [ofDict, hof, ofBHPs]
  | panic =>
    rw [hr] at hA
    have hA' : (PBuf.write (ofPB t.hashDictionary.ParserBuffer) p.data).2.2 = .panic := hA
    rcases herr with h1 | h1 <;> rw [h1] at hA' <;> cases hA'
  | fuel =>
    rw [hr] at hA
    exact absurd hA (by intro hc; exact hc)

/-! ## Shrink -/

theorem hist_shrink {bc : BufCfg} (hbc : BCOK bc) (t : Gen.backwardHashParser) (h : HistOK bc t) :
    ∃ t', bhp_Shrink t = Res.ok (t', ((ofBHPs t).shrink.2 : Int)) ∧ HistOK bc t' ∧
      ofBHPs t' = (ofBHPs t).shrink.1 := by
  have hW := h.pok.w
  have hS := h.pok.small
  have hss := h.pok.wf.1.ss
  obtain ⟨f', hf, hof, hwf⟩ := gen_hp_shrink .BHP (ofBHP t.BHPConfig) t.hashDictionary h.pok.wf (by omega) (by omega)
  unfold bhp_Shrink
  rw [hf]
  refine ⟨_, rfl, ?_, hof⟩
  obtain ⟨h', hd', hi', hb'⟩ := mshrink_dict (ofBHPs t) (ofHash t.hashDictionary.hash) rfl
  have hdict : Dict.single (ofHash f'.hash) = Dict.single h' := (congrArg Parser.dict hof).trans hd'
  injection hdict with hdict
  have hbuf : ofPB f'.ParserBuffer = (ofBHPs t).shrink.1.buf := congrArg Parser.buf hof
  have hbuf' : ofPB f'.ParserBuffer = ofPB t.hashDictionary.ParserBuffer ∨
      ofPB f'.ParserBuffer = (ofPB t.hashDictionary.ParserBuffer).shrink.1 := by
    rcases shrink_eq (ofBHPs t) with he | ⟨-, -, hb, -, -⟩
    · left; rw [hbuf, he]; rfl
    · right; rw [hbuf, hb]; rfl
  have hmw : (ofPB t.hashDictionary.ParserBuffer).w ≤ (ofPB t.hashDictionary.ParserBuffer).data.length := h.hw
  have hml : (ofPB t.hashDictionary.ParserBuffer).data.length ≤ bc.bufferSize := by
    have := h.mlen; rw [h.mcfg] at this; exact this
  refine histOK_update hbc h f' hwf (by rw [hdict]; exact hi') (by rw [hdict]; exact hb') ?_ ?_ ?_ ?_
  · rcases hbuf' with e | e
    · rw [e]; exact h.cfg
    · rw [e, (PBuf.shrink_frame _).2.2.2.1]; exact h.cfg
  · rcases hbuf' with e | e
    · rw [e]; exact hmw
    · obtain ⟨a1, a2, a3, a4, a5, a6⟩ := PBuf.shrink_frame (ofPB t.hashDictionary.ParserBuffer)
      rw [e, a1, List.length_drop]; omega
  · rcases hbuf' with e | e
    · rw [e]; exact hml
    · obtain ⟨a1, a2, a3, a4, a5, a6⟩ := PBuf.shrink_frame (ofPB t.hashDictionary.ParserBuffer)
      rw [e, a1, List.length_drop]; omega
  · rcases hbuf' with e | e
    · rw [e]; exact h.cap
    · rw [e]; exact capOK_shrink _ h.cap

/-! ## Reset -/

theorem hist_reset {bc : BufCfg} (hbc : BCOK bc) (t : Gen.backwardHashParser) (h : HistOK bc t) (data : Slice)
    (hdat : SWF data) :
    ∃ t' e, bhp_Reset t data = Res.ok (t', e) ∧ HistOK bc t' ∧
      ofBHPs t' = ((ofBHPs t).reset data.data (data.cap - data.len)).1 ∧
      errOfReset e = some ((ofBHPs t).reset data.data (data.cap - data.len)).2 := by
  obtain ⟨f', e, hf, hof, herr, hwf⟩ := gen_hp_reset .BHP (ofBHP t.BHPConfig) t.hashDictionary h.pok.wf data hdat
  unfold bhp_Reset
  rw [hf]
  refine ⟨_, e, rfl, ?_, hof, herr⟩
  obtain ⟨h', hd', hi', hb'⟩ := mreset_dict (ofBHPs t) (ofHash t.hashDictionary.hash) rfl data.data (data.cap - data.len)
  have hdict : Dict.single (ofHash f'.hash) = Dict.single h' := (congrArg Parser.dict hof).trans hd'
  injection hdict with hdict
  have hbuf : ofPB f'.ParserBuffer = ((ofBHPs t).reset data.data (data.cap - data.len)).1.buf := congrArg Parser.buf hof
  have hmw : (ofPB t.hashDictionary.ParserBuffer).w ≤ (ofPB t.hashDictionary.ParserBuffer).data.length := h.hw
  have hml : (ofPB t.hashDictionary.ParserBuffer).data.length ≤ bc.bufferSize := by
    have := h.mlen; rw [h.mcfg] at this; exact this
  refine histOK_update hbc h f' hwf (by rw [hdict]; exact hi') (by rw [hdict]; exact hb') ?_ ?_ ?_ ?_
  all_goals
    rcases reset_eq (ofBHPs t) data.data (data.cap - data.len) with ⟨-, hs⟩ | ⟨-, -, -, hb, hbe, -, -⟩
    · rw [hbuf, hs]
      first | exact h.cfg | exact hmw | exact hml | exact h.cap
    · rw [hbuf, hb]
      have hbe' : (PBuf.reset (ofPB t.hashDictionary.ParserBuffer) data.data (data.cap - data.len)).2 = .ok := hbe
      rcases PBuf.reset_frame (ofPB t.hashDictionary.ParserBuffer) data.data (data.cap - data.len) with
        ⟨-, b1, b2, b3, b4, b5⟩ | ⟨b0, -⟩
      · show _
        first
          | (show (PBuf.reset (ofPB t.hashDictionary.ParserBuffer) data.data (data.cap - data.len)).1.cfg = bc
             rw [b4]; exact h.cfg)
          | (show (PBuf.reset (ofPB t.hashDictionary.ParserBuffer) data.data (data.cap - data.len)).1.w ≤ _
             rw [b2]; exact Nat.zero_le _)
          | (show (PBuf.reset (ofPB t.hashDictionary.ParserBuffer) data.data (data.cap - data.len)).1.data.length ≤ bc.bufferSize
             rw [b1]
             have hno : ¬ (ofPB t.hashDictionary.ParserBuffer).cfg.bufferSize < data.data.length := by
               intro hc
               have := (PBuf.reset_err_iff _ data.data (data.cap - data.len)).mpr hc
               rw [hbe'] at this; cases this
             have hcc : (ofPB t.hashDictionary.ParserBuffer).cfg.bufferSize = bc.bufferSize := by rw [← h.cfg]; rfl
             omega)
          | exact b5
      · exact absurd hbe' b0

/-! ## Parse -/

theorem hist_parse {bc : BufCfg} (hbc : BCOK bc) (grow : Nat → Nat → Nat) (fuel : Nat) (lcs : Slice → Slice → Int)
    (hlcs : LcsSpec lcs) (t : Gen.backwardHashParser)
    (h : HistOK bc t) (blk : Gen.Block') (flags : Int) (hfl : 0 ≤ flags)
    (hfuel : 2 * t.hashDictionary.ParserBuffer.Data.len + 3 ≤ fuel) :
    ∃ t' blk', backwardHashParser_Parse grow fuel lcs t blk flags =
        Res.ok (t', blk', (((ofBHPs t).parse flags.toNat).2.1 : Int), parseErr ((ofBHPs t).parse flags.toNat).2.2.1) ∧
      HistOK bc t' ∧ ofBHPs t' = ((ofBHPs t).parse flags.toNat).1 ∧
      ofBlock blk' = ((ofBHPs t).parse flags.toNat).2.2.2 ∧ SWF blk'.Literals ∧
      (((ofBHPs t).parse flags.toNat).2.2.1 = .ok ∨ ((ofBHPs t).parse flags.toNat).2.2.1 = .empty) := by
  have hil1 := h.pok.il1
  have hcil := h.pok.cil
  have hil8 := h.il8
  have hb : ProbeW.Backing (ofBHPs t) (staleOfB t) := staleOfB_length t h.pok.wf.1.data
  have hd : ProbeW.HashDictOK (ofBHPs t).dict := by
    show 1 ≤ t.hashDictionary.hash.inputLen.toNat ∧ t.hashDictionary.hash.inputLen.toNat ≤ 8
    omega
  have hmm3 : (ofBHPs t).minMatch = Min.min 3 t.BHPConfig.InputLen.toNat := rfl
  have hW := ProbeW.parseW_eq (ofBHPs t) (staleOfB t) flags.toNat h.hw hb h.cap hd (by rw [hmm3]; omega)
  have hnot : ∀ o, (ofBHPs t).dict ≠ .osap o := by intro o ho; cases ho
  have hbm := hbc.bmax
  have hwm := hbc.wmax
  obtain ⟨f1, f2, f3, f4⟩ := mparse_frame (ofBHPs t) flags.toNat h.hw (by rw [hmm3]; omega) h.cap hnot 4294967288
    (by have := h.mlen; rw [h.mcfg] at this; omega) (by rw [h.mcfg]; exact hwm)
  have hm := gen_bhp_parse grow fuel lcs hlcs t blk flags h.pok hfl hfuel
  rw [hW] at hm
  generalize (ofBHPs t).parse flags.toNat = R at hm f1 f2 f3 f4 ⊢
  obtain ⟨s', n, e, b⟩ := R
  simp only at hm f1 f2 f3 f4 ⊢
  obtain ⟨t', blk', h1, h2, h3, h4, h5, h6, h7, h8⟩ := hm
  refine ⟨t', blk', h1, ?_, h2, ?_, h7, h4⟩
  · have hbuf : ofPB t'.hashDictionary.ParserBuffer = _ := (congrArg Parser.buf h2).trans f1
    have hcfgP : ofBHP t'.BHPConfig = ofBHP t.BHPConfig := (congrArg Parser.cfg h2).trans f2
    have hHP : t'.BHPConfig = t.BHPConfig := by
      have := congrArg toBHP hcfgP
      rw [toBHP_ofBHP, toBHP_ofBHP] at this; exact this
    refine ⟨h8, ?_, ?_, ?_, by rw [hHP]; exact h.il8⟩
    · have : (ofPB t'.hashDictionary.ParserBuffer).cfg = (ofPB t.hashDictionary.ParserBuffer).cfg := by rw [hbuf]; rfl
      exact this.trans h.cfg
    · have e : (ofPB t'.hashDictionary.ParserBuffer).data = (ofPB t.hashDictionary.ParserBuffer).data := by rw [hbuf]; rfl
      have e2 := congrArg List.length e
      have d1 : (ofPB t'.hashDictionary.ParserBuffer).data.length = t'.hashDictionary.ParserBuffer.Data.len :=
        data_length h8.wf.1.data
      have d2 : (ofPB t.hashDictionary.ParserBuffer).data.length = t.hashDictionary.ParserBuffer.Data.len :=
        data_length h.pok.wf.1.data
      have := h.len
      omega
    · have hc := h.cap
      unfold PBuf.CapOK at hc ⊢
      rw [hbuf]; exact hc
  · have hmap : List.map (ofSeq ∘ seqRep) b.seqs = b.seqs := by
      conv => rhs; rw [← List.map_id b.seqs]
      apply List.map_congr_left
      intro q hq
      obtain ⟨g1, g2, g3, g4⟩ := f4 q hq
      exact ofSeq_seqRep q (by omega) (by omega) (by omega) g4
    unfold ofBlock
    rw [h5, h6, List.map_map, hmap]

/-! ## init -/

/-- `hashParser.init(cfg)` on `new(hashParser)`: if it returns `nil`, the configuration is one the model's `NewParser`
    accepts, the Go state abstracts to the model's fresh parser, and `HistOK` holds for its buffer configuration -/
theorem hist_init (cfg : Gen.BHPConfig) (s0 : Gen.backwardHashParser)
    (hinit : backwardHashParser_init default cfg = Res.ok (s0, Gen.Err.ok)) :
    ∃ p, newParser .BHP (ofBHP cfg) = some p ∧ ofBHPs s0 = p ∧ BCOK p.buf.cfg ∧ HistOK p.buf.cfg s0 := by
  have hg := gen_bhp_init default (ofBHP cfg) (by unfold GWF; exact Nat.le_refl 0)
  rw [toBHP_ofBHP] at hg
  cases hp : newParser .BHP (ofBHP cfg) with
  | none =>
    rw [hp] at hg
    obtain ⟨e, he, hne⟩ := hg
    rw [hinit] at he
    injection he with he
    injection he with _ he
    exact absurd he.symm hne
  | some p =>
    obtain ⟨s', h1, h2, h3⟩ := gen_bhp_init_parseOK (ofBHP cfg) p hp
    rw [toBHP_ofBHP, hinit] at h1
    injection h1 with h1
    injection h1 with h1 _
    subst h1
    refine ⟨p, rfl, h2, ?_⟩
    unfold newParser at hp
    simp only [] at hp
    split at hp
    · rename_i hv
      simp only [Option.some.injEq] at hp
      generalize setDefaults .BHP ((ofBHP cfg).restrict .BHP) = c at hv hp
      have hbv := verify_buf .BHP c hv
      simp only [bufVerify, Facts.maxUint32, Facts.margin] at hbv
      replace hbv := of_decide_eq_true hbv
      have hbv' : c.bufferSize ≤ 4294967288 ∧ c.windowSize ≤ 4294967288 := by
        obtain ⟨⟨_, a⟩, _, ⟨_, b⟩, _⟩ := hbv
        exact ⟨by omega, by omega⟩
      have hhv : hashVerify c.inputLen c.hashBits Facts.maxHashBits = true := by
        simp only [verify, Bool.and_eq_true] at hv; exact hv.2
      simp only [hashVerify, Facts.maxInputLen] at hhv
      replace hhv := of_decide_eq_true hhv
      have hhv' : c.inputLen ≤ 8 := hhv.1.2
      have hbuf : (ofBHPs s0).buf = PBuf.init c.bufCfg := by rw [h2, ← hp]
      have hcf : (ofBHPs s0).cfg = c := by rw [h2, ← hp]
      have hpb : p.buf.cfg = c.bufCfg := by rw [← hp]; rfl
      have hI : s0.BHPConfig.InputLen = c.inputLen := congrArg Cfg.inputLen hcf
      have hBC : BCOK p.buf.cfg := by
        rw [hpb]
        exact ⟨by show c.bufferSize.toNat ≤ _; omega, by show c.windowSize.toNat ≤ _; omega⟩
      refine ⟨hBC, h3, ?_, ?_, ?_, ?_⟩
      · rw [hpb]; exact congrArg PBuf.cfg hbuf
      · have : s0.hashDictionary.ParserBuffer.Data.len = 0 := by
          have := data_length h3.wf.1.data
          have e : s0.hashDictionary.ParserBuffer.Data.data = [] := congrArg PBuf.data hbuf
          rw [e] at this; exact this.symm
        rw [this]; exact Nat.zero_le _
      · left; exact congrArg PBuf.data hbuf
      · rw [hI]; omega
    · exact absurd hp (by simp)

end LZ.GenBHPHist

#print axioms LZ.GenBHPHist.gen_bhp_init
#print axioms LZ.GenBHPHist.gen_bhp_init_parseOK
#print axioms LZ.GenBHPHist.hist_write
#print axioms LZ.GenBHPHist.hist_shrink
#print axioms LZ.GenBHPHist.hist_reset
#print axioms LZ.GenBHPHist.hist_parse
#print axioms LZ.GenBHPHist.hist_init
