/-
  LzProofs.GenPropsHash — hash.go: hashValue.
  G04 gen_hashValue_mod / gen_hashValue / gen_hashValue_verified
  Part of the split of the former LzProofs/GenProps.lean: "the hand-written model equals the
  code that `tools/extract -code` regenerates from the Go source".  The generated code is
  emitted per topic (LzModel/Generated/Code<Topic>.lean); this file only imports the topic it
  talks about, so a Go function the translator refuses takes down this file and nothing else.
  Every theorem quantifies over ALL inputs; Go `int`/`int64` are unbounded `Int` on both sides
  (overflow is out of scope), `uint32`/`uint64` wrap around.  All names live in `LZ.GenProps`.
  The proofs are written against the MEANING of the generated functions (unfold, split every
  `if`, decide linear arithmetic), not against the shape of the generated term, so that
  behaviour-preserving rewrites of the Go source (De Morgan, swapped arms, reordered defaults,
  `x+x` for `2*x`, …) do not break them.
-/
import LzModel.Generated.CodeHash
import LzProofs.GenPropsBase

set_option linter.unusedSimpArgs false

namespace LZ.GenProps
open LZ

/-! ## hash.go: hashValue -/

theorem prime_eq : (9920624304325388887 : UInt64) = prime64 := by
  unfold prime64 Facts.prime; rfl

/-- `h.shift = 64 - uint(hashBits)` (hash.init) in `uint` arithmetic -/
theorem shift_eq (hb : Nat) (h : hb ≤ 64) : (64 : UInt64) - UInt64.ofNat hb = UInt64.ofNat (64 - hb) := by
  apply UInt64.toNat_inj.mp
  rw [UInt64.toNat_sub]
  simp only [UInt64.toNat_ofNat']
  have : (64 : UInt64).toNat = 64 := rfl
  rw [this]
  have h1 : hb % 2 ^ 64 = hb := Nat.mod_eq_of_lt (by omega)
  have h2 : (64 - hb) % 2 ^ 64 = 64 - hb := Nat.mod_eq_of_lt (by omega)
  rw [h1, h2]; omega

/-- G04 for every `hashBits ≤ 64`: the Go function is the model value truncated to `uint32` -/
theorem gen_hashValue_mod (x : UInt64) (hb : Nat) (h : hb ≤ 64) :
    (Gen.hashValue x (64 - UInt64.ofNat hb)).toNat = LZ.hashValue x hb % 2 ^ 32 := by
  rw [shift_eq hb h]
  unfold Gen.hashValue Gen.shrU64 LZ.hashValue
  rw [prime_eq]
  have h2 : (UInt64.ofNat (64 - hb)).toNat = 64 - hb := by
    simp only [UInt64.toNat_ofNat']; exact Nat.mod_eq_of_lt (by omega)
  rw [h2]
  by_cases h0 : hb = 0
  · subst h0; simp
  · have : 64 - hb < 64 := by omega
    simp only [this, if_true, h0, if_false, UInt64.toNat_toUInt32]

theorem hashValue_lt (x : UInt64) (hb : Nat) (h : hb ≤ 64) : LZ.hashValue x hb < 2 ^ hb := by
  unfold LZ.hashValue
  by_cases h0 : hb = 0
  · subst h0; simp
  · simp only [h0, if_false, UInt64.toNat_shiftRight, UInt64.toNat_ofNat']
    have e1 : (64 - hb) % 2 ^ 64 = 64 - hb := Nat.mod_eq_of_lt (by omega)
    have e2 : (64 - hb) % 64 = 64 - hb := Nat.mod_eq_of_lt (by omega)
    rw [e1, e2, Nat.shiftRight_eq_div_pow]
    have hy : (x * prime64).toNat < 2 ^ 64 := UInt64.toNat_lt _
    have hp : 2 ^ (64 - hb) * 2 ^ hb = 2 ^ 64 := by rw [← Nat.pow_add]; congr 1; omega
    rw [Nat.div_lt_iff_lt_mul (Nat.two_pow_pos _)]
    rw [Nat.mul_comm, hp]; exact hy

/-- G04 on the domain of the callers (`Verify` bounds HashBits by 24 ≤ 32) the model value
    is the Go value; for 32 < hashBits ≤ 64 the model lacks the `uint32(…)` truncation
    (see `gen_hashValue_mod`) -/
theorem gen_hashValue (x : UInt64) (hb : Nat) (h : hb ≤ 32) :
    (Gen.hashValue x (64 - UInt64.ofNat hb)).toNat = LZ.hashValue x hb := by
  rw [gen_hashValue_mod x hb (by omega)]
  apply Nat.mod_eq_of_lt
  have := hashValue_lt x hb (by omega)
  have : 2 ^ hb ≤ 2 ^ 32 := Nat.pow_le_pow_right (by omega) h
  omega

/-- G04 on verified configurations (what `hash.init` / `bucketHash.init` accept) the model's
    `hashValue` is the Go `hashValue` with `shift = 64 - hashBits` -/
theorem gen_hashValue_verified (x : UInt64) (il hb : Int)
    (h : hashVerify il hb Facts.maxHashBits = true ∨ hashVerify il hb Facts.maxBucketHashBits = true) :
    (Gen.hashValue x (64 - UInt64.ofNat hb.toNat)).toNat = LZ.hashValue x hb.toNat := by
  apply gen_hashValue
  rcases h with h | h
  · have := hashBits_domain il hb h; omega
  · have := bucketHashBits_domain il hb h; omega

end LZ.GenProps
