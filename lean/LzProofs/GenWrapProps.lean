/-
  LzProofs.GenWrapProps — the TRANSLATED `(*WrappedParser).Parse` and `Reset` of wrap.go
  (LzModel/Generated/CodeWrap.lean), instantiated with the model's `Parser.parse`,
  `Parser.shrink`, `Parser.readFrom`, `Parser.reset` as the opaque callees, compute what the
  hand-written model `Wrapped.parse` / `Wrapped.reset` (LzModel/Parser.lean) computes.

  Abstraction: the abstract state of the `Parser` interface value is `LZ.Parser`, the abstract
  state of the `io.Reader` is the scripted `LZ.Reader`; errors are mapped by `genErr` (injective,
  `genErr_injective`), blocks by an arbitrary function `rb : LZ.Block → Gen.Block'` (the wrapper
  only passes the block through; `repBlock` is a concrete choice).  Where a model method returns
  the marker `.panic`, the instantiated callee is `Res.panic` (a Go panic propagates).

  * `readFrom_consumes` (unconditional): `Parser.readFrom` with a nonzero count consumes a reader
    response, so the defensive branch of `Wrapped.parse` is unreachable.
  * `gen_wrapped_parse_of` : for every `J` with `ReadSafe flags J` (no `ReadFrom` of the refill
    loop panics AFTER having read something — the one place where the model, which goes on
    looping, and the Go code, which panics, would differ), `J wp`, every `blk0` and every
    `fuel > wp.r.resps.length`:
      WrappedParser_Parse fuel … ⟨wp.r, wp.s⟩ blk0 flags = (model result, `.panic` ↦ `Res.panic`).
  * `gen_wrapped_parse` : the same from `ParseSpec I` and `WInv I wp fed` (LzProofs/WrapProps.lean),
    `gen_wrapped_parse_all` : for all seven parser kinds (`I_all`, LzProofs/WrapAll.lean), where
    moreover the result is `Res.ok`.
  * `gen_wrapped_parseT` : the variant with a `ReadFrom` callee that never panics (`mReadFromT`),
    under the same invariant.
  * `gen_wrapped_reset` (unconditional), `gen_wrapped_reset_ok`.
-/
import LzProofs.WrapAll
import LzProofs.GenBufPropsBase
import LzModel.Generated.CodeWrap

set_option linter.unusedSimpArgs false
set_option linter.unusedVariables false

namespace LZ.GenWrap
open LZ.GenBuf (bind_ok bind_panic bind_fuel)

/-! ## the abstraction -/

/-- model error ↦ Go error value of the translation; the package's and `io`'s error variables
    go to their constants, the others to fresh codes -/
def genErr : LZ.Err → Gen.Err
  | .ok => Gen.Err.ok
  | .empty => Gen.ErrEmptyBuffer
  | .full => Gen.ErrFullBuffer
  | .eof => Gen.io_EOF
  | .outOfBuffer => Gen.ErrOutOfBuffer
  | .endOfBuffer => Gen.ErrEndOfBuffer
  | .litLen => Gen.errLitLen
  | .matchLen => Gen.errMatchLen
  | .offset => Gen.errOffset
  | .oversize => Gen.Err.error 2901
  | .shortWrite => Gen.io_ErrShortWrite
  | .cfg => Gen.Err.error 2902
  | .panic => Gen.Err.error 2903
  | .reader c => Gen.Err.error (3000 + 2 * c)
  | .writer c => Gen.Err.error (3001 + 2 * c)

theorem genErr_injective : ∀ a b : LZ.Err, genErr a = genErr b → a = b := by
  intro a b h
  cases a <;> cases b <;>
    simp only [genErr, Gen.ErrEmptyBuffer, Gen.ErrFullBuffer, Gen.io_EOF, Gen.ErrOutOfBuffer,
      Gen.ErrEndOfBuffer, Gen.errLitLen, Gen.errMatchLen, Gen.errOffset, Gen.io_ErrShortWrite,
      Gen.Err.error.injEq, reduceCtorEq] at h <;>
    first | rfl | (exfalso; omega) | (congr 1; omega)

theorem genErr_ok (e : LZ.Err) : genErr e = Gen.Err.ok ↔ e = .ok :=
  ⟨fun h => genErr_injective e .ok h, fun h => by rw [h]; rfl⟩

theorem genErr_empty (e : LZ.Err) : genErr e = Gen.ErrEmptyBuffer ↔ e = .empty :=
  ⟨fun h => genErr_injective e .empty h, fun h => by rw [h]; rfl⟩

theorem genErr_full (e : LZ.Err) : genErr e = Gen.ErrFullBuffer ↔ e = .full :=
  ⟨fun h => genErr_injective e .full h, fun h => by rw [h]; rfl⟩

theorem genErr_eof (e : LZ.Err) : genErr e = Gen.io_EOF ↔ e = .eof :=
  ⟨fun h => genErr_injective e .eof h, fun h => by rw [h]; rfl⟩

/-! the same with the operands the other way round (`ErrEmptyBuffer == err`) -/

theorem genErr_ok' (e : LZ.Err) : Gen.Err.ok = genErr e ↔ e = .ok := by
  rw [eq_comm]; exact genErr_ok e

theorem genErr_empty' (e : LZ.Err) : Gen.ErrEmptyBuffer = genErr e ↔ e = .empty := by
  rw [eq_comm]; exact genErr_empty e

theorem genErr_full' (e : LZ.Err) : Gen.ErrFullBuffer = genErr e ↔ e = .full := by
  rw [eq_comm]; exact genErr_full e

theorem genErr_eof' (e : LZ.Err) : Gen.io_EOF = genErr e ↔ e = .eof := by
  rw [eq_comm]; exact genErr_eof e

/-- `wrap_dec` proves a test of the translated code, or its negation, from the case facts about
    the MODEL values that are in the context — whichever way the source spells the test: linear
    arithmetic (`k == 0`, `k != 0`, `0 == k`, …) by `omega`; tests on error values (`err == E`,
    `err != E`, `E == err`, `!(…)`, `&&`, `||`) by translating them into tests on the model's
    errors (`genErr_*`, injectivity of `genErr`) and looking them up among the hypotheses.  It
    fails when the context does not decide the test. -/
macro "wrap_dec" : tactic => `(tactic| first
  | omega
  | assumption
  | (simp only [genErr_ok, genErr_ok', genErr_empty, genErr_empty', genErr_full, genErr_full',
      genErr_eof, genErr_eof', ne_eq, Classical.not_not, not_true_eq_false, not_false_eq_true,
      eq_self, reduceCtorEq, Int.natCast_eq_zero, and_true, true_and, and_false, false_and,
      or_true, true_or, or_false, false_or, *] <;> fail)
  | fail "wrap_dec: the context does not decide this test")

/-- `wrap_ifs` resolves every `if` (of the translated code and of the model) whose test
    `wrap_dec` decides, and the `Res.bind`s that become visible.  Nothing is said about the text
    of a test, the order of the arms or the nesting. -/
macro "wrap_ifs" : tactic =>
  `(tactic| simp (disch := wrap_dec) only [if_pos, if_neg, bind_ok, bind_panic])

/-- a concrete representation of a model block (the theorems hold for every `rb`) -/
def repSeq (s : LZ.Seq) : Gen.Seq :=
  { LitLen := UInt32.ofNat s.litLen, MatchLen := UInt32.ofNat s.matchLen,
    Offset := UInt32.ofNat s.offset, Aux := UInt32.ofNat s.aux }

def repBlock (b : LZ.Block) : Gen.Block' :=
  { Sequences := b.seqs.map repSeq, Literals := { arr := b.lits, len := b.lits.length } }

/-- reading back (the direction of `ofSeq`/`ofBlock` in LzProofs/GenBufPropsDCopy.lean) -/
def absSeq (s : Gen.Seq) : LZ.Seq :=
  { litLen := s.LitLen.toNat, matchLen := s.MatchLen.toNat, offset := s.Offset.toNat,
    aux := s.Aux.toNat }

def absBlock (b : Gen.Block') : LZ.Block :=
  { seqs := b.Sequences.map absSeq, lits := b.Literals.data }

/-- `repBlock` loses nothing on blocks whose sequence fields are `uint32` values -/
theorem absBlock_repBlock (b : LZ.Block)
    (h : ∀ s ∈ b.seqs, s.litLen < 2 ^ 32 ∧ s.matchLen < 2 ^ 32 ∧ s.offset < 2 ^ 32 ∧
      s.aux < 2 ^ 32) : absBlock (repBlock b) = b := by
  obtain ⟨seqs, lits⟩ := b
  simp only [absBlock, repBlock, Gen.Slice.data, List.take_length, List.map_map, LZ.Block.mk.injEq,
    and_true]
  have : ∀ s ∈ seqs, (absSeq ∘ repSeq) s = s := by
    intro s hs
    obtain ⟨h1, h2, h3, h4⟩ := h s hs
    obtain ⟨a, b, c, d⟩ := s
    simp only [Function.comp, absSeq, repSeq, UInt32.toNat_ofNat', LZ.Seq.mk.injEq] at h1 h2 h3 h4 ⊢
    refine ⟨?_, ?_, ?_, ?_⟩ <;> exact Nat.mod_eq_of_lt (by assumption)
  rw [List.map_congr_left this]; simp

/-- the abstract `WrappedParser` value of a model state -/
def rep (wp : Wrapped) : Gen.WrappedParser Reader Parser := { r := wp.r, s := wp.s }

/-! ## the instantiated callees -/

/-- `Parser.Parse(blk, flags)`: the incoming block is overwritten -/
def mParse (rb : LZ.Block → Gen.Block') (s : Parser) (_blk : Gen.Block') (flags : Int) :
    Gen.Res (Parser × Gen.Block' × Int × Gen.Err) :=
  let r := s.parse flags.toNat
  if r.2.2.1 = .panic then Gen.Res.panic
  else Gen.Res.ok (r.1, rb r.2.2.2, (r.2.1 : Int), genErr r.2.2.1)

theorem mParse_nat (rb : LZ.Block → Gen.Block') (s : Parser) (blk : Gen.Block') (flags : Nat) :
    mParse rb s blk (flags : Int) =
      if (s.parse flags).2.2.1 = .panic then Gen.Res.panic
      else Gen.Res.ok ((s.parse flags).1, rb (s.parse flags).2.2.2, ((s.parse flags).2.1 : Int),
        genErr (s.parse flags).2.2.1) := rfl

/-- `Parser.Shrink()` -/
def mShrink (s : Parser) : Gen.Res (Parser × Int) := Gen.Res.ok (s.shrink.1, (s.shrink.2 : Int))

/-- `Parser.ReadFrom(r)` -/
def mReadFrom (s : Parser) (r : Reader) : Gen.Res (Parser × Reader × Int × Gen.Err) :=
  let x := s.readFrom r
  if x.2.2.2 = .panic then Gen.Res.panic
  else Gen.Res.ok (x.1, x.2.1, (x.2.2.1 : Int), genErr x.2.2.2)

/-- `Parser.Reset(data)`: `cap(data) = len(data) + capExtra` -/
def mReset (s : Parser) (data : Gen.Slice) : Gen.Res (Parser × Gen.Slice × Gen.Err) :=
  let x := s.reset data.data (data.arr.length - data.len)
  if x.2 = .panic then Gen.Res.panic else Gen.Res.ok (x.1, data, genErr x.2)

/-- what the Go call returns for a result of the model: the marker `.panic` is a Go panic -/
def out (rb : LZ.Block → Gen.Block') (x : Wrapped × Nat × LZ.Err × LZ.Block) :
    Gen.Res (Gen.WrappedParser Reader Parser × Gen.Block' × Int × Gen.Err) :=
  if x.2.2.1 = .panic then Gen.Res.panic
  else Gen.Res.ok (rep x.1, rb x.2.2.2, (x.2.1 : Int), genErr x.2.2.1)

/-! ## a `ReadFrom` that returns a nonzero count has consumed a reader response -/

theorem grow_if_data {b b' : PBuf} {t : Nat}
    (h : (if t + Facts.margin > b.cap then b.grow t else some b) = some b') : b'.data = b.data := by
  split at h
  · unfold PBuf.grow at h
    simp only [] at h
    repeat' split at h
    all_goals first | (cases h; rfl) | cases h
  · cases h; rfl

theorem readLoop_consumes (b : PBuf) (r : Reader) :
    (b.readLoop r).2.1.resps.length ≤ r.resps.length ∧
    ((b.readLoop r).1.data = b.data ∨ (b.readLoop r).2.1.resps.length < r.resps.length) := by
  fun_induction PBuf.readLoop b r with
  | case1 b r h => exact ⟨Nat.le_refl _, Or.inl rfl⟩
  | case2 b r h t hg => exact ⟨Nat.le_refl _, Or.inl rfl⟩
  | case3 b r h t b' hg e hb => exact ⟨Nat.le_refl _, Or.inl (grow_if_data hg)⟩
  | case4 b r h t b' hg e hb hr => exact ⟨Nat.le_refl _, Or.inl (grow_if_data hg)⟩
  | case5 b r h t b' hg e hb mx ec rest hr sz n r' b'' hec =>
    have : rest.length < r.resps.length := by rw [hr]; simp
    exact ⟨Nat.le_of_lt this, Or.inr this⟩
  | case6 b r h t b' hg e hb mx ec rest hr sz n r' b'' hec ih =>
    have : rest.length < r.resps.length := by rw [hr]; simp
    have h1 : (b''.readLoop r').2.1.resps.length ≤ rest.length := ih.1
    exact ⟨by omega, Or.inr (by omega)⟩

/-- **unconditional**: `k ≠ 0` ⇒ at least one response of the script was consumed (the defensive
    branch of `Wrapped.parse` is unreachable) -/
theorem readFrom_consumes (s : Parser) (r : Reader) (hk : (s.readFrom r).2.2.1 ≠ 0) :
    (s.readFrom r).2.1.resps.length < r.resps.length := by
  have h1 : (s.readFrom r).2.2.1 = (s.buf.readLoop r).1.data.length - s.buf.data.length := rfl
  have h2 : (s.readFrom r).2.1 = (s.buf.readLoop r).2.1 := rfl
  rw [h1] at hk
  rw [h2]
  rcases (readLoop_consumes s.buf r).2 with h | h
  · rw [h] at hk; omega
  · exact h

/-! ## `Parse` -/

/-- the statements of `WrappedParser_Parse` after its loop -/
def fin {R P : Type}
    (x : Gen.Res (Nat × Gen.WrappedParser R P × Gen.Block' × Int × Gen.Err × Int × Gen.Err)) :
    Gen.Res (Gen.WrappedParser R P × Gen.Block' × Int × Gen.Err) :=
  Gen.Res.bind x fun r_1 => Gen.Res.ok (r_1.2.1, r_1.2.2.1, r_1.2.2.2.2.2.1, r_1.2.2.2.2.2.2)

theorem gen_parse_eq_fin {R P : Type} (fuel : Nat)
    (pp : P → Gen.Block' → Int → Gen.Res (P × Gen.Block' × Int × Gen.Err))
    (ps : P → Gen.Res (P × Int)) (pr : P → R → Gen.Res (P × R × Int × Gen.Err))
    (s : Gen.WrappedParser R P) (blk : Gen.Block') (flags : Int) :
    Gen.WrappedParser_Parse fuel pp ps pr s blk flags =
      fin (Gen.WrappedParser_Parse_loop_1 pp ps pr flags fuel s blk 0 Gen.Err.ok 0 Gen.Err.ok) := rfl

/-- The only place where the model and the Go code could differ: a `ReadFrom` of the refill loop
    that panics after having read something (`k ≠ 0`) — the Go panic propagates, the model would
    go on looping.  `ReadSafe flags J`: on the states satisfying `J` this does not happen, and
    the state after the refill satisfies `J` again. -/
def ReadSafe (flags : Nat) (J : Wrapped → Prop) : Prop :=
  ∀ w, J w → (w.s.parse flags).2.2.1 = .empty →
    ((w.s.parse flags).1.shrink.1.readFrom w.r).2.2.1 ≠ 0 →
    ((w.s.parse flags).1.shrink.1.readFrom w.r).2.2.2 ≠ .panic ∧
    J ⟨((w.s.parse flags).1.shrink.1.readFrom w.r).2.1,
       ((w.s.parse flags).1.shrink.1.readFrom w.r).1⟩

theorem loop_spec (rb : LZ.Block → Gen.Block') (flags : Nat) (J : Wrapped → Prop)
    (hJ : ReadSafe flags J) :
    ∀ (fuel : Nat) (wp : Wrapped), J wp → wp.r.resps.length < fuel →
    ∀ (blk0 : Gen.Block') (n0 : Int) (e0 : Gen.Err) (r1 : Int) (r2 : Gen.Err),
      fin (Gen.WrappedParser_Parse_loop_1 (mParse rb) mShrink mReadFrom (flags : Int) fuel
        (rep wp) blk0 n0 e0 r1 r2) = out rb (wp.parse flags) := by
  intro fuel
  induction fuel with
  | zero => intro wp _ hf; omega
  | succ f ih =>
    intro wp hwp hf blk0 n0 e0 r1 r2
    have hstep := hJ wp hwp
    have hcons := readFrom_consumes (wp.s.parse flags).1.shrink.1 wp.r
    rw [Wrapped.parse_eq]
    -- one round of the translated loop; the callees are replaced by their definitions
    simp only [Gen.WrappedParser_Parse_loop_1, rep, mParse_nat]
    rcases hpp : wp.s.parse flags with ⟨s1, n, e, blk⟩
    simp only [hpp] at hstep hcons ⊢
    by_cases hep : e = .panic
    · -- `Parse` panics
      subst hep
      wrap_ifs <;> simp [fin, out]
    · simp (disch := wrap_dec) only [if_pos, if_neg, bind_ok, mShrink, mReadFrom]
      rcases hrf : s1.shrink.1.readFrom wp.r with ⟨s3, r', k, e2⟩
      simp only [hrf] at hstep hcons ⊢
      -- the cases of the MODEL; in each of them `wrap_ifs` decides the tests of the translated
      -- code as they come (any spelling, any order of the arms, any nesting)
      by_cases hee : e = .empty
      · subst hee
        specialize hstep rfl
        by_cases hk : k = 0
        · subst hk
          by_cases he2 : e2 = .panic
          · subst he2
            wrap_ifs <;> simp [fin, out]
          · by_cases hfu : e2 = .full
            · subst hfu
              wrap_ifs <;> simp [fin, out, genErr]
            · wrap_ifs <;> simp [fin, out, rep, he2]
        · obtain ⟨he2, hJ'⟩ := hstep hk
          have hlt := hcons hk
          wrap_ifs
          exact ih ⟨r', s3⟩ hJ' (by simp only []; omega) _ _ _ _ _
      · wrap_ifs <;> simp [fin, out, rep, hep]

/-- **`WrappedParser.Parse`, general form.**  For every `J` closed under the refill step on which
    no `ReadFrom` panics after having read something, every state `wp` with `J wp`, every incoming
    block and every fuel above the number of reader responses left, the translated `Parse`
    returns what the model returns (the marker `.panic` standing for a Go panic). -/
theorem gen_wrapped_parse_of (rb : LZ.Block → Gen.Block') (flags : Nat) (J : Wrapped → Prop)
    (hJ : ReadSafe flags J) (wp : Wrapped) (hwp : J wp) (blk0 : Gen.Block') (fuel : Nat)
    (hf : wp.r.resps.length < fuel) :
    Gen.WrappedParser_Parse fuel (mParse rb) mShrink mReadFrom
        ({ r := wp.r, s := wp.s } : Gen.WrappedParser Reader Parser) blk0 (flags : Int) =
      match wp.parse flags with
      | (wp', n, e, b) =>
        if e = .panic then Gen.Res.panic
        else Gen.Res.ok ({ r := wp'.r, s := wp'.s }, rb b, (n : Int), genErr e) := by
  rw [gen_parse_eq_fin]
  exact loop_spec rb flags J hJ fuel wp hwp hf blk0 0 Gen.Err.ok 0 Gen.Err.ok

/-- the buffer invariant of the Wrap theorems (LzProofs/WrapProps.lean) makes the refill safe -/
theorem readSafe_WInv {I : Parser → Prop} (hP : ParseSpec I) (flags : Nat) :
    ReadSafe flags (fun w => ∃ fed, WInv I w fed) := by
  intro w ⟨fed, hinv⟩ hemp hk
  have hb : BufOK w.s.buf := bufOK_of_pinv hinv.view
  rcases Parser.parse_cases hP w.s flags hinv.inv hb with ⟨hw, hpe⟩ | ⟨-, hok, -⟩
  · rw [hpe] at hk ⊢
    simp only [] at hk ⊢
    have hI2 : I w.s.shrink.1 := hP.inv_shrink w.s hinv.inv hb
    have hb2 : BufOK w.s.shrink.1.buf := by
      rw [Parser.shrink_buf]; exact bufOK_of_pinv (PBuf.pinv_shrink hinv.view)
    have hI3 : I (w.s.shrink.1.readFrom w.r).1 := hP.inv_readFrom _ w.r hI2 hb2
    obtain ⟨hrb, hrr⟩ := Parser.readFrom_buf w.s.shrink.1 w.r
    rw [Parser.shrink_buf] at hrb hrr
    have hr : w.s.buf.shrink.1.readFrom w.r =
        ((w.s.shrink.1.readFrom w.r).1.buf, (w.s.shrink.1.readFrom w.r).2.1,
         (w.s.shrink.1.readFrom w.r).2.2.1, (w.s.shrink.1.readFrom w.r).2.2.2) := by
      rw [hrb, hrr]
    obtain ⟨f1, -, -, f4, -, -, -, f8, -⟩ := PBuf.refill_spec hinv.view hw hinv.cfg w.r hr
    exact ⟨f8, _, ⟨hI3, f1, by simp only []; rw [f4]; exact hinv.cfg⟩⟩
  · rw [hok] at hemp; cases hemp

/-- **`WrappedParser.Parse`** under `ParseSpec I` and the invariant `WInv I wp fed`
    (`ShrinkSize < BufferSize`, the buffer views the bytes `fed` read so far, parser invariant
    `I`): the hypothesis is what makes `ReadFrom` panic-free. -/
theorem gen_wrapped_parse {I : Parser → Prop} (hP : ParseSpec I) (rb : LZ.Block → Gen.Block')
    (wp : Wrapped) (fed : List Byte) (h : WInv I wp fed) (flags : Nat) (blk0 : Gen.Block')
    (fuel : Nat) (hf : wp.r.resps.length < fuel) :
    Gen.WrappedParser_Parse fuel (mParse rb) mShrink mReadFrom
        ({ r := wp.r, s := wp.s } : Gen.WrappedParser Reader Parser) blk0 (flags : Int) =
      match wp.parse flags with
      | (wp', n, e, b) =>
        if e = .panic then Gen.Res.panic
        else Gen.Res.ok ({ r := wp'.r, s := wp'.s }, rb b, (n : Int), genErr e) :=
  gen_wrapped_parse_of rb flags _ (readSafe_WInv hP flags) wp ⟨fed, h⟩ blk0 fuel hf

/-- … and then the translated `Parse` does not panic at all (`C08_wrap_no_panic`) -/
theorem gen_wrapped_parse_ok {I : Parser → Prop} (hP : ParseSpec I) (rb : LZ.Block → Gen.Block')
    (wp : Wrapped) (fed : List Byte) (h : WInv I wp fed) (flags : Nat) (blk0 : Gen.Block')
    (fuel : Nat) (hf : wp.r.resps.length < fuel) :
    Gen.WrappedParser_Parse fuel (mParse rb) mShrink mReadFrom
        ({ r := wp.r, s := wp.s } : Gen.WrappedParser Reader Parser) blk0 (flags : Int) =
      Gen.Res.ok ({ r := (wp.parse flags).1.r, s := (wp.parse flags).1.s },
        rb (wp.parse flags).2.2.2, ((wp.parse flags).2.1 : Int), genErr (wp.parse flags).2.2.1) := by
  rw [gen_wrapped_parse hP rb wp fed h flags blk0 fuel hf]
  have hnp := (C08_wrap_no_panic hP wp flags fed h).1
  generalize wp.parse flags = res at hnp
  obtain ⟨wp', n, e, b⟩ := res
  simp only [] at hnp ⊢
  rw [if_neg hnp]

/-- all seven parser kinds (`I_all`, `parseSpec_all` of LzProofs/WrapAll.lean) -/
theorem gen_wrapped_parse_all (rb : LZ.Block → Gen.Block')
    (wp : Wrapped) (fed : List Byte) (h : WInv I_all wp fed) (flags : Nat) (blk0 : Gen.Block')
    (fuel : Nat) (hf : wp.r.resps.length < fuel) :
    Gen.WrappedParser_Parse fuel (mParse rb) mShrink mReadFrom
        ({ r := wp.r, s := wp.s } : Gen.WrappedParser Reader Parser) blk0 (flags : Int) =
      Gen.Res.ok ({ r := (wp.parse flags).1.r, s := (wp.parse flags).1.s },
        rb (wp.parse flags).2.2.2, ((wp.parse flags).2.1 : Int), genErr (wp.parse flags).2.2.1) :=
  gen_wrapped_parse_ok parseSpec_all rb wp fed h flags blk0 fuel hf

/-! ## the variant with a `ReadFrom` callee that never panics

`mReadFromT` hands the marker `.panic` on as an error value instead of panicking.  Then the
equation needs that no `ReadFrom` of the refill loop returns `.panic` at all (`ReadSafeT`), which
the invariant `WInv` provides as well. -/

/-- `Parser.ReadFrom(r)`, total -/
def mReadFromT (s : Parser) (r : Reader) : Gen.Res (Parser × Reader × Int × Gen.Err) :=
  let x := s.readFrom r
  Gen.Res.ok (x.1, x.2.1, (x.2.2.1 : Int), genErr x.2.2.2)

def ReadSafeT (flags : Nat) (J : Wrapped → Prop) : Prop :=
  ∀ w, J w → (w.s.parse flags).2.2.1 = .empty →
    ((w.s.parse flags).1.shrink.1.readFrom w.r).2.2.2 ≠ .panic ∧
    (((w.s.parse flags).1.shrink.1.readFrom w.r).2.2.1 ≠ 0 →
      J ⟨((w.s.parse flags).1.shrink.1.readFrom w.r).2.1,
         ((w.s.parse flags).1.shrink.1.readFrom w.r).1⟩)

theorem loop_specT (rb : LZ.Block → Gen.Block') (flags : Nat) (J : Wrapped → Prop)
    (hJ : ReadSafeT flags J) :
    ∀ (fuel : Nat) (wp : Wrapped), J wp → wp.r.resps.length < fuel →
    ∀ (blk0 : Gen.Block') (n0 : Int) (e0 : Gen.Err) (r1 : Int) (r2 : Gen.Err),
      fin (Gen.WrappedParser_Parse_loop_1 (mParse rb) mShrink mReadFromT (flags : Int) fuel
        (rep wp) blk0 n0 e0 r1 r2) = out rb (wp.parse flags) := by
  intro fuel
  induction fuel with
  | zero => intro wp _ hf; omega
  | succ f ih =>
    intro wp hwp hf blk0 n0 e0 r1 r2
    have hstep := hJ wp hwp
    have hcons := readFrom_consumes (wp.s.parse flags).1.shrink.1 wp.r
    rw [Wrapped.parse_eq]
    -- one round of the translated loop; the callees are replaced by their definitions
    simp only [Gen.WrappedParser_Parse_loop_1, rep, mParse_nat]
    rcases hpp : wp.s.parse flags with ⟨s1, n, e, blk⟩
    simp only [hpp] at hstep hcons ⊢
    by_cases hep : e = .panic
    · -- `Parse` panics
      subst hep
      wrap_ifs <;> simp [fin, out]
    · simp (disch := wrap_dec) only [if_pos, if_neg, bind_ok, mShrink, mReadFromT]
      rcases hrf : s1.shrink.1.readFrom wp.r with ⟨s3, r', k, e2⟩
      simp only [hrf] at hstep hcons ⊢
      -- the cases of the MODEL; in each of them `wrap_ifs` decides the tests of the translated
      -- code as they come (any spelling, any order of the arms, any nesting)
      by_cases hee : e = .empty
      · subst hee
        specialize hstep rfl
        obtain ⟨he2, hJ'⟩ := hstep
        by_cases hk : k = 0
        · subst hk
          by_cases hfu : e2 = .full
          · subst hfu
            wrap_ifs <;> simp [fin, out, genErr]
          · wrap_ifs <;> simp [fin, out, rep, he2]
        · have hlt := hcons hk
          wrap_ifs
          exact ih ⟨r', s3⟩ (hJ' hk) (by simp only []; omega) _ _ _ _ _
      · wrap_ifs <;> simp [fin, out, rep, hep]

theorem readSafeT_WInv {I : Parser → Prop} (hP : ParseSpec I) (flags : Nat) :
    ReadSafeT flags (fun w => ∃ fed, WInv I w fed) := by
  intro w ⟨fed, hinv⟩ hemp
  have hb : BufOK w.s.buf := bufOK_of_pinv hinv.view
  rcases Parser.parse_cases hP w.s flags hinv.inv hb with ⟨hw, hpe⟩ | ⟨-, hok, -⟩
  · rw [hpe]
    simp only []
    have hI2 : I w.s.shrink.1 := hP.inv_shrink w.s hinv.inv hb
    have hb2 : BufOK w.s.shrink.1.buf := by
      rw [Parser.shrink_buf]; exact bufOK_of_pinv (PBuf.pinv_shrink hinv.view)
    have hI3 : I (w.s.shrink.1.readFrom w.r).1 := hP.inv_readFrom _ w.r hI2 hb2
    obtain ⟨hrb, hrr⟩ := Parser.readFrom_buf w.s.shrink.1 w.r
    rw [Parser.shrink_buf] at hrb hrr
    have hr : w.s.buf.shrink.1.readFrom w.r =
        ((w.s.shrink.1.readFrom w.r).1.buf, (w.s.shrink.1.readFrom w.r).2.1,
         (w.s.shrink.1.readFrom w.r).2.2.1, (w.s.shrink.1.readFrom w.r).2.2.2) := by
      rw [hrb, hrr]
    obtain ⟨f1, -, -, f4, -, -, -, f8, -⟩ := PBuf.refill_spec hinv.view hw hinv.cfg w.r hr
    exact ⟨f8, fun _ => ⟨_, ⟨hI3, f1, by simp only []; rw [f4]; exact hinv.cfg⟩⟩⟩
  · rw [hok] at hemp; cases hemp

/-- **`WrappedParser.Parse`** with the total `ReadFrom` callee, under the invariant -/
theorem gen_wrapped_parseT {I : Parser → Prop} (hP : ParseSpec I) (rb : LZ.Block → Gen.Block')
    (wp : Wrapped) (fed : List Byte) (h : WInv I wp fed) (flags : Nat) (blk0 : Gen.Block')
    (fuel : Nat) (hf : wp.r.resps.length < fuel) :
    Gen.WrappedParser_Parse fuel (mParse rb) mShrink mReadFromT
        ({ r := wp.r, s := wp.s } : Gen.WrappedParser Reader Parser) blk0 (flags : Int) =
      match wp.parse flags with
      | (wp', n, e, b) =>
        if e = .panic then Gen.Res.panic
        else Gen.Res.ok ({ r := wp'.r, s := wp'.s }, rb b, (n : Int), genErr e) := by
  rw [gen_parse_eq_fin]
  exact loop_specT rb flags _ (readSafeT_WInv hP flags) fuel wp ⟨fed, h⟩ hf blk0 0 Gen.Err.ok 0
    Gen.Err.ok

/-! ## `Reset` -/

/-- **`WrappedParser.Reset`** (unconditional) -/
theorem gen_wrapped_reset (wp : Wrapped) (r : Reader) :
    Gen.WrappedParser_Reset mReset
        ({ r := wp.r, s := wp.s } : Gen.WrappedParser Reader Parser) r =
      match Wrapped.reset wp r with
      | (wp', e) =>
        if e = .panic then Gen.Res.panic else Gen.Res.ok { r := wp'.r, s := wp'.s } := by
  have hd : Gen.Slice.nil.data = [] := rfl
  have hc : Gen.Slice.nil.arr.length - Gen.Slice.nil.len = 0 := rfl
  simp only [Gen.WrappedParser_Reset, mReset, Wrapped.reset, hd, hc]
  -- the cases of the MODEL; `wrap_ifs` decides the test of the translated code however it is spelt
  by_cases hp : (wp.s.reset [] 0).2 = .panic
  · have hok : ¬ (wp.s.reset [] 0).2 = .ok := by rw [hp]; simp
    wrap_ifs
  · by_cases hok : (wp.s.reset [] 0).2 = .ok
    · wrap_ifs
    · wrap_ifs

/-- the model's `Parser.reset [] 0` never fails, so `Reset` returns -/
theorem gen_wrapped_reset_ok (wp : Wrapped) (r : Reader) :
    Gen.WrappedParser_Reset mReset
        ({ r := wp.r, s := wp.s } : Gen.WrappedParser Reader Parser) r =
      Gen.Res.ok { r := r, s := (wp.s.reset [] 0).1 } := by
  rw [gen_wrapped_reset]
  have h : (wp.s.reset [] 0).2 = .ok := by
    simp [Parser.reset, PBuf.reset]
  simp [Wrapped.reset, h]

end LZ.GenWrap

#print axioms LZ.GenWrap.genErr_injective
#print axioms LZ.GenWrap.readFrom_consumes
#print axioms LZ.GenWrap.gen_wrapped_parse_of
#print axioms LZ.GenWrap.gen_wrapped_parse
#print axioms LZ.GenWrap.gen_wrapped_parse_ok
#print axioms LZ.GenWrap.gen_wrapped_parse_all
#print axioms LZ.GenWrap.gen_wrapped_parseT
#print axioms LZ.GenWrap.gen_wrapped_reset
#print axioms LZ.GenWrap.gen_wrapped_reset_ok
