/-
  LzProofs.IdxGsap — C16 ("never panics") for the index / slice expressions of gsap.go.

  The parser model (LzModel/Sap.lean, LzModel/Loop.lean, LzModel/Parser.lean) reads arrays with the TOTAL
  accessors `getD`, `setIfInBounds`, `drop`, `take`; "the model never returns `.panic`" therefore says
  nothing about Go's index-out-of-range / slice-bounds panics in `gsap.Parse` and `gsap.sort`.
  This file closes the gap the way `kasai_no_panic` does for `_lcp`:

    §0  checked primitives (`setChk`, `sliceFromChk`, `sliceChk`, `sliceToChk`)
    §1  checked variants of every model function of GSAP, textually parallel to the unchecked
        ones; `none` = the Go code would panic (or the model would silently diverge from Go)
    §2  `checked = some unchecked` under the invariants of the C12 / C19 proofs
        (`Sap.SAOK`, `BitsSub`, `GB`) strengthened by `isa.size = len(t)` (which `SAOK` does not fix)
    §3  the strengthened state invariant `IsaSz` along every history
    §4  history level: `gsap_parseChk_reachable`
    §5  non-vacuity (`decide`), `#print axioms`

  Go expression (gsap.go)                   checked model expression              bound used
  ----------------------------------------------------------------------------------------------------
  sort  L196 `range s.sa` / `s.isa[j] = i`  `invertStepChk`: `sa[j]?`, `setChk`    sa perm of 0..n-1, |isa| = n
  sort  L201 `s.isa[i]` (i < W)             `insertRanksChk`: `isa[a]?`            W ≤ len(Data) = |isa|
  sort  L201 `s.bits.insert(isa[i])`        `insertRanksChk`: `r < bits.size`      isa[i] < n = |bits|  (*)
  Parse L234 `p := s.Data[:i+n]`            `sliceToChk data (w+n)`                n ≤ len(Data) - W
  Parse L237 `s.isa[i]`                     `gsapProbeChk`: `g.isa[i]?`            i < e ≤ len(t) = |isa|
  Parse L238 `s.bits.insert(j)`             `gsapProbeChk`: `setChk g.bits j`      isa[i] < len(t) = |bits| (*)
  Parse L239 `s.bits.memberBefore(j)`       `memberBeforeChk`: `bits[j']?`, j' < j j ≤ |bits| (**)
  Parse L240 `s.bits.memberAfter(j)`        `memberFromChk`: `bits[j']?`           j' < |bits| by the fuel (**)
  Parse L243 `s.sa[k1]`                     `candOneChk`: `sa[k]?`                 marked rank < len(t) = |sa|
  Parse L244 `p[f:]`, `p[i:]`               `candOneChk`: `sliceFromChk p f / p i` marked ⇒ sa[k] ≤ i ≤ e = len(p)
  Parse L247 `s.sa[k2]`                     `candOneChk`: `sa[k]?`                 as L243
  Parse L248 `p[f2:]`, `p[i:]`              `candOneChk`                           as L244
  Parse L260 `q := p[litIndex:i]`           `greedyLoopChk`: `sliceChk p li s`     litIndex ≤ i ≤ e  (`GB.li_le`, `GB.i_le`)
  Parse L270 `s.isa[i]` (i < litIndex=i+m)  `insertRanksChk isa bits (i+1) (m-1)`  i + m ≤ e ≤ |isa|
  Parse L270 `s.bits.insert(...)`           `insertRanksChk`: `r < bits.size`      (*)
  Parse L283 `p[litIndex:]`                 `finishBlockChk`: `sliceFromChk p li`  litIndex ≤ e
  Parse L279 `s.sa[:0]`, init/Reset/Shrink `[:0]`   — constant bounds, cannot panic.

  (*)  The Go bitset grows on demand (`support`), a Go `insert` of a non-negative number cannot panic
       (`GsapBits.insertW_no_panic`).  The check is on the MODEL side: `setIfInBounds` would silently
       drop a rank `≥ bits.size` where Go inserts it; `none` here = "model and Go would diverge".
  (**) bitset.go guards every word access itself (`k < len(b.a)` …) — proved at word level in
       LzProofs/BitsetProps.lean / GsapBits.lean; the checks here are for the `Array Bool` of the model.
  Not covered here (not transliterated in the model): the interior of `suffix.Sort` (`saSpec` is a
  specification), `lcp` (pure byte comparison on the two slices, `lcpLen`), `append`, and the explicit
  `panic("n too large")` of `sort` (excluded by `Verify`, LzProofs/Int32All.lean).
-/
import LzProofs.RunsGsap
import LzProofs.GsapBits
namespace LZ
open Parser PBuf
namespace Idx

/-! ## 0. checked primitives -/

/-- `a[i] = v` — Go panics for `i ≥ len(a)` -/
def setChk {α} (a : Array α) (i : Nat) (v : α) : Option (Array α) :=
  if i < a.size then some (a.setIfInBounds i v) else none

/-- `p[f:]` — Go panics for `f > len(p)` (as `BytesW.sliceFrom`) -/
def sliceFromChk {α} (p : List α) (f : Nat) : Option (List α) :=
  if f ≤ p.length then some (p.drop f) else none

/-- `p[a:b]` — Go panics unless `a ≤ b ≤ len(p)` (the model never reslices beyond `len`) -/
def sliceChk {α} (p : List α) (a b : Nat) : Option (List α) :=
  if a ≤ b ∧ b ≤ p.length then some ((p.drop a).take (b - a)) else none

/-- `p[:n]` for `n ≤ len(p)` -/
def sliceToChk {α} (p : List α) (n : Nat) : Option (List α) :=
  if n ≤ p.length then some (p.take n) else none

theorem getElem?_getD {α} (a : Array α) (i : Nat) (d : α) (h : i < a.size) :
    a[i]? = some (a.getD i d) := by
  simp [Array.getD_eq_getD_getElem?, Array.getElem?_eq_getElem h]

theorem setChk_eq {α} (a : Array α) (i : Nat) (v : α) (h : i < a.size) :
    setChk a i v = some (a.setIfInBounds i v) := by
  unfold setChk; rw [if_pos h]

theorem sliceFromChk_eq {α} (p : List α) (f : Nat) (h : f ≤ p.length) :
    sliceFromChk p f = some (p.drop f) := by
  unfold sliceFromChk; rw [if_pos h]

theorem sliceChk_eq {α} (p : List α) (a b : Nat) (h1 : a ≤ b) (h2 : b ≤ p.length) :
    sliceChk p a b = some ((p.drop a).take (b - a)) := by
  unfold sliceChk; rw [if_pos ⟨h1, h2⟩]

theorem sliceToChk_eq {α} (p : List α) (n : Nat) (h : n ≤ p.length) :
    sliceToChk p n = some (p.take n) := by
  unfold sliceToChk; rw [if_pos h]

/-! ## 1. the checked model of GSAP -/

/-- `memberBefore` with every read of the rank array checked -/
def memberBeforeChk (bits : Array Bool) : Nat → Option (Option Nat)
  | 0 => some none
  | j+1 =>
    match bits[j]? with
    | none => none
    | some b => if b then some (some j) else memberBeforeChk bits j

/-- `memberFrom` with every read checked -/
def memberFromChk (bits : Array Bool) : Nat → Nat → Option (Option Nat)
  | 0, _ => some none
  | fuel+1, j =>
    match bits[j]? with
    | none => none
    | some b => if b then some (some j) else memberFromChk bits fuel (j+1)

def memberAfterChk (bits : Array Bool) (j : Nat) : Option (Option Nat) :=
  memberFromChk bits (bits.size - (j+1)) (j+1)

/-- `insertRanks` with `isa[a]` checked and the rank checked against the rank array -/
def insertRanksChk (isa : Array Nat) (bits : Array Bool) (a : Nat) : Nat → Option (Array Bool)
  | 0 => some bits
  | n+1 =>
    match isa[a]? with
    | none => none
    | some r =>
      match setChk bits r true with
      | none => none
      | some bits' => insertRanksChk isa bits' (a+1) n

/-- one iteration of `for i, j := range s.sa { s.isa[j] = int32(i) }` -/
def invertStepChk (sa : Array Nat) (inv : Array Nat) (j : Nat) : Option (Array Nat) :=
  match sa[j]? with
  | none => none
  | some v => setChk inv v j

/-- `invertSA` with the write `isa[sa[j]] = j` checked -/
def invertSAChk (sa : Array Nat) : Option (Array Nat) :=
  (List.range sa.size).foldlM (invertStepChk sa) (Array.replicate sa.size 0)

/-- `gsap.sort()` -/
def gsapSortChk (data : List Byte) (w : Nat) : Option GsapD :=
  let sa := (saSpec data).toArray
  match invertSAChk sa with
  | none => none
  | some isa =>
    match insertRanksChk isa (Array.replicate sa.size false) 0 w with
    | none => none
    | some bits => some { sa := sa, isa := isa, bits := bits }

/-- `f = int(s.sa[k]); m = lcp(p[f:], p[i:])` -/
def candOneChk (sa : Array Nat) (p : List Byte) (i k : Nat) : Option (Nat × Nat) :=
  match sa[k]? with
  | none => none
  | some f =>
    match sliceFromChk p f with
    | none => none
    | some a =>
      match sliceFromChk p i with
      | none => none
      | some b => some (f, lcpLen a b)

/-- `Sap.gsapCand` (the two rank neighbours) checked -/
def gsapCandChk (sa : Array Nat) (bits : Array Bool) (p : List Byte) (i j : Nat) : Option (Nat × Nat) :=
  match memberBeforeChk bits j with
  | none => none
  | some mb =>
    match (match mb with
           | some k1 => candOneChk sa p i k1
           | none => some (0, 0)) with
    | none => none
    | some fm =>
      match memberAfterChk bits j with
      | none => none
      | some none => some fm
      | some (some k2) =>
        match candOneChk sa p i k2 with
        | none => none
        | some fm2 => some (if fm2.2 > fm.2 ∨ (fm2.2 = fm.2 ∧ fm2.1 > fm.1) then fm2 else fm)

/-- `gsapProbe` checked (the form of `Sap.gsapProbe_eq`) -/
def gsapProbeChk (ws minMatch : Nat) (g : GsapD) (p : List Byte) (i _li : Nat) :
    Option (GsapD × Option (Nat × Nat × Nat)) :=
  match g.isa[i]? with
  | none => none
  | some j =>
    match setChk g.bits j true with
    | none => none
    | some bits =>
      match gsapCandChk g.sa bits p i j with
      | none => none
      | some c =>
        if c.2 < minMatch then some ({ g with bits := bits }, none)
        else if ¬ (c.1 < i ∧ i - c.1 < ws) then some ({ g with bits := bits }, none)
        else
          match insertRanksChk g.isa bits (i + 1) (c.2 - 1) with
          | none => none
          | some bits' => some ({ g with bits := bits' }, some (i, c.2, i - c.1))

/-- a match finder that may panic -/
structure FinderChk (δ : Type) where
  probe : δ → List Byte → Nat → Nat → Option (δ × Option (Nat × Nat × Nat))

/-- `greedyLoop` over a checked finder, with the slice `q := p[litIndex:i]` checked.  The branch
    `s + k ≤ i` (a finder violating its contract; `greedyLoop` stops there) counts as failure. -/
def greedyLoopChk {δ} (F : FinderChk δ) (p : List Byte) (stop : Nat) (st : LoopSt δ) :
    Option (LoopSt δ) :=
  if _h : st.i < stop then
    match F.probe st.dict p st.i st.litIndex with
    | none => none
    | some (d, none) => greedyLoopChk F p stop { st with dict := d, i := st.i + 1 }
    | some (d, some (s, k, o)) =>
      if _hk : s + k > st.i then
        match sliceChk p st.litIndex s with
        | none => none
        | some q =>
          greedyLoopChk F p stop
            { dict := d, i := s + k, litIndex := s + k,
              seqs := st.seqs ++ [{ litLen := q.length, matchLen := k, offset := o }],
              lits := st.lits ++ q }
      else none
  else some st
termination_by stop - st.i
decreasing_by all_goals simp_wf; all_goals omega

/-- `finishBlock` with `p[litIndex:]` checked -/
def finishBlockChk {δ} (p : List Byte) (flags : Nat) (st : LoopSt δ) : Option (Nat × Block) :=
  if flags % 2 = 1 ∧ st.seqs ≠ [] then
    some (st.litIndex, { seqs := st.seqs, lits := st.lits })
  else
    match sliceFromChk p st.litIndex with
    | none => none
    | some r => some (p.length, { seqs := st.seqs, lits := st.lits ++ r })

def runGreedyChk {δ} (F : FinderChk δ) (d : δ) (p : List Byte) (w stop flags : Nat) :
    Option (δ × Nat × Block × Nat) :=
  match greedyLoopChk F p stop { dict := d, i := w, litIndex := w, seqs := [], lits := [] } with
  | none => none
  | some st =>
    match finishBlockChk p flags st with
    | none => none
    | some wb => some (st.dict, wb.1, wb.2, st.litIndex)

/-- the `.gsap` branch of `Parser.parse`, every index / slice expression checked -/
def parseGsapChk (s : Parser) (g : GsapD) (flags : Nat) : Option (Parser × Nat × Err × Block) :=
  let n := s.blockN
  if n = 0 then some (s, 0, .empty, ⟨[], []⟩)
  else
    let w := s.buf.w
    let data := s.buf.data
    match sliceToChk data (w + n) with
    | none => none
    | some p =>
      match (if w + n > g.sa.size then gsapSortChk data w else some g) with
      | none => none
      | some g1 =>
        match runGreedyChk ⟨gsapProbeChk s.buf.cfg.windowSize s.minMatch⟩ g1 p w p.length flags with
        | none => none
        | some r =>
          let g' := if flags % 2 = 1 ∧ r.2.2.1.seqs ≠ [] ∧ r.2.2.2 < p.length
            then { r.1 with sa := #[] } else r.1
          some ({ s with buf := { s.buf with w := r.2.1 }, dict := .gsap g' }, r.2.1 - w, .ok, r.2.2.1)

/-! ## 2. `checked = some unchecked` -/

theorem memberBeforeChk_eq (bits : Array Bool) : ∀ j, j ≤ bits.size →
    memberBeforeChk bits j = some (memberBefore bits j) := by
  intro j
  induction j with
  | zero => intro _; rfl
  | succ j ih =>
    intro h
    unfold memberBeforeChk memberBefore
    rw [getElem?_getD bits j false (by omega)]
    simp only
    split
    · rfl
    · exact ih (by omega)

theorem memberFromChk_eq (bits : Array Bool) : ∀ fuel j, (fuel = 0 ∨ j + fuel ≤ bits.size) →
    memberFromChk bits fuel j = some (memberFrom bits fuel j) := by
  intro fuel
  induction fuel with
  | zero => intro j _; rfl
  | succ fuel ih =>
    intro j h
    unfold memberFromChk memberFrom
    rw [getElem?_getD bits j false (by omega)]
    simp only
    split
    · rfl
    · exact ih (j+1) (by omega)

theorem memberAfterChk_eq (bits : Array Bool) (j : Nat) :
    memberAfterChk bits j = some (memberAfter bits j) := by
  unfold memberAfterChk memberAfter
  exact memberFromChk_eq bits _ _ (by omega)

theorem insertRanksChk_eq (isa : Array Nat) (N : Nat) (hN : ∀ a, a < isa.size → isa.getD a 0 < N) :
    ∀ (cnt : Nat) (bits : Array Bool) (a : Nat), bits.size = N → a + cnt ≤ isa.size →
      insertRanksChk isa bits a cnt = some (insertRanks isa bits a cnt) := by
  intro cnt
  induction cnt with
  | zero => intro bits a _ _; rfl
  | succ cnt ih =>
    intro bits a hb ha
    unfold insertRanksChk insertRanks
    rw [getElem?_getD isa a 0 (by omega)]
    simp only
    rw [setChk_eq _ _ _ (by rw [hb]; exact hN a (by omega))]
    simp only
    exact ih _ _ (by simp [hb]) (by omega)

theorem foldlM_invert (sa : Array Nat) (N : Nat) (hN : ∀ j, j < sa.size → sa.getD j 0 < N) :
    ∀ (l : List Nat) (inv : Array Nat), (∀ j ∈ l, j < sa.size) → inv.size = N →
      l.foldlM (invertStepChk sa) inv =
        some (l.foldl (fun inv j => inv.setIfInBounds (sa.getD j 0) j) inv) := by
  intro l
  induction l with
  | nil => intro inv _ _; rfl
  | cons j l ih =>
    intro inv hl hs
    have hj : j < sa.size := hl j (by simp)
    rw [List.foldlM_cons, List.foldl_cons]
    have : invertStepChk sa inv j = some (inv.setIfInBounds (sa.getD j 0) j) := by
      unfold invertStepChk
      rw [getElem?_getD sa j 0 hj]
      exact setChk_eq _ _ _ (by rw [hs]; exact hN j hj)
    rw [this]
    exact ih _ (fun j' h' => hl j' (by simp [h'])) (by simp [hs])

theorem invertSAChk_eq (sa : Array Nat) (hN : ∀ j, j < sa.size → sa.getD j 0 < sa.size) :
    invertSAChk sa = some (invertSA sa) := by
  unfold invertSAChk invertSA
  exact foldlM_invert sa sa.size hN _ _ (fun j hj => List.mem_range.1 hj) (by simp)

theorem candOneChk_eq (sa : Array Nat) (p : List Byte) (i k : Nat) (hk : k < sa.size)
    (hf : sa.getD k 0 ≤ p.length) (hi : i ≤ p.length) :
    candOneChk sa p i k = some (sa.getD k 0, lcpLen (p.drop (sa.getD k 0)) (p.drop i)) := by
  unfold candOneChk
  rw [getElem?_getD sa k 0 hk]
  simp only
  rw [sliceFromChk_eq p _ hf, sliceFromChk_eq p _ hi]

theorem gsapCandChk_eq (sa : Array Nat) (bits : Array Bool) (p : List Byte) (i j : Nat)
    (hj : j ≤ bits.size) (hi : i ≤ p.length)
    (hm : ∀ r, bits.getD r false = true → r < sa.size ∧ sa.getD r 0 ≤ p.length) :
    gsapCandChk sa bits p i j = some (Sap.gsapCand sa bits p i j) := by
  unfold gsapCandChk Sap.gsapCand
  rw [memberBeforeChk_eq bits j hj, memberAfterChk_eq bits j]
  simp only
  cases hmb : memberBefore bits j with
  | none =>
    simp only
    cases hma : memberAfter bits j with
    | none => rfl
    | some k2 =>
      obtain ⟨_, b, _⟩ := (Sap.memberAfter_some _ _ _).1 hma
      simp only
      rw [candOneChk_eq sa p i k2 (hm k2 b).1 (hm k2 b).2 hi]
  | some k1 =>
    obtain ⟨_, b1, _⟩ := (Sap.memberBefore_some _ _ _).1 hmb
    simp only
    rw [candOneChk_eq sa p i k1 (hm k1 b1).1 (hm k1 b1).2 hi]
    simp only
    cases hma : memberAfter bits j with
    | none => rfl
    | some k2 =>
      obtain ⟨_, b, _⟩ := (Sap.memberAfter_some _ _ _).1 hma
      simp only
      rw [candOneChk_eq sa p i k2 (hm k2 b).1 (hm k2 b).2 hi]

section Probe
variable {t : List Byte} {g : GsapD} {i e : Nat} (ws mm li : Nat)

/-- **the probe never indexes out of range** under the loop invariant of the C19 proof (`BitsSub`:
    only ranks of positions `< i` are marked) plus `isa.size = len(t)` -/
theorem gsapProbeChk_eq (hs : Sap.SAOK t g.sa g.isa) (hsz : g.isa.size = t.length)
    (hb : BitsSub g.sa g.bits t.length i) (hi : i < e) (he : e ≤ t.length) :
    gsapProbeChk ws mm g (t.take e) i li = some (gsapProbe ws mm g (t.take e) i li) := by
  have hit : i < t.length := by omega
  have hlen : (t.take e).length = e := by simp only [List.length_take]; omega
  obtain ⟨hj, hsaj⟩ := hs.sa_isa i hit
  have hm := bitsSub_set hs hb hit
  rw [Sap.gsapProbe_eq]
  unfold gsapProbeChk
  rw [getElem?_getD g.isa i 0 (by omega)]
  simp only
  rw [setChk_eq _ _ _ (by rw [hb.size]; exact hj)]
  simp only
  rw [gsapCandChk_eq g.sa _ (t.take e) i _ (by rw [Array.size_setIfInBounds, hb.size]; omega) (by omega)]
  · simp only
    have hc := GsapBits.gsapCand_snd_le g.sa (g.bits.setIfInBounds (g.isa.getD i 0) true) (t.take e) i
      (g.isa.getD i 0)
    generalize Sap.gsapCand g.sa (g.bits.setIfInBounds (g.isa.getD i 0) true) (t.take e) i
      (g.isa.getD i 0) = c at hc
    split
    · rfl
    · split
      · rfl
      · rw [insertRanksChk_eq g.isa t.length]
        · intro a ha
          exact (hs.sa_isa a (by omega)).1
        · rw [Array.size_setIfInBounds, hb.size]
        · rw [hlen] at hc; omega
  · intro r hr
    obtain ⟨a, b⟩ := hm r hr
    refine ⟨by rw [hs.size_sa]; exact a, ?_⟩
    rw [hlen]
    rcases b with b | b
    · rw [b, hsaj]; omega
    · omega

end Probe

/-! ### the greedy loop -/

/-- generic rule: if an invariant `J` of the unchecked loop (as in `Sap.greedyLoop_invariant`) makes
    the checked probe succeed with the unchecked result and bounds the literal slice, the checked
    loop succeeds with the unchecked result -/
theorem greedyLoopChk_eq {δ} (F : Finder δ) (Fc : FinderChk δ) (p : List Byte) (stop : Nat)
    (J : LoopSt δ → Prop)
    (hchk : ∀ (st : LoopSt δ), st.i < stop → J st →
      Fc.probe st.dict p st.i st.litIndex = some (F.probe st.dict p st.i st.litIndex))
    (hnone : ∀ (st : LoopSt δ) d, st.i < stop → J st →
      F.probe st.dict p st.i st.litIndex = (d, none) → J { st with dict := d, i := st.i + 1 })
    (hsome : ∀ (st : LoopSt δ) d s k o, st.i < stop → J st →
      F.probe st.dict p st.i st.litIndex = (d, some (s, k, o)) →
      s + k > st.i ∧ st.litIndex ≤ s ∧ s ≤ p.length ∧
      J { dict := d, i := s + k, litIndex := s + k,
          seqs := st.seqs ++ [{ litLen := ((p.drop st.litIndex).take (s - st.litIndex)).length,
                                matchLen := k, offset := o }],
          lits := st.lits ++ (p.drop st.litIndex).take (s - st.litIndex) }) :
    ∀ st : LoopSt δ, J st → greedyLoopChk Fc p stop st = some (greedyLoop F p stop st) := by
  intro st
  induction st using greedyLoop.induct F p stop with
  | case1 st h d hp ih =>
    intro hJ
    have e1 : greedyLoop F p stop st = greedyLoop F p stop { st with dict := d, i := st.i + 1 } := by
      rw [greedyLoop]; simp only [h, dite_true]
      split
      · rename_i d2 heq
        rw [hp] at heq
        simp only [Prod.mk.injEq, and_true] at heq
        subst heq; rfl
      · rename_i d2 s2 k2 o2 heq
        rw [hp] at heq; simp at heq
    rw [e1, greedyLoopChk]
    simp only [h, dite_true]
    rw [hchk st h hJ, hp]
    simp only
    exact ih (hnone st d h hJ hp)
  | case2 st h d s k o hp hk q ih =>
    intro hJ
    obtain ⟨a1, a2, a3, a4⟩ := hsome st d s k o h hJ hp
    have e1 : greedyLoop F p stop st = greedyLoop F p stop
        { dict := d, i := s + k, litIndex := s + k,
          seqs := st.seqs ++ [{ litLen := q.length, matchLen := k, offset := o }],
          lits := st.lits ++ q } := by
      rw [greedyLoop]; simp only [h, dite_true]
      split
      · rename_i d2 heq
        rw [hp] at heq; simp at heq
      · rename_i d2 s2 k2 o2 heq
        rw [hp] at heq
        simp only [Prod.mk.injEq, Option.some.injEq] at heq
        obtain ⟨hd, hs, hk2, ho⟩ := heq
        subst hd hs hk2 ho
        simp only [hk, dite_true]
        rfl
    rw [e1, greedyLoopChk]
    simp only [h, dite_true]
    rw [hchk st h hJ, hp]
    simp only [hk, dite_true]
    rw [sliceChk_eq p _ _ a2 a3]
    simp only
    exact ih a4
  | case3 st h d s k o hp hk =>
    intro hJ
    exact absurd (hsome st d s k o h hJ hp).1 hk
  | case4 st h =>
    intro _
    rw [greedyLoop, greedyLoopChk]; simp only [h, dite_false]

theorem finishBlockChk_eq {δ} (p : List Byte) (flags : Nat) (st : LoopSt δ) (h : st.litIndex ≤ p.length) :
    finishBlockChk p flags st = some (finishBlock p flags st) := by
  unfold finishBlockChk finishBlock
  split
  · rfl
  · rw [sliceFromChk_eq p _ h]

/-- **the GSAP loop never indexes out of range** (invariant `GB` of LzProofs/RunsGsap.lean) -/
theorem gsapLoopChk_eq (t : List Byte) (sa isa : Array Nat) (e ws mm : Nat)
    (hs : Sap.SAOK t sa isa) (hsz : isa.size = t.length) (he : e ≤ t.length) (hmm : 1 ≤ mm)
    (st : LoopSt GsapD) (hJ : GB t sa isa e st) :
    greedyLoopChk ⟨gsapProbeChk ws mm⟩ (t.take e) e st =
      some (greedyLoop ⟨gsapProbe ws mm⟩ (t.take e) e st) := by
  have hlen : (t.take e).length = e := by simp only [List.length_take]; omega
  refine greedyLoopChk_eq ⟨gsapProbe ws mm⟩ ⟨gsapProbeChk ws mm⟩ (t.take e) e (GB t sa isa e)
    ?_ ?_ ?_ st hJ
  · intro st hi hJ
    exact gsapProbeChk_eq ws mm st.litIndex (by rw [hJ.hsa, hJ.hisa]; exact hs)
      (by rw [hJ.hisa]; exact hsz) (by rw [hJ.hsa]; exact hJ.bits) hi he
  · intro st d hi hJ hp
    exact (gb_none t sa isa e ws mm hs he st d hi hJ hp).1
  · intro st d s k o hi hJ hp
    obtain ⟨a, b, c, d', _⟩ := gb_some t sa isa e ws mm hs he hmm st d s k o hi hJ hp
    have := hJ.li_le
    exact ⟨by omega, by omega, by rw [hlen]; omega, d'⟩

theorem gsapSortChk_eq (data : List Byte) (w : Nat) (hw : w ≤ data.length) :
    gsapSortChk data w = some (gsapSort data w) := by
  have hsa := Sap.saSpec_isSA data
  have hok := Sap.saok_saSpec data
  have hlen : (saSpec data).toArray.size = data.length := by simpa using hsa.length_eq
  unfold gsapSortChk gsapSort
  simp only
  rw [invertSAChk_eq]
  · simp only
    rw [insertRanksChk_eq (invertSA (saSpec data).toArray) (saSpec data).toArray.size]
    · intro a ha
      rw [invertSA_size, hlen] at ha
      rw [hlen]
      exact (hok.sa_isa a ha).1
    · simp
    · rw [invertSA_size, hlen]; omega
  · intro j hj
    have hj' : j < (saSpec data).length := by simpa using hj
    have := hsa.getElem_lt j hj'
    rw [hlen]
    simpa [Array.getD_eq_getD_getElem?, List.getElem?_eq_getElem hj'] using this

/-- **one `Parse(&blk, flags)` call of GSAP never indexes out of range**: on a state satisfying the
    invariant `GsapW` of the C19 proof and `isa.size = sa.size` the checked `.gsap` branch succeeds
    with the result of `Parser.parse` -/
theorem parseGsapChk_eq (s : Parser) (g : GsapD) (hd : s.dict = .gsap g) (flags : Nat)
    (hw : s.buf.w ≤ s.buf.data.length) (hmm : 1 ≤ s.minMatch) (hW : GsapW s g)
    (hz : g.sa.size = 0 ∨ g.isa.size = g.sa.size) :
    parseGsapChk s g flags = some (s.parse flags) := by
  by_cases hn0 : s.blockN = 0
  · unfold parseGsapChk Parser.parse
    simp only [hn0, if_true]
  have hN := s.blockN_le
  have hl := s.blockPrefix_length hw
  obtain ⟨t, h1, h2, h3, h4⟩ := gsapW_block s g hn0 hw hW
  have hpre := blockPrefix_of_prefix s t h1 h2
  rw [parse_gsap s flags g hd hn0]
  unfold parseGsapChk
  simp only [hn0, if_false]
  rw [sliceToChk_eq _ _ (by omega)]
  simp only
  have hg1 : (if s.buf.w + s.blockN > g.sa.size then gsapSortChk s.buf.data s.buf.w else some g) =
      some (if s.buf.w + s.blockN > g.sa.size then gsapSort s.buf.data s.buf.w else g) := by
    split
    · exact gsapSortChk_eq _ _ hw
    · rfl
  have hz1 : (if s.buf.w + s.blockN > g.sa.size then gsapSort s.buf.data s.buf.w else g).isa.size =
      t.length := by
    rw [← h3.size_sa]
    split
    · exact invertSA_size _
    · rcases hz with hz | hz
      · omega
      · exact hz
  rw [hg1]
  simp only
  generalize (if s.buf.w + s.blockN > g.sa.size then gsapSort s.buf.data s.buf.w else g) = g1
    at h3 h4 hz1
  rw [show List.take (s.buf.w + s.blockN) s.buf.data = s.blockPrefix from rfl, hl, hpre]
  have h0 : GB t g1.sa g1.isa (s.buf.w + s.blockN)
      { dict := g1, i := s.buf.w, litIndex := s.buf.w, seqs := [], lits := [] } :=
    ⟨rfl, rfl, h4, Nat.le_refl _, Nat.le_add_right _ _⟩
  obtain ⟨hJ, hi⟩ := gb_loop t g1.sa g1.isa (s.buf.w + s.blockN) s.buf.cfg.windowSize s.minMatch
    h3 h2 hmm _ h0
  have hplen : (t.take (s.buf.w + s.blockN)).length = s.buf.w + s.blockN := by
    simp only [List.length_take]; omega
  unfold runGreedyChk Parser.runGreedy
  rw [gsapLoopChk_eq t g1.sa g1.isa _ _ _ h3 hz1 h2 hmm _ h0]
  simp only
  rw [finishBlockChk_eq _ _ _ (by have := hJ.li_le; rw [hi] at this; rw [hplen]; exact this)]

/-! ## 3. the strengthened state invariant along histories

`Sap.SAOK t sa isa` fixes `sa.size = len(t)` but not `isa.size` (all its clauses about `isa` go through
`getD`).  `s.isa[i]` needs it; it holds because `sort()` allocates `isa` with `len(sa)` entries and
nothing else touches `isa` except `[:0]` together with `sa`. -/

/-- `len(isa) = len(sa)` unless the suffix array is absent (after a truncated block Go keeps the old
    `isa` and only cuts `sa` to `[:0]` — so the disjunction, not an equation) -/
def IsaSz (s : Parser) : Prop := ∃ g, s.dict = .gsap g ∧ (g.sa.size = 0 ∨ g.isa.size = g.sa.size)

theorem isaSz_write (s : Parser) (p : List Byte) (h : IsaSz s) : IsaSz (s.write p).1 := by
  obtain ⟨g, hd, hz⟩ := h
  exact ⟨g, hd, hz⟩

theorem isaSz_readFrom (s : Parser) (r : Reader) (h : IsaSz s) : IsaSz (s.readFrom r).1 := by
  obtain ⟨g, hd, hz⟩ := h
  exact ⟨g, hd, hz⟩

theorem isaSz_shrink (s : Parser) (h : IsaSz s) : IsaSz s.shrink.1 := by
  obtain ⟨g, hd, hz⟩ := h
  unfold Parser.shrink
  simp only
  split
  · exact ⟨g, hd, hz⟩
  · simp only [hd]
    exact ⟨GsapD.empty, rfl, Or.inl rfl⟩

theorem isaSz_reset (s : Parser) (data : List Byte) (capExtra : Nat) (h : IsaSz s) :
    IsaSz (s.reset data capExtra).1 := by
  obtain ⟨g, hd, hz⟩ := h
  unfold Parser.reset
  simp only
  split
  · simp only [Parser.clearDict, hd]
    exact ⟨GsapD.empty, rfl, Or.inl rfl⟩
  · exact ⟨g, hd, hz⟩

theorem isaSz_parseNil (s : Parser) (h : IsaSz s) : IsaSz s.parseNil.1 := by
  obtain ⟨g, hd, hz⟩ := h
  unfold Parser.parseNil
  simp only
  split
  · exact ⟨g, hd, hz⟩
  · simp only [hd]
    exact ⟨g, rfl, hz⟩

/-- `Parse(&blk, flags)` keeps `IsaSz`: the loop never touches `sa` / `isa` (`GB.hsa`, `GB.hisa`) -/
theorem isaSz_parse (s : Parser) (flags : Nat) (hw : s.buf.w ≤ s.buf.data.length)
    (hmm : 1 ≤ s.minMatch) (hWS : GsapWS s) (h : IsaSz s) : IsaSz (s.parse flags).1 := by
  by_cases hn0 : s.blockN = 0
  · rw [parse_empty s flags hn0]; exact h
  obtain ⟨g, hd, hW⟩ := hWS
  obtain ⟨g', hd', hz⟩ := h
  rw [hd] at hd'
  cases hd'
  have hl := s.blockPrefix_length hw
  obtain ⟨t, h1, h2, h3, h4⟩ := gsapW_block s g hn0 hw hW
  have hpre := blockPrefix_of_prefix s t h1 h2
  have hz1 : (if s.buf.w + s.blockN > g.sa.size then gsapSort s.buf.data s.buf.w else g).sa.size = 0 ∨
      (if s.buf.w + s.blockN > g.sa.size then gsapSort s.buf.data s.buf.w else g).isa.size =
      (if s.buf.w + s.blockN > g.sa.size then gsapSort s.buf.data s.buf.w else g).sa.size := by
    split
    · exact Or.inr (invertSA_size _)
    · exact hz
  rw [parse_gsap s flags g hd hn0]
  simp only []
  rw [hl, hpre]
  generalize (if s.buf.w + s.blockN > g.sa.size then gsapSort s.buf.data s.buf.w else g) = g1
    at h3 h4 hz1
  have h0 : GB t g1.sa g1.isa (s.buf.w + s.blockN)
      { dict := g1, i := s.buf.w, litIndex := s.buf.w, seqs := [], lits := [] } :=
    ⟨rfl, rfl, h4, Nat.le_refl _, Nat.le_add_right _ _⟩
  obtain ⟨hJ, -⟩ := gb_loop t g1.sa g1.isa (s.buf.w + s.blockN) s.buf.cfg.windowSize s.minMatch
    h3 h2 hmm _ h0
  unfold Parser.runGreedy
  simp only []
  split
  · exact ⟨_, rfl, Or.inl rfl⟩
  · refine ⟨_, rfl, ?_⟩
    rw [hJ.hsa, hJ.hisa]
    exact hz1

theorem isaSz_stepP (s : Parser) (op : POp) (hw : s.buf.w ≤ s.buf.data.length)
    (hmm : 1 ≤ s.minMatch) (hWS : GsapWS s) (h : IsaSz s) : IsaSz (stepP s op) := by
  cases op with
  | write p => exact isaSz_write s p h
  | readFrom r => exact isaSz_readFrom s r h
  | parse flags => exact isaSz_parse s flags hw hmm hWS h
  | parseNil => exact isaSz_parseNil s h
  | shrink => exact isaSz_shrink s h
  | reset data capExtra => exact isaSz_reset s data capExtra h

theorem newParser_isaSz {raw : Cfg} {s0 : Parser} (h0 : newParser .GSAP raw = some s0) : IsaSz s0 :=
  ⟨GsapD.empty, Sap.newParser_gsap_dict raw s0 h0, Or.inl rfl⟩

theorem runOps_isaSz {c : Cfg} {bc : BufCfg} (hS : Static .GSAP c bc) (ops : List POp) :
    ∀ (sg : Parser × Ghost), Inv .GSAP c bc sg → Room sg.1.buf → GsapWS sg.1 → IsaSz sg.1 →
      IsaSz (runOps sg ops).1 := by
  induction ops with
  | nil => intro sg _ _ _ h; exact h
  | cons op ops ih =>
    intro sg h1 h2 h3 h4
    have hmm : 1 ≤ sg.1.minMatch := by rw [minMatch_eq, h1.kind, h1.cfg]; exact hS.mm
    apply ih (step sg op) (step_inv hS sg h1 op)
    · rw [step_fst]; exact room_stepP sg.1 op h2
    · rw [step_fst]; exact gsapWS_stepP sg.1 op h1.hw hmm h3
    · rw [step_fst]; exact isaSz_stepP sg.1 op h1.hw hmm h3 h4

/-! ## 4. history level -/

/-- **C16 for the index expressions of gsap.go, every history.**  For every accepted GSAP configuration
    and every history of `Write`, `ReadFrom`, `Parse(&blk, flags)`, `Parse(nil)`, `Shrink`, `Reset`:
    the next `Parse(&blk, flags)` evaluated with EVERY array index and slice expression of
    `gsap.Parse` / `gsap.sort` range-checked succeeds, with exactly the result of the model. -/
theorem gsap_parseChk_reachable (raw : Cfg) (s0 : Parser) (h0 : newParser .GSAP raw = some s0)
    (ops : List POp) (flags : Nat) :
    let s := (runOps (s0, Ghost.init) ops).1
    ∃ g, s.dict = .gsap g ∧ parseGsapChk s g flags = some (s.parse flags) := by
  intro s
  obtain ⟨hi, hmm, hbs⟩ := newParser_inv .GSAP raw s0 h0
  have hS : Static .GSAP s0.cfg s0.buf.cfg := ⟨hmm, hbs, histHyp_of_ne .GSAP s0 (by decide)⟩
  obtain ⟨⟨g, hd, hW⟩, hw, -, -, hmm'⟩ := reachable_gsapWS raw s0 h0 ops
  obtain ⟨g', hd', hz⟩ := runOps_isaSz hS ops (s0, Ghost.init) hi (newParser_room h0)
    (newParser_gsapWS h0) (newParser_isaSz h0)
  have hd2 : s.dict = .gsap g' := hd'
  have hd1 : s.dict = .gsap g := hd
  rw [hd1] at hd2
  cases hd2
  exact ⟨g, hd1, parseGsapChk_eq s g hd1 flags hw hmm' hW hz⟩

/-! ## 5. non-vacuity: the checks bite

The text `"xabab"` with its suffix array (`Sap.xabab`, `Sap.xababG` of LzProofs/GsapLoop.lean). -/

section Examples
open Sap (xabab xababG)

/-- the ranks of the positions 0, 1, 2 marked (the state of the loop at `i = 3`) -/
def xababG3 : GsapD := { xababG with bits := insertRanks xababG.isa xababG.bits 0 3 }

/-- good state: the checked probe answers, and answers what the model answers (match of 2 at 3) -/
example : (gsapProbeChk 8 2 xababG3 xabab 3 0).map (·.2) = some (some (3, 2, 2)) := by decide
example : (gsapProbeChk 8 2 xababG3 xabab 3 0).map (·.2) = some (gsapProbe 8 2 xababG3 xabab 3 0).2 := by
  decide

/-- `isa` one entry short: `s.isa[4]` panics; the unchecked model reads 0 and carries on -/
example : (gsapProbeChk 8 2 { xababG3 with isa := #[4, 1, 3, 0] } xabab 4 0).isNone = true := by decide
example : (gsapProbe 8 2 { xababG3 with isa := #[4, 1, 3, 0] } xabab 4 0).2 = none := by decide

/-- rank array one entry short: the model would silently drop rank 4 (Go inserts it) -/
example : (gsapProbeChk 8 2 { xababG with bits := #[false, false, false, false] } xabab 0 0).isNone = true := by
  decide

/-- `sa` one entry short: `s.sa[k2]` panics (rank 4 = position 0 is marked, probe at rank 3) -/
example : (gsapProbeChk 8 2 { xababG3 with sa := #[3, 1, 4, 2] } xabab 2 0).isNone = true := by decide

/-- a marked rank of a position BEHIND the block end — what a truncated block (`NoTrailingLiterals`)
    leaves in `bits`, the reason for `s.sa = s.sa[:0]` in gsap.go L279: `p[f2:]` panics for the block
    `p = "xab"` at `i = 1` when the rank of position 4 is marked.  The unchecked model does not notice. -/
example : (gsapProbeChk 8 2 { xababG with bits := #[false, false, true, false, false] } (xabab.take 3) 1 0).isNone
    = true := by decide
example : (gsapProbe 8 2 { xababG with bits := #[false, false, true, false, false] } (xabab.take 3) 1 0).2
    = none := by decide

example : (insertRanksChk #[4, 1, 3] #[false, false, false, false, false] 0 4).isNone = true := by decide
example : insertRanksChk #[4, 1, 3, 0] #[false, false, false, false, false] 0 4 =
    some (insertRanks #[4, 1, 3, 0] #[false, false, false, false, false] 0 4) := by decide
example : (invertSAChk #[3, 1, 5, 2, 0]).isNone = true := by decide
example : invertSAChk #[3, 1, 4, 2, 0] = some #[4, 1, 3, 0, 2] := by decide
example : (sliceFromChk xabab 6).isNone = true ∧ (sliceChk xabab 3 2).isNone = true ∧
    (sliceToChk xabab 6).isNone = true ∧ sliceChk xabab 1 3 = some [97, 98] := by decide

/-- a whole `Parse` call.  `exS` : a GSAP parser holding `"xabab"` with its suffix array;
    `exBad` : the same with `isa` cut to `[:0]` while `sa` stays (NOT reachable: `IsaSz`). -/
def exCfg : Cfg :=
  { windowSize := 64, bufferSize := 48, blockSize := 32, shrinkSize := 16, minMatchLen := 2 }
def exS0 : Parser := (newParser .GSAP exCfg).getD default
theorem exS0_new : newParser .GSAP exCfg = some exS0 := Sap.eq_some_getD (by decide) _
def exS : Parser := { stepP exS0 (.write xabab) with dict := .gsap xababG }
def exBad : Parser := { exS with dict := .gsap { xababG with isa := #[] } }

#guard ((parseGsapChk exS xababG 0).map (·.2.2.2)) == some (exS.parse 0).2.2.2
#guard (parseGsapChk exS xababG 0).map (·.2.2.2) == some ⟨[⟨3, 2, 2, 0⟩], [120, 97, 98]⟩
#guard (parseGsapChk exBad { xababG with isa := #[] } 0).isNone
#guard (exBad.parse 0).2.2.1 == .ok          -- the unchecked model "succeeds" on the bad state
-- … and with the re-sort (`len(sa) = 0`): `sort()` and the loop, all checked
#guard (parseGsapChk (stepP exS0 (.write xabab)) GsapD.empty 0).map (·.2.2.2) ==
    some ⟨[⟨3, 2, 2, 0⟩], [120, 97, 98]⟩

/-- the history-level theorem applied to a concrete history -/
example := gsap_parseChk_reachable exCfg exS0 exS0_new
  [.write xabab, .parse 1, .parseNil, .write xabab, .shrink, .write xabab] 0

end Examples

#print axioms gsapProbeChk_eq
#print axioms gsapSortChk_eq
#print axioms gsapLoopChk_eq
#print axioms parseGsapChk_eq
#print axioms runOps_isaSz
#print axioms gsap_parseChk_reachable

end Idx
end LZ
