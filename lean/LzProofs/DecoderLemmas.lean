/-
  LzProofs.DecoderLemmas — helper lemmas for C06 (termination of the Decoder retry loops)
  and C18 (exactly-once delivery to a faulting writer).
-/
import LzModel.DecBuf
namespace LZ
namespace DecBuf

/-- the structural invariant of a `DecoderBuffer` -/
def Inv (b : DecBuf) : Prop := b.r ≤ b.data.length ∧ b.ws < b.bs ∧ b.data.length ≤ b.bs

/-- the bytes not yet handed to the writer -/
def pending (b : DecBuf) : List Byte := b.data.drop b.r


/-- `b'` is `b` with the bytes `x` appended, after the window has possibly been slid forward
    by `δ ≤ b.r` bytes (only bytes already handed to the writer are dropped) -/
def Ext (b b' : DecBuf) (x : List Byte) : Prop :=
  ∃ δ, δ ≤ b.r ∧ b'.r + δ = b.r ∧ b'.data = (b.data ++ x).drop δ ∧ b'.ws = b.ws ∧ b.bs ≤ b'.bs

theorem Ext.refl (b : DecBuf) : Ext b b [] := ⟨0, by simp⟩

theorem Ext.trans {b b' b'' : DecBuf} {x y : List Byte} (hr : b.r ≤ b.data.length)
    (h1 : Ext b b' x) (h2 : Ext b' b'' y) : Ext b b'' (x ++ y) := by
  obtain ⟨δ1, a1, a2, a3, a4, a5⟩ := h1
  obtain ⟨δ2, c1, c2, c3, c4, c5⟩ := h2
  refine ⟨δ1 + δ2, by omega, by omega, ?_, by omega, by omega⟩
  rw [c3, a3, ← List.drop_drop, ← List.append_assoc]
  congr 1
  rw [List.drop_append_of_le_length (by omega), List.drop_append_of_le_length (by simp; omega),
    List.drop_append_of_le_length (by omega)]

theorem Ext.r_le {b b' : DecBuf} {x : List Byte} (hr : b.r ≤ b.data.length) (h : Ext b b' x) :
    b'.r ≤ b'.data.length := by
  obtain ⟨δ, a1, a2, a3, _⟩ := h
  rw [a3]; simp; omega

theorem Ext.length {b b' : DecBuf} {x : List Byte} (hr : b.r ≤ b.data.length) (h : Ext b b' x) :
    b'.data.length - b'.r = b.data.length - b.r + x.length := by
  obtain ⟨δ, a1, a2, a3, _⟩ := h
  rw [a3]; simp; omega

theorem Ext.drop {b b' : DecBuf} {x : List Byte} (hr : b.r ≤ b.data.length) (h : Ext b b' x) :
    b'.data.drop b'.r = b.data.drop b.r ++ x := by
  obtain ⟨δ, a1, a2, a3, _⟩ := h
  rw [a3, List.drop_drop, ← List.drop_append_of_le_length hr]
  congr 1; omega

/-- the window stays a suffix of the stream: if the writer has `pre ++ data[:r]`, it still has
    `pre' ++ data'[:r']` -/
theorem Ext.hist {b b' : DecBuf} {x got pre : List Byte} (hr : b.r ≤ b.data.length) (h : Ext b b' x)
    (hg : got = pre ++ b.data.take b.r) : ∃ pre', got = pre' ++ b'.data.take b'.r ∧
      pre' ++ b'.data = pre ++ b.data ++ x := by
  obtain ⟨δ, a1, a2, a3, _⟩ := h
  refine ⟨pre ++ b.data.take δ, ?_, ?_⟩
  · rw [hg, a3, List.append_assoc]
    congr 1
    have : b.r = δ + b'.r := by omega
    rw [this, List.take_add]
    congr 1
    rw [List.drop_append_of_le_length (by omega), List.take_append_of_le_length (by simp; omega)]
  · rw [a3, List.append_assoc, List.append_assoc]
    congr 1
    rw [List.drop_append_of_le_length (by omega), ← List.append_assoc, List.take_append_drop]

theorem Ext.pending {b b' : DecBuf} {x : List Byte} (hr : b.r ≤ b.data.length) (h : Ext b b' x) :
    b'.pending = b.pending ++ x := Ext.drop hr h

/-! ## shrink -/

theorem shrink_spec (b : DecBuf) (n : Nat) (h : Inv b) :
    Inv (b.shrink n).1 ∧ (b.shrink n).1.ws = b.ws ∧ b.bs ≤ (b.shrink n).1.bs ∧
    (b.shrink n).1.off = b.off ∧ (b.shrink n).1.cap = b.cap ∧
    (b.shrink n).2 ≤ b.r ∧ (b.shrink n).2 ≤ b.data.length ∧
    (b.shrink n).1.r = b.r - (b.shrink n).2 ∧
    (b.shrink n).1.data = b.data.drop (b.shrink n).2 ∧
    (((b.shrink n).2 = 0 ∧ n ≤ (b.shrink n).1.bs) ∨
      (b.shrink n).2 = min (b.data.length - b.ws) b.r) := by
  obtain ⟨h1, h2, h3⟩ := h
  unfold shrink Inv
  simp only
  split <;> split <;> (try split) <;> simp_all <;> omega


theorem writeByte_eq (g : Grow) (b : DecBuf) (c : Byte) :
    b.writeByte g c =
      if b.data.length + 1 > b.bs then
        if b.data.length + 1 - (b.shrink (b.data.length + 1)).2 > (b.shrink (b.data.length + 1)).1.bs then
          ((b.shrink (b.data.length + 1)).1, .full)
        else ({ ((b.shrink (b.data.length + 1)).1.append g [c]) with
                  off := (b.shrink (b.data.length + 1)).1.off + 1 }, .ok)
      else ({ (b.append g [c]) with off := b.off + 1 }, .ok) := by
  unfold writeByte
  by_cases h : b.data.length + 1 > b.bs <;> simp only [h, ↓reduceIte]

theorem write_eq (g : Grow) (b : DecBuf) (p : List Byte) :
    b.write g p =
      if b.data.length + p.length > b.bs then
        if b.data.length + p.length - (b.shrink (b.data.length + p.length)).2
            > (b.shrink (b.data.length + p.length)).1.bs then
          ((b.shrink (b.data.length + p.length)).1, 0, .full)
        else ({ ((b.shrink (b.data.length + p.length)).1.append g p) with
                  off := (b.shrink (b.data.length + p.length)).1.off + p.length }, p.length, .ok)
      else ({ (b.append g p) with off := b.off + p.length }, p.length, .ok) := by
  unfold write
  by_cases h : b.data.length + p.length > b.bs <;> simp only [h, ↓reduceIte]

theorem shrink_pending (b : DecBuf) (n : Nat) (h : Inv b) : (b.shrink n).1.pending = b.pending := by
  have hs := shrink_spec b n h
  obtain ⟨_, _, _, _, _, h6, _, h8, h9, _⟩ := hs
  unfold pending
  rw [h8, h9, List.drop_drop]
  congr 1; omega

theorem append_pending (g : Grow) (b : DecBuf) (p : List Byte) (h : b.r ≤ b.data.length) :
    (b.append g p).pending = b.pending ++ p := by
  unfold pending append
  simp only
  rw [List.drop_append_of_le_length h]

theorem shrink_ext (b : DecBuf) (n : Nat) (h : Inv b) : Ext b (b.shrink n).1 [] := by
  obtain ⟨h1, h2, h3, h4, h5, h6, h6', h7, h8, h9⟩ := shrink_spec b n h
  exact ⟨(b.shrink n).2, h6, by omega, by rw [h8]; simp, h2, h3⟩

theorem append_ext (g : Grow) (b : DecBuf) (p : List Byte) (o : Nat) :
    Ext b { (b.append g p) with off := o } p :=
  ⟨0, by simp [append]⟩

theorem append_ext' (g : Grow) (b : DecBuf) (p : List Byte) : Ext b (b.append g p) p :=
  ⟨0, by simp [append]⟩

theorem write_spec (g : Grow) (b : DecBuf) (p : List Byte) (h : Inv b) :
    Inv (b.write g p).1 ∧ (b.write g p).1.ws = b.ws ∧ b.bs ≤ (b.write g p).1.bs ∧
    (((b.write g p).2.2 = .ok ∧ (b.write g p).2.1 = p.length ∧
        (b.write g p).1.pending = b.pending ++ p ∧ (b.write g p).1.off = b.off + p.length) ∨
     ((b.write g p).2.2 = .full ∧ (b.write g p).2.1 = 0 ∧
        (b.write g p).1.pending = b.pending ∧ (b.write g p).1.off = b.off ∧
        ¬ (b.r = b.data.length ∧ p.length ≤ b.bs - b.ws))) := by
  have hs := shrink_spec b (b.data.length + p.length) h
  have hp := shrink_pending b (b.data.length + p.length) h
  obtain ⟨h1, h2, h3, h4, h5, h6, h6', h7, h8, h9⟩ := hs
  rw [write_eq]
  split
  · split
    · refine ⟨h1, h2, h3, Or.inr ⟨rfl, rfl, hp, h4, ?_⟩⟩
      rw [h8] at *
      unfold Inv at h
      omega
    · refine ⟨?_, ?_, ?_, Or.inl ⟨rfl, rfl, ?_, ?_⟩⟩
      · unfold Inv append at *
        simp only [List.length_append] at *
        rw [h8] at *
        simp only [List.length_drop] at *
        omega
      · simp [append, h2]
      · simp [append, h3]
      · rw [← hp]; exact append_pending g _ p h1.1
      · simp [h4]
  · refine ⟨?_, ?_, ?_, Or.inl ⟨rfl, rfl, ?_, ?_⟩⟩
    · unfold Inv append at *
      simp only [List.length_append] at *
      omega
    · simp [append]
    · simp [append]
    · exact append_pending g _ p h.1
    · simp

theorem writeByte_spec (g : Grow) (b : DecBuf) (c : Byte) (h : Inv b) :
    Inv (b.writeByte g c).1 ∧ (b.writeByte g c).1.ws = b.ws ∧ b.bs ≤ (b.writeByte g c).1.bs ∧
    (((b.writeByte g c).2 = .ok ∧
        (b.writeByte g c).1.pending = b.pending ++ [c] ∧ (b.writeByte g c).1.off = b.off + 1) ∨
     ((b.writeByte g c).2 = .full ∧
        (b.writeByte g c).1.pending = b.pending ∧ (b.writeByte g c).1.off = b.off ∧
        b.r ≠ b.data.length)) := by
  have hs := shrink_spec b (b.data.length + 1) h
  have hp := shrink_pending b (b.data.length + 1) h
  obtain ⟨h1, h2, h3, h4, h5, h6, h6', h7, h8, h9⟩ := hs
  rw [writeByte_eq]
  split
  · split
    · refine ⟨h1, h2, h3, Or.inr ⟨rfl, hp, h4, ?_⟩⟩
      rw [h8] at *
      unfold Inv at h
      omega
    · refine ⟨?_, ?_, ?_, Or.inl ⟨rfl, ?_, ?_⟩⟩
      · unfold Inv append at *
        simp only [List.length_append] at *
        rw [h8] at *
        simp only [List.length_drop, List.length_cons, List.length_nil] at *
        omega
      · simp [append, h2]
      · simp [append, h3]
      · rw [← hp]; exact append_pending g _ _ h1.1
      · simp [h4]
  · refine ⟨?_, ?_, ?_, Or.inl ⟨rfl, ?_, ?_⟩⟩
    · unfold Inv append at *
      simp only [List.length_append, List.length_cons, List.length_nil] at *
      omega
    · simp [append]
    · simp [append]
    · exact append_pending g _ _ h.1
    · simp

/-! ## match copy -/

theorem copyLoop_spec (g : Grow) (b : DecBuf) (n off : Nat) (h : off ≤ b.data.length) :
    ∃ x, (copyLoop g b n off).1.data = b.data ++ x ∧
      x.length + (copyLoop g b n off).2.1 = n ∧
      (copyLoop g b n off).2.2 ≤ (copyLoop g b n off).1.data.length ∧
      ((copyLoop g b n off).2.1 ≤ (copyLoop g b n off).2.2 ∨ (off = 0 ∧ (copyLoop g b n off).2.1 = n)) ∧
      (copyLoop g b n off).1.r = b.r ∧ (copyLoop g b n off).1.ws = b.ws ∧
      (copyLoop g b n off).1.bs = b.bs ∧ (copyLoop g b n off).1.off = b.off := by
  fun_induction copyLoop g b n off with
  | case1 b n off hc b' n' hle =>
    refine ⟨b.data.drop (b.data.length - off), ?_⟩
    simp [b', append, n']
    omega
  | case2 b n off hc b' n' hle ih =>
    have : off * 2 ≤ b'.data.length := by simp [b', append]; omega
    obtain ⟨x, hx1, hx2, hx3, hx4, hx5, hx6, hx7, hx8⟩ := ih this
    clear ih
    refine ⟨b.data.drop (b.data.length - off) ++ x, ?_, ?_, hx3, ?_, hx5, hx6, hx7, hx8⟩
    · rw [hx1]; simp [b', append]
    · simp only [List.length_append, List.length_drop]; omega
    · omega
  | case3 b n off hc =>
    refine ⟨[], ?_⟩
    simp
    omega

theorem copyMatch_spec (g : Grow) (b : DecBuf) (m o : Nat) (h : o ≤ b.data.length)
    (h0 : o = 0 → m = 0) :
    ∃ x, (copyMatch g b m o).data = b.data ++ x ∧ x.length = m ∧
      (copyMatch g b m o).r = b.r ∧ (copyMatch g b m o).ws = b.ws ∧
      (copyMatch g b m o).bs = b.bs ∧ (copyMatch g b m o).off = b.off := by
  obtain ⟨x, hx1, hx2, hx3, hx4, hx5, hx6, hx7, hx8⟩ := copyLoop_spec g b m o h
  unfold copyMatch
  simp only [append]
  refine ⟨x ++ (List.drop ((copyLoop g b m o).1.data.length - (copyLoop g b m o).2.2)
      (copyLoop g b m o).1.data).take (copyLoop g b m o).2.1, ?_, ?_, hx5, hx6, hx7, hx8⟩
  · rw [← List.append_assoc, ← hx1]
  · simp only [List.length_append, List.length_take, List.length_drop]
    omega

/-- the "make room" step shared by `WriteMatch`/`WriteBlock`: shrink iff `need` does not fit -/
def makeRoom (b : DecBuf) (need : Nat) : DecBuf × Nat :=
  if need > b.bs - b.data.length then b.shrink (need + b.data.length) else (b, 0)

theorem seqLoop_nil (g : Grow) (b : DecBuf) (lits : List Byte) (k dl : Nat) :
    seqLoop g b [] lits k dl = (b, k, lits, dl, .ok) := by
  simp [seqLoop]

theorem seqLoop_step (g : Grow) (b : DecBuf) (s : Seq) (rest : List Seq) (lits : List Byte) (k dl : Nat) :
    seqLoop g b (s :: rest) lits k dl =
      if s.litLen > lits.length then (b, k, lits, dl, .litLen)
      else if s.offset = 0 ∧ s.matchLen > 0 then (b, k, lits, dl, .offset)
      else if s.offset > min (b.data.length + s.litLen) b.ws then (b, k, lits, dl, .offset)
      else
        if s.litLen + s.matchLen ≤ (b.makeRoom (s.litLen + s.matchLen)).1.bs
            - (b.makeRoom (s.litLen + s.matchLen)).1.data.length then
          seqLoop g (copyMatch g ((b.makeRoom (s.litLen + s.matchLen)).1.append g (lits.take s.litLen))
              s.matchLen s.offset) rest (lits.drop s.litLen) (k + 1)
              (dl + (b.makeRoom (s.litLen + s.matchLen)).2)
        else ((b.makeRoom (s.litLen + s.matchLen)).1, k, lits, dl + (b.makeRoom (s.litLen + s.matchLen)).2,
              if s.litLen + s.matchLen > (b.makeRoom (s.litLen + s.matchLen)).1.bs
                  - (b.makeRoom (s.litLen + s.matchLen)).1.ws then .matchLen else .full) := by
  rw [seqLoop]
  by_cases h1 : s.litLen > lits.length
  · simp only [h1, ↓reduceIte]
  by_cases h2 : s.offset = 0 ∧ s.matchLen > 0
  · simp only [h1, h2, ↓reduceIte]; simp
  by_cases h3 : s.offset > min (b.data.length + s.litLen) b.ws
  · simp only [h1, h2, h3, ↓reduceIte]
  simp only [h1, h2, h3, ↓reduceIte, makeRoom]
  by_cases h4 : s.litLen + s.matchLen > b.bs - b.data.length
  · simp only [h4, ↓reduceIte]
    by_cases h5 : s.litLen + s.matchLen ≤ (b.shrink (s.litLen + s.matchLen + b.data.length)).1.bs
            - (b.shrink (s.litLen + s.matchLen + b.data.length)).1.data.length
    · simp [h5]
    · simp [h5]
  · simp only [h4, ↓reduceIte]
    have : s.litLen + s.matchLen ≤ b.bs - b.data.length := by omega
    simp [this]

theorem makeRoom_spec (b : DecBuf) (need : Nat) (h : Inv b) :
    Inv (b.makeRoom need).1 ∧ (b.makeRoom need).1.ws = b.ws ∧ b.bs ≤ (b.makeRoom need).1.bs ∧
    (b.makeRoom need).1.off = b.off ∧ (b.makeRoom need).1.pending = b.pending ∧
    (b.makeRoom need).1.data.length + (b.makeRoom need).2 = b.data.length ∧
    min b.data.length b.ws ≤ (b.makeRoom need).1.data.length ∧
    (b.r = b.data.length → ¬ need ≤ (b.makeRoom need).1.bs - (b.makeRoom need).1.data.length →
      need > (b.makeRoom need).1.bs - (b.makeRoom need).1.ws) := by
  unfold makeRoom
  split
  · have hs := shrink_spec b (need + b.data.length) h
    have hp := shrink_pending b (need + b.data.length) h
    obtain ⟨h1, h2, h3, h4, h5, h6, h6', h7, h8, h9⟩ := hs
    refine ⟨h1, h2, h3, h4, hp, ?_, ?_, ?_⟩
    · rw [h8, List.length_drop]; omega
    · rw [h8, List.length_drop]; omega
    · intro hr
      rw [h8, List.length_drop, h2]
      unfold Inv at h
      omega
  · refine ⟨h, rfl, Nat.le_refl _, rfl, rfl, rfl, Nat.min_le_left _ _, ?_⟩
    intro _ h2
    simp only at h2 ⊢
    omega


theorem write_ext (g : Grow) (b : DecBuf) (p : List Byte) (h : Inv b) :
    Ext b (b.write g p).1 (p.take (b.write g p).2.1) := by
  rw [write_eq]
  split
  · split
    · simpa using shrink_ext b _ h
    · simp only [List.take_length]
      have := Ext.trans h.1 (shrink_ext b (b.data.length + p.length) h)
        (append_ext g (b.shrink (b.data.length + p.length)).1 p
          ((b.shrink (b.data.length + p.length)).1.off + p.length))
      simpa using this
  · simp only [List.take_length]
    exact append_ext g b p _

theorem writeByte_ext (g : Grow) (b : DecBuf) (c : Byte) (h : Inv b) :
    Ext b (b.writeByte g c).1 (if (b.writeByte g c).2 = .ok then [c] else []) := by
  rw [writeByte_eq]
  split
  · split
    · simpa using shrink_ext b _ h
    · have := Ext.trans h.1 (shrink_ext b (b.data.length + 1) h)
        (append_ext g (b.shrink (b.data.length + 1)).1 [c]
          ((b.shrink (b.data.length + 1)).1.off + 1))
      simpa using this
  · simp only [↓reduceIte]
    exact append_ext g b [c] _

theorem makeRoom_ext (b : DecBuf) (need : Nat) (h : Inv b) : Ext b (b.makeRoom need).1 [] := by
  unfold makeRoom
  split
  · exact shrink_ext b _ h
  · exact Ext.refl b

/-- errors a `DecoderBuffer` operation can produce -/
def BufErr (e : Err) : Prop :=
  e = .ok ∨ e = .full ∨ e = .litLen ∨ e = .offset ∨ e = .matchLen

theorem seqLoop_post (g : Grow) (seqs : List Seq) :
    ∀ (b : DecBuf) (lits : List Byte) (k dl : Nat), Inv b →
    Inv (seqLoop g b seqs lits k dl).1 ∧
    (seqLoop g b seqs lits k dl).1.ws = b.ws ∧
    b.bs ≤ (seqLoop g b seqs lits k dl).1.bs ∧
    k ≤ (seqLoop g b seqs lits k dl).2.1 ∧
    BufErr (seqLoop g b seqs lits k dl).2.2.2.2 ∧
    ((seqLoop g b seqs lits k dl).2.2.2.2 = .ok → (seqLoop g b seqs lits k dl).2.1 = k + seqs.length) ∧
    ((seqLoop g b seqs lits k dl).2.2.2.2 ≠ .ok → (seqLoop g b seqs lits k dl).2.1 < k + seqs.length) ∧
    ((seqLoop g b seqs lits k dl).2.2.2.2 = .full → b.r = b.data.length →
        k < (seqLoop g b seqs lits k dl).2.1) ∧
    (∃ x, Ext b (seqLoop g b seqs lits k dl).1 x ∧
        (seqLoop g b seqs lits k dl).1.data.length + (seqLoop g b seqs lits k dl).2.2.2.1
          = b.data.length + dl + x.length ∧
        ((seqLoop g b seqs lits k dl).2.1 = k → x = [])) ∧
    (∃ t, t ≤ lits.length ∧ (seqLoop g b seqs lits k dl).2.2.1 = lits.drop t) := by
  induction seqs with
  | nil =>
    intro b lits k dl h
    rw [seqLoop_nil]
    refine ⟨h, rfl, Nat.le_refl _, Nat.le_refl _, Or.inl rfl, fun _ => rfl, fun h => absurd rfl h,
      fun h => by simp at h, ⟨[], Ext.refl b, by simp, fun _ => rfl⟩, ⟨0, by simp, by simp⟩⟩
  | cons s rest ih =>
    intro b lits k dl h
    rw [seqLoop_step]
    split
    · refine ⟨h, rfl, Nat.le_refl _, Nat.le_refl _, by simp [BufErr], by simp, by simp,
        fun h => by simp at h, ⟨[], Ext.refl b, by simp, fun _ => rfl⟩, ⟨0, by simp, by simp⟩⟩
    split
    · refine ⟨h, rfl, Nat.le_refl _, Nat.le_refl _, by simp [BufErr], by simp, by simp,
        fun h => by simp at h, ⟨[], Ext.refl b, by simp, fun _ => rfl⟩, ⟨0, by simp, by simp⟩⟩
    split
    · refine ⟨h, rfl, Nat.le_refl _, Nat.le_refl _, by simp [BufErr], by simp, by simp,
        fun h => by simp at h, ⟨[], Ext.refl b, by simp, fun _ => rfl⟩, ⟨0, by simp, by simp⟩⟩
    rename_i hl ho1 ho2
    obtain ⟨r1, r2, r3, r4, r5, r6, r8, r7⟩ := makeRoom_spec b (s.litLen + s.matchLen) h
    have rext := makeRoom_ext b (s.litLen + s.matchLen) h
    split
    · -- the sequence fits
      rename_i hfit
      generalize hB : (b.makeRoom (s.litLen + s.matchLen)).1 = B0 at *
      generalize hD : (b.makeRoom (s.litLen + s.matchLen)).2 = d0 at *
      have hb1len : (B0.append g (lits.take s.litLen)).data.length = B0.data.length + s.litLen := by
        simp [append]; omega
      have hoff : s.offset ≤ (B0.append g (lits.take s.litLen)).data.length := by
        rw [hb1len]; omega
      have hoff0 : s.offset = 0 → s.matchLen = 0 := by omega
      obtain ⟨x, c1, c2, c3, c4, c5, c6⟩ :=
        copyMatch_spec g (B0.append g (lits.take s.litLen)) s.matchLen s.offset hoff hoff0
      generalize hb2 : copyMatch g (B0.append g (lits.take s.litLen)) s.matchLen s.offset = b2 at *
      have hb2len : b2.data.length = B0.data.length + s.litLen + s.matchLen := by
        rw [c1, List.length_append, hb1len, c2]
      have hb2r : b2.r = B0.r := by rw [c3]; simp [append]
      have hb2ws : b2.ws = B0.ws := by rw [c4]; simp [append]
      have hb2bs : b2.bs = B0.bs := by rw [c5]; simp [append]
      have hinv2 : Inv b2 := by
        unfold Inv at r1 ⊢
        omega
      have hext2 : Ext b b2 (lits.take s.litLen ++ x) := by
        have e1 : Ext B0 (B0.append g (lits.take s.litLen)) (lits.take s.litLen) :=
          append_ext' g B0 _
        have e2 : Ext (B0.append g (lits.take s.litLen)) b2 x :=
          ⟨0, Nat.zero_le _, by rw [c3]; rfl, by rw [c1]; rfl, c4, by rw [c5]; exact Nat.le_refl _⟩
        have e3 := Ext.trans (x := []) h.1 rext (Ext.trans r1.1 e1 e2)
        simpa using e3
      obtain ⟨i1, i2, i3, i4, i5, i6, i7, i8, ⟨y, i9, i10, i11⟩, ⟨t, i12, i13⟩⟩ :=
        ih b2 (lits.drop s.litLen) (k + 1) (dl + d0) hinv2
      refine ⟨i1, by omega, by omega, by omega, i5, ?_, ?_, ?_, ⟨lits.take s.litLen ++ x ++ y, ?_, ?_, ?_⟩,
        ⟨s.litLen + t, ?_, ?_⟩⟩
      · intro he; have := i6 he; simp only [List.length_cons]; omega
      · intro he; have := i7 he; simp only [List.length_cons]; omega
      · intro _ _; omega
      · exact Ext.trans h.1 hext2 i9
      · simp only [List.length_append, List.length_take] at *; omega
      · intro hk; omega
      · simp only [List.length_drop] at i12; omega
      · rw [i13, List.drop_drop]
    · rename_i hfit
      refine ⟨r1, r2, r3, Nat.le_refl _, ?_, ?_, by simp, ?_, ⟨[], rext, by simp; omega, fun _ => rfl⟩,
        ⟨0, by simp, by simp⟩⟩
      · split <;> simp [BufErr]
      · split <;> simp
      · simp only
        intro he hr
        have := r7 hr hfit
        simp [this] at he

/-- the common exit of `WriteBlock` (label `end:`) -/
def wbFin (ld ll k : Nat) (b : DecBuf) (lits : List Byte) (dl : Nat) (e : Err) :
    DecBuf × Int × Nat × Nat × Err :=
  ({ b with off := (b.off + ((b.data.length : Int) - ((ld : Int) - (dl : Int)))).toNat },
    (b.data.length : Int) - ((ld : Int) - (dl : Int)), k, ll - lits.length, e)

theorem writeBlock_eq (g : Grow) (b : DecBuf) (blk : Block) :
    b.writeBlock g blk =
      let sl := seqLoop g b blk.seqs blk.lits 0 0
      if sl.2.2.2.2 ≠ .ok then wbFin b.data.length blk.lits.length sl.2.1 sl.1 sl.2.2.1 sl.2.2.2.1 sl.2.2.2.2
      else if sl.1.data.length + sl.2.2.1.length > sl.1.bs then
        let sh := sl.1.shrink (sl.1.data.length + sl.2.2.1.length)
        if sl.1.data.length + sl.2.2.1.length - sh.2 > sh.1.bs then
          wbFin b.data.length blk.lits.length sl.2.1 sh.1 sl.2.2.1 (sl.2.2.2.1 + sh.2) .full
        else wbFin b.data.length blk.lits.length sl.2.1 (sh.1.append g sl.2.2.1) [] (sl.2.2.2.1 + sh.2) .ok
      else wbFin b.data.length blk.lits.length sl.2.1 (sl.1.append g sl.2.2.1) [] (sl.2.2.2.1 + 0) .ok := by
  unfold writeBlock wbFin
  generalize seqLoop g b blk.seqs blk.lits 0 0 = sl
  obtain ⟨b1, k, lits, dl, e⟩ := sl
  simp only
  by_cases h1 : e = .ok
  · simp only [h1, ne_eq, not_true_eq_false, ↓reduceIte]
    by_cases h2 : b1.data.length + lits.length > b1.bs
    · simp only [h2, ↓reduceIte]
    · simp only [h2, ↓reduceIte]
  · simp only [h1, ne_eq, not_false_eq_true, ↓reduceIte]

theorem wbuf_post (g : Grow) (b : DecBuf) (blk : Block) (h : Inv b) :
    Inv (b.writeBlock g blk).1 ∧ (b.writeBlock g blk).1.ws = b.ws ∧
    b.bs ≤ (b.writeBlock g blk).1.bs ∧ BufErr (b.writeBlock g blk).2.2.2.2 ∧
    (b.writeBlock g blk).2.2.1 ≤ blk.seqs.length ∧ (b.writeBlock g blk).2.2.2.1 ≤ blk.lits.length ∧
    ((b.writeBlock g blk).2.2.2.2 = .ok →
      (b.writeBlock g blk).2.2.1 = blk.seqs.length ∧ (b.writeBlock g blk).2.2.2.1 = blk.lits.length) ∧
    ((b.writeBlock g blk).2.2.2.2 = .full → b.r = b.data.length →
      0 < (b.writeBlock g blk).2.2.1 ∨ (b.writeBlock g blk).2.2.1 = blk.seqs.length) ∧
    (∃ x, Ext b (b.writeBlock g blk).1 x ∧
      (b.writeBlock g blk).1.pending = b.pending ++ x ∧
      (b.writeBlock g blk).2.1 = (x.length : Int) ∧
      ((b.writeBlock g blk).2.2.2.2 ≠ .ok → (b.writeBlock g blk).2.2.1 = 0 → x = [])) := by
  obtain ⟨i1, i2, i3, i4, i5, i6, i7, i8, ⟨x, i9, i10, i11⟩, ⟨t, i12, i13⟩⟩ :=
    seqLoop_post g blk.seqs b blk.lits 0 0 h
  rw [writeBlock_eq]
  simp only
  generalize seqLoop g b blk.seqs blk.lits 0 0 = sl at *
  obtain ⟨b1, k, lits, dl, e⟩ := sl
  simp only at *
  split
  · -- the sequence loop stopped with an error
    rename_i he
    have := i7 he
    simp only [wbFin]
    refine ⟨i1, i2, i3, i5, by omega, by omega, fun h => absurd h he, ?_,
      ⟨x, i9, Ext.pending h.1 i9, by omega, fun _ hk => i11 hk⟩⟩
    intro hf hr
    have := i8 hf hr
    omega
  · rename_i he
    have he : e = .ok := by simpa using he
    have hk := i6 he
    have hs := shrink_spec b1 (b1.data.length + lits.length) i1
    have hx := shrink_ext b1 (b1.data.length + lits.length) i1
    obtain ⟨h1, h2, h3, h4, h5, h6, h6', h7, h8, h9⟩ := hs
    split
    · split
      · -- trailing literals do not fit
        simp only [wbFin]
        have hx' : Ext b (b1.shrink (b1.data.length + lits.length)).1 x := by
          simpa using Ext.trans h.1 i9 hx
        refine ⟨h1, by omega, by omega, by simp [BufErr], by omega, by omega, by simp, ?_,
          ⟨x, hx', Ext.pending h.1 hx', ?_, ?_⟩⟩
        · intro _ _; right; omega
        · rw [h8, List.length_drop]; omega
        · intro _ hk0; exact i11 (by omega)
      · simp only [wbFin]
        have hx' : Ext b (append g (b1.shrink (b1.data.length + lits.length)).1 lits) (x ++ lits) := by
          have := Ext.trans h.1 i9 (Ext.trans i1.1 hx (append_ext' g _ lits))
          simpa using this
        refine ⟨?_, ?_, ?_, by simp [BufErr], by omega, by omega, ?_, ?_,
          ⟨x ++ lits, hx', Ext.pending h.1 hx', ?_, ?_⟩⟩
        · unfold Inv append at *
          simp only [List.length_append] at *
          rw [h8] at *
          simp only [List.length_drop] at *
          omega
        · simp [append]; omega
        · simp [append]; omega
        · intro _; simp only [List.length_nil]; omega
        · simp
        · simp only [append, List.length_append]
          rw [h8, List.length_drop]; omega
        · simp
    · simp only [wbFin]
      have hx' : Ext b (append g b1 lits) (x ++ lits) :=
        Ext.trans h.1 i9 (append_ext' g _ lits)
      refine ⟨?_, ?_, ?_, by simp [BufErr], by omega, by omega, ?_, ?_,
        ⟨x ++ lits, hx', Ext.pending h.1 hx', ?_, ?_⟩⟩
      · unfold Inv append at *
        simp only [List.length_append] at *
        omega
      · simp [append]; omega
      · simp [append]; omega
      · intro _; simp only [List.length_nil]; omega
      · simp
      · simp only [append, List.length_append]; omega
      · simp
end DecBuf

open DecBuf

/-- errors that stem from the destination writer -/
def WErr (e : Err) : Prop := e = .shortWrite ∨ ∃ c, e = .writer c

theorem hangErr_not_BufErr {e : Err} (h : BufErr e) : e ≠ hangErr := by
  unfold BufErr at h; unfold hangErr
  rcases h with h | h | h | h | h <;> simp [h]

theorem hangErr_not_WErr {e : Err} (h : WErr e) : e ≠ hangErr := by
  unfold WErr at h; unfold hangErr
  rcases h with h | ⟨c, h⟩ <;> simp [h]

/-- `used` are the scripted responses consumed between two writer states; every error code
    among them is the error `e` that the operation returned -/
def Surfaced (rs rs' : List (Nat × Nat)) (e : Err) : Prop :=
  ∃ used, rs = used ++ rs' ∧ ∀ r ∈ used, r.2 ≠ 0 → e = .writer r.2

theorem Surfaced.refl (rs : List (Nat × Nat)) (e : Err) : Surfaced rs rs e :=
  ⟨[], by simp, by simp⟩

theorem Surfaced.trans {rs rs' rs'' : List (Nat × Nat)} {e : Err}
    (h1 : Surfaced rs rs' .ok) (h2 : Surfaced rs' rs'' e) : Surfaced rs rs'' e := by
  obtain ⟨u1, a1, b1⟩ := h1
  obtain ⟨u2, a2, b2⟩ := h2
  refine ⟨u1 ++ u2, by rw [a1, a2, List.append_assoc], ?_⟩
  intro r hr hne
  rcases List.mem_append.mp hr with hr | hr
  · have := b1 r hr hne; simp at this
  · exact b2 r hr hne

namespace Decoder

/-- everything the decoder has taken responsibility for: what the writer accepted plus what is
    still waiting in the buffer -/
def log (d : Decoder) : List Byte := d.w.got ++ d.buf.pending

theorem writer_write_spec (w : Writer) (p : List Byte) :
    (w.write p).2.1 ≤ p.length ∧
    (w.write p).1.got = w.got ++ p.take (w.write p).2.1 ∧
    ((w.write p).2.2 = .ok ∨ ∃ c, (w.write p).2.2 = .writer c) ∧
    Surfaced w.resps (w.write p).1.resps (w.write p).2.2 ∧
    (w.write p).1.resps.length ≤ w.resps.length ∧
    (((w.write p).2.2 ≠ .ok ∨ (w.write p).2.1 < p.length) →
       (w.write p).1.resps.length < w.resps.length) := by
  unfold Writer.write
  split
  · rename_i hr
    simp [hr, Surfaced.refl]
  · rename_i mx e rest hr
    simp only [hr]
    refine ⟨Nat.min_le_right _ _, trivial, ?_, ⟨[(mx, e)], by simp, ?_⟩, by simp, by simp⟩
    · by_cases he : e = 0 <;> simp [he]
    · intro r hr hne
      simp at hr
      subst hr
      simp at hne
      simp [hne]

theorem writeTo_spec (d : Decoder) (h : Inv d.buf) :
    Inv d.writeTo.1.buf ∧ d.writeTo.1.buf.ws = d.buf.ws ∧ d.writeTo.1.buf.bs = d.buf.bs ∧
    d.writeTo.2.1 ≤ d.buf.pending.length ∧
    d.writeTo.1.buf.r = d.buf.r + d.writeTo.2.1 ∧
    d.writeTo.1.buf.data = d.buf.data ∧
    d.writeTo.1.w.got = d.w.got ++ d.buf.pending.take d.writeTo.2.1 ∧
    d.writeTo.1.buf.pending = d.buf.pending.drop d.writeTo.2.1 ∧
    (d.writeTo.2.2 = .ok ∨ WErr d.writeTo.2.2) ∧
    (d.writeTo.2.2 = .ok → d.writeTo.2.1 = d.buf.pending.length) ∧
    Surfaced d.w.resps d.writeTo.1.w.resps d.writeTo.2.2 ∧
    d.writeTo.1.w.resps.length ≤ d.w.resps.length ∧
    (d.writeTo.2.2 ≠ .ok → d.writeTo.1.w.resps.length < d.w.resps.length) := by
  obtain ⟨w1, w2, w3, w4, w5, w6⟩ := writer_write_spec d.w (d.buf.data.drop d.buf.r)
  unfold writeTo
  simp only [pending] at *
  generalize d.w.write (List.drop d.buf.r d.buf.data) = res at *
  obtain ⟨w', k, e⟩ := res
  simp only at *
  have hk : k ≤ d.buf.data.length - d.buf.r := by simpa using w1
  refine ⟨?_, trivial, trivial, w1, trivial, trivial, w2, ?_, ?_, ?_, ?_, w5, ?_⟩
  · unfold DecBuf.Inv at *; simp only; omega
  · rw [List.drop_drop]
  · by_cases hc : e = .ok ∧ k < (List.drop d.buf.r d.buf.data).length
    · simp only [hc, and_self, ↓reduceIte]; right; left; trivial
    · simp only [hc, ↓reduceIte]
      rcases w3 with w3 | ⟨c, w3⟩
      · exact Or.inl w3
      · exact Or.inr (Or.inr ⟨c, w3⟩)
  · intro he
    by_cases hc : e = .ok ∧ k < (List.drop d.buf.r d.buf.data).length
    · simp only [hc, and_self, ↓reduceIte] at he
      simp at he
    · simp only [hc, ↓reduceIte] at he
      simp only [he, true_and] at hc
      omega
  · by_cases hc : e = .ok ∧ k < (List.drop d.buf.r d.buf.data).length
    · simp only [hc, and_self, ↓reduceIte]
      obtain ⟨u, a, b⟩ := w4
      refine ⟨u, a, ?_⟩
      intro r hr hne
      have := b r hr hne
      simp [hc.1] at this
    · simp only [hc, ↓reduceIte]; exact w4
  · intro he
    by_cases hc : e = .ok ∧ k < (List.drop d.buf.r d.buf.data).length
    · exact w6 (Or.inr hc.2)
    · simp only [hc, ↓reduceIte] at he
      exact w6 (Or.inl he)

theorem writeTo_log (d : Decoder) (h : Inv d.buf) : d.writeTo.1.log = d.log := by
  obtain ⟨_, _, _, _, _, _, h7, h8, _⟩ := writeTo_spec d h
  unfold log
  rw [h7, h8, List.append_assoc, List.take_append_drop]


theorem unflushed_eq (d : Decoder) : d.unflushed = d.buf.pending.length := by
  simp [unflushed, pending]

theorem writeByte_spec (g : Grow) (d : Decoder) (c : Byte) (h : DecBuf.Inv d.buf) :
    DecBuf.Inv (d.writeByte g c).1.buf ∧ (d.writeByte g c).1.buf.ws = d.buf.ws ∧
    d.buf.bs ≤ (d.writeByte g c).1.buf.bs ∧
    ((d.writeByte g c).2 = .ok ∨ WErr (d.writeByte g c).2) ∧
    (d.writeByte g c).1.log = d.log ++ (if (d.writeByte g c).2 = .ok then [c] else []) ∧
    (∃ y, (d.writeByte g c).1.w.got = d.w.got ++ y) ∧
    Surfaced d.w.resps (d.writeByte g c).1.w.resps (d.writeByte g c).2 ∧
    ((d.writeByte g c).2 ≠ .ok → (d.writeByte g c).1.w.resps.length < d.w.resps.length) := by
  fun_induction Decoder.writeByte g d c with
  | case1 d b e hb d1 hne =>
    obtain ⟨s1, s2, s3, s4⟩ := DecBuf.writeByte_spec g d.buf c h
    rw [hb] at s1 s2 s3 s4
    simp only at s1 s2 s3 s4
    rcases s4 with ⟨e1, e2, e3⟩ | ⟨e1, _⟩
    · subst e1
      refine ⟨s1, s2, s3, Or.inl rfl, ?_, ⟨[], by simp [d1]⟩, Surfaced.refl _ _, by simp⟩
      simp [log, d1, e2]
    · exact absurd e1 hne
  | case2 d b e hb d1 hfull d2 k e2 hw hne =>
    obtain ⟨s1, s2, s3, s4⟩ := DecBuf.writeByte_spec g d.buf c h
    rw [hb] at s1 s2 s3 s4
    simp only at s1 s2 s3 s4
    have hfull : e = .full := by simpa using hfull
    subst hfull
    simp only [reduceCtorEq, false_and, true_and, false_or] at s4
    obtain ⟨e2', e3, e4⟩ := s4
    obtain ⟨t1, t2, t3, t4, t5, t6, t7, t8, t9, t10, t11, t12, t13⟩ := writeTo_spec d1 s1
    rw [hw] at t1 t2 t3 t4 t5 t6 t7 t8 t9 t10 t11 t12 t13
    simp only [d1] at t1 t2 t3 t4 t5 t6 t7 t8 t9 t10 t11 t12 t13
    have hlog := writeTo_log d1 s1
    rw [hw] at hlog
    simp only at hlog
    dsimp only
    refine ⟨t1, by omega, by omega, ?_, ?_, ⟨_, t7⟩, t11, t13⟩
    · rcases t9 with t9 | t9
      · exact absurd t9 hne
      · exact Or.inr t9
    · simp only [hne, ↓reduceIte, List.append_nil]
      rw [hlog]; simp [log, d1, e2']
  | case3 d b e hb d1 hfull d2 k e2 hw hok hprog ih =>
    obtain ⟨s1, s2, s3, s4⟩ := DecBuf.writeByte_spec g d.buf c h
    rw [hb] at s1 s2 s3 s4
    simp only at s1 s2 s3 s4
    have hfull : e = .full := by simpa using hfull
    subst hfull
    simp only [reduceCtorEq, false_and, true_and, false_or] at s4
    obtain ⟨e2', e3, e4⟩ := s4
    obtain ⟨t1, t2, t3, t4, t5, t6, t7, t8, t9, t10, t11, t12, t13⟩ := writeTo_spec d1 s1
    rw [hw] at t1 t2 t3 t4 t5 t6 t7 t8 t9 t10 t11 t12 t13
    simp only [d1] at t1 t2 t3 t4 t5 t6 t7 t8 t9 t10 t11 t12 t13
    have hlog := writeTo_log d1 s1
    rw [hw] at hlog
    simp only at hlog
    have hok : e2 = .ok := by simpa using hok
    subst hok
    obtain ⟨i1, i2, i3, i4, i5, ⟨y, i6⟩, i7, i8⟩ := ih t1
    refine ⟨i1, by omega, by omega, i4, ?_, ⟨_, by rw [i6, t7, List.append_assoc]⟩,
      Surfaced.trans t11 i7, fun hh => by have := i8 hh; omega⟩
    rw [i5, hlog]; simp [log, d1, e2']
  | case4 d b e hb d1 hfull d2 k e2 hw hok hprog =>
    exfalso
    obtain ⟨s1, s2, s3, s4⟩ := DecBuf.writeByte_spec g d.buf c h
    rw [hb] at s1 s2 s3 s4
    simp only at s1 s2 s3 s4
    have hfull : e = .full := by simpa using hfull
    subst hfull
    simp only [reduceCtorEq, false_and, true_and, false_or] at s4
    obtain ⟨e2', e3, e4⟩ := s4
    obtain ⟨t1, t2, t3, t4, t5, t6, t7, t8, t9, t10, t11, t12, t13⟩ := writeTo_spec d1 s1
    rw [hw] at t1 t2 t3 t4 t5 t6 t7 t8 t9 t10 t11 t12 t13
    simp only [d1] at t1 t2 t3 t4 t5 t6 t7 t8 t9 t10 t11 t12 t13
    have hok : e2 = .ok := by simpa using hok
    subst hok
    have hk := t10 rfl
    apply hprog
    rw [unflushed_eq, unflushed_eq, t8, List.length_drop, hk, e2']
    have : d.buf.pending.length ≠ 0 := by
      unfold pending; rw [List.length_drop]; unfold DecBuf.Inv at h; omega
    omega

end Decoder

theorem DecBuf.write_spec' (g : Grow) (b : DecBuf) (p : List Byte) (h : DecBuf.Inv b)
    {b' : DecBuf} {k : Nat} {e : Err} (hw : b.write g p = (b', k, e)) :
    DecBuf.Inv b' ∧ b'.ws = b.ws ∧ b.bs ≤ b'.bs ∧
    ((e = .ok ∧ k = p.length ∧ b'.pending = b.pending ++ p ∧ b'.off = b.off + p.length) ∨
     (e = .full ∧ k = 0 ∧ b'.pending = b.pending ∧ b'.off = b.off ∧
        ¬ (b.r = b.data.length ∧ p.length ≤ b.bs - b.ws))) := by
  have := DecBuf.write_spec g b p h
  rw [hw] at this
  exact this

namespace Decoder

theorem writeTo_spec' (d : Decoder) (h : DecBuf.Inv d.buf) {d2 : Decoder} {k : Nat} {e : Err}
    (hw : d.writeTo = (d2, k, e)) :
    DecBuf.Inv d2.buf ∧ d2.buf.ws = d.buf.ws ∧ d2.buf.bs = d.buf.bs ∧
    k ≤ d.buf.pending.length ∧
    d2.buf.r = d.buf.r + k ∧
    d2.buf.data = d.buf.data ∧
    d2.w.got = d.w.got ++ d.buf.pending.take k ∧
    d2.buf.pending = d.buf.pending.drop k ∧
    (e = .ok ∨ WErr e) ∧
    (e = .ok → k = d.buf.pending.length) ∧
    Surfaced d.w.resps d2.w.resps e ∧
    d2.w.resps.length ≤ d.w.resps.length ∧
    (e ≠ .ok → d2.w.resps.length < d.w.resps.length) ∧
    d2.log = d.log := by
  have := writeTo_spec d h
  have hl := writeTo_log d h
  rw [hw] at this hl
  exact ⟨this.1, this.2.1, this.2.2.1, this.2.2.2.1, this.2.2.2.2.1, this.2.2.2.2.2.1,
    this.2.2.2.2.2.2.1, this.2.2.2.2.2.2.2.1, this.2.2.2.2.2.2.2.2.1, this.2.2.2.2.2.2.2.2.2.1,
    this.2.2.2.2.2.2.2.2.2.2.1, this.2.2.2.2.2.2.2.2.2.2.2.1, this.2.2.2.2.2.2.2.2.2.2.2.2, hl⟩

/-- postcondition of `Decoder.Write` -/
theorem write_spec (g : Grow) (d : Decoder) (p : List Byte) (acc : Nat) (h : DecBuf.Inv d.buf) :
    DecBuf.Inv (d.write g p acc).1.buf ∧ (d.write g p acc).1.buf.ws = d.buf.ws ∧
    d.buf.bs ≤ (d.write g p acc).1.buf.bs ∧
    ((d.write g p acc).2.2 = .ok ∨ WErr (d.write g p acc).2.2) ∧
    (∃ n, (d.write g p acc).2.1 = acc + n ∧ n ≤ p.length ∧
        (d.write g p acc).1.log = d.log ++ p.take n ∧
        ((d.write g p acc).2.2 = .ok → n = p.length)) ∧
    (∃ y, (d.write g p acc).1.w.got = d.w.got ++ y) ∧
    Surfaced d.w.resps (d.write g p acc).1.w.resps (d.write g p acc).2.2 ∧
    ((d.write g p acc).2.2 ≠ .ok → (d.write g p acc).1.w.resps.length < d.w.resps.length) := by
  fun_induction Decoder.write g d p acc with
  | case1 d p acc hp =>
    refine ⟨h, rfl, Nat.le_refl _, Or.inl rfl, ⟨0, by simp; omega⟩, ⟨[], by simp⟩, Surfaced.refl _ _, by simp⟩
  | case2 d p acc hp m q b k d1 hk hb ih =>
    obtain ⟨s1, s2, s3, s4⟩ := DecBuf.write_spec' g d.buf q h hb
    simp only [true_and, reduceCtorEq, false_and, or_false] at s4
    obtain ⟨e1, e2, e3⟩ := s4
    obtain ⟨i1, i2, i3, i4, ⟨n, i5, i6, i7, i8⟩, ⟨y, i9⟩, i10, i11⟩ := ih s1
    have hq0 : q = p.take (min m p.length) := by
      simp only [q]
      split
      · rw [Nat.min_eq_left (by omega)]
      · rw [Nat.min_eq_right (by omega), List.take_length]
    have hq : q = p.take k := by
      rw [e1]; rw [hq0, List.length_take, Nat.min_eq_left (Nat.min_le_right _ _)]
    have i2' : _ = b.ws := i2
    have i3' : b.bs ≤ _ := i3
    refine ⟨i1, by omega, by omega, i4,
      ⟨k + n, by omega, by simp only [List.length_drop] at i6; omega, ?_, ?_⟩, ⟨y, i9⟩, i10, i11⟩
    · rw [i7]
      simp only [log, d1, e2, hq]
      rw [List.append_assoc, List.append_assoc, ← List.take_add, List.append_assoc]
    · intro he; have := i8 he; simp only [List.length_drop] at this; omega
  | case3 d p acc hp m q b k d1 hk hb =>
    exfalso
    obtain ⟨s1, s2, s3, s4⟩ := DecBuf.write_spec' g d.buf q h hb
    simp only [true_and, reduceCtorEq, false_and, or_false] at s4
    obtain ⟨e1, e2, e3⟩ := s4
    apply hk
    unfold DecBuf.Inv at h
    have hq0 : q = p.take (min m p.length) := by
      simp only [q]
      split
      · rw [Nat.min_eq_left (by omega)]
      · rw [Nat.min_eq_right (by omega), List.take_length]
    rw [hq0, List.length_take] at e1
    omega
  | case4 d p acc hp m q b k e hb d1 hne hnf =>
    exfalso
    obtain ⟨s1, s2, s3, s4⟩ := DecBuf.write_spec' g d.buf q h hb
    rcases s4 with ⟨e1, _⟩ | ⟨e1, _⟩
    · exact hne e1
    · exact hnf e1
  | case5 d p acc hp m q b k e hb d1 hne hfull d2 f e2 hw hne2 =>
    obtain ⟨s1, s2, s3, s4⟩ := DecBuf.write_spec' g d.buf q h hb
    have hfull : e = .full := by simpa using hfull
    subst hfull
    simp only [reduceCtorEq, false_and, true_and, false_or] at s4
    obtain ⟨e1, e2', e3, e4⟩ := s4
    obtain ⟨t1, t2, t3, t4, t5, t6, t7, t8, t9, t10, t11, t12, t13, t14⟩ := writeTo_spec' d1 s1 hw
    have t2' : _ = b.ws := t2
    have t3' : _ = b.bs := t3
    dsimp only
    refine ⟨t1, by omega, by omega, ?_, ⟨0, by omega, by omega, ?_, fun hh => absurd hh hne2⟩,
      ⟨_, t7⟩, t11, t13⟩
    · rcases t9 with t9 | t9
      · exact absurd t9 hne2
      · exact Or.inr t9
    · rw [t14]; simp [log, d1, e2']
  | case6 d p acc hp m q b k e hb d1 hne hfull d2 f e2 hw hok hprog ih =>
    obtain ⟨s1, s2, s3, s4⟩ := DecBuf.write_spec' g d.buf q h hb
    have hfull : e = .full := by simpa using hfull
    subst hfull
    simp only [reduceCtorEq, false_and, true_and, false_or] at s4
    obtain ⟨e1, e2', e3, e4⟩ := s4
    obtain ⟨t1, t2, t3, t4, t5, t6, t7, t8, t9, t10, t11, t12, t13, t14⟩ := writeTo_spec' d1 s1 hw
    have t2' : _ = b.ws := t2
    have t3' : _ = b.bs := t3
    have hok : e2 = .ok := by simpa using hok
    subst hok
    subst e1
    simp only [List.drop_zero, Nat.add_zero] at ih ⊢
    obtain ⟨i1, i2, i3, i4, ⟨n, i5, i6, i7, i8⟩, ⟨y, i9⟩, i10, i11⟩ := ih t1
    have t12' : _ ≤ d.w.resps.length := t12
    refine ⟨i1, by omega, by omega, i4, ⟨n, i5, i6, ?_, i8⟩, ⟨_, by rw [i9, t7, List.append_assoc]⟩,
      Surfaced.trans t11 i10, fun hh => by have := i11 hh; omega⟩
    rw [i7, t14]; simp [log, d1, e2']
  | case7 d p acc hp m q b k e hb d1 hne hfull d2 f e2 hw hok hprog =>
    exfalso
    obtain ⟨s1, s2, s3, s4⟩ := DecBuf.write_spec' g d.buf q h hb
    have hfull : e = .full := by simpa using hfull
    subst hfull
    simp only [reduceCtorEq, false_and, true_and, false_or] at s4
    obtain ⟨e1, e2', e3, e4⟩ := s4
    obtain ⟨t1, t2, t3, t4, t5, t6, t7, t8, t9, t10, t11, t12, t13, t14⟩ := writeTo_spec' d1 s1 hw
    have hok : e2 = .ok := by simpa using hok
    subst hok
    have hf := t10 rfl
    have hq0 : q.length ≤ m := by
      simp only [q]
      split
      · rw [List.length_take]; exact Nat.min_le_left _ _
      · omega
    have hpl : d.buf.pending.length ≠ 0 := by
      unfold pending; rw [List.length_drop]; unfold DecBuf.Inv at h
      intro h0
      apply e4
      exact ⟨by omega, hq0⟩
    apply hprog
    have t8' : d2.buf.pending = b.pending.drop f := t8
    have hf' : f = b.pending.length := hf
    rw [unflushed_eq, unflushed_eq, t8', List.length_drop, hf', e2']
    omega

end Decoder
/-! ## reference expansion: prefix independence and composition -/

theorem copyRef_prepend_d (pre : List Byte) (o : Nat) : ∀ (m : Nat) (out out' : List Byte),
    copyRef out o m = some out' → copyRef (pre ++ out) o m = some (pre ++ out') := by
  intro m
  induction m with
  | zero => intro out out' h; simp [copyRef] at h ⊢; exact h
  | succ m ih =>
    intro out out' h
    unfold copyRef at h ⊢
    split at h
    · rename_i hc
      have hc' : 0 < o ∧ o ≤ (pre ++ out).length := by simp; omega
      simp only [hc', and_self, ↓reduceDIte]
      have := ih _ _ h
      rw [← List.append_assoc] at this
      rw [← this]
      congr 3
      simp only [List.length_append]
      rw [List.getElem_append_right (by omega)]
      congr 1
      omega
    · simp at h

theorem copyRef_append (o : Nat) : ∀ (m : Nat) (out out' : List Byte),
    copyRef out o m = some out' → ∃ x, out' = out ++ x ∧ x.length = m := by
  intro m
  induction m with
  | zero => intro out out' h; simp [copyRef] at h; exact ⟨[], by simp [h]⟩
  | succ m ih =>
    intro out out' h
    unfold copyRef at h
    split at h
    · rename_i hc
      obtain ⟨x, hx, hl⟩ := ih _ _ h
      exact ⟨out[out.length - o]'(by omega) :: x, by rw [hx]; simp, by simp [hl]⟩
    · simp at h

theorem expandSeqs_prepend_d (pre : List Byte) : ∀ (ss : List Seq) (out lits out' rest : List Byte),
    expandSeqs out lits ss = some (out', rest) →
    expandSeqs (pre ++ out) lits ss = some (pre ++ out', rest) := by
  intro ss
  induction ss with
  | nil => intro out lits out' rest h; simp [expandSeqs] at h ⊢; simp [h]
  | cons s ss ih =>
    intro out lits out' rest h
    unfold expandSeqs at h ⊢
    split at h
    · rename_i hl
      simp only [hl, ↓reduceIte]
      split at h
      · rename_i o1 hc
        have := copyRef_prepend_d pre s.offset _ _ _ hc
        rw [← List.append_assoc] at this
        simp only [this]
        exact ih _ _ _ _ h
      · simp at h
    · simp at h

theorem expandSeqs_suffix : ∀ (ss : List Seq) (out lits out' rest : List Byte),
    expandSeqs out lits ss = some (out', rest) →
    (∃ x, out' = out ++ x) ∧ ∃ t, t ≤ lits.length ∧ rest = lits.drop t := by
  intro ss
  induction ss with
  | nil =>
    intro out lits out' rest h
    simp [expandSeqs] at h
    exact ⟨⟨[], by simp [h.1]⟩, 0, by simp, by simp [h.2]⟩
  | cons s ss ih =>
    intro out lits out' rest h
    unfold expandSeqs at h
    split at h
    · rename_i hl
      split at h
      · rename_i o1 hc
        obtain ⟨x, hx, _⟩ := copyRef_append _ _ _ _ hc
        obtain ⟨⟨y, hy⟩, t, ht, hr⟩ := ih _ _ _ _ h
        refine ⟨⟨lits.take s.litLen ++ x ++ y, by rw [hy, hx]; simp⟩, s.litLen + t, ?_, ?_⟩
        · simp only [List.length_drop] at ht; omega
        · rw [hr, List.drop_drop]
      · simp at h
    · simp at h

theorem expandSeqs_append : ∀ (a b : List Seq) (out lits : List Byte),
    expandSeqs out lits (a ++ b) =
      match expandSeqs out lits a with
      | some (o, r) => expandSeqs o r b
      | none => none := by
  intro a
  induction a with
  | nil => intro b out lits; simp [expandSeqs]
  | cons s a ih =>
    intro b out lits
    simp only [List.cons_append]
    rw [expandSeqs.eq_2, expandSeqs.eq_2]
    split
    · split
      · exact ih _ _ _
      · rfl
    · rfl


/-- `out` is the reference expansion (`expandSeqs`) over the history `hist` of the first `k`
    sequences of the block `(seqs, lits)`, followed by `t` further literal bytes such that `l`
    literal bytes are consumed in total; literals beyond those of the `k` sequences are only
    allowed once all sequences are done (they are then the trailing literals of the block). -/
def Expands (hist lits : List Byte) (seqs : List Seq) (k l : Nat) (out : List Byte) : Prop :=
  k ≤ seqs.length ∧ ∃ out1 rest t, expandSeqs hist lits (seqs.take k) = some (out1, rest) ∧
    l = (lits.length - rest.length) + t ∧ t ≤ rest.length ∧ (t = 0 ∨ k = seqs.length) ∧
    out = out1 ++ rest.take t

theorem Expands.zero (hist lits : List Byte) (seqs : List Seq) : Expands hist lits seqs 0 0 hist :=
  ⟨Nat.zero_le _, hist, lits, 0, by simp [expandSeqs], by simp, by simp, Or.inl rfl, by simp⟩

/-- all sequences and all literals: the expansion of the whole block -/
theorem Expands.full {hist lits : List Byte} {seqs : List Seq} {out : List Byte}
    (h : Expands hist lits seqs seqs.length lits.length out) : expand hist ⟨seqs, lits⟩ = some out := by
  obtain ⟨_, out1, rest, t, h1, h2, h3, _, h5⟩ := h
  rw [List.take_length] at h1
  obtain ⟨_, t0, ht0, hr⟩ := expandSeqs_suffix _ _ _ _ _ h1
  have : t = rest.length := by rw [hr, List.length_drop] at h2 ⊢; omega
  unfold expand
  simp only [h1, h5, this, List.take_length]

theorem Expands.length_le {hist lits : List Byte} {seqs : List Seq} {k l : Nat} {out : List Byte}
    (h : Expands hist lits seqs k l out) : l ≤ lits.length := by
  obtain ⟨_, out1, rest, t, h1, h2, h3, _, h5⟩ := h
  obtain ⟨_, t0, ht0, hr⟩ := expandSeqs_suffix _ _ _ _ _ h1
  rw [hr, List.length_drop] at h2 h3; omega

/-- resuming with the unconsumed remainder `(seqs.drop k₁, lits.drop l₁)` continues the same
    expansion: nothing is lost, nothing is duplicated -/
theorem Expands.trans {hist lits mid out : List Byte} {seqs : List Seq} {k1 l1 k2 l2 : Nat}
    (h1 : Expands hist lits seqs k1 l1 mid)
    (h2 : Expands mid (lits.drop l1) (seqs.drop k1) k2 l2 out) :
    Expands hist lits seqs (k1 + k2) (l1 + l2) out := by
  obtain ⟨a0, o1, r1, t1, a1, a2, a3, a4, a5⟩ := h1
  obtain ⟨c0, o2, r2, t2, c1, c2, c3, c4, c5⟩ := h2
  obtain ⟨_, u1, hu1, hr1⟩ := expandSeqs_suffix _ _ _ _ _ a1
  obtain ⟨_, u2, hu2, hr2⟩ := expandSeqs_suffix _ _ _ _ _ c1
  have hr1l : r1.length = lits.length - u1 := by rw [hr1, List.length_drop]
  have hl1 : l1 = u1 + t1 := by omega
  have hdrop : lits.drop l1 = r1.drop t1 := by rw [hr1, List.drop_drop, hl1]
  simp only [List.length_drop] at c0 hu2
  refine ⟨by omega, ?_⟩
  rcases a4 with a4 | a4
  · -- no trailing literals were consumed in the first part
    subst a4
    simp only [List.take_zero, List.append_nil, Nat.add_zero, List.drop_zero] at a5 hdrop hl1
    subst a5
    rw [hdrop] at c1 hr2 c2
    refine ⟨o2, r2, t2, ?_, ?_, c3, ?_, c5⟩
    · rw [List.take_add, expandSeqs_append, a1]; exact c1
    · rw [hr2, List.length_drop] at c2 ⊢
      omega
    · rcases c4 with c4 | c4
      · exact Or.inl c4
      · right; rw [List.length_drop] at c4; omega
  · -- all sequences were done in the first part
    have hk2 : k2 = 0 := by omega
    subst hk2
    simp only [List.take_zero, expandSeqs, Option.some.injEq, Prod.mk.injEq] at c1
    obtain ⟨c1a, c1b⟩ := c1
    subst c1a
    refine ⟨o1, r1, t1 + t2, by simpa using a1, ?_, ?_, Or.inr (by omega), ?_⟩
    · rw [← c1b, hdrop, List.length_drop] at c2; rw [← c1b, hdrop, List.length_drop] at c3; omega
    · rw [← c1b, hdrop, List.length_drop] at c3; omega
    · rw [c5, a5, ← c1b, hdrop, List.take_add, List.append_assoc]

open DecBuf
namespace Decoder

/-- the buffer content up to `R` is the tail of what the writer has received, i.e. the window
    `Data` is a suffix of the stream `log` -/
def Hist (d : Decoder) : Prop := ∃ pre, d.w.got = pre ++ d.buf.data.take d.buf.r

theorem Hist.log {d : Decoder} (h : Hist d) :
    ∃ pre, d.log = pre ++ d.buf.data := by
  obtain ⟨pre, hp⟩ := h
  exact ⟨pre, by rw [Decoder.log, hp, DecBuf.pending, List.append_assoc, List.take_append_drop]⟩

theorem Hist.ext {d : Decoder} {b' : DecBuf} {x : List Byte} (hr : d.buf.r ≤ d.buf.data.length)
    (he : Ext d.buf b' x) (h : Hist d) : Hist { buf := b', w := d.w } := by
  obtain ⟨pre, hp⟩ := h
  obtain ⟨pre', h1, _⟩ := Ext.hist hr he hp
  exact ⟨pre', h1⟩

theorem Hist.writeTo {d : Decoder} (hi : DecBuf.Inv d.buf) (h : Hist d) : Hist d.writeTo.1 := by
  obtain ⟨pre, hp⟩ := h
  obtain ⟨t1, t2, t3, t4, t5, t6, t7, t8, _⟩ := writeTo_spec d hi
  refine ⟨pre, ?_⟩
  rw [t7, t5, t6, hp, List.take_add, List.append_assoc]
  rfl

theorem writeByte_hist (g : Grow) (d : Decoder) (c : Byte) (h : DecBuf.Inv d.buf) (hh : Hist d) :
    Hist (d.writeByte g c).1 := by
  fun_induction Decoder.writeByte g d c with
  | case1 d b e hb d1 hne =>
    have := writeByte_ext g d.buf c h
    rw [hb] at this
    exact Hist.ext h.1 this hh
  | case2 d b e hb d1 hfull d2 k e2 hw hne =>
    have he := writeByte_ext g d.buf c h
    have hi := (DecBuf.writeByte_spec g d.buf c h).1
    rw [hb] at he hi
    have := Hist.writeTo (d := d1) hi (Hist.ext h.1 he hh)
    rw [hw] at this
    exact this
  | case3 d b e hb d1 hfull d2 k e2 hw hok hprog ih =>
    have he := writeByte_ext g d.buf c h
    have hi := (DecBuf.writeByte_spec g d.buf c h).1
    rw [hb] at he hi
    have := Hist.writeTo (d := d1) hi (Hist.ext h.1 he hh)
    have hi2 := (writeTo_spec d1 hi).1
    rw [hw] at this hi2
    exact ih hi2 this
  | case4 d b e hb d1 hfull d2 k e2 hw hok hprog =>
    have he := writeByte_ext g d.buf c h
    have hi := (DecBuf.writeByte_spec g d.buf c h).1
    rw [hb] at he hi
    have := Hist.writeTo (d := d1) hi (Hist.ext h.1 he hh)
    rw [hw] at this
    exact this

theorem write_hist (g : Grow) (d : Decoder) (p : List Byte) (acc : Nat) (h : DecBuf.Inv d.buf)
    (hh : Hist d) : Hist (d.write g p acc).1 := by
  fun_induction Decoder.write g d p acc with
  | case1 d p acc hp => exact hh
  | case2 d p acc hp m q b k d1 hk hb ih =>
    have he := write_ext g d.buf q h
    have hi := (DecBuf.write_spec g d.buf q h).1
    rw [hb] at he hi
    exact ih hi (Hist.ext h.1 he hh)
  | case3 d p acc hp m q b k d1 hk hb =>
    have he := write_ext g d.buf q h
    rw [hb] at he
    exact Hist.ext h.1 he hh
  | case4 d p acc hp m q b k e hb d1 hne hnf =>
    have he := write_ext g d.buf q h
    rw [hb] at he
    exact Hist.ext h.1 he hh
  | case5 d p acc hp m q b k e hb d1 hne hfull d2 f e2 hw hne2 =>
    have he := write_ext g d.buf q h
    have hi := (DecBuf.write_spec g d.buf q h).1
    rw [hb] at he hi
    have := Hist.writeTo (d := d1) hi (Hist.ext h.1 he hh)
    rw [hw] at this
    exact this
  | case6 d p acc hp m q b k e hb d1 hne hfull d2 f e2 hw hok hprog ih =>
    have he := write_ext g d.buf q h
    have hi := (DecBuf.write_spec g d.buf q h).1
    rw [hb] at he hi
    have := Hist.writeTo (d := d1) hi (Hist.ext h.1 he hh)
    have hi2 := (writeTo_spec d1 hi).1
    rw [hw] at this hi2
    exact ih hi2 this
  | case7 d p acc hp m q b k e hb d1 hne hfull d2 f e2 hw hok hprog =>
    have he := write_ext g d.buf q h
    have hi := (DecBuf.write_spec g d.buf q h).1
    rw [hb] at he hi
    have := Hist.writeTo (d := d1) hi (Hist.ext h.1 he hh)
    rw [hw] at this
    exact this
end Decoder

namespace Decoder

theorem writeBlock_eq (g : Grow) (d : Decoder) (seqs : List Seq) (lits : List Byte) (n : Int) (k l : Nat) :
    d.writeBlock g seqs lits n k l =
      let R := d.buf.writeBlock g ⟨seqs, lits⟩
      let d1 : Decoder := { buf := R.1, w := d.w }
      if R.2.2.2.2 ≠ .full then (d1, n + R.2.1, k + R.2.2.1, l + R.2.2.2.1, R.2.2.2.2)
      else if (seqs.drop R.2.2.1).length = 0 then
        let W := d1.write g (lits.drop R.2.2.2.1) 0
        (W.1, n + R.2.1 + W.2.1, k + R.2.2.1, l + R.2.2.2.1 + W.2.1, W.2.2)
      else
        let F := d1.writeTo
        if F.2.2 ≠ .ok then (F.1, n + R.2.1, k + R.2.2.1, l + R.2.2.2.1, F.2.2)
        else if R.2.2.1 > 0 ∨ (F.2.1 > 0 ∧ F.1.unflushed < d.unflushed) then
          writeBlock g F.1 (seqs.drop R.2.2.1) (lits.drop R.2.2.2.1) (n + R.2.1) (k + R.2.2.1) (l + R.2.2.2.1)
        else (F.1, n + R.2.1, k + R.2.2.1, l + R.2.2.2.1, hangErr) := by
  rw [writeBlock]
  generalize d.buf.writeBlock g ⟨seqs, lits⟩ = R
  obtain ⟨b, nn, kk, ll, e⟩ := R
  simp only
  split
  · rfl
  · split
    · rfl
    · generalize ({ buf := b, w := d.w } : Decoder).writeTo = F
      obtain ⟨d2, f, e2⟩ := F
      simp only
      split
      · rfl
      · split
        · rename_i hk; simp [hk]
        · rename_i hk
          split
          · rename_i hf; simp [hk, hf]
          · rename_i hf; simp [hk, hf]
end Decoder

theorem BufErr.not_WErr {e : Err} (h : BufErr e) : ¬ WErr e := by
  unfold BufErr at h; unfold WErr
  rcases h with h | h | h | h | h <;> simp [h]

/-- hypothesis `hWB` (content of `DecoderBuffer.WriteBlock`): the bytes `x` that a call appends to
    the buffer are the reference expansion, over the window `b.data`, of the `k` sequences and `l`
    literal bytes the call reports. -/
def WBSpec (g : Grow) : Prop :=
  ∀ (b : DecBuf) (blk : Block) (x : List Byte), DecBuf.Inv b → Ext b (b.writeBlock g blk).1 x →
    Expands b.data blk.lits blk.seqs (b.writeBlock g blk).2.2.1 (b.writeBlock g blk).2.2.2.1 (b.data ++ x)

theorem Expands.prefix {hist lits out : List Byte} {seqs : List Seq} {k l : Nat} (pre : List Byte)
    (h : Expands hist lits seqs k l out) : Expands (pre ++ hist) lits seqs k l (pre ++ out) := by
  obtain ⟨a0, o1, r1, t1, a1, a2, a3, a4, a5⟩ := h
  exact ⟨a0, pre ++ o1, r1, t1, expandSeqs_prepend_d pre _ _ _ _ _ a1, a2, a3, a4,
    by rw [a5, List.append_assoc]⟩

theorem Expands.lits_only (mid lits : List Byte) (m : Nat) (h : m ≤ lits.length) :
    Expands mid lits [] 0 m (mid ++ lits.take m) :=
  ⟨Nat.le_refl _, mid, lits, m, by simp [expandSeqs], by simp, h, Or.inr rfl, rfl⟩

theorem WErr.ne_ok {e : Err} (h : WErr e) : e ≠ .ok := by
  unfold WErr at h
  rcases h with h | ⟨c, h⟩ <;> simp [h]

theorem Surfaced.length_le {rs rs' : List (Nat × Nat)} {e : Err} (h : Surfaced rs rs' e) :
    rs'.length ≤ rs.length := by
  obtain ⟨u, hu, _⟩ := h
  rw [hu, List.length_append]; omega

namespace Decoder

/-- postcondition of `Decoder.WriteBlock` (result `R`, accumulators `n k l`) -/
def WBPost (g : Grow) (d : Decoder) (seqs : List Seq) (lits : List Byte) (n : Int) (k l : Nat)
    (R : Decoder × Int × Nat × Nat × Err) : Prop :=
  DecBuf.Inv R.1.buf ∧ R.1.buf.ws = d.buf.ws ∧ d.buf.bs ≤ R.1.buf.bs ∧
  (BufErr R.2.2.2.2 ∨ WErr R.2.2.2.2) ∧
  (∃ y, R.1.w.got = d.w.got ++ y) ∧
  Surfaced d.w.resps R.1.w.resps R.2.2.2.2 ∧
  (WErr R.2.2.2.2 → R.1.w.resps.length < d.w.resps.length) ∧
  R.1.w.resps.length ≤ d.w.resps.length ∧
  (Hist d → Hist R.1) ∧
  ∃ kk ll z, R.2.2.1 = k + kk ∧ R.2.2.2.1 = l + ll ∧ R.2.1 = n + (z.length : Int) ∧
    kk ≤ seqs.length ∧ ll ≤ lits.length ∧
    (R.2.2.2.2 = .ok → kk = seqs.length ∧ ll = lits.length) ∧
    R.1.log = d.log ++ z ∧
    (WBSpec g → Hist d → Expands d.log lits seqs kk ll (d.log ++ z))

theorem writeBlock_post (g : Grow) : ∀ (N M : Nat) (d : Decoder) (seqs : List Seq) (lits : List Byte)
    (n : Int) (k l : Nat), seqs.length = N → d.unflushed = M → DecBuf.Inv d.buf →
    WBPost g d seqs lits n k l (d.writeBlock g seqs lits n k l) := by
  intro N
  induction N using Nat.strongRecOn with
  | ind N ihN =>
  intro M
  induction M using Nat.strongRecOn with
  | ind M ihM =>
  intro d seqs lits n k l hN hM h
  rw [writeBlock_eq]
  obtain ⟨s1, s2, s3, s4, s5, s6, s7, s8, ⟨x, sx, s9, s10, s11⟩⟩ :=
    DecBuf.wbuf_post g d.buf ⟨seqs, lits⟩ h
  generalize hR : d.buf.writeBlock g ⟨seqs, lits⟩ = R0 at *
  obtain ⟨b, nn, kk, ll, e⟩ := R0
  simp only at s1 s2 s3 s4 s5 s6 s7 s8 sx s9 s10 s11 ⊢
  have hlog1 : ({ buf := b, w := d.w } : Decoder).log = d.log ++ x := by
    simp [log, s9]
  have hexp : WBSpec g → Hist d → Expands d.log lits seqs kk ll (d.log ++ x) := by
    intro hwb hh
    obtain ⟨pre, hp⟩ := Hist.log hh
    have := hwb d.buf ⟨seqs, lits⟩ x h (by rw [hR]; exact sx)
    rw [hR] at this
    rw [hp, List.append_assoc]
    exact Expands.prefix pre this
  split
  · -- the buffer reported something different from "full"
    rename_i hne
    refine ⟨s1, s2, s3, Or.inl s4, ⟨[], by simp⟩, Surfaced.refl _ _, fun hw => absurd hw (BufErr.not_WErr s4),
      Nat.le_refl _, fun hh => Hist.ext h.1 sx hh, kk, ll, x, rfl, rfl, by rw [s10], s5, s6, s7, hlog1, hexp⟩
  · rename_i hfull
    have hfull : e = .full := by simpa using hfull
    subst hfull
    have hkl : kk ≤ seqs.length ∧ ll ≤ lits.length := ⟨s5, s6⟩
    split
    · -- only the trailing literals remain: `Decoder.Write` takes over
      rename_i hs
      obtain ⟨w1, w2, w3, w4, ⟨m, w5, w6, w7, w8⟩, ⟨y, w9⟩, w10, w11⟩ :=
        write_spec g { buf := b, w := d.w } (lits.drop ll) 0 s1
      have whist := write_hist g { buf := b, w := d.w } (lits.drop ll) 0 s1
      generalize write g { buf := b, w := d.w } (lits.drop ll) 0 = W at *
      obtain ⟨d2, mm, e2⟩ := W
      simp only at w1 w2 w3 w4 w5 w6 w7 w8 w9 w10 w11 whist ⊢
      have hkk : kk = seqs.length := by
        simp only [List.length_drop] at hs; omega
      simp only [List.length_drop] at w6 w8
      unfold WBPost
      dsimp only
      refine ⟨w1, by omega, by omega, ?_, ⟨y, w9⟩, w10, fun hw => w11 hw.ne_ok, w10.length_le,
        fun hh => whist (Hist.ext h.1 sx hh), kk, ll + m, x ++ (lits.drop ll).take m,
        rfl, by omega, ?_, s5, by omega, ?_, ?_, ?_⟩
      · rcases w4 with w4 | w4
        · exact Or.inl (Or.inl w4)
        · exact Or.inr w4
      · rw [s10, w5, List.length_append, List.length_take, List.length_drop,
          Nat.min_eq_left (by omega)]
        omega
      · intro he; have := w8 he; omega
      · rw [w7, hlog1, List.append_assoc]
      · intro hwb hh
        have e1 := hexp hwb hh
        have e2 : Expands (d.log ++ x) (lits.drop ll) (seqs.drop kk) 0 m
            (d.log ++ x ++ (lits.drop ll).take m) := by
          have : seqs.drop kk = [] := by
            apply List.eq_nil_of_length_eq_zero; exact hs
          rw [this]
          exact Expands.lits_only _ _ _ (by simp only [List.length_drop]; exact w6)
        have := Expands.trans e1 e2
        rwa [Nat.add_zero, List.append_assoc] at this
    · rename_i hs
      generalize hF : ({ buf := b, w := d.w } : Decoder).writeTo = F
      obtain ⟨d2, f, e2⟩ := F
      obtain ⟨t1, t2, t3, t4, t5, t6, t7, t8, t9, t10, t11, t12, t13, t14⟩ :=
        writeTo_spec' { buf := b, w := d.w } s1 hF
      have thist : Hist d → Hist d2 := by
        intro hh
        have := Hist.writeTo (d := { buf := b, w := d.w }) s1 (Hist.ext h.1 sx hh)
        rwa [hF] at this
      simp only at t2 t3 t4 t5 t6 t7 t8 t11 t12 t13 ⊢
      split
      · -- the writer failed
        rename_i hne2
        unfold WBPost
        dsimp only
        refine ⟨t1, by omega, by omega, ?_, ⟨_, t7⟩, t11, fun _ => t13 hne2, t12, thist, kk, ll, x,
          rfl, rfl, by rw [s10], s5, s6, fun he => absurd he hne2, by rw [t14, hlog1], hexp⟩
        rcases t9 with t9 | t9
        · exact absurd t9 hne2
        · exact Or.inr t9
      · rename_i hok
        have hok : e2 = .ok := by simpa using hok
        subst hok
        split
        · -- progress: retry with the rest of the block
          rename_i hprog
          have ih : WBPost g d2 (seqs.drop kk) (lits.drop ll) (n + nn) (k + kk) (l + ll)
              (d2.writeBlock g (seqs.drop kk) (lits.drop ll) (n + nn) (k + kk) (l + ll)) := by
            by_cases hk : kk > 0
            · refine ihN (seqs.drop kk).length ?_ d2.unflushed d2 _ _ _ _ _ rfl rfl t1
              simp only [List.length_drop] at hs ⊢; omega
            · have hk0 : kk = 0 := by omega
              subst hk0
              refine ihM d2.unflushed ?_ d2 _ _ _ _ _ (by simpa using hN) rfl t1
              simp only [hk, false_or] at hprog
              omega
          generalize d2.writeBlock g (seqs.drop kk) (lits.drop ll) (n + nn) (k + kk) (l + ll) = R at ih ⊢
          obtain ⟨i1, i2, i3, i4, ⟨y, i5⟩, i6, i7, i8, i9, kk2, ll2, z2, j1, j2, j3, j4, j5, j6, j7, j8⟩ := ih
          simp only [List.length_drop] at j4 j5 j6
          refine ⟨i1, by omega, by omega, i4, ⟨_, by rw [i5, t7, List.append_assoc]⟩,
            Surfaced.trans t11 i6, fun hw => by have := i7 hw; omega, by omega,
            fun hh => i9 (thist hh), kk + kk2, ll + ll2, x ++ z2, by omega, by omega, ?_,
            by omega, by omega, ?_, ?_, ?_⟩
          · rw [j3, s10, List.length_append]; omega
          · intro he; have := j6 he; omega
          · rw [j7, t14, hlog1, List.append_assoc]
          · intro hwb hh
            have e1 := hexp hwb hh
            have e2 := j8 hwb (thist hh)
            rw [t14, hlog1] at e2
            have := Expands.trans e1 e2
            rwa [List.append_assoc] at this
        · -- the branch in which the Go loop would spin: unreachable
          rename_i hprog
          exfalso
          apply hprog
          by_cases hk : kk > 0
          · exact Or.inl hk
          · right
            have hk0 : kk = 0 := by omega
            have hx : x = [] := s11 (by simp) hk0
            have hr : d.buf.r ≠ d.buf.data.length := by
              intro hr
              rcases s8 rfl hr with h1 | h1
              · omega
              · simp only [List.length_drop] at hs; omega
            have hf := t10 rfl
            rw [s9, hx, List.append_nil] at hf
            have hpl : d.buf.pending.length ≠ 0 := by
              unfold pending; rw [List.length_drop]; unfold DecBuf.Inv at h; omega
            rw [unflushed_eq, unflushed_eq, t8, List.length_drop, s9, hx, List.append_nil, hf]
            omega
end Decoder
theorem Expands.of_expand {hist lits out : List Byte} {seqs : List Seq}
    (h : expand hist ⟨seqs, lits⟩ = some out) : Expands hist lits seqs seqs.length lits.length out := by
  unfold expand at h
  dsimp only at h
  split at h
  · rename_i o r hes
    obtain ⟨_, t0, ht0, hr0⟩ := expandSeqs_suffix _ _ _ _ _ hes
    refine ⟨Nat.le_refl _, o, r, r.length, by rw [List.take_length]; exact hes, ?_, Nat.le_refl _,
      Or.inr rfl, ?_⟩
    · rw [hr0, List.length_drop]; omega
    · rw [List.take_length]; simpa using h.symm
  · simp at h

namespace Decoder

/-- the caller's retry protocol for `Write`: submit `p`; after a writer fault re-submit the
    unconsumed remainder `p[n:]`; when everything is accepted, `Flush` until it succeeds.
    `fuel` bounds the number of attempts. -/
def retryWrite (g : Grow) : Nat → Decoder → List Byte → Option Decoder
  | 0, _, _ => none
  | fuel + 1, d, p =>
    let r := d.write g p 0
    if r.2.2 ≠ .ok then retryWrite g fuel r.1 (p.drop r.2.1)
    else
      let f := r.1.flush
      if f.2 = .ok then some f.1 else retryWrite g fuel f.1 []

theorem retryWrite_spec (g : Grow) : ∀ (fuel : Nat) (d : Decoder) (p : List Byte),
    DecBuf.Inv d.buf → d.w.resps.length < fuel →
    ∃ d', retryWrite g fuel d p = some d' ∧ d'.w.got = d.log ++ p ∧ d'.buf.pending = [] ∧
      DecBuf.Inv d'.buf ∧ (Hist d → Hist d') := by
  intro fuel
  induction fuel with
  | zero => intro d p _ h; omega
  | succ fuel ih =>
    intro d p h hf
    obtain ⟨w1, w2, w3, w4, ⟨m, w5, w6, w7, w8⟩, ⟨y, w9⟩, w10, w11⟩ := write_spec g d p 0 h
    have whist := write_hist g d p 0 h
    rw [retryWrite]
    generalize d.write g p 0 = W at *
    obtain ⟨d1, n, e⟩ := W
    simp only at w1 w2 w3 w4 w5 w6 w7 w8 w9 w10 w11 whist ⊢
    have hn : n = m := by omega
    subst hn
    split
    · rename_i hne
      have := w11 hne
      obtain ⟨d', i1, i2, i3, i4, i5⟩ := ih d1 (p.drop n) w1 (by omega)
      refine ⟨d', i1, ?_, i3, i4, fun hh => i5 (whist hh)⟩
      rw [i2, w7, List.append_assoc, List.take_append_drop]
    · rename_i hok
      have hok : e = .ok := by simpa using hok
      have hm := w8 hok
      rw [hm, List.take_length] at w7
      obtain ⟨t1, t2, t3, t4, t5, t6, t7, t8, t9, t10, t11, t12, t13⟩ := writeTo_spec d1 w1
      have tlog := writeTo_log d1 w1
      have thist := Hist.writeTo (d := d1) w1
      unfold flush
      generalize d1.writeTo = F at *
      obtain ⟨d2, f, e2⟩ := F
      simp only at t1 t2 t3 t4 t5 t6 t7 t8 t9 t10 t11 t12 t13 tlog thist ⊢
      split
      · rename_i hok2
        have hf2 := t10 hok2
        refine ⟨d2, rfl, ?_, ?_, t1, fun hh => thist (whist hh)⟩
        · rw [t7, hf2, List.take_length, ← w7]; rfl
        · rw [t8, hf2, List.drop_length]
      · rename_i hne2
        have := t13 hne2
        have := w10.length_le
        obtain ⟨d', i1, i2, i3, i4, i5⟩ := ih d2 [] t1 (by omega)
        refine ⟨d', i1, ?_, i3, i4, fun hh => i5 (thist (whist hh))⟩
        rw [i2, tlog, w7, List.append_nil]

/-- errors caused by the destination writer (`io.ErrShortWrite` or the writer's own error) -/
def isWriterFault : Err → Bool
  | .shortWrite => true
  | .writer _ => true
  | _ => false

theorem isWriterFault_iff (e : Err) : isWriterFault e = true ↔ WErr e := by
  unfold WErr
  cases e <;> simp [isWriterFault]

/-- the caller's retry protocol for `WriteBlock`: after a writer fault re-submit the unconsumed
    remainder `(seqs[k:], lits[l:])`; after success `Flush` until it succeeds (`retryWrite … []`);
    any other error is fatal and returned.  `none` = out of fuel. -/
def retryBlock (g : Grow) : Nat → Decoder → List Seq → List Byte → Option (Decoder × Err)
  | 0, _, _, _ => none
  | fuel + 1, d, seqs, lits =>
    let r := d.writeBlock g seqs lits 0 0 0
    if r.2.2.2.2 = .ok then (retryWrite g (r.1.w.resps.length + 1) r.1 []).map (·, Err.ok)
    else if isWriterFault r.2.2.2.2 then
      retryBlock g fuel r.1 (seqs.drop r.2.2.1) (lits.drop r.2.2.2.1)
    else some (r.1, r.2.2.2.2)

/-- the protocol always finishes: with one unit of fuel per scripted writer response (plus one) it
    ends in success or with an error of the buffer (bad block), never out of fuel -/
theorem retryBlock_terminates (g : Grow) : ∀ (fuel : Nat) (d : Decoder) (seqs : List Seq)
    (lits : List Byte), DecBuf.Inv d.buf → d.w.resps.length < fuel →
    ∃ d' e, retryBlock g fuel d seqs lits = some (d', e) ∧ BufErr e := by
  intro fuel
  induction fuel with
  | zero => intro d seqs lits _ h; omega
  | succ fuel ih =>
    intro d seqs lits h hf
    rw [retryBlock]
    obtain ⟨p1, p2, p3, p4, ⟨y, p5⟩, p6, p7, p8, p9, _⟩ :=
      writeBlock_post g _ _ d seqs lits 0 0 0 rfl rfl h
    generalize d.writeBlock g seqs lits 0 0 0 = R at *
    obtain ⟨d1, n, k, l, e⟩ := R
    simp only at p1 p2 p3 p4 p5 p6 p7 p8 p9 ⊢
    split
    · obtain ⟨d'', i1, _⟩ := retryWrite_spec g (d1.w.resps.length + 1) d1 [] p1 (by omega)
      exact ⟨d'', .ok, by rw [i1]; rfl, Or.inl rfl⟩
    · split
      · rename_i hw
        have := p7 ((isWriterFault_iff e).mp hw)
        exact ih d1 _ _ p1 (by omega)
      · rename_i hw
        refine ⟨d1, e, rfl, ?_⟩
        rcases p4 with p4 | p4
        · exact p4
        · exact absurd ((isWriterFault_iff e).mpr p4) hw

theorem retryBlock_spec (g : Grow) (hwb : WBSpec g) : ∀ (fuel : Nat) (d : Decoder) (seqs : List Seq)
    (lits : List Byte) (d' : Decoder),
    DecBuf.Inv d.buf → Hist d → retryBlock g fuel d seqs lits = some (d', .ok) →
    expand d.log ⟨seqs, lits⟩ = some d'.w.got ∧ d'.buf.pending = [] ∧ DecBuf.Inv d'.buf ∧ Hist d' := by
  intro fuel
  induction fuel with
  | zero => intro d seqs lits d' _ _ h; simp [retryBlock] at h
  | succ fuel ih =>
    intro d seqs lits d' h hh hr
    rw [retryBlock] at hr
    obtain ⟨p1, p2, p3, p4, ⟨y, p5⟩, p6, p7, p8, p9, kk, ll, z, q1, q2, q3, q4, q5, q6, q7, q8⟩ :=
      writeBlock_post g _ _ d seqs lits 0 0 0 rfl rfl h
    generalize d.writeBlock g seqs lits 0 0 0 = R at *
    obtain ⟨d1, n, k, l, e⟩ := R
    simp only at p1 p2 p3 p4 p5 p6 p7 p8 p9 q1 q2 q3 q6 q7 hr
    simp only [Nat.zero_add] at q1 q2
    subst q1 q2
    have hexp := q8 hwb hh
    split at hr
    · rename_i hok
      obtain ⟨hk, hl⟩ := q6 hok
      subst hk hl
      obtain ⟨d'', i1, i2, i3, i4, i5⟩ := retryWrite_spec g (d1.w.resps.length + 1) d1 [] p1 (by omega)
      rw [i1] at hr
      have : d'' = d' := by simpa using hr
      subst this
      refine ⟨?_, i3, i4, i5 (p9 hh)⟩
      rw [i2, q7, List.append_nil]
      exact hexp.full
    · split at hr
      · rename_i hne hw
        obtain ⟨j1, j2, j3, j4⟩ := ih d1 _ _ d' p1 (p9 hh) hr
        refine ⟨?_, j2, j3, j4⟩
        -- the remainder expands `d1.log` to `d'.got`; compose with the first part
        have hsecond := Expands.of_expand j1
        rw [q7] at hsecond
        have htot := Expands.trans hexp hsecond
        simp only [List.length_drop] at htot
        have e1 : k + (seqs.length - k) = seqs.length := by omega
        have e2 : l + (lits.length - l) = lits.length := by omega
        rw [e1, e2] at htot
        exact htot.full
      · rename_i hne hw
        simp only [Option.some.injEq, Prod.mk.injEq] at hr
        exact absurd hr.2 hne

end Decoder

/-- number of chunks of size `m` needed for `L` bytes: `⌈L / m⌉` -/
def chunks (m L : Nat) : Nat := (L + (m - 1)) / m

theorem chunks_zero {m : Nat} (hm : 0 < m) : chunks m 0 = 0 := by
  unfold chunks; exact Nat.div_eq_of_lt (by omega)

theorem chunks_pos {m L : Nat} (hm : 0 < m) (hL : 0 < L) : 1 ≤ chunks m L := by
  unfold chunks; exact Nat.div_pos (by omega) hm

theorem chunks_mono {m L1 L2 : Nat} (h : L1 ≤ L2) : chunks m L1 ≤ chunks m L2 := by
  unfold chunks; exact Nat.div_le_div_right (by omega)

theorem chunks_step {m L k : Nat} (hm : 0 < m) (hk : m ≤ k) (hkL : k ≤ L) :
    chunks m (L - k) + 1 ≤ chunks m L := by
  unfold chunks
  rw [← Nat.add_div_right _ hm]
  exact Nat.div_le_div_right (by omega)

namespace Decoder

theorem writeTo_resps (d : Decoder) : d.w.resps.length ≤ d.writeTo.1.w.resps.length + 1 := by
  unfold writeTo Writer.write
  split <;> simp_all

/-- work bound for `Decoder.Write`: the number of scripted writer responses consumed (= writer
    calls) is at most `⌈len(p) / m₀⌉` for every `0 < m₀ ≤ BufferSize - WindowSize`; one less if the
    buffer was completely flushed at the start -/
theorem write_calls (g : Grow) (d : Decoder) (p : List Byte) (acc : Nat) (h : DecBuf.Inv d.buf) :
    ∀ m0, 0 < m0 → m0 ≤ d.buf.bs - d.buf.ws →
      d.w.resps.length - (d.write g p acc).1.w.resps.length ≤ chunks m0 p.length ∧
      (d.buf.r = d.buf.data.length → p ≠ [] →
        d.w.resps.length - (d.write g p acc).1.w.resps.length + 1 ≤ chunks m0 p.length) := by
  fun_induction Decoder.write g d p acc with
  | case1 d p acc hp =>
    intro m0 h0 hm
    exact ⟨by simp, fun _ hne => absurd (List.eq_nil_of_length_eq_zero hp) hne⟩
  | case2 d p acc hp m q b k d1 hk hb ih =>
    intro m0 h0 hm
    obtain ⟨s1, s2, s3, s4⟩ := DecBuf.write_spec' g d.buf q h hb
    simp only [true_and, reduceCtorEq, false_and, or_false] at s4
    obtain ⟨e1, e2, e3⟩ := s4
    have hq0 : q.length = min m p.length := by
      simp only [q]
      split
      · rw [List.length_take]
      · omega
    obtain ⟨i1, i2⟩ := ih s1 m0 h0 (by show m0 ≤ b.bs - b.ws; omega)
    have hdw : d1.w = d.w := rfl
    rw [hdw] at i1 i2
    simp only [List.length_drop] at i1 i2
    refine ⟨Nat.le_trans i1 (chunks_mono (by omega)), ?_⟩
    intro _ _
    by_cases hkm : m0 ≤ k
    · have := chunks_step h0 hkm hk.2
      omega
    · have hkL : k = p.length := by omega
      subst hkL
      rw [Nat.sub_self, chunks_zero h0] at i1
      have := chunks_pos h0 (show 0 < p.length by omega)
      omega
  | case3 d p acc hp m q b k d1 hk hb =>
    intro m0 h0 hm
    have := chunks_pos h0 (show 0 < p.length by omega)
    have hdw : d1.w = d.w := rfl
    simp only [hdw]
    omega
  | case4 d p acc hp m q b k e hb d1 hne hnf =>
    intro m0 h0 hm
    have := chunks_pos h0 (show 0 < p.length by omega)
    have hdw : d1.w = d.w := rfl
    simp only [hdw]
    omega
  | case5 d p acc hp m q b k e hb d1 hne hfull d2 f e2 hw hne2 =>
    intro m0 h0 hm
    obtain ⟨s1, s2, s3, s4⟩ := DecBuf.write_spec' g d.buf q h hb
    have hfull : e = .full := by simpa using hfull
    subst hfull
    simp only [reduceCtorEq, false_and, true_and, false_or] at s4
    obtain ⟨e1, e2', e3, e4⟩ := s4
    have hq0 : q.length ≤ m := by
      simp only [q]
      split
      · rw [List.length_take]; exact Nat.min_le_left _ _
      · omega
    have hr := writeTo_resps d1
    rw [hw] at hr
    have hdw : d1.w = d.w := rfl
    rw [hdw] at hr
    simp only at hr
    have := chunks_pos h0 (show 0 < p.length by omega)
    refine ⟨by simp only; omega, fun hr0 _ => absurd ⟨hr0, hq0⟩ e4⟩
  | case6 d p acc hp m q b k e hb d1 hne hfull d2 f e2 hw hok hprog ih =>
    intro m0 h0 hm
    obtain ⟨s1, s2, s3, s4⟩ := DecBuf.write_spec' g d.buf q h hb
    have hfull : e = .full := by simpa using hfull
    subst hfull
    simp only [reduceCtorEq, false_and, true_and, false_or] at s4
    obtain ⟨e1, e2', e3, e4⟩ := s4
    subst e1
    have hq0 : q.length ≤ m := by
      simp only [q]
      split
      · rw [List.length_take]; exact Nat.min_le_left _ _
      · omega
    obtain ⟨t1, t2, t3, t4, t5, t6, t7, t8, t9, t10, t11, t12, t13, t14⟩ := writeTo_spec' d1 s1 hw
    have hok : e2 = .ok := by simpa using hok
    have hf := t10 hok
    have hr := writeTo_resps d1
    rw [hw] at hr
    have hdw : d1.w = d.w := rfl
    rw [hdw] at hr
    simp only at hr
    simp only [List.drop_zero, Nat.add_zero] at ih ⊢
    have t2' : d2.buf.ws = b.ws := t2
    have t3' : d2.buf.bs = b.bs := t3
    obtain ⟨i1, i2⟩ := ih t1 m0 h0 (by omega)
    have hflushed : d2.buf.r = d2.buf.data.length := by
      have : d1.buf.pending.length = d1.buf.data.length - d1.buf.r := by
        unfold pending; rw [List.length_drop]
      have hinv := s1.1
      have h5 : d2.buf.r = d1.buf.r + f := t5
      have h6 : d2.buf.data = d1.buf.data := t6
      rw [h6]
      have hh : d1.buf.r ≤ d1.buf.data.length := hinv
      omega
    have hne : p ≠ [] := by intro h0'; rw [h0'] at hp; simp at hp
    have := i2 hflushed hne
    have := t11.length_le
    have hdw2 : d1.w.resps = d.w.resps := rfl
    rw [hdw2] at this
    refine ⟨by omega, fun hr0 _ => absurd ⟨hr0, hq0⟩ e4⟩
  | case7 d p acc hp m q b k e hb d1 hne hfull d2 f e2 hw hok hprog =>
    intro m0 h0 hm
    obtain ⟨s1, s2, s3, s4⟩ := DecBuf.write_spec' g d.buf q h hb
    have hfull : e = .full := by simpa using hfull
    subst hfull
    simp only [reduceCtorEq, false_and, true_and, false_or] at s4
    obtain ⟨e1, e2', e3, e4⟩ := s4
    have hq0 : q.length ≤ m := by
      simp only [q]
      split
      · rw [List.length_take]; exact Nat.min_le_left _ _
      · omega
    have hr := writeTo_resps d1
    rw [hw] at hr
    have hdw : d1.w = d.w := rfl
    rw [hdw] at hr
    simp only at hr
    have := chunks_pos h0 (show 0 < p.length by omega)
    refine ⟨by simp only; omega, fun hr0 _ => absurd ⟨hr0, hq0⟩ e4⟩

end Decoder

/-- a partial expansion is a prefix of the expansion of the whole block -/
theorem Expands.prefix_full {hist lits out full : List Byte} {seqs : List Seq} {k l : Nat}
    (h : Expands hist lits seqs k l out) (hf : expand hist ⟨seqs, lits⟩ = some full) :
    ∃ t, out ++ t = full := by
  obtain ⟨a0, o1, r1, t1, a1, a2, a3, a4, a5⟩ := h
  unfold expand at hf
  dsimp only at hf
  split at hf
  · rename_i o r hes
    have hfull : full = o ++ r := by simpa using hf.symm
    rw [← List.take_append_drop k seqs, expandSeqs_append, a1] at hes
    dsimp only at hes
    rcases a4 with a4 | a4
    · subst a4
      obtain ⟨⟨x, hx⟩, _⟩ := expandSeqs_suffix _ _ _ _ _ hes
      exact ⟨x ++ r, by rw [a5, hfull, hx]; simp⟩
    · subst a4
      rw [List.drop_length] at hes
      simp only [expandSeqs, Option.some.injEq, Prod.mk.injEq] at hes
      obtain ⟨h1, h2⟩ := hes
      subst h1 h2
      exact ⟨r1.drop t1, by rw [a5, hfull, List.append_assoc, List.take_append_drop]⟩
  · simp at hf

namespace DecBuf

theorem decCfg_ws_lt_bs {ws bs : Int} {w b : Nat} (h : decCfg ws bs = some (w, b)) : w < b := by
  unfold decCfg at h
  generalize (if ws = 0 then Facts.decDefWindowSize else ws) = ws' at h
  dsimp only at h
  generalize (if bs = 0 then Facts.decBufFactor * ws' else bs) = bs' at h
  split at h
  · simp only [Option.some.injEq, Prod.mk.injEq] at h
    obtain ⟨h1, h2⟩ := h
    omega
  · simp at h

theorem init_inv {ws bs : Int} {precap : Nat} {b : DecBuf} (h : init ws bs precap = some b) : Inv b := by
  unfold init at h
  split at h
  · simp at h
  · rename_i w b0 hc
    have := decCfg_ws_lt_bs hc
    simp only [Option.some.injEq] at h
    subst h
    unfold Inv
    simp only [List.length_nil]
    split <;> omega

theorem reset_inv {b : DecBuf} (h : Inv b) : Inv b.reset := by
  unfold Inv reset at *
  simp only [List.length_nil]
  split <;> omega

end DecBuf

namespace Decoder

/-- `Reset(w)` with a fresh writer (nothing received yet) establishes `Hist`, and `log = []` -/
theorem reset_hist (d : Decoder) (w : Writer) (hw : w.got = []) :
    Hist (d.reset w) ∧ (d.reset w).log = [] := by
  unfold Hist reset log pending DecBuf.reset
  simp [hw]

end Decoder
namespace DecBuf

theorem read_inv (b : DecBuf) (n : Nat) (h : Inv b) :
    Inv (b.read n).1 ∧ (b.read n).1.ws = b.ws ∧ (b.read n).1.bs = b.bs := by
  unfold read Inv at *
  dsimp only
  simp only [List.length_take, List.length_drop]
  refine ⟨?_, trivial, trivial⟩
  omega

theorem writeMatch_eq (g : Grow) (b : DecBuf) (m o : Nat) :
    b.writeMatch g m o =
      if o = 0 ∧ m > 0 then (b, 0, .offset)
      else if o > min b.data.length b.ws then (b, 0, .offset)
      else if m ≤ (b.makeRoom m).1.bs - (b.makeRoom m).1.data.length then
        ({ (copyMatch g (b.makeRoom m).1 m o) with off := (b.makeRoom m).1.off + m }, m, .ok)
      else if m > (b.makeRoom m).1.bs - (b.makeRoom m).1.ws then ((b.makeRoom m).1, 0, .matchLen)
      else ((b.makeRoom m).1, 0, .full) := by
  unfold writeMatch makeRoom
  by_cases h1 : o = 0 ∧ m > 0
  · simp only [h1, and_self, ↓reduceIte]
  by_cases h2 : o > min b.data.length b.ws
  · simp only [h1, h2, ↓reduceIte]
  simp only [h1, h2, ↓reduceIte]
  by_cases h3 : m > b.bs - b.data.length
  · simp only [h3, ↓reduceIte]
    by_cases h4 : m ≤ (b.shrink (m + b.data.length)).1.bs - (b.shrink (m + b.data.length)).1.data.length
    · simp [h4]
    · simp [h4]
  · simp only [h3, ↓reduceIte]
    have : m ≤ b.bs - b.data.length := by omega
    simp [this]

/-- `WriteMatch` keeps the invariant; on a flushed buffer it never reports `ErrFullBuffer`
    (a match that does not fit then is classified `errMatchLen`) -/
theorem writeMatch_inv (g : Grow) (b : DecBuf) (m o : Nat) (h : Inv b) :
    Inv (b.writeMatch g m o).1 ∧ (b.writeMatch g m o).1.ws = b.ws ∧
    b.bs ≤ (b.writeMatch g m o).1.bs ∧ BufErr (b.writeMatch g m o).2.2 ∧
    (b.r = b.data.length → (b.writeMatch g m o).2.2 ≠ .full) := by
  obtain ⟨r1, r2, r3, r4, r5, r6, r8, r7⟩ := makeRoom_spec b m h
  rw [writeMatch_eq]
  split
  · exact ⟨h, rfl, Nat.le_refl _, by simp [BufErr], by simp⟩
  split
  · exact ⟨h, rfl, Nat.le_refl _, by simp [BufErr], by simp⟩
  rename_i ho1 ho2
  split
  · rename_i hfit
    obtain ⟨x, c1, c2, c3, c4, c5, c6⟩ :=
      copyMatch_spec g (b.makeRoom m).1 m o (by omega) (by omega)
    refine ⟨?_, by simp only; omega, by simp only; omega, by simp [BufErr], by simp⟩
    unfold Inv at r1 ⊢
    simp only [c1, c3, c4, c5, List.length_append, c2]
    omega
  · rename_i hfit
    split
    · exact ⟨r1, r2, r3, by simp [BufErr], by simp⟩
    · rename_i hml
      refine ⟨r1, r2, r3, by simp [BufErr], fun hr => ?_⟩
      exact absurd (r7 hr hfit) hml

end DecBuf
end LZ

