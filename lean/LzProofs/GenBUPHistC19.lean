/-
  LzProofs.GenBUPHistC19 — property C19 (maximality of the emitted matches) about the TRANSLATION of the Go text of the
  bucket parser BUP (port of LzProofs/GenC19Hist.lean `C19_go_text_hp`, `C19_right_go_text_hp`).  No sorry, no axioms
  of its own.

  The model-level theorem is `C19_maximal_reachable_log` (LzProofs/C19Hist.lean): for every kind `k ≠ OSAP` — BUP
  included —, every accepted configuration and every history, every `.block` event of the ghost log satisfies
  `EventMax g.fed back BlockSize`; `back = true` (left-maximality) is allowed for BHP and BDHP only, so for BUP it is
  `back = false`: RIGHT-maximality w.r.t. the bytes fed.  It has no hypothesis besides `newParser k raw = some s0`.
  `gen_bup_history` (GenBUPHistRun) says that `ghostRunU` — computed from the Go calls and the Go results alone, the
  blocks read through `ofBlock` — is the model's ghost.  Hence:

    C19_go_text_bup        every event of the log of every history of translated calls `Write` / `ReadFrom` / `Parse` /
        `Reset` (no `Shrink`: not translated) satisfies `EventMax g.fed false BlockSize`: the block
        `(n, flags, ofBlock blk')` returned by the translated `Parse` at stream position `pos` saw a block prefix ending at
        `lim` (`pos + n ≤ lim ≤ pos + BlockSize`, `lim ≤ |fed|`, `lim = pos + n` without `NoTrailingLiterals`) and every
        match of it lies inside that prefix, has `1 ≤ Offset ≤` its stream position, and ends at `lim` or before a byte
        of the stream `fed` that differs from the byte `Offset` back (`SeqMaxStream`).
    C19_right_go_text_bup  the right clause spelled out without `EventMax` (`GenC19Hist.EventRightMax`).
  The statements mention the translated functions, `ghostRunU` / `ofBlock` and the predicates of C19Hist on streams of
  bytes; no `Parser`, `runOps`, `POp`.  Not transported (as for HP): the third clause of C19
  (`Parser.LongestNearest`; for BUP `C19_longest_nearest_reachable .BUP` — the candidates live in the bucket table of
  the model state).
-/
import LzProofs.GenC19Hist
import LzProofs.GenBUPHistRun

set_option linter.unusedSimpArgs false
set_option linter.unusedVariables false

namespace LZ.GenBUPHist
open LZ LZ.Gen LZ.GenBuf LZ.GenHash LZ.GenHPParse LZ.GenBUPParse LZ.GenProps
open LZ.GenHPHist (rfGo)
open LZ.GenC19Hist (EventRightMax eventMax_right)

/-- **C19 about the Go text of BUP** (right-maximality w.r.t. the bytes fed; `EventMax … false`) -/
theorem C19_go_text_bup (cfg : Gen.BUPConfig) (s0 : Gen.bucketParser)
    (hinit : bucketParser_init default cfg = Res.ok (s0, Gen.Err.ok))
    (extra : Nat) (grow : Nat → Nat → Nat) (fuel : Nat) (lcp : Slice → Slice → Int) (hlcp : LcpSpec lcp)
    (SO : SOFun) (hSO : ShiftSpec SO)
    (hfuel : s0.bucketDictionary.ParserBuffer.BufConfig.BufferSize.toNat + 3 ≤ fuel)
    (ops : List GOpU) (hwf : ∀ op ∈ ops, op.WF) :
    ∃ t rs, runU (rfGo extra) grow fuel lcp SO s0 ops = Res.ok (t, rs) ∧
      let g := ghostRunU Ghost.init ops rs
      LogAll (EventMax g.fed false s0.bucketDictionary.ParserBuffer.BufConfig.BlockSize.toNat) 0 g.log := by
  obtain ⟨p, t, rs, hp, h0, h1, -, -, h4, -⟩ := gen_bup_history cfg s0 hinit extra grow fuel lcp hlcp SO hSO hfuel ops hwf
  subst h0
  refine ⟨t, rs, h1, ?_⟩
  intro g
  have hg : g = (runOps (ofBUPs s0, Ghost.init) (ops.map GOpU.abs)).2 := h4
  rw [hg]
  exact C19_maximal_reachable_log .BUP (by decide) (ofBUP cfg) _ hp false (by simp) (ops.map GOpU.abs)

theorem C19_right_go_text_bup (cfg : Gen.BUPConfig) (s0 : Gen.bucketParser)
    (hinit : bucketParser_init default cfg = Res.ok (s0, Gen.Err.ok))
    (extra : Nat) (grow : Nat → Nat → Nat) (fuel : Nat) (lcp : Slice → Slice → Int) (hlcp : LcpSpec lcp)
    (SO : SOFun) (hSO : ShiftSpec SO)
    (hfuel : s0.bucketDictionary.ParserBuffer.BufConfig.BufferSize.toNat + 3 ≤ fuel)
    (ops : List GOpU) (hwf : ∀ op ∈ ops, op.WF) :
    ∃ t rs, runU (rfGo extra) grow fuel lcp SO s0 ops = Res.ok (t, rs) ∧
      let g := ghostRunU Ghost.init ops rs
      LogAll (EventRightMax g.fed s0.bucketDictionary.ParserBuffer.BufConfig.BlockSize.toNat) 0 g.log := by
  obtain ⟨t, rs, h1, h2⟩ := C19_go_text_bup cfg s0 hinit extra grow fuel lcp hlcp SO hSO hfuel ops hwf
  exact ⟨t, rs, h1, LogAll.mono (fun pos e he => eventMax_right he) _ _ h2⟩

end LZ.GenBUPHist

#print axioms LZ.GenBUPHist.C19_go_text_bup
#print axioms LZ.GenBUPHist.C19_right_go_text_bup
