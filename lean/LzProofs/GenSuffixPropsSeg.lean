/-
  LzProofs.GenSuffixPropsSeg — the translated code of suffix/segments.go
  (LzModel/Generated/CodeSuffixSegments.lean) equals the hand-written model (LzModel/Suffix.lean:
  `popLoop`, `scanFrom`, `scanLCP`, `segments`).

  The callback `f` of `scanLCP` / `Segments` is LOGGED by the translation (code_part4.go): the
  translated functions return the list of the calls `(m, sa[lo:hi])` in call order, the slice as a
  value.  The model returns `(m, lo, hi)`; `cbOf sa` maps a model callback to the logged pair.

  Stack: the Go slice has its top at the END, the model's list at the head:
  `stack.data = d.reverse`, model stack `d.map ofItem`.

  G01 gen_scanLCP   scanLCP = LZ.scanLCP (no panic, enough fuel) for non-negative `lcp` of length
                    ≤ MaxInt32, `len(lcp) ≤ cap(sa)`, `0 ≤ maxLen`
  G02 gen_segments  Segments = LZ.segments: both panics, the three early returns, the clamp of
                    maxLen, then scanLCP
-/
import LzModel.Generated.CodeSuffixSegments
import LzModel.Suffix
import LzProofs.GenSuffixPropsBase

set_option linter.unusedSimpArgs false
set_option linter.unusedVariables false

namespace LZ.GenSuffix
open LZ LZ.Gen LZ.GenBuf LZ.GenHash

abbrev GItem := suffix_scanLCP_item
abbrev Log := List (Int × GSlice Int32)

/-- a stack entry of the translation as the model's `Item` -/
def ofItem (it : GItem) : Item := ⟨it.n.toInt, it.j.toInt.toNat⟩

/-- the logged form of the model callback `(m, lo, hi)` = `f(m, sa[lo:hi])` -/
def cbOf (sa : GSlice Int32) (c : Callback) : Int × GSlice Int32 :=
  ((c.1 : Int), { arr := sa.arr.drop c.2.1, len := c.2.2 - c.2.1 })

/-! ## slice operations on the stack -/

theorem gappend_data {α : Type} (z : α) (g : Nat → Nat → Nat) (s : GSlice α) (h : GWF s) (x : α) :
    (GSlice.append z g s [x]).data = s.data ++ [x] ∧ GWF (GSlice.append z g s [x]) := by
  unfold GWF at h
  have hl : (s.arr.take s.len ++ [x]).length = s.len + 1 := by simp [List.length_take]; omega
  unfold GSlice.append GSlice.cap GSlice.data GWF
  simp only [List.length_singleton]
  by_cases hc : s.len + 1 ≤ s.arr.length
  · simp only [hc, if_true]
    exact ⟨List.take_left' hl, by simp; omega⟩
  · simp only [hc, if_false]
    exact ⟨List.take_left' hl, by simp; omega⟩

/-- the last element and the initial part of a non-empty stack -/
theorem glast {α : Type} (z : α) (s : GSlice α) (h : GWF s) (init : List α) (t0 : α) (hd : s.data = init ++ [t0]) :
    s.len = init.length + 1 ∧
    GSlice.index z s ((Int.ofNat s.len) - 1) = Res.ok t0 ∧
    ∃ s', GSlice.slice s 0 ((Int.ofNat s.len) - 1) = Res.ok s' ∧ s'.data = init ∧ GWF s' ∧ s'.len = init.length := by
  have hlen : s.len = init.length + 1 := by
    have := gdata_length h; rw [hd] at this; simp at this; omega
  unfold GWF at h
  refine ⟨hlen, ?_, ?_⟩
  · rw [gindex_ok z s _ init.length (by show (s.len : Int) - 1 = _; omega) (by omega)]
    have : s.data[init.length]? = some t0 := by rw [hd]; simp
    rw [gdata_getElem?] at this
    simp only [show init.length < s.len by omega, if_true] at this
    rw [this]; rfl
  · rw [gslice_ok s 0 _ 0 init.length rfl (by show (s.len : Int) - 1 = _; omega) (by omega) (by omega)]
    refine ⟨_, rfl, ?_, ?_, rfl⟩
    · simp only [GSlice.data, List.drop_zero, Nat.sub_zero]
      have : (s.arr.take s.len).take init.length = (init ++ [t0]).take init.length := by
        show s.data.take init.length = _; rw [hd]
      rw [List.take_take] at this
      simp [show min init.length s.len = init.length by omega] at this
      exact this
    · unfold GWF; simp; omega

/-! ## the inner loop (pop) -/

theorem i32_gt_iff (a b : Int32) : a > b ↔ a.toInt > b.toInt := by
  show b < a ↔ _; rw [i32_lt_iff]
theorem i32_ge_iff (a b : Int32) : a ≥ b ↔ a.toInt ≥ b.toInt := by
  show b ≤ a ↔ _; rw [i32_le_iff]

/-- a `bind` whose first computation succeeds with a value that satisfies `P` (the computation
    itself is taken from the goal by unification, it is never written down in the proofs) -/
theorem bind_ex {α β : Type} {e : Res α} {k : α → Res β} {Q : β → Prop} (P : α → Prop)
    (h1 : ∃ a, e = Res.ok a ∧ P a) (h2 : ∀ a, P a → ∃ r, k a = Res.ok r ∧ Q r) :
    ∃ r, Res.bind e k = Res.ok r ∧ Q r := by
  obtain ⟨a, rfl, ha⟩ := h1
  exact h2 a ha

/-- invariant of the entries of the stack at index `j` -/
def StackOK (d : List GItem) (j : Int32) : Prop :=
  ∀ it ∈ d, 0 ≤ it.n.toInt ∧ 0 ≤ it.j.toInt ∧ it.j.toInt ≤ j.toInt

/-- The inner loop.  State in declaration order `(f, stack, left)`, result `(code, f, stack, left)`.
    The proof decides every `if` of the translated text by `omega` from the case of the model
    (`simp (disch := omega) only [… if_pos, if_neg]`), so the order, the polarity and the number of
    the `if`s do not matter. -/
theorem pop_loop_eq (grow : Nat → Nat → Nat) (n minLen : Int32) (sa : GSlice Int32) (j : Int32)
    (hj0 : 0 ≤ j.toInt) (hjc : j.toInt.toNat ≤ sa.arr.length) :
    ∀ (d : List GItem) (fuel : Nat) (f : Log) (stack : GSlice GItem) (left : Int32) (out : List Callback),
      d.length < fuel → GWF stack → stack.data = d.reverse → d ≠ [] → StackOK d j →
      0 ≤ left.toInt → left.toInt ≤ j.toInt → f = out.map (cbOf sa) →
      ∃ r, suffix_scanLCP_loop_2 grow n minLen sa j fuel f stack left = Res.ok r ∧
        (r.2.1 = (popLoop minLen.toInt n.toInt j.toInt.toNat left.toInt.toNat (d.map ofItem) out).2.map (cbOf sa) ∧
        GWF r.2.2.1 ∧
        match (popLoop minLen.toInt n.toInt j.toInt.toNat left.toInt.toNat (d.map ofItem) out).1 with
        | some st' => r.1 = 1 ∧ ∃ d', r.2.2.1.data = d'.reverse ∧ st' = d'.map ofItem ∧ d' ≠ [] ∧
            d'.length ≤ d.length + 1 ∧ StackOK d' j
        | none => r.1 = 2) := by
  intro d
  induction d with
  | nil => intro _ _ _ _ _ _ _ _ h; exact absurd rfl h
  | cons t0 d1 ih =>
    intro fuel f stack left out hfuel hw hdata _ hok hl0 hlj hf
    obtain ⟨fuel', rfl⟩ : ∃ k, fuel = k + 1 := ⟨fuel - 1, by simp at hfuel; omega⟩
    have hdata' : stack.data = d1.reverse ++ [t0] := by rw [hdata, List.reverse_cons]
    obtain ⟨hlen, hidx, s', hsl, hsd, hsw, hsl'⟩ := glast ({ n := 0, j := 0 } : GItem) stack hw _ _ hdata'
    obtain ⟨ht0n, ht0j, ht0jj⟩ := hok t0 (by simp)
    have hofn : (ofItem t0).n = t0.n.toInt := rfl
    have hofj : (ofItem t0).j = t0.j.toInt.toNat := rfl
    have hslice := gslice_ok sa t0.j.toInt j.toInt t0.j.toInt.toNat j.toInt.toNat (by omega) (by omega) (by omega) hjc
    rw [suffix_scanLCP_loop_2]
    simp only [hidx, hsl, hslice, bind_ok, List.map_cons, popLoop, hofn, hofj]
    rcases Int.lt_trichotomy n.toInt t0.n.toInt with hlt | heq | hgt
    · -- pop
      generalize hout' : (if t0.n.toInt ≥ minLen.toInt then out ++ [(t0.n.toInt.toNat, t0.j.toInt.toNat, j.toInt.toNat)] else out) = out'
      simp (disch := omega) only [i32_gt_iff, i32_ge_iff, i32_lt_iff, i32_le_iff, i32_eq_iff, if_pos, if_neg]
      refine bind_ex (fun fj => fj = out'.map (cbOf sa)) ?_ ?_
      · subst hf hout'
        by_cases h3 : t0.n.toInt ≥ minLen.toInt
        · simp (disch := omega) only [if_pos, if_neg]
          refine ⟨_, rfl, ?_⟩
          simp only [List.map_append, List.map_cons, List.map_nil, cbOf, Int.toNat_of_nonneg ht0n]
        · simp (disch := omega) only [if_pos, if_neg]
          exact ⟨_, rfl, rfl⟩
      · intro fj hfj
        cases d1 with
        | nil =>
          have : s'.len = 0 := by simpa using hsl'
          simp (disch := omega) only [Int.ofNat_eq_natCast, if_pos, if_neg, List.map_nil]
          exact ⟨_, rfl, hfj, hsw, rfl⟩
        | cons t1 d2 =>
          have : s'.len = d2.length + 1 := by simpa using hsl'
          simp (disch := omega) only [Int.ofNat_eq_natCast, if_pos, if_neg, List.map_cons]
          have hok1 : StackOK (t1 :: d2) j := fun it hit => hok it (by simp at hit ⊢; right; exact hit)
          obtain ⟨r, e1, e2, e3, e4⟩ := ih fuel' fj s' t0.j out'
            (by simp at hfuel ⊢; omega) hsw (by rw [hsd]) (by simp) hok1 ht0j ht0jj hfj
          simp only [List.map_cons] at e2 e4
          refine ⟨r, e1, e2, e3, ?_⟩
          revert e4
          split
          · rintro ⟨hc, d', h1, h2, h3, h4, h5⟩
            exact ⟨hc, d', h1, h2, h3, by simp at h4 ⊢; omega, h5⟩
          · exact id
    · -- equal: nothing happens
      simp (disch := omega) only [i32_gt_iff, i32_ge_iff, i32_lt_iff, i32_le_iff, i32_eq_iff, if_pos, if_neg]
      exact ⟨_, rfl, by rw [hf], hw, rfl, t0 :: d1, hdata, by simp, by simp, by simp, hok⟩
    · -- push
      simp (disch := omega) only [i32_gt_iff, i32_ge_iff, i32_lt_iff, i32_le_iff, i32_eq_iff, if_pos, if_neg]
      obtain ⟨ad, aw⟩ := gappend_data ({ n := 0, j := 0 } : GItem) grow stack hw ({ n := n, j := left } : GItem)
      refine ⟨_, rfl, by rw [hf], aw, rfl, ({ n := n, j := left } : GItem) :: t0 :: d1, ?_, ?_, by simp, by simp, ?_⟩
      · rw [ad, hdata']; simp
      · simp [ofItem]
      · intro it hit
        simp only [List.mem_cons] at hit
        rcases hit with rfl | hit
        · exact ⟨by simp; omega, hl0, hlj⟩
        · exact hok it (by simpa using hit)

/-! ## the outer loop (scan) -/

theorem popLoop_neg (minLen : Int) (j : Nat) :
    ∀ (st : List Item) (left : Nat) (out : List Callback), (∀ it ∈ st, 0 ≤ it.n) →
      (popLoop minLen (-1) j left st out).1 = none := by
  intro st
  induction st with
  | nil => intro _ _ _; rfl
  | cons top rest ih =>
    intro left out h
    have h0 := h top (by simp)
    simp only [popLoop]
    have h1 : ¬ ((-1 : Int) > top.n) := by omega
    have h2 : ¬ ((-1 : Int) = top.n) := by omega
    simp only [h1, h2, if_false]
    cases rest with
    | nil => rfl
    | cons a b => exact ih _ _ (fun it hit => h it (by simp at hit ⊢; right; exact hit))

theorem stackOK_mono {d : List GItem} {j j' : Int32} (h : StackOK d j) (hjj : j.toInt ≤ j'.toInt) : StackOK d j' :=
  fun it hit => ⟨(h it hit).1, (h it hit).2.1, by have := (h it hit).2.2; omega⟩

/-- The outer loop.  State in declaration order `(f, stack, j)`.  The clamped table entry `n` is
    whatever computation the translated text binds first (inline `if`s, or a helper unfolded by
    `gen_helper`); only its value is specified (`bind_ex`). -/
theorem scan_loop_eq (grow : Nat → Nat → Nat) (lcp sa : GSlice Int32) (maxLen minLen : Int32)
    (hl : GWF lcp) (hnn : NonNeg lcp) (h31 : lcp.len ≤ 2147483647) (hcap : lcp.len ≤ sa.arr.length) :
    ∀ (m fuel : Nat) (f : Log) (stack : GSlice GItem) (j : Int32) (d : List GItem) (out : List Callback),
      1 ≤ j.toInt → j.toInt.toNat + m = lcp.len + 1 → 1 ≤ m → d.length + 2 * m ≤ fuel →
      GWF stack → stack.data = d.reverse → d ≠ [] → StackOK d j → f = out.map (cbOf sa) →
      ∃ r, suffix_scanLCP_loop_1 grow lcp maxLen minLen sa fuel f stack j = Res.ok r ∧
        r.1 = (scanFrom (absI32 lcp) minLen.toInt maxLen.toInt j.toInt.toNat (d.map ofItem) out).map (cbOf sa) := by
  intro m
  induction m with
  | zero => intro _ _ _ _ _ _ _ _ h; omega
  | succ m' ih =>
    intro fuel f stack j d out hj1 hjm _ hfuel hw hdata hne hok hf
    obtain ⟨fuel', rfl⟩ : ∃ k, fuel = k + 1 := ⟨fuel - 1, by omega⟩
    have hjr := i32_range j
    have hlen32 : (Int32.ofInt (Int.ofNat lcp.len)).toInt = (lcp.len : Int) :=
      i32_ofInt _ (by show -2147483648 ≤ (lcp.len : Int); omega) (by show (lcp.len : Int) < 2147483648; omega)
    have hsize : (absI32 lcp).size = lcp.len := absI32_size hl
    have hleft : (j - 1).toInt = j.toInt - 1 := by
      rw [i32_sub _ _ (by rw [i32_one]; omega) (by rw [i32_one]; omega), i32_one]
    rw [suffix_scanLCP_loop_1]
    simp only [gen_helper, bind_ok]
    -- the clipped value n
    refine bind_ex (fun nn : Int32 => nn.toInt = (if j.toInt.toNat < (absI32 lcp).size
          then min (((absI32 lcp).getD j.toInt.toNat 0 : Nat) : Int) maxLen.toInt else -1)) ?_ ?_
    · rw [hsize]
      by_cases hlt' : j.toInt.toNat < lcp.len
      · have hidx := gindex_ok (0 : Int32) lcp j.toInt j.toInt.toNat (by omega) hlt'
        simp (disch := omega) only [i32_gt_iff, i32_ge_iff, i32_lt_iff, i32_le_iff, i32_eq_iff, hlen32,
          if_pos, if_neg, hidx, bind_ok]
        refine ⟨_, rfl, ?_⟩
        have hx0 := hnn _ hlt'
        rw [absI32_getD hl _ hlt']
        generalize (lcp.arr[j.toInt.toNat]?).getD 0 = x at hx0
        have hxi : ((i32n x : Nat) : Int) = x.toInt := by unfold i32n; omega
        rw [hxi]
        split <;> omega
      · simp (disch := omega) only [i32_gt_iff, i32_ge_iff, i32_lt_iff, i32_le_iff, i32_eq_iff, hlen32,
          if_pos, if_neg, bind_ok]
        exact ⟨_, rfl, i32_neg_one⟩
    intro nn hn2
    obtain ⟨⟨code, f', stack', left'⟩, e1, e2, e3, e4⟩ := pop_loop_eq grow nn minLen sa j (by omega) (by omega)
      d fuel' f stack (j - 1) out (by omega) hw hdata hne hok (by omega) (by omega) hf
    rw [e1]
    simp only [bind_ok]
    rw [scanFrom]
    have hle : j.toInt.toNat ≤ (absI32 lcp).size := by rw [hsize]; omega
    simp only [hle, if_true]
    rw [← hn2]
    have hleftn : (j - 1).toInt.toNat = j.toInt.toNat - 1 := by rw [hleft]; omega
    rw [hleftn] at e2 e4
    generalize hpr : popLoop minLen.toInt nn.toInt j.toInt.toNat (j.toInt.toNat - 1) (d.map ofItem) out = pr at e2 e4 ⊢
    obtain ⟨o, out'⟩ := pr
    simp only at e2 e3 e4
    cases o with
    | none =>
      simp only at e4
      subst e4
      simp (disch := omega) only [if_pos, if_neg]
      exact ⟨_, rfl, e2⟩
    | some st' =>
      simp only at e4
      obtain ⟨hc, d', h1, h2, h3, h4, h5⟩ := e4
      subst hc
      simp (disch := omega) only [if_pos, if_neg]
      -- j < len(lcp), otherwise n = -1 and the stack would have been emptied
      have hjlt : j.toInt.toNat < lcp.len := by
        apply Classical.byContradiction
        intro hge
        have hneg : nn.toInt = -1 := by
          rw [hn2, hsize]; simp only [hge, if_false]
        have := popLoop_neg minLen.toInt j.toInt.toNat (d.map ofItem) (j.toInt.toNat - 1) out (by
          intro it hit
          simp only [List.mem_map] at hit
          obtain ⟨g, hg, rfl⟩ := hit
          exact (hok g hg).1)
        rw [← hneg, hpr] at this
        simp at this
      have hj1' : (j + 1).toInt = j.toInt + 1 := by
        rw [i32_add _ _ (by rw [i32_one]; omega) (by rw [i32_one]; omega), i32_one]
      obtain ⟨r, e, er⟩ := ih fuel' f' stack' (j + 1) d' out'
        (by omega) (by rw [hj1']; omega) (by omega) (by omega) e3 h1 h3
        (stackOK_mono h5 (by omega)) e2
      refine ⟨r, e, ?_⟩
      have hjs : (j.toInt + 1).toNat = j.toInt.toNat + 1 := by omega
      rw [er, hj1', h2, hjs]

/-- `make([]item, 1, c)` for any capacity `c ≥ 1`: a stack that holds one zero entry -/
theorem bind_make {β : Type} (c : Int) (hc : 1 ≤ c) (k : GSlice GItem → Res β) (r : Res β)
    (h : ∀ s0 : GSlice GItem, GWF s0 → s0.data = [({ n := 0, j := 0 } : GItem)] → k s0 = r) :
    Res.bind (GSlice.make ({ n := 0, j := 0 } : GItem) (1 : Int) c) k = r := by
  rw [gmake_eq _ (1 : Int) c ⟨by decide, hc⟩]
  simp only [bind_ok]
  apply h
  · unfold GWF; simp; omega
  · obtain ⟨n, rfl⟩ : ∃ n : Nat, c = ((n + 1 : Nat) : Int) := ⟨(c - 1).toNat, by omega⟩
    simp [GSlice.data, List.replicate_succ]

/-- G01: `scanLCP` on a non-empty table.  (For `len(lcp) = 0` code and model differ: the Go loop
    starts at `j = 1`, reads `n = -1`, pops the bottom entry and — if `minLen ≤ 0` — calls
    `f(0, sa[0:1])` or panics in `sa[0:1]`, whereas `LZ.scanLCP #[] = []`.  `Segments` returns before
    the scan when `len(sa) = 0`, so the difference is unreachable through it: G02 has no such hypothesis.) -/
theorem gen_scanLCP (grow : Nat → Nat → Nat) (fuel : Nat) (sa lcp : GSlice Int32) (minLen maxLen : Int32)
    (hl : GWF lcp) (hnn : NonNeg lcp) (hpos : 1 ≤ lcp.len) (h31 : lcp.len ≤ 2147483647)
    (hcap : lcp.len ≤ sa.arr.length) (hf : 2 * lcp.len + 3 ≤ fuel) :
    suffix_scanLCP grow fuel sa lcp minLen maxLen =
      Res.ok ((scanLCP (absI32 lcp) minLen.toInt maxLen.toInt).map (cbOf sa)) := by
  unfold suffix_scanLCP
  apply bind_make _ (by decide)
  intro s0 hw0 hd0
  obtain ⟨r, e, er⟩ := scan_loop_eq grow lcp sa maxLen minLen hl hnn h31 hcap lcp.len fuel []
    s0 1 [({ n := 0, j := 0 } : GItem)] []
    (by rw [i32_one]; omega) (by rw [i32_one]; omega) (by omega) (by show 1 + 2 * lcp.len ≤ fuel; omega)
    hw0 (by rw [hd0]; rfl) (by simp)
    (by intro it hit; simp at hit; subst hit; simp [i32_zero, i32_one]) rfl
  simp only [e, bind_ok, er, scanLCP, i32_one]
  rfl

/-- G02: `Segments` = `LZ.segments`: the two argument panics, the early returns (`maxLen < minLen`,
    empty `sa`, `minLen > MaxInt32`), the clamp of `maxLen` to MaxInt32, then the scan.  The log of
    the callback `f` is the model's callback list.

    The proof follows the cases of the MODEL and decides every `if` of the translated text by
    `omega`; the two `int32` arguments of the scan are taken from the goal by unification (`rw [gen_scanLCP … _ _ …]`),
    only their values are proved. -/
theorem gen_segments (grow : Nat → Nat → Nat) (fuel : Nat) (sa lcp : GSlice Int32) (minLen maxLen : Int)
    (hsa : GWF sa) (hl : GWF lcp) (hnn : NonNeg lcp) (h31 : lcp.len ≤ 2147483647)
    (hf : 2 * lcp.len + 3 ≤ fuel) :
    suffix_Segments grow fuel sa lcp minLen maxLen =
      match segments sa.len (absI32 lcp) minLen maxLen with
      | none => Res.panic
      | some cbs => Res.ok (cbs.map (cbOf sa)) := by
  unfold suffix_Segments segments
  rw [absI32_size hl]
  have h32 : (2147483647 : Int32).toInt = 2147483647 := by decide
  by_cases h1 : sa.len = lcp.len
  · by_cases h2 : minLen < 0
    · simp (disch := omega) only [Int.ofNat_eq_natCast, if_pos, if_neg]
    · -- every atomic condition of the early returns is decided, so that grouping and order of
      -- the `||` chain in the source do not matter
      by_cases ha : maxLen < minLen
      · simp (disch := omega) only [Int.ofNat_eq_natCast, if_pos, if_neg, List.map_nil]
      by_cases hb : sa.len = 0
      · simp (disch := omega) only [Int.ofNat_eq_natCast, if_pos, if_neg, List.map_nil]
      by_cases hc : minLen > 2147483647
      · simp (disch := omega) only [Int.ofNat_eq_natCast, if_pos, if_neg, List.map_nil]
      have hcap : lcp.len ≤ sa.arr.length := by unfold GWF at hsa; omega
      rcases Int.lt_trichotomy maxLen 2147483647 with hm | hm | hm
      all_goals try subst hm
      all_goals
        simp (disch := omega) only [Int.ofNat_eq_natCast, if_pos, if_neg]
        rw [gen_scanLCP grow fuel sa lcp _ _ hl hnn (by omega) h31 hcap hf]
        simp (disch := omega) only [bind_ok, List.nil_append, i32_ofInt, h32]
  · simp (disch := omega) only [Int.ofNat_eq_natCast, if_pos, if_neg]

end LZ.GenSuffix

/-! ## axiom audit -/
#print axioms LZ.GenSuffix.gen_scanLCP
#print axioms LZ.GenSuffix.gen_segments
