/-
  LzProofs.GenSuffixPropsSeg — the translated code of suffix/segments.go
  (LzModel/Generated/CodeSuffixSegments.lean) equals the hand-written model (LzModel/Suffix.lean:
  `popLoop`, `scanFrom`, `scanLCP`, `segments`).

  The callback `f` of `scanLCP` / `Segments` is LOGGED by the translation (code_part4.go): the
  translated functions return the list of the calls `(m, sa[lo:hi])` in call order, the slice as a
  value.  The model returns `(m, lo, hi)`; `cbOf sa` maps a model callback to the logged pair.

  Stack: the Go slice has its top at the END, the model's list at the head:
  `stack.data = d.reverse`, model stack `d.map ofItem`.

  G01 gen_scanLCP   scanLCP = LZ.scanLCP (no panic, enough fuel) for non-negative `lcp` of length
                    ≤ MaxInt32, `len(lcp) ≤ cap(sa)`, `0 ≤ maxLen`
  G02 gen_segments  Segments = LZ.segments: both panics, the three early returns, the clamp of
                    maxLen, then scanLCP
-/
import LzModel.Generated.CodeSuffixSegments
import LzModel.Suffix
import LzProofs.GenSuffixPropsBase

set_option linter.unusedSimpArgs false
set_option linter.unusedVariables false

namespace LZ.GenSuffix
open LZ LZ.Gen LZ.GenBuf LZ.GenHash

abbrev GItem := suffix_scanLCP_item
abbrev Log := List (Int × GSlice Int32)

/-- a stack entry of the translation as the model's `Item` -/
def ofItem (it : GItem) : Item := ⟨it.n.toInt, it.j.toInt.toNat⟩

/-- the logged form of the model callback `(m, lo, hi)` = `f(m, sa[lo:hi])` -/
def cbOf (sa : GSlice Int32) (c : Callback) : Int × GSlice Int32 :=
  ((c.1 : Int), { arr := sa.arr.drop c.2.1, len := c.2.2 - c.2.1 })

/-! ## slice operations on the stack -/

theorem gappend_data {α : Type} (z : α) (g : Nat → Nat → Nat) (s : GSlice α) (h : GWF s) (x : α) :
    (GSlice.append z g s [x]).data = s.data ++ [x] ∧ GWF (GSlice.append z g s [x]) := by
  unfold GWF at h
  have hl : (s.arr.take s.len ++ [x]).length = s.len + 1 := by simp [List.length_take]; omega
  unfold GSlice.append GSlice.cap GSlice.data GWF
  simp only [List.length_singleton]
  by_cases hc : s.len + 1 ≤ s.arr.length
  · simp only [hc, if_true]
    exact ⟨List.take_left' hl, by simp; omega⟩
  · simp only [hc, if_false]
    exact ⟨List.take_left' hl, by simp; omega⟩

/-- the last element and the initial part of a non-empty stack -/
theorem glast {α : Type} (z : α) (s : GSlice α) (h : GWF s) (init : List α) (t0 : α) (hd : s.data = init ++ [t0]) :
    s.len = init.length + 1 ∧
    GSlice.index z s ((Int.ofNat s.len) - 1) = Res.ok t0 ∧
    ∃ s', GSlice.slice s 0 ((Int.ofNat s.len) - 1) = Res.ok s' ∧ s'.data = init ∧ GWF s' ∧ s'.len = init.length := by
  have hlen : s.len = init.length + 1 := by
    have := gdata_length h; rw [hd] at this; simp at this; omega
  unfold GWF at h
  refine ⟨hlen, ?_, ?_⟩
  · rw [gindex_ok z s _ init.length (by show (s.len : Int) - 1 = _; omega) (by omega)]
    have : s.data[init.length]? = some t0 := by rw [hd]; simp
    rw [gdata_getElem?] at this
    simp only [show init.length < s.len by omega, if_true] at this
    rw [this]; rfl
  · rw [gslice_ok s 0 _ 0 init.length rfl (by show (s.len : Int) - 1 = _; omega) (by omega) (by omega)]
    refine ⟨_, rfl, ?_, ?_, rfl⟩
    · simp only [GSlice.data, List.drop_zero, Nat.sub_zero]
      have : (s.arr.take s.len).take init.length = (init ++ [t0]).take init.length := by
        show s.data.take init.length = _; rw [hd]
      rw [List.take_take] at this
      simp [show min init.length s.len = init.length by omega] at this
      exact this
    · unfold GWF; simp; omega

/-! ## the inner loop (pop) -/

theorem i32_gt_iff (a b : Int32) : a > b ↔ a.toInt > b.toInt := by
  show b < a ↔ _; rw [i32_lt_iff]
theorem i32_ge_iff (a b : Int32) : a ≥ b ↔ a.toInt ≥ b.toInt := by
  show b ≤ a ↔ _; rw [i32_le_iff]

/-- invariant of the entries of the stack at index `j` -/
def StackOK (d : List GItem) (j : Int32) : Prop :=
  ∀ it ∈ d, 0 ≤ it.n.toInt ∧ 0 ≤ it.j.toInt ∧ it.j.toInt ≤ j.toInt

theorem pop_loop_eq (grow : Nat → Nat → Nat) (n minLen : Int32) (sa : GSlice Int32) (j : Int32)
    (hj0 : 0 ≤ j.toInt) (hjc : j.toInt.toNat ≤ sa.arr.length) :
    ∀ (d : List GItem) (fuel : Nat) (stack : GSlice GItem) (f : Log) (left : Int32) (out : List Callback),
      d.length < fuel → GWF stack → stack.data = d.reverse → d ≠ [] → StackOK d j →
      0 ≤ left.toInt → left.toInt ≤ j.toInt → f = out.map (cbOf sa) →
      ∃ stack' left' code,
        suffix_scanLCP_loop_2 grow n minLen sa j fuel stack f left =
          Res.ok (code, stack',
            (popLoop minLen.toInt n.toInt j.toInt.toNat left.toInt.toNat (d.map ofItem) out).2.map (cbOf sa), left') ∧
        GWF stack' ∧
        match (popLoop minLen.toInt n.toInt j.toInt.toNat left.toInt.toNat (d.map ofItem) out).1 with
        | some st' => code = 1 ∧ ∃ d', stack'.data = d'.reverse ∧ st' = d'.map ofItem ∧ d' ≠ [] ∧
            d'.length ≤ d.length + 1 ∧ StackOK d' j
        | none => code = 2 := by
  intro d
  induction d with
  | nil => intro _ _ _ _ _ _ _ _ h; exact absurd rfl h
  | cons t0 d1 ih =>
    intro fuel stack f left out hfuel hw hdata _ hok hl0 hlj hf
    obtain ⟨fuel', rfl⟩ : ∃ k, fuel = k + 1 := ⟨fuel - 1, by simp at hfuel; omega⟩
    have hdata' : stack.data = d1.reverse ++ [t0] := by rw [hdata, List.reverse_cons]
    obtain ⟨hlen, hidx, s', hsl, hsd, hsw, hsl'⟩ := glast ({ n := 0, j := 0 } : GItem) stack hw _ _ hdata'
    obtain ⟨ht0n, ht0j, ht0jj⟩ := hok t0 (by simp)
    rw [suffix_scanLCP_loop_2, hidx]
    simp only [bind_ok, List.map_cons, popLoop]
    have hofn : (ofItem t0).n = t0.n.toInt := rfl
    have hofj : (ofItem t0).j = t0.j.toInt.toNat := rfl
    by_cases h1 : n > t0.n
    · -- push
      have h1' : n.toInt > (ofItem t0).n := by rw [hofn]; exact (i32_gt_iff _ _).1 h1
      simp only [h1, h1', if_true]
      obtain ⟨ad, aw⟩ := gappend_data ({ n := 0, j := 0 } : GItem) grow stack hw ({ n := n, j := left } : GItem)
      refine ⟨_, left, 1, by rw [hf], aw, rfl, ({ n := n, j := left } : GItem) :: t0 :: d1, ?_, ?_, by simp, by simp, ?_⟩
      · rw [ad, hdata']; simp
      · simp [ofItem]
      · intro it hit
        simp only [List.mem_cons] at hit
        rcases hit with rfl | hit
        · have := (i32_gt_iff _ _).1 h1
          exact ⟨by simp; omega, hl0, hlj⟩
        · exact hok it (by simpa using hit)
    · have h1' : ¬ n.toInt > (ofItem t0).n := by rw [hofn]; exact fun h => h1 ((i32_gt_iff _ _).2 h)
      simp only [h1, h1', if_false]
      by_cases h2 : n = t0.n
      · have h2' : n.toInt = (ofItem t0).n := by rw [hofn, h2]
        simp only [if_pos h2, if_pos h2']
        refine ⟨stack, left, 1, by rw [hf], hw, rfl, t0 :: d1, hdata, by simp, by simp, by simp, hok⟩
      · have h2' : ¬ n.toInt = (ofItem t0).n := by rw [hofn]; exact fun h => h2 ((i32_eq_iff _ _).2 h)
        simp only [h2, h2', if_false]
        -- the callback
        generalize hout' : (if (ofItem t0).n ≥ minLen.toInt then out ++ [((ofItem t0).n.toNat, (ofItem t0).j, j.toInt.toNat)] else out) = out'
        have hjoin : (if t0.n ≥ minLen then
              Res.bind (GSlice.slice sa t0.j.toInt j.toInt) fun t_2 =>
                Res.ok (f ++ [(t0.n.toInt, t_2)])
            else Res.ok f) = Res.ok (out'.map (cbOf sa)) := by
          by_cases h3 : t0.n ≥ minLen
          · have h3' : (ofItem t0).n ≥ minLen.toInt := by rw [hofn]; exact (i32_ge_iff _ _).1 h3
            simp only [h3, h3', if_true] at hout' ⊢
            rw [gslice_ok sa t0.j.toInt j.toInt t0.j.toInt.toNat j.toInt.toNat (by omega) (by omega) (by omega) hjc]
            simp only [bind_ok]
            have hcb : cbOf sa ((ofItem t0).n.toNat, (ofItem t0).j, j.toInt.toNat) =
                (t0.n.toInt, ({ arr := sa.arr.drop t0.j.toInt.toNat, len := j.toInt.toNat - t0.j.toInt.toNat } : GSlice Int32)) := by
              show (((t0.n.toInt.toNat : Nat) : Int),
                ({ arr := sa.arr.drop t0.j.toInt.toNat, len := j.toInt.toNat - t0.j.toInt.toNat } : GSlice Int32)) = _
              rw [Int.toNat_of_nonneg ht0n]
            rw [← hout', hf, List.map_append, List.map_cons, List.map_nil, hcb]
          · have h3' : ¬ (ofItem t0).n ≥ minLen.toInt := by rw [hofn]; exact fun h => h3 ((i32_ge_iff _ _).2 h)
            simp only [h3, h3', if_false] at hout' ⊢
            rw [← hout', hf]
        rw [hjoin]
        simp only [bind_ok]
        rw [hsl]
        simp only [bind_ok]
        cases d1 with
        | nil =>
          have : s'.len = 0 := by simpa using hsl'
          simp only [this, List.map_nil]
          refine ⟨s', t0.j, 2, by simp, hsw, rfl⟩
        | cons t1 d2 =>
          have hne : ¬ (Int.ofNat s'.len = 0) := by
            rw [hsl']; simp; omega
          simp only [hne, if_false, List.map_cons]
          have hok1 : StackOK (t1 :: d2) j := fun it hit => hok it (by simp at hit ⊢; right; exact hit)
          obtain ⟨stack', left', code, e1, e2, e3⟩ := ih fuel' s' (out'.map (cbOf sa)) t0.j out'
            (by simp at hfuel ⊢; omega) hsw (by rw [hsd]) (by simp) hok1 ht0j ht0jj rfl
          simp only [List.map_cons] at e1 e3
          refine ⟨stack', left', code, by rw [e1, hofj], e2, ?_⟩
          rw [hofj]
          revert e3
          split
          · rintro ⟨hc, d', h1, h2, h3, h4, h5⟩
            exact ⟨hc, d', h1, h2, h3, by simp at h4 ⊢; omega, h5⟩
          · exact id

/-! ## the outer loop (scan) -/

theorem popLoop_neg (minLen : Int) (j : Nat) :
    ∀ (st : List Item) (left : Nat) (out : List Callback), (∀ it ∈ st, 0 ≤ it.n) →
      (popLoop minLen (-1) j left st out).1 = none := by
  intro st
  induction st with
  | nil => intro _ _ _; rfl
  | cons top rest ih =>
    intro left out h
    have h0 := h top (by simp)
    simp only [popLoop]
    have h1 : ¬ ((-1 : Int) > top.n) := by omega
    have h2 : ¬ ((-1 : Int) = top.n) := by omega
    simp only [h1, h2, if_false]
    cases rest with
    | nil => rfl
    | cons a b => exact ih _ _ (fun it hit => h it (by simp at hit ⊢; right; exact hit))

theorem stackOK_mono {d : List GItem} {j j' : Int32} (h : StackOK d j) (hjj : j.toInt ≤ j'.toInt) : StackOK d j' :=
  fun it hit => ⟨(h it hit).1, (h it hit).2.1, by have := (h it hit).2.2; omega⟩

theorem scan_loop_eq (grow : Nat → Nat → Nat) (lcp sa : GSlice Int32) (maxLen minLen : Int32)
    (hl : GWF lcp) (hnn : NonNeg lcp) (h31 : lcp.len ≤ 2147483647) (hcap : lcp.len ≤ sa.arr.length) :
    ∀ (m fuel : Nat) (j : Int32) (stack : GSlice GItem) (f : Log) (d : List GItem) (out : List Callback),
      1 ≤ j.toInt → j.toInt.toNat + m = lcp.len + 1 → 1 ≤ m → d.length + 2 * m ≤ fuel →
      GWF stack → stack.data = d.reverse → d ≠ [] → StackOK d j → f = out.map (cbOf sa) →
      ∃ j' stack', suffix_scanLCP_loop_1 grow lcp maxLen minLen sa fuel j stack f =
        Res.ok (j', stack',
          (scanFrom (absI32 lcp) minLen.toInt maxLen.toInt j.toInt.toNat (d.map ofItem) out).map (cbOf sa)) := by
  intro m
  induction m with
  | zero => intro _ _ _ _ _ _ _ _ h; omega
  | succ m' ih =>
    intro fuel j stack f d out hj1 hjm _ hfuel hw hdata hne hok hf
    obtain ⟨fuel', rfl⟩ : ∃ k, fuel = k + 1 := ⟨fuel - 1, by omega⟩
    have hjr := i32_range j
    have hlen32 : (Int32.ofInt (Int.ofNat lcp.len)).toInt = (lcp.len : Int) :=
      i32_ofInt _ (by show -2147483648 ≤ (lcp.len : Int); omega) (by show (lcp.len : Int) < 2147483648; omega)
    have hsize : (absI32 lcp).size = lcp.len := absI32_size hl
    -- the clipped value n
    have hn : ∃ nn : Int32,
        (if j < (Int32.ofInt (Int.ofNat lcp.len)) then
            Res.bind (GSlice.index (0 : Int32) lcp j.toInt) fun t_1 =>
              Res.ok (if t_1 > maxLen then maxLen else t_1)
          else Res.ok (-1)) = Res.ok nn ∧
        nn.toInt = (if j.toInt.toNat < (absI32 lcp).size
          then min (((absI32 lcp).getD j.toInt.toNat 0 : Nat) : Int) maxLen.toInt else -1) := by
      by_cases hlt : j < Int32.ofInt (Int.ofNat lcp.len)
      · have hlt' : j.toInt.toNat < lcp.len := by
          have := (i32_lt_iff _ _).1 hlt; rw [hlen32] at this; omega
        simp only [hlt, if_true, hsize, hlt']
        rw [gindex_ok (0 : Int32) lcp j.toInt j.toInt.toNat (by omega) hlt']
        simp only [bind_ok]
        have hx0 := hnn _ hlt'
        rw [absI32_getD hl _ hlt']
        generalize (lcp.arr[j.toInt.toNat]?).getD 0 = x at hx0
        have hxi : ((i32n x : Nat) : Int) = x.toInt := by unfold i32n; omega
        rw [hxi]
        by_cases hgt : x > maxLen
        · have := (i32_gt_iff _ _).1 hgt
          exact ⟨maxLen, by simp [hgt], by omega⟩
        · have : ¬ x.toInt > maxLen.toInt := fun h => hgt ((i32_gt_iff _ _).2 h)
          exact ⟨x, by simp [hgt], by omega⟩
      · have hlt' : ¬ j.toInt.toNat < lcp.len := by
          intro h; apply hlt; rw [i32_lt_iff, hlen32]; omega
        simp only [hlt, if_false, hsize, hlt']
        exact ⟨-1, rfl, i32_neg_one⟩
    obtain ⟨nn, hn1, hn2⟩ := hn
    have hleft : (j - 1).toInt = j.toInt - 1 := by
      rw [i32_sub _ _ (by rw [i32_one]; omega) (by rw [i32_one]; omega), i32_one]
    rw [suffix_scanLCP_loop_1]
    simp only [hn1, bind_ok]
    obtain ⟨stack', left', code, e1, e2, e3⟩ := pop_loop_eq grow nn minLen sa j (by omega) (by omega)
      d fuel' stack f (j - 1) out (by omega) hw hdata hne hok (by omega) (by omega) hf
    rw [e1]
    simp only [bind_ok]
    rw [scanFrom]
    have hle : j.toInt.toNat ≤ (absI32 lcp).size := by rw [hsize]; omega
    simp only [hle, if_true]
    rw [← hn2]
    have hleftn : (j - 1).toInt.toNat = j.toInt.toNat - 1 := by rw [hleft]; omega
    rw [hleftn] at e3 ⊢
    generalize hpr : popLoop minLen.toInt nn.toInt j.toInt.toNat (j.toInt.toNat - 1) (d.map ofItem) out = pr at e3 ⊢
    obtain ⟨o, out'⟩ := pr
    cases o with
    | none =>
      simp only at e3
      subst e3
      simp only [show ¬ ((2 : Nat) = 1) by decide, if_false]
      exact ⟨j, stack', rfl⟩
    | some st' =>
      simp only at e3
      obtain ⟨hc, d', h1, h2, h3, h4, h5⟩ := e3
      subst hc
      simp only [if_true]
      -- j < len(lcp), otherwise n = -1 and the stack would have been emptied
      have hjlt : j.toInt.toNat < lcp.len := by
        apply Classical.byContradiction
        intro hge
        have hneg : nn.toInt = -1 := by
          rw [hn2, hsize]; simp only [hge, if_false]
        have := popLoop_neg minLen.toInt j.toInt.toNat (d.map ofItem) (j.toInt.toNat - 1) out (by
          intro it hit
          simp only [List.mem_map] at hit
          obtain ⟨g, hg, rfl⟩ := hit
          exact (hok g hg).1)
        rw [← hneg, hpr] at this
        simp at this
      have hj1' : (j + 1).toInt = j.toInt + 1 := by
        rw [i32_add _ _ (by rw [i32_one]; omega) (by rw [i32_one]; omega), i32_one]
      obtain ⟨j', s'', e⟩ := ih fuel' (j + 1) stack' (out'.map (cbOf sa)) d' out'
        (by omega) (by rw [hj1']; omega) (by omega) (by omega) e2 h1 h3
        (stackOK_mono h5 (by omega)) rfl
      refine ⟨j', s'', ?_⟩
      have hjs : (j.toInt + 1).toNat = j.toInt.toNat + 1 := by omega
      rw [e, hj1', h2, hjs]

/-- `make([]item, 1, c)` for any capacity `c ≥ 1`: a stack that holds one zero entry -/
theorem bind_make {β : Type} (c : Int) (hc : 1 ≤ c) (k : GSlice GItem → Res β) (r : Res β)
    (h : ∀ s0 : GSlice GItem, GWF s0 → s0.data = [({ n := 0, j := 0 } : GItem)] → k s0 = r) :
    Res.bind (GSlice.make ({ n := 0, j := 0 } : GItem) (1 : Int) c) k = r := by
  rw [gmake_eq _ (1 : Int) c ⟨by decide, hc⟩]
  simp only [bind_ok]
  apply h
  · unfold GWF; simp; omega
  · obtain ⟨n, rfl⟩ : ∃ n : Nat, c = ((n + 1 : Nat) : Int) := ⟨(c - 1).toNat, by omega⟩
    simp [GSlice.data, List.replicate_succ]

/-- G01: `scanLCP` on a non-empty table.  (For `len(lcp) = 0` code and model differ: the Go loop
    starts at `j = 1`, reads `n = -1`, pops the bottom entry and — if `minLen ≤ 0` — calls
    `f(0, sa[0:1])` or panics in `sa[0:1]`, whereas `LZ.scanLCP #[] = []`.  `Segments` returns before
    the scan when `len(sa) = 0`, so the difference is unreachable through it: G02 has no such hypothesis.) -/
theorem gen_scanLCP (grow : Nat → Nat → Nat) (fuel : Nat) (sa lcp : GSlice Int32) (minLen maxLen : Int32)
    (hl : GWF lcp) (hnn : NonNeg lcp) (hpos : 1 ≤ lcp.len) (h31 : lcp.len ≤ 2147483647)
    (hcap : lcp.len ≤ sa.arr.length) (hf : 2 * lcp.len + 3 ≤ fuel) :
    suffix_scanLCP grow fuel sa lcp minLen maxLen =
      Res.ok ((scanLCP (absI32 lcp) minLen.toInt maxLen.toInt).map (cbOf sa)) := by
  unfold suffix_scanLCP
  apply bind_make _ (by decide)
  intro s0 hw0 hd0
  obtain ⟨j', s', e⟩ := scan_loop_eq grow lcp sa maxLen minLen hl hnn h31 hcap lcp.len fuel 1
    s0 [] [({ n := 0, j := 0 } : GItem)] []
    (by rw [i32_one]; omega) (by rw [i32_one]; omega) (by omega) (by show 1 + 2 * lcp.len ≤ fuel; omega)
    hw0 (by rw [hd0]; rfl) (by simp)
    (by intro it hit; simp at hit; subst hit; simp [i32_zero, i32_one]) rfl
  simp only [e, bind_ok, scanLCP, i32_one]
  rfl

/-- G02: `Segments` = `LZ.segments`: the two argument panics, the early returns (`maxLen < minLen`,
    empty `sa`, `minLen > MaxInt32`), the clamp of `maxLen` to MaxInt32, then the scan.  The log of
    the callback `f` is the model's callback list. -/
theorem gen_segments (grow : Nat → Nat → Nat) (fuel : Nat) (sa lcp : GSlice Int32) (minLen maxLen : Int)
    (hsa : GWF sa) (hl : GWF lcp) (hnn : NonNeg lcp) (h31 : lcp.len ≤ 2147483647)
    (hf : 2 * lcp.len + 3 ≤ fuel) :
    suffix_Segments grow fuel sa lcp minLen maxLen =
      match segments sa.len (absI32 lcp) minLen maxLen with
      | none => Res.panic
      | some cbs => Res.ok (cbs.map (cbOf sa)) := by
  unfold suffix_Segments segments
  rw [absI32_size hl]
  by_cases h1 : sa.len = lcp.len
  · have h1' : ¬ (Int.ofNat sa.len ≠ Int.ofNat lcp.len) := by simp [h1]
    have h1'' : ¬ (sa.len ≠ lcp.len) := by simp [h1]
    rw [if_neg h1', if_neg h1'']
    by_cases h2 : minLen < 0
    · rw [if_pos h2, if_pos h2]
    · rw [if_neg h2, if_neg h2]
      by_cases h3 : maxLen < minLen ∨ sa.len = 0 ∨ minLen > 2147483647
      · have h3' : (maxLen < minLen ∨ Int.ofNat sa.len = 0) ∨ minLen > 2147483647 := by
          rcases h3 with h | h | h
          · exact Or.inl (Or.inl h)
          · exact Or.inl (Or.inr (by simp [h]))
          · exact Or.inr h
        rw [if_pos h3', if_pos h3]
        rfl
      · have h3' : ¬ ((maxLen < minLen ∨ Int.ofNat sa.len = 0) ∨ minLen > 2147483647) := by
          intro h
          apply h3
          rcases h with (h | h) | h
          · exact Or.inl h
          · exact Or.inr (Or.inl (by simpa using h))
          · exact Or.inr (Or.inr h)
        rw [if_neg h3', if_neg h3]
        have hmin : 0 ≤ minLen ∧ minLen ≤ 2147483647 ∧ minLen ≤ maxLen ∧ 1 ≤ sa.len := by
          refine ⟨by omega, ?_, ?_, ?_⟩ <;> (apply Classical.byContradiction; intro hc; apply h3; omega)
        have hcl : ∃ mx : Int, (if maxLen > 2147483647 then (2147483647 : Int) else maxLen) = mx ∧
            0 ≤ mx ∧ mx ≤ 2147483647 := by
          by_cases hm : maxLen > 2147483647
          · exact ⟨2147483647, by simp [hm], by omega, by omega⟩
          · exact ⟨maxLen, by simp [hm], by omega, by omega⟩
        obtain ⟨mx, hmx, hmx0, hmx1⟩ := hcl
        simp only [hmx]
        have hcap : lcp.len ≤ sa.arr.length := by unfold GWF at hsa; omega
        rw [gen_scanLCP grow fuel sa lcp (Int32.ofInt minLen) (Int32.ofInt mx) hl hnn (by omega) h31 hcap hf]
        simp only [bind_ok, List.nil_append]
        rw [i32_ofInt minLen (by omega) (by omega), i32_ofInt mx (by omega) (by omega)]
  · have h1' : Int.ofNat sa.len ≠ Int.ofNat lcp.len := fun e => h1 (Int.ofNat.inj e)
    rw [if_pos h1', if_pos h1]

end LZ.GenSuffix

/-! ## axiom audit -/
#print axioms LZ.GenSuffix.gen_scanLCP
#print axioms LZ.GenSuffix.gen_segments
