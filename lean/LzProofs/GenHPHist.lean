/-
  LzProofs.GenHPHist — `ParseOK` (GenHPParse) as an INVARIANT of the translated operations of the hash
  parser HP, operation by operation.  No sorry, no axioms of its own.

  Subject: the functions `tools/extract` regenerates from the Go text
      hp.go               hashParser.Parse                 Gen.hashParser_Parse       (CodeHPParse)
      hash.go             hashDictionary.Reset / Shrink    Gen.hashDictionary_Reset / _Shrink (CodeHashDict)
      parser_buffer.go    ParserBuffer.Write               Gen.ParserBuffer_Write     (CodePBuf)
  `Write`, `Reset`, `Shrink` of a `*hashParser` are the PROMOTED methods of the embedded `hashDictionary` /
  `ParserBuffer` (hp.go declares only `init`, `Parse`, `ParserConfig`; hash.go declares `Reset`, `Shrink`,
  `processSegment`); a promoted call `s.M(x)` is `(&s.field).M(x)`, here: the translated function on the embedded
  field followed by a record update (`hp_Write`, `hp_Reset`, `hp_Shrink` below — three lines each, the same
  shape the translator itself emits for the promoted call `s.processSegment(…)` inside `Parse`).
  `ParserBuffer.ReadFrom` is NOT translated (io.Reader; LzModel/Generated/Facts.lean says so) and `Parse(nil)`
  is excluded by the topic assumption `blk != nil` of CodeHPParse; neither is an operation here.

  Invariant `HistOK bc t` on the GENERATED state `t : Gen.hashParser`: `ParseOK t`, the buffer configuration is
  `bc`, `len(Data) ≤ BufferSize`, the capacity invariant `CapOK` (empty or 7 spare bytes), `InputLen ≤ 8`.
  `BCOK bc`: `BufferSize, WindowSize ≤ 2^32 - 8` (what `BufConfig.Verify` enforces).

  Results (each for every growth policy of `append`, every state with `HistOK`):
    hist_write   `hp_Write` does not panic, returns the model's `(n, err)`, abstracts to `Parser.write`, keeps `HistOK`
    hist_shrink  `hp_Shrink` …  `Parser.shrink`    (the hypotheses `hw`, `hW` of `gen_hp_shrink` follow from `HistOK`)
    hist_reset   `hp_Reset`  …  `Parser.reset`     for every Go slice `data` (`len ≤ cap`)
    hist_parse   `hashParser_Parse` … `Parser.parse` for `flags ≥ 0`, `fuel ≥ len(Data) + 3`; the block returned
                 ABSTRACTS (`ofBlock`: fields as natural numbers) to the model's block — the `uint32` conversions of
                 `Seq{LitLen, MatchLen, Offset}` lose nothing because every length is `< 2^32`
    hist_init    `hashParser.init` on `new(hashParser)` with an accepted configuration establishes `HistOK`
  The history-level statements are in LzProofs/GenHPHistRun.lean.
-/
import LzProofs.GenHPParse
import LzProofs.ParseProps
import LzProofs.GenBufPropsDCopy

set_option linter.unusedSimpArgs false
set_option linter.unusedVariables false

namespace LZ.GenHPHist
open LZ LZ.Gen LZ.GenBuf LZ.GenHash LZ.GenHPParse LZ.GenProps

/-! ## the promoted methods -/

/-- `s.Write(p)` for `s *hashParser`: `ParserBuffer.Write` on the embedded buffer -/
def hp_Write (grow : Nat → Nat → Nat) (s : Gen.hashParser) (p : Slice) : Res (Gen.hashParser × Int × Gen.Err) :=
  Res.bind (ParserBuffer_Write grow s.hashDictionary.ParserBuffer p) fun r =>
  Res.ok ({ s with hashDictionary := { s.hashDictionary with ParserBuffer := r.1 } }, r.2.1, r.2.2)

/-- `s.Reset(data)` for `s *hashParser`: `hashDictionary.Reset` on the embedded dictionary -/
def hp_Reset (s : Gen.hashParser) (data : Slice) : Res (Gen.hashParser × Gen.Err) :=
  Res.bind (hashDictionary_Reset s.hashDictionary data) fun r =>
  Res.ok ({ s with hashDictionary := r.1 }, r.2)

/-- `s.Shrink()` for `s *hashParser`: `hashDictionary.Shrink` on the embedded dictionary -/
def hp_Shrink (s : Gen.hashParser) : Res (Gen.hashParser × Int) :=
  Res.bind (hashDictionary_Shrink s.hashDictionary) fun r =>
  Res.ok ({ s with hashDictionary := r.1 }, r.2)

/-! ## the invariant -/

/-- what `BufConfig.Verify` enforces and the proofs below use -/
structure BCOK (bc : BufCfg) : Prop where
  bmax : bc.bufferSize ≤ 4294967288
  wmax : bc.windowSize ≤ 4294967288

/-- the invariant of a history of translated operations on a Go `hashParser` -/
structure HistOK (bc : BufCfg) (t : Gen.hashParser) : Prop where
  pok : ParseOK t
  cfg : ofCfg t.hashDictionary.ParserBuffer.BufConfig = bc
  len : t.hashDictionary.ParserBuffer.Data.len ≤ bc.bufferSize
  cap : (ofPB t.hashDictionary.ParserBuffer).CapOK
  il8 : t.HPConfig.InputLen.toNat ≤ 8

theorem HistOK.dataLen {bc : BufCfg} {t : Gen.hashParser} (h : HistOK bc t) :
    (ofHPs t).buf.data.length = t.hashDictionary.ParserBuffer.Data.len := data_length h.pok.wf.1.data

theorem HistOK.hw {bc : BufCfg} {t : Gen.hashParser} (h : HistOK bc t) :
    (ofHPs t).buf.w ≤ (ofHPs t).buf.data.length := by
  rw [h.dataLen]
  have h1 := h.pok.w
  have h2 := h.pok.wf.1.w
  show t.hashDictionary.ParserBuffer.W.toNat ≤ _
  omega

theorem HistOK.mlen {bc : BufCfg} {t : Gen.hashParser} (h : HistOK bc t) :
    (ofHPs t).buf.data.length ≤ (ofHPs t).buf.cfg.bufferSize := by
  rw [h.dataLen]
  show _ ≤ (ofCfg t.hashDictionary.ParserBuffer.BufConfig).bufferSize
  rw [h.cfg]; exact h.len

theorem HistOK.mcfg {bc : BufCfg} {t : Gen.hashParser} (h : HistOK bc t) : (ofHPs t).buf.cfg = bc := h.cfg

/-- `HistOK` after an operation that replaced the embedded dictionary: what has to be known about the new one -/
theorem histOK_update {bc : BufCfg} (hbc : BCOK bc) {t : Gen.hashParser} (h : HistOK bc t)
    (f' : Gen.hashDictionary) (hwf : DictWF f')
    (hil : (ofHash f'.hash).inputLen = (ofHash t.hashDictionary.hash).inputLen)
    (hhb : (ofHash f'.hash).hashBits = (ofHash t.hashDictionary.hash).hashBits)
    (hcfg : (ofPB f'.ParserBuffer).cfg = bc)
    (hw : (ofPB f'.ParserBuffer).w ≤ (ofPB f'.ParserBuffer).data.length)
    (hlen : (ofPB f'.ParserBuffer).data.length ≤ bc.bufferSize)
    (hcap : (ofPB f'.ParserBuffer).CapOK) :
    HistOK bc { t with hashDictionary := f' } := by
  have hdl : (ofPB f'.ParserBuffer).data.length = f'.ParserBuffer.Data.len := data_length hwf.1.data
  rw [hdl] at hw hlen
  have hil' : f'.hash.inputLen.toNat = t.hashDictionary.hash.inputLen.toNat := hil
  have hhb' : 64 - f'.hash.shift.toNat = 64 - t.hashDictionary.hash.shift.toNat := hhb
  have hc : ofCfg f'.ParserBuffer.BufConfig = ofCfg t.hashDictionary.ParserBuffer.BufConfig := hcfg.trans h.cfg.symm
  have hws : f'.ParserBuffer.BufConfig.WindowSize.toNat = t.hashDictionary.ParserBuffer.BufConfig.WindowSize.toNat :=
    congrArg BufCfg.windowSize hc
  have hbs : f'.ParserBuffer.BufConfig.BlockSize.toNat = t.hashDictionary.ParserBuffer.BufConfig.BlockSize.toNat :=
    congrArg BufCfg.blockSize hc
  have hW0 := hwf.1.w
  have hw' : f'.ParserBuffer.W.toNat ≤ f'.ParserBuffer.Data.len := hw
  have hs64 := hwf.2.2.2.2.1
  have hs64' := h.pok.wf.2.2.2.2.1
  have hi0 := hwf.2.2.1
  have := h.pok.il1
  have := h.pok.sh
  have := hbc.bmax
  refine ⟨⟨hwf, ?_, ?_, ?_, h.pok.bs0, ?_, ?_, ?_, ?_⟩, hcfg, hlen, hcap, h.il8⟩
  · show t.HPConfig.WindowSize.toNat = f'.ParserBuffer.BufConfig.WindowSize.toNat
    rw [hws]; exact h.pok.cws
  · show t.HPConfig.BlockSize.toNat = f'.ParserBuffer.BufConfig.BlockSize.toNat
    rw [hbs]; exact h.pok.cbs
  · show t.HPConfig.InputLen.toNat = f'.hash.inputLen.toNat
    rw [hil']; exact h.pok.cil
  · show f'.ParserBuffer.W ≤ (f'.ParserBuffer.Data.len : Int)
    omega
  · show 1 ≤ f'.hash.inputLen
    omega
  · show 32 ≤ f'.hash.shift.toNat
    omega
  · show f'.ParserBuffer.Data.len < 4294967296
    omega

/-! ## model-side frame facts -/

theorem mwrite_eq (s : Parser) (p : List Byte) :
    s.write p = ({ s with buf := (s.buf.write p).1 }, (s.buf.write p).2.1, (s.buf.write p).2.2) := by
  unfold Parser.write
  generalize s.buf.write p = x
  obtain ⟨b, n, e⟩ := x
  rfl

theorem mshrink_dict (s : Parser) (h : HashT) (hd : s.dict = .single h) :
    ∃ h', s.shrink.1.dict = .single h' ∧ h'.inputLen = h.inputLen ∧ h'.hashBits = h.hashBits := by
  unfold Parser.shrink
  generalize s.buf.shrink = x
  obtain ⟨b, d⟩ := x
  simp only []
  split
  · exact ⟨h, hd, rfl, rfl⟩
  · simp only [hd]
    refine ⟨_, rfl, ?_, ?_⟩ <;> (unfold HashT.shiftOffsets; split <;> rfl)

theorem mreset_dict (s : Parser) (h : HashT) (hd : s.dict = .single h) (data : List Byte) (ce : Nat) :
    ∃ h', (s.reset data ce).1.dict = .single h' ∧ h'.inputLen = h.inputLen ∧ h'.hashBits = h.hashBits := by
  unfold Parser.reset
  generalize s.buf.reset data ce = x
  obtain ⟨b, e⟩ := x
  simp only []
  split
  · simp only [Parser.clearDict, hd]
    exact ⟨_, rfl, rfl, rfl⟩
  · exact ⟨h, hd, rfl, rfl⟩

theorem capOK_shrink (b : PBuf) (h : b.CapOK) : b.shrink.1.CapOK := by
  obtain ⟨a1, a2, a3, a4, a5, a6⟩ := PBuf.shrink_frame b
  unfold PBuf.CapOK at h ⊢
  rw [a1, a5]
  rcases h with h | h
  · left; rw [h]; simp
  · right; simp only [List.length_drop]; omega

/-! ## Write -/

theorem hist_write {bc : BufCfg} (hbc : BCOK bc) (grow : Nat → Nat → Nat) (t : Gen.hashParser) (h : HistOK bc t)
    (p : Slice) (hp : SWF p) :
    ∃ t' n e, hp_Write grow t p = Res.ok (t', n, e) ∧ HistOK bc t' ∧
      ofHPs t' = ((ofHPs t).write p.data).1 ∧ n = (((ofHPs t).write p.data).2.1 : Int) ∧
      errOf e = some ((ofHPs t).write p.data).2.2 ∧
      (((ofHPs t).write p.data).2.2 = .ok ∨ ((ofHPs t).write p.data).2.2 = .full) := by
  have hA := gen_pbuf_write grow t.hashDictionary.ParserBuffer h.pok.wf.1 p hp
  obtain ⟨c, hc, hcm⟩ := PBuf.write_spec (ofPB t.hashDictionary.ParserBuffer) p.data h.mlen
  obtain ⟨a1, a2, a3, a4, a5, a6⟩ := PBuf.write_frame (ofPB t.hashDictionary.ParserBuffer) p.data
  have herr : (PBuf.write (ofPB t.hashDictionary.ParserBuffer) p.data).2.2 = .ok ∨
      (PBuf.write (ofPB t.hashDictionary.ParserBuffer) p.data).2.2 = .full := by
    rw [hc]; simp only []; split
    · right; rfl
    · left; rfl
  rw [mwrite_eq]
  simp only []
  show ∃ t' n e, hp_Write grow t p = Res.ok (t', n, e) ∧ HistOK bc t' ∧
      ofHPs t' = { ofHPs t with buf := (PBuf.write (ofPB t.hashDictionary.ParserBuffer) p.data).1 } ∧
      n = ((PBuf.write (ofPB t.hashDictionary.ParserBuffer) p.data).2.1 : Int) ∧
      errOf e = some (PBuf.write (ofPB t.hashDictionary.ParserBuffer) p.data).2.2 ∧ _
  unfold hp_Write
  cases hr : ParserBuffer_Write grow t.hashDictionary.ParserBuffer p with
  | ok v =>
    obtain ⟨b', n, e⟩ := v
    rw [hr] at hA
    obtain ⟨_, hof, hn, he, hwf⟩ := hA
    refine ⟨_, n, e, rfl, ?_, ?_, hn, he, herr⟩
    · refine histOK_update hbc h { t.hashDictionary with ParserBuffer := b' } ⟨hwf, h.pok.wf.2⟩ rfl rfl ?_ ?_ ?_ ?_
      · show (ofPB b').cfg = bc
        rw [hof, a5]; exact h.cfg
      · show (ofPB b').w ≤ (ofPB b').data.length
        rw [hof, a3, a1, List.length_append]
        have := h.hw
        show (ofPB t.hashDictionary.ParserBuffer).w ≤ (ofPB t.hashDictionary.ParserBuffer).data.length + _
        have h2 : (ofPB t.hashDictionary.ParserBuffer).w ≤ (ofPB t.hashDictionary.ParserBuffer).data.length := this
        omega
      · show (ofPB b').data.length ≤ bc.bufferSize
        rw [hof, hc]
        simp only [List.length_append, List.length_take]
        have h1 := h.mlen
        have h2 : (ofPB t.hashDictionary.ParserBuffer).cfg.bufferSize = bc.bufferSize := by rw [h.cfg.symm]; rfl
        have h1' : (ofPB t.hashDictionary.ParserBuffer).data.length ≤ (ofPB t.hashDictionary.ParserBuffer).cfg.bufferSize := h1
        omega
      · show (ofPB b').CapOK
        rw [hof]; exact a6 h.cap
    · show ofDict .HP (ofHP t.HPConfig) { t.hashDictionary with ParserBuffer := b' } = _
      simp only [ofDict, hof, ofHPs]
  | panic =>
    rw [hr] at hA
    have hA' : (PBuf.write (ofPB t.hashDictionary.ParserBuffer) p.data).2.2 = .panic := hA
    rcases herr with h1 | h1 <;> rw [h1] at hA' <;> cases hA'
  | fuel =>
    rw [hr] at hA
    exact absurd hA (by intro hc; exact hc)

/-! ## Shrink -/

theorem hist_shrink {bc : BufCfg} (hbc : BCOK bc) (t : Gen.hashParser) (h : HistOK bc t) :
    ∃ t', hp_Shrink t = Res.ok (t', ((ofHPs t).shrink.2 : Int)) ∧ HistOK bc t' ∧
      ofHPs t' = (ofHPs t).shrink.1 := by
  have hW := h.pok.w
  have hS := h.pok.small
  have hss := h.pok.wf.1.ss
  obtain ⟨f', hf, hof, hwf⟩ := gen_hp_shrink .HP (ofHP t.HPConfig) t.hashDictionary h.pok.wf (by omega) (by omega)
  unfold hp_Shrink
  rw [hf]
  refine ⟨_, rfl, ?_, hof⟩
  obtain ⟨h', hd', hi', hb'⟩ := mshrink_dict (ofHPs t) (ofHash t.hashDictionary.hash) rfl
  have hdict : Dict.single (ofHash f'.hash) = Dict.single h' := (congrArg Parser.dict hof).trans hd'
  injection hdict with hdict
  have hbuf : ofPB f'.ParserBuffer = (ofHPs t).shrink.1.buf := congrArg Parser.buf hof
  have hbuf' : ofPB f'.ParserBuffer = ofPB t.hashDictionary.ParserBuffer ∨
      ofPB f'.ParserBuffer = (ofPB t.hashDictionary.ParserBuffer).shrink.1 := by
    rcases shrink_eq (ofHPs t) with he | ⟨-, -, hb, -, -⟩
    · left; rw [hbuf, he]; rfl
    · right; rw [hbuf, hb]; rfl
  have hmw : (ofPB t.hashDictionary.ParserBuffer).w ≤ (ofPB t.hashDictionary.ParserBuffer).data.length := h.hw
  have hml : (ofPB t.hashDictionary.ParserBuffer).data.length ≤ bc.bufferSize := by
    have := h.mlen; rw [h.mcfg] at this; exact this
  refine histOK_update hbc h f' hwf (by rw [hdict]; exact hi') (by rw [hdict]; exact hb') ?_ ?_ ?_ ?_
  · rcases hbuf' with e | e
    · rw [e]; exact h.cfg
    · rw [e, (PBuf.shrink_frame _).2.2.2.1]; exact h.cfg
  · rcases hbuf' with e | e
    · rw [e]; exact hmw
    · obtain ⟨a1, a2, a3, a4, a5, a6⟩ := PBuf.shrink_frame (ofPB t.hashDictionary.ParserBuffer)
      rw [e, a1, List.length_drop]; omega
  · rcases hbuf' with e | e
    · rw [e]; exact hml
    · obtain ⟨a1, a2, a3, a4, a5, a6⟩ := PBuf.shrink_frame (ofPB t.hashDictionary.ParserBuffer)
      rw [e, a1, List.length_drop]; omega
  · rcases hbuf' with e | e
    · rw [e]; exact h.cap
    · rw [e]; exact capOK_shrink _ h.cap

/-! ## Reset -/

theorem hist_reset {bc : BufCfg} (hbc : BCOK bc) (t : Gen.hashParser) (h : HistOK bc t) (data : Slice)
    (hdat : SWF data) :
    ∃ t' e, hp_Reset t data = Res.ok (t', e) ∧ HistOK bc t' ∧
      ofHPs t' = ((ofHPs t).reset data.data (data.cap - data.len)).1 ∧
      errOfReset e = some ((ofHPs t).reset data.data (data.cap - data.len)).2 := by
  obtain ⟨f', e, hf, hof, herr, hwf⟩ := gen_hp_reset .HP (ofHP t.HPConfig) t.hashDictionary h.pok.wf data hdat
  unfold hp_Reset
  rw [hf]
  refine ⟨_, e, rfl, ?_, hof, herr⟩
  obtain ⟨h', hd', hi', hb'⟩ := mreset_dict (ofHPs t) (ofHash t.hashDictionary.hash) rfl data.data (data.cap - data.len)
  have hdict : Dict.single (ofHash f'.hash) = Dict.single h' := (congrArg Parser.dict hof).trans hd'
  injection hdict with hdict
  have hbuf : ofPB f'.ParserBuffer = ((ofHPs t).reset data.data (data.cap - data.len)).1.buf := congrArg Parser.buf hof
  have hmw : (ofPB t.hashDictionary.ParserBuffer).w ≤ (ofPB t.hashDictionary.ParserBuffer).data.length := h.hw
  have hml : (ofPB t.hashDictionary.ParserBuffer).data.length ≤ bc.bufferSize := by
    have := h.mlen; rw [h.mcfg] at this; exact this
  refine histOK_update hbc h f' hwf (by rw [hdict]; exact hi') (by rw [hdict]; exact hb') ?_ ?_ ?_ ?_
  all_goals
    rcases reset_eq (ofHPs t) data.data (data.cap - data.len) with ⟨-, hs⟩ | ⟨-, -, -, hb, hbe, -, -⟩
    · rw [hbuf, hs]
      first | exact h.cfg | exact hmw | exact hml | exact h.cap
    · rw [hbuf, hb]
      have hbe' : (PBuf.reset (ofPB t.hashDictionary.ParserBuffer) data.data (data.cap - data.len)).2 = .ok := hbe
      rcases PBuf.reset_frame (ofPB t.hashDictionary.ParserBuffer) data.data (data.cap - data.len) with
        ⟨-, b1, b2, b3, b4, b5⟩ | ⟨b0, -⟩
      · show _
        first
          | (show (PBuf.reset (ofPB t.hashDictionary.ParserBuffer) data.data (data.cap - data.len)).1.cfg = bc
             rw [b4]; exact h.cfg)
          | (show (PBuf.reset (ofPB t.hashDictionary.ParserBuffer) data.data (data.cap - data.len)).1.w ≤ _
             rw [b2]; exact Nat.zero_le _)
          | (show (PBuf.reset (ofPB t.hashDictionary.ParserBuffer) data.data (data.cap - data.len)).1.data.length ≤ bc.bufferSize
             rw [b1]
             have hno : ¬ (ofPB t.hashDictionary.ParserBuffer).cfg.bufferSize < data.data.length := by
               intro hc
               have := (PBuf.reset_err_iff _ data.data (data.cap - data.len)).mpr hc
               rw [hbe'] at this; cases this
             have hcc : (ofPB t.hashDictionary.ParserBuffer).cfg.bufferSize = bc.bufferSize := by rw [← h.cfg]; rfl
             omega)
          | exact b5
      · exact absurd hbe' b0

/-! ## Parse -/

theorem mem_le_sum : ∀ (l : List Nat) (a : Nat), a ∈ l → a ≤ l.sum := by
  intro l
  induction l with
  | nil => intro a h; cases h
  | cons x xs ih =>
    intro a h
    simp only [List.sum_cons]
    rcases List.mem_cons.mp h with rfl | h
    · omega
    · have := ih a h; omega

theorem seqsAll_mem {P : Nat → LZ.Seq → Prop} : ∀ (ss : List LZ.Seq) (pos : Nat), SeqsAll P pos ss →
    ∀ q ∈ ss, ∃ pos', P pos' q := by
  intro ss
  induction ss with
  | nil => intro pos _ q hq; cases hq
  | cons s ss ih =>
    intro pos ⟨a, b⟩ q hq
    rcases List.mem_cons.mp hq with rfl | hq
    · exact ⟨pos, a⟩
    · exact ih _ b q hq

theorem ofSeq_seqRep (q : LZ.Seq) (h1 : q.litLen < 2 ^ 32) (h2 : q.matchLen < 2 ^ 32) (h3 : q.offset < 2 ^ 32)
    (h4 : q.aux = 0) : ofSeq (seqRep q) = q := by
  obtain ⟨a, b, c, d⟩ := q
  simp only at h4; subst h4
  simp only [ofSeq, seqRep, toNat_ofInt32_small _ h1, toNat_ofInt32_small _ h2, toNat_ofInt32_small _ h3]
  rfl

/-- the facts about one model `parse` the simulation uses: only `W` moves, and the sequences of the block fit
    `uint32` -/
theorem mparse_frame (s : Parser) (flags : Nat) (hw : s.buf.w ≤ s.buf.data.length) (hmm : 1 ≤ s.minMatch)
    (hcap : s.buf.CapOK) (hnot : ∀ o, s.dict ≠ .osap o) (B : Nat) (hB : s.buf.data.length ≤ B)
    (hws : s.buf.cfg.windowSize ≤ B) :
    (s.parse flags).1.buf = { s.buf with w := s.buf.w + (s.parse flags).2.1 } ∧
    (s.parse flags).1.cfg = s.cfg ∧ s.buf.w + (s.parse flags).2.1 ≤ s.buf.data.length ∧
    ∀ q ∈ (s.parse flags).2.2.2.seqs, q.litLen ≤ B ∧ q.matchLen ≤ B ∧ q.offset ≤ B ∧ q.aux = 0 := by
  by_cases hn : s.blockN = 0
  · rw [Parser.parse_empty s flags hn]
    refine ⟨rfl, rfl, hw, ?_⟩
    intro q hq; cases hq
  · obtain ⟨s', n, blk, hp, hok, hd'⟩ :=
      Parser.parse_greedy_ok s flags hw hn hmm (Parser.marginOK_of_cap s hcap hn) hnot
    rw [hp]
    have hwl := hok.w_le hw
    refine ⟨hok.buf, hok.cfg, hwl, ?_⟩
    intro q hq
    have hlen := hok.block.len
    have hlits := hok.block.lits
    obtain ⟨pos', hq'⟩ := seqsAll_mem _ _ hok.block.all q hq
    have hwf : SeqWF s.buf.cfg.windowSize s.minMatch pos' q := hq'.1
    have hl : q.litLen ≤ litSum blk.seqs := mem_le_sum _ _ (List.mem_map.mpr ⟨q, hq, rfl⟩)
    have hm : q.matchLen ≤ matchSum blk.seqs := mem_le_sum _ _ (List.mem_map.mpr ⟨q, hq, rfl⟩)
    have hbl : blk.len = blk.lits.length + matchSum blk.seqs := Block.len_eq blk
    have h2 := hwf.2.1
    exact ⟨by omega, by omega, by omega, hwf.2.2.2.2⟩

theorem hist_parse {bc : BufCfg} (hbc : BCOK bc) (grow : Nat → Nat → Nat) (fuel : Nat) (t : Gen.hashParser)
    (h : HistOK bc t) (blk : Gen.Block') (flags : Int) (hfl : 0 ≤ flags)
    (hfuel : t.hashDictionary.ParserBuffer.Data.len + 3 ≤ fuel) :
    ∃ t' blk', hashParser_Parse grow fuel t blk flags =
        Res.ok (t', blk', (((ofHPs t).parse flags.toNat).2.1 : Int), parseErr ((ofHPs t).parse flags.toNat).2.2.1) ∧
      HistOK bc t' ∧ ofHPs t' = ((ofHPs t).parse flags.toNat).1 ∧
      ofBlock blk' = ((ofHPs t).parse flags.toNat).2.2.2 ∧ SWF blk'.Literals ∧
      (((ofHPs t).parse flags.toNat).2.2.1 = .ok ∨ ((ofHPs t).parse flags.toNat).2.2.1 = .empty) := by
  have hil1 := h.pok.il1
  have hcil := h.pok.cil
  have hil8 := h.il8
  have hb : ProbeW.Backing (ofHPs t) (staleOf t) := staleOf_length t h.pok.wf.1.data
  have hd : ProbeW.HashDictOK (ofHPs t).dict := by
    show 1 ≤ t.hashDictionary.hash.inputLen.toNat ∧ t.hashDictionary.hash.inputLen.toNat ≤ 8
    omega
  have hmm3 : (ofHPs t).minMatch = Min.min 3 t.HPConfig.InputLen.toNat := rfl
  have hW := ProbeW.parseW_eq (ofHPs t) (staleOf t) flags.toNat h.hw hb h.cap hd (by rw [hmm3]; omega)
  have hnot : ∀ o, (ofHPs t).dict ≠ .osap o := by intro o ho; cases ho
  have hbm := hbc.bmax
  have hwm := hbc.wmax
  obtain ⟨f1, f2, f3, f4⟩ := mparse_frame (ofHPs t) flags.toNat h.hw (by rw [hmm3]; omega) h.cap hnot 4294967288
    (by have := h.mlen; rw [h.mcfg] at this; omega) (by rw [h.mcfg]; exact hwm)
  have hm := gen_hp_parse grow fuel t blk flags h.pok hfl hfuel
  rw [hW] at hm
  generalize (ofHPs t).parse flags.toNat = R at hm f1 f2 f3 f4 ⊢
  obtain ⟨s', n, e, b⟩ := R
  simp only at hm f1 f2 f3 f4 ⊢
  obtain ⟨t', blk', h1, h2, h3, h4, h5, h6, h7, h8⟩ := hm
  refine ⟨t', blk', h1, ?_, h2, ?_, h7, h4⟩
  · have hbuf : ofPB t'.hashDictionary.ParserBuffer = _ := (congrArg Parser.buf h2).trans f1
    have hcfgP : ofHP t'.HPConfig = ofHP t.HPConfig := (congrArg Parser.cfg h2).trans f2
    have hHP : t'.HPConfig = t.HPConfig := by
      have := congrArg toHP hcfgP
      rw [toHP_ofHP, toHP_ofHP] at this; exact this
    refine ⟨h8, ?_, ?_, ?_, by rw [hHP]; exact h.il8⟩
    · have : (ofPB t'.hashDictionary.ParserBuffer).cfg = (ofPB t.hashDictionary.ParserBuffer).cfg := by rw [hbuf]; rfl
      exact this.trans h.cfg
    · have e : (ofPB t'.hashDictionary.ParserBuffer).data = (ofPB t.hashDictionary.ParserBuffer).data := by rw [hbuf]; rfl
      have e2 := congrArg List.length e
      have d1 : (ofPB t'.hashDictionary.ParserBuffer).data.length = t'.hashDictionary.ParserBuffer.Data.len :=
        data_length h8.wf.1.data
      have d2 : (ofPB t.hashDictionary.ParserBuffer).data.length = t.hashDictionary.ParserBuffer.Data.len :=
        data_length h.pok.wf.1.data
      have := h.len
      omega
    · have hc := h.cap
      unfold PBuf.CapOK at hc ⊢
      rw [hbuf]; exact hc
  · have hmap : List.map (ofSeq ∘ seqRep) b.seqs = b.seqs := by
      conv => rhs; rw [← List.map_id b.seqs]
      apply List.map_congr_left
      intro q hq
      obtain ⟨g1, g2, g3, g4⟩ := f4 q hq
      exact ofSeq_seqRep q (by omega) (by omega) (by omega) g4
    unfold ofBlock
    rw [h5, h6, List.map_map, hmap]

/-! ## init -/

/-- `hashParser.init(cfg)` on `new(hashParser)`: if it returns `nil`, the configuration is one the model's `NewParser`
    accepts, the Go state abstracts to the model's fresh parser, and `HistOK` holds for its buffer configuration -/
theorem hist_init (cfg : Gen.HPConfig) (s0 : Gen.hashParser)
    (hinit : hashParser_init default cfg = Res.ok (s0, Gen.Err.ok)) :
    ∃ p, newParser .HP (ofHP cfg) = some p ∧ ofHPs s0 = p ∧ BCOK p.buf.cfg ∧ HistOK p.buf.cfg s0 := by
  have hg := gen_hp_init default (ofHP cfg) (by unfold GWF; exact Nat.le_refl 0)
  rw [toHP_ofHP] at hg
  cases hp : newParser .HP (ofHP cfg) with
  | none =>
    rw [hp] at hg
    obtain ⟨e, he, hne⟩ := hg
    rw [hinit] at he
    injection he with he
    injection he with _ he
    exact absurd he.symm hne
  | some p =>
    obtain ⟨s', h1, h2, h3⟩ := gen_hp_init_parseOK (ofHP cfg) p hp
    rw [toHP_ofHP, hinit] at h1
    injection h1 with h1
    injection h1 with h1 _
    subst h1
    refine ⟨p, rfl, h2, ?_⟩
    unfold newParser at hp
    simp only [] at hp
    split at hp
    · rename_i hv
      simp only [Option.some.injEq] at hp
      generalize setDefaults .HP ((ofHP cfg).restrict .HP) = c at hv hp
      have hbv := verify_buf .HP c hv
      simp only [bufVerify, Facts.maxUint32, Facts.margin] at hbv
      replace hbv := of_decide_eq_true hbv
      have hbv' : c.bufferSize ≤ 4294967288 ∧ c.windowSize ≤ 4294967288 := by
        obtain ⟨⟨_, a⟩, _, ⟨_, b⟩, _⟩ := hbv
        exact ⟨by omega, by omega⟩
      have hhv : hashVerify c.inputLen c.hashBits Facts.maxHashBits = true := by
        simp only [verify, Bool.and_eq_true] at hv; exact hv.2
      simp only [hashVerify, Facts.maxInputLen] at hhv
      replace hhv := of_decide_eq_true hhv
      have hhv' : c.inputLen ≤ 8 := hhv.1.2
      have hbuf : (ofHPs s0).buf = PBuf.init c.bufCfg := by rw [h2, ← hp]
      have hcf : (ofHPs s0).cfg = c := by rw [h2, ← hp]
      have hpb : p.buf.cfg = c.bufCfg := by rw [← hp]; rfl
      have hI : s0.HPConfig.InputLen = c.inputLen := congrArg Cfg.inputLen hcf
      have hBC : BCOK p.buf.cfg := by
        rw [hpb]
        exact ⟨by show c.bufferSize.toNat ≤ _; omega, by show c.windowSize.toNat ≤ _; omega⟩
      refine ⟨hBC, h3, ?_, ?_, ?_, ?_⟩
      · rw [hpb]; exact congrArg PBuf.cfg hbuf
      · have : s0.hashDictionary.ParserBuffer.Data.len = 0 := by
          have := data_length h3.wf.1.data
          have e : s0.hashDictionary.ParserBuffer.Data.data = [] := congrArg PBuf.data hbuf
          rw [e] at this; exact this.symm
        rw [this]; exact Nat.zero_le _
      · left; exact congrArg PBuf.data hbuf
      · rw [hI]; omega
    · exact absurd hp (by simp)

end LZ.GenHPHist

#print axioms LZ.GenHPHist.hist_write
#print axioms LZ.GenHPHist.hist_shrink
#print axioms LZ.GenHPHist.hist_reset
#print axioms LZ.GenHPHist.hist_parse
#print axioms LZ.GenHPHist.hist_init
