/-
  LzProofs.GenBUPShrinkWitness — the hypothesis `ShiftSpec` of LzProofs/GenBUPShrink.lean (the specification of the opaque
  state-passing callee `(*bucketHash).shiftOffsets`) is SATISFIABLE: a witness `shiftK` computed from the model's
  `BucketT.shiftOffsets`.  No sorry, no axioms of its own.

    shiftBucket_fst_length   every compacted bucket has length exactly `bs` (for a bucket of length `≤ bs`)
    shiftBucket_fst_small    the entries of a compacted bucket are `< 2^32` in both components
    shiftBucket_snd_lt       the new ring index is `< bs`
    shiftOffsets_*           the same for the whole table (`indexes.size`, `buckets.size = n * bs`, entries, ring indices)
    shiftK, shiftK_spec      the witness and `ShiftSpec shiftK`
-/
import LzProofs.GenBUPShrink

set_option linter.unusedSimpArgs false
set_option linter.unusedVariables false

namespace LZ.GenBUPHist
open LZ LZ.Gen LZ.GenBuf LZ.GenHash LZ.GenHPParse LZ.GenBUPParse LZ.GenProps

/-- both components fit `uint32` -/
def Small (e : Nat × Nat) : Prop := e.1 < 2 ^ 32 ∧ e.2 < 2 ^ 32

def toBEntry (e : Nat × Nat) : Gen.bucketEntry := { pos := UInt32.ofNat e.1, val := UInt32.ofNat e.2 }

theorem ofBEntry_toBEntry (e : Nat × Nat) (h : Small e) : ofBEntry (toBEntry e) = e := by
  obtain ⟨a, b⟩ := e
  obtain ⟨h1, h2⟩ := h
  simp only [ofBEntry, toBEntry, UInt32.toNat_ofNat']
  simp only at h1 h2
  rw [Nat.mod_eq_of_lt h1, Nat.mod_eq_of_lt h2]

theorem small_ofBEntry (e : Gen.bucketEntry) : Small (ofBEntry e) :=
  ⟨UInt32.toNat_lt _, UInt32.toNat_lt _⟩

/-! ## list helpers -/

theorem map_map_id {α β : Type} (f : β → α) (k : α → β) :
    ∀ l : List α, (∀ e ∈ l, f (k e) = e) → (l.map k).map f = l
  | [], _ => rfl
  | a :: l, h => by
    simp only [List.map_cons]
    rw [h a (List.mem_cons_self), map_map_id f k l (fun e he => h e (List.mem_cons_of_mem _ he))]

theorem sum_map_const {α : Type} (f : α → Nat) (c : Nat) :
    ∀ l : List α, (∀ x ∈ l, f x = c) → (l.map f).sum = l.length * c
  | [], _ => by simp
  | a :: l, h => by
    simp only [List.map_cons, List.sum_cons, List.length_cons]
    rw [h a (List.mem_cons_self), sum_map_const f c l (fun e he => h e (List.mem_cons_of_mem _ he)), Nat.succ_mul]
    omega

theorem getD_prop {α : Type} (P : α → Prop) (l : List α) (d : α) (h : Nat) (hl : h < l.length)
    (hP : ∀ x ∈ l, P x) : P (l.getD h d) := by
  rw [List.getD_eq_getElem?_getD, List.getElem?_eq_getElem hl]
  exact hP _ (List.getElem_mem hl)

/-! ## one bucket -/

theorem shiftBucket_fst_length (bs d : Nat) (bucket : List (Nat × Nat)) (j : Nat) (h : bucket.length ≤ bs) :
    (BucketT.shiftBucket bs d bucket j).1.length = bs := by
  unfold BucketT.shiftBucket
  simp only [List.length_append, List.length_map, List.length_replicate]
  have h1 := List.length_filter_le (fun e : Nat × Nat => decide (¬ e.1 < d)) (bucket.drop j ++ bucket.take j)
  simp only [List.length_append, List.length_drop, List.length_take] at h1
  omega

theorem shiftBucket_fst_small (bs d : Nat) (bucket : List (Nat × Nat)) (j : Nat) (h : ∀ e ∈ bucket, Small e) :
    ∀ e ∈ (BucketT.shiftBucket bs d bucket j).1, Small e := by
  intro e he
  unfold BucketT.shiftBucket at he
  simp only [List.mem_append, List.mem_map, List.mem_filter, List.mem_replicate] at he
  rcases he with ⟨x, ⟨hx, -⟩, rfl⟩ | ⟨-, rfl⟩
  · have hs : Small x := by
      rcases hx with hx | hx
      · exact h x (List.mem_of_mem_drop hx)
      · exact h x (List.mem_of_mem_take hx)
    obtain ⟨h1, h2⟩ := hs
    exact ⟨by show x.1 - d < 2 ^ 32; omega, h2⟩
  · exact ⟨by decide, by decide⟩

theorem shiftBucket_snd_lt (bs d : Nat) (bucket : List (Nat × Nat)) (j : Nat) (h : 1 ≤ bs) :
    (BucketT.shiftBucket bs d bucket j).2 < bs := by
  unfold BucketT.shiftBucket
  simp only
  split <;> omega

/-! ## the whole table -/

theorem shiftOffsets_indexes_size (b : BucketT) (d : Nat) (hd : d ≠ 0) :
    (b.shiftOffsets d).indexes.size = b.indexes.size := by
  simp [BucketT.shiftOffsets, hd]

theorem shiftOffsets_cfg (b : BucketT) (d : Nat) :
    (b.shiftOffsets d).inputLen = b.inputLen ∧ (b.shiftOffsets d).hashBits = b.hashBits ∧
      (b.shiftOffsets d).bucketSize = b.bucketSize := by
  unfold BucketT.shiftOffsets
  split <;> exact ⟨rfl, rfl, rfl⟩

theorem extract_length_le (a : Array (Nat × Nat)) (h bs : Nat) :
    (a.extract (h * bs) ((h + 1) * bs)).toList.length ≤ bs := by
  rw [Array.length_toList, Array.size_extract, Nat.succ_mul]
  omega

theorem mem_extract_toList (a : Array (Nat × Nat)) (i j : Nat) (e : Nat × Nat)
    (he : e ∈ (a.extract i j).toList) : e ∈ a.toList := by
  rw [Array.toList_extract, List.extract_eq_take_drop] at he
  exact List.mem_of_mem_drop (List.mem_of_mem_take he)

theorem shiftOffsets_buckets_size (b : BucketT) (d : Nat) (hd : d ≠ 0) :
    (b.shiftOffsets d).buckets.size = b.indexes.size * b.bucketSize := by
  simp only [BucketT.shiftOffsets, hd, if_false, List.size_toArray, List.length_flatten, List.map_map]
  rw [sum_map_const _ b.bucketSize]
  · simp
  · intro h _
    exact shiftBucket_fst_length _ _ _ _ (extract_length_le _ _ _)

theorem shiftOffsets_buckets_small (b : BucketT) (d : Nat) (hs : ∀ e ∈ b.buckets.toList, Small e) :
    ∀ e ∈ (b.shiftOffsets d).buckets.toList, Small e := by
  intro e he
  unfold BucketT.shiftOffsets at he
  split at he
  · exact hs e he
  · simp only [List.mem_flatten, List.mem_map, List.mem_range] at he
    obtain ⟨l, ⟨r, ⟨h, -, rfl⟩, rfl⟩, hel⟩ := he
    exact shiftBucket_fst_small _ _ _ _ (fun x hx => hs x (mem_extract_toList _ _ _ _ hx)) e hel

theorem shiftOffsets_indexes_lt (b : BucketT) (d : Nat) (hd : d ≠ 0) (hbs : 1 ≤ b.bucketSize) :
    ∀ i ∈ (b.shiftOffsets d).indexes.toList, i < b.bucketSize := by
  intro i hi
  simp only [BucketT.shiftOffsets, hd, if_false, List.mem_map, List.mem_range] at hi
  obtain ⟨r, ⟨h, -, rfl⟩, rfl⟩ := hi
  exact shiftBucket_snd_lt _ _ _ _ hbs

/-! ## the witness -/

/-- a witness for the opaque `(*bucketHash).shiftOffsets`: the model's table, written back -/
def shiftK : SOFun := fun g delta =>
  Res.ok { g with
    buckets := { arr := ((ofBucket g).shiftOffsets delta.toNat).buckets.toList.map toBEntry,
                 len := ((ofBucket g).shiftOffsets delta.toNat).buckets.size },
    indexes := { arr := ((ofBucket g).shiftOffsets delta.toNat).indexes.toList.map UInt8.ofNat,
                 len := ((ofBucket g).shiftOffsets delta.toNat).indexes.size } }

/-- **`ShiftSpec` is satisfiable** -/
theorem shiftK_spec : ShiftSpec shiftK := by
  intro g delta hb hd
  have hd0 : delta.toNat ≠ 0 := by omega
  refine ⟨_, rfl, ?_, ?_, ⟨rfl, rfl, rfl, rfl⟩⟩
  all_goals
    generalize hm : (ofBucket g).shiftOffsets delta.toNat = m
  all_goals
    have hbs1 : 1 ≤ g.bucketSize.toNat := by have := hb.bs1; omega
    have hbs2 : g.bucketSize.toNat ≤ 256 := by have := hb.bs2; omega
    have hcfg := shiftOffsets_cfg (ofBucket g) delta.toNat
    have hisz : m.indexes.size = g.indexes.len := by
      rw [← hm, shiftOffsets_indexes_size _ _ hd0]
      simp only [GenHash.ofBucket, List.size_toArray, List.length_map]
      exact data_length hb.swf
    have hbsz : m.buckets.size = g.indexes.len * g.bucketSize.toNat := by
      rw [← hm, shiftOffsets_buckets_size _ _ hd0]
      simp only [GenHash.ofBucket, List.size_toArray, List.length_map]
      rw [data_length hb.swf]
    have hsm : ∀ e ∈ m.buckets.toList, Small e := by
      rw [← hm]
      apply shiftOffsets_buckets_small
      intro e he
      simp only [GenHash.ofBucket, List.mem_map] at he
      obtain ⟨x, -, rfl⟩ := he
      exact small_ofBEntry x
    have hil : ∀ i ∈ m.indexes.toList, i < g.bucketSize.toNat := by
      rw [← hm]
      exact shiftOffsets_indexes_lt _ _ hd0 hbs1
    rw [hm] at hcfg
  · -- ofBucket g' = m
    apply bucketT_ext
    · simp only [GenHash.ofBucket, GSlice.data]
      rw [List.take_of_length_le (by simp)]
      exact map_map_id _ _ _ (fun e he => ofBEntry_toBEntry e (hsm e he))
    · simp only [GenHash.ofBucket, Slice.data]
      rw [List.take_of_length_le (by simp)]
      refine map_map_id _ _ _ (fun i hi => ?_)
      have := hil i hi
      rw [UInt8.toNat_ofNat', Nat.mod_eq_of_lt (by omega)]
    · exact hcfg.1.symm
    · exact hcfg.2.1.symm
    · exact hcfg.2.2.symm
  · -- BOK g'
    refine ⟨?_, ?_, hb.bs1, hb.bs2, ?_, ?_, ?_⟩
    · show m.buckets.size ≤ (m.buckets.toList.map toBEntry).length
      simp
    · show m.indexes.size ≤ (m.indexes.toList.map UInt8.ofNat).length
      simp
    · show m.indexes.size = 2 ^ (64 - g.shift.toNat)
      rw [hisz, hb.ilen]
    · show m.buckets.size = 2 ^ (64 - g.shift.toNat) * g.bucketSize.toNat
      rw [hbsz, hb.ilen]
    · intro h hh
      show ((m.indexes.toList.map UInt8.ofNat).getD h 0).toNat < g.bucketSize.toNat
      apply getD_prop (fun x : UInt8 => x.toNat < g.bucketSize.toNat)
      · simpa using hh
      · intro x hx
        simp only [List.mem_map] at hx
        obtain ⟨i, hi, rfl⟩ := hx
        have := hil i hi
        rw [UInt8.toNat_ofNat', Nat.mod_eq_of_lt (by omega)]
        exact this

end LZ.GenBUPHist

#print axioms LZ.GenBUPHist.shiftK_spec
