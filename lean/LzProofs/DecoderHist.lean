/-
  LzProofs.DecoderHist — the history-level theorem for `Decoder` (decoder_buffer.go), properties
  C04, C06, C17, C18.  The per-call theorems of LzProofs.DecoderProps / DecoderWB are stated for one
  call from a state satisfying `DecBuf.Inv` (and `Hist`); this module composes them over ARBITRARY
  lists of calls starting from `Init` with an accepted configuration.

  * `DOp`   : `writeByte c | write p | writeBlock seqs lits | flush | reset resps` (the methods of
              Go's `Decoder`; `reset resps` installs a fresh scripted writer).
  * `runD`  : runs a history on the model and records every call with its results (`DObs`).
  * `refOf` : ghost — the reference LZ77 expansion (`expandSeqs`) of what the calls REPORT as
              consumed since the last `Reset` (`n` for `Write`, `k`/`l` for `WriteBlock`, `err` for
              `WriteByte`); it is computed from the recorded results only.
  * `DInv d ref` : `DecBuf.Inv`, `Hist`, `ref = got ++ Data[R:]`, `Off = len(ref)`.
  * `StepOK` : contract of one call (no hang/panic marker, admissible errors, error surfacing,
              result equations `ResultOK`).
  * `decoder_history` : the main theorem; `C06_history_no_hang`, `C18_history_prefix`,
              `C17_history_off`, `C18_history_flush_exactly_once`, `C18_history_retry_*` corollaries.

  Everything holds for every growth function `g : Grow` without hypothesis (`WBSpec g` is discharged
  by `wbSpec g`).  New per-call facts needed for the composition and proved here: `Off` across the
  Decoder loops (`writeByte_off`, `write_off`, `writeBlock_off`, `DecBuf.writeBlock_off`), and
  `Decoder.WriteBlock` never returns `ErrFullBuffer` (`writeBlock_not_full`).
-/
import LzProofs.DecoderWB
namespace LZ
open DecBuf Decoder

/-! ## A. `Off` across the Decoder calls (not covered by the per-call theorems) -/

namespace DecBuf

theorem writeBlock_off (g : Grow) (b : DecBuf) (blk : Block) (h : Inv b) :
    ((b.writeBlock g blk).1.off : Int) = (b.off : Int) + (b.writeBlock g blk).2.1 := by
  obtain ⟨_, _, _, _, _, _, _, _, ⟨x, _, _, hn, _⟩⟩ := wbuf_post g b blk h
  have hstruct : (b.writeBlock g blk).1.off = ((b.off : Int) + (b.writeBlock g blk).2.1).toNat := by
    rw [DecBuf.writeBlock_eq]
    generalize hsl : seqLoop g b blk.seqs blk.lits 0 0 = sl
    obtain ⟨b1, k1, lits1, dl1, e1⟩ := sl
    obtain ⟨j, w', _, _, _, _, e5, _⟩ :=
      DecBuf.seqLoop_spec g blk.seqs b b.data b.r blk.lits 0 0 _ _ _ _ _ (AbsD.self h) hsl
    have hsh := fun n => (shrink_props b1 n).2.2.2.2.1
    simp only
    split
    · simp only [wbFin, e5]
    · split
      · split
        · simp only [wbFin, hsh, e5]
        · simp only [wbFin, append_off, hsh, e5]
      · simp only [wbFin, append_off, e5]
  rw [hstruct, hn]
  omega

end DecBuf

namespace Decoder

/-- `Off` and the log grow in step between two decoder states -/
def OffStep (d d' : Decoder) : Prop := d'.buf.off + d.log.length = d.buf.off + d'.log.length

theorem OffStep.refl (d : Decoder) : OffStep d d := rfl

theorem OffStep.trans {a b c : Decoder} (h1 : OffStep a b) (h2 : OffStep b c) : OffStep a c := by
  unfold OffStep at *; omega

theorem OffStep.buf (d : Decoder) (b' : DecBuf) (x : List Byte)
    (hp : b'.pending = d.buf.pending ++ x) (ho : b'.off = d.buf.off + x.length) :
    OffStep d { d with buf := b' } := by
  unfold OffStep log
  simp only [hp, ho, List.length_append]; omega

theorem OffStep.writeTo (d : Decoder) (h : DecBuf.Inv d.buf) : OffStep d d.writeTo.1 := by
  unfold OffStep
  rw [writeTo_log d h]
  rfl

theorem writeByte_off (g : Grow) (d : Decoder) (c : Byte) (h : DecBuf.Inv d.buf) :
    OffStep d (d.writeByte g c).1 := by
  fun_induction Decoder.writeByte g d c with
  | case1 d b e hb d1 hne =>
    obtain ⟨s1, s2, s3, s4⟩ := DecBuf.writeByte_spec g d.buf c h
    rw [hb] at s1 s2 s3 s4
    rcases s4 with ⟨_, e2, e3⟩ | ⟨_, e2, e3, _⟩
    · exact OffStep.buf d b [c] e2 e3
    · exact OffStep.buf d b [] (by simpa using e2) (by simpa using e3)
  | case2 d b e hb d1 hfull d2 k e2 hw hne =>
    obtain ⟨s1, s2, s3, s4⟩ := DecBuf.writeByte_spec g d.buf c h
    rw [hb] at s1 s2 s3 s4
    have h1 : OffStep d d1 := by
      rcases s4 with ⟨_, e2, e3⟩ | ⟨_, e2, e3, _⟩
      · exact OffStep.buf d b [c] e2 e3
      · exact OffStep.buf d b [] (by simpa using e2) (by simpa using e3)
    have h2 := OffStep.writeTo d1 s1
    rw [hw] at h2
    exact h1.trans h2
  | case3 d b e hb d1 hfull d2 k e2 hw hok hprog ih =>
    obtain ⟨s1, s2, s3, s4⟩ := DecBuf.writeByte_spec g d.buf c h
    rw [hb] at s1 s2 s3 s4
    have h1 : OffStep d d1 := by
      rcases s4 with ⟨_, e2, e3⟩ | ⟨_, e2, e3, _⟩
      · exact OffStep.buf d b [c] e2 e3
      · exact OffStep.buf d b [] (by simpa using e2) (by simpa using e3)
    have h2 := OffStep.writeTo d1 s1
    have t1 := (writeTo_spec d1 s1).1
    rw [hw] at h2 t1
    exact (h1.trans h2).trans (ih t1)
  | case4 d b e hb d1 hfull d2 k e2 hw hok hprog =>
    obtain ⟨s1, s2, s3, s4⟩ := DecBuf.writeByte_spec g d.buf c h
    rw [hb] at s1 s2 s3 s4
    have h1 : OffStep d d1 := by
      rcases s4 with ⟨_, e2, e3⟩ | ⟨_, e2, e3, _⟩
      · exact OffStep.buf d b [c] e2 e3
      · exact OffStep.buf d b [] (by simpa using e2) (by simpa using e3)
    have h2 := OffStep.writeTo d1 s1
    rw [hw] at h2
    exact h1.trans h2

theorem OffStep.bufWrite (g : Grow) (d : Decoder) (q : List Byte) (h : DecBuf.Inv d.buf)
    {b : DecBuf} {k : Nat} {e : Err} (hb : d.buf.write g q = (b, k, e)) :
    DecBuf.Inv b ∧ OffStep d { d with buf := b } := by
  obtain ⟨s1, _, _, s4⟩ := DecBuf.write_spec' g d.buf q h hb
  refine ⟨s1, ?_⟩
  rcases s4 with ⟨_, _, e2, e3⟩ | ⟨_, _, e2, e3, _⟩
  · exact OffStep.buf d b q e2 e3
  · exact OffStep.buf d b [] (by simpa using e2) (by simpa using e3)

theorem write_off (g : Grow) (d : Decoder) (p : List Byte) (acc : Nat) (h : DecBuf.Inv d.buf) :
    OffStep d (d.write g p acc).1 := by
  fun_induction Decoder.write g d p acc with
  | case1 d p acc hp => exact OffStep.refl d
  | case2 d p acc hp m q b k d1 hk hb ih =>
    obtain ⟨s1, h1⟩ := OffStep.bufWrite g d q h hb
    exact h1.trans (ih s1)
  | case3 d p acc hp m q b k d1 hk hb =>
    exact (OffStep.bufWrite g d q h hb).2
  | case4 d p acc hp m q b k e hb d1 hne hnf =>
    exact (OffStep.bufWrite g d q h hb).2
  | case5 d p acc hp m q b k e hb d1 hne hfull d2 f e2 hw hne2 =>
    obtain ⟨s1, h1⟩ := OffStep.bufWrite g d q h hb
    have h2 := OffStep.writeTo d1 s1
    rw [hw] at h2
    exact h1.trans h2
  | case6 d p acc hp m q b k e hb d1 hne hfull d2 f e2 hw hok hprog ih =>
    obtain ⟨s1, h1⟩ := OffStep.bufWrite g d q h hb
    have h2 := OffStep.writeTo d1 s1
    have t1 := (writeTo_spec d1 s1).1
    rw [hw] at h2 t1
    exact (h1.trans h2).trans (ih t1)
  | case7 d p acc hp m q b k e hb d1 hne hfull d2 f e2 hw hok hprog =>
    obtain ⟨s1, h1⟩ := OffStep.bufWrite g d q h hb
    have h2 := OffStep.writeTo d1 s1
    rw [hw] at h2
    exact h1.trans h2

theorem OffStep.bufWriteBlock (g : Grow) (d : Decoder) (seqs : List Seq) (lits : List Byte)
    (h : DecBuf.Inv d.buf) {b : DecBuf} {nn : Int} {kk ll : Nat} {e : Err}
    (hb : d.buf.writeBlock g ⟨seqs, lits⟩ = (b, nn, kk, ll, e)) :
    DecBuf.Inv b ∧ OffStep d { d with buf := b } := by
  obtain ⟨s1, _, _, _, _, _, _, _, ⟨x, _, s9, s10, _⟩⟩ := DecBuf.wbuf_post g d.buf ⟨seqs, lits⟩ h
  have ho := DecBuf.writeBlock_off g d.buf ⟨seqs, lits⟩ h
  rw [hb] at s1 s9 s10 ho
  simp only at s1 s9 s10 ho
  exact ⟨s1, OffStep.buf d b x s9 (by omega)⟩

theorem writeBlock_off (g : Grow) (d : Decoder) (seqs : List Seq) (lits : List Byte) (n : Int)
    (k l : Nat) (h : DecBuf.Inv d.buf) : OffStep d (d.writeBlock g seqs lits n k l).1 := by
  refine Decoder.writeBlock.induct g
    (motive := fun d seqs lits n k l => DecBuf.Inv d.buf → OffStep d (d.writeBlock g seqs lits n k l).1)
    ?_ ?_ ?_ ?_ ?_ ?_ d seqs lits n k l h
  · intro d seqs lits n k l b nn kk ll e hb hne h
    rw [writeBlock_eq]
    simp only [hb]
    rw [if_pos hne]
    exact (OffStep.bufWriteBlock g d seqs lits h hb).2
  · intro d seqs lits n k l b nn kk ll e hb d1 hfull seqs' lits' hs d2 m e2 hw h
    rw [writeBlock_eq]
    simp only [hb]
    rw [if_neg hfull, if_pos hs]
    obtain ⟨s1, h1⟩ := OffStep.bufWriteBlock g d seqs lits h hb
    have h2 := write_off g d1 lits' 0 s1
    exact h1.trans h2
  · intro d seqs lits n k l b nn kk ll e hb d1 hfull seqs' hs d2 f e2 hw hne2 h
    rw [writeBlock_eq]
    simp only [hb]
    rw [if_neg hfull, if_neg hs]
    have hw' : ({ buf := b, w := d.w } : Decoder).writeTo = (d2, f, e2) := hw
    simp only [hw']
    rw [if_pos hne2]
    obtain ⟨s1, h1⟩ := OffStep.bufWriteBlock g d seqs lits h hb
    have h2 := OffStep.writeTo d1 s1
    rw [hw] at h2
    exact h1.trans h2
  · intro d seqs lits n k l b nn kk ll e hb d1 n1 k1 l1 hfull seqs' lits' hs d2 f e2 hw hok hk ih h
    rw [writeBlock_eq]
    simp only [hb]
    rw [if_neg hfull, if_neg hs]
    have hw' : ({ buf := b, w := d.w } : Decoder).writeTo = (d2, f, e2) := hw
    simp only [hw']
    rw [if_neg hok, if_pos (Or.inl hk)]
    obtain ⟨s1, h1⟩ := OffStep.bufWriteBlock g d seqs lits h hb
    have h2 := OffStep.writeTo d1 s1
    have t1 := (writeTo_spec d1 s1).1
    rw [hw] at h2 t1
    exact (h1.trans h2).trans (ih t1)
  · intro d seqs lits n k l b nn kk ll e hb d1 n1 k1 l1 hfull seqs' lits' hs d2 f e2 hw hok hk hf ih h
    rw [writeBlock_eq]
    simp only [hb]
    rw [if_neg hfull, if_neg hs]
    have hw' : ({ buf := b, w := d.w } : Decoder).writeTo = (d2, f, e2) := hw
    simp only [hw']
    rw [if_neg hok, if_pos (Or.inr hf)]
    obtain ⟨s1, h1⟩ := OffStep.bufWriteBlock g d seqs lits h hb
    have h2 := OffStep.writeTo d1 s1
    have t1 := (writeTo_spec d1 s1).1
    rw [hw] at h2 t1
    exact (h1.trans h2).trans (ih t1)
  · intro d seqs lits n k l b nn kk ll e hb d1 hfull seqs' hs d2 f e2 hw hok hk hf h
    rw [writeBlock_eq]
    simp only [hb]
    rw [if_neg hfull, if_neg hs]
    have hw' : ({ buf := b, w := d.w } : Decoder).writeTo = (d2, f, e2) := hw
    simp only [hw']
    rw [if_neg hok, if_neg (not_or.mpr ⟨hk, hf⟩)]
    obtain ⟨s1, h1⟩ := OffStep.bufWriteBlock g d seqs lits h hb
    have h2 := OffStep.writeTo d1 s1
    rw [hw] at h2
    exact h1.trans h2

/-- `Decoder.WriteBlock` never hands the buffer's `ErrFullBuffer` to its caller: the buffer errors
    that remain are the three block errors. -/
theorem writeBlock_not_full (g : Grow) (d : Decoder) (seqs : List Seq) (lits : List Byte) (n : Int)
    (k l : Nat) (h : DecBuf.Inv d.buf) : (d.writeBlock g seqs lits n k l).2.2.2.2 ≠ .full := by
  refine Decoder.writeBlock.induct g
    (motive := fun d seqs lits n k l => DecBuf.Inv d.buf → (d.writeBlock g seqs lits n k l).2.2.2.2 ≠ .full)
    ?_ ?_ ?_ ?_ ?_ ?_ d seqs lits n k l h
  · intro d seqs lits n k l b nn kk ll e hb hne h
    rw [writeBlock_eq]
    simp only [hb]
    rw [if_pos hne]
    exact hne
  · intro d seqs lits n k l b nn kk ll e hb d1 hfull seqs' lits' hs d2 m e2 hw h
    rw [writeBlock_eq]
    simp only [hb]
    rw [if_neg hfull, if_pos hs]
    obtain ⟨s1, _⟩ := OffStep.bufWriteBlock g d seqs lits h hb
    have := (Decoder.write_spec g d1 lits' 0 s1).2.2.2.1
    rcases this with h1 | h1 | ⟨c, h1⟩ <;> simp only [d1, lits'] at h1 <;> simp [h1]
  · intro d seqs lits n k l b nn kk ll e hb d1 hfull seqs' hs d2 f e2 hw hne2 h
    rw [writeBlock_eq]
    simp only [hb]
    rw [if_neg hfull, if_neg hs]
    have hw' : ({ buf := b, w := d.w } : Decoder).writeTo = (d2, f, e2) := hw
    simp only [hw']
    rw [if_pos hne2]
    obtain ⟨s1, _⟩ := OffStep.bufWriteBlock g d seqs lits h hb
    have := (writeTo_spec d1 s1).2.2.2.2.2.2.2.2.1
    rw [hw] at this
    rcases this with h1 | h1 | ⟨c, h1⟩ <;> simp at h1 <;> simp [h1]
  · intro d seqs lits n k l b nn kk ll e hb d1 n1 k1 l1 hfull seqs' lits' hs d2 f e2 hw hok hk ih h
    rw [writeBlock_eq]
    simp only [hb]
    rw [if_neg hfull, if_neg hs]
    have hw' : ({ buf := b, w := d.w } : Decoder).writeTo = (d2, f, e2) := hw
    simp only [hw']
    rw [if_neg hok, if_pos (Or.inl hk)]
    obtain ⟨s1, _⟩ := OffStep.bufWriteBlock g d seqs lits h hb
    have t1 := (writeTo_spec d1 s1).1
    rw [hw] at t1
    exact ih t1
  · intro d seqs lits n k l b nn kk ll e hb d1 n1 k1 l1 hfull seqs' lits' hs d2 f e2 hw hok hk hf ih h
    rw [writeBlock_eq]
    simp only [hb]
    rw [if_neg hfull, if_neg hs]
    have hw' : ({ buf := b, w := d.w } : Decoder).writeTo = (d2, f, e2) := hw
    simp only [hw']
    rw [if_neg hok, if_pos (Or.inr hf)]
    obtain ⟨s1, _⟩ := OffStep.bufWriteBlock g d seqs lits h hb
    have t1 := (writeTo_spec d1 s1).1
    rw [hw] at t1
    exact ih t1
  · intro d seqs lits n k l b nn kk ll e hb d1 hfull seqs' hs d2 f e2 hw hok hk hf h
    rw [writeBlock_eq]
    simp only [hb]
    rw [if_neg hfull, if_neg hs]
    have hw' : ({ buf := b, w := d.w } : Decoder).writeTo = (d2, f, e2) := hw
    simp only [hw']
    rw [if_neg hok, if_neg (not_or.mpr ⟨hk, hf⟩)]
    simp [hangErr]

end Decoder

/-! ## B. histories of `Decoder` calls -/

namespace DecoderHist

/-- the calls of `Decoder` (decoder_buffer.go: `WriteByte`, `Write`, `WriteBlock`, `Flush`,
    `Reset(w)`).  `reset resps` installs a fresh scripted writer (responses `resps`, nothing
    received yet). -/
inductive DOp where
  | writeByte (c : Byte)
  | write (p : List Byte)
  | writeBlock (seqs : List Seq) (lits : List Byte)
  | flush
  | reset (resps : List (Nat × Nat))
deriving Repr

/-- what a call returns: `err`, and `n`, `k`, `l` where the Go method has them (0 otherwise) -/
structure DObs where
  err : Err
  n : Int
  k : Nat
  l : Nat
deriving Repr, DecidableEq

/-- one call on the model (the accumulator arguments of `Decoder.write` / `Decoder.writeBlock`
    start at 0, as in the Go methods) -/
def stepD (g : Grow) (d : Decoder) : DOp → Decoder × DObs
  | .writeByte c => ((d.writeByte g c).1, ⟨(d.writeByte g c).2, 0, 0, 0⟩)
  | .write p => ((d.write g p 0).1, ⟨(d.write g p 0).2.2, (d.write g p 0).2.1, 0, 0⟩)
  | .writeBlock seqs lits =>
    ((d.writeBlock g seqs lits 0 0 0).1,
      ⟨(d.writeBlock g seqs lits 0 0 0).2.2.2.2, (d.writeBlock g seqs lits 0 0 0).2.1,
        (d.writeBlock g seqs lits 0 0 0).2.2.1, (d.writeBlock g seqs lits 0 0 0).2.2.2.1⟩)
  | .flush => (d.flush.1, ⟨d.flush.2, 0, 0, 0⟩)
  | .reset resps => (d.reset ⟨resps, []⟩, ⟨.ok, 0, 0, 0⟩)

/-- run a history; the calls with their results are recorded in order -/
def runD (g : Grow) (d : Decoder) : List DOp → Decoder × List (DOp × DObs)
  | [] => (d, [])
  | op :: ops =>
    ((runD g (stepD g d op).1 ops).1, (op, (stepD g d op).2) :: (runD g (stepD g d op).1 ops).2)

/-- Ghost: the reference LZ77 expansion of what the calls *report* as consumed.  It only uses the
    call's arguments, its results (`err` for `WriteByte`, `n` for `Write`, `k` and `l` for
    `WriteBlock`) and the reference expander `expandSeqs`: `k` sequences, then the literals beyond
    those of the `k` sequences up to `l`. -/
def refStep (ref : List Byte) : DOp → DObs → List Byte
  | .writeByte c, o => if o.err = .ok then ref ++ [c] else ref
  | .write p, o => ref ++ p.take o.n.toNat
  | .writeBlock seqs lits, o =>
    match expandSeqs ref lits (seqs.take o.k) with
    | some (out, rest) => out ++ rest.take (o.l - (lits.length - rest.length))
    | none => ref
  | .flush, _ => ref
  | .reset _, _ => []

/-- the ghost after a recorded history -/
def refOf (ref : List Byte) (tr : List (DOp × DObs)) : List Byte :=
  tr.foldl (fun r x => refStep r x.1 x.2) ref

/-- the state invariant, relative to the ghost `ref` -/
structure DInv (d : Decoder) (ref : List Byte) : Prop where
  /-- `R ≤ len(Data) ≤ BufferSize`, `WindowSize < BufferSize` -/
  inv : DecBuf.Inv d.buf
  /-- `Data[:R]` is the tail of what the writer has received -/
  hist : Decoder.Hist d
  /-- each byte once, in order, nothing lost: received by the writer ++ still buffered = `ref` -/
  log : ref = d.w.got ++ d.buf.data.drop d.buf.r
  /-- C17: `Off` = number of bytes written since Init/Reset -/
  off : d.buf.off = ref.length

/-- the errors a call may return (C06/C18): `ok`, the writer's own error or `ErrShortWrite`
    (`WErr`), and for `WriteBlock` the three block errors — never `ErrFullBuffer`, the hang marker,
    or the panic marker -/
def ErrOK : DOp → Err → Prop
  | .writeBlock _ _, e => e = .ok ∨ e = .litLen ∨ e = .offset ∨ e = .matchLen ∨ WErr e
  | .reset _, e => e = .ok
  | _, e => e = .ok ∨ WErr e

/-- the result equations of one call (C17/C18): ghost before `ref`, after `ref'`, state after `d'` -/
def ResultOK (ref : List Byte) (o : DObs) (d' : Decoder) (ref' : List Byte) : DOp → Prop
  | .writeByte c => ref' = ref ++ (if o.err = .ok then [c] else [])
  | .write p => ∃ m : Nat, o.n = (m : Int) ∧ m ≤ p.length ∧ ref' = ref ++ p.take m ∧
      (o.err = .ok → m = p.length)
  | .writeBlock seqs lits =>
      Expands ref lits seqs o.k o.l ref' ∧
      (∃ z, ref' = ref ++ z ∧ o.n = (z.length : Int)) ∧
      (o.err = .ok → o.k = seqs.length ∧ o.l = lits.length ∧ expand ref ⟨seqs, lits⟩ = some ref')
  | .flush => ref' = ref ∧ (o.err = .ok → d'.w.got = ref)
  | .reset resps => ref' = [] ∧ d'.w = ⟨resps, []⟩

/-- the contract of one call from state `d` (ghost `ref`) to state `d'` (ghost `ref'`) -/
structure StepOK (d : Decoder) (ref : List Byte) (op : DOp) (o : DObs) (d' : Decoder)
    (ref' : List Byte) : Prop where
  /-- C06: the branch in which the Go loop would spin is not taken -/
  no_hang : o.err ≠ hangErr
  no_panic : o.err ≠ .panic
  errs : ErrOK op o.err
  /-- C18: every error code among the scripted writer responses used up is the returned error -/
  surfaced : (∃ r, op = .reset r) ∨ Surfaced d.w.resps d'.w.resps o.err
  /-- the writer only ever receives more bytes -/
  got_grows : (∃ r, op = .reset r) ∨ ∃ y, d'.w.got = d.w.got ++ y
  /-- `WindowSize` never changes, `BufferSize` never shrinks -/
  geometry : d'.buf.ws = d.buf.ws ∧ d.buf.bs ≤ d'.buf.bs
  result : ResultOK ref o d' ref' op

/-- `P` holds for every call of the history `ops` run from state `d` with ghost `ref` -/
def EveryCall (g : Grow)
    (P : Decoder → List Byte → DOp → DObs → Decoder → List Byte → Prop) :
    Decoder → List Byte → List DOp → Prop
  | _, _, [] => True
  | d, ref, op :: ops =>
    P d ref op (stepD g d op).2 (stepD g d op).1 (refStep ref op (stepD g d op).2) ∧
    EveryCall g P (stepD g d op).1 (refStep ref op (stepD g d op).2) ops

theorem ErrOK.ne {op : DOp} {e : Err} (h : ErrOK op e) : e ≠ hangErr ∧ e ≠ .panic := by
  have hw : ∀ {e : Err}, WErr e → e ≠ hangErr ∧ e ≠ .panic := by
    intro e h; rcases h with h | ⟨c, h⟩ <;> simp [h, hangErr]
  cases op <;> simp only [ErrOK] at h
  case writeBlock =>
    rcases h with h | h | h | h | h
    · simp [h, hangErr]
    · simp [h, hangErr]
    · simp [h, hangErr]
    · simp [h, hangErr]
    · exact hw h
  case reset => simp [h, hangErr]
  all_goals
    rcases h with h | h
    · simp [h, hangErr]
    · exact hw h

/-! ### one call keeps the invariant and fulfils its contract -/

theorem step_ok (g : Grow) {d : Decoder} {ref : List Byte} (hD : DInv d ref) (op : DOp) :
    DInv (stepD g d op).1 (refStep ref op (stepD g d op).2) ∧
    StepOK d ref op (stepD g d op).2 (stepD g d op).1 (refStep ref op (stepD g d op).2) := by
  obtain ⟨hi, hh, hl, ho⟩ := hD
  have hl' : ref = d.log := hl
  subst hl'
  cases op with
  | writeByte c =>
    obtain ⟨s1, s2, s3, s4, s5, s6, s7, _⟩ := Decoder.writeByte_spec g d c hi
    have hH := (C18_hist_invariant g d hi hh).1 c
    have hO := Decoder.writeByte_off g d c hi
    have hr : refStep d.log (.writeByte c) (stepD g d (.writeByte c)).2 = (d.writeByte g c).1.log := by
      show (if (d.writeByte g c).2 = .ok then d.log ++ [c] else d.log) = _
      rw [s5]
      by_cases he : (d.writeByte g c).2 = .ok
      · rw [if_pos he, if_pos he]
      · rw [if_neg he, if_neg he, List.append_nil]
    have hE : ErrOK (.writeByte c) (d.writeByte g c).2 := s4
    rw [hr]
    refine ⟨⟨s1, hH, rfl, ?_⟩, ⟨hE.ne.1, hE.ne.2, hE, Or.inr s7, Or.inr s6, ⟨s2, s3⟩, s5⟩⟩
    unfold OffStep at hO; simp only [stepD]; omega
  | write p =>
    obtain ⟨s1, s2, s3, s4, ⟨m, s5, s6, s7, s8⟩, s9, s10, _⟩ := Decoder.write_spec g d p 0 hi
    rw [Nat.zero_add] at s5
    have hH := (C18_hist_invariant g d hi hh).2.1 p
    have hO := Decoder.write_off g d p 0 hi
    have hr : refStep d.log (.write p) (stepD g d (.write p)).2 = (d.write g p 0).1.log := by
      rw [s7]; simp only [refStep, stepD, s5, Int.toNat_natCast]
    have hE : ErrOK (.write p) (d.write g p 0).2.2 := s4
    rw [hr]
    refine ⟨⟨s1, hH, rfl, ?_⟩, ⟨hE.ne.1, hE.ne.2, hE, Or.inr s10, Or.inr s9, ⟨s2, s3⟩,
      ⟨m, by simp only [stepD, s5], s6, s7, s8⟩⟩⟩
    unfold OffStep at hO; simp only [stepD]; omega
  | writeBlock seqs lits =>
    obtain ⟨s1, s2, s3, s4, s5, s6, _⟩ :=
      Decoder.writeBlock_post g _ _ d seqs lits 0 0 0 rfl rfl hi
    obtain ⟨hX, hH⟩ := C18_writeBlock_expands' g d seqs lits hi hh
    obtain ⟨z, z1, z2, z3, z4, z5, _⟩ := C18_writeBlock_log g d seqs lits hi
    have hO := Decoder.writeBlock_off g d seqs lits 0 0 0 hi
    have hnf := Decoder.writeBlock_not_full g d seqs lits 0 0 0 hi
    have hr : refStep d.log (.writeBlock seqs lits) (stepD g d (.writeBlock seqs lits)).2
        = (d.writeBlock g seqs lits 0 0 0).1.log := by
      obtain ⟨_, out1, rest, t, a1, a2, _, _, a5⟩ := hX
      simp only [refStep, stepD, a1]
      rw [a5]; congr 2; omega
    have hE : ErrOK (.writeBlock seqs lits) (d.writeBlock g seqs lits 0 0 0).2.2.2.2 := by
      simp only [ErrOK]
      rcases s4 with h1 | h1
      · rcases h1 with h1 | h1 | h1 | h1 | h1
        · exact Or.inl h1
        · exact absurd h1 hnf
        · exact Or.inr (Or.inl h1)
        · exact Or.inr (Or.inr (Or.inl h1))
        · exact Or.inr (Or.inr (Or.inr (Or.inl h1)))
      · exact Or.inr (Or.inr (Or.inr (Or.inr h1)))
    rw [hr]
    refine ⟨⟨s1, hH, rfl, ?_⟩, ⟨hE.ne.1, hE.ne.2, hE, Or.inr s6, Or.inr s5, ⟨s2, s3⟩,
      ⟨hX, ⟨z, z1, z2⟩, fun he => ?_⟩⟩⟩
    · unfold OffStep at hO; simp only [stepD]; omega
    · obtain ⟨k1, l1⟩ := z5 he
      refine ⟨k1, l1, ?_⟩
      have k1' : (d.writeBlock g seqs lits 0 0 0).2.2.1 = seqs.length := k1
      have l1' : (d.writeBlock g seqs lits 0 0 0).2.2.2.1 = lits.length := l1
      rw [k1', l1'] at hX
      exact hX.full
  | flush =>
    obtain ⟨t1, t2, t3, _, _, _, t7, _, t9, _, t11, _, _⟩ := Decoder.writeTo_spec d hi
    obtain ⟨_, _, _, _, e5, e6⟩ := C18_writeTo_exact d hi
    have hH := (C18_hist_invariant g d hi hh).2.2.2
    have hE : ErrOK .flush d.flush.2 := t9
    have hr : refStep d.log .flush (stepD g d .flush).2 = d.flush.1.log := by
      simp only [refStep]; exact e5.symm
    rw [hr]
    refine ⟨⟨t1, hH, rfl, ?_⟩, ⟨hE.ne.1, hE.ne.2, hE, Or.inr t11, Or.inr ⟨_, t7⟩, ⟨t2, by
      show d.buf.bs ≤ d.writeTo.1.buf.bs; omega⟩, ⟨e5, fun he => ?_⟩⟩⟩
    · show d.writeTo.1.buf.off = d.writeTo.1.log.length
      rw [e5]; exact ho
    · have := e6 he
      show d.writeTo.1.w.got = d.log
      rw [← e5, Decoder.log, this, List.append_nil]
  | reset resps =>
    obtain ⟨r1, r2⟩ := C18_reset_hist d ⟨resps, []⟩ rfl
    have hE : ErrOK (.reset resps) .ok := rfl
    refine ⟨⟨C06_reset_inv hi, r1, ?_, rfl⟩, ⟨hE.ne.1, hE.ne.2, hE, Or.inl ⟨_, rfl⟩,
      Or.inl ⟨_, rfl⟩, ⟨rfl, ?_⟩, ⟨rfl, rfl⟩⟩⟩
    · simp only [refStep]; exact r2.symm
    · simp only [stepD, Decoder.reset, DecBuf.reset]; split <;> omega

/-! ### histories -/

/-- the contract checked at every call of a history: invariant before, contract, invariant after -/
def CallOK (d : Decoder) (ref : List Byte) (op : DOp) (o : DObs) (d' : Decoder) (ref' : List Byte) :
    Prop := DInv d ref ∧ StepOK d ref op o d' ref' ∧ DInv d' ref'

/-- induction over the history -/
theorem run_ok (g : Grow) (ops : List DOp) : ∀ (d : Decoder) (ref : List Byte), DInv d ref →
    DInv (runD g d ops).1 (refOf ref (runD g d ops).2) ∧ EveryCall g CallOK d ref ops := by
  induction ops with
  | nil => intro d ref h; exact ⟨h, trivial⟩
  | cons op ops ih =>
    intro d ref h
    obtain ⟨h1, h2⟩ := step_ok g h op
    obtain ⟨i1, i2⟩ := ih _ _ h1
    exact ⟨by simpa only [runD, refOf, List.foldl_cons] using i1, ⟨h, h2, h1⟩, i2⟩

theorem runD_append (g : Grow) (a b : List DOp) : ∀ d : Decoder,
    runD g d (a ++ b) = ((runD g (runD g d a).1 b).1, (runD g d a).2 ++ (runD g (runD g d a).1 b).2) := by
  induction a with
  | nil => intro d; rfl
  | cons op a ih => intro d; simp only [List.cons_append, runD, ih]

theorem refOf_append (ref : List Byte) (a b : List (DOp × DObs)) :
    refOf ref (a ++ b) = refOf (refOf ref a) b := by
  simp only [refOf, List.foldl_append]

/-- `EveryCall` speaks about each call: the call `op` issued after the history `pre` -/
theorem EveryCall.at {g : Grow} {P : Decoder → List Byte → DOp → DObs → Decoder → List Byte → Prop}
    (pre : List DOp) (op : DOp) (post : List DOp) : ∀ {d : Decoder} {ref : List Byte},
    EveryCall g P d ref (pre ++ op :: post) →
    P (runD g d pre).1 (refOf ref (runD g d pre).2) op (stepD g (runD g d pre).1 op).2
      (stepD g (runD g d pre).1 op).1
      (refStep (refOf ref (runD g d pre).2) op (stepD g (runD g d pre).1 op).2) := by
  induction pre with
  | nil => intro d ref h; exact h.1
  | cons x pre ih =>
    intro d ref h
    have := ih h.2
    simpa only [runD, refOf, List.foldl_cons] using this

/-- results recorded in the trace are those of the calls: a trace-wide property follows from a
    property of every call -/
theorem trace_all {g : Grow} {P : Decoder → List Byte → DOp → DObs → Decoder → List Byte → Prop}
    {Q : DOp → DObs → Prop} (hPQ : ∀ d ref op o d' ref', P d ref op o d' ref' → Q op o)
    (ops : List DOp) : ∀ {d : Decoder} {ref : List Byte}, EveryCall g P d ref ops →
    ∀ x ∈ (runD g d ops).2, Q x.1 x.2 := by
  induction ops with
  | nil => intro d ref _ x hx; simp [runD] at hx
  | cons op ops ih =>
    intro d ref h x hx
    simp only [runD, List.mem_cons] at hx
    rcases hx with rfl | hx
    · exact hPQ _ _ _ _ _ _ h.1
    · exact ih h.2 x hx

/-- `Decoder.Init(w, cfg)`: `DecoderBuffer.Init` plus a fresh scripted writer -/
def initD (ws bs : Int) (precap : Nat) (resps : List (Nat × Nat)) : Option Decoder :=
  (DecBuf.init ws bs precap).map (fun b => { buf := b, w := ⟨resps, []⟩ })

/-- accepted configurations are exactly those accepted by `SetDefaults`+`Verify` -/
theorem initD_isSome_iff (ws bs : Int) (precap : Nat) (resps : List (Nat × Nat)) :
    (initD ws bs precap resps).isSome ↔ (decCfg ws bs).isSome := by
  simp only [initD, Option.isSome_map]
  unfold DecBuf.init; split <;> simp [*]

theorem initD_inv {ws bs : Int} {precap : Nat} {resps : List (Nat × Nat)} {d0 : Decoder}
    (h : initD ws bs precap resps = some d0) : DInv d0 [] := by
  unfold initD at h
  cases hb : DecBuf.init ws bs precap with
  | none => rw [hb] at h; cases h
  | some b =>
    rw [hb] at h
    simp only [Option.map_some, Option.some.injEq] at h
    subst h
    have hi := C06_init_inv hb
    unfold DecBuf.init at hb
    split at hb
    · cases hb
    · simp only [Option.some.injEq] at hb
      subst hb
      exact ⟨hi, ⟨[], rfl⟩, rfl, rfl⟩

/-! ### C17: the reported counts add up -/

/-- the byte counts reported by the calls since the last `Reset` (`WriteByte` reports no count:
    1 on success) -/
def reportedStep (acc : Int) (x : DOp × DObs) : Int :=
  match x.1 with
  | .reset _ => 0
  | .flush => acc
  | .writeByte _ => if x.2.err = .ok then acc + 1 else acc
  | .write _ => acc + x.2.n
  | .writeBlock _ _ => acc + x.2.n

def reported (acc : Int) (tr : List (DOp × DObs)) : Int := tr.foldl reportedStep acc

theorem StepOK.counts {d d' : Decoder} {ref ref' : List Byte} {op : DOp} {o : DObs}
    (h : StepOK d ref op o d' ref') : reportedStep ref.length (op, o) = ref'.length := by
  have hr := h.result
  cases op with
  | writeByte c =>
    simp only [ResultOK] at hr
    simp only [reportedStep, hr]
    split <;> simp
  | write p =>
    obtain ⟨m, h1, h2, h3, _⟩ := hr
    simp only [reportedStep, h1, h3, List.length_append, List.length_take, Nat.min_eq_left h2]
    omega
  | writeBlock seqs lits =>
    obtain ⟨_, ⟨z, h1, h2⟩, _⟩ := hr
    simp only [reportedStep, h1, h2, List.length_append]
    omega
  | flush => simp only [ResultOK] at hr; simp only [reportedStep, hr.1]
  | reset r => simp only [ResultOK] at hr; simp only [reportedStep, hr.1, List.length_nil]; rfl

theorem run_counts (g : Grow) (ops : List DOp) : ∀ {d : Decoder} {ref : List Byte},
    EveryCall g CallOK d ref ops →
    reported ref.length (runD g d ops).2 = (refOf ref (runD g d ops).2).length := by
  induction ops with
  | nil => intro d ref _; rfl
  | cons op ops ih =>
    intro d ref h
    simp only [runD, reported, refOf, List.foldl_cons]
    rw [h.1.2.1.counts]
    exact ih h.2

/-! # The history-level theorems -/

/-- **History theorem for `Decoder` (C04, C06, C17, C18).**  For every growth function `g`, every
    accepted configuration (`initD … = some d0`: `DecoderConfig.SetDefaults`+`Verify` accept, any
    pre-allocated capacity, any writer script) and EVERY list of calls `ops` (`WriteByte`, `Write`,
    `WriteBlock` with arbitrary — also invalid — blocks, `Flush`, `Reset` with any new writer
    script), with `r` the final state and recorded results and `ref` the reference expansion of what
    the calls reported as consumed since the last `Reset`:

    1. the structural invariant of the buffer holds;
    2. no recorded result is the hang marker (C06: the retry loops never spin) or the panic marker,
       and every returned error is `ok`, the writer's own error / `ErrShortWrite`, or (for
       `WriteBlock`) `errLitLen` / `errOffset` / `errMatchLen` — never `ErrFullBuffer`;
    3. `ref = got ++ Data[R:]`: what the writer has accepted followed by what is still buffered is
       exactly `ref` — each byte once, in order, nothing lost; in particular `got` is a prefix of
       `ref` (C18), and the window `Data` is a suffix of `ref` (C04);
    4. `Off = len(ref)`, and the reported byte counts since the last `Reset` add up to it (C17);
    5. every single call of the history was issued in a state satisfying the invariant and fulfilled
       its contract `StepOK` (result equations `ResultOK` for `n`, `k`, `l`, error surfacing,
       `got` only grows), and re-established the invariant. -/
theorem decoder_history (g : Grow) {ws bs : Int} {precap : Nat} {resps : List (Nat × Nat)}
    {d0 : Decoder} (hinit : initD ws bs precap resps = some d0) (ops : List DOp) :
    let r := runD g d0 ops
    let ref := refOf [] r.2
    DecBuf.Inv r.1.buf ∧
    (∀ x ∈ r.2, x.2.err ≠ hangErr ∧ x.2.err ≠ .panic ∧ ErrOK x.1 x.2.err) ∧
    (ref = r.1.w.got ++ r.1.buf.data.drop r.1.buf.r ∧ r.1.w.got <+: ref ∧ r.1.buf.data <:+ ref) ∧
    (r.1.buf.off = ref.length ∧ reported 0 r.2 = (ref.length : Int)) ∧
    EveryCall g CallOK d0 [] ops := by
  intro r ref
  obtain ⟨h1, h2⟩ := run_ok g ops d0 [] (initD_inv hinit)
  have hlog : ref = r.1.w.got ++ r.1.buf.data.drop r.1.buf.r := h1.log
  refine ⟨h1.inv, ?_, ⟨hlog, ⟨_, hlog.symm⟩, ?_⟩, ⟨h1.off, run_counts g ops h2⟩, h2⟩
  · exact trace_all (Q := fun op o => o.err ≠ hangErr ∧ o.err ≠ .panic ∧ ErrOK op o.err)
      (fun d ref op o d' ref' h => ⟨h.2.1.no_hang, h.2.1.no_panic, h.2.1.errs⟩) ops h2
  · obtain ⟨pre, hp⟩ := Decoder.Hist.log h1.hist
    exact ⟨pre, by rw [hlog]; exact hp.symm⟩

/-- The same, spelled out for one call: the call `op` issued after ANY history `pre` finds the
    invariant, fulfils its contract and re-establishes the invariant. -/
theorem decoder_history_call (g : Grow) {ws bs : Int} {precap : Nat} {resps : List (Nat × Nat)}
    {d0 : Decoder} (hinit : initD ws bs precap resps = some d0) (pre : List DOp) (op : DOp) :
    let s := runD g d0 pre
    let ref := refOf [] s.2
    let c := stepD g s.1 op
    DInv s.1 ref ∧ StepOK s.1 ref op c.2 c.1 (refStep ref op c.2) ∧ DInv c.1 (refStep ref op c.2) := by
  intro s ref c
  have h1 := (run_ok g pre d0 [] (initD_inv hinit)).1
  exact ⟨h1, (step_ok g h1 op).2, (step_ok g h1 op).1⟩

/-- **C06 over histories**: no call of any history returns the hang marker. -/
theorem C06_history_no_hang (g : Grow) {ws bs : Int} {precap : Nat} {resps : List (Nat × Nat)}
    {d0 : Decoder} (hinit : initD ws bs precap resps = some d0) (ops : List DOp) :
    ∀ x ∈ (runD g d0 ops).2, x.2.err ≠ hangErr ∧ x.2.err ≠ .panic ∧ ErrOK x.1 x.2.err :=
  (decoder_history g hinit ops).2.1

/-- **C04/C18 over histories**: the bytes accepted by the writer are a prefix of the reference
    expansion; together with the unflushed bytes they are the reference expansion. -/
theorem C18_history_prefix (g : Grow) {ws bs : Int} {precap : Nat} {resps : List (Nat × Nat)}
    {d0 : Decoder} (hinit : initD ws bs precap resps = some d0) (ops : List DOp) :
    (runD g d0 ops).1.w.got <+: refOf [] (runD g d0 ops).2 ∧
    refOf [] (runD g d0 ops).2 =
      (runD g d0 ops).1.w.got ++ (runD g d0 ops).1.buf.data.drop (runD g d0 ops).1.buf.r :=
  ⟨(decoder_history g hinit ops).2.2.1.2.1, (decoder_history g hinit ops).2.2.1.1⟩

/-- **C17 over histories**: `Off` is the number of bytes written since Init/Reset (the length of
    the reference expansion), and equals the sum of the reported counts. -/
theorem C17_history_off (g : Grow) {ws bs : Int} {precap : Nat} {resps : List (Nat × Nat)}
    {d0 : Decoder} (hinit : initD ws bs precap resps = some d0) (ops : List DOp) :
    (runD g d0 ops).1.buf.off = (refOf [] (runD g d0 ops).2).length ∧
    reported 0 (runD g d0 ops).2 = ((runD g d0 ops).1.buf.off : Int) := by
  obtain ⟨h1, h2⟩ := (decoder_history g hinit ops).2.2.2.1
  exact ⟨h1, by rw [h1]; exact h2⟩

/-- **C18 exactly once**: if a `Flush` issued after any history returns `ok`, the writer has
    received exactly the reference expansion of everything reported as consumed since the last
    `Reset` — no byte lost, none duplicated — and nothing is left in the buffer. -/
theorem C18_history_flush_exactly_once (g : Grow) {ws bs : Int} {precap : Nat}
    {resps : List (Nat × Nat)} {d0 : Decoder} (hinit : initD ws bs precap resps = some d0)
    (ops : List DOp) (hok : (runD g d0 ops).1.flush.2 = .ok) :
    let r := runD g d0 (ops ++ [.flush])
    r.2 = (runD g d0 ops).2 ++ [(.flush, ⟨.ok, 0, 0, 0⟩)] ∧
    r.1.w.got = refOf [] r.2 ∧ r.1.buf.data.drop r.1.buf.r = [] := by
  intro r
  obtain ⟨h0, h1, h2⟩ := decoder_history_call g hinit ops .flush
  have hr : r = ((stepD g (runD g d0 ops).1 .flush).1,
      (runD g d0 ops).2 ++ [(.flush, (stepD g (runD g d0 ops).1 .flush).2)]) := by
    show runD g d0 (ops ++ [.flush]) = _
    rw [runD_append]; rfl
  have hobs : (stepD g (runD g d0 ops).1 .flush).2 = ⟨.ok, 0, 0, 0⟩ := by
    simp only [stepD, hok]
  have hgot := h1.result.2 (by rw [hobs])
  have hlog := h2.log
  have href : refOf [] r.2 = refOf [] (runD g d0 ops).2 := by
    rw [hr, refOf_append]; rfl
  rw [href]
  refine ⟨by rw [hr, hobs], by rw [hr]; exact hgot, ?_⟩
  rw [hr]
  simp only [refStep] at hlog
  rw [hgot] at hlog
  have h3 : refOf [] (runD g d0 ops).2 ++
      List.drop (stepD g (runD g d0 ops).1 .flush).1.buf.r (stepD g (runD g d0 ops).1 .flush).1.buf.data
      = refOf [] (runD g d0 ops).2 ++ [] := by rw [List.append_nil]; exact hlog.symm
  exact List.append_cancel_left h3

/-- **C18 retry, at every reachable state** (`Write`): after ANY history, the caller's retry
    protocol for `p` (re-submit `p[n:]` after each writer fault, finally flush until success) ends
    with the writer holding `ref ++ p` — everything exactly once. -/
theorem C18_history_retry_write (g : Grow) {ws bs : Int} {precap : Nat} {resps : List (Nat × Nat)}
    {d0 : Decoder} (hinit : initD ws bs precap resps = some d0) (ops : List DOp) (p : List Byte) :
    let s := runD g d0 ops
    ∃ d', retryWrite g (s.1.w.resps.length + 1) s.1 p = some d' ∧
      d'.w.got = refOf [] s.2 ++ p ∧ d'.buf.data.drop d'.buf.r = [] := by
  intro s
  have h1 := (run_ok g ops d0 [] (initD_inv hinit)).1
  obtain ⟨d', a1, a2, a3⟩ := C18_retry_exactly_once g s.1 p h1.inv
  exact ⟨d', a1, by rw [a2]; congr 1; exact h1.log.symm, a3⟩

/-- **C18 retry, at every reachable state** (`WriteBlock`): after ANY history the retry protocol
    for a block finishes with a block error or in success, and on success the writer holds exactly
    the reference expansion of the block on top of `ref`. -/
theorem C18_history_retry_block (g : Grow) {ws bs : Int} {precap : Nat} {resps : List (Nat × Nat)}
    {d0 : Decoder} (hinit : initD ws bs precap resps = some d0) (ops : List DOp)
    (seqs : List Seq) (lits : List Byte) :
    let s := runD g d0 ops
    ∃ d' e, retryBlock g (s.1.w.resps.length + 1) s.1 seqs lits = some (d', e) ∧ BufErr e ∧
      (e = .ok → expand (refOf [] s.2) ⟨seqs, lits⟩ = some d'.w.got ∧
        d'.buf.data.drop d'.buf.r = []) := by
  intro s
  have h1 := (run_ok g ops d0 [] (initD_inv hinit)).1
  obtain ⟨d', e, a1, a2, a3⟩ := C18_retryBlock_exactly_once' g s.1 seqs lits h1.inv h1.hist
  refine ⟨d', e, a1, a2, fun he => ?_⟩
  have hl : refOf [] s.2 = s.1.log := h1.log
  rw [hl]
  exact a3 he

/-! ## C. non-vacuity: concrete histories with a faulting writer -/

namespace Ex
open DecoderEx

/-- WindowSize 2, BufferSize 3; the writer takes 1 byte at its first call (short write), fails with
    error 7 at its second call, then takes everything. -/
example : initD 2 3 0 [(1, 0), (0, 7)] = some d0 := by rfl

/-- `Write` of 4 bytes (short write after 3 consumed), retry of the remainder, `Flush` hitting the
    writer's error, `Flush` succeeding; then `Reset` with a writer that accepts 1 byte per call,
    two `WriteByte`s, a short `Flush` and a final `Flush`. -/
def ops1 : List DOp :=
  [.write [1, 2, 3, 4], .write [4], .flush, .write [], .flush,
   .reset [(1, 0)], .writeByte 8, .writeByte 9, .flush, .flush]

def dR : Decoder := { buf := ⟨[8, 9], 2, 2, 2, 3, 3⟩, w := ⟨[], [8, 9]⟩ }

def tr1 : List (DOp × DObs) :=
  [(.write [1, 2, 3, 4], ⟨.shortWrite, 3, 0, 0⟩), (.write [4], ⟨.ok, 1, 0, 0⟩),
   (.flush, ⟨.writer 7, 0, 0, 0⟩), (.write [], ⟨.ok, 0, 0, 0⟩), (.flush, ⟨.ok, 0, 0, 0⟩),
   (.reset [(1, 0)], ⟨.ok, 0, 0, 0⟩), (.writeByte 8, ⟨.ok, 0, 0, 0⟩), (.writeByte 9, ⟨.ok, 0, 0, 0⟩),
   (.flush, ⟨.shortWrite, 0, 0, 0⟩), (.flush, ⟨.ok, 0, 0, 0⟩)]

def dI : Decoder := { buf := ⟨[], 0, 0, 2, 3, 3⟩, w := ⟨[(1, 0)], []⟩ }
def dJ : Decoder := { buf := ⟨[8], 0, 1, 2, 3, 3⟩, w := ⟨[(1, 0)], []⟩ }
def dK : Decoder := { buf := ⟨[8, 9], 0, 2, 2, 3, 3⟩, w := ⟨[(1, 0)], []⟩ }
def dL : Decoder := { buf := ⟨[8, 9], 1, 2, 2, 3, 3⟩, w := ⟨[], [8]⟩ }

theorem ex_r1 : dD.reset ⟨[(1, 0)], []⟩ = dI := by
  simp [Decoder.reset, DecBuf.reset, dD, dI]
theorem ex_r2 : dI.writeByte gId 8 = (dJ, Err.ok) := by
  simp [Decoder.writeByte, DecBuf.writeByte, DecBuf.append, dI, dJ]
theorem ex_r3 : dJ.writeByte gId 9 = (dK, Err.ok) := by
  simp [Decoder.writeByte, DecBuf.writeByte, DecBuf.append, dJ, dK]
theorem ex_r4 : dK.flush = (dL, Err.shortWrite) := by
  simp [Decoder.flush, Decoder.writeTo, Writer.write, dK, dL]
theorem ex_r5 : dL.flush = (dR, Err.ok) := by
  simp [Decoder.flush, Decoder.writeTo, Writer.write, dL, dR]

theorem ex_run1 : runD gId d0 ops1 = (dR, tr1) := by
  simp [runD, stepD, ops1, tr1, ex_s1, ex_s2, ex_s3, ex_s4, ex_s5, ex_r1, ex_r2, ex_r3, ex_r4, ex_r5]

/-- the ghost computed from the reported results alone -/
example : refOf [] (tr1.take 5) = [1, 2, 3, 4] ∧ refOf [] tr1 = [8, 9] := by decide

/-- the history theorem instantiated: its hypothesis holds (`rfl`), and its conclusions are the
    concrete facts about this run (writer holds the reference expansion, `Off = 2`, counts = 2) -/
example : DecBuf.Inv dR.buf ∧ dR.w.got = refOf [] tr1 ∧ dR.buf.off = 2 ∧ reported 0 tr1 = 2 ∧
    (∀ x ∈ tr1, x.2.err ≠ hangErr ∧ x.2.err ≠ .panic ∧ ErrOK x.1 x.2.err) := by
  have h := decoder_history gId (ws := 2) (bs := 3) (precap := 0) (resps := [(1, 0), (0, 7)])
    (d0 := d0) rfl ops1
  simp only [ex_run1] at h
  obtain ⟨h1, h2, ⟨h3, _, _⟩, ⟨h4, h5⟩, _⟩ := h
  have hr : refOf [] tr1 = [8, 9] := by decide
  refine ⟨h1, ?_, by rw [h4, hr]; rfl, by rw [h5, hr]; rfl, h2⟩
  rw [h3]; simp [dR]

/-- exactly-once corollary instantiated for the first five calls (final `Flush` returns `ok`
    although the first writer call was short and the second failed) -/
example : dD.w.got = [1, 2, 3, 4] := by
  have h := C18_history_flush_exactly_once gId (ws := 2) (bs := 3) (precap := 0)
    (resps := [(1, 0), (0, 7)]) (d0 := d0) rfl [.write [1, 2, 3, 4], .write [4], .flush, .write []]
    (by simp [runD, stepD, ex_s1, ex_s2, ex_s3, ex_s4, ex_s5])
  have hrun : runD gId d0 ([.write [1, 2, 3, 4], .write [4], .flush, .write []] ++ [.flush])
      = (dD, tr1.take 5) := by
    simp [runD, stepD, tr1, ex_s1, ex_s2, ex_s3, ex_s4, ex_s5]
  simp only [hrun] at h
  rw [h.2.1]; decide

/-! ### a block through a faulting writer, caller retries the unconsumed remainder -/

example : initD 2 5 0 [(1, 0), (0, 7), (5, 0)] = some d1 := by rfl

def ops2 : List DOp :=
  [.writeBlock [s1, s2, s3] [1, 2, 3, 4, 5], .writeBlock [s2, s3] [3, 4, 5],
   .writeBlock [s3] [4, 5], .flush]

def tr2 : List (DOp × DObs) :=
  [(.writeBlock [s1, s2, s3] [1, 2, 3, 4, 5], ⟨.shortWrite, 3, 1, 2⟩),
   (.writeBlock [s2, s3] [3, 4, 5], ⟨.writer 7, 3, 1, 1⟩),
   (.writeBlock [s3] [4, 5], ⟨.ok, 5, 1, 2⟩), (.flush, ⟨.ok, 0, 0, 0⟩)]

theorem ex_run2 : runD gId d1 ops2 = (dH, tr2) := by
  simp [runD, stepD, ops2, tr2, ex_b1, ex_b2, ex_b3, ex_b4]

/-- the ghost built from the reported `k`, `l` of the three calls is the reference expansion of
    the whole block, and it is what the writer holds -/
example : refOf [] tr2 = [1, 2, 2, 3, 2, 3, 3, 3, 3, 4, 5] ∧
    expand [] ⟨[s1, s2, s3], [1, 2, 3, 4, 5]⟩ = some (refOf [] tr2) ∧ dH.w.got = refOf [] tr2 := by
  decide

example : dH.w.got = refOf [] tr2 ∧ dH.buf.off = 11 ∧ reported 0 tr2 = 11 := by
  have h := decoder_history gId (ws := 2) (bs := 5) (precap := 0)
    (resps := [(1, 0), (0, 7), (5, 0)]) (d0 := d1) rfl ops2
  simp only [ex_run2] at h
  obtain ⟨_, _, ⟨h3, _, _⟩, ⟨h4, h5⟩, _⟩ := h
  have hr : refOf [] tr2 = [1, 2, 2, 3, 2, 3, 3, 3, 3, 4, 5] := by decide
  refine ⟨?_, by rw [h4, hr]; rfl, by rw [h5, hr]; rfl⟩
  rw [h3]; simp [dH]

/-- an invalid block (offset 1 into an empty window) is rejected with `errOffset`; nothing is
    consumed, the ghost does not move -/
example : (stepD gId d0 (.writeBlock [⟨0, 1, 1, 0⟩] [])).2 = ⟨.offset, 0, 0, 0⟩ ∧
    refStep [] (.writeBlock [⟨0, 1, 1, 0⟩] []) ⟨.offset, 0, 0, 0⟩ = [] := by
  refine ⟨?_, by decide⟩
  simp [stepD, Decoder.writeBlock, DecBuf.writeBlock, DecBuf.seqLoop, d0]

end Ex

end DecoderHist

end LZ

#print axioms LZ.DecBuf.writeBlock_off
#print axioms LZ.Decoder.writeByte_off
#print axioms LZ.Decoder.write_off
#print axioms LZ.Decoder.writeBlock_off
#print axioms LZ.Decoder.writeBlock_not_full
#print axioms LZ.DecoderHist.step_ok
#print axioms LZ.DecoderHist.run_ok
#print axioms LZ.DecoderHist.initD_isSome_iff
#print axioms LZ.DecoderHist.decoder_history
#print axioms LZ.DecoderHist.decoder_history_call
#print axioms LZ.DecoderHist.C06_history_no_hang
#print axioms LZ.DecoderHist.C18_history_prefix
#print axioms LZ.DecoderHist.C17_history_off
#print axioms LZ.DecoderHist.C18_history_flush_exactly_once
#print axioms LZ.DecoderHist.C18_history_retry_write
#print axioms LZ.DecoderHist.C18_history_retry_block
#print axioms LZ.DecoderHist.Ex.ex_run1
#print axioms LZ.DecoderHist.Ex.ex_run2
