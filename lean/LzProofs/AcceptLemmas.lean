/-
  LzProofs.AcceptLemmas — decoder side of property C07: a block that is well-formed for the
  decoder's window (`WFSeqs`, LzProofs/AcceptDefs.lean) and whose sequences are at most
  `BufferSize - WindowSize` bytes long is never refused by `DecoderBuffer.WriteBlock` with anything
  but `ErrFullBuffer`, and never refused at all by `Decoder.WriteBlock`.

  `Decoder.Good d := Abs d.buf d.log |d.w.got|`: the buffer represents (abstraction `DecBuf.Abs` of
  the DecBuf topic) the decoder's log, of which exactly the bytes handed to the writer are
  "delivered".  It is equivalent to `Inv ∧ Hist ∧ window kept ∧ Off = |log|` (`good_iff`), holds
  after `Init`/`Reset` with a fresh writer and is kept by every Decoder call.
-/
import LzProofs.AcceptDefs
import LzProofs.DecoderWB
namespace LZ
open DecBuf Decoder

/-! ## buffer level -/

namespace DecBuf

theorem Abs.inv {b : DecBuf} {w : List Byte} {d : Nat} (h : Abs b w d) : DecBuf.Inv b :=
  ⟨h.r_le, h.ws_lt, h.len_bs⟩

/-- the head of well-formed sequences passes the guards of the sequence loop -/
theorem seqValid_of_wf {W : Nat} {w lits : List Byte} {s : Seq} {ss : List Seq}
    (h : WFSeqs W w.length lits.length (s :: ss)) : SeqValid w lits W s := by
  obtain ⟨h1, h2, h3, _⟩ := h
  refine ⟨h1, ?_⟩
  intro hc
  rcases hc with ⟨hc1, hc2⟩ | hc
  · omega
  · omega

/-- **buffer level.**  `DecoderBuffer.WriteBlock` on a well-formed block whose sequences are at most
    `BufferSize - WindowSize` long returns `nil` or `ErrFullBuffer`, never `errLitLen`, `errOffset`
    or `errMatchLen`. -/
theorem writeBlock_wf (g : Grow) {b : DecBuf} {w : List Byte} {d : Nat} (h : Abs b w d) (blk : Block)
    (hwf : WFSeqs b.ws w.length blk.lits.length blk.seqs)
    (hfit : SeqsFit (b.bs - b.ws) blk.seqs) :
    (b.writeBlock g blk).2.2.2.2 = .ok ∨ (b.writeBlock g blk).2.2.2.2 = .full := by
  generalize hr : b.writeBlock g blk = R
  obtain ⟨b', n, k, l, e⟩ := R
  show e = .ok ∨ e = .full
  obtain ⟨w1, rest, hk, hx, _, herr⟩ := writeBlock_spec g h blk hr
  by_cases he : e = .ok
  · exact Or.inl he
  right
  obtain ⟨_, _, _, hc⟩ := herr he
  rcases hc with ⟨hk', hsf⟩ | ⟨_, hf, _⟩
  · have hws : b'.ws = b.ws := writeBlock_ws g b blk ▸ (by rw [hr])
    have hbs : b.bs ≤ b'.bs := by
      have := (wbuf_post g b blk h.inv).2.2.1
      rw [hr] at this; exact this
    have hd := WFSeqs.drop blk.seqs k w blk.lits w1 rest hwf hx
    rw [List.drop_eq_getElem_cons hk'] at hd
    have hv := seqValid_of_wf hd
    have hfk := hfit _ (List.getElem_mem hk')
    unfold SeqFail at hsf
    rw [hws] at hsf
    rcases hsf with ⟨_, h1⟩ | ⟨_, _, h1⟩ | ⟨_, _, h1⟩ | ⟨h1, _⟩
    · exact absurd h1 (by have := hv.1; omega)
    · exact absurd h1 hv.2
    · omega
    · exact h1
  · exact hf

end DecBuf

/-! ## the decoder invariant -/

namespace Decoder

/-- the buffer represents the decoder's log; the bytes handed to the writer are the delivered ones -/
def Good (d : Decoder) : Prop := Abs d.buf d.log d.w.got.length

theorem Good.inv {d : Decoder} (h : Good d) : DecBuf.Inv d.buf := Abs.inv h

/-- a buffer that represents `w'` with `|got|` delivered bytes, `got` a prefix of `w'`, has
    log `w'` -/
theorem log_of_abs {b' : DecBuf} {w' : List Byte} {wr : Writer} (ha : AbsD b' w' wr.got.length)
    (hp : wr.got <+: w') : ({ buf := b', w := wr } : Decoder).log = w' := by
  obtain ⟨t, ht⟩ := hp
  have hd := ha.data_eq
  have hdl := ha.deliv
  have hle := ha.len_le
  have hr := ha.r_le
  show wr.got ++ b'.data.drop b'.r = w'
  rw [hd, List.drop_drop]
  have e : w'.length - b'.data.length + b'.r = wr.got.length := by omega
  rw [e, ← ht, List.drop_left]

theorem good_of_abs {b' : DecBuf} {w' : List Byte} {wr : Writer} (ha : Abs b' w' wr.got.length)
    (hp : wr.got <+: w') : Good { buf := b', w := wr } ∧ ({ buf := b', w := wr } : Decoder).log = w' := by
  have hl := log_of_abs ha.toAbsD hp
  refine ⟨?_, hl⟩
  unfold Good
  rw [hl]
  exact ha

theorem got_prefix_log (d : Decoder) : d.w.got <+: d.log := List.prefix_append _ _

/-- `Good` spelled out: the invariant `Inv` of C06, the history invariant `Hist` of C18, the
    window is kept (`min WindowSize |log| ≤ len(Data)`) and `Off` counts the log. -/
theorem good_iff (d : Decoder) :
    Good d ↔ DecBuf.Inv d.buf ∧ Hist d ∧ min d.buf.ws d.log.length ≤ d.buf.data.length ∧
      d.buf.off = d.log.length := by
  constructor
  · intro h
    refine ⟨h.inv, ?_, h.win, h.off⟩
    obtain ⟨t, ht⟩ := h.suffix
    have hdl := h.deliv
    have hle := h.toAbsD.len_le
    have hr := h.r_le
    have hlog : d.log = d.w.got ++ d.buf.data.drop d.buf.r := rfl
    -- log = t ++ data = got ++ data.drop r, |got| = |t| + r
    have htl : t.length + d.buf.data.length = d.log.length := by rw [← ht]; simp
    refine ⟨t, ?_⟩
    have e1 : d.log.take d.w.got.length = d.w.got := by rw [hlog, List.take_left]
    rw [← e1, ← ht, List.take_append]
    have e2 : d.w.got.length - t.length = d.buf.r := by omega
    rw [e2, List.take_of_length_le (by omega)]
  · intro ⟨hi, ⟨pre, hp⟩, hw, ho⟩
    have hlog : d.log = pre ++ d.buf.data := by
      show d.w.got ++ d.buf.data.drop d.buf.r = _
      rw [hp, List.append_assoc, List.take_append_drop]
    have hgl : d.w.got.length = pre.length + d.buf.r := by
      rw [hp, List.length_append, List.length_take, Nat.min_eq_left hi.1]
    refine ⟨⟨⟨pre, hlog.symm⟩, hi.1, ?_, hw, hi.2.1, hi.2.2⟩, ho⟩
    rw [hlog, hgl, List.length_append]; omega

/-- `Init` with an accepted configuration and a fresh writer -/
theorem good_init {ws bs : Int} {precap : Nat} {b : DecBuf} (h : DecBuf.init ws bs precap = some b)
    (wr : Writer) (hw : wr.got = []) : Good { buf := b, w := wr } ∧ ({ buf := b, w := wr } : Decoder).log = [] := by
  have ha := init_abs h
  have : wr.got.length = 0 := by rw [hw]; rfl
  exact good_of_abs (b' := b) (w' := []) (wr := wr) (by rw [this]; exact ha) (by rw [hw]; exact List.nil_prefix)

/-- `Reset` with a fresh writer -/
theorem good_reset {d : Decoder} (h : Good d) (wr : Writer) (hw : wr.got = []) :
    Good (d.reset wr) ∧ (d.reset wr).log = [] := by
  have ha := reset_abs h.toAbsD
  have : wr.got.length = 0 := by rw [hw]; rfl
  exact good_of_abs (b' := d.buf.reset) (w' := []) (wr := wr) (by rw [this]; exact ha) (by rw [hw]; exact List.nil_prefix)

/-- `WriteTo`/`Flush` keep `Good` (whatever the writer does) -/
theorem good_writeTo {d : Decoder} (h : Good d) : Good d.writeTo.1 := by
  obtain ⟨t1, t2, t3, t4, t5, t6, t7, t8, _⟩ := writeTo_spec d h.inv
  have hlog := writeTo_log d h.inv
  unfold Good
  rw [hlog]
  have hdl := h.deliv
  have hpl : d.buf.pending.length = d.buf.data.length - d.buf.r := by
    unfold pending; rw [List.length_drop]
  refine ⟨⟨?_, ?_, ?_, ?_, ?_, ?_⟩, ?_⟩
  · rw [t6]; exact h.suffix
  · rw [t5, t6]; have := h.r_le; omega
  · rw [t7, t5, t6, List.length_append, List.length_take, Nat.min_eq_left t4]; omega
  · rw [t2, t6]; exact h.win
  · rw [t2, t3]; exact h.ws_lt
  · rw [t3, t6]; exact h.len_bs
  · have : d.writeTo.1.buf.off = d.buf.off := by
      unfold writeTo; rfl
    rw [this]; exact h.off

theorem good_flush {d : Decoder} (h : Good d) : Good d.flush.1 := good_writeTo h

/-- replacing the buffer by one that represents an extension of the log -/
theorem Good.step {d : Decoder} (_h : Good d) {b' : DecBuf} {w' : List Byte}
    (ha : Abs b' w' d.w.got.length) (hp : d.log <+: w') :
    Good { d with buf := b' } ∧ ({ d with buf := b' } : Decoder).log = w' :=
  good_of_abs (wr := d.w) ha ((got_prefix_log d).trans hp)

/-- `Decoder.Write` keeps `Good` -/
theorem good_write (g : Grow) (d : Decoder) (p : List Byte) (acc : Nat) (h : Good d) :
    Good (d.write g p acc).1 := by
  fun_induction Decoder.write g d p acc with
  | case1 d p acc hp => exact h
  | case2 d p acc hp m q b k d1 hk hb ih =>
    rcases write_cases g h q with ⟨b', hw, ha⟩ | ⟨b', hw, ha, _⟩
    · rw [hb] at hw
      simp only [Prod.mk.injEq] at hw
      obtain ⟨rfl, _, _⟩ := hw
      exact ih (h.step ha (List.prefix_append _ _)).1
    · rw [hb] at hw
      simp only [Prod.mk.injEq, reduceCtorEq, and_false] at hw
  | case3 d p acc hp m q b k d1 hk hb =>
    rcases write_cases g h q with ⟨b', hw, ha⟩ | ⟨b', hw, ha, _⟩
    · rw [hb] at hw
      simp only [Prod.mk.injEq] at hw
      obtain ⟨rfl, _, _⟩ := hw
      exact (h.step ha (List.prefix_append _ _)).1
    · rw [hb] at hw
      simp only [Prod.mk.injEq, reduceCtorEq, and_false] at hw
  | case4 d p acc hp m q b k e hb d1 hne hnf =>
    rcases write_cases g h q with ⟨b', hw, ha⟩ | ⟨b', hw, ha, _⟩
    · rw [hb] at hw
      simp only [Prod.mk.injEq] at hw
      exact absurd hw.2.2 hne
    · rw [hb] at hw
      simp only [Prod.mk.injEq] at hw
      obtain ⟨rfl, _, _⟩ := hw
      exact (h.step ha (List.prefix_refl _)).1
  | case5 d p acc hp m q b k e hb d1 hne hfull d2 f e2 hw2 hne2 =>
    rcases write_cases g h q with ⟨b', hw, ha⟩ | ⟨b', hw, ha, _⟩
    · rw [hb] at hw
      simp only [Prod.mk.injEq] at hw
      exact absurd hw.2.2 hne
    · rw [hb] at hw
      simp only [Prod.mk.injEq] at hw
      obtain ⟨rfl, _, _⟩ := hw
      have := good_writeTo (h.step ha (List.prefix_refl _)).1
      rw [hw2] at this
      exact this
  | case6 d p acc hp m q b k e hb d1 hne hfull d2 f e2 hw2 hok hprog ih =>
    rcases write_cases g h q with ⟨b', hw, ha⟩ | ⟨b', hw, ha, _⟩
    · rw [hb] at hw
      simp only [Prod.mk.injEq] at hw
      exact absurd hw.2.2 hne
    · rw [hb] at hw
      simp only [Prod.mk.injEq] at hw
      obtain ⟨rfl, _, _⟩ := hw
      have := good_writeTo (h.step ha (List.prefix_refl _)).1
      rw [hw2] at this
      exact ih this
  | case7 d p acc hp m q b k e hb d1 hne hfull d2 f e2 hw2 hok hprog =>
    rcases write_cases g h q with ⟨b', hw, ha⟩ | ⟨b', hw, ha, _⟩
    · rw [hb] at hw
      simp only [Prod.mk.injEq] at hw
      exact absurd hw.2.2 hne
    · rw [hb] at hw
      simp only [Prod.mk.injEq] at hw
      obtain ⟨rfl, _, _⟩ := hw
      have := good_writeTo (h.step ha (List.prefix_refl _)).1
      rw [hw2] at this
      exact this

/-- `Decoder.WriteByte` keeps `Good` -/
theorem good_writeByte (g : Grow) (d : Decoder) (c : Byte) (h : Good d) :
    Good (d.writeByte g c).1 := by
  fun_induction Decoder.writeByte g d c with
  | case1 d b e hb d1 hne =>
    rcases writeByte_cases g h c with ⟨b', hw, ha⟩ | ⟨b', hw, ha, _⟩
    · rw [hb] at hw
      simp only [Prod.mk.injEq] at hw
      obtain ⟨rfl, _⟩ := hw
      exact (h.step ha (List.prefix_append _ _)).1
    · rw [hb] at hw
      simp only [Prod.mk.injEq] at hw
      obtain ⟨rfl, _⟩ := hw
      exact (h.step ha (List.prefix_refl _)).1
  | case2 d b e hb d1 hfull d2 k e2 hw2 hne =>
    rcases writeByte_cases g h c with ⟨b', hw, ha⟩ | ⟨b', hw, ha, _⟩
    · rw [hb] at hw
      simp only [Prod.mk.injEq] at hw
      exact absurd hw.2 (by have : e = .full := by simpa using hfull
                            rw [this]; simp)
    · rw [hb] at hw
      simp only [Prod.mk.injEq] at hw
      obtain ⟨rfl, _⟩ := hw
      have := good_writeTo (h.step ha (List.prefix_refl _)).1
      rw [hw2] at this
      exact this
  | case3 d b e hb d1 hfull d2 k e2 hw2 hok hprog ih =>
    rcases writeByte_cases g h c with ⟨b', hw, ha⟩ | ⟨b', hw, ha, _⟩
    · rw [hb] at hw
      simp only [Prod.mk.injEq] at hw
      exact absurd hw.2 (by have : e = .full := by simpa using hfull
                            rw [this]; simp)
    · rw [hb] at hw
      simp only [Prod.mk.injEq] at hw
      obtain ⟨rfl, _⟩ := hw
      have := good_writeTo (h.step ha (List.prefix_refl _)).1
      rw [hw2] at this
      exact ih this
  | case4 d b e hb d1 hfull d2 k e2 hw2 hok hprog =>
    rcases writeByte_cases g h c with ⟨b', hw, ha⟩ | ⟨b', hw, ha, _⟩
    · rw [hb] at hw
      simp only [Prod.mk.injEq] at hw
      exact absurd hw.2 (by have : e = .full := by simpa using hfull
                            rw [this]; simp)
    · rw [hb] at hw
      simp only [Prod.mk.injEq] at hw
      obtain ⟨rfl, _⟩ := hw
      have := good_writeTo (h.step ha (List.prefix_refl _)).1
      rw [hw2] at this
      exact this

/-! ## `Decoder.WriteBlock` never refuses a well-formed block that fits -/

/-- the result is not one of the refusals of the buffer -/
def NotRefused (e : Err) : Prop := e ≠ .full ∧ e ≠ .litLen ∧ e ≠ .offset ∧ e ≠ .matchLen

theorem NotRefused.of_ok_or_werr {e : Err} (h : e = .ok ∨ WErr e) : NotRefused e := by
  rcases h with h | h | ⟨c, h⟩ <;> subst h <;> simp [NotRefused]

theorem NotRefused.ok_or_werr {e : Err} (h : NotRefused e) (h2 : BufErr e ∨ WErr e) : e = .ok ∨ WErr e := by
  rcases h2 with h2 | h2
  · unfold BufErr at h2
    obtain ⟨a, b, c, d⟩ := h
    rcases h2 with h2 | h2 | h2 | h2 | h2
    · exact Or.inl h2
    all_goals contradiction
  · exact Or.inr h2

theorem writeBlock_accepts (g : Grow) : ∀ (N M : Nat) (d : Decoder) (seqs : List Seq) (lits : List Byte)
    (n : Int) (k l : Nat), seqs.length = N → d.unflushed = M → Good d →
    WFSeqs d.buf.ws d.log.length lits.length seqs → SeqsFit (d.buf.bs - d.buf.ws) seqs →
    NotRefused (d.writeBlock g seqs lits n k l).2.2.2.2 ∧ Good (d.writeBlock g seqs lits n k l).1 := by
  intro N
  induction N using Nat.strongRecOn with
  | ind N ihN =>
  intro M
  induction M using Nat.strongRecOn with
  | ind M ihM =>
  intro d seqs lits n k l hN hM h hwf hfit
  rw [writeBlock_eq]
  have hbuf := DecBuf.writeBlock_wf g h ⟨seqs, lits⟩ hwf hfit
  obtain ⟨s1, s2, s3, s4, s5, s6, s7, s8, _⟩ := DecBuf.wbuf_post g d.buf ⟨seqs, lits⟩ h.inv
  generalize hR : d.buf.writeBlock g ⟨seqs, lits⟩ = R0 at *
  obtain ⟨b, nn, kk, ll, e⟩ := R0
  obtain ⟨w1, rest, hk, hx, hok, herr⟩ := writeBlock_spec g h ⟨seqs, lits⟩ hR
  simp only at s1 s2 s3 s4 s5 s6 s7 s8 hbuf hk hx hok herr ⊢
  have hpre : d.log <+: w1 := expandSeqs_prefix hx
  split
  · -- the buffer did not report "full": it accepted the whole block
    rename_i hne
    have he : e = .ok := by
      rcases hbuf with h1 | h1
      · exact h1
      · exact absurd h1 (by simpa using hne)
    subst he
    obtain ⟨_, _, ha, _, _⟩ := hok rfl
    exact ⟨by simp [NotRefused], (h.step ha (hpre.trans (List.prefix_append _ _))).1⟩
  · rename_i hfull
    have hfull : e = .full := by simpa using hfull
    subst hfull
    obtain ⟨hl, ha, _, _⟩ := herr (by simp)
    obtain ⟨hg1, hlog1⟩ := h.step ha hpre
    split
    · -- trailing literals: `Decoder.Write`
      have hw := (write_spec g { buf := b, w := d.w } (lits.drop ll) 0 s1).2.2.2.1
      exact ⟨NotRefused.of_ok_or_werr hw, good_write g _ _ _ hg1⟩
    · rename_i hs
      generalize hF : ({ buf := b, w := d.w } : Decoder).writeTo = F
      obtain ⟨d2, f, e2⟩ := F
      obtain ⟨t1, t2, t3, t4, t5, t6, t7, t8, t9, t10, t11, t12, t13, t14⟩ :=
        writeTo_spec' { buf := b, w := d.w } s1 hF
      have hg2 : Good d2 := by
        have := good_writeTo hg1
        rw [hF] at this; exact this
      simp only at t2 t3 t14 ⊢
      split
      · exact ⟨NotRefused.of_ok_or_werr t9, hg2⟩
      · split
        · rename_i hprog
          have hwf2 : WFSeqs d2.buf.ws d2.log.length (lits.drop ll).length (seqs.drop kk) := by
            rw [t2, s2, t14, hlog1]
            have : (lits.drop ll).length = rest.length := by rw [List.length_drop]; omega
            rw [this]
            exact WFSeqs.drop seqs kk d.log lits w1 rest hwf hx
          have hfit2 : SeqsFit (d2.buf.bs - d2.buf.ws) (seqs.drop kk) := by
            apply SeqsFit.drop
            apply WFSeqs.mono_fit hfit
            rw [t2, t3, s2]; omega
          by_cases hkk : kk > 0
          · refine ihN (seqs.drop kk).length ?_ d2.unflushed d2 _ _ _ _ _ rfl rfl hg2 hwf2 hfit2
            simp only [List.length_drop] at hs ⊢; omega
          · have hk0 : kk = 0 := by omega
            subst hk0
            refine ihM d2.unflushed ?_ d2 _ _ _ _ _ (by simpa using hN) rfl hg2 hwf2 hfit2
            simp only [hkk, false_or] at hprog
            omega
        · exact ⟨by simp [NotRefused, hangErr], hg2⟩

/-- `Decoder.WriteBlock` keeps `Good` for EVERY block (valid or not) and every writer -/
theorem good_writeBlock (g : Grow) : ∀ (N M : Nat) (d : Decoder) (seqs : List Seq) (lits : List Byte)
    (n : Int) (k l : Nat), seqs.length = N → d.unflushed = M → Good d →
    Good (d.writeBlock g seqs lits n k l).1 := by
  intro N
  induction N using Nat.strongRecOn with
  | ind N ihN =>
  intro M
  induction M using Nat.strongRecOn with
  | ind M ihM =>
  intro d seqs lits n k l hN hM h
  rw [writeBlock_eq]
  obtain ⟨s1, _, _, _, s5, _⟩ := DecBuf.wbuf_post g d.buf ⟨seqs, lits⟩ h.inv
  generalize hR : d.buf.writeBlock g ⟨seqs, lits⟩ = R0 at *
  obtain ⟨b, nn, kk, ll, e⟩ := R0
  obtain ⟨w1, rest, hk, hx, hok, herr⟩ := writeBlock_spec g h ⟨seqs, lits⟩ hR
  simp only at s1 s5 hk hx hok herr ⊢
  have hpre : d.log <+: w1 := expandSeqs_prefix hx
  have hg1 : Good { buf := b, w := d.w } := by
    by_cases he : e = .ok
    · obtain ⟨_, _, ha, _, _⟩ := hok he
      exact (h.step ha (hpre.trans (List.prefix_append _ _))).1
    · obtain ⟨_, ha, _, _⟩ := herr he
      exact (h.step ha hpre).1
  split
  · exact hg1
  · split
    · exact good_write g _ _ _ hg1
    · rename_i hfull hs
      generalize hF : ({ buf := b, w := d.w } : Decoder).writeTo = F
      obtain ⟨d2, f, e2⟩ := F
      have hg2 : Good d2 := by
        have := good_writeTo hg1
        rw [hF] at this; exact this
      simp only
      split
      · exact hg2
      · split
        · rename_i hprog
          by_cases hkk : kk > 0
          · refine ihN (seqs.drop kk).length ?_ d2.unflushed d2 _ _ _ _ _ rfl rfl hg2
            simp only [List.length_drop] at hs ⊢; omega
          · have hk0 : kk = 0 := by omega
            subst hk0
            refine ihM d2.unflushed ?_ d2 _ _ _ _ _ (by simpa using hN) rfl hg2
            simp only [hkk, false_or] at hprog
            omega
        · exact hg2

/-- what is left of a well-formed block after a partial `WriteBlock` (`k` sequences, `l` literals
    consumed, `Expands`) is well-formed over the log reached -/
theorem Expands.wf_rest {W : Nat} {hist lits out : List Byte} {seqs : List Seq} {k l : Nat}
    (hwf : WFSeqs W hist.length lits.length seqs) (h : Expands hist lits seqs k l out) :
    WFSeqs W out.length (lits.drop l).length (seqs.drop k) := by
  obtain ⟨hk, out1, rest, t, h1, h2, h3, h4, h5⟩ := h
  obtain ⟨_, t0, ht0, hr⟩ := expandSeqs_suffix _ _ _ _ _ h1
  have hd := WFSeqs.drop seqs k hist lits out1 rest hwf h1
  rcases h4 with h4 | h4
  · subst h4
    simp only [List.take_zero, List.append_nil] at h5
    subst h5
    have : (lits.drop l).length = rest.length := by
      rw [hr, List.length_drop] at h2 ⊢; rw [List.length_drop]; omega
    rw [this]; exact hd
  · rw [h4, List.drop_length]; trivial

/-- the retry protocol's flush loop keeps `Good` -/
theorem good_retryWrite (g : Grow) : ∀ (fuel : Nat) (d d' : Decoder) (p : List Byte), Good d →
    retryWrite g fuel d p = some d' → Good d' := by
  intro fuel
  induction fuel with
  | zero => intro d d' p _ h; simp [retryWrite] at h
  | succ fuel ih =>
    intro d d' p h hr
    rw [retryWrite] at hr
    have hw := good_write g d p 0 h
    split at hr
    · exact ih _ _ _ hw hr
    · have hf := good_flush hw
      simp only at hr
      split at hr
      · simp only [Option.some.injEq] at hr; rw [← hr]; exact hf
      · exact ih _ _ _ hf hr

end Decoder
end LZ
