/-
  LzProofs.Runs — property C19, last sentence (the "run clause"):

    "A block of at least 32 bytes that lies inside a run of one repeated byte carries at most one
     literal byte for the hash parsers."

  Proved here for HP, BHP (single hash table) and DHP (two tables) for every state reachable from
  `NewParser` by any history of `Write`, `ReadFrom`, `Parse` (any flags), `Parse(nil)`, `Shrink`,
  `Reset`.  (BDHP and BUP do not satisfy the clause and are not treated.)

    C19_run_hp               one `Parse` call of HP / BHP on a state satisfying `SingleFresh`
    C19_run_dhp              one `Parse` call of DHP on a state satisfying `DoubleFresh`
    singleFresh_stepP, doubleFresh_stepP
                             every operation keeps the invariant
    reachable_singleFresh, reachable_doubleFresh
                             every reachable state satisfies the hypotheses of the two theorems
    C19_run_hash_reachable   the history-level statement (HP, BHP, DHP)

  The invariant (*freshness*, `HashT.Fresh h data W`, LzProofs/RunsFresh.lean): for every buffer
  position `q` with `q + InputLen ≤ W` the slot `hashValue (key data q)` of the table holds an
  entry whose position is `≥ q`.  Nothing is assumed or proved about the other slots (they may hold
  positions `≥ W`, left behind by a `Parse` with `NoTrailingLiterals`).

  Helper files: RunsLemmas (keys, slots, coverage, loop unfoldings), RunsBlock (block level HP/BHP),
  RunsFresh (the freshness invariant and its preservation by the table operations, `Parse` of
  HP/BHP), RunsDhp (everything for the two tables of DHP).
-/
import LzProofs.RunsBlock
import LzProofs.RunsFresh
import LzProofs.RunsDhp
namespace LZ
open Parser PBuf

/-! ## the invariant of HP / BHP states -/

/-- The state has a single hash table of the right size with `1 ≤ InputLen ≤ 8` that is *fresh*:
    every buffer position `q` with `q + InputLen ≤ W` is indexed and the slot of its key holds a
    position `≥ q`. -/
def SingleFresh (s : Parser) : Prop :=
  ∃ h, s.dict = .single h ∧ h.SizeOK ∧ 1 ≤ h.inputLen ∧ h.inputLen ≤ 8 ∧ h.Fresh s.buf.data s.buf.w

/-! ## one `Parse` call -/

theorem parse_panic_of_not_margin (s : Parser) (flags : Nat) (hn : s.blockN ≠ 0) (hm : ¬ s.MarginOK) :
    (s.parse flags).2.2.1 = .panic := by
  unfold MarginOK dictInputLen blockPrefix at hm
  have hm' := Decidable.not_not.mp hm
  unfold parse
  simp only [hn, if_false]
  cases hd : s.dict <;> simp only [hd] at hm' ⊢
  · rw [if_pos hm']
  · rw [if_pos hm']
  · rw [if_pos hm']
  · exact absurd rfl hm'.1
  · exact absurd rfl hm'.1

/-- **C19, run clause, HP and BHP, one call.**  `s` is a state with a fresh single table
    (`SingleFresh`; every reachable HP / BHP state is one, `reachable_singleFresh`), window size
    `≥ 1`, `1 ≤ minMatch ≤ 3`.  If `Parse(&blk, flags)` without `NoTrailingLiterals` returns a block
    of `n ≥ 32` bytes that all equal `b`, the block has at most one literal. -/
theorem C19_run_hp (s : Parser) (hF : SingleFresh s) (hw : s.buf.w ≤ s.buf.data.length)
    (hws : 1 ≤ s.buf.cfg.windowSize) (hmm1 : 1 ≤ s.minMatch) (hmm3 : s.minMatch ≤ 3)
    (flags : Nat) (s' : Parser) (n : Nat) (blk : Block) (b : Byte)
    (hp : s.parse flags = (s', n, .ok, blk)) (hf : flags % 2 = 0) (hn : 32 ≤ n)
    (hrun : ∀ t, t < n → s.buf.data[s.buf.w + t]? = some b) :
    blk.lits.length ≤ 1 := by
  obtain ⟨h, hd, hs, hil1, hil8, hfr⟩ := hF
  have hn0 : s.blockN ≠ 0 := by
    intro h0
    rw [parse_empty s flags h0] at hp
    simp at hp
  have hm : s.MarginOK := by
    apply Classical.byContradiction
    intro hm
    have := parse_panic_of_not_margin s flags hn0 hm
    rw [hp] at this
    simp at this
  have hl := s.blockPrefix_length hw
  have hN := s.blockN_le
  rw [parse_single s flags h hd hn0 hm] at hp
  simp only [Prod.mk.injEq] at hp
  obtain ⟨-, hn', -, hblk⟩ := hp
  rw [runGreedy_w_even _ _ _ _ _ _ hf] at hn'
  have hnN : n = s.blockN := by omega
  have hil := processSegment1_inputLen h s.buf.data ((s.buf.w : Int) - h.inputLen + 1) s.buf.w
  have hR : RunBlock s.blockPrefix s.buf.w n b := by
    refine ⟨by omega, hn, ?_⟩
    intro t ht
    unfold blockPrefix
    rw [List.getElem?_take, if_pos (by omega)]
    exact hrun t ht
  rw [← hblk]
  refine hp_run_block s.buf.cfg.windowSize s.minMatch (s.kind == .BHP) _ s.blockPrefix s.buf.w n b flags hf hR
    (sizeOK_processSegment1 hs _ _ _) (by rw [hil]; exact hil1) (by rw [hil]; exact hil8) hws hmm1 hmm3 ?_
  rw [hil]
  have hc := processSegment1_cov h s.buf.data s.buf.w (s.buf.w : Int) (s.buf.w + 1 - h.inputLen) hs hfr.cov
    (by omega) (by omega)
  apply hc.congr
  intro q hq
  unfold blockPrefix
  exact key_take _ s.buf.data _ q (by rw [hil]; omega)

/-! ## every operation keeps the invariant -/

theorem singleFresh_write (s : Parser) (p : List Byte) (hw : s.buf.w ≤ s.buf.data.length)
    (h : SingleFresh s) : SingleFresh (s.write p).1 := by
  obtain ⟨t, hd, hs, h1, h8, hf⟩ := h
  obtain ⟨a1, -, a3, -⟩ := write_frame s.buf p
  refine ⟨t, hd, hs, h1, h8, ?_⟩
  show t.Fresh (s.buf.write p).1.data (s.buf.write p).1.w
  rw [a1, a3]
  exact hf.append hw _

theorem singleFresh_readFrom (s : Parser) (r : Reader) (hw : s.buf.w ≤ s.buf.data.length)
    (h : SingleFresh s) : SingleFresh (s.readFrom r).1 := by
  obtain ⟨t, hd, hs, h1, h8, hf⟩ := h
  obtain ⟨a1, -, a3, -⟩ := readFrom_frame s.buf r
  refine ⟨t, hd, hs, h1, h8, ?_⟩
  show t.Fresh (s.buf.readFrom r).1.data (s.buf.readFrom r).1.w
  rw [a1, a3]
  exact hf.append hw _

theorem singleFresh_parse (s : Parser) (flags : Nat) (hw : s.buf.w ≤ s.buf.data.length)
    (hroom : Room s.buf) (hmm : 1 ≤ s.minMatch) (h : SingleFresh s) :
    SingleFresh (s.parse flags).1 := by
  by_cases hn : s.blockN = 0
  · rw [parse_empty s flags hn]; exact h
  obtain ⟨t, hd, hs, h1, h8, hf⟩ := h
  obtain ⟨t', e1, e2, e3, e4⟩ :=
    parse_single_fresh s flags t hd hs hf hw hn (marginOK_of_cap s hroom.2 hn) hmm
  refine ⟨t', e1, e2, by rw [e3]; exact h1, by rw [e3]; exact h8, ?_⟩
  rw [parse_frame]
  exact e4

theorem singleFresh_parseNil (s : Parser) (hw : s.buf.w ≤ s.buf.data.length) (h : SingleFresh s) :
    SingleFresh s.parseNil.1 := by
  by_cases hn : s.blockN = 0
  · rw [parseNil_empty s hn]; exact h
  obtain ⟨t, hd, hs, h1, h8, hf⟩ := h
  have hN := s.blockN_le
  unfold parseNil
  simp only [hn, if_false, hd]
  refine ⟨_, rfl, sizeOK_processSegment1 hs _ _ _, ?_, ?_, ?_⟩
  · rw [processSegment1_inputLen]; exact h1
  · rw [processSegment1_inputLen]; exact h8
  · exact processSegment1_fresh t s.buf.data s.buf.w s.blockN hs h1 hf (by omega)

theorem singleFresh_shrink (s : Parser) (h : SingleFresh s) : SingleFresh s.shrink.1 := by
  obtain ⟨t, hd, hs, h1, h8, hf⟩ := h
  unfold Parser.shrink
  rw [PBuf.shrink_spec]
  simp only []
  split
  · exact ⟨t, hd, hs, h1, h8, hf⟩
  · rename_i hdelta
    simp only [hd]
    refine ⟨_, rfl, HashT.sizeOK_shiftOffsets hs _, ?_, ?_, ?_⟩
    · rw [HashT.shiftOffsets_inputLen]; exact h1
    · rw [HashT.shiftOffsets_inputLen]; exact h8
    · have := hf.shift (s.buf.w - s.buf.cfg.shrinkSize) hdelta (by omega)
      have e : min s.buf.cfg.shrinkSize s.buf.w = s.buf.w - (s.buf.w - s.buf.cfg.shrinkSize) := by omega
      simp only [e]
      exact this

theorem singleFresh_reset (s : Parser) (data : List Byte) (capExtra : Nat) (h : SingleFresh s) :
    SingleFresh (s.reset data capExtra).1 := by
  obtain ⟨t, hd, hs, h1, h8, hf⟩ := h
  unfold Parser.reset
  simp only []
  split
  · rename_i he
    rcases reset_frame s.buf data capExtra with ⟨-, -, b2, -⟩ | ⟨b0, -⟩
    · refine ⟨t.clear, ?_, HashT.sizeOK_clear hs, h1, h8, ?_⟩
      · simp only [clearDict, hd]
      · simp only [b2]
        exact HashT.Fresh.zero _ _ h1
    · exact absurd he b0
  · exact ⟨t, hd, hs, h1, h8, hf⟩

/-- every operation of a history keeps `SingleFresh` -/
theorem singleFresh_stepP (s : Parser) (op : POp) (hw : s.buf.w ≤ s.buf.data.length)
    (hroom : Room s.buf) (hmm : 1 ≤ s.minMatch) (h : SingleFresh s) : SingleFresh (stepP s op) := by
  cases op with
  | write p => exact singleFresh_write s p hw h
  | readFrom r => exact singleFresh_readFrom s r hw h
  | parse flags => exact singleFresh_parse s flags hw hroom hmm h
  | parseNil => exact singleFresh_parseNil s hw h
  | shrink => exact singleFresh_shrink s h
  | reset data capExtra => exact singleFresh_reset s data capExtra h

/-! ## DHP: two tables -/

/-- The state has two hash tables (`InputLen1 ≤ InputLen2 ≤ 8`), both of the right size and both
    fresh. -/
def DoubleFresh (s : Parser) : Prop :=
  ∃ d, s.dict = .double d ∧ d.h1.SizeOK ∧ d.h2.SizeOK ∧ 1 ≤ d.h1.inputLen ∧
    d.h1.inputLen ≤ d.h2.inputLen ∧ d.h2.inputLen ≤ 8 ∧
    d.h1.Fresh s.buf.data s.buf.w ∧ d.h2.Fresh s.buf.data s.buf.w

/-- **C19, run clause, DHP, one call.**  As `C19_run_hp`, for a state of kind DHP with two fresh
    tables (`DoubleFresh`; every reachable DHP state is one, `reachable_doubleFresh`). -/
theorem C19_run_dhp (s : Parser) (hk : s.kind = .DHP) (hF : DoubleFresh s)
    (hw : s.buf.w ≤ s.buf.data.length)
    (hws : 1 ≤ s.buf.cfg.windowSize) (hmm1 : 1 ≤ s.minMatch) (hmm3 : s.minMatch ≤ 3)
    (flags : Nat) (s' : Parser) (n : Nat) (blk : Block) (b : Byte)
    (hp : s.parse flags = (s', n, .ok, blk)) (hf : flags % 2 = 0) (hn : 32 ≤ n)
    (hrun : ∀ t, t < n → s.buf.data[s.buf.w + t]? = some b) :
    blk.lits.length ≤ 1 := by
  obtain ⟨d, hd, hs1, hs2, hil1, hil, hil8, hf1, hf2⟩ := hF
  have hn0 : s.blockN ≠ 0 := by
    intro h0
    rw [parse_empty s flags h0] at hp
    simp at hp
  have hm : s.MarginOK := by
    apply Classical.byContradiction
    intro hm
    have := parse_panic_of_not_margin s flags hn0 hm
    rw [hp] at this
    simp at this
  have hl := s.blockPrefix_length hw
  have hN := s.blockN_le
  rw [parse_double s flags d hd hn0 hm] at hp
  simp only [Prod.mk.injEq] at hp
  obtain ⟨-, hn', -, hblk⟩ := hp
  rw [runGreedy_w_even _ _ _ _ _ _ hf] at hn'
  have hnN : n = s.blockN := by omega
  have hkb : (s.kind == Kind.BDHP) = false := by rw [hk]; rfl
  rw [hkb] at hblk
  obtain ⟨hi1, hi2⟩ := processSegment2_inputLen d.h1 d.h2 s.buf.data ((s.buf.w : Int) - d.h2.inputLen + 1) s.buf.w
  obtain ⟨hz1, hz2⟩ := sizeOK_processSegment2 hs1 hs2 s.buf.data ((s.buf.w : Int) - d.h2.inputLen + 1) s.buf.w
  have hcc := processSegment2_cov d.h1 d.h2 s.buf.data s.buf.w (s.buf.w : Int) (s.buf.w + 1 - d.h1.inputLen)
    (s.buf.w + 1 - d.h2.inputLen) hs1 hs2 hil hf1.cov hf2.cov (by omega) (by omega) (by omega) (by omega)
  have hR : RunBlock s.blockPrefix s.buf.w n b := by
    refine ⟨by omega, hn, ?_⟩
    intro t ht
    unfold blockPrefix
    rw [List.getElem?_take, if_pos (by omega)]
    exact hrun t ht
  generalize processSegment2 d.h1 d.h2 s.buf.data ((s.buf.w : Int) - d.h2.inputLen + 1) s.buf.w = hh
    at hi1 hi2 hz1 hz2 hcc hblk
  rw [← hblk]
  refine dhp_run_block s.buf.cfg.windowSize s.minMatch ⟨hh.1, hh.2⟩ s.blockPrefix s.buf.w n b flags hf hR
    hz2 (by rw [hi1]; exact hil1) (by rw [hi1, hi2]; exact hil) (by rw [hi2]; exact hil8) hws hmm1 hmm3 ?_ ?_
  · simp only [hi1]
    apply hcc.1.congr
    intro q hq
    unfold blockPrefix
    exact key_take _ s.buf.data _ q (by rw [hi1]; omega)
  · simp only [hi2]
    apply hcc.2.congr
    intro q hq
    unfold blockPrefix
    exact key_take _ s.buf.data _ q (by rw [hi2]; omega)

theorem doubleFresh_write (s : Parser) (p : List Byte) (hw : s.buf.w ≤ s.buf.data.length)
    (h : DoubleFresh s) : DoubleFresh (s.write p).1 := by
  obtain ⟨d, hd, hs1, hs2, h1, h12, h8, hf1, hf2⟩ := h
  obtain ⟨a1, -, a3, -⟩ := write_frame s.buf p
  refine ⟨d, hd, hs1, hs2, h1, h12, h8, ?_, ?_⟩
  · show d.h1.Fresh (s.buf.write p).1.data (s.buf.write p).1.w
    rw [a1, a3]; exact hf1.append hw _
  · show d.h2.Fresh (s.buf.write p).1.data (s.buf.write p).1.w
    rw [a1, a3]; exact hf2.append hw _

theorem doubleFresh_readFrom (s : Parser) (r : Reader) (hw : s.buf.w ≤ s.buf.data.length)
    (h : DoubleFresh s) : DoubleFresh (s.readFrom r).1 := by
  obtain ⟨d, hd, hs1, hs2, h1, h12, h8, hf1, hf2⟩ := h
  obtain ⟨a1, -, a3, -⟩ := readFrom_frame s.buf r
  refine ⟨d, hd, hs1, hs2, h1, h12, h8, ?_, ?_⟩
  · show d.h1.Fresh (s.buf.readFrom r).1.data (s.buf.readFrom r).1.w
    rw [a1, a3]; exact hf1.append hw _
  · show d.h2.Fresh (s.buf.readFrom r).1.data (s.buf.readFrom r).1.w
    rw [a1, a3]; exact hf2.append hw _

theorem doubleFresh_parse (s : Parser) (flags : Nat) (hk : s.kind = .DHP)
    (hw : s.buf.w ≤ s.buf.data.length) (hroom : Room s.buf) (hmm : 1 ≤ s.minMatch)
    (h : DoubleFresh s) : DoubleFresh (s.parse flags).1 := by
  by_cases hn : s.blockN = 0
  · rw [parse_empty s flags hn]; exact h
  obtain ⟨d, hd, hs1, hs2, h1, h12, h8, hf1, hf2⟩ := h
  obtain ⟨d', e1, e2, e3, e4, e5, e6, e7⟩ :=
    parse_double_fresh s flags d hd hk hs1 hs2 h12 hf1 hf2 hw hn (marginOK_of_cap s hroom.2 hn) hmm
  refine ⟨d', e1, e2, e3, by rw [e4]; exact h1, by rw [e4, e5]; exact h12, by rw [e5]; exact h8, ?_, ?_⟩
  · rw [parse_frame]; exact e6
  · rw [parse_frame]; exact e7

theorem doubleFresh_parseNil (s : Parser) (hw : s.buf.w ≤ s.buf.data.length) (h : DoubleFresh s) :
    DoubleFresh s.parseNil.1 := by
  by_cases hn : s.blockN = 0
  · rw [parseNil_empty s hn]; exact h
  obtain ⟨d, hd, hs1, hs2, h1, h12, h8, hf1, hf2⟩ := h
  have hN := s.blockN_le
  obtain ⟨hi1, hi2⟩ := processSegment2_inputLen d.h1 d.h2 s.buf.data ((s.buf.w : Int) - d.h2.inputLen + 1)
    ((s.buf.w + s.blockN : Nat) : Int)
  obtain ⟨hz1, hz2⟩ := sizeOK_processSegment2 hs1 hs2 s.buf.data ((s.buf.w : Int) - d.h2.inputLen + 1)
    ((s.buf.w + s.blockN : Nat) : Int)
  have hcc := processSegment2_cov d.h1 d.h2 s.buf.data s.buf.w ((s.buf.w + s.blockN : Nat) : Int)
    (s.buf.w + s.blockN + 1 - d.h1.inputLen) (s.buf.w + s.blockN + 1 - d.h2.inputLen) hs1 hs2 h12
    hf1.cov hf2.cov (by omega) (by omega) (by omega) (by omega)
  unfold parseNil
  simp only [hn, if_false, hd]
  refine ⟨_, rfl, hz1, hz2, by rw [hi1]; exact h1, by rw [hi1, hi2]; exact h12, by rw [hi2]; exact h8, ?_, ?_⟩
  · apply HashT.Cov.fresh
    rw [hi1]; exact hcc.1
  · apply HashT.Cov.fresh
    rw [hi2]; exact hcc.2

theorem doubleFresh_shrink (s : Parser) (h : DoubleFresh s) : DoubleFresh s.shrink.1 := by
  obtain ⟨d, hd, hs1, hs2, h1, h12, h8, hf1, hf2⟩ := h
  unfold Parser.shrink
  rw [PBuf.shrink_spec]
  simp only []
  split
  · exact ⟨d, hd, hs1, hs2, h1, h12, h8, hf1, hf2⟩
  · rename_i hdelta
    simp only [hd]
    have e : min s.buf.cfg.shrinkSize s.buf.w = s.buf.w - (s.buf.w - s.buf.cfg.shrinkSize) := by omega
    refine ⟨_, rfl, HashT.sizeOK_shiftOffsets hs1 _, HashT.sizeOK_shiftOffsets hs2 _, ?_, ?_, ?_, ?_, ?_⟩
    · simp only [HashT.shiftOffsets_inputLen]; exact h1
    · simp only [HashT.shiftOffsets_inputLen]; exact h12
    · simp only [HashT.shiftOffsets_inputLen]; exact h8
    · simp only [e]
      exact hf1.shift (s.buf.w - s.buf.cfg.shrinkSize) hdelta (by omega)
    · simp only [e]
      exact hf2.shift (s.buf.w - s.buf.cfg.shrinkSize) hdelta (by omega)

theorem doubleFresh_reset (s : Parser) (data : List Byte) (capExtra : Nat) (h : DoubleFresh s) :
    DoubleFresh (s.reset data capExtra).1 := by
  obtain ⟨d, hd, hs1, hs2, h1, h12, h8, hf1, hf2⟩ := h
  unfold Parser.reset
  simp only []
  split
  · rename_i he
    rcases reset_frame s.buf data capExtra with ⟨-, -, b2, -⟩ | ⟨b0, -⟩
    · refine ⟨{ h1 := d.h1.clear, h2 := d.h2.clear }, ?_, HashT.sizeOK_clear hs1, HashT.sizeOK_clear hs2,
        h1, h12, h8, ?_, ?_⟩
      · simp only [clearDict, hd]
      · simp only [b2]
        exact HashT.Fresh.zero _ _ h1
      · simp only [b2]
        exact HashT.Fresh.zero _ _ (by show 1 ≤ d.h2.inputLen; omega)
    · exact absurd he b0
  · exact ⟨d, hd, hs1, hs2, h1, h12, h8, hf1, hf2⟩

/-- every operation of a DHP history keeps `DoubleFresh` -/
theorem doubleFresh_stepP (s : Parser) (op : POp) (hk : s.kind = .DHP)
    (hw : s.buf.w ≤ s.buf.data.length) (hroom : Room s.buf) (hmm : 1 ≤ s.minMatch)
    (h : DoubleFresh s) : DoubleFresh (stepP s op) := by
  cases op with
  | write p => exact doubleFresh_write s p hw h
  | readFrom r => exact doubleFresh_readFrom s r hw h
  | parse flags => exact doubleFresh_parse s flags hk hw hroom hmm h
  | parseNil => exact doubleFresh_parseNil s hw h
  | shrink => exact doubleFresh_shrink s h
  | reset data capExtra => exact doubleFresh_reset s data capExtra h

/-! ## history level -/

/-- after `SetDefaults` the window size is never 0 -/
theorem setDefaults_windowSize_ne (k : Kind) (r : Cfg) : (setDefaults k r).windowSize ≠ 0 := by
  have hb : (bufDefaults r).windowSize ≠ 0 := by
    unfold bufDefaults
    simp only []
    split
    · decide
    · assumption
  cases k <;> exact hb

/-- accepted configurations have `WindowSize ≥ 1` -/
theorem newParser_windowSize {k : Kind} {raw : Cfg} {s0 : Parser} (h0 : newParser k raw = some s0) :
    1 ≤ s0.buf.cfg.windowSize := by
  unfold newParser at h0
  simp only [] at h0
  split at h0
  · rename_i hv
    cases h0
    have hb := verify_buf k _ hv
    simp only [bufVerify, Bool.decide_and, Bool.and_eq_true, decide_eq_true_eq] at hb
    have hne := setDefaults_windowSize_ne k (raw.restrict k)
    simp only [PBuf.init, Cfg.bufCfg]
    omega
  · cases h0

/-- a fresh HP / BHP parser satisfies the invariant -/
theorem newParser_singleFresh {k : Kind} {raw : Cfg} {s0 : Parser} (h0 : newParser k raw = some s0)
    (hk : k = .HP ∨ k = .BHP) : SingleFresh s0 := by
  unfold newParser at h0
  simp only [] at h0
  split at h0
  · rename_i hv
    cases h0
    have hil : 1 ≤ (setDefaults k (raw.restrict k)).inputLen.toNat ∧
        (setDefaults k (raw.restrict k)).inputLen.toNat ≤ 8 := by
      have e1 : Facts.minInputLen = 2 := rfl
      have e2 : Facts.maxInputLen = 8 := rfl
      rcases hk with rfl | rfl <;>
        simp only [verify, hashVerify, Bool.and_eq_true, decide_eq_true_eq, Bool.decide_and] at hv <;>
        omega
    refine ⟨HashT.new (setDefaults k (raw.restrict k)).inputLen.toNat
      (setDefaults k (raw.restrict k)).hashBits.toNat, ?_, HashT.sizeOK_new _ _, hil.1, hil.2, ?_⟩
    · rcases hk with rfl | rfl <;> rfl
    · exact HashT.Fresh.zero _ _ hil.1
  · cases h0

theorem minMatch_le_three (s : Parser) (hk : s.kind ≠ .GSAP ∧ s.kind ≠ .OSAP) : s.minMatch ≤ 3 := by
  unfold Parser.minMatch
  cases hkk : s.kind <;> simp only [] <;> first | omega | (rw [hkk] at hk; simp at hk)

/-- the invariant of HP / BHP histories: the history invariant `Inv`, `Room` and `SingleFresh` -/
theorem runOps_singleFresh {k : Kind} {c : Cfg} {bc : BufCfg} (hS : Static k c bc) (ops : List POp) :
    ∀ (sg : Parser × Ghost), Inv k c bc sg → Room sg.1.buf → SingleFresh sg.1 →
      Inv k c bc (runOps sg ops) ∧ Room (runOps sg ops).1.buf ∧ SingleFresh (runOps sg ops).1 := by
  induction ops with
  | nil => intro sg h1 h2 h3; exact ⟨h1, h2, h3⟩
  | cons op ops ih =>
    intro sg h1 h2 h3
    apply ih (step sg op) (step_inv hS sg h1 op)
    · rw [step_fst]; exact room_stepP sg.1 op h2
    · rw [step_fst]
      refine singleFresh_stepP sg.1 op h1.hw h2 ?_ h3
      rw [minMatch_eq, h1.kind, h1.cfg]; exact hS.mm

/-- every state of an HP / BHP history satisfies the hypotheses of `C19_run_hp` -/
theorem reachable_singleFresh (k : Kind) (hk : k = .HP ∨ k = .BHP) (raw : Cfg) (s0 : Parser)
    (h0 : newParser k raw = some s0) (ops : List POp) :
    let s := (runOps (s0, Ghost.init) ops).1
    SingleFresh s ∧ s.buf.w ≤ s.buf.data.length ∧ 1 ≤ s.buf.cfg.windowSize ∧ 1 ≤ s.minMatch ∧
      s.minMatch ≤ 3 := by
  intro s
  obtain ⟨hi, hmm, hbs⟩ := newParser_inv k raw s0 h0
  have hne : k ≠ .OSAP := by rcases hk with rfl | rfl <;> decide
  obtain ⟨a1, a2, a3⟩ := runOps_singleFresh ⟨hmm, hbs, histHyp_of_ne k s0 hne⟩ ops (s0, Ghost.init) hi
    (newParser_room h0) (newParser_singleFresh h0 hk)
  refine ⟨a3, a1.hw, ?_, ?_, ?_⟩
  · rw [a1.bcfg]; exact newParser_windowSize h0
  · rw [minMatch_eq, a1.kind, a1.cfg]; exact hmm
  · apply minMatch_le_three
    rw [a1.kind]
    rcases hk with rfl | rfl <;> decide

/-- a fresh DHP parser satisfies the invariant -/
theorem newParser_doubleFresh {raw : Cfg} {s0 : Parser} (h0 : newParser .DHP raw = some s0) :
    DoubleFresh s0 := by
  unfold newParser at h0
  simp only [] at h0
  split at h0
  · rename_i hv
    cases h0
    have e1 : Facts.minInputLen = 2 := rfl
    have e2 : Facts.maxInputLen = 8 := rfl
    simp only [verify, hashVerify, Bool.and_eq_true, decide_eq_true_eq, Bool.decide_and] at hv
    have hil1 : 1 ≤ (setDefaults .DHP (raw.restrict .DHP)).inputLen1.toNat := by omega
    have hil12 : (setDefaults .DHP (raw.restrict .DHP)).inputLen1.toNat ≤
        (setDefaults .DHP (raw.restrict .DHP)).inputLen2.toNat := by omega
    have hil8 : (setDefaults .DHP (raw.restrict .DHP)).inputLen2.toNat ≤ 8 := by omega
    refine ⟨{ h1 := HashT.new (setDefaults .DHP (raw.restrict .DHP)).inputLen1.toNat
                (setDefaults .DHP (raw.restrict .DHP)).hashBits1.toNat,
              h2 := HashT.new (setDefaults .DHP (raw.restrict .DHP)).inputLen2.toNat
                (setDefaults .DHP (raw.restrict .DHP)).hashBits2.toNat },
      rfl, HashT.sizeOK_new _ _, HashT.sizeOK_new _ _, hil1, hil12, hil8, ?_, ?_⟩
    · exact HashT.Fresh.zero _ _ hil1
    · exact HashT.Fresh.zero _ _ (by show 1 ≤ (setDefaults .DHP (raw.restrict .DHP)).inputLen2.toNat; omega)
  · cases h0

/-- the invariant of DHP histories: `Inv`, `Room` and `DoubleFresh` -/
theorem runOps_doubleFresh {c : Cfg} {bc : BufCfg} (hS : Static .DHP c bc) (ops : List POp) :
    ∀ (sg : Parser × Ghost), Inv .DHP c bc sg → Room sg.1.buf → DoubleFresh sg.1 →
      Inv .DHP c bc (runOps sg ops) ∧ Room (runOps sg ops).1.buf ∧ DoubleFresh (runOps sg ops).1 := by
  induction ops with
  | nil => intro sg h1 h2 h3; exact ⟨h1, h2, h3⟩
  | cons op ops ih =>
    intro sg h1 h2 h3
    apply ih (step sg op) (step_inv hS sg h1 op)
    · rw [step_fst]; exact room_stepP sg.1 op h2
    · rw [step_fst]
      refine doubleFresh_stepP sg.1 op h1.kind h1.hw h2 ?_ h3
      rw [minMatch_eq, h1.kind, h1.cfg]; exact hS.mm

/-- every state of a DHP history satisfies the hypotheses of `C19_run_dhp` -/
theorem reachable_doubleFresh (raw : Cfg) (s0 : Parser)
    (h0 : newParser .DHP raw = some s0) (ops : List POp) :
    let s := (runOps (s0, Ghost.init) ops).1
    s.kind = .DHP ∧ DoubleFresh s ∧ s.buf.w ≤ s.buf.data.length ∧ 1 ≤ s.buf.cfg.windowSize ∧
      1 ≤ s.minMatch ∧ s.minMatch ≤ 3 := by
  intro s
  obtain ⟨hi, hmm, hbs⟩ := newParser_inv .DHP raw s0 h0
  obtain ⟨a1, a2, a3⟩ := runOps_doubleFresh ⟨hmm, hbs, histHyp_of_ne .DHP s0 (by decide)⟩ ops
    (s0, Ghost.init) hi (newParser_room h0) (newParser_doubleFresh h0)
  refine ⟨a1.kind, a3, a1.hw, ?_, ?_, ?_⟩
  · rw [a1.bcfg]; exact newParser_windowSize h0
  · rw [minMatch_eq, a1.kind, a1.cfg]; exact hmm
  · apply minMatch_le_three
    rw [a1.kind]
    decide

/-- **C19, run clause, history level (HP, BHP, DHP).**  For every accepted configuration, every
    history of `Write`, `ReadFrom`, `Parse` (any flags), `Parse(nil)`, `Shrink`, `Reset`: if the next
    `Parse(&blk, flags)` without `NoTrailingLiterals` returns a block of `n ≥ 32` bytes, all equal
    to one byte `b`, the block carries at most one literal byte. -/
theorem C19_run_hash_reachable (k : Kind) (hk : k = .HP ∨ k = .BHP ∨ k = .DHP) (raw : Cfg) (s0 : Parser)
    (h0 : newParser k raw = some s0) (ops : List POp)
    (flags : Nat) (s' : Parser) (n : Nat) (blk : Block) (b : Byte) :
    let s := (runOps (s0, Ghost.init) ops).1
    s.parse flags = (s', n, .ok, blk) → flags % 2 = 0 → 32 ≤ n →
    (∀ t, t < n → s.buf.data[s.buf.w + t]? = some b) →
    blk.lits.length ≤ 1 := by
  intro s hp hf hn hrun
  rcases hk with hk | hk | hk
  · obtain ⟨a1, a2, a3, a4, a5⟩ := reachable_singleFresh k (Or.inl hk) raw s0 h0 ops
    exact C19_run_hp s a1 a2 a3 a4 a5 flags s' n blk b hp hf hn hrun
  · obtain ⟨a1, a2, a3, a4, a5⟩ := reachable_singleFresh k (Or.inr hk) raw s0 h0 ops
    exact C19_run_hp s a1 a2 a3 a4 a5 flags s' n blk b hp hf hn hrun
  · subst hk
    obtain ⟨a0, a1, a2, a3, a4, a5⟩ := reachable_doubleFresh raw s0 h0 ops
    exact C19_run_dhp s a0 a1 a2 a3 a4 a5 flags s' n blk b hp hf hn hrun

/-- `C19_run_hash_reachable` for the single-table parsers, `k ∈ {HP, BHP}` -/
theorem C19_run_hp_reachable (k : Kind) (hk : k = .HP ∨ k = .BHP) (raw : Cfg) (s0 : Parser)
    (h0 : newParser k raw = some s0) (ops : List POp)
    (flags : Nat) (s' : Parser) (n : Nat) (blk : Block) (b : Byte)
    (hp : (runOps (s0, Ghost.init) ops).1.parse flags = (s', n, .ok, blk)) (hf : flags % 2 = 0)
    (hn : 32 ≤ n)
    (hrun : ∀ t, t < n → (runOps (s0, Ghost.init) ops).1.buf.data[(runOps (s0, Ghost.init) ops).1.buf.w + t]?
      = some b) :
    blk.lits.length ≤ 1 :=
  C19_run_hash_reachable k (by rcases hk with h | h <;> simp [h]) raw s0 h0 ops flags s' n blk b hp hf hn hrun

/-- `C19_run_hash_reachable` for DHP -/
theorem C19_run_dhp_reachable (raw : Cfg) (s0 : Parser)
    (h0 : newParser .DHP raw = some s0) (ops : List POp)
    (flags : Nat) (s' : Parser) (n : Nat) (blk : Block) (b : Byte)
    (hp : (runOps (s0, Ghost.init) ops).1.parse flags = (s', n, .ok, blk)) (hf : flags % 2 = 0)
    (hn : 32 ≤ n)
    (hrun : ∀ t, t < n → (runOps (s0, Ghost.init) ops).1.buf.data[(runOps (s0, Ghost.init) ops).1.buf.w + t]?
      = some b) :
    blk.lits.length ≤ 1 :=
  C19_run_hash_reachable .DHP (Or.inr (Or.inr rfl)) raw s0 h0 ops flags s' n blk b hp hf hn hrun

/-! ## non-vacuity -/

section Examples

/-- WindowSize 64, BufferSize 64, BlockSize 32, InputLen 3, 16 table slots (for DHP: InputLen1 3,
    InputLen2 6) -/
def runCfg : Cfg :=
  { windowSize := 64, bufferSize := 64, blockSize := 32, shrinkSize := 16, inputLen := 3, hashBits := 4,
    inputLen1 := 3, hashBits1 := 4, inputLen2 := 6, hashBits2 := 4 }

/-- the parser `NewParser` returns for `runCfg` -/
def runS0 (k : Kind) : Parser :=
  { kind := k, cfg := setDefaults k (runCfg.restrict k),
    buf := PBuf.init (setDefaults k (runCfg.restrict k)).bufCfg,
    dict := freshDict k (setDefaults k (runCfg.restrict k)) }

theorem runS0_new (k : Kind) (hv : verify k (setDefaults k (runCfg.restrict k)) = true) :
    newParser k runCfg = some (runS0 k) := by
  unfold newParser
  simp only []
  rw [if_pos hv]
  rfl

/-- the history: one `Write` of 40 bytes `a` -/
def runOpsEx : List POp := [.write (List.replicate 40 97)]

/-- all hypotheses of `C19_run_hash_reachable` are satisfiable: after writing 40 equal bytes the
    first `Parse` of HP / BHP / DHP returns a block of `n = 32 = BlockSize` equal bytes -/
theorem run_example (k : Kind) (hk : k = .HP ∨ k = .BHP ∨ k = .DHP)
    (hv : verify k (setDefaults k (runCfg.restrict k)) = true)
    (hdata : (runOps (runS0 k, Ghost.init) runOpsEx).1.buf.data = List.replicate 40 97)
    (hw : (runOps (runS0 k, Ghost.init) runOpsEx).1.buf.w = 0)
    (hbs : (runOps (runS0 k, Ghost.init) runOpsEx).1.buf.cfg.blockSize = 32) :
    ∃ s' blk,
      let s := (runOps (runS0 k, Ghost.init) runOpsEx).1
      newParser k runCfg = some (runS0 k) ∧
      s.parse 0 = (s', 32, .ok, blk) ∧ (∀ t, t < 32 → s.buf.data[s.buf.w + t]? = some 97) ∧
      blk.lits.length ≤ 1 := by
  have hne : k ≠ .OSAP := by rcases hk with rfl | rfl | rfl <;> decide
  have hst := reachable_stateOK k runCfg (runS0 k) (runS0_new k hv) hne runOpsEx
  obtain ⟨s', n, blk, hp, -, -, -, -, -, -, -, -, -, -, -, hfull, -⟩ :=
    C01_C02_C03_parse _ 0 hst.1 hst.2 (by rw [hw, hdata]; decide)
  have hn : n = 32 := by
    rw [hfull (Or.inl rfl), hdata, hw, hbs]; decide
  subst hn
  have hrun : ∀ t, t < 32 → (runOps (runS0 k, Ghost.init) runOpsEx).1.buf.data[
      (runOps (runS0 k, Ghost.init) runOpsEx).1.buf.w + t]? = some 97 := by
    intro t ht
    rw [hdata, hw, Nat.zero_add, List.getElem?_replicate, if_pos (by omega)]
  exact ⟨s', blk, runS0_new k hv, hp, hrun,
    C19_run_hash_reachable k hk runCfg _ (runS0_new k hv) runOpsEx 0 s' 32 blk 97 hp rfl
      (Nat.le_refl _) hrun⟩

example : ∃ s' blk,
    let s := (runOps (runS0 .HP, Ghost.init) runOpsEx).1
    newParser .HP runCfg = some (runS0 .HP) ∧
    s.parse 0 = (s', 32, .ok, blk) ∧ (∀ t, t < 32 → s.buf.data[s.buf.w + t]? = some 97) ∧
    blk.lits.length ≤ 1 :=
  run_example .HP (Or.inl rfl) (by decide) (by decide) (by decide) (by decide)

example : ∃ s' blk,
    let s := (runOps (runS0 .BHP, Ghost.init) runOpsEx).1
    newParser .BHP runCfg = some (runS0 .BHP) ∧
    s.parse 0 = (s', 32, .ok, blk) ∧ (∀ t, t < 32 → s.buf.data[s.buf.w + t]? = some 97) ∧
    blk.lits.length ≤ 1 :=
  run_example .BHP (Or.inr (Or.inl rfl)) (by decide) (by decide) (by decide) (by decide)

example : ∃ s' blk,
    let s := (runOps (runS0 .DHP, Ghost.init) runOpsEx).1
    newParser .DHP runCfg = some (runS0 .DHP) ∧
    s.parse 0 = (s', 32, .ok, blk) ∧ (∀ t, t < 32 → s.buf.data[s.buf.w + t]? = some 97) ∧
    blk.lits.length ≤ 1 :=
  run_example .DHP (Or.inr (Or.inr rfl)) (by decide) (by decide) (by decide) (by decide)

end Examples

end LZ

