/-
  LzProofs.GenBHPParseNil — the NIL PATH of the mechanical translation of bhp.go `(*backwardHashParser).Parse`:
  `backwardHashParser_Parse_nilable grow fuel lcs s true blk flags` (LzModel/Generated/CodeBHPParse.lean; the pointer
  parameter `blk` is modelled by a flag plus a value, tools/extract/code_nil.go) is the call `Parse(nil, flags)`.
  Port of LzProofs/GenHPParseNil.lean.  The nil path neither looks at `flags` nor calls `lcs`: no hypothesis on either.
  No sorry, no axioms of its own.

    gen_bhp_parse_nonnil   `backwardHashParser_Parse … blk …` IS `backwardHashParser_Parse_nilable … false blk …`
    gen_bhp_parseNil       for every Go state with `ParseOKB s`, every `blk` (a ghost), every `flags`, every `lcs`,
                           `fuel ≥ len + 2`:
                             `parseNilW (ofBHPs s) (staleOfB s) = none` ⇒ the translated `Parse(nil)` is `Res.panic`
                             `… = some (s', n, e)` ⇒ it is `Res.ok (t, blk, n, parseErr e)` — THE SAME `blk`: nothing is
                             written — with `ofBHPs t = s'`, `staleOfB t = staleOfB s`, `ParseOKB t`, and only `W` and
                             the table of the Go state change (`∃ t', t = withWTB s … t'`)
    gen_bhp_parseNil_model on reachable states: the list-level `Parser.parseNil`, no panic
-/
import LzProofs.GenBHPParse
import LzProofs.GenHPParseNil

set_option linter.unusedSimpArgs false
set_option linter.unusedVariables false

namespace LZ.GenBHPParse
open LZ LZ.Gen LZ.GenBuf LZ.GenHash LZ.GenProps LZ.GenHPParse

theorem gen_bhp_parse_nonnil (grow : Nat → Nat → Nat) (fuel : Nat) (lcs : Slice → Slice → Int)
    (s : Gen.backwardHashParser) (blk : Gen.Block') (flags : Int) :
    backwardHashParser_Parse grow fuel lcs s blk flags =
      backwardHashParser_Parse_nilable grow fuel lcs s false blk flags := rfl

/-- the straight-line prefix of the nil path: nothing buffered ⇒ `(0, ErrEmptyBuffer)`, the parser and the ghost block
    unchanged; for every `grow`, `fuel`, `lcs`, `flags` -/
theorem gen_bhp_parseNil_empty (grow : Nat → Nat → Nat) (fuel : Nat) (lcs : Slice → Slice → Int)
    (s : Gen.backwardHashParser) (blk : Gen.Block') (flags : Int) (h : blockNB s = 0) :
    backwardHashParser_Parse_nilable grow fuel lcs s true blk flags = Res.ok (s, blk, (0 : Int), ErrEmptyBuffer) := by
  have h' : ((s.hashDictionary.ParserBuffer.Data.len : Int) - s.hashDictionary.ParserBuffer.W > s.BHPConfig.BlockSize ∧
        s.BHPConfig.BlockSize = 0) ∨
      (¬ (s.hashDictionary.ParserBuffer.Data.len : Int) - s.hashDictionary.ParserBuffer.W > s.BHPConfig.BlockSize ∧
        (s.hashDictionary.ParserBuffer.Data.len : Int) - s.hashDictionary.ParserBuffer.W = 0) := by
    unfold blockNB at h
    simp only [Int.ofNat_eq_natCast] at h
    split at h
    · exact Or.inl ⟨‹_›, h⟩
    · exact Or.inr ⟨‹_›, h⟩
  unfold backwardHashParser_Parse_nilable
  simp only [if_true]
  bhp_val (0 : Int)
  bhp_ifc

set_option maxHeartbeats 1000000 in
theorem gen_bhp_parseNil (grow : Nat → Nat → Nat) (fuel : Nat) (lcs : Slice → Slice → Int)
    (s : Gen.backwardHashParser) (blk : Gen.Block') (flags : Int)
    (h : ParseOKB s) (hfuel : s.hashDictionary.ParserBuffer.Data.len + 2 ≤ fuel) :
    match ProbeW.parseNilW (ofBHPs s) (staleOfB s) with
    | none => backwardHashParser_Parse_nilable grow fuel lcs s true blk flags = Res.panic
    | some (s', n, e) =>
      ∃ t, backwardHashParser_Parse_nilable grow fuel lcs s true blk flags = Res.ok (t, blk, (n : Int), parseErr e) ∧
        ofBHPs t = s' ∧ staleOfB t = staleOfB s ∧ (e = .ok ∨ e = .empty) ∧ ParseOKB t ∧
        ∃ t', t = withWTB s ((s'.buf.w : Nat) : Int) t' := by
  have hP := h
  obtain ⟨⟨hpb, hhw⟩, cws, cbs, cil, hbs0, hW, hil1, hsh, hsmall⟩ := h
  obtain ⟨hgwf, hil0, hmask, hsh2, htl⟩ := hhw
  have hD : SWF s.hashDictionary.ParserBuffer.Data := hpb.data
  have hD' : s.hashDictionary.ParserBuffer.Data.len ≤ s.hashDictionary.ParserBuffer.Data.arr.length := hD
  have hW0 := hpb.w
  have hdl : s.hashDictionary.ParserBuffer.Data.data.length = s.hashDictionary.ParserBuffer.Data.len := data_length hD
  have hbN : (ofBHPs s).blockN = Min.min (s.hashDictionary.ParserBuffer.Data.len - s.hashDictionary.ParserBuffer.W.toNat)
      s.BHPConfig.BlockSize.toNat := by
    show Min.min (s.hashDictionary.ParserBuffer.Data.data.length - _) s.hashDictionary.ParserBuffer.BufConfig.BlockSize.toNat = _
    rw [hdl, cbs]
    rfl
  have hnG : (if (Int.ofNat s.hashDictionary.ParserBuffer.Data.len) - s.hashDictionary.ParserBuffer.W > s.BHPConfig.BlockSize
      then s.BHPConfig.BlockSize
      else (Int.ofNat s.hashDictionary.ParserBuffer.Data.len) - s.hashDictionary.ParserBuffer.W) =
      (((ofBHPs s).blockN : Nat) : Int) := by
    rw [hbN]
    show (if (s.hashDictionary.ParserBuffer.Data.len : Int) - _ > _ then _ else (s.hashDictionary.ParserBuffer.Data.len : Int) - _) = _
    split <;> omega
  have bind_ok : ∀ {α β : Type} (a : α) (f : α → Res β), Res.bind (Res.ok a) f = f a := fun _ _ => rfl
  by_cases hn : (ofBHPs s).blockN = 0
  · have hg : blockNB s = 0 := by unfold blockNB; rw [hnG, hn]; rfl
    rw [gen_bhp_parseNil_empty grow fuel lcs s blk flags hg]
    unfold ProbeW.parseNilW
    simp only [hn, if_true]
    refine ⟨s, rfl, rfl, rfl, by simp, hP, s.hashDictionary.hash.table, ?_⟩
    have e1 : (((ofBHPs s).buf.w : Nat) : Int) = s.hashDictionary.ParserBuffer.W := by
      show ((s.hashDictionary.ParserBuffer.W.toNat : Nat) : Int) = _; omega
    rw [e1]
  generalize hG : backwardHashParser_Parse_nilable grow fuel lcs s true blk flags = G
  unfold backwardHashParser_Parse_nilable at hG
  simp only [if_true] at hG
  -- `n = min(len(s.Data) - s.W, s.BlockSize)` in whatever form the text computes it
  bhp_val (((ofBHPs s).blockN : Nat) : Int) at hG
  rw [parseNilW_single_nf (ofBHPs s) (staleOfB s) (ofHash s.hashDictionary.hash) rfl hn]
  bhp_ifc at hG
  have hargs : ProbeW.processSegment1W (ofHash s.hashDictionary.hash) (ofBHPs s).buf.data (staleOfB s)
      (((ofBHPs s).buf.w : Int) - ((ofHash s.hashDictionary.hash).inputLen : Int) + 1)
        (((ofBHPs s).buf.w + (ofBHPs s).blockN : Nat) : Int) =
      ProbeW.processSegment1W (ofHash s.hashDictionary.hash) s.hashDictionary.ParserBuffer.Data.data
        (s.hashDictionary.ParserBuffer.Data.arr.drop s.hashDictionary.ParserBuffer.Data.len)
        ((s.hashDictionary.ParserBuffer.W - s.hashDictionary.hash.inputLen) + 1)
        (s.hashDictionary.ParserBuffer.W + (((ofBHPs s).blockN : Nat) : Int)) := by
    have e1 : (((ofBHPs s).buf.w : Nat) : Int) = s.hashDictionary.ParserBuffer.W := by
      show ((s.hashDictionary.ParserBuffer.W.toNat : Nat) : Int) = _; omega
    have e2 : (((ofHash s.hashDictionary.hash).inputLen : Nat) : Int) = s.hashDictionary.hash.inputLen := by
      show ((s.hashDictionary.hash.inputLen.toNat : Nat) : Int) = _; omega
    rw [Int.natCast_add, e1, e2]; rfl
  rw [hargs]
  have hps := gen_processSegment fuel s.hashDictionary ((s.hashDictionary.ParserBuffer.W - s.hashDictionary.hash.inputLen) + 1)
    (s.hashDictionary.ParserBuffer.W + (((ofBHPs s).blockN : Nat) : Int)) hD hil0 hmask hsh hsh2 ⟨hgwf, htl⟩ hsmall (by omega)
  -- the arguments of `processSegment` in any spelling
  rw [pseg_argsB fuel s.hashDictionary ((s.hashDictionary.ParserBuffer.W - s.hashDictionary.hash.inputLen) + 1)
    (s.hashDictionary.ParserBuffer.W + (((ofBHPs s).blockN : Nat) : Int)) (by bhp_cond) (by bhp_cond)] at hG
  cases hp1 : ProbeW.processSegment1W (ofHash s.hashDictionary.hash) s.hashDictionary.ParserBuffer.Data.data
        (s.hashDictionary.ParserBuffer.Data.arr.drop s.hashDictionary.ParserBuffer.Data.len)
        ((s.hashDictionary.ParserBuffer.W - s.hashDictionary.hash.inputLen) + 1)
        (s.hashDictionary.ParserBuffer.W + (((ofBHPs s).blockN : Nat) : Int)) with
  | none =>
    rw [hp1] at hps
    simp only [] at hps
    rw [hps] at hG
    exact hG.symm
  | some h' =>
    rw [hp1] at hps
    obtain ⟨t0, ht0, rfl, hps⟩ := hps
    rw [hps, bind_ok] at hG
    rw [Option.bind_some]
    dsimp only at hG ⊢
    have hN := (ofBHPs s).blockN_le
    have hwn : (ofBHPs s).buf.w = s.hashDictionary.ParserBuffer.W.toNat := rfl
    have hLlen : s.hashDictionary.ParserBuffer.W.toNat + (ofBHPs s).blockN ≤ s.hashDictionary.ParserBuffer.Data.len := by
      rw [hbN]; omega
    have hwt : s.hashDictionary.ParserBuffer.W + (((ofBHPs s).blockN : Nat) : Int) =
        (((ofBHPs s).buf.w + (ofBHPs s).blockN : Nat) : Int) := by rw [hwn]; omega
    refine ⟨withWTB s (((ofBHPs s).buf.w + (ofBHPs s).blockN : Nat) : Int) t0, hG.symm.trans ?_, ?_, rfl, Or.inl rfl, ?_, t0, rfl⟩
    · rw [hwt]; rfl
    · show ofBHPs (withWTB s _ t0) = _
      unfold ofBHPs ofDict ofPB
      simp only [Int.toNat_natCast]
      rfl
    · exact ⟨⟨⟨hD, by show (0 : Int) ≤ (((ofBHPs s).buf.w + (ofBHPs s).blockN : Nat) : Int); omega, hpb.off, hpb.ss, hpb.bs⟩, ⟨ht0.1, hil0, hmask, hsh2, ht0.2⟩⟩,
        cws, cbs, cil, hbs0,
        by show (((ofBHPs s).buf.w + (ofBHPs s).blockN : Nat) : Int) ≤ ((s.hashDictionary.ParserBuffer.Data.len : Nat) : Int); rw [hwn]; omega,
        hil1, hsh, hsmall⟩

/-- **Go text → list-level model**, nil path: on reachable states no panic, the result of `Parser.parseNil`. -/
theorem gen_bhp_parseNil_model (grow : Nat → Nat → Nat) (fuel : Nat) (lcs : Slice → Slice → Int)
    (s : Gen.backwardHashParser) (blk : Gen.Block') (flags : Int)
    (h : ParseOKB s) (hfuel : s.hashDictionary.ParserBuffer.Data.len + 2 ≤ fuel)
    (hcap : (ofBHPs s).buf.CapOK) (hil8 : s.hashDictionary.hash.inputLen ≤ 8) :
    ∃ t, backwardHashParser_Parse_nilable grow fuel lcs s true blk flags =
        Res.ok (t, blk, (((ofBHPs s).parseNil).2.1 : Int), parseErr ((ofBHPs s).parseNil).2.2) ∧
      ofBHPs t = ((ofBHPs s).parseNil).1 ∧ staleOfB t = staleOfB s ∧ ParseOKB t ∧
      ∃ t', t = withWTB s ((((ofBHPs s).parseNil).1.buf.w : Nat) : Int) t' := by
  have hb : ProbeW.Backing (ofBHPs s) (staleOfB s) := staleOfB_length s h.wf.1.data
  have hd : ProbeW.HashDictOK (ofBHPs s).dict := by
    exact ⟨by show 1 ≤ s.hashDictionary.hash.inputLen.toNat; have := h.il1; omega,
      by show s.hashDictionary.hash.inputLen.toNat ≤ 8; omega⟩
  have hW := ProbeW.parseNilW_eq (ofBHPs s) (staleOfB s) hb hcap hd
  have hm := gen_bhp_parseNil grow fuel lcs s blk flags h hfuel
  rw [hW] at hm
  obtain ⟨t, h1, h2, h3, _, h5, h6⟩ := hm
  exact ⟨t, h1, h2, h3, h5, h6⟩

#print axioms gen_bhp_parseNil_empty
#print axioms gen_bhp_parseNil
#print axioms gen_bhp_parseNil_model

end LZ.GenBHPParse
