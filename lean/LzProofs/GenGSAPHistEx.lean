/-
  LzProofs.GenGSAPHistEx — non-vacuity of LzProofs/GenGSAPHistRun.lean:
   (1) the three specification hypotheses `GsapSpecs lcp SS BI` are SATISFIABLE: instances `lcpK`, `sortK`, `insK` of the
       opaque callees with a proof `specsK : GsapSpecs lcpK sortK insK`;
   (2) a concrete history executed on the TRANSLATED functions (`runG`) with these instances, checked by KERNEL
       evaluation (`decide +kernel`, no `native_decide`), and the instances of `gen_gsap_history`, `C01_go_text_gsap`,
       `C12_go_text_gsap` for it.

  The instances (cf. notes/prototype/GsapEval.lean):
    lcpK p q  := lcpLen p.data q.data
    insK b js := `BitsetW.insert` on the abstraction `ofBS b`, written back (`ofW`)
    sortK t sa := the elements of `sa` replaced by `srtK t.data` (as int32), the capacity tail kept; panic unless
                  `len(sa) = len(t)`.
  `saSpec` (LzModel/Suffix.lean) is `List.mergeSort`, defined by WELL-FOUNDED recursion, which the kernel does not
  evaluate (`decide +kernel` on `saSpec "banana"` gets stuck).  Therefore
    srtK d := if checkSA d (isortK d) then isortK d else saSpec d
  with `isortK` an insertion sort by STRUCTURAL recursion and `checkSA` the linear checker of LzModel/Suffix.lean:
  `srtK d = saSpec d` for EVERY `d` (`SuffixProps.checkSA_eq_saSpec`: what the checker accepts IS `saSpec`; no
  correctness proof of the insertion sort is needed), and on a concrete input the kernel evaluates the insertion sort
  and the checker, never `saSpec`.

  Configuration (notes/gsap-translate.md §6, the run compared with real Go there): ShrinkSize 8, BufferSize 64,
  WindowSize 16, BlockSize 12, MinMatchLen 2.
  History: Write("abcabcabcabxyzxyzabcabQQQQabcab"); Parse(0); Parse(NoTrailingLiterals) ×2; Parse(0) [empty]; Shrink();
           ReadFrom(reader answering ≤4, 0 (`(0, nil)`), ≤100 bytes of "abcabQQQQxyzxyz", then io.EOF); Parse(0) ×2;
           Reset("hello hello hello"); Parse(0).
  The first four `Parse` results are the values the real Go run of notes/gsap-translate.md §6 printed.
-/
import LzProofs.GenGSAPHistRun
import LzProofs.SuffixProps

set_option linter.unusedSimpArgs false
set_option linter.unusedVariables false

namespace LZ.GenGSAPHist
open LZ LZ.Gen LZ.GenBuf LZ.GenHash LZ.GenSuffix LZ.GenBitset LZ.GsapBits LZ.GenHPParse LZ.GenParse LZ.GenBUPParse
  LZ.GenProps LZ.GenGSAP
open LZ.GenHPHist (GOp GRes GOpR GResR GOpR.WF GOp.WF ghostRunR)

/-! ## instances of the opaque callees -/

def lcpK (p q : Slice) : Int := ((lcpLen p.data q.data : Nat) : Int)

/-- insert position `i` into a list of positions sorted by their suffixes -/
def insPos (t : List Byte) (i : Nat) : List Nat → List Nat
  | [] => [i]
  | j :: r => if lexLe (t.drop i) (t.drop j) then i :: j :: r else j :: insPos t i r

/-- insertion sort of the positions by their suffixes (structural recursion: kernel-evaluable) -/
def isortK (t : List Byte) : List Nat := (List.range t.length).foldr (fun i acc => insPos t i acc) []

/-- `saSpec`, computed by the insertion sort whenever the checker accepts its output -/
def srtK (d : List Byte) : List Nat := if checkSA d (isortK d) then isortK d else saSpec d

theorem srtK_eq (d : List Byte) : srtK d = saSpec d := by
  unfold srtK
  split
  · rename_i h; exact checkSA_eq_saSpec h
  · rfl

def sortK (t : Slice) (sa : GSlice Int32) : Res (GSlice Int32) :=
  if sa.len = t.len then
    Res.ok { sa with arr := ((srtK t.data).map fun (k : Nat) => Int32.ofInt (k : Int)) ++ sa.arr.drop sa.len }
  else Res.panic

/-- a word-level bitset written back as a Go bitset -/
def ofW (w : BitsetW) : Gen.bitset := { a := { arr := w.backing.toList, len := w.len }, off := (w.off : Int) }

def insK (b : Gen.bitset) (js : List Int) : Res Gen.bitset :=
  match (ofBS b).insert (js.map Int.toNat) with
  | some w => Res.ok (ofW w)
  | none => Res.panic

theorem ofBS_ofW (w : BitsetW) : ofBS (ofW w) = w := by
  obtain ⟨bk, l, o⟩ := w
  simp [ofBS, ofW]

/-- **the three specifications are satisfiable** -/
theorem specsK : GsapSpecs lcpK sortK insK := by
  refine ⟨fun p q => rfl, ?_, ?_⟩
  · intro t sa ht hsa hl hmax
    have hlen : ((saSpec t.data).map fun (k : Nat) => Int32.ofInt (k : Int)).length = sa.len := by
      rw [List.length_map, saSpec_length, data_length ht, hl]
    refine ⟨{ sa with arr := ((saSpec t.data).map fun (k : Nat) => Int32.ofInt (k : Int)) ++ sa.arr.drop sa.len },
      by unfold sortK; rw [if_pos hl, srtK_eq], ?_, rfl, ?_⟩
    · show sa.len ≤ (((saSpec t.data).map fun (k : Nat) => Int32.ofInt (k : Int)) ++ sa.arr.drop sa.len).length
      rw [List.length_append]
      omega
    · show (((saSpec t.data).map fun (k : Nat) => Int32.ofInt (k : Int)) ++ sa.arr.drop sa.len).take sa.len = _
      rw [← hlen, List.take_left']
      rfl
  · intro b js hb
    have hmap : (js.map fun (j : Nat) => (j : Int)).map Int.toNat = js := by
      rw [List.map_map]
      conv => rhs; rw [← List.map_id js]
      apply List.map_congr_left
      intro a _
      simp
    unfold insK
    rw [hmap]
    obtain ⟨w', e, inv, -⟩ := BitsetW.insert_members (ofBS b) (winv_of_bswf hb) js
    rw [e]
    refine ⟨ofW w', rfl, ofBS_ofW w', ?_, ?_⟩
    · show w'.len ≤ w'.backing.toList.length
      rw [Array.length_toList]; exact inv
    · show (0 : Int) ≤ (w'.off : Int)
      omega

/-! ## a history -/

def exCfg : Gen.GSAPConfig := { ShrinkSize := 8, BufferSize := 64, WindowSize := 16, BlockSize := 12, MinMatchLen := 2 }

/-- the capacity policy of `append` -/
def exGrow : Nat → Nat → Nat := fun _ n => n

/-- a Go slice with `cap = len` -/
def sliceOf (l : List UInt8) : Slice := { arr := l, len := l.length }

/-- "abcabcabcabxyzxyzabcabQQQQabcab" -/
def exA : List UInt8 :=
  [97, 98, 99, 97, 98, 99, 97, 98, 99, 97, 98, 120, 121, 122, 120, 121, 122, 97, 98, 99, 97, 98, 81, 81, 81, 81, 97, 98,
    99, 97, 98]
/-- "abcabQQQQxyzxyz" -/
def exB : List UInt8 := [97, 98, 99, 97, 98, 81, 81, 81, 81, 120, 121, 122, 120, 121, 122]
/-- "hello hello hello" -/
def exC : List UInt8 := [104, 101, 108, 108, 111, 32, 104, 101, 108, 108, 111, 32, 104, 101, 108, 108, 111]

/-- a reader delivering `exB` in answers of at most 4, 0 (`(0, nil)`) and 100 bytes, then `io.EOF` -/
def exRd : Reader := ⟨exB, [(4, 0), (0, 0), (100, 0)]⟩

def exOps : List GOpR :=
  [ .base (.write (sliceOf exA)), .base (.parse default 0), .base (.parse default 1), .base (.parse default 1),
    .base (.parse default 0), .base .shrink, .readFrom exRd, .base (.parse default 0), .base (.parse default 0),
    .base (.reset (sliceOf exC)), .base (.parse default 0) ]

/-- the state `gsap.init(exCfg)` leaves in `new(gsap)` -/
def exS0 : Gen.gsap :=
  match gsap_init default exCfg with
  | .ok (s, _) => s
  | _ => default

theorem exInit : gsap_init default exCfg = Res.ok (exS0, Gen.Err.ok) := by decide +kernel

theorem exWF : ∀ op ∈ exOps, op.WF := by
  intro op hop
  simp only [exOps, List.mem_cons, List.not_mem_nil, or_false] at hop
  rcases hop with rfl | rfl | rfl | rfl | rfl | rfl | rfl | rfl | rfl | rfl | rfl <;>
    first | trivial | exact Nat.le_refl _ | (show (0 : Int) ≤ _; decide)

/-- the values the translated functions return, in order -/
def exResults : List GResR :=
  [ .base (.write 31 Gen.Err.ok),
    -- "abc" + match(8, offset 3) + "x": 12 bytes = BlockSize; the suffix array of all 31 bytes is built here
    .base (.parse { Sequences := [{ LitLen := 3, MatchLen := 8, Offset := 3, Aux := 0 }],
                    Literals := { arr := [97, 98, 99, 120], len := 4 } } 12 Gen.Err.ok),
    -- NoTrailingLiterals: the block ends with its last match (10 of 12 bytes); the suffix array is dropped
    .base (.parse { Sequences := [{ LitLen := 2, MatchLen := 3, Offset := 3, Aux := 0 },
                                  { LitLen := 3, MatchLen := 2, Offset := 3, Aux := 0 }],
                    Literals := { arr := [121, 122, 97, 98, 99], len := 5 } } 10 Gen.Err.ok),
    -- re-sorted
    .base (.parse { Sequences := [{ LitLen := 1, MatchLen := 3, Offset := 1, Aux := 0 },
                                  { LitLen := 0, MatchLen := 5, Offset := 9, Aux := 0 }],
                    Literals := { arr := [81], len := 1 } } 9 Gen.Err.ok),
    .base (.parse { Sequences := [], Literals := { arr := [], len := 0 } } 0 Gen.ErrEmptyBuffer),
    .base (.shrink 23),
    .readFrom 15 Gen.io_EOF,
    .base (.parse { Sequences := [{ LitLen := 0, MatchLen := 5, Offset := 5, Aux := 0 },
                                  { LitLen := 0, MatchLen := 3, Offset := 13, Aux := 0 }],
                    Literals := { arr := [81, 120, 121, 122], len := 4 } } 12 Gen.Err.ok),
    .base (.parse { Sequences := [{ LitLen := 0, MatchLen := 3, Offset := 3, Aux := 0 }],
                    Literals := { arr := [], len := 0 } } 3 Gen.Err.ok),
    .base (.reset Gen.Err.ok),
    .base (.parse { Sequences := [{ LitLen := 6, MatchLen := 6, Offset := 6, Aux := 0 }],
                    Literals := { arr := [104, 101, 108, 108, 111, 32], len := 6 } } 12 Gen.Err.ok) ]

deriving instance DecidableEq for LZ.GenHPHist.GResR

set_option maxRecDepth 100000 in
/-- the run on the translated functions with the instances of the opaque callees, evaluated by the kernel -/
theorem exRun : (match runG 0 exGrow 200 lcpK sortK insK exS0 exOps with | .ok r => some r.2 | _ => none) =
    some exResults := by
  decide +kernel

/-- the bookkeeping computed from the calls and the results: after the `Reset` 17 bytes were fed, 12 consumed, one block -/
theorem exGhost :
    (ghostRunR Ghost.init exOps exResults).fed = exC ∧ (ghostRunR Ghost.init exOps exResults).consumed = 12 ∧
    (ghostRunR Ghost.init exOps exResults).log.length = 1 := by decide +kernel

/-- the bookkeeping before the `Reset`: 46 bytes fed (31 written, 15 read), all consumed, five blocks, and they decode to
    those bytes -/
theorem exGhost9 :
    (ghostRunR Ghost.init (exOps.take 9) (exResults.take 9)).fed = exA ++ exB ∧
    (ghostRunR Ghost.init (exOps.take 9) (exResults.take 9)).consumed = 46 ∧
    (ghostRunR Ghost.init (exOps.take 9) (exResults.take 9)).log.length = 5 ∧
    decode [] (ghostRunR Ghost.init (exOps.take 9) (exResults.take 9)).log = some (exA ++ exB) := by decide +kernel

theorem exFuel : 2 * exS0.ParserBuffer.BufConfig.BufferSize.toNat + 5 ≤ 200 := by decide +kernel

/-- `gen_gsap_history`, `C01_go_text_gsap`, `C12_go_text_gsap`, `C12_literal_go_text_gsap` (its hypothesis
    `BufferSize ≤ WindowSize` does NOT hold for `exCfg`: 64 > 16; see `exCfgW`) for this history -/
example := gen_gsap_history exCfg exS0 exInit specsK 0 exGrow 200 exFuel exOps exWF
example := gen_gsap_history_states exCfg exS0 exInit specsK 0 exGrow 200 exFuel exOps exWF 7
example := C01_go_text_gsap exCfg exS0 exInit specsK 0 exGrow 200 exFuel exOps exWF
example := C02_go_text_gsap exCfg exS0 exInit specsK 0 exGrow 200 exFuel exOps exWF
example := C03_go_text_gsap exCfg exS0 exInit specsK 0 exGrow 200 exFuel exOps exWF
example := C12_go_text_gsap exCfg exS0 exInit specsK 0 exGrow 200 exFuel (exOps.take 1)
  (fun o ho => exWF o (List.mem_of_mem_take ho)) default 0 (by decide)

/-- a configuration with `BufferSize ≤ WindowSize`, for the literal clause of C12 -/
def exCfgW : Gen.GSAPConfig := { ShrinkSize := 8, BufferSize := 64, WindowSize := 64, BlockSize := 12, MinMatchLen := 2 }

def exS0W : Gen.gsap :=
  match gsap_init default exCfgW with
  | .ok (s, _) => s
  | _ => default

theorem exInitW : gsap_init default exCfgW = Res.ok (exS0W, Gen.Err.ok) := by decide +kernel

example := C12_literal_go_text_gsap exCfgW exS0W exInitW specsK (by decide +kernel) 0 exGrow 200 (by decide +kernel)
  (exOps.take 1) (fun o ho => exWF o (List.mem_of_mem_take ho)) default 0 (by decide)

end LZ.GenGSAPHist

#print axioms LZ.GenGSAPHist.srtK_eq
#print axioms LZ.GenGSAPHist.specsK
#print axioms LZ.GenGSAPHist.exInit
#print axioms LZ.GenGSAPHist.exRun
#print axioms LZ.GenGSAPHist.exGhost
#print axioms LZ.GenGSAPHist.exGhost9
