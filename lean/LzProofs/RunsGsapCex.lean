/-
  LzProofs.RunsGsapCex — the run clause of C19 is FALSE for GSAP with `BufferSize > WindowSize`
  (known finding, here as a kernel-checked reachable state of the model):

    configuration  WindowSize 8, BufferSize 80, BlockSize 33, MinMatchLen 3   (accepted)
    history        Write(a^32 'A' a^32), Parse(&blk, 0)                        (block [0, 33))
    next           Parse(&blk, 0) returns the block [33, 65) of 32 bytes 'a' with NO sequence and
                   32 literals                                                 (`gsap_run_counterexample`)

  Reason: the suffix `a^m` at a block position `i` has the rank neighbours `a^(m-1) A…` and
  `a^m A…` of the OLD run (both marked, 33 positions back); the better one, `a^m A…`, shadows position
  `i - 1` (`a^(m+1)`, one rank further up), is as long as anything can be — and is then rejected by
  the window check `i - f < WindowSize`.  So `BufferSize ≤ WindowSize` in `C19_run_gsap` /
  `C19_run_gsap_reachable` (LzProofs/RunsGsap.lean) cannot be dropped.

  Also here (section `Sharp`): with `BufferSize ≤ WindowSize` the bounds of `C19_run_gsap_sharp`
  (`max 1 (MinMatchLen - 1)`, `gsap_two_literals`) and of `C19_run_gsap` (`MinMatchLen`, for
  `MinMatchLen = 32 = n`, `gsap_minMatch_literals`) are attained.

  The suffix array of the 65-byte buffer is given explicitly and proved to be THE suffix array
  (`suffixArray_unique`), so that `gsap.sort()` can be evaluated inside the kernel.
-/
import LzProofs.RunsGsap
import LzProofs.RunsEval
import LzProofs.SuffixProps
namespace LZ
open Parser PBuf

/-- the `.gsap` branch of `parseF` when it re-sorts: the state may as well hold the sorted
    structure already -/
theorem parseF_gsap_sort (s : Parser) (flags : Nat) (g G : GsapD) (hd : s.dict = .gsap g)
    (hn : s.blockN ≠ 0) (hre : s.buf.w + s.blockN > g.sa.size) (hG : gsapSort s.buf.data s.buf.w = G)
    (hcov : ¬ s.buf.w + s.blockN > G.sa.size) :
    s.parseF flags = ({ s with dict := .gsap G } : Parser).parseF flags := by
  unfold parseF
  simp only [hd]
  have e1 : ({ s with dict := Dict.gsap G } : Parser).blockN = s.blockN := rfl
  have e2 : ({ s with dict := Dict.gsap G } : Parser).minMatch = s.minMatch := rfl
  simp only [e1, e2, if_pos hre, hG, if_neg hcov, if_neg hn, ne_eq, not_true_eq_false, false_and, if_false]

section Cex

/-- WindowSize 8 < BufferSize 80, BlockSize 33, MinMatchLen 3 -/
def gsCexCfg : Cfg :=
  { windowSize := 8, bufferSize := 80, blockSize := 33, shrinkSize := 40, minMatchLen := 3 }

/-- the parser `NewParser` returns for `gsCexCfg` -/
def gsCexS0 : Parser :=
  { kind := .GSAP, cfg := setDefaults .GSAP (gsCexCfg.restrict .GSAP),
    buf := PBuf.init (setDefaults .GSAP (gsCexCfg.restrict .GSAP)).bufCfg,
    dict := freshDict .GSAP (setDefaults .GSAP (gsCexCfg.restrict .GSAP)) }

theorem gsCexS0_new : newParser .GSAP gsCexCfg = some gsCexS0 := by
  unfold newParser
  simp only []
  rw [if_pos (by decide)]
  rfl

/-- `a^32 'A' a^32` -/
def gsCexData : List Byte := List.replicate 32 97 ++ [65] ++ List.replicate 32 97

/-- the history: `Write(a^32 'A' a^32)`, `Parse(&blk, 0)` -/
def gsCexOps : List POp := [.write gsCexData, .parse 0]

/-- the suffix array of `gsCexData` (`#eval saSpec gsCexData`): the suffixes `a^k` (position
    `65 - k`) and `a^k A a^32` (position `32 - k`) interleave -/
def gsCexSA : List Nat :=
  [32, 64, 31, 63, 30, 62, 29, 61, 28, 60, 27, 59, 26, 58, 25, 57, 24, 56, 23, 55, 22, 54, 21, 53, 20,
   52, 19, 51, 18, 50, 17, 49, 16, 48, 15, 47, 14, 46, 13, 45, 12, 44, 11, 43, 10, 42, 9, 41, 8, 40, 7,
   39, 6, 38, 5, 37, 4, 36, 3, 35, 2, 34, 1, 33, 0]

set_option maxRecDepth 100000 in
theorem gsCex_isSA : IsSuffixArray gsCexData gsCexSA := by
  constructor
  · decide
  · decide

theorem gsCex_saSpec : saSpec gsCexData = gsCexSA :=
  suffixArray_unique (saSpec_isSuffixArray _) gsCex_isSA

/-- what `gsap.sort()` produces for `gsCexData` with the window head at 0 -/
def gsCexG : GsapD :=
  { sa := gsCexSA.toArray, isa := invertSA gsCexSA.toArray,
    bits := insertRanks (invertSA gsCexSA.toArray) (Array.replicate gsCexSA.toArray.size false) 0 0 }

theorem gsCex_sort : gsapSort gsCexData 0 = gsCexG := by
  unfold gsapSort gsCexG
  rw [gsCex_saSpec]

set_option maxRecDepth 100000 in
/-- **Counterexample to the run clause for GSAP with `BufferSize > WindowSize`** (kernel-checked):
    in the state reached by `gsCexOps` from `NewParser(gsCexCfg)` the next `Parse` returns the
    block `[33, 65)` of 32 bytes `a` as 32 literals — more than `MinMatchLen = 3`.  All hypotheses of
    `C19_run_gsap_reachable` hold except `BufferSize ≤ WindowSize`. -/
theorem gsap_run_counterexample :
    let s := (runOps (gsCexS0, Ghost.init) gsCexOps).1
    newParser .GSAP gsCexCfg = some gsCexS0 ∧
    ¬ gsCexS0.buf.cfg.bufferSize ≤ gsCexS0.buf.cfg.windowSize ∧
    (s.parse 0).2.1 = 32 ∧ (s.parse 0).2.2.1 = .ok ∧
    (∀ t, t < 32 → s.buf.data[s.buf.w + t]? = some 97) ∧
    (s.parse 0).2.2.2.seqs = [] ∧ (s.parse 0).2.2.2.lits.length = 32 ∧ s.minMatch = 3 := by
  intro s
  -- the state after `Write`
  have hs1 : s = ((gsCexS0.write gsCexData).1.parse 0).1 := by
    show (runOps (gsCexS0, Ghost.init) gsCexOps).1 = _
    rw [runOps_fst]
    rfl
  have hd1 : (gsCexS0.write gsCexData).1.buf.data = gsCexData ∧ (gsCexS0.write gsCexData).1.buf.w = 0 := by
    decide
  -- the first `Parse` sorts; use the explicit suffix array
  have hs2 : s = (({ (gsCexS0.write gsCexData).1 with dict := .gsap gsCexG } : Parser).parseF 0).1 := by
    rw [hs1, parse_eq_parseF,
      parseF_gsap_sort (gsCexS0.write gsCexData).1 0 GsapD.empty gsCexG rfl (by decide) (by decide)
        (by rw [hd1.1, hd1.2]; exact gsCex_sort) (by decide)]
  have hdata : s.buf.w = 33 ∧ s.buf.data = gsCexData ∧ s.minMatch = 3 := by
    rw [hs2]; decide
  have hpar : (s.parse 0).2.1 = 32 ∧ (s.parse 0).2.2.1 = .ok ∧ (s.parse 0).2.2.2.seqs = [] ∧
      (s.parse 0).2.2.2.lits.length = 32 := by
    rw [hs2, parse_eq_parseF]
    decide
  refine ⟨gsCexS0_new, by decide, hpar.1, hpar.2.1, ?_, hpar.2.2.1, hpar.2.2.2, hdata.2.2⟩
  intro t ht
  rw [hdata.1, hdata.2.1]
  unfold gsCexData
  rw [List.getElem?_append_right (by simp), List.getElem?_replicate, if_pos (by simp; omega)]

end Cex

/-! ## `BufferSize ≤ WindowSize`: the bounds of `C19_run_gsap` / `C19_run_gsap_sharp` are attained -/

section Sharp

/-- WindowSize 64 = BufferSize, BlockSize 32, MinMatchLen 3 -/
def gsWCfg : Cfg :=
  { windowSize := 64, bufferSize := 64, blockSize := 32, shrinkSize := 16, minMatchLen := 3 }

def gsWS0 : Parser :=
  { kind := .GSAP, cfg := setDefaults .GSAP (gsWCfg.restrict .GSAP),
    buf := PBuf.init (setDefaults .GSAP (gsWCfg.restrict .GSAP)).bufCfg,
    dict := freshDict .GSAP (setDefaults .GSAP (gsWCfg.restrict .GSAP)) }

theorem gsWS0_new : newParser .GSAP gsWCfg = some gsWS0 := by
  unfold newParser
  simp only []
  rw [if_pos (by decide)]
  rfl

/-- `a^30 b a^32` -/
def gsWData : List Byte := List.replicate 30 97 ++ [98] ++ List.replicate 32 97

/-- the history: `Write(a^30 b)`, `Parse(nil)`, `Write(a^32)` -/
def gsWOps : List POp := [.write (List.replicate 30 97 ++ [98]), .parseNil, .write (List.replicate 32 97)]

/-- the suffix array of `gsWData`: `a^1 < … < a^32` (positions 62 … 31), then `a^30 b… < … < b…`
    (positions 0 … 30) -/
def gsWSA : List Nat := (List.range 32).map (fun k => 62 - k) ++ List.range 31

set_option maxRecDepth 100000 in
theorem gsW_isSA : IsSuffixArray gsWData gsWSA := by
  constructor
  · decide
  · decide

theorem gsW_saSpec : saSpec gsWData = gsWSA :=
  suffixArray_unique (saSpec_isSuffixArray _) gsW_isSA

/-- what `gsap.sort()` produces for `gsWData` with the window head at 31 -/
def gsWG : GsapD :=
  { sa := gsWSA.toArray, isa := invertSA gsWSA.toArray,
    bits := insertRanks (invertSA gsWSA.toArray) (Array.replicate gsWSA.toArray.size false) 0 31 }

theorem gsW_sort : gsapSort gsWData 31 = gsWG := by
  unfold gsapSort gsWG
  rw [gsW_saSpec]

set_option maxRecDepth 100000 in
/-- **GSAP does not satisfy "at most one literal" either, and `C19_run_gsap_sharp` is sharp**
    (kernel-checked; `BufferSize = WindowSize`, MinMatchLen 3): after `gsWOps` the next `Parse`
    returns the block `[31, 63)` of 32 bytes `a`, parsed as one match of length 30 with offset 31 (the
    old run) followed by `MinMatchLen - 1 = 2` literals (no match of 3 bytes fits any more). -/
theorem gsap_two_literals :
    let s := (runOps (gsWS0, Ghost.init) gsWOps).1
    newParser .GSAP gsWCfg = some gsWS0 ∧
    gsWS0.buf.cfg.bufferSize ≤ gsWS0.buf.cfg.windowSize ∧
    (s.parse 0).2.1 = 32 ∧ (s.parse 0).2.2.1 = .ok ∧
    (∀ t, t < 32 → s.buf.data[s.buf.w + t]? = some 97) ∧
    (s.parse 0).2.2.2.seqs = [⟨0, 30, 31, 0⟩] ∧ (s.parse 0).2.2.2.lits = [97, 97] ∧
    (s.parse 0).2.2.2.lits.length = max 1 (s.minMatch - 1) := by
  intro s
  have hdata : s.buf.w = 31 ∧ s.buf.data = gsWData ∧ s.minMatch = 3 := by decide
  have hpf : s.parse 0 = ({ s with dict := .gsap gsWG } : Parser).parseF 0 := by
    rw [parse_eq_parseF]
    exact parseF_gsap_sort s 0 GsapD.empty gsWG rfl (by decide) (by decide)
      (by rw [hdata.1, hdata.2.1]; exact gsW_sort) (by decide)
  have hpar : (s.parse 0).2.1 = 32 ∧ (s.parse 0).2.2.1 = .ok ∧
      (s.parse 0).2.2.2.seqs = [⟨0, 30, 31, 0⟩] ∧ (s.parse 0).2.2.2.lits = [97, 97] := by
    rw [hpf]
    decide
  refine ⟨gsWS0_new, by decide, hpar.1, hpar.2.1, ?_, hpar.2.2.1, hpar.2.2.2, ?_⟩
  · intro t ht
    rw [hdata.1, hdata.2.1]
    unfold gsWData
    rw [List.getElem?_append_right (by simp), List.getElem?_replicate, if_pos (by simp; omega)]
  · rw [hpar.2.2.2, hdata.2.2]; decide

/-- WindowSize 64 = BufferSize, BlockSize 32, MinMatchLen 32 -/
def gsMCfg : Cfg :=
  { windowSize := 64, bufferSize := 64, blockSize := 32, shrinkSize := 16, minMatchLen := 32 }

def gsMS0 : Parser :=
  { kind := .GSAP, cfg := setDefaults .GSAP (gsMCfg.restrict .GSAP),
    buf := PBuf.init (setDefaults .GSAP (gsMCfg.restrict .GSAP)).bufCfg,
    dict := freshDict .GSAP (setDefaults .GSAP (gsMCfg.restrict .GSAP)) }

theorem gsMS0_new : newParser .GSAP gsMCfg = some gsMS0 := by
  unfold newParser
  simp only []
  rw [if_pos (by decide)]
  rfl

/-- the suffix array of `a^40`: positions 39, 38, …, 0 -/
def gsMSA : List Nat := (List.range 40).map (fun k => 39 - k)

set_option maxRecDepth 100000 in
theorem gsM_isSA : IsSuffixArray (List.replicate 40 97) gsMSA := by
  constructor
  · decide
  · decide

def gsMG : GsapD :=
  { sa := gsMSA.toArray, isa := invertSA gsMSA.toArray,
    bits := insertRanks (invertSA gsMSA.toArray) (Array.replicate gsMSA.toArray.size false) 0 0 }

theorem gsM_sort : gsapSort (List.replicate 40 97) 0 = gsMG := by
  unfold gsapSort gsMG
  rw [suffixArray_unique (saSpec_isSuffixArray _) gsM_isSA]

set_option maxRecDepth 100000 in
/-- **The bound `MinMatchLen` of `C19_run_gsap` is attained** in the degenerate case
    `MinMatchLen = 32 = n` (kernel-checked): after `Write(a^40)` the first `Parse` returns the block
    `[0, 32)` as 32 literals — no match of 32 bytes fits into the block behind its first byte. -/
theorem gsap_minMatch_literals :
    let s := (runOps (gsMS0, Ghost.init) [.write (List.replicate 40 97)]).1
    newParser .GSAP gsMCfg = some gsMS0 ∧
    gsMS0.buf.cfg.bufferSize ≤ gsMS0.buf.cfg.windowSize ∧
    (s.parse 0).2.1 = 32 ∧ (s.parse 0).2.2.1 = .ok ∧
    (∀ t, t < 32 → s.buf.data[s.buf.w + t]? = some 97) ∧
    (s.parse 0).2.2.2.seqs = [] ∧ (s.parse 0).2.2.2.lits.length = 32 ∧ s.minMatch = 32 := by
  intro s
  have hdata : s.buf.w = 0 ∧ s.buf.data = List.replicate 40 97 ∧ s.minMatch = 32 := by decide
  have hpf : s.parse 0 = ({ s with dict := .gsap gsMG } : Parser).parseF 0 := by
    rw [parse_eq_parseF]
    exact parseF_gsap_sort s 0 GsapD.empty gsMG rfl (by decide) (by decide)
      (by rw [hdata.1, hdata.2.1]; exact gsM_sort) (by decide)
  have hpar : (s.parse 0).2.1 = 32 ∧ (s.parse 0).2.2.1 = .ok ∧
      (s.parse 0).2.2.2.seqs = [] ∧ (s.parse 0).2.2.2.lits.length = 32 := by
    rw [hpf]
    decide
  refine ⟨gsMS0_new, by decide, hpar.1, hpar.2.1, ?_, hpar.2.2.1, hpar.2.2.2, hdata.2.2⟩
  intro t ht
  rw [hdata.1, hdata.2.1, Nat.zero_add, List.getElem?_replicate, if_pos (by omega)]

end Sharp

end LZ

