/-
  LzProofs.GenHPParse — the mechanical translation of hp.go `(*hashParser).Parse`
  (LzModel/Generated/CodeHPParse.lean, topic HPParse of tools/extract/code_parse.go; with
  `hashDictionary.processSegment`, `_getLE64`, `_getLE32`, `getLE64` — nothing opaque) versus the word-level
  model `LZ.ProbeW.parseW` (LzProofs/ProbeW.lean) and, through `ProbeW.parseW_reachable`, the LIST-LEVEL model
  `Parser.parse` on which C01/C02/C03/C19 are proved.  No sorry, no axioms of its own.

  Abstraction: `ofHPs s : Parser` (GenHashPropsDict), `staleOf s` = the bytes of the backing array behind
  `len(s.Data)` (the `stale` argument of `parseW`), `seqRep` = the Go `Seq` of a model sequence, `parseErr`.

  Main results
    gen_hp_parse        for every Go state `s` with `ParseOK s` (below), every `blk`, every `flags ≥ 0`, every
                        `grow` (the capacity policy of `append`) and every `fuel ≥ len(s.Data) + 3`:
                          `parseW (ofHPs s) (staleOf s) flags = none`  ⇒  the translated `Parse` is `Res.panic`
                          `… = some (s', n, e, b)` ⇒ it is `Res.ok (t, blk', n, parseErr e)` with `ofHPs t = s'`,
                          `staleOf t = staleOf s`, `blk'.Sequences = b.seqs.map seqRep`,
                          `blk'.Literals.data = b.lits`, `len ≤ cap` for the literals, and `ParseOK t`.
                        In particular `Res.fuel` never occurs (the fuel bound is explicit) and the Go code panics
                        exactly where the model says so: in `processSegment` (`f.Data[:b+7]`) or at the reslice
                        `s.Data[:inputEnd+7]`; inside the loop there is no panic.
    gen_hp_parse_model  if `ofHPs s` is reachable (`NewParser`, then any history of Write / ReadFrom / Parse /
                        Parse(nil) / Shrink / Reset in the model): no panic, and the result is the representation
                        of `(ofHPs s).parse flags` — Go text → translation → word level → list level.
    gen_hp_init_parseOK `hashParser.init` on `new(hashParser)` establishes `ParseOK` (non-vacuity).
    gen_hp_parse_empty  the straight-line prefix (`n = 0`), for every fuel.

  `ParseOK s`: `DictWF`; the three values `HPConfig` duplicates agree (as natural numbers) with the copies the
  model reads (`s.WindowSize`, `s.BlockSize` are fields of `HPConfig` in Go, the model reads the buffer's
  configuration; the model's `minMatch` comes from the configuration, Go's from `s.hash.inputLen`);
  `0 ≤ BlockSize`; `W ≤ len(Data)`; `1 ≤ inputLen`; `shift ≥ 32` (`hashBits ≤ 32`); `len(Data) < 2^32`.
  Each is NECESSARY for the equation with `parseW` (all hold after `init` and under `Verify`):
    * `inputLen = 0`: Go emits a match of length 0 and never advances (`i = litIndex - 1; i++`) — no result for
      any fuel; the model leaves the loop (`greedyLoopW`, branch `¬ s + k > i`);
    * `BlockSize < 0` / `W > len(Data)`: Go computes a negative `n` and slices `s.Data[:W+n]`, the model's `blockN`
      is a natural number (0 ⇒ ErrEmptyBuffer);
    * `hashBits > 32`: Go truncates the table index to `uint32`, the model's `hashValue` does not;
    * `len(Data) ≥ 2^32`: positions are stored as `uint32`;
    * `flags < 0` (e.g. `-1`): `flags&NoTrailingLiterals != 0` in Go; the model takes a natural number.
  None of these is reachable through the API except a negative `flags` argument, which is outside the domain
  of the model (`flags : Nat`).

  Proof structure (helper files LzProofs/GenHPParseLemmasBytes.lean, GenHPParseLemmas.lean,
  GenHPParseLemmasLoop.lean): (1) `_getLE64` / `getLE64` on slice values = `BytesW.le64` / `BytesW.getLE64`
  (`gen_le64`, `gen_getLE64`, `gen_load_ok`), `bits.TrailingZeros64` = `BytesW.tz64` (`tz_eq`);
  (2) `processSegment` = `processSegment1W` incl. its panic (`gen_processSegment`, loop = `insertRangeW`);
  (3) the margin reslice = `resliceMargin`; (4) one iteration of loop_1 = one `hpProbeW` step of `greedyLoopW`
  (`loop1_step`: table abstraction `ofHashT`, inner loop_2 = `BytesW.matchExtLoop` with `goto match` as exit code
  (`loop2_eq`), loop_3 = `insertRangeW` (`loop3_eq`)), the whole loop by induction (`loop1_eq`);
  (5) `NoTrailingLiterals` / trailing literals = `finishBlock`.  The loop lemmas are stated over the generated
  loop functions and use only their defining equations (`rw [hashParser_Parse_loop_k]`), `bind_trans`, and
  `omega`; the semantic content (word compare = common prefix) is NOT re-proved here, it is `ProbeW` / `BytesProps`.
-/
import LzModel.Generated.CodeHPParse
import LzProofs.GenHashPropsDict
import LzProofs.GenHPParseLemmasLoop

set_option linter.unusedSimpArgs false
set_option linter.unusedVariables false

namespace LZ.GenHPParse
open LZ LZ.Gen LZ.GenBuf LZ.GenHash

/-- `n` of `Parse`: `min (len(s.Data) - s.W) s.BlockSize` in Go `int` arithmetic -/
def blockN (s : Gen.hashParser) : Int :=
  if (Int.ofNat s.hashDictionary.ParserBuffer.Data.len) - s.hashDictionary.ParserBuffer.W > s.HPConfig.BlockSize then
    s.HPConfig.BlockSize
  else
    (Int.ofNat s.hashDictionary.ParserBuffer.Data.len) - s.hashDictionary.ParserBuffer.W

/-- the bytes between `len(s.Data)` and `cap(s.Data)`: the `stale` argument of `ProbeW.parseW` -/
def staleOf (s : Gen.hashParser) : List UInt8 :=
  s.hashDictionary.ParserBuffer.Data.arr.drop s.hashDictionary.ParserBuffer.Data.len

/-- `*blk` after the two `[:0]` statements at the head of `Parse` -/
def resetBlk (blk : Gen.Block') : Gen.Block' :=
  { blk with Sequences := [], Literals := { arr := blk.Literals.arr, len := 0 } }

/-- `staleOf` is what `ProbeW.Backing` asks for: data ++ stale is the whole backing array -/
theorem staleOf_length (s : Gen.hashParser)
    (h : s.hashDictionary.ParserBuffer.Data.len ≤ s.hashDictionary.ParserBuffer.Data.arr.length) :
    s.hashDictionary.ParserBuffer.Data.data.length + (staleOf s).length
      = s.hashDictionary.ParserBuffer.Data.cap := by
  unfold staleOf Slice.data Slice.cap
  rw [List.length_take, List.length_drop]
  omega

/-- the straight-line prefix of `Parse`: nothing to parse ⇒ `(0, ErrEmptyBuffer)`, the block is
    emptied, the parser is unchanged; no panic, for every `grow` and `fuel` -/
theorem gen_hp_parse_empty (grow : Nat → Nat → Nat) (fuel : Nat) (s : Gen.hashParser) (blk : Gen.Block')
    (flags : Int) (h : blockN s = 0) :
    hashParser_Parse grow fuel s blk flags = Res.ok (s, resetBlk blk, (0 : Int), ErrEmptyBuffer) := by
  have bind_ok : ∀ {α β : Type} (a : α) (f : α → Res β), Res.bind (Res.ok a) f = f a := fun _ _ => rfl
  have hs : Slice.slice blk.Literals 0 (0 : Int) = Res.ok { arr := blk.Literals.arr, len := 0 } := by
    unfold Slice.slice
    simp [Slice.cap]
  unfold blockN at h
  unfold hashParser_Parse hashParser_Parse_nilable; simp only [Bool.false_eq_true]
  simp only [if_false, hs, bind_ok, ite_lt_min, ite_le_min] at h ⊢
  -- whatever the spelling of the clamp and of the test `n == 0`
  split
  all_goals first
    | rfl
    | (exfalso; int_omega)


/-! ## the whole `Parse` -/

/-- the hypotheses of `gen_hp_parse` on the Go state: the representation invariant `DictWF`, the three fields
    `HPConfig` duplicates (`s.WindowSize`, `s.BlockSize` resolve to `HPConfig`, the model reads the buffer's
    copy; `minMatchLen` comes from `s.inputLen = s.hash.inputLen`, the model's from the configuration; only their
    values as natural numbers matter) — `hashParser.init` establishes them (`gen_hp_init_parseOK`) —, `0 ≤ BlockSize`, `W ≤ len(Data)`, `1 ≤ inputLen`, `hashBits ≤ 32`
    (`shift ≥ 32`; the model's `hashValue` has no `uint32(…)` truncation) and `len(Data) < 2^32` (positions are
    stored as `uint32`).  All hold after every API history (`Verify`: `2 ≤ InputLen ≤ 8`, `HashBits ≤ 24`,
    `BufferSize ≤ 2^32 - 8`). -/
structure ParseOK (s : Gen.hashParser) : Prop where
  wf : DictWF s.hashDictionary
  cws : s.HPConfig.WindowSize.toNat = s.hashDictionary.ParserBuffer.BufConfig.WindowSize.toNat
  cbs : s.HPConfig.BlockSize.toNat = s.hashDictionary.ParserBuffer.BufConfig.BlockSize.toNat
  cil : s.HPConfig.InputLen.toNat = s.hashDictionary.hash.inputLen.toNat
  bs0 : 0 ≤ s.HPConfig.BlockSize
  w : s.hashDictionary.ParserBuffer.W ≤ s.hashDictionary.ParserBuffer.Data.len
  il1 : 1 ≤ s.hashDictionary.hash.inputLen
  sh : 32 ≤ s.hashDictionary.hash.shift.toNat
  small : s.hashDictionary.ParserBuffer.Data.len < 4294967296

/-- the Go error value of the two outcomes of `Parse` (`nil`, `ErrEmptyBuffer`) -/
def parseErr : LZ.Err → Gen.Err
  | .empty => Gen.ErrEmptyBuffer
  | _ => Gen.Err.ok

theorem parseW_single_nf (s : Parser) (stale : List Byte) (flags : Nat) (h : HashT) (hd : s.dict = .single h)
    (hn : s.blockN ≠ 0) :
    ProbeW.parseW s stale flags =
      (ProbeW.processSegment1W h s.buf.data stale ((s.buf.w : Int) - h.inputLen + 1) s.buf.w).bind fun h' =>
      (ProbeW.resliceMargin (s.buf.data.take (s.buf.w + s.blockN)) (s.buf.data.drop (s.buf.w + s.blockN) ++ stale)
        h'.inputLen).bind fun _ =>
      (ProbeW.runGreedyW (ProbeW.hpProbeW s.buf.cfg.windowSize s.minMatch
          ((s.buf.data.take (s.buf.w + s.blockN)).length + 1 - h'.inputLen) (s.kind == .BHP)
          (s.buf.data.drop (s.buf.w + s.blockN) ++ stale)) h' (s.buf.data.take (s.buf.w + s.blockN)) s.buf.w
          ((s.buf.data.take (s.buf.w + s.blockN)).length + 1 - h'.inputLen) flags).bind fun r =>
      some ({ s with buf := { s.buf with w := r.2.1 }, dict := .single r.1 }, r.2.1 - s.buf.w, .ok, r.2.2.1) := by
  unfold ProbeW.parseW
  simp only [hn, if_false, hd]
  rfl

theorem iand_one (flags : Int) (h : 0 ≤ flags) : iand flags 1 ≠ 0 ↔ flags.toNat % 2 = 1 := by
  obtain ⟨m, rfl⟩ : ∃ m : Nat, flags = (m : Int) := ⟨flags.toNat, by omega⟩
  have : iand (m : Int) 1 = ((m % 2 : Nat) : Int) := by
    show Int.ofNat (m &&& 1) = _
    rw [Nat.and_one_is_mod]; rfl
  rw [this, Int.toNat_natCast]
  omega

theorem behind_eq (A : List UInt8) (len L : Nat) (h : L ≤ len) :
    (A.take len).drop L ++ A.drop len = A.drop L := by
  rw [List.drop_take]
  have : A.drop len = (A.drop L).drop (len - L) := by rw [List.drop_drop]; congr 1; omega
  rw [this, List.take_append_drop]


/-- the Go state after `Parse`: new `W`, new table -/
@[reducible] def withWT (s : Gen.hashParser) (w : Int) (t : GSlice hashEntry) : Gen.hashParser :=
  { hashDictionary :=
      { ParserBuffer := { s.hashDictionary.ParserBuffer with W := w },
        hash := { s.hashDictionary.hash with table := t } },
    HPConfig := s.HPConfig }

set_option maxHeartbeats 1000000 in
theorem gen_hp_parse (grow : Nat → Nat → Nat) (fuel : Nat) (s : Gen.hashParser) (blk : Gen.Block') (flags : Int)
    (h : ParseOK s) (hfl : 0 ≤ flags) (hfuel : s.hashDictionary.ParserBuffer.Data.len + 3 ≤ fuel) :
    match ProbeW.parseW (ofHPs s) (staleOf s) flags.toNat with
    | none => hashParser_Parse grow fuel s blk flags = Res.panic
    | some (s', n, e, b) =>
      ∃ t blk', hashParser_Parse grow fuel s blk flags = Res.ok (t, blk', (n : Int), parseErr e) ∧
        ofHPs t = s' ∧ staleOf t = staleOf s ∧ (e = .ok ∨ e = .empty) ∧
        blk'.Sequences = b.seqs.map seqRep ∧ blk'.Literals.data = b.lits ∧ SWF blk'.Literals ∧ ParseOK t := by
  have hP := h
  obtain ⟨⟨hpb, hhw⟩, cws, cbs, cil, hbs0, hW, hil1, hsh, hsmall⟩ := h
  obtain ⟨hgwf, hil0, hmask, hsh2, htl⟩ := hhw
  have hD : SWF s.hashDictionary.ParserBuffer.Data := hpb.data
  have hD' : s.hashDictionary.ParserBuffer.Data.len ≤ s.hashDictionary.ParserBuffer.Data.arr.length := hD
  have hW0 := hpb.w
  have hdl : s.hashDictionary.ParserBuffer.Data.data.length = s.hashDictionary.ParserBuffer.Data.len := data_length hD
  have hbN : (ofHPs s).blockN = Min.min (s.hashDictionary.ParserBuffer.Data.len - s.hashDictionary.ParserBuffer.W.toNat)
      s.HPConfig.BlockSize.toNat := by
    show Min.min (s.hashDictionary.ParserBuffer.Data.data.length - _) s.hashDictionary.ParserBuffer.BufConfig.BlockSize.toNat = _
    rw [hdl, cbs]
    rfl
  -- the clamp `n = min (len(s.Data) - s.W) s.BlockSize`, with the operands in either order
  have hnG : Min.min ((Int.ofNat s.hashDictionary.ParserBuffer.Data.len) - s.hashDictionary.ParserBuffer.W) s.HPConfig.BlockSize =
      (((ofHPs s).blockN : Nat) : Int) := by
    rw [hbN]; int_omega
  have hnG' : Min.min s.HPConfig.BlockSize ((Int.ofNat s.hashDictionary.ParserBuffer.Data.len) - s.hashDictionary.ParserBuffer.W) =
      (((ofHPs s).blockN : Nat) : Int) := by
    rw [hbN]; int_omega
  by_cases hn : (ofHPs s).blockN = 0
  · have hg : blockN s = 0 := by unfold blockN; rw [ite_lt_min, hnG', hn]; rfl
    rw [gen_hp_parse_empty grow fuel s blk flags hg]
    unfold ProbeW.parseW
    simp only [hn, if_true]
    exact ⟨s, resetBlk blk, rfl, rfl, rfl, by simp, rfl, rfl, Nat.zero_le _, hP⟩
  -- the model side, without `do`
  rw [parseW_single_nf (ofHPs s) (staleOf s) flags.toNat (ofHash s.hashDictionary.hash) rfl hn]
  have hargs : ProbeW.processSegment1W (ofHash s.hashDictionary.hash) (ofHPs s).buf.data (staleOf s)
      (((ofHPs s).buf.w : Int) - ((ofHash s.hashDictionary.hash).inputLen : Int) + 1) ((ofHPs s).buf.w : Int) =
      ProbeW.processSegment1W (ofHash s.hashDictionary.hash) s.hashDictionary.ParserBuffer.Data.data
        (s.hashDictionary.ParserBuffer.Data.arr.drop s.hashDictionary.ParserBuffer.Data.len)
        ((s.hashDictionary.ParserBuffer.W - s.hashDictionary.hash.inputLen) + 1) s.hashDictionary.ParserBuffer.W := by
    have e1 : (((ofHPs s).buf.w : Nat) : Int) = s.hashDictionary.ParserBuffer.W := by
      show ((s.hashDictionary.ParserBuffer.W.toNat : Nat) : Int) = _; omega
    have e2 : (((ofHash s.hashDictionary.hash).inputLen : Nat) : Int) = s.hashDictionary.hash.inputLen := by
      show ((s.hashDictionary.hash.inputLen.toNat : Nat) : Int) = _; omega
    rw [e1, e2]; rfl
  rw [hargs]
  have hps := gen_processSegment fuel s.hashDictionary ((s.hashDictionary.ParserBuffer.W - s.hashDictionary.hash.inputLen) + 1)
    s.hashDictionary.ParserBuffer.W hD hil0 hmask hsh hsh2 ⟨hgwf, htl⟩ hsmall (by omega)
  -- the Go side up to `processSegment`
  have hs0 : Slice.slice blk.Literals 0 (0 : Int) = Res.ok { arr := blk.Literals.arr, len := 0 } := by
    unfold Slice.slice
    simp [Slice.cap]
  generalize hG : hashParser_Parse grow fuel s blk flags = G
  unfold hashParser_Parse hashParser_Parse_nilable at hG; simp only [Bool.false_eq_true] at hG
  simp only [if_false] at hG
  simp only [ite_lt_min, ite_le_min, ite_lt_max, ite_le_max] at hG
  simp only [hnG, hnG'] at hG
  rw [hs0, bind_ok, if_neg (by omega)] at hG
  cases hp1 : ProbeW.processSegment1W (ofHash s.hashDictionary.hash) s.hashDictionary.ParserBuffer.Data.data
        (s.hashDictionary.ParserBuffer.Data.arr.drop s.hashDictionary.ParserBuffer.Data.len)
        ((s.hashDictionary.ParserBuffer.W - s.hashDictionary.hash.inputLen) + 1) s.hashDictionary.ParserBuffer.W with
  | none =>
    rw [hp1] at hps
    simp only [] at hps
    rw [hps] at hG
    exact hG.symm
  | some h' =>
    rw [hp1] at hps
    obtain ⟨t0, ht0, rfl, hps⟩ := hps
    rw [hps, bind_ok] at hG
    rw [Option.bind_some]
    dsimp only at hG
    -- names for the natural numbers
    obtain ⟨Wn, hWn⟩ : ∃ Wn : Nat, s.hashDictionary.ParserBuffer.W = (Wn : Int) :=
      ⟨s.hashDictionary.ParserBuffer.W.toNat, by omega⟩
    have hwn : (ofHPs s).buf.w = Wn := by
      show s.hashDictionary.ParserBuffer.W.toNat = Wn; omega
    generalize hnN : (ofHPs s).blockN = nN at hG hn hbN ⊢
    rw [hwn]
    have hWn' : s.hashDictionary.ParserBuffer.W.toNat = Wn := by omega
    rw [hWn'] at hbN
    have hLlen : Wn + nN ≤ s.hashDictionary.ParserBuffer.Data.len := by omega
    have hpm : List.take (Wn + nN) (ofHPs s).buf.data = s.hashDictionary.ParserBuffer.Data.arr.take (Wn + nN) := by
      show (s.hashDictionary.ParserBuffer.Data.arr.take _).take _ = _
      rw [List.take_take, Nat.min_eq_left hLlen]
    have hbeh : List.drop (Wn + nN) (ofHPs s).buf.data ++ staleOf s =
        s.hashDictionary.ParserBuffer.Data.arr.drop (Wn + nN) := behind_eq _ _ _ hLlen
    have hws : (ofHPs s).buf.cfg.windowSize = s.HPConfig.WindowSize.toNat := by rw [cws]; rfl
    have hmmM : (ofHPs s).minMatch = Min.min 3 s.hashDictionary.hash.inputLen.toNat := by
      show Min.min 3 s.HPConfig.InputLen.toNat = _; rw [cil]
    have hkind : ((ofHPs s).kind == Kind.BHP) = false := rfl
    have hpl : (s.hashDictionary.ParserBuffer.Data.arr.take (Wn + nN)).length = Wn + nN := by
      rw [List.length_take]; omega
    rw [hpm, hbeh, hws, hmmM, hkind, hpl]
    simp only [ofHashT_inputLen]
    -- p := s.Data[:s.W+n]
    rw [hWn, slice_okI s.hashDictionary.ParserBuffer.Data 0 ((Wn : Int) + (nN : Int)) 0 (Wn + nN) rfl (by omega)
      (Nat.zero_le _) (by omega), bind_ok] at hG
    simp only [List.drop_zero, Nat.sub_zero] at hG
    generalize hA : s.hashDictionary.ParserBuffer.Data.arr = A at hG hD' hpl ⊢
    obtain ⟨iln, hiln⟩ : ∃ iln : Nat, s.hashDictionary.hash.inputLen = (iln : Int) :=
      ⟨s.hashDictionary.hash.inputLen.toNat, by omega⟩
    have hiln' : s.hashDictionary.hash.inputLen.toNat = iln := by omega
    rw [hiln'] at *
    rw [hiln] at hG
    have hc0 : TCtx s.hashDictionary.hash.mask s.hashDictionary.hash.shift s.hashDictionary.hash.inputLen
        { arr := A, len := 0 } → True := fun _ => trivial
    -- the margin reslice `_p := s.Data[:inputEnd+7]`; `eI` = the Go value of `inputEnd`
    have hrm : ∀ il : Nat, ProbeW.resliceMargin (List.take (Wn + nN) A) (List.drop (Wn + nN) A) il =
        if ((Wn + nN : Nat) : Int) - (il : Int) + 1 + 7 < 0 ∨ (A.length : Int) < ((Wn + nN : Nat) : Int) - (il : Int) + 1 + 7
        then none else some () := by
      intro il; unfold ProbeW.resliceMargin
      rw [List.take_append_drop, hpl]
    rw [hrm]
    obtain ⟨eI, heI⟩ : ∃ eI : Int, eI = ((Wn + nN : Nat) : Int) - (iln : Int) + 1 := ⟨_, rfl⟩
    rw [← heI]
    by_cases hmar : eI + 7 < 0 ∨ (A.length : Int) < eI + 7
    · rw [if_pos hmar]
      rw [slice_panic _ _ _ (by rw [hA]; int_omega)] at hG
      exact hG.symm
    rw [if_neg hmar, Option.bind_some]
    rw [slice_okI s.hashDictionary.ParserBuffer.Data 0 _ 0 (eI + 7).toNat rfl (by int_omega)
      (Nat.zero_le _) (by rw [hA]; omega), bind_ok] at hG
    simp only [List.drop_zero, Nat.sub_zero] at hG
    rw [hA] at hG
    -- the greedy loop: the Go arguments `inputEnd`, `minMatchLen`, `len(_p)` are taken from the unfolded text and only
    -- have to EQUAL the model's values (side goals of the rewrite below, decided by omega in whatever spelling)
    have hloop : ∃ (st' : LoopSt HashT) (t' : GSlice hashEntry) (blk' : Block'),
        ProbeW.greedyLoopW (ProbeW.hpProbeW s.HPConfig.WindowSize.toNat (Min.min 3 iln) (Wn + nN + 1 - iln) false
            (A.drop (Wn + nN))) (A.take (Wn + nN)) (Wn + nN + 1 - iln)
          { dict := ofHashT s.hashDictionary.hash t0, i := Wn, litIndex := Wn, seqs := [], lits := [] } = some st' ∧
        (∀ (ie mm : Int) (lp : Nat), ie = eI → mm = ((Min.min 3 iln : Nat) : Int) → lp = (eI + 7).toNat →
          hashParser_Parse_loop_1 grow ie { arr := A, len := lp } { arr := A, len := Wn + nN } mm fuel (Wn : Int)
            { hashDictionary := setD s.hashDictionary t0, HPConfig := s.HPConfig }
            { Sequences := [], Literals := { arr := blk.Literals.arr, len := 0 } } (Wn : Int) =
            Res.ok ((st'.i : Int), setT { hashDictionary := setD s.hashDictionary t0, HPConfig := s.HPConfig } t', blk',
              (st'.litIndex : Int))) ∧
        TOK s.hashDictionary.hash.shift t' ∧ st'.dict = ofHashT s.hashDictionary.hash t' ∧
        blk'.Sequences = st'.seqs.map seqRep ∧ blk'.Literals.data = st'.lits ∧ SWF blk'.Literals ∧
        Wn ≤ st'.litIndex ∧ st'.litIndex ≤ Wn + nN := by
      by_cases h0 : (Wn : Int) < eI
      · have hEI : eI = ((Wn + nN + 1 - iln : Nat) : Int) := by omega
        have hE7 : (eI + 7).toNat = Wn + nN + 1 - iln + 7 := by omega
        obtain ⟨st', t', blk', h1, h2, h3⟩ :=
          loop1_eq grow eI ((Min.min 3 iln : Nat) : Int) A (Wn + nN) (Wn + nN + 1 - iln) (Min.min 3 iln)
            s.HPConfig.WindowSize.toNat hEI rfl
            (by omega) (by omega) (by omega) (by omega) (by omega)
            (Wn + nN + 1 - iln - Wn) fuel Wn Wn (Wn : Int) (Wn : Int)
            { hashDictionary := setD s.hashDictionary t0, HPConfig := s.HPConfig }
            { Sequences := [], Literals := { arr := blk.Literals.arr, len := 0 } } [] []
            (by omega) (by omega) (Nat.le_refl _) rfl rfl (by omega)
            ⟨by show Wn + nN + 1 - iln + 7 ≤ A.length; omega, hmask, hsh, hsh2,
              by show Wn + nN + 1 - iln + 7 < _; omega⟩
            ht0 rfl rfl rfl (Nat.zero_le _)
        refine ⟨st', t', blk', h1, ?_, h3⟩
        intro ie mm lp hie hmm hlp
        subst hie hmm hlp
        rw [hE7]
        exact h2
      · obtain ⟨f, rfl⟩ : ∃ f, fuel = f + 1 := ⟨fuel - 1, by omega⟩
        refine ⟨_, t0, { Sequences := [], Literals := { arr := blk.Literals.arr, len := 0 } },
          ProbeW.greedyLoopW_done _ _ _ _ (by show ¬ Wn < Wn + nN + 1 - iln; omega), ?_, ht0, rfl, rfl,
          rfl, Nat.zero_le _, Nat.le_refl _, by show Wn ≤ Wn + nN; omega⟩
        intro ie mm lp hie hmm hlp
        subst hie hmm hlp
        rw [hashParser_Parse_loop_1]
        split
        all_goals first
          | (exfalso; omega)
          | rfl
    obtain ⟨st', t', blk', hgl, hl1, ht', hdict', hseq', hlit', hswf', hli1, hli2⟩ := hloop
    rw [hl1 _ _ _ (by int_omega) (by int_omega) rfl, bind_ok] at hG
    dsimp only at hG
    unfold ProbeW.runGreedyW
    simp only [Option.bind_eq_bind, Option.pure_def]
    rw [hgl, Option.bind_some, Option.bind_some]
    dsimp only
    have hPt : ∀ w' : Nat, w' ≤ Wn + nN → ParseOK (withWT s (w' : Int) t') := by
      intro w' hw'
      exact ⟨⟨⟨hD, by show (0 : Int) ≤ (w' : Int); omega, hpb.off, hpb.ss, hpb.bs⟩, ⟨ht'.1, hil0, hmask, hsh2, ht'.2⟩⟩,
        cws, cbs, cil, hbs0,
        by show (w' : Int) ≤ ((s.hashDictionary.ParserBuffer.Data.len : Nat) : Int); omega, hil1, hsh, hsmall⟩
    have hslen : blk'.Sequences.length = st'.seqs.length := by rw [hseq', List.length_map]
    -- the two atoms of the NoTrailingLiterals test, as arithmetic facts for omega (any spelling, either arm order)
    have hfl1 : iand flags 1 ≠ 0 ↔ flags.toNat % 2 = 1 := iand_one flags hfl
    have hne : st'.seqs ≠ [] ↔ st'.seqs.length ≠ 0 :=
      ⟨fun h hc => h (List.eq_nil_of_length_eq_zero hc), fun h hc => h (by rw [hc]; rfl)⟩
    unfold finishBlock
    by_cases hfin : flags.toNat % 2 = 1 ∧ st'.seqs ≠ []
    · rw [if_pos hfin]
      have hfin2 := hne.mp hfin.2
      have hfin1 := hfin.1
      split at hG
      all_goals first
        | (exfalso; int_omega)
        | (simp only [bind_ok] at hG
           refine ⟨withWT s (st'.litIndex : Int) t', blk', hG.symm.trans ?_, ?_, rfl, Or.inl rfl, hseq', hlit', hswf', hPt _ hli2⟩
           · rw [hWn]
             have : ((st'.litIndex : Nat) : Int) - (Wn : Int) = ((st'.litIndex - Wn : Nat) : Int) := by omega
             rw [this]; rfl
           · rw [hdict']; rfl)
    · rw [if_neg hfin]
      have hfin' : ¬ (flags.toNat % 2 = 1 ∧ st'.seqs.length ≠ 0) := fun h => hfin ⟨h.1, hne.mpr h.2⟩
      split at hG
      all_goals first
        | (exfalso; int_omega)
        | (rw [slice_okI _ _ (Int.ofNat (Wn + nN)) st'.litIndex (Wn + nN) rfl rfl hli2
             (by show Wn + nN ≤ A.length; omega)] at hG
           simp only [bind_ok] at hG
           refine ⟨withWT s ((Wn + nN : Nat) : Int) t',
             { Sequences := blk'.Sequences,
               Literals := Slice.append grow blk'.Literals ((A.drop st'.litIndex).take (Wn + nN - st'.litIndex)) },
             hG.symm.trans ?_, ?_, rfl, Or.inl rfl, hseq', ?_,
             swf_append grow _ hswf' _, hPt _ (Nat.le_refl _)⟩
           · rw [hWn, hpl]
             have : Int.ofNat (Wn + nN) - (Wn : Int) = ((Wn + nN - Wn : Nat) : Int) := by
               show ((Wn + nN : Nat) : Int) - _ = _; omega
             rw [this]; rfl
           · rw [hdict', hpl]; rfl
           · rw [(append_spec grow blk'.Literals hswf' _).1, hlit']
             show _ ++ (A.drop st'.litIndex).take (Wn + nN - st'.litIndex) = _ ++ (A.take (Wn + nN)).drop st'.litIndex
             rw [List.drop_take])

/-- **Go text → list-level model.**  For a Go state that abstracts to a state reachable through the API
    (`NewParser`, then any history of `Write`, `ReadFrom`, `Parse`, `Parse(nil)`, `Shrink`, `Reset`), the translated
    `Parse` does not panic and returns the representation of the LIST-LEVEL model `Parser.parse` — the function on
    which C01/C02/C03/C19 are proved. -/
theorem gen_hp_parse_model (grow : Nat → Nat → Nat) (fuel : Nat) (s : Gen.hashParser) (blk : Gen.Block') (flags : Int)
    (h : ParseOK s) (hfl : 0 ≤ flags) (hfuel : s.hashDictionary.ParserBuffer.Data.len + 3 ≤ fuel)
    (raw : Cfg) (s0 : Parser) (h0 : newParser .HP raw = some s0) (ops : List POp)
    (hreach : ofHPs s = (runOps (s0, Ghost.init) ops).1) :
    ∃ t blk', hashParser_Parse grow fuel s blk flags =
        Res.ok (t, blk', (((ofHPs s).parse flags.toNat).2.1 : Int), parseErr ((ofHPs s).parse flags.toNat).2.2.1) ∧
      ofHPs t = ((ofHPs s).parse flags.toNat).1 ∧ staleOf t = staleOf s ∧
      blk'.Sequences = ((ofHPs s).parse flags.toNat).2.2.2.seqs.map seqRep ∧
      blk'.Literals.data = ((ofHPs s).parse flags.toNat).2.2.2.lits ∧ SWF blk'.Literals ∧ ParseOK t := by
  have hb : ProbeW.Backing (ofHPs s) (staleOf s) := staleOf_length s h.wf.1.data
  have hW := ProbeW.parseW_reachable .HP (Or.inl rfl) raw s0 h0 ops (staleOf s) flags.toNat (by rw [← hreach]; exact hb)
  rw [← hreach] at hW
  have hm := gen_hp_parse grow fuel s blk flags h hfl hfuel
  rw [hW] at hm
  obtain ⟨t, blk', h1, h2, h3, _, h5, h6, h7, h8⟩ := hm
  exact ⟨t, blk', h1, h2, h3, h5, h6, h7, h8⟩

/-- **`ParseOK` is what `init` establishes** (non-vacuity of the hypotheses of `gen_hp_parse`): for every
    configuration `NewParser` accepts, the translated `hashParser.init` on `new(hashParser)` yields a Go state that
    abstracts to the model's fresh parser and satisfies `ParseOK`.  (`gen_hp_parse` then shows that `Parse`
    preserves `ParseOK`.) -/
theorem gen_hp_init_parseOK (raw : Cfg) (p : Parser) (hp : newParser .HP raw = some p) :
    ∃ s', hashParser_init default (GenProps.toHP raw) = Res.ok (s', Gen.Err.ok) ∧ ofHPs s' = p ∧ ParseOK s' := by
  obtain ⟨s', h1, h2, h3⟩ := gen_hp_init_fresh raw p hp
  refine ⟨s', h1, h2, ?_⟩
  unfold newParser at hp
  simp only [] at hp
  split at hp
  · rename_i hv
    simp only [Option.some.injEq] at hp
    subst hp
    generalize setDefaults .HP (raw.restrict .HP) = c at hv h2
    have hhv : hashVerify c.inputLen c.hashBits Facts.maxHashBits = true := by
      simp only [verify, Bool.and_eq_true] at hv; exact hv.2
    rw [GenProps.hashVerify_iff] at hhv
    simp only [Facts.maxHashBits] at hhv
    obtain ⟨⟨hb1, hb2⟩, hb3, hb4⟩ := hhv
    have hb4' : c.hashBits ≤ 24 := by omega
    obtain ⟨_, hbs⟩ := verify_static .HP c hv
    have hcfg : GenProps.ofHP s'.HPConfig = c := congrArg Parser.cfg h2
    have hbuf : ofPB s'.hashDictionary.ParserBuffer = PBuf.init c.bufCfg := congrArg Parser.buf h2
    have hdict : Dict.single (ofHash s'.hashDictionary.hash) =
        Dict.single (HashT.new c.inputLen.toNat c.hashBits.toNat) := congrArg Parser.dict h2
    injection hdict with hdict
    have hws : s'.hashDictionary.ParserBuffer.BufConfig.WindowSize.toNat = c.windowSize.toNat :=
      congrArg (fun b => b.cfg.windowSize) hbuf
    have hbl : s'.hashDictionary.ParserBuffer.BufConfig.BlockSize.toNat = c.blockSize.toNat :=
      congrArg (fun b => b.cfg.blockSize) hbuf
    have hw : s'.hashDictionary.ParserBuffer.W.toNat = 0 := congrArg PBuf.w hbuf
    have hd : s'.hashDictionary.ParserBuffer.Data.data = [] := congrArg PBuf.data hbuf
    have hil : s'.hashDictionary.hash.inputLen.toNat = c.inputLen.toNat := congrArg HashT.inputLen hdict
    have hhb : 64 - s'.hashDictionary.hash.shift.toNat = c.hashBits.toNat := congrArg HashT.hashBits hdict
    have cW : s'.HPConfig.WindowSize = c.windowSize := congrArg Cfg.windowSize hcfg
    have cB : s'.HPConfig.BlockSize = c.blockSize := congrArg Cfg.blockSize hcfg
    have cI : s'.HPConfig.InputLen = c.inputLen := congrArg Cfg.inputLen hcfg
    have hlen : s'.hashDictionary.ParserBuffer.Data.len = 0 := by
      have := data_length h3.1.data
      rw [hd] at this; exact this.symm
    have hbs' : 1 ≤ c.blockSize.toNat := hbs
    have hw0 := h3.1.w
    have hs64 := h3.2.2.2.2.1
    exact ⟨h3, by rw [cW, hws], by rw [cB, hbl], by rw [cI, hil], by rw [cB]; omega, by rw [hlen]; omega,
      by omega, by omega, by rw [hlen]; decide⟩
  · exact absurd hp (by simp)

end LZ.GenHPParse

#print axioms LZ.GenHPParse.gen_hp_init_parseOK
#print axioms LZ.GenHPParse.gen_hp_parse_empty
#print axioms LZ.GenHPParse.gen_hp_parse
#print axioms LZ.GenHPParse.gen_hp_parse_model
