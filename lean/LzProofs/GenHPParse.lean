/-
  LzProofs.GenHPParse — PILOT: the mechanical translation of hp.go `(*hashParser).Parse`
  (LzModel/Generated/CodeHPParse.lean, topic HPParse of tools/extract/code_parse.go) versus the
  word-level model `LZ.ProbeW.parseW` (LzProofs/ProbeW.lean) for kind `.HP`.

  What is here (no sorry, no axioms):
    * `blockN s`     the Go value `n` computed by the first statements of Parse
                     (`n = len(s.Data) - s.W; if n > s.BlockSize { n = s.BlockSize }`),
    * `staleOf s`    the bytes of the backing array behind `len(s.Data)` — the `stale` argument of
                     `parseW` (`ProbeW.Backing` for it is `staleOf_length`, under len ≤ cap),
    * `resetBlk blk` the value of `*blk` after `blk.Sequences = blk.Sequences[:0];
                     blk.Literals = blk.Literals[:0]`,
    * `gen_hp_parse_empty`   the straight-line prefix: if `blockN s = 0`, the translated Parse returns
                     `(s, resetBlk blk, 0, ErrEmptyBuffer)` — for every grow / fuel, no panic.
  The abstraction map is the existing one of GenHashPropsDict: `ofHPs s : Parser`.

  What is NOT proved (statement only; `ofBlock'` is the abstraction of the generated `Block'` to the
  model `Block`, `errOf` that of `Gen.Err`):

    theorem gen_hp_parse (grow) (s : Gen.hashParser) (blk : Gen.Block') (flags : Int)
        (hwf : DictWF s.hashDictionary) (hcfg : 0 ≤ s.HPConfig.WindowSize ∧ 0 ≤ s.HPConfig.BlockSize)
        (hw : s.hashDictionary.ParserBuffer.W ≤ s.hashDictionary.ParserBuffer.Data.len)
        (hfl : 0 ≤ flags) (hgrow : GrowOK grow) :
        ∃ fuel0, ∀ fuel ≥ fuel0,
          match LZ.ProbeW.parseW (ofHPs s) (staleOf s) flags.toNat with
          | none => hashParser_Parse grow fuel s blk flags = Res.panic
          | some (s', n, e, b) =>
              ∃ t blk', hashParser_Parse grow fuel s blk flags = Res.ok (t, blk', (n : Int), e')
                ∧ ofHPs t = s' ∧ staleOf t = staleOf s ∧ errOf e' = e
                ∧ blk'.Sequences = b.seqs-as-Gen.Seq ∧ blk'.Literals.data = b.lits
                ∧ DictWF t.hashDictionary

  Plan: (1) `hashDictionary_processSegment` vs `processSegment1W` (loop_1 of processSegment is
  `insertRangeW`; `_getLE64 (Slice.slice _p i …)` vs `BytesW.getLE64W` needs `_getLE64` on a slice value =
  the word read of `data ++ stale` at i, a lemma about eight `Slice.index`); (2) `resliceMargin` is exactly the
  panic condition of `Slice.slice s.Data 0 (inputEnd + 7)`; (3) loop_1 of Parse vs `runGreedyW (hpProbeW …)`,
  by induction on `inputEnd - i` with the table abstraction `ofHash`; loop_2 (+ the `getLE64` tail) is the
  word-level `lcp` of ProbeW; loop_3 is `insertRangeW` again; (4) the `NoTrailingLiterals` tail.
-/
import LzModel.Generated.CodeHPParse
import LzProofs.GenHashPropsDict

set_option linter.unusedSimpArgs false
set_option linter.unusedVariables false

namespace LZ.GenHPParse
open LZ LZ.Gen LZ.GenBuf LZ.GenHash

/-- `n` of `Parse`: `min (len(s.Data) - s.W) s.BlockSize` in Go `int` arithmetic -/
def blockN (s : Gen.hashParser) : Int :=
  if (Int.ofNat s.hashDictionary.ParserBuffer.Data.len) - s.hashDictionary.ParserBuffer.W > s.HPConfig.BlockSize then
    s.HPConfig.BlockSize
  else
    (Int.ofNat s.hashDictionary.ParserBuffer.Data.len) - s.hashDictionary.ParserBuffer.W

/-- the bytes between `len(s.Data)` and `cap(s.Data)`: the `stale` argument of `ProbeW.parseW` -/
def staleOf (s : Gen.hashParser) : List UInt8 :=
  s.hashDictionary.ParserBuffer.Data.arr.drop s.hashDictionary.ParserBuffer.Data.len

/-- `*blk` after the two `[:0]` statements at the head of `Parse` -/
def resetBlk (blk : Gen.Block') : Gen.Block' :=
  { blk with Sequences := [], Literals := { arr := blk.Literals.arr, len := 0 } }

/-- `staleOf` is what `ProbeW.Backing` asks for: data ++ stale is the whole backing array -/
theorem staleOf_length (s : Gen.hashParser)
    (h : s.hashDictionary.ParserBuffer.Data.len ≤ s.hashDictionary.ParserBuffer.Data.arr.length) :
    s.hashDictionary.ParserBuffer.Data.data.length + (staleOf s).length
      = s.hashDictionary.ParserBuffer.Data.cap := by
  unfold staleOf Slice.data Slice.cap
  rw [List.length_take, List.length_drop]
  omega

/-- the straight-line prefix of `Parse`: nothing to parse ⇒ `(0, ErrEmptyBuffer)`, the block is
    emptied, the parser is unchanged; no panic, for every `grow` and `fuel` -/
theorem gen_hp_parse_empty (grow : Nat → Nat → Nat) (fuel : Nat) (s : Gen.hashParser) (blk : Gen.Block')
    (flags : Int) (h : blockN s = 0) :
    hashParser_Parse grow fuel s blk flags = Res.ok (s, resetBlk blk, (0 : Int), ErrEmptyBuffer) := by
  have bind_ok : ∀ {α β : Type} (a : α) (f : α → Res β), Res.bind (Res.ok a) f = f a := fun _ _ => rfl
  have hs : Slice.slice blk.Literals 0 (0 : Int) = Res.ok { arr := blk.Literals.arr, len := 0 } := by
    unfold Slice.slice
    simp [Slice.cap]
  unfold blockN at h
  unfold hashParser_Parse
  -- shape-independent in the spelling of the clamp (`n > BlockSize` or `n >= BlockSize`): both facts are given to simp
  by_cases hgt : (Int.ofNat s.hashDictionary.ParserBuffer.Data.len) - s.hashDictionary.ParserBuffer.W > s.HPConfig.BlockSize
  · have hB : s.HPConfig.BlockSize = 0 := by simpa only [hgt, if_true] using h
    have hge : (Int.ofNat s.hashDictionary.ParserBuffer.Data.len) - s.hashDictionary.ParserBuffer.W ≥ s.HPConfig.BlockSize := by
      omega
    simp only [hgt, hge, if_true, if_false, hs, bind_ok, resetBlk]
    simp only [hB, if_true]
  · have hL : (Int.ofNat s.hashDictionary.ParserBuffer.Data.len) - s.hashDictionary.ParserBuffer.W = 0 := by
      simpa only [hgt, if_false] using h
    by_cases hge : (Int.ofNat s.hashDictionary.ParserBuffer.Data.len) - s.hashDictionary.ParserBuffer.W ≥ s.HPConfig.BlockSize
    · have hB : s.HPConfig.BlockSize = 0 := by omega
      simp only [hgt, hge, if_true, if_false, hs, bind_ok, resetBlk]
      simp only [hB, hL, if_true]
    · simp only [hgt, hge, if_true, if_false, hs, bind_ok, resetBlk]
      simp only [hL, if_true]

end LZ.GenHPParse
