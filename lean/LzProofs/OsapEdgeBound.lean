/-
  LzProofs.OsapEdgeBound — bounds on the edge table the model `computeEdges` (LzModel/Sap.lean) builds, needed to show
  that the specification hypothesis `CESpec B ce` of the translated OSAP `Parse` (LzProofs/GenOSAPParseLemmas.lean) is
  satisfiable with a CONCRETE bound `B` on the number of edges per position:

    edgeCallback_desc / computeEdges_desc   the offsets stored for one position are strictly decreasing (the Go test
                                            `(*p)[len(*p)-1].o <= o ⇒ continue`), with no hypothesis at all
    computeEdges_entry_le                   for `len(data) ≤ MaxInt32`: `1 ≤ o ≤ len(data)` and `m ≤ len(data)` for every
                                            stored edge `(m, o)` (from `Sap.FoldInv.prov`)
    computeEdges_len_le                     hence at most `len(data)` edges per position
  No sorry, no axioms of its own.
-/
import LzProofs.EdgesProps
import LzProofs.GlueSuffix

namespace LZ.Sap

/-- a strictly decreasing list of naturals in `[1, N]` has at most `N` elements -/
theorem length_le_of_desc : ∀ (l : List Nat) (N : Nat), l.Pairwise (fun a b => b < a) →
    (∀ x ∈ l, 1 ≤ x ∧ x ≤ N) → l.length ≤ N
  | [], N, _, _ => Nat.zero_le _
  | x :: r, N, hp, hb => by
    have hp' := List.pairwise_cons.1 hp
    have hx := hb x List.mem_cons_self
    have := length_le_of_desc r (x - 1) hp'.2 (fun y hy => by
      have h1 := hp'.1 y hy
      have h2 := hb y (List.mem_cons_of_mem _ hy)
      omega)
    simp only [List.length_cons]
    omega

/-- the offsets of the edges stored for every position are strictly decreasing -/
def DescTable (edges : Array (List Edge)) : Prop :=
  ∀ k, ((edges.getD k []).map (fun e => e.2)).Pairwise (fun a b => b < a)

theorem desc_last {l : List Edge} (hp : (l.map (fun e => e.2)).Pairwise (fun a b => b < a)) {e : Edge}
    (hl : l.getLast? = some e) : ∀ a ∈ l, e.2 ≤ a.2 := by
  obtain ⟨ys, rfl⟩ := List.getLast?_eq_some_iff.1 hl
  rw [List.map_append, List.pairwise_append] at hp
  intro a ha
  rcases List.mem_append.1 ha with ha | ha
  · have := hp.2.2 a.2 (List.mem_map.2 ⟨a, ha, rfl⟩) e.2 (by simp)
    omega
  · simp only [List.mem_singleton] at ha
    subst ha; exact Nat.le_refl _

/-- one call of the callback keeps the offsets of every position strictly decreasing -/
theorem edgeCallback_desc (ws : Nat) (woff : Int) (m : Nat) : ∀ (desc : List Nat) (edges : Array (List Edge)) (cnt : Nat),
    DescTable edges → DescTable (edgeCallback ws woff m desc (edges, cnt)).1
  | [], edges, cnt, h => by simpa [edgeCallback] using h
  | [a], edges, cnt, h => by simpa [edgeCallback] using h
  | i :: prev :: rest, edges, cnt, h => by
    unfold edgeCallback
    simp only
    split
    · exact h
    · rename_i hk
      cases hskip : (decide (i - prev > ws) ||
          (match (edges.getD ((i : Int) + woff).toNat []).getLast? with
            | some e => decide (e.2 ≤ i - prev) | none => false)) with
      | true =>
        simp only [if_true]
        exact edgeCallback_desc ws woff m (prev :: rest) edges cnt h
      | false =>
        simp only [Bool.false_eq_true, if_false]
        apply edgeCallback_desc ws woff m (prev :: rest)
        intro k
        rw [getD_setIfInBounds_gen]
        split
        · rename_i hkk
          have hcur := h ((i : Int) + woff).toNat
          rw [List.map_append, List.pairwise_append]
          refine ⟨hcur, by simp, ?_⟩
          intro a ha b hb
          simp only [List.map_cons, List.map_nil, List.mem_singleton] at hb
          subst hb
          simp only [Bool.or_eq_false_iff] at hskip
          obtain ⟨a', ha', rfl⟩ := List.mem_map.1 ha
          cases hl : (edges.getD ((i : Int) + woff).toNat []).getLast? with
          | none =>
            rw [List.getLast?_eq_none_iff] at hl
            rw [hl] at ha'; cases ha'
          | some e =>
            have h2 := hskip.2
            rw [hl] at h2
            simp only [decide_eq_false_iff_not] at h2
            have := desc_last hcur hl a' ha'
            omega
        · exact h k

theorem foldl_desc (saL : List Nat) (ws : Nat) (woff : Int) : ∀ (cbs : List Callback) (st : Array (List Edge) × Nat),
    DescTable st.1 → DescTable (cbs.foldl (edgeStep saL ws woff) st).1
  | [], st, h => h
  | cb :: cbs, st, h => by
    simp only [List.foldl_cons]
    apply foldl_desc saL ws woff cbs
    exact edgeCallback_desc ws woff cb.1 _ st.1 st.2 h

theorem descTable_replicate (K : Nat) : DescTable (Array.replicate K ([] : List Edge)) := by
  intro k; rw [replicate_getD_nil]; exact List.Pairwise.nil

/-- **the offsets `computeEdges` stores for a position are strictly decreasing** (unconditional) -/
theorem computeEdges_desc (data : List Byte) (w ws minMatch maxMatch : Nat) :
    DescTable (computeEdges data w ws minMatch maxMatch).edges := by
  by_cases hne : data.length = 0
  · rw [computeEdges_none _ _ _ _ _ (Or.inl hne)]; exact descTable_replicate _
  · cases hseg : ceSegs data w ws minMatch maxMatch with
    | none => rw [computeEdges_none _ _ _ _ _ (Or.inr hseg)]; exact descTable_replicate _
    | some cbs =>
      rw [computeEdges_some _ _ _ _ _ hne hseg]
      exact foldl_desc _ _ _ cbs _ (descTable_replicate _)

/-- **every stored edge `(m, o)` has `1 ≤ o ≤ len(data)` and `m ≤ len(data)`**, for buffers of at most `MaxInt32`
    bytes (what `OSAPConfig.Verify` enforces) -/
theorem computeEdges_entry_le (data : List Byte) (w ws minMatch maxMatch : Nat) (hw : w ≤ data.length)
    (hlen : data.length ≤ 2147483647) (k me oe : Nat)
    (h : (me, oe) ∈ (computeEdges data w ws minMatch maxMatch).edges.getD k []) :
    1 ≤ oe ∧ oe ≤ data.length ∧ me ≤ data.length := by
  have hC := ceHyps_of_segFacts segmentsFacts_holds data w ws minMatch maxMatch (Or.inl hlen)
  rcases computeEdges_cases hC with ⟨-, h0⟩ | ⟨cbs, st, -, hI, he⟩ | h0
  · rw [h0 k] at h; cases h
  · rw [he] at h
    by_cases hk : k < data.length - w
    · obtain ⟨a1, a2, a3, a4, -⟩ := hI.prov k me oe h
      have hl := lcpLen_le_len_left ((ceT data w ws).drop (k + (w - (w - ws))))
        ((ceT data w ws).drop (k + (w - (w - ws)) - oe))
      simp only [List.length_drop] at hl
      have hct : (ceT data w ws).length = data.length - (w - ws) := by simp [ceT]
      refine ⟨a1, by omega, by omega⟩
    · have : st.1.getD k [] = [] := by
        rw [Array.getD_eq_getD_getElem?, Array.getElem?_eq_none (by rw [hI.size]; omega)]
        rfl
      rw [this] at h; cases h
  · rw [computeEdges_none _ _ _ _ _ (Or.inl h0), replicate_getD_nil] at h; cases h

/-- **at most `len(data)` edges per position** -/
theorem computeEdges_len_le (data : List Byte) (w ws minMatch maxMatch : Nat) (hw : w ≤ data.length)
    (hlen : data.length ≤ 2147483647) (k : Nat) :
    ((computeEdges data w ws minMatch maxMatch).edges.getD k []).length ≤ data.length := by
  have h1 := computeEdges_desc data w ws minMatch maxMatch k
  have := length_le_of_desc _ data.length h1 (by
    intro x hx
    obtain ⟨e, he, rfl⟩ := List.mem_map.1 hx
    obtain ⟨a, b, -⟩ := computeEdges_entry_le data w ws minMatch maxMatch hw hlen k e.1 e.2 he
    exact ⟨a, b⟩)
  simpa using this

end LZ.Sap

#print axioms LZ.Sap.computeEdges_desc
#print axioms LZ.Sap.computeEdges_entry_le
#print axioms LZ.Sap.computeEdges_len_le
