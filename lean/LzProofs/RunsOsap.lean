/-
  LzProofs.RunsOsap — C19, run clause, for the optimizing suffix-array parser OSAP:

    a block of at least 32 bytes that lies inside a run of one repeated byte carries at most
    MinMatchLen literal bytes.

  The clause holds universally (for every accepted configuration with the D18 bound `Int32OK` under
  which C11 is a theorem, every history, every run block — the bound `32 ≤ n` is not even needed,
  `1 ≤ n` suffices).  Proof: C11 (`Sap.C11_optimal_hist`: the emitted block has minimum `XZCost`
  among all LZ77 parses of the block) + the exchange lemma `Sap.run_improve` of
  RunsOsapLemmas.lean (a parse of a run block with more than MinMatchLen literals is not optimal)
  + `Sap.osap_block_cost` / `Sap.osap_block_lits` (cost and literal count of the emitted block are
  those of the emitted path).

  Environment: `GlueSuffix` (C11 with the suffix-array hypotheses discharged) + `Runs` (`RunBlock`,
  `newParser_windowSize`, the histories of the parser topic).  `GlueProps` cannot be imported next
  to `Runs` (both declare `LZ.step_fst`), so the bridge between the two notions of history is
  restated here (`RunsOsap.runOps_fst_sap`).

  Theorems (namespace `LZ`):
   * `Sap.run_osap_of_optimal`   block level, from the two C11 facts
   * `C19_run_osap_block`        state level, statement on `(s.parse flags).2.2.2`
   * `C19_run_osap`              state level (hypotheses: `OsapHist`, `CEAt`, `1 ≤ WindowSize`,
                                 `2 ≤ MinMatchLen ≤ MaxMatchLen`), shape of `C19_run_hp`
   * `C19_run_osap_reachable`    history level, shape of `C19_run_hash_reachable`
   * `C19_run_osap_reachable_sap`   the same over the histories of the OSAP topic (`Sap.runOps`)
   * `C19_run_osap_reachable_cfg`   … with the bound spelled `s0.cfg.minMatchLen.toNat`
   * non-vacuity example, `#print axioms`.
-/
import LzProofs.GlueSuffix
import LzProofs.Runs
import LzProofs.RunsOsapLemmas
namespace LZ

/-! ## block level -/

/-- the block prefix `Data[:W+n]` of a state whose next `n` bytes are `b` is a `RunBlock` -/
theorem runBlock_take (data : List Byte) (w n : Nat) (b : Byte) (hn : 32 ≤ n)
    (hle : w + n ≤ data.length) (hrun : ∀ t, t < n → data[w + t]? = some b) :
    RunBlock (data.take (w + n)) w n b := by
  refine ⟨by rw [List.length_take]; omega, hn, ?_⟩
  intro t ht
  rw [List.getElem?_take_of_lt (by omega)]
  exact hrun t ht

/-- **Block level.**  If the block OSAP emits with even flags has minimum cost among the LZ77
    parses of the block (C11) and the block lies in a run of one byte, it carries at most
    `MinMatchLen` literal bytes. -/
theorem Sap.run_osap_of_optimal (s : Parser) (o : OsapD) (hd : s.dict = .osap o) (flags : Nat)
    (hn : s.blockN ≠ 0) (hf : flags % 2 = 0) (b : Byte)
    (hws : 1 ≤ s.buf.cfg.windowSize) (hmm : 2 ≤ s.minMatch)
    (hmx : s.minMatch ≤ s.cfg.maxMatchLen.toNat)
    (hrun : ∀ t, t < s.blockN → s.buf.data[s.buf.w + t]? = some b)
    (hpath : Sap.LzParse (s.buf.data.take (s.buf.w + s.blockN)) s.buf.w s.buf.cfg.windowSize
        s.minMatch s.cfg.maxMatchLen.toNat s.blockN (Sap.osapPath s o))
    (hopt : ∀ π, Sap.LzParse (s.buf.data.take (s.buf.w + s.blockN)) s.buf.w s.buf.cfg.windowSize
        s.minMatch s.cfg.maxMatchLen.toNat s.blockN π →
      Sap.blockCost (s.parse flags).2.2.2 ≤ Sap.pathCost π) :
    (s.parse flags).2.2.2.lits.length ≤ s.minMatch := by
  have hle := Sap.blockN_le s hn
  have hlen : (s.buf.data.take (s.buf.w + s.blockN)).length = s.buf.w + s.blockN := by
    rw [List.length_take]; omega
  have hrun' : ∀ t, t < s.blockN → (s.buf.data.take (s.buf.w + s.blockN))[s.buf.w + t]? = some b := by
    intro t ht
    rw [List.getElem?_take_of_lt (by omega)]
    exact hrun t ht
  -- a parse with the cost and the literal count of the emitted block
  have hex : ∃ π, Sap.LzParse (s.buf.data.take (s.buf.w + s.blockN)) s.buf.w s.buf.cfg.windowSize
        s.minMatch s.cfg.maxMatchLen.toNat s.blockN π ∧
      Sap.pathCost π = Sap.blockCost (s.parse flags).2.2.2 ∧
      Sap.litBytes π = (s.parse flags).2.2.2.lits.length := by
    rw [Sap.osap_block_cost s o hd flags hn hf, Sap.osap_block_lits s o hd flags hn hf]
    by_cases h0 : (Sap.osapEdges s o).nEdges = 0
    · rw [if_pos h0, if_pos h0]
      exact ⟨List.replicate s.blockN (1, 0),
        Sap.lz_all_literals _ _ _ _ _ _ s.blockN 0 (by omega),
        Sap.pathCost_replicate _, Sap.litBytes_replicate _⟩
    · rw [if_neg h0, if_neg h0]
      exact ⟨_, hpath, rfl, rfl⟩
  obtain ⟨π, h1, h2, h3⟩ := hex
  rw [← h3]
  apply Sap.run_optimal_lits s.buf.cfg.windowSize s.minMatch s.cfg.maxMatchLen.toNat hlen hrun' hws hmm hmx π h1
  intro π' hπ'
  rw [h2]
  exact hopt π' hπ'

/-! ## what `Parse` returns for OSAP -/

theorem Sap.parse_osap_n (s : Parser) (o : OsapD) (hd : s.dict = .osap o) (flags : Nat)
    (hn : s.blockN ≠ 0) (hf : flags % 2 = 0) :
    (s.parse flags).2.1 = s.blockN ∧ (s.parse flags).2.2.1 = .ok := by
  have hle := Sap.blockN_le s hn
  have hf' : ¬ (flags % 2 = 1) := by omega
  rw [Sap.parse_osap_eq s o hd flags hn]
  by_cases h0 : (Sap.osapEdges s o).nEdges = 0
  · rw [if_pos h0]
    exact ⟨rfl, rfl⟩
  · rw [if_neg h0]
    refine ⟨?_, rfl⟩
    simp only [hf', false_and, if_false, List.length_take]
    omega

theorem Sap.parse_blockN_zero (s : Parser) (flags : Nat) (hn : s.blockN = 0) :
    (s.parse flags).2.2.1 = .empty := by
  unfold Parser.parse; simp [hn]

/-! ## state level -/

/-- **C19, run clause, OSAP, state level** (projection form).  For a state whose stored edge table
    satisfies the history invariant `OsapHist` and whose buffer satisfies the suffix-array facts
    `CEAt`, with `1 ≤ WindowSize` and `2 ≤ MinMatchLen ≤ MaxMatchLen`: a block emitted with even
    flags whose bytes are all `b` carries at most `MinMatchLen` literal bytes. -/
theorem C19_run_osap_block (s : Parser) (o : OsapD) (hd : s.dict = .osap o) (hist : Sap.OsapHist s o)
    (hce : Sap.CEAt s) (hws : 1 ≤ s.buf.cfg.windowSize) (hmm : 2 ≤ s.minMatch)
    (hmx : s.minMatch ≤ s.cfg.maxMatchLen.toNat)
    (flags : Nat) (hf : flags % 2 = 0) (hn : s.blockN ≠ 0) (b : Byte)
    (hrun : ∀ t, t < s.blockN → s.buf.data[s.buf.w + t]? = some b) :
    (s.parse flags).2.2.2.lits.length ≤ s.minMatch := by
  obtain ⟨h1, h2⟩ := Sap.C11_optimal_hist s o hd flags hn hf hist hce
  exact Sap.run_osap_of_optimal s o hd flags hn hf b hws hmm hmx hrun h1 h2

/-- **C19, run clause, OSAP, state level** in the shape of `C19_run_hp`: if `Parse(&blk, flags)`
    without `NoTrailingLiterals` returns a block of `n ≥ 32` bytes, all equal to `b`, the block
    carries at most `MinMatchLen` literal bytes. -/
theorem C19_run_osap (s : Parser) (o : OsapD) (hd : s.dict = .osap o) (hist : Sap.OsapHist s o)
    (hce : Sap.CEAt s) (hws : 1 ≤ s.buf.cfg.windowSize) (hmm : 2 ≤ s.minMatch)
    (hmx : s.minMatch ≤ s.cfg.maxMatchLen.toNat)
    (flags : Nat) (s' : Parser) (n : Nat) (blk : Block) (b : Byte)
    (hp : s.parse flags = (s', n, .ok, blk)) (hf : flags % 2 = 0) (_hn : 32 ≤ n)
    (hrun : ∀ t, t < n → s.buf.data[s.buf.w + t]? = some b) :
    blk.lits.length ≤ s.minMatch := by
  have hbn : s.blockN ≠ 0 := by
    intro h0
    have := Sap.parse_blockN_zero s flags h0
    rw [hp] at this
    cases this
  have hnn : n = s.blockN := by
    have := (Sap.parse_osap_n s o hd flags hbn hf).1
    rw [hp] at this
    exact this
  have hb : blk = (s.parse flags).2.2.2 := by rw [hp]
  rw [hb]
  exact C19_run_osap_block s o hd hist hce hws hmm hmx flags hf hbn b (by rw [← hnn]; exact hrun)

/-- the `RunBlock` form: the block prefix `Data[:W+n]` is a `RunBlock` -/
theorem C19_run_osap_runBlock (s : Parser) (o : OsapD) (hd : s.dict = .osap o) (hist : Sap.OsapHist s o)
    (hce : Sap.CEAt s) (hws : 1 ≤ s.buf.cfg.windowSize) (hmm : 2 ≤ s.minMatch)
    (hmx : s.minMatch ≤ s.cfg.maxMatchLen.toNat)
    (flags : Nat) (hf : flags % 2 = 0) (hn : s.blockN ≠ 0) (b : Byte)
    (hR : RunBlock (s.buf.data.take (s.buf.w + s.blockN)) s.buf.w s.blockN b) :
    (s.parse flags).2.2.2.lits.length ≤ s.minMatch := by
  apply C19_run_osap_block s o hd hist hce hws hmm hmx flags hf hn b
  intro t ht
  have := hR.run t ht
  rw [List.getElem?_take_of_lt (by omega)] at this
  exact this

/-! ## the two notions of history -/

namespace RunsOsap

/-- the operations of the parser topic (`LZ.POp`) as operations of the OSAP topic (`LZ.Sap.POp`) -/
def toSap : POp → Sap.POp
  | .write p => .write p
  | .readFrom r => .readFrom r
  | .parse f => .parse f
  | .parseNil => .parseNil
  | .shrink => .shrink
  | .reset d c => .reset d c

theorem stepP_eq (s : Parser) (op : POp) : stepP s op = (toSap op).apply s := by
  cases op <;> rfl

theorem foldl_stepP (ops : List POp) : ∀ s : Parser,
    ops.foldl stepP s = Sap.runOps s (ops.map toSap) := by
  induction ops with
  | nil => intro s; rfl
  | cons op ops ih =>
    intro s
    show ops.foldl stepP (stepP s op) = Sap.runOps ((toSap op).apply s) (ops.map toSap)
    rw [ih, stepP_eq]

/-- the parser state after a history of the parser topic is the state after the same history of
    the OSAP topic -/
theorem runOps_fst_sap (s0 : Parser) (ops : List POp) :
    (runOps (s0, Ghost.init) ops).1 = Sap.runOps s0 (ops.map toSap) := by
  rw [runOps_fst, foldl_stepP]

end RunsOsap

/-! ## configuration facts -/

/-- accepted OSAP configurations have `2 ≤ MinMatchLen ≤ MaxMatchLen` -/
theorem newParser_osap_matchLens {raw : Cfg} {s0 : Parser} (h0 : newParser .OSAP raw = some s0) :
    s0.kind = .OSAP ∧ 2 ≤ s0.cfg.minMatchLen.toNat ∧
      s0.cfg.minMatchLen.toNat ≤ s0.cfg.maxMatchLen.toNat := by
  unfold newParser at h0
  simp only [] at h0
  split at h0
  · rename_i hv
    cases h0
    simp only [verify, Bool.and_eq_true, decide_eq_true_eq] at hv
    obtain ⟨⟨⟨-, h1, h2⟩, -⟩, -⟩ := hv
    refine ⟨rfl, ?_, ?_⟩ <;> simp only [] <;> omega
  · cases h0

/-! ## history level -/

/-- every state of an OSAP history (histories of the OSAP topic) satisfies the hypotheses of
    `C19_run_osap` -/
theorem reachable_osap_sap (raw : Cfg) (s0 : Parser) (h0 : newParser .OSAP raw = some s0)
    (hb : Sap.Int32OK s0) (ops : List Sap.POp) :
    let s := Sap.runOps s0 ops
    ∃ o, s.dict = .osap o ∧ Sap.OsapHist s o ∧ Sap.CEAt s ∧ 1 ≤ s.buf.cfg.windowSize ∧
      s.minMatch = s0.cfg.minMatchLen.toNat ∧ 2 ≤ s.minMatch ∧
      s.minMatch ≤ s.cfg.maxMatchLen.toNat := by
  intro s
  -- kind and configuration along the history
  have hkc : ∀ (ops : List Sap.POp) (s1 : Parser) (o1 : OsapD), s1.dict = .osap o1 → Sap.OsapHist s1 o1 →
      Sap.BufLen s1 → Sap.Int32OK s1 →
      (Sap.runOps s1 ops).kind = s1.kind ∧ (Sap.runOps s1 ops).cfg = s1.cfg := by
    intro ops
    induction ops with
    | nil => intro s1 o1 _ _ _ _; exact ⟨rfl, rfl⟩
    | cons op ops ih =>
      intro s1 o1 hd1 h1 hl1 hb1
      obtain ⟨o', hd', h'⟩ := Sap.osap_step s1 op hd1 h1
        (Sap.ceAt_of_bufLen Sap.segmentsFacts_holds s1 hl1 hb1)
      obtain ⟨l1, l2, l3, l4⟩ := Sap.bufLen_step_osap s1 op hd1 hl1
      have hb' : Sap.Int32OK (op.apply s1) := by unfold Sap.Int32OK; rw [l2, l4]; exact hb1
      obtain ⟨a, c⟩ := ih (op.apply s1) o' hd' h' l1 hb'
      exact ⟨a.trans l3, c.trans l4⟩
  obtain ⟨hk, hc⟩ := hkc ops s0 _ (Sap.newParser_osap_dict raw s0 h0) (Sap.OsapHist.empty s0)
    (Sap.newParser_bufLen _ raw s0 h0) hb
  obtain ⟨o, hd, hist, hl, hb', hbc⟩ := Sap.osap_run_buf Sap.segmentsFacts_holds ops s0
    (Sap.newParser_osap_dict raw s0 h0) (Sap.OsapHist.empty s0) (Sap.newParser_bufLen _ raw s0 h0) hb
  obtain ⟨k0, m1, m2⟩ := newParser_osap_matchLens h0
  have hmmeq : s.minMatch = s0.cfg.minMatchLen.toNat := by
    show (Sap.runOps s0 ops).minMatch = _
    unfold Parser.minMatch
    rw [hk, k0, hc]
  refine ⟨o, hd, hist, Sap.ceAt_of_bufLen Sap.segmentsFacts_holds _ hl hb', ?_, hmmeq, ?_, ?_⟩
  · show 1 ≤ (Sap.runOps s0 ops).buf.cfg.windowSize
    rw [hbc]; exact newParser_windowSize h0
  · rw [hmmeq]; exact m1
  · rw [hmmeq]
    show _ ≤ (Sap.runOps s0 ops).cfg.maxMatchLen.toNat
    rw [hc]; exact m2

/-- **C19, run clause, history level, OSAP** over the histories of the OSAP topic
    (`Sap.POp`, `Sap.runOps` — the histories of `Sap.C11_optimal_unconditional`). -/
theorem C19_run_osap_reachable_sap (raw : Cfg) (s0 : Parser) (h0 : newParser .OSAP raw = some s0)
    (hb : Sap.Int32OK s0) (ops : List Sap.POp)
    (flags : Nat) (s' : Parser) (n : Nat) (blk : Block) (b : Byte) :
    let s := Sap.runOps s0 ops
    s.parse flags = (s', n, .ok, blk) → flags % 2 = 0 → 32 ≤ n →
    (∀ t, t < n → s.buf.data[s.buf.w + t]? = some b) →
    blk.lits.length ≤ s.minMatch := by
  intro s hp hf hn hrun
  obtain ⟨o, hd, hist, hce, hws, -, hmm, hmx⟩ := reachable_osap_sap raw s0 h0 hb ops
  exact C19_run_osap s o hd hist hce hws hmm hmx flags s' n blk b hp hf hn hrun

/-- **C19, run clause, history level, OSAP.**  For every accepted OSAP configuration with
    `BufferSize ≤ MaxInt32` or `MaxMatchLen ≤ MaxInt32` (`Sap.Int32OK`, the D18 bound under which
    C11 holds), every history of `Write`, `ReadFrom`, `Parse` (any flags), `Parse(nil)`, `Shrink`,
    `Reset`: if the next `Parse(&blk, flags)` without `NoTrailingLiterals` returns a block of
    `n ≥ 32` bytes, all equal to one byte `b`, the block carries at most `MinMatchLen` literal
    bytes. -/
theorem C19_run_osap_reachable (raw : Cfg) (s0 : Parser) (h0 : newParser .OSAP raw = some s0)
    (hb : Sap.Int32OK s0) (ops : List POp)
    (flags : Nat) (s' : Parser) (n : Nat) (blk : Block) (b : Byte) :
    let s := (runOps (s0, Ghost.init) ops).1
    s.parse flags = (s', n, .ok, blk) → flags % 2 = 0 → 32 ≤ n →
    (∀ t, t < n → s.buf.data[s.buf.w + t]? = some b) →
    blk.lits.length ≤ s.minMatch := by
  intro s
  have e : s = Sap.runOps s0 (ops.map RunsOsap.toSap) := RunsOsap.runOps_fst_sap s0 ops
  rw [e]
  exact C19_run_osap_reachable_sap raw s0 h0 hb (ops.map RunsOsap.toSap) flags s' n blk b

/-- … with the bound spelled as the configured `MinMatchLen` -/
theorem C19_run_osap_reachable_cfg (raw : Cfg) (s0 : Parser) (h0 : newParser .OSAP raw = some s0)
    (hb : Sap.Int32OK s0) (ops : List POp)
    (flags : Nat) (s' : Parser) (n : Nat) (blk : Block) (b : Byte)
    (hp : (runOps (s0, Ghost.init) ops).1.parse flags = (s', n, .ok, blk)) (hf : flags % 2 = 0)
    (hn : 32 ≤ n)
    (hrun : ∀ t, t < n → (runOps (s0, Ghost.init) ops).1.buf.data[(runOps (s0, Ghost.init) ops).1.buf.w + t]?
      = some b) :
    blk.lits.length ≤ s0.cfg.minMatchLen.toNat := by
  have h := C19_run_osap_reachable raw s0 h0 hb ops flags s' n blk b hp hf hn hrun
  have e : (runOps (s0, Ghost.init) ops).1 = Sap.runOps s0 (ops.map RunsOsap.toSap) :=
    RunsOsap.runOps_fst_sap s0 ops
  obtain ⟨_, _, _, _, _, hmm, _⟩ := reachable_osap_sap raw s0 h0 hb (ops.map RunsOsap.toSap)
  rw [← e] at hmm
  rw [← hmm]; exact h

/-! ## non-vacuity -/

section Examples

/-- WindowSize 64, BufferSize 64, BlockSize 32, MinMatchLen 3, MaxMatchLen 273 -/
def runOsapCfg : Cfg :=
  { windowSize := 64, bufferSize := 64, blockSize := 32, shrinkSize := 16,
    minMatchLen := 3, maxMatchLen := 273 }

def runOsap0 : Parser := (newParser .OSAP runOsapCfg).getD default
theorem runOsap0_new : newParser .OSAP runOsapCfg = some runOsap0 := Sap.eq_some_getD (by decide) _
theorem runOsap0_int32 : Sap.Int32OK runOsap0 := by unfold Sap.Int32OK; decide

/-- the history: `Write("x")`, `Parse(nil)`, `Write` of 40 bytes `a` -/
def runOsapOps : List POp := [.write [120], .parseNil, .write (List.replicate 40 97)]

theorem runOsapOps_data : (runOps (runOsap0, Ghost.init) runOsapOps).1.buf.data = 120 :: List.replicate 40 97 := by
  decide
theorem runOsapOps_w : (runOps (runOsap0, Ghost.init) runOsapOps).1.buf.w = 1 := by decide
theorem runOsapOps_blockN : (runOps (runOsap0, Ghost.init) runOsapOps).1.blockN = 32 := by decide
theorem runOsapOps_mm : (runOps (runOsap0, Ghost.init) runOsapOps).1.minMatch = 3 := by decide

/-- all hypotheses of `C19_run_osap_reachable` are satisfiable: after `"x"` has been skipped and 40
    equal bytes written, `Parse` returns a block of `n = 32 = BlockSize` equal bytes; it carries
    at most `MinMatchLen = 3` literal bytes -/
example : ∃ s' blk,
    let s := (runOps (runOsap0, Ghost.init) runOsapOps).1
    newParser .OSAP runOsapCfg = some runOsap0 ∧ Sap.Int32OK runOsap0 ∧
    s.parse 0 = (s', 32, .ok, blk) ∧ (∀ t, t < 32 → s.buf.data[s.buf.w + t]? = some 97) ∧
    blk.lits.length ≤ 3 := by
  have e := RunsOsap.runOps_fst_sap runOsap0 runOsapOps
  obtain ⟨o, hd, -⟩ := reachable_osap_sap runOsapCfg runOsap0 runOsap0_new runOsap0_int32
    (runOsapOps.map RunsOsap.toSap)
  rw [← e] at hd
  have hbn : (runOps (runOsap0, Ghost.init) runOsapOps).1.blockN ≠ 0 := by rw [runOsapOps_blockN]; decide
  obtain ⟨p1, p2⟩ := Sap.parse_osap_n _ o hd 0 hbn rfl
  rw [runOsapOps_blockN] at p1
  have hp : (runOps (runOsap0, Ghost.init) runOsapOps).1.parse 0 =
      (((runOps (runOsap0, Ghost.init) runOsapOps).1.parse 0).1, 32, .ok,
        ((runOps (runOsap0, Ghost.init) runOsapOps).1.parse 0).2.2.2) := by
    rw [← p1, ← p2]
  have hrun : ∀ t, t < 32 → (runOps (runOsap0, Ghost.init) runOsapOps).1.buf.data[
      (runOps (runOsap0, Ghost.init) runOsapOps).1.buf.w + t]? = some 97 := by
    intro t ht
    rw [runOsapOps_data, runOsapOps_w]
    have e1 : 1 + t = t + 1 := by omega
    rw [e1, List.getElem?_cons_succ, List.getElem?_replicate, if_pos (by omega)]
  have h := C19_run_osap_reachable runOsapCfg runOsap0 runOsap0_new runOsap0_int32 runOsapOps 0 _ 32 _ 97
    hp rfl (Nat.le_refl _) hrun
  rw [runOsapOps_mm] at h
  exact ⟨_, _, runOsap0_new, runOsap0_int32, hp, hrun, h⟩

end Examples

/-! ## axioms -/


end LZ
