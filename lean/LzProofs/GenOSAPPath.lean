/-
  LzProofs.GenOSAPPath — the translated `(*optSuffixArrayParser).shortestPath` of osap.go
  (LzModel/Generated/CodeOSAPPath.lean) against the range-checked model `Idx.shortestPathChk`
  (LzProofs/IdxOsap.lean; `shortestPathChk_eq`: it equals the model `shortestPath` of LzModel/Sap.lean).

  Layering (innermost first):
    `go_relax1`     `if c < d[j].c { d[j] = e }`                      = `relax1Chk`
    `loop4_eq`      `for m := uint32(MinMatchLen); m <= max; m++`     = `relaxLensChk` (cnt = max + 1 - m)
    `loop3_eq`      `for k := len(q)-1; k >= 0; k--`                  = `relaxEdgesChk` over the reversed edge list
    `go_litRelax`   `if c := d[i-1].c + lit; c < d[i].c { … }`        = `litRelaxChk`
    `loop2_eq`      `for i, q := range edges`                         = `dpLoopChk`
    `loop1_eq`      `for i := range d { … }`                          = the initial table `d0`
    `loop5_eq`      `for i != 0 { … p = append(p, …); i -= m }`       = `backtrackChk` (the Go text appends in reversed order)
    `gen_osap_shortestPath`

  Machine arithmetic.  Table costs are `uint64` in Go and `Nat` in the model.  The invariant `CB`
  (every cost of the table is `≤ 2^62`) holds for the initial table (`9·j`, `j ≤ 2^31`), is kept by
  every relaxation (an entry is only replaced by a smaller one), and makes every sum
  `d[i].c + XZCost(m, o)` (`XZCost < 2^36`, `xzCost_lt`) wrap-free.  `uint32`: `m++` does not wrap because
  `max ≤ maxLen = uint32(n - i) ≤ MaxInt32`; `i -= m` does not wrap because `backtrackChk` checks `m ≤ i`.

  The proofs unfold the defining equation of a loop function, normalise with `Res.bind` / the slice
  lemmas and decide the arithmetic with `omega`; they do not mention the shape of the generated term
  beyond the order of the reads.
-/
import LzProofs.GenOSAPLemmas
import LzProofs.GenCallByName
import LzProofs.GenSuffixPropsSeg
import LzProofs.IdxOsap

set_option linter.unusedSimpArgs false
set_option linter.unusedVariables false

namespace LZ.GenOSAP
open LZ LZ.Gen LZ.GenBuf LZ.GenHash LZ.GenSuffix LZ.Idx LZ.GenDec

/-- the Go type `opt` local to `shortestPath` -/
abbrev GOpt := Gen.optSuffixArrayParser_shortestPath_opt

/-- the zero value of `opt` -/
abbrev zOpt : GOpt := { m := 0, o := 0, c := 0 }

/-- the bound on the costs of the table: `2^62` -/
abbrev costB : Nat := 4611686018427387904

/-- every cost of the table is at most `2^62` (so that no `uint64` sum of the DP wraps) -/
def CB (d : GSlice GOpt) : Prop := ∀ j, j < d.len → ((d.arr[j]?).getD zOpt).c.toNat ≤ costB

theorem CB_set {d : GSlice GOpt} (h : CB d) (j : Nat) (e : GOpt) (he : e.c.toNat ≤ costB) :
    CB { d with arr := d.arr.set j e } := by
  intro k hk
  have := h k hk
  simp only [List.getElem?_set]
  by_cases hjk : j = k
  · subst hjk
    by_cases hl : j < d.arr.length
    · simpa [hl] using he
    · simp [hl, costB]
  · simpa [hjk] using this

/-! ## one relaxation -/

/-- `t := d[j]; if e.c < t.c { d[j] = e }` against `relax1Chk`: the read is in range; either the test holds,
    the write is in range and yields the model's table, or the test fails and the table is unchanged -/
theorem go_relax1 (d : GSlice GOpt) (hw : GWF d) (hcb : CB d) (j : Int) (jn : Nat) (hj : j = (jn : Int))
    (e : GOpt) (D' : Array Opt) (h : relax1Chk (tabAbs d) jn (optAbs e) = some D') :
    ∃ t, GSlice.index zOpt d j = Res.ok t ∧ jn < d.len ∧ t = (d.arr[jn]?).getD zOpt ∧
      ((e.c < t.c ∧ ∃ d', GSlice.set d j e = Res.ok d' ∧ tabAbs d' = D' ∧ GWF d' ∧ d'.len = d.len ∧ CB d') ∨
       (¬ e.c < t.c ∧ tabAbs d = D')) := by
  unfold relax1Chk at h
  split at h
  · cases h
  · rename_i x hx
    obtain ⟨hlt, hx'⟩ := gabs_getElem?_some optAbs zOpt hw jn x hx
    refine ⟨_, gindex_ok zOpt d j jn hj hlt, hlt, rfl, ?_⟩
    have hiff : e.c < ((d.arr[jn]?).getD zOpt).c ↔ (optAbs e).c < x.c := by
      rw [← hx']; exact UInt64.lt_iff_toNat_lt
    by_cases hc : (optAbs e).c < x.c
    · left
      rw [if_pos hc] at h
      refine ⟨hiff.2 hc, _, gset_ok d j jn hj hlt e, ?_, gset_wf hw jn e, rfl, ?_⟩
      · unfold setChk at h
        rw [if_pos (by rw [tabAbs_size hw]; exact hlt)] at h
        rw [← Option.some.inj h]
        exact gabs_set optAbs d jn e
      · apply CB_set hcb
        have h1 := hcb jn hlt
        have h2 : e.c.toNat < ((d.arr[jn]?).getD zOpt).c.toNat := UInt64.lt_iff_toNat_lt.1 (hiff.2 hc)
        omega
    · right
      rw [if_neg hc] at h
      exact ⟨fun hh => hc (hiff.1 hh), Option.some.inj h⟩

/-! ## loop_4: the match lengths of one edge -/

theorem u32_succ (m : UInt32) (h : m.toNat < 4294967295) : (m + 1).toNat = m.toNat + 1 := by
  rw [UInt32.toNat_add]
  simp only [UInt32.toNat_one, Nat.reducePow]
  omega

/-- `for m := …; m <= max; m++ { c := ci + cost(m, o); j := i + int(m); if c < d[j].c { d[j] = opt{m, o, c} } }`
    = `relaxLensChk` with `cnt = max + 1 - m` iterations left.  `hmax`: `m++` does not wrap at `max`
    (for `max = MaxUint32` the Go loop does not terminate). -/
theorem loop4_eq (grow : Nat → Nat → Nat) (max : UInt32) (ci : UInt64) (s : Gen.optSuffixArrayParser) (o : UInt32)
    (i : Int) (inn : Nat) (hi : i = (inn : Int)) (mm : Nat) (hcost : s.cost = 1)
    (hmax : max.toNat < 4294967295) (hci : ci.toNat ≤ costB) :
    ∀ (cnt fuel : Nat) (d : GSlice GOpt) (m : UInt32) (D' : Array Opt), GWF d → CB d →
      cnt = max.toNat + 1 - m.toNat → cnt + 1 ≤ fuel →
      relaxLensChk mm inn ci.toNat o.toNat cnt m.toNat (tabAbs d) = some D' →
      ∃ d' m', (ghead% Gen.optSuffixArrayParser_shortestPath_loop_4 [grow := grow, max := max, ci := ci, s := s, o := o, i := i])
          fuel d m = Res.ok (d', m') ∧
        tabAbs d' = D' ∧ GWF d' ∧ d'.len = d.len ∧ CB d' := by
  intro cnt
  induction cnt with
  | zero =>
    intro fuel d m D' hw hcb hc hf h
    cases fuel with
    | zero => omega
    | succ fuel =>
      unfold Gen.optSuffixArrayParser_shortestPath_loop_4
      have hle : ¬ m ≤ max := by rw [UInt32.le_iff_toNat_le]; omega
      simp only [hle, if_false]
      unfold relaxLensChk at h
      cases h
      exact ⟨_, _, rfl, rfl, hw, rfl, hcb⟩
  | succ cnt ih =>
    intro fuel d m D' hw hcb hc hf h
    cases fuel with
    | zero => omega
    | succ fuel =>
      unfold Gen.optSuffixArrayParser_shortestPath_loop_4
      have hle : m ≤ max := by rw [UInt32.le_iff_toNat_le]; omega
      have hmlt : m.toNat < 4294967295 := by omega
      simp only [hle, if_true, cost_ok _ hcost, bind_ok]
      unfold relaxLensChk at h
      split at h
      · cases h
      · rename_i D1 h1
        have hsum : (ci + Gen.XZCost m o).toNat = ci.toNat + xzCost m.toNat o.toNat := by
          have := gen_cost_lt m o
          rw [u64_add _ _ (by simp only [costB] at hci; omega), gen_cost_toNat]
        have hopt : optAbs ({ m := m, o := o, c := ci + Gen.XZCost m o } : GOpt) =
            ⟨m.toNat, o.toNat, ci.toNat + xzCost m.toNat o.toNat⟩ := by
          simp only [optAbs, hsum]
        rw [← hopt] at h1
        obtain ⟨t, hidx, -, -, hcase⟩ := go_relax1 d hw hcb (i + Int.ofNat m.toNat) (inn + m.toNat)
          (by subst hi; simp only [Int.ofNat_eq_natCast]; omega) _ D1 h1
        rw [hidx]
        simp only [bind_ok]
        have hm1 := u32_succ m hmlt
        rcases hcase with ⟨hlt, d1, hset, hD1, hw1, hl1, hcb1⟩ | ⟨hnlt, hD1⟩
        · simp only [hlt, if_true, hset, bind_ok]
          obtain ⟨d', m', hgo, r1, r2, r3, r4⟩ := ih fuel d1 (m + 1) D' hw1 hcb1 (by omega) (by omega)
            (by rw [hm1, hD1]; exact h)
          exact ⟨d', m', hgo, r1, r2, by omega, r4⟩
        · simp only [hnlt, if_false, bind_ok]
          obtain ⟨d', m', hgo, r1, r2, r3, r4⟩ := ih fuel d (m + 1) D' hw hcb (by omega) (by omega)
            (by rw [hm1, hD1]; exact h)
          exact ⟨d', m', hgo, r1, r2, r3, r4⟩

/-! ## loop_3: the edges of one position, last to first -/

/-- `for k := len(q)-1; k >= 0; k-- { max := min(q[k].m, maxLen); o := q[k].o; loop_4 }` = `relaxEdgesChk` over the
    first `k` edges of `q` in reversed order.  The fuel is shared with loop_4 (one unit per iteration of loop_3,
    `max + 2 - MinMatchLen ≤ maxLen + 2` units inside loop_4). -/
theorem loop3_eq (grow : Nat → Nat → Nat) (q : GSlice Gen.edge) (hq : GWF q) (maxLen : UInt32) (s : Gen.optSuffixArrayParser)
    (ci : UInt64) (i : Int) (inn : Nat) (hi : i = (inn : Int)) (hcost : s.cost = 1)
    (hml : maxLen.toNat < 4294967295) (hci : ci.toNat ≤ costB)
    (hmm : 0 ≤ s.OSAPConfig.MinMatchLen) (hmm32 : s.OSAPConfig.MinMatchLen < 4294967296) :
    ∀ (k fuel : Nat) (d : GSlice GOpt) (k1 : Int) (D' : Array Opt), k1 = (k : Int) - 1 → k ≤ q.len → GWF d → CB d →
      k + maxLen.toNat + 2 ≤ fuel →
      relaxEdgesChk s.OSAPConfig.MinMatchLen.toNat inn ci.toNat maxLen.toNat ((q.data.take k).map edgeAbs).reverse
        (tabAbs d) = some D' →
      ∃ d' k', (ghead% Gen.optSuffixArrayParser_shortestPath_loop_3 [grow := grow, q := q, maxLen := maxLen, s := s, ci := ci, i := i])
          fuel d k1 = Res.ok (d', k') ∧
        tabAbs d' = D' ∧ GWF d' ∧ d'.len = d.len ∧ CB d' := by
  intro k
  induction k with
  | zero =>
    intro fuel d k1 D' hk1 hk hw hcb hf h
    cases fuel with
    | zero => omega
    | succ fuel =>
      unfold Gen.optSuffixArrayParser_shortestPath_loop_3
      have hneg : ¬ k1 ≥ 0 := by omega
      simp only [hneg, if_false]
      simp only [List.take_zero, List.map_nil, List.reverse_nil] at h
      unfold relaxEdgesChk at h
      cases h
      exact ⟨_, _, rfl, rfl, hw, rfl, hcb⟩
  | succ k ih =>
    intro fuel d k1 D' hk1 hk hw hcb hf h
    cases fuel with
    | zero => omega
    | succ fuel =>
      unfold Gen.optSuffixArrayParser_shortestPath_loop_3
      have hpos : k1 ≥ 0 := by omega
      have hklt : k < q.len := by omega
      have hidx := gindex_ok ({ m := 0, o := 0 } : Gen.edge) q k1 k (by omega) hklt
      simp only [hpos, if_true, hidx, bind_ok]
      -- the model side: the last of the first k+1 edges comes first
      have hqk : q.data[k]? = some ((q.arr[k]?).getD { m := 0, o := 0 }) := by
        rw [gdata_getElem?, if_pos hklt]
        unfold GWF at hq
        rw [List.getElem?_eq_getElem (by omega)]; rfl
      rw [List.take_add_one, hqk] at h
      simp only [Option.toList_some, List.map_append, List.map_cons, List.map_nil, List.reverse_append,
        List.reverse_cons, List.reverse_nil, List.nil_append, List.cons_append] at h
      generalize (q.arr[k]?).getD ({ m := 0, o := 0 } : Gen.edge) = e at h ⊢
      unfold relaxEdgesChk at h
      simp only [edgeAbs] at h
      split at h
      · cases h
      · rename_i D1 h1
        -- `max` of the Go text
        have hmaxv : (if e.m > maxLen then maxLen else e.m).toNat = min e.m.toNat maxLen.toNat := by
          by_cases hgt : e.m > maxLen
          · have := UInt32.lt_iff_toNat_lt.1 hgt
            simp only [hgt, if_true]; omega
          · have : ¬ maxLen.toNat < e.m.toNat := fun hh => hgt (UInt32.lt_iff_toNat_lt.2 hh)
            simp only [hgt, if_false]; omega
        have hm0 : (UInt32.ofInt s.OSAPConfig.MinMatchLen).toNat = s.OSAPConfig.MinMatchLen.toNat :=
          u32_ofInt _ _ (by omega) (by omega)
        rw [← hmaxv, ← hm0] at h1
        obtain ⟨d1, m', hgo, hD1, hw1, hl1, hcb1⟩ := loop4_eq grow (if e.m > maxLen then maxLen else e.m) ci s e.o i inn hi
          _ hcost (by rw [hmaxv]; omega) hci _ fuel d (UInt32.ofInt s.OSAPConfig.MinMatchLen) D1 hw hcb rfl
          (by rw [hmaxv]; omega) h1
        rw [hgo]
        simp only [bind_ok]
        obtain ⟨d', k', hgo', r1, r2, r3, r4⟩ := ih fuel d1 (k1 - 1) D' (by omega) (by omega) hw1 hcb1 (by omega)
          (by rw [hD1]; exact h)
        exact ⟨d', k', hgo', r1, r2, by omega, r4⟩

/-! ## the literal step -/

theorem optAbs_lit (c : UInt64) : optAbs ({ m := 1, o := 0, c := c } : GOpt) = ⟨1, 0, c.toNat⟩ := rfl

/-- `if c := d[i-1].c + lit; c < d[i].c { d[i] = opt{1, 0, c} }` for `i > 0` = `litRelaxChk` -/
theorem go_litRelax (d : GSlice GOpt) (hw : GWF d) (hcb : CB d) (lit : UInt64) (hlit : lit.toNat = xzCost 1 0)
    (i : Int) (inn : Nat) (hi : i = (inn : Int)) (hpos : 0 < inn) (D' : Array Opt)
    (h : litRelaxChk (tabAbs d) inn = some D') :
    ∃ t4 t5, GSlice.index zOpt d (i - 1) = Res.ok t4 ∧ GSlice.index zOpt d i = Res.ok t5 ∧
      ((t4.c + lit < t5.c ∧ ∃ d', GSlice.set d i ({ m := 1, o := 0, c := t4.c + lit } : GOpt) = Res.ok d' ∧
          tabAbs d' = D' ∧ GWF d' ∧ d'.len = d.len ∧ CB d') ∨
       (¬ t4.c + lit < t5.c ∧ tabAbs d = D')) := by
  unfold litRelaxChk at h
  rw [if_pos hpos] at h
  split at h
  · cases h
  · rename_i x hx
    obtain ⟨hlt, hx'⟩ := gabs_getElem?_some optAbs zOpt hw (inn - 1) x hx
    have hi4 := gindex_ok zOpt d (i - 1) (inn - 1) (by omega) hlt
    have hc4 := hcb (inn - 1) hlt
    generalize (d.arr[inn - 1]?).getD zOpt = t4 at hi4 hx' hc4
    have hl9 : xzCost 1 0 = 9 := by decide
    have hsum : (t4.c + lit).toNat = x.c + xzCost 1 0 := by
      rw [u64_add _ _ (by simp only [costB] at hc4; omega), hlit, ← hx']; rfl
    rw [← hsum, ← optAbs_lit] at h
    obtain ⟨t5, hi5, -, -, hcase⟩ := go_relax1 d hw hcb i inn hi _ D' h
    exact ⟨t4, t5, hi4, hi5, hcase⟩

/-! ## loop_2: the forward pass -/

/-- `for i, q := range edges { … }` = `dpLoopChk`.  `edges` is the re-sliced table `s.edges[k:k+n]`, `E` / `k0` the
    model's table and offset (`hEq`: element `i` of the one is element `k0 + i` of the other, every edge list is a
    well-formed slice and the fuel covers `n + len(q) + 2`). -/
theorem loop2_eq (grow : Nat → Nat → Nat) (fuel : Nat) (edges : GSlice (GSlice Gen.edge)) (E : Array (List Edge)) (k0 : Nat)
    (lit : UInt64) (hlit : lit.toNat = xzCost 1 0) (n : Int) (nn : Nat) (hn : n = (nn : Int)) (hn31 : nn ≤ 2147483647)
    (k : Int) (s : Gen.optSuffixArrayParser) (hcost : s.cost = 1)
    (hmm : 0 ≤ s.OSAPConfig.MinMatchLen) (hmm32 : s.OSAPConfig.MinMatchLen < 4294967296)
    (hEl : edges.len ≤ nn)
    (hEq : ∀ i, i < edges.len → E[k0 + i]? = some (((edges.arr[i]?).getD GSlice.nil).data.map edgeAbs) ∧
      GWF ((edges.arr[i]?).getD GSlice.nil) ∧ nn + ((edges.arr[i]?).getD GSlice.nil).len + 2 ≤ fuel) :
    ∀ (rest i : Nat) (d : GSlice GOpt) (D' : Array Opt), i + rest = edges.len → GWF d → CB d →
      dpLoopChk s.OSAPConfig.MinMatchLen.toNat nn E k0 rest i (tabAbs d) = some D' →
      ∃ d', (ghead% Gen.optSuffixArrayParser_shortestPath_loop_2 [grow := grow, fuel := fuel, edges := edges, lit := lit, n := n, k := k, s := s])
          rest (i : Int) d = Res.ok d' ∧
        tabAbs d' = D' ∧ GWF d' ∧ d'.len = d.len ∧ CB d' := by
  intro rest
  induction rest with
  | zero =>
    intro i d D' hir hw hcb h
    unfold Gen.optSuffixArrayParser_shortestPath_loop_2
    unfold dpLoopChk at h
    cases h
    exact ⟨_, rfl, rfl, hw, rfl, hcb⟩
  | succ rest ih =>
    intro i d D' hir hw hcb h
    have hilt : i < edges.len := by omega
    obtain ⟨hE1, hqw, hqf⟩ := hEq i hilt
    unfold Gen.optSuffixArrayParser_shortestPath_loop_2
    simp only [gindex_ok (GSlice.nil : GSlice Gen.edge) edges (i : Int) i rfl hilt, bind_ok]
    generalize (edges.arr[i]?).getD GSlice.nil = q at hE1 hqw hqf ⊢
    unfold dpLoopChk at h
    split at h
    · cases h
    · rename_i D1 h1
      -- the literal step: a table `d1` with `tabAbs d1 = D1`
      have hstep : ∃ d1, (if (i : Int) > 0 then
            Res.bind (GSlice.index zOpt d ((i : Int) - 1)) fun t_4 =>
            Res.bind (GSlice.index zOpt d (i : Int)) fun t_5 =>
            Res.bind (if t_4.c + lit < t_5.c then
                Res.bind (GSlice.set d (i : Int) ({ m := 1, o := 0, c := t_4.c + lit } : GOpt)) fun t_6 => Res.ok t_6
              else Res.ok d) fun join_7 => Res.ok join_7
          else Res.ok d) = Res.ok d1 ∧ tabAbs d1 = D1 ∧ GWF d1 ∧ d1.len = d.len ∧ CB d1 := by
        by_cases hi0 : 0 < i
        · have hgt : (i : Int) > 0 := by omega
          obtain ⟨t4, t5, hi4, hi5, hcase⟩ := go_litRelax d hw hcb lit hlit (i : Int) i rfl hi0 D1 h1
          simp only [hgt, if_true, hi4, hi5, bind_ok]
          rcases hcase with ⟨hlt, d1, hset, hD1, hw1, hl1, hcb1⟩ | ⟨hnlt, hD1⟩
          · simp only [hlt, if_true, hset, bind_ok]
            exact ⟨d1, rfl, hD1, hw1, hl1, hcb1⟩
          · simp only [hnlt, if_false, bind_ok]
            exact ⟨d, rfl, hD1, hw, rfl, hcb⟩
        · have hgt : ¬ (i : Int) > 0 := by omega
          have : i = 0 := by omega
          subst this
          unfold litRelaxChk at h1
          simp only [Nat.lt_irrefl, if_false, gt_iff_lt] at h1
          simp only [hgt, if_false]
          exact ⟨d, rfl, Option.some.inj h1, hw, rfl, hcb⟩
      obtain ⟨d1, hgo1, hD1, hw1, hl1, hcb1⟩ := hstep
      simp only [zOpt] at hgo1
      simp only [hgo1, bind_ok]
      rw [← hD1] at h
      -- `ci := d[i].c`
      split at h
      · cases h
      · rename_i x hx
        obtain ⟨hlt, hx'⟩ := gabs_getElem?_some optAbs zOpt hw1 i x hx
        have hi9 := gindex_ok zOpt d1 (i : Int) i rfl hlt
        have hc9 := hcb1 i hlt
        generalize (d1.arr[i]?).getD zOpt = t9 at hi9 hx' hc9
        simp only [zOpt] at hi9
        simp only [hi9, bind_ok]
        rw [hE1] at h
        simp only at h
        split at h
        · cases h
        · rename_i D2 h2
          have hml : (UInt32.ofInt (n - (i : Int))).toNat = nn - i := u32_ofInt _ _ (by omega) (by omega)
          have hci : t9.c.toNat = x.c := by rw [← hx']; rfl
          rw [← hml, ← hci, ← List.map_reverse] at h2
          have htake : (q.data.map edgeAbs).reverse = ((q.data.take q.len).map edgeAbs).reverse := by
            rw [List.take_of_length_le (by rw [gdata_length hqw]; exact Nat.le_refl _)]
          rw [List.map_reverse, htake] at h2
          obtain ⟨d2, k', hgo2, hD2, hw2, hl2, hcb2⟩ := loop3_eq grow q hqw (UInt32.ofInt (n - (i : Int))) s t9.c (i : Int) i rfl
            hcost (by rw [hml]; omega) hc9 hmm hmm32 q.len fuel d1 ((Int.ofNat q.len) - 1) D2
            (by simp only [Int.ofNat_eq_natCast]) (Nat.le_refl _) hw1 hcb1 (by rw [hml]; omega) h2
          rw [hgo2]
          simp only [bind_ok]
          obtain ⟨d', hgo', r1, r2, r3, r4⟩ := ih (i + 1) d2 D' (by omega) hw2 hcb2 (by rw [hD2]; exact h)
          refine ⟨d', ?_, r1, r2, by omega, r4⟩
          rw [← hgo']
          rfl

/-! ## loop_1: the initial table -/

/-- entry `j ≠ 0` of the initial table: a run of `j` literals -/
def goD0 (j : Nat) : GOpt := { m := 1, o := 0, c := Gen.XZCost (UInt32.ofInt (j : Int)) 0 }

/-- `for i := range d { if i == 0 { continue }; d[i] = opt{1, 0, cost(uint32(i), 0)} }`: the entries from `i` on
    (except entry 0) are overwritten, the others are kept -/
theorem loop1_eq (grow : Nat → Nat → Nat) (fuel : Nat) (s : Gen.optSuffixArrayParser) (hcost : s.cost = 1) :
    ∀ (rest i : Nat) (d : GSlice GOpt), i + rest = d.len → GWF d →
      ∃ d', (ghead% Gen.optSuffixArrayParser_shortestPath_loop_1 [grow := grow, fuel := fuel, s := s]) rest (i : Int) d = Res.ok d' ∧
        GWF d' ∧ d'.len = d.len ∧
        (∀ j, (j < i ∨ j = 0) → d'.arr[j]? = d.arr[j]?) ∧
        (∀ j, i ≤ j → j < d.len → j ≠ 0 → d'.arr[j]? = some (goD0 j)) := by
  intro rest
  induction rest with
  | zero =>
    intro i d hir hw
    unfold Gen.optSuffixArrayParser_shortestPath_loop_1
    exact ⟨d, rfl, hw, rfl, fun _ _ => rfl, fun j h1 h2 _ => by omega⟩
  | succ rest ih =>
    intro i d hir hw
    have hilt : i < d.len := by omega
    have hcast : ((i : Int) + 1) = ((i + 1 : Nat) : Int) := by omega
    unfold Gen.optSuffixArrayParser_shortestPath_loop_1
    by_cases hi0 : i = 0
    · subst hi0
      -- `if i == 0 { continue }` or `if i != 0 { … }`: either spelling, either arm order
      simp only [Int.natCast_zero, if_true, ne_eq, not_true_eq_false, if_false, bind_ok]
      obtain ⟨d', hgo, r1, r2, r3, r4⟩ := ih 1 d (by omega) hw
      refine ⟨d', hgo, r1, r2, fun j hj => r3 j (by omega), ?_⟩
      intro j h1 h2 h3
      exact r4 j (by omega) h2 h3
    · have hne : ¬ (i : Int) = 0 := by omega
      simp only [hne, if_false, ne_eq, not_false_eq_true, if_true, cost_ok _ hcost, bind_ok, gset_ok d (i : Int) i rfl hilt]
      rw [hcast]
      obtain ⟨d', hgo, r1, r2, r3, r4⟩ := ih (i + 1) { d with arr := d.arr.set i (goD0 i) } (by show i + 1 + rest = d.len; omega)
        (gset_wf hw i _)
      refine ⟨d', hgo, r1, r2, ?_, ?_⟩
      · intro j hj
        rw [r3 j (by omega)]
        simp only [List.getElem?_set]
        rw [if_neg (by omega)]
      · intro j h1 h2 h3
        by_cases hji : j = i
        · subst hji
          rw [r3 j (by omega)]
          unfold GWF at hw
          simp only [List.getElem?_set, if_true]
          rw [if_pos (by omega)]
        · exact r4 j (by omega) h2 h3

theorem optAbs_goD0 (j : Nat) (hj : j < 4294967296) : optAbs (goD0 j) = ⟨1, 0, xzCost j 0⟩ := by
  simp only [optAbs, goD0, gen_cost_toNat, u32_ofInt j _ rfl hj]
  rfl

/-- the table `loop_1` leaves is the model's `d0`, and its costs `9·j` are below the bound -/
theorem d0_eq (d : GSlice GOpt) (hw : GWF d) (nn : Nat) (hlen : d.len = nn + 1) (hn31 : nn ≤ 2147483647)
    (h0 : d.arr[0]? = some zOpt) (hj : ∀ j, j < d.len → j ≠ 0 → d.arr[j]? = some (goD0 j)) :
    tabAbs d = (Array.range (nn + 1)).map (fun i => if i = 0 then (⟨0, 0, 0⟩ : Opt) else ⟨1, 0, xzCost i 0⟩) ∧ CB d := by
  constructor
  · apply Array.ext_getElem?
    intro k
    by_cases hk : k < nn + 1
    · unfold tabAbs
      rw [gabs_getElem? optAbs zOpt hw k (by omega)]
      by_cases hk0 : k = 0
      · subst hk0
        rw [h0]
        simp [optAbs]
      · rw [hj k (by omega) hk0]
        simp [hk, hk0, optAbs_goD0 k (by omega)]
    · unfold tabAbs
      rw [gabs_getElem?_none optAbs d k (by omega)]
      simp [hk]
  · intro k hk
    by_cases hk0 : k = 0
    · subst hk0
      rw [h0]; simp [costB]
    · rw [hj k hk hk0]
      have := congrArg Opt.c (optAbs_goD0 k (by omega))
      simp only [optAbs, xzCost_zero] at this
      simp only [Option.getD_some, costB]
      omega

/-! ## loop_5: the back-tracking -/

theorem gmem_of_lt {α : Type} {s : GSlice α} (h : GWF s) (i : Nat) (hi : i < s.len) (z : α) :
    (s.arr[i]?).getD z ∈ s.data := by
  have : s.data[i]? = some ((s.arr[i]?).getD z) := by
    rw [gdata_getElem?, if_pos hi]
    unfold GWF at h
    rw [List.getElem?_eq_getElem (by omega)]; rfl
  exact List.mem_of_getElem? this

/-- `for i != 0 { m, o := d[i].m, d[i].o; p = append(p, edge{m, o}); i -= m }` = `backtrackChk`: the model conses the
    edges onto `acc`, the Go text appends them to `p`, so `p = P0 ++ acc.reverse` throughout.  The Go loop needs one
    unit of fuel more than the model (for the final test). -/
theorem loop5_eq (grow : Nat → Nat → Nat) (d : GSlice GOpt) (hw : GWF d) (P0 : List Edge) :
    ∀ (mf gf : Nat) (p : GSlice Gen.edge) (i : UInt32) (acc path : List Edge), mf + 1 ≤ gf → GWF p →
      p.data.map edgeAbs = P0 ++ acc.reverse →
      backtrackChk (tabAbs d) mf i.toNat acc = some path →
      ∃ p' i', (ghead% Gen.optSuffixArrayParser_shortestPath_loop_5 [grow := grow, d := d]) gf p i = Res.ok (p', i') ∧
        p'.data.map edgeAbs = P0 ++ path.reverse ∧ GWF p' := by
  intro mf
  induction mf with
  | zero =>
    intro gf p i acc path hf hp hinv h
    cases gf with
    | zero => omega
    | succ gf =>
      unfold backtrackChk at h
      split at h
      · rename_i hi0
        have hi : i = 0 := UInt32.toNat_inj.1 hi0
        unfold Gen.optSuffixArrayParser_shortestPath_loop_5
        -- either spelling of the guard: `i != 0` / `i > 0` / `0 < i`
        have h00 : ((0 : UInt32) < 0) = False := eq_false (by decide)
        simp only [hi, ne_eq, not_true_eq_false, if_false, gt_iff_lt, h00]
        cases h
        exact ⟨_, _, rfl, hinv, hp⟩
      · cases h
  | succ mf ih =>
    intro gf p i acc path hf hp hinv h
    cases gf with
    | zero => omega
    | succ gf =>
      unfold backtrackChk at h
      unfold Gen.optSuffixArrayParser_shortestPath_loop_5
      split at h
      · rename_i hi0
        have hi : i = 0 := UInt32.toNat_inj.1 hi0
        -- either spelling of the guard: `i != 0` / `i > 0` / `0 < i`
        have h00 : ((0 : UInt32) < 0) = False := eq_false (by decide)
        simp only [hi, ne_eq, not_true_eq_false, if_false, gt_iff_lt, h00]
        cases h
        exact ⟨_, _, rfl, hinv, hp⟩
      · rename_i hi0
        have hi : i ≠ 0 := fun e => hi0 (by rw [e]; rfl)
        split at h
        · cases h
        · rename_i e he
          obtain ⟨hlt, he'⟩ := gabs_getElem?_some optAbs zOpt hw i.toNat e he
          have hidx := gindex_ok zOpt d (Int.ofNat i.toNat) i.toNat (by simp only [Int.ofNat_eq_natCast]) hlt
          generalize (d.arr[i.toNat]?).getD zOpt = t at hidx he'
          simp only [zOpt] at hidx
          have hpos : ((0 : UInt32) < i) = True := eq_true (by
            rw [UInt32.lt_iff_toNat_lt]; exact Nat.pos_of_ne_zero hi0)
          simp only [hi, hpos, gt_iff_lt, ne_eq, not_false_eq_true, if_true, hidx, bind_ok]
          split at h
          · rename_i hmi
            have hmle : t.m ≤ i := by
              rw [UInt32.le_iff_toNat_le]; rw [← he'] at hmi; exact hmi
            have hsub : (i - t.m).toNat = i.toNat - e.m := by
              rw [UInt32.toNat_sub_of_le _ _ hmle, ← he']; rfl
            obtain ⟨ad, aw⟩ := gappend_data ({ m := 0, o := 0 } : Gen.edge) grow p hp ({ m := t.m, o := t.o } : Gen.edge)
            rw [← hsub] at h
            exact ih gf _ (i - t.m) ((e.m, e.o) :: acc) path (by omega) aw
              (by rw [ad, List.map_append, hinv, ← he']; simp [edgeAbs, optAbs]) h
          · cases h

/-! ## the function -/

/-- **`shortestPath` of the Go text = the range-checked model.**  Whenever `Idx.shortestPathChk` succeeds on the
    abstraction of the parser state, the translated Go text succeeds — no index / slice panic, no `Res.fuel` — and
    appends exactly the model's path, in reversed order (`backtrack` returns it in forward order), to `p`.

    Hypotheses (all hold in reachable parser states):
    * `hcost`  the field `cost` holds `XZCost` (code 1; the only function ever stored there);
    * `hn31`   `n ≤ MaxInt32` (`n ≤ BlockSize ≤ BufferSize ≤ MaxInt32` by `Verify`): `uint32(n - i)`, `uint32(i)` are exact,
               `m++` does not wrap, `9·n` and all sums of costs fit `uint64`.  `0 < n` is not assumed: it follows from `h`
               (`shortestPathChk` fails for `n = 0`, where the Go text reads `d[-1]`);
    * `hk`     `s.start ≤ s.W` (`OsapOK`), so that `k := s.W - s.start` is the model's natural number `k0`;
    * `hE`, `hq`, `hp`  `len ≤ cap` for `s.edges`, each of its elements, and `p` (representation invariant of slice values);
    * `hmm`, `hmm32`  `0 ≤ MinMatchLen < 2^32` (`Verify`: `2 ≤ MinMatchLen ≤ MaxMatchLen ≤ 273`…): `uint32(s.MinMatchLen)` is exact;
    * `hfq`    fuel: loop_3 and loop_4 share one counter, an edge list `q` costs at most `len(q) + (n - i) + 2` units;
               the back-tracking needs `n + 1` (implied, since `h` forces at least one edge list);
    * `h`      the checked model succeeds: `k0 + n ≤ len(s.edges)`, every table access in range, the
               back-tracking ends with `m ≤ i` at every step (`shortestPathChk_eq`: true for `n ≠ 0`, `k0 + n ≤ len`). -/
theorem gen_osap_shortestPath (grow : Nat → Nat → Nat) (fuel : Nat) (s : Gen.optSuffixArrayParser) (p : GSlice Gen.edge)
    (n : Int) (path : List Edge)
    (hcost : s.cost = 1)
    (hn31 : n ≤ 2147483647)
    (hk : 0 ≤ s.ParserBuffer.W - s.start)
    (hE : GWF s.edges) (hq : ∀ q ∈ s.edges.data, GWF q)
    (hmm : 0 ≤ s.OSAPConfig.MinMatchLen) (hmm32 : s.OSAPConfig.MinMatchLen < 4294967296)
    (hp : GWF p)
    (hfq : ∀ q ∈ s.edges.data, n.toNat + q.len + 2 ≤ fuel)
    (h : Idx.shortestPathChk s.OSAPConfig.MinMatchLen.toNat n.toNat (edgesAbs s.edges)
          (s.ParserBuffer.W - s.start).toNat = some path) :
    ∃ p', Gen.optSuffixArrayParser_shortestPath grow fuel s p n = Res.ok p' ∧
      p'.data.map edgeAbs = p.data.map edgeAbs ++ path.reverse ∧ GWF p' := by
  generalize hnn : n.toNat = nn at h hfq
  generalize hk0 : (s.ParserBuffer.W - s.start).toNat = k0 at h
  have hkk : s.ParserBuffer.W - s.start = (k0 : Int) := by omega
  -- the model side, step by step
  unfold shortestPathChk at h
  split at h
  case isFalse => cases h
  rename_i hsz
  rw [edgesAbs_size hE] at hsz
  simp only at h
  split at h
  · cases h
  rename_i D2 hdp
  split at h
  · cases h
  rename_i hn0
  have hn : n = (nn : Int) := by omega
  split at h
  · cases h
  rename_i D3 hlr
  -- the Go side
  have hcap : s.edges.len ≤ s.edges.arr.length := hE
  have hslice := gslice_ok s.edges (s.ParserBuffer.W - s.start) (s.ParserBuffer.W - s.start + n) k0 (k0 + nn) hkk
    (by omega) (by omega) (by omega)
  have hmake := gmake_ok zOpt (n + 1) (n + 1) (nn + 1) (nn + 1) (by omega) (by omega) (Nat.le_refl _)
  -- loop_1
  obtain ⟨d1, hgo1, hw1, hl1, hk1, hv1⟩ := loop1_eq grow fuel s hcost (nn + 1) 0
    { arr := List.replicate (nn + 1) zOpt, len := nn + 1 } (by simp) (by unfold GWF; simp)
  simp only [Int.natCast_zero] at hgo1
  obtain ⟨hD1, hcb1⟩ := d0_eq d1 hw1 nn hl1 (by omega)
    (by rw [hk1 0 (Or.inr rfl)]; simp)
    (fun j h1 h2 => hv1 j (Nat.zero_le _) (by rw [← hl1]; exact h1) h2)
  -- loop_2
  have hlit : (Gen.XZCost 1 0).toNat = xzCost 1 0 := by rw [gen_cost_toNat]; rfl
  rw [← hD1] at hdp
  obtain ⟨d2, hgo2, hD2, hw2, hl2, hcb2⟩ := loop2_eq grow fuel { arr := s.edges.arr.drop k0, len := k0 + nn - k0 }
    (edgesAbs s.edges) k0 (Gen.XZCost 1 0) hlit n nn hn (by omega) (s.ParserBuffer.W - s.start) s hcost hmm hmm32
    (by show k0 + nn - k0 ≤ nn; omega)
    (by
      intro i hi
      have hi' : k0 + i < s.edges.len := by
        have : i < k0 + nn - k0 := hi
        omega
      simp only [List.getElem?_drop]
      have hmem := gmem_of_lt hE (k0 + i) hi' (GSlice.nil : GSlice Gen.edge)
      exact ⟨edgesAbs_getElem? hE (k0 + i) hi', hq _ hmem, hfq _ hmem⟩)
    (k0 + nn - k0) 0 d1 D2 (by simp) hw1 hcb1
    (by rw [show k0 + nn - k0 = nn by omega]; exact hdp)
  simp only [Int.natCast_zero] at hgo2
  -- the last literal step
  rw [← hD2] at hlr
  obtain ⟨t6, t7, hi6, hi7, hcase⟩ := go_litRelax d2 hw2 hcb2 (Gen.XZCost 1 0) hlit n nn hn (by omega) D3 hlr
  -- fuel of the back-tracking
  have hfuel : nn + 1 ≤ fuel := by
    have hpos : 0 < s.edges.len := by omega
    have := hfq _ (gmem_of_lt hE 0 hpos (GSlice.nil : GSlice Gen.edge))
    omega
  have hi32 : (UInt32.ofInt n).toNat = nn := u32_ofInt nn n hn (by omega)
  unfold Gen.optSuffixArrayParser_shortestPath
  simp only [zOpt] at hmake hi6 hi7 hcase
  simp only [hslice, bind_ok, hmake, hgo1, cost_ok _ hcost, hgo2, hi6, hi7]
  rcases hcase with ⟨hlt, d3, hset, hD3, hw3, hl3, hcb3⟩ | ⟨hnlt, hD3⟩
  · simp only [hlt, if_true, hset, bind_ok]
    rw [← hD3] at h
    obtain ⟨p', i', hgo5, r1, r2⟩ := loop5_eq grow d3 hw3 (p.data.map edgeAbs) nn fuel p (UInt32.ofInt n) [] path hfuel hp
      (by simp) (by rw [hi32]; exact h)
    simp only [hgo5, bind_ok]
    exact ⟨p', rfl, r1, r2⟩
  · simp only [hnlt, if_false, bind_ok]
    rw [← hD3] at h
    obtain ⟨p', i', hgo5, r1, r2⟩ := loop5_eq grow d2 hw2 (p.data.map edgeAbs) nn fuel p (UInt32.ofInt n) [] path hfuel hp
      (by simp) (by rw [hi32]; exact h)
    simp only [hgo5, bind_ok]
    exact ⟨p', rfl, r1, r2⟩

/-- the length of the result -/
theorem gen_osap_shortestPath_len {p p' : GSlice Gen.edge} {path : List Edge} (hp : GWF p) (hp' : GWF p')
    (h : p'.data.map edgeAbs = p.data.map edgeAbs ++ path.reverse) : p'.len = p.len + path.length := by
  have := congrArg List.length h
  simpa [gdata_length hp, gdata_length hp'] using this

/-- the entries of the model's path are `uint32` values -/
theorem gen_osap_shortestPath_u32 {p p' : GSlice Gen.edge} {path : List Edge}
    (h : p'.data.map edgeAbs = p.data.map edgeAbs ++ path.reverse) :
    ∀ e ∈ path, e.1 < 4294967296 ∧ e.2 < 4294967296 := by
  intro e he
  have : e ∈ p'.data.map edgeAbs := by rw [h]; simp [he]
  obtain ⟨x, -, rfl⟩ := List.mem_map.1 this
  exact ⟨UInt32.toNat_lt x.m, UInt32.toNat_lt x.o⟩

/-- the same against the unchecked model `shortestPath` (LzModel/Sap.lean), through `Idx.shortestPathChk_eq`: for a block of
    `1 ≤ n ≤ MaxInt32` bytes covered by the edge table (`k0 + n ≤ len(s.edges)`, the test of `Parse` before the call) the
    Go text never panics and appends `shortestPath …` reversed -/
theorem gen_osap_shortestPath_model (grow : Nat → Nat → Nat) (fuel : Nat) (s : Gen.optSuffixArrayParser) (p : GSlice Gen.edge)
    (n : Int)
    (hcost : s.cost = 1)
    (hn1 : 1 ≤ n) (hn31 : n ≤ 2147483647)
    (hk : 0 ≤ s.ParserBuffer.W - s.start)
    (hlen : s.ParserBuffer.W - s.start + n ≤ (s.edges.len : Int))
    (hE : GWF s.edges) (hq : ∀ q ∈ s.edges.data, GWF q)
    (hmm : 0 ≤ s.OSAPConfig.MinMatchLen) (hmm32 : s.OSAPConfig.MinMatchLen < 4294967296)
    (hp : GWF p)
    (hfq : ∀ q ∈ s.edges.data, n.toNat + q.len + 2 ≤ fuel) :
    ∃ p', Gen.optSuffixArrayParser_shortestPath grow fuel s p n = Res.ok p' ∧
      p'.data.map edgeAbs = p.data.map edgeAbs ++
        (shortestPath s.OSAPConfig.MinMatchLen.toNat n.toNat (edgesAbs s.edges) (s.ParserBuffer.W - s.start).toNat).reverse ∧
      GWF p' ∧
      p'.len = p.len +
        (shortestPath s.OSAPConfig.MinMatchLen.toNat n.toNat (edgesAbs s.edges) (s.ParserBuffer.W - s.start).toNat).length := by
  have h := shortestPathChk_eq s.OSAPConfig.MinMatchLen.toNat n.toNat (edgesAbs s.edges) (s.ParserBuffer.W - s.start).toNat
    (by omega) (by rw [edgesAbs_size hE]; omega)
  obtain ⟨p', h1, h2, h3⟩ := gen_osap_shortestPath grow fuel s p n _ hcost hn31 hk hE hq hmm hmm32 hp hfq h
  exact ⟨p', h1, h2, h3, gen_osap_shortestPath_len hp h3 h2⟩

/-! ## non-vacuity: the translated function run on a small state (block of 3 bytes, one edge `(m = 2, o = 1)` at position 1) -/

section Examples

/-- `W = start = 0`, `MinMatchLen = 2`, `cost = XZCost`, `edges = [[], [(2,1)], []]` (the middle list with spare capacity) -/
def exS : Gen.optSuffixArrayParser :=
  { (default : Gen.optSuffixArrayParser) with
    cost := 1
    OSAPConfig := { (default : Gen.OSAPConfig) with MinMatchLen := 2 }
    edges := { arr := [GSlice.nil, { arr := [{ m := 2, o := 1 }, { m := 7, o := 7 }], len := 1 }, GSlice.nil], len := 3 } }

-- model: literal, then the match; Go: appended in reversed order behind what `p` holds
#guard shortestPath 2 3 (edgesAbs exS.edges) 0 == [(1, 0), (2, 1)]
#guard (match Gen.optSuffixArrayParser_shortestPath (fun _ n => 2 * n) 10 exS { arr := [{ m := 9, o := 9 }], len := 1 } 3 with
        | Res.ok p' => p'.data.map edgeAbs == [(9, 9), (2, 1), (1, 0)]
        | _ => false)
-- too little fuel is reported as `Res.fuel`, a block longer than the table as a panic
#guard (match Gen.optSuffixArrayParser_shortestPath (fun _ n => 2 * n) 2 exS GSlice.nil 3 with | Res.fuel => true | _ => false)
#guard (match Gen.optSuffixArrayParser_shortestPath (fun _ n => 2 * n) 10 exS GSlice.nil 4 with | Res.panic => true | _ => false)

end Examples

#print axioms LZ.GenOSAP.gen_osap_shortestPath
#print axioms LZ.GenOSAP.gen_osap_shortestPath_model
#print axioms LZ.GenOSAP.gen_osap_shortestPath_len
#print axioms LZ.GenOSAP.gen_osap_shortestPath_u32

end LZ.GenOSAP
