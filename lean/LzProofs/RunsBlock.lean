/-
  LzProofs.RunsBlock — block level of the run clause of C19 for HP / BHP:
  if the table at `Parse` entry (after `processSegment`) covers every position `q` with
  `q + inputLen ≤ W` (`HashT.Cov`), a block of `n ≥ 32` equal bytes is parsed into at most one
  literal followed by matches that reach the block end.
-/
import LzProofs.RunsLemmas
namespace LZ

/-- the block `[w, w+n)` at the end of the block prefix `p` consists of `n ≥ 32` bytes `b` -/
structure RunBlock (p : List Byte) (w n : Nat) (b : Byte) : Prop where
  len : p.length = w + n
  n32 : 32 ≤ n
  run : ∀ t, t < n → p[w + t]? = some b

theorem RunBlock.at {p : List Byte} {w n : Nat} {b : Byte} (h : RunBlock p w n b) (t : Nat)
    (h1 : w ≤ t) (h2 : t < p.length) : p[t]? = some b := by
  have := h.run (t - w) (by have := h.len; omega)
  have e : w + (t - w) = t := by omega
  rw [e] at this; exact this

/-- the last step: the slot of the current position `i` (inside the run, behind its first byte)
    holds `i - 1`; the probe reports the match `(i - m, …, 1)` that reaches the block end -/
theorem hp_final_step (ws mm ie il : Nat) (back : Bool) (p : List Byte) (w n : Nat) (b : Byte)
    (hR : RunBlock p w n b) (hil1 : 1 ≤ il) (hie : ie = p.length + 1 - il) (hws : 1 ≤ ws)
    (hmm : mm ≤ 3) (st : LoopSt HashT)
    (hi1 : w + 1 ≤ st.i) (hi2 : st.i + il ≤ w + n) (hi3 : st.i + 3 ≤ w + n)
    (hli : st.litIndex ≤ st.i)
    (hslot : st.dict.slot (st.dict.key p st.i) = (st.i - 1, lo32 (st.dict.key p st.i))) :
    (greedyLoop ⟨hpProbe ws mm ie back⟩ p ie st).litIndex = p.length ∧
    (greedyLoop ⟨hpProbe ws mm ie back⟩ p ie st).lits.length ≤ st.lits.length + (st.i - st.litIndex) := by
  have hlen := hR.len
  have hlcp : lcpLen (p.drop (st.i - 1)) (p.drop st.i) = p.length - st.i :=
    lcpLen_run p b (st.i - 1) st.i (by omega) (by omega) (fun t h1 h2 => hR.at t (by omega) h2)
  have hpe := hpProbe_eq ws mm ie back st.dict p st.i st.litIndex
  simp only [hslot] at hpe
  rw [hlcp, if_pos ⟨trivial, by omega, by omega, by omega⟩] at hpe
  have hm : (if back = true then backExt p st.i st.litIndex (st.i - 1) else 0) ≤ st.i - st.litIndex := by
    split
    · exact (backExt_le p st.i st.litIndex (st.i - 1) (by omega)).1
    · omega
  generalize (if back = true then backExt p st.i st.litIndex (st.i - 1) else 0) = m at hpe hm
  have hlt : st.i < ie := by omega
  rw [greedyLoop_some _ _ _ _ _ _ _ _ hlt hpe (by omega), greedyLoop_done _ _ _ _ (by simp only; omega)]
  refine ⟨by simp only; omega, ?_⟩
  simp only [List.length_append, List.length_take, List.length_drop]
  omega

/-- the greedy loop of HP / BHP on a run block, from a table that covers the positions before
    `w + 1 - inputLen` -/
theorem hp_run_loop (ws mm : Nat) (back : Bool) (h : HashT) (p : List Byte) (w n : Nat) (b : Byte)
    (hR : RunBlock p w n b) (hs : h.SizeOK) (hil1 : 1 ≤ h.inputLen) (hil8 : h.inputLen ≤ 8)
    (hws : 1 ≤ ws) (hmm1 : 1 ≤ mm) (hmm3 : mm ≤ 3) (hcov : h.Cov p (w + 1 - h.inputLen)) :
    (greedyLoop ⟨hpProbe ws mm (p.length + 1 - h.inputLen) back⟩ p (p.length + 1 - h.inputLen)
      { dict := h, i := w, litIndex := w, seqs := [], lits := [] }).litIndex = p.length ∧
    (greedyLoop ⟨hpProbe ws mm (p.length + 1 - h.inputLen) back⟩ p (p.length + 1 - h.inputLen)
      { dict := h, i := w, litIndex := w, seqs := [], lits := [] }).lits.length ≤ 1 := by
  have hlen := hR.len
  have hn := hR.n32
  -- all positions in the run whose key bytes are inside the block have the key of `w`
  have hkey : ∀ q, w ≤ q → q + h.inputLen ≤ w + n → h.key p q = h.key p w := by
    intro q h1 h2
    exact key_run h p b q w (fun t ht => hR.at _ (by omega) (by omega))
      (fun t ht => hR.at _ (by omega) (by omega))
  generalize hie : p.length + 1 - h.inputLen = ie
  have hlt : w < ie := by omega
  have hpe := hpProbe_eq ws mm ie back h p w w
  by_cases hc : lo32 (h.key p w) = (h.slot (h.key p w)).2 ∧ (h.slot (h.key p w)).1 < w ∧
      w - (h.slot (h.key p w)).1 ≤ ws ∧ mm ≤ lcpLen (p.drop (h.slot (h.key p w)).1) (p.drop w)
  · -- a match from an older entry
    rw [if_pos hc] at hpe
    have hb0 : (if back = true then backExt p w w (h.slot (h.key p w)).1 else 0) = 0 := by
      split
      · rw [backExt_eq, if_neg (by omega)]
      · rfl
    rw [hb0] at hpe
    simp only [Nat.sub_zero, Nat.add_zero] at hpe
    obtain ⟨hc1, hc2, hc3, hc4⟩ := hc
    generalize hj : (h.slot (h.key p w)).1 = j at hpe hc2 hc3 hc4
    have hkn := lcpLen_le_right (p.drop j) (p.drop w)
    simp only [List.length_drop] at hkn
    generalize hk : lcpLen (p.drop j) (p.drop w) = k at hpe hc4 hkn
    by_cases hkn' : k = n
    · -- the match covers the whole block
      subst hkn'
      rw [greedyLoop_some _ _ _ _ _ _ _ _ hlt hpe (by simp only; omega),
        greedyLoop_done _ _ _ _ (by simp only; omega)]
      refine ⟨by simp only; omega, ?_⟩
      simp
    · -- a short match: at most `inputLen` bytes
      obtain ⟨hpre, hjk⟩ := lcpLen_run_short p b j w hc2 (by omega)
        (fun t h1 h2 => hR.at t h1 h2) (by rw [hk]; omega)
      rw [hk] at hpre hjk
      have hkil : k ≤ h.inputLen := by
        apply Decidable.byContradiction
        intro hgt
        have hq := hcov (j + 1) (by omega)
        have hkq : h.key p (j + 1) = h.key p w :=
          key_run h p b (j + 1) w
            (fun t ht => by
              have := hpre (1 + t) (by omega)
              rw [← Nat.add_assoc] at this; exact this)
            (fun t ht => hR.at _ (by omega) (by omega))
        rw [hkq, hj] at hq
        omega
      have hmin : min (w + k) ie - (w + 1) = k - 1 := by omega
      rw [hmin] at hpe
      have hk1 : k - 1 + 1 = k := by omega
      have hd' : (h.insert p w).insertRange p (w + 1) (k - 1) = h.insertRange p w (k - 1 + 1) :=
        (HashT.insertRange_succ h p w (k - 1)).symm
      rw [hd'] at hpe
      rw [greedyLoop_some _ _ _ _ _ _ _ _ hlt hpe (by simp only; omega)]
      dsimp only
      have hfin := hp_final_step ws mm ie h.inputLen back p w n b hR hil1 hie.symm hws hmm3
        { dict := h.insertRange p w (k - 1 + 1), i := w + k, litIndex := w + k,
          seqs := [] ++ [{ litLen := ((p.drop w).take (w - w)).length, matchLen := k, offset := w - j }],
          lits := [] ++ (p.drop w).take (w - w) }
        (by simp only; omega) (by simp only; omega) (by simp only; omega) (Nat.le_refl _)
        (by
          simp only
          rw [HashT.insertRange_key, hkey (w + k) (by omega) (by omega),
            HashT.slot_insertRange_same p (h.key p w) (k - 1) w h hs
              (fun q h1 h2 => hkey q h1 (by omega))]
          congr 1; omega)
      refine ⟨hfin.1, ?_⟩
      have := hfin.2
      dsimp only at this
      simp only [List.nil_append, Nat.sub_self, List.take_zero, List.length_nil] at this ⊢
      omega
  · -- no match at `w`: one literal, then the match with offset 1
    rw [if_neg hc] at hpe
    rw [greedyLoop_none _ _ _ _ _ hlt hpe]
    dsimp only
    have hfin := hp_final_step ws mm ie h.inputLen back p w n b hR hil1 hie.symm hws hmm3
      { dict := h.insert p w, i := w + 1, litIndex := w, seqs := [], lits := [] }
      (by simp only; omega) (by simp only; omega) (by simp only; omega) (by simp only; omega)
      (by
        simp only
        rw [HashT.insert_key, hkey (w + 1) (by omega) (by omega), HashT.slot_insert_self h hs]
        congr 1)
    refine ⟨hfin.1, ?_⟩
    have := hfin.2
    dsimp only at this
    simp only [List.length_nil] at this
    omega

/-- **block level, HP / BHP**: `runGreedy` on a run block without `NoTrailingLiterals` emits at
    most one literal -/
theorem hp_run_block (ws mm : Nat) (back : Bool) (h : HashT) (p : List Byte) (w n : Nat) (b : Byte)
    (flags : Nat) (hf : flags % 2 = 0)
    (hR : RunBlock p w n b) (hs : h.SizeOK) (hil1 : 1 ≤ h.inputLen) (hil8 : h.inputLen ≤ 8)
    (hws : 1 ≤ ws) (hmm1 : 1 ≤ mm) (hmm3 : mm ≤ 3) (hcov : h.Cov p (w + 1 - h.inputLen)) :
    (Parser.runGreedy ⟨hpProbe ws mm (p.length + 1 - h.inputLen) back⟩ h p w
      (p.length + 1 - h.inputLen) flags).2.2.1.lits.length ≤ 1 := by
  obtain ⟨h1, h2⟩ := hp_run_loop ws mm back h p w n b hR hs hil1 hil8 hws hmm1 hmm3 hcov
  unfold Parser.runGreedy
  simp only []
  unfold finishBlock
  rw [if_neg (by omega)]
  simp only [List.length_append, List.length_drop]
  omega

end LZ
